(* The reject-mode controller of Model/Hotspot.v ([reject_check]: two LRU caches, int64
   arithmetic) against the token bucket of one value ([bucket_step]):
   - lockstep of the two caches and absence of the spinning branch, for every history;
   - under a no-overflow guard the check of value k is one [bucket_step] on k's cell;
   - a check of another value leaves k's cell alone or evicts it;
   - projection: while v is not evicted, the decisions for v in any multi-value history are
     those of the history restricted to v (independence), hence the envelope theorems. *)
From SG Require Import Base.Prelude Base.GoInt Model.LRU Model.Hotspot
  Proofs.LRUProofs Proofs.HotspotBucketProofs.
#[local] Open Scope Z_scope.

#[local] Transparent two63 two64.
Lemma i64_small x : - 9223372036854775808 <= x < 9223372036854775808 -> i64 x = x.
Proof. intros H. apply i64_id. unfold in_i64, two63. lia. Qed.
#[local] Opaque two63 two64.

Definition two62 : Z := 4611686018427387904.

Lemma cache_size_pos r : 1 <= cache_size r.
Proof.
  unfold cache_size, ParamsMaxCapacity, ConcurrencyMaxCount.
  destruct (r_metric r =? 1).
  - destruct (0 <? r_cap r) eqn:E1.
    + destruct (r_cap r <=? 0) eqn:E2; lia.
    + destruct (r_dur r =? 0); [cbn; lia|].
      destruct (i64 (ParamsCapacityBase * r_dur r) <? 20000) eqn:E3.
      * destruct (i64 (ParamsCapacityBase * r_dur r) <=? 0) eqn:E4; lia.
      * cbn. lia.
  - destruct (0 <? r_cap r) eqn:E1; lia.
Qed.

(* ---- closed forms of the cache operations on a real key ----------------------------- *)

Section Closed.
Context {V : Type}.
Implicit Types (l : lru V).

Lemma aia_absent cap k (v : V) l : real_key k -> alookup k l = None ->
  lru_add_if_absent cap k v l = (lru_trim cap ((k, v) :: l), None).
Proof. intros Hr H. unfold lru_add_if_absent. now rewrite (lru_find_real _ _ Hr), H. Qed.

Lemma aia_present cap k (v x : V) l : real_key k -> alookup k l = Some x ->
  lru_add_if_absent cap k v l = ((k, x) :: lru_del k l, Some x).
Proof. intros Hr H. unfold lru_add_if_absent. now rewrite (lru_find_real _ _ Hr), H. Qed.

Lemma get_present k (x : V) l : real_key k -> alookup k l = Some x ->
  lru_get k l = ((k, x) :: lru_del k l, Some x).
Proof. intros Hr H. unfold lru_get. now rewrite (lru_find_real _ _ Hr), H. Qed.

Lemma set_front k (x y : V) l : lru_set k y ((k, x) :: l) = (k, y) :: l.
Proof. cbn [lru_set]. now rewrite Z.eqb_refl. Qed.

Lemma look_front k (x : V) l : alookup k ((k, x) :: l) = Some x.
Proof. cbn [alookup]. now rewrite Z.eqb_refl. Qed.

Lemma look_front_other k k' (x : V) l : k' <> k -> alookup k' ((k, x) :: lru_del k l) = alookup k' l.
Proof. intros H. cbn [alookup]. destruct (k' =? k) eqn:E; [lia|]. now apply alookup_del_other. Qed.

Lemma look_trim_front cap k (x : V) l : 1 <= cap -> alookup k (lru_trim cap ((k, x) :: l)) = Some x.
Proof.
  intros Hc. unfold lru_trim. destruct (cap <? _) eqn:E; [|apply look_front].
  destruct l as [|p r]; [cbn in E; lia|].
  change (removelast ((k, x) :: p :: r)) with ((k, x) :: removelast (p :: r)). apply look_front.
Qed.

Lemma look_trim_other cap k k' (x : V) l : k' <> k ->
  alookup k' (lru_trim cap ((k, x) :: l)) = alookup k' l \/ alookup k' (lru_trim cap ((k, x) :: l)) = None.
Proof.
  intros Hn. unfold lru_trim. destruct (cap <? _).
  - destruct (alookup_removelast k' ((k, x) :: l)) as [H|H]; [left|right; exact H].
    rewrite H. cbn [alookup]. destruct (k' =? k) eqn:E2; [lia|reflexivity].
  - left. cbn [alookup]. destruct (k' =? k) eqn:E2; [lia|reflexivity].
Qed.

Lemma keys_front k (x : V) l : lru_keys ((k, x) :: lru_del k l) = touch k (lru_keys l).
Proof. apply front_keys. Qed.

Lemma keys_trim_front cap k (x : V) l : lru_keys (lru_trim cap ((k, x) :: l)) = key_trim cap (k :: lru_keys l).
Proof. rewrite keys_lru_trim. reflexivity. Qed.

Lemma same_keys_lookup {W : Type} k l (l2 : lru W) : lru_keys l = lru_keys l2 ->
  (alookup k l = None <-> alookup k l2 = None).
Proof. intros H. rewrite !alookup_none_notin, H. tauto. Qed.
End Closed.

(* ---- lockstep, for every history ------------------------------------------------------ *)

Definition lockstep (m : metric) : Prop := lru_keys (m_time m) = lru_keys (m_tok m).

(* the token-bucket cell of a value as the two caches hold it *)
Definition cell (m : metric) (k : Z) : bucket :=
  match alookup k (m_time m), alookup k (m_tok m) with
  | Some last, Some tok => Some (last, tok)
  | _, _ => None
  end.

Definition cell_kept (m m' : metric) (k' : Z) : Prop := cell m' k' = cell m k' \/ cell m' k' = None.

Lemma cell_kept_of m m' k' :
  (alookup k' (m_time m') = alookup k' (m_time m) \/ alookup k' (m_time m') = None) ->
  (alookup k' (m_tok m') = alookup k' (m_tok m) \/ alookup k' (m_tok m') = None) ->
  cell_kept m m' k'.
Proof.
  unfold cell_kept, cell. intros [H1|H1] [H2|H2]; rewrite ?H1, ?H2; auto.
  - right. destruct (alookup k' (m_time m)); reflexivity.
Qed.

Ltac front_other := left; apply look_front_other; assumption.

(* structural effect of one check, no arithmetic involved *)
Lemma reject_check_struct r m now k b :
  real_key k -> lockstep m ->
  let m' := fst (reject_check r m now k b) in
  lockstep m' /\ snd (reject_check r m now k b) <> DSpin /\ m_conc m' = m_conc m /\
  (forall k', k' <> k -> cell_kept m m' k').
Proof.
  intros Hr Hl. unfold reject_check.
  assert (Hrefl : forall k', cell_kept m m k') by (intros; left; reflexivity).
  destruct (tok_count r k <=? 0); [cbn [fst snd]; repeat split; auto; discriminate|].
  destruct (i64 (tok_count r k + r_burst r) <? b); [cbn [fst snd]; repeat split; auto; discriminate|].
  set (M := i64 (tok_count r k + r_burst r)).
  destruct (alookup k (m_time m)) as [last|] eqn:Et.
  - assert (Hk : exists x, alookup k (m_tok m) = Some x).
    { destruct (alookup k (m_tok m)) as [x|] eqn:Ek; [eauto|].
      apply (same_keys_lookup k _ _ Hl) in Ek. congruence. }
    destruct Hk as [x Ek].
    rewrite (aia_present _ k now last _ Hr Et).
    destruct (i64 (r_dur r * 1000) <? i64 (now - last)).
    + rewrite (aia_present _ k _ x _ Hr Ek).
      match goal with |- context [if ?c then _ else _] => destruct c end; cbn [fst snd m_time m_tok m_conc].
      * repeat split; try discriminate.
        -- unfold lockstep. cbn [m_time m_tok]. rewrite !keys_front. now rewrite Hl.
        -- intros k' Hn. apply cell_kept_of; cbn [m_time m_tok]; front_other.
      * rewrite !set_front. repeat split; try discriminate.
        -- unfold lockstep. cbn [m_time m_tok]. rewrite !keys_front. now rewrite Hl.
        -- intros k' Hn. apply cell_kept_of; cbn [m_time m_tok]; front_other.
    + rewrite (get_present k x _ Hr Ek).
      destruct (0 <=? i64 (x - b)); cbn [fst snd m_time m_tok m_conc].
      * rewrite !set_front. repeat split; try discriminate.
        -- unfold lockstep. cbn [m_time m_tok]. rewrite !keys_front. now rewrite Hl.
        -- intros k' Hn. apply cell_kept_of; cbn [m_time m_tok]; front_other.
      * repeat split; try discriminate.
        -- unfold lockstep. cbn [m_time m_tok]. rewrite !keys_front. now rewrite Hl.
        -- intros k' Hn. apply cell_kept_of; cbn [m_time m_tok]; front_other.
  - assert (Ek : alookup k (m_tok m) = None) by (apply (same_keys_lookup k _ _ Hl); exact Et).
    rewrite (aia_absent _ k now _ Hr Et), (aia_absent _ k _ _ Hr Ek). cbn [fst snd m_time m_tok m_conc].
    repeat split; try discriminate.
    + unfold lockstep. cbn [m_time m_tok]. rewrite !keys_trim_front. now rewrite Hl.
    + intros k' Hn. apply cell_kept_of; cbn [m_time m_tok]; now apply look_trim_other.
Qed.

(* ---- the check of value k is one bucket step on k's cell ------------------------------- *)

Definition dec_of (a : bool) : dec := if a then DPass else DBlock None.

(* no int64 overflow in this check: magnitudes below 2^62, and for a cached value the elapsed
   time times the threshold below 2^62 *)
Definition call_ok (r : rule) (k now b : Z) (c : bucket) : Prop :=
  let T := tok_count r k in
  0 <= b < two62 /\ 0 <= r_burst r /\ - two62 < T /\ T + r_burst r < two62 /\
  0 < r_dur r * 1000 < two62 /\
  match c with
  | None => True
  | Some (last, tok) =>
      0 <= tok <= T + r_burst r /\ - two62 < now - last < two62 /\ (now - last) * T < two62
  end.

Lemma reject_check_refines r m now k b :
  real_key k -> lockstep m -> call_ok r k now b (cell m k) ->
  let T := tok_count r k in let B := r_burst r in let D := r_dur r * 1000 in
  let m' := fst (reject_check r m now k b) in
  snd (reject_check r m now k b) = dec_of (snd (bucket_step T B D (cell m k) now b)) /\
  cell m' k = fst (bucket_step T B D (cell m k) now b).
Proof.
  intros Hr Hl Hok T B D. unfold call_ok in Hok. fold T B D in Hok.
  destruct Hok as [Hb [HB [HT1 [HM [HD Hc]]]]]. unfold two62 in *.
  unfold reject_check, bucket_step. fold T B D.
  destruct (T <=? 0) eqn:ET; [cbn [fst snd]; split; reflexivity|].
  rewrite (i64_small (T + B)) by lia.
  destruct (T + B <? b) eqn:EM; [cbn [fst snd]; split; reflexivity|].
  rewrite (i64_small D) by lia.
  rewrite (i64_small (T + B - b)) by lia.
  pose proof (cache_size_pos r) as Hsz.
  unfold cell in *.
  destruct (alookup k (m_time m)) as [last|] eqn:Et.
  - assert (Hk : exists x, alookup k (m_tok m) = Some x).
    { destruct (alookup k (m_tok m)) as [x|] eqn:Ek; [eauto|].
      apply (same_keys_lookup k _ _ Hl) in Ek. congruence. }
    destruct Hk as [tok Ek]. rewrite Ek in *. destruct Hc as [Htok [Hpt Hprod]].
    rewrite (aia_present _ k now last _ Hr Et).
    rewrite (i64_small (now - last)) by lia.
    destruct (D <? now - last) eqn:EP.
    + rewrite (aia_present _ k _ tok _ Hr Ek).
      assert (Hpos : 0 <= (now - last) * T) by nia.
      rewrite (i64_small ((now - last) * T)) by lia.
      rewrite (Z.quot_div_nonneg _ _ Hpos (proj1 HD)).
      assert (Hta : 0 <= (now - last) * T / D) by (apply Z.div_pos; lia).
      assert (Hta2 : (now - last) * T / D <= (now - last) * T).
      { apply Z.div_le_upper_bound; [lia|]. nia. }
      set (toAdd := (now - last) * T / D) in *.
      rewrite (i64_small toAdd) by lia.
      rewrite (i64_small (toAdd + tok)) by lia.
      rewrite (i64_small (toAdd + tok - b)) by lia.
      destruct (T + B <? toAdd + tok) eqn:EC.
      * destruct (T + B - b <? 0) eqn:EN; cbn [fst snd m_time m_tok]; rewrite ?set_front, !look_front;
          split; reflexivity.
      * destruct (toAdd + tok - b <? 0) eqn:EN; cbn [fst snd m_time m_tok]; rewrite ?set_front, !look_front;
          split; reflexivity.
    + rewrite (get_present k tok _ Hr Ek).
      rewrite (i64_small (tok - b)) by lia.
      destruct (0 <=? tok - b) eqn:EN; cbn [fst snd m_time m_tok]; rewrite ?set_front, !look_front;
        split; reflexivity.
  - assert (Ek : alookup k (m_tok m) = None) by (apply (same_keys_lookup k _ _ Hl); exact Et).
    rewrite (aia_absent _ k now _ Hr Et), (aia_absent _ k _ _ Hr Ek). cbn [fst snd m_time m_tok].
    rewrite !look_trim_front by exact Hsz. split; reflexivity.
Qed.

(* ---- histories of one controller -------------------------------------------------------- *)

(* a call: (arrival time ms, value, batch) *)
Fixpoint ctrl_run (r : rule) (m : metric) (calls : list (Z * Z * Z)) : metric * list dec :=
  match calls with
  | [] => (m, [])
  | (now, k, b) :: rest =>
      let '(m1, d) := reject_check r m now k b in
      let '(m2, ds) := ctrl_run r m1 rest in (m2, d :: ds)
  end.

Definition calls_real (calls : list (Z * Z * Z)) : Prop :=
  Forall (fun c => real_key (snd (fst c))) calls.

Theorem ctrl_run_lockstep r calls : forall m,
  calls_real calls -> lockstep m ->
  lockstep (fst (ctrl_run r m calls)) /\ Forall (fun d => d <> DSpin) (snd (ctrl_run r m calls)).
Proof.
  induction calls as [|[[now k] b] rest IH]; intros m Hreal Hl.
  - split; [exact Hl|constructor].
  - inversion Hreal as [|? ? Hk Hrest]; subst. cbn [fst snd] in Hk.
    destruct (reject_check_struct r m now k b Hk Hl) as [H1 [H2 _]].
    cbn [ctrl_run]. destruct (reject_check r m now k b) as [m1 d]. cbn [fst snd] in *.
    destruct (IH m1 Hrest H1) as [IH1 IH2]. destruct (ctrl_run r m1 rest) as [m2 ds].
    cbn [fst snd] in *. split; [exact IH1|constructor; assumption].
Qed.

(* the sub-history of value v, and the decisions taken for v *)
Fixpoint proj (v : Z) (calls : list (Z * Z * Z)) : list (Z * Z) :=
  match calls with
  | [] => []
  | (now, k, b) :: rest => if k =? v then (now, b) :: proj v rest else proj v rest
  end.

Fixpoint decs_for (v : Z) (calls : list (Z * Z * Z)) (ds : list dec) : list dec :=
  match calls, ds with
  | (_, k, _) :: rest, d :: dr => if k =? v then d :: decs_for v rest dr else decs_for v rest dr
  | _, _ => []
  end.

(* "v is not evicted": no check of another value removes v's cell; and every check of v
   itself meets the no-overflow guard *)
Fixpoint stays (r : rule) (v : Z) (m : metric) (calls : list (Z * Z * Z)) : Prop :=
  match calls with
  | [] => True
  | (now, k, b) :: rest =>
      let m1 := fst (reject_check r m now k b) in
      (if k =? v then call_ok r v now b (cell m v) else (cell m v <> None -> cell m1 v <> None))
      /\ stays r v m1 rest
  end.

Theorem ctrl_run_projection r v calls : forall m,
  calls_real calls -> lockstep m -> stays r v m calls ->
  let T := tok_count r v in let B := r_burst r in let D := r_dur r * 1000 in
  decs_for v calls (snd (ctrl_run r m calls)) = map dec_of (snd (bucket_run T B D (cell m v) (proj v calls))) /\
  cell (fst (ctrl_run r m calls)) v = fst (bucket_run T B D (cell m v) (proj v calls)).
Proof.
  induction calls as [|[[now k] b] rest IH]; intros m Hreal Hl Hst T B D.
  - split; reflexivity.
  - inversion Hreal as [|? ? Hk Hrest]; subst. cbn [fst snd] in Hk.
    cbn [stays] in Hst. destruct Hst as [Hhere Hst].
    destruct (reject_check_struct r m now k b Hk Hl) as [H1 [_ [_ Hoth]]].
    cbn [ctrl_run proj decs_for].
    destruct (k =? v) eqn:E.
    + assert (k = v) by lia. subst k.
      destruct (reject_check_refines r m now v b Hk Hl Hhere) as [Hd Hc]. fold T B D in Hd, Hc.
      destruct (reject_check r m now v b) as [m1 d]. cbn [fst snd] in *.
      specialize (IH m1 Hrest H1 Hst). fold T B D in IH. cbn zeta in IH.
      destruct (ctrl_run r m1 rest) as [m2 ds]. cbn [fst snd decs_for] in *. rewrite ?Z.eqb_refl.
      cbn [bucket_run]. destruct (bucket_step T B D (cell m v) now b) as [c1 a]. cbn [fst snd] in *.
      subst c1 d. destruct IH as [IH1 IH2].
      destruct (bucket_run T B D (cell m1 v) (proj v rest)) as [c2 l]. cbn [fst snd map] in *.
      split; [now rewrite IH1|exact IH2].
    + assert (Hne : v <> k) by lia. specialize (Hoth v Hne).
      destruct (reject_check r m now k b) as [m1 d]. cbn [fst snd] in *.
      assert (Hsame : cell m1 v = cell m v).
      { destruct Hoth as [H|H]; [exact H|].
        destruct (cell m v) eqn:Ec; [|exact H]. exfalso. apply Hhere; [discriminate|exact H]. }
      specialize (IH m1 Hrest H1 Hst). fold T B D in IH. cbn zeta in IH. rewrite Hsame in IH.
      destruct (ctrl_run r m1 rest) as [m2 ds]. cbn [fst snd decs_for] in *. try rewrite E. exact IH.
Qed.
