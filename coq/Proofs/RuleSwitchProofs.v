(* Atomic rule switch (C15): a decision that reads the rule map once is computed from exactly
   one rule list that was in force, under every schedule. *)
From SG Require Import Base.Prelude Model.RuleSwitch.

(* ---- association-list and list helpers ---------------------------------------------- *)

Lemma alookup_adel_other {A} k k2 (l : list (Z * A)) : k2 <> k -> alookup k2 (adel k l) = alookup k2 l.
Proof.
  intros Hne. induction l as [|[k' v] r IH]; cbn; [reflexivity|].
  destruct (k =? k') eqn:E; cbn.
  - rewrite IH. destruct (k2 =? k') eqn:E2; [lia|reflexivity].
  - destruct (k2 =? k'); auto.
Qed.

Lemma alookup_adel_same {A} k (l : list (Z * A)) : alookup k (adel k l) = None.
Proof.
  induction l as [|[k' v] r IH]; cbn; [reflexivity|].
  destruct (k =? k') eqn:E; cbn; [exact IH|]. rewrite E. exact IH.
Qed.

Lemma alookup_adel_some {A} k k2 (l : list (Z * A)) v : alookup k2 (adel k l) = Some v -> alookup k2 l = Some v.
Proof.
  destruct (Z.eq_dec k2 k) as [->|Hne].
  - rewrite alookup_adel_same. discriminate.
  - rewrite alookup_adel_other by auto. auto.
Qed.

Lemma firstn_S_nth_error {A} (l : list A) i x : nth_error l i = Some x -> firstn (S i) l = firstn i l ++ [x].
Proof.
  revert i. induction l as [|y r IH]; intros [|i] H; cbn in *; try discriminate.
  - inversion H; reflexivity.
  - f_equal. apply IH. exact H.
Qed.

Lemma firstn_nth_error_none {A} (l : list A) i : nth_error l i = None -> firstn i l = l.
Proof. intros H. apply firstn_all2. apply nth_error_None. exact H. Qed.

Lemma Forall_upd_nth {A} (P : A -> Prop) n f l : Forall P l -> (forall x, P x -> P (f x)) -> Forall P (upd_nth n f l).
Proof.
  intros HF Hf. revert n. induction HF as [|x r Hx Hr IH]; intros [|n]; cbn; constructor; auto.
Qed.

(* ---- frame: loading r leaves every other resource alone ----------------------------- *)

Lemma slice_at_ext m h a : (a < length (heap m))%nat -> nth a (heap m ++ h) [] = slice_at m a.
Proof. intros H. unfold slice_at. apply app_nth1. exact H. Qed.

Lemma lookup_load_res_other m r l r' : wf_rm m -> r' <> r -> lookup (load_res m r l) r' = lookup m r'.
Proof.
  intros Hwf Hne. unfold lookup, load_res. cbn [rmap heap].
  rewrite alookup_aset_other by auto.
  destruct (alookup r' (rmap m)) as [a|] eqn:E; [|reflexivity].
  unfold slice_at at 1. cbn [heap]. apply slice_at_ext. eapply Hwf; eauto.
Qed.

Lemma lookup_load_res_same m r l : lookup (load_res m r l) r = l.
Proof.
  unfold lookup, load_res. cbn [rmap heap]. rewrite alookup_aset_same.
  unfold slice_at. cbn [heap]. rewrite app_nth2 by lia. rewrite Nat.sub_diag. reflexivity.
Qed.

Lemma lookup_clear_res_other m r r' : r' <> r -> lookup (clear_res m r) r' = lookup m r'.
Proof. intros Hne. unfold lookup, clear_res, slice_at. cbn [rmap heap]. rewrite alookup_adel_other by auto. reflexivity. Qed.

Lemma lookup_clear_res_same m r : lookup (clear_res m r) r = [].
Proof. unfold lookup, clear_res. cbn [rmap]. rewrite alookup_adel_same. reflexivity. Qed.

(* whole-map load: every resource gets exactly the list given for it *)
Lemma alloc_all_spec new : forall h h' mp, alloc_all h new = (h', mp) ->
  h' = h ++ map snd new /\
  forall r, match alookup r mp with
            | Some a => (a < length h')%nat /\ alookup r new = Some (nth a h' [])
            | None => alookup r new = None
            end.
Proof.
  induction new as [|[r0 l0] rest IH]; intros h h' mp H; cbn in H.
  - inversion H; subst. split; [now rewrite app_nil_r|]. intros r. reflexivity.
  - destruct (alloc_all (h ++ [l0]) rest) as [h1 mp1] eqn:E. inversion H; subst.
    destruct (IH _ _ _ E) as [Hh Hm]. split.
    + rewrite Hh. rewrite <- app_assoc. reflexivity.
    + intros r. cbn [alookup]. destruct (r =? r0) eqn:Er.
      * subst h'. split.
        -- rewrite !app_length. cbn. lia.
        -- rewrite <- app_assoc. rewrite app_nth2 by lia. rewrite Nat.sub_diag. reflexivity.
      * apply Hm.
Qed.

Lemma lookup_load_all m new r :
  lookup (load_all m new) r = match alookup r new with Some l => l | None => [] end.
Proof.
  unfold lookup, load_all. destruct (alloc_all (heap m) new) as [h mp] eqn:E. cbn [rmap].
  destruct (alloc_all_spec _ _ _ _ E) as [_ Hm]. specialize (Hm r).
  destruct (alookup r mp) as [a|].
  - destruct Hm as [_ Hm]. rewrite Hm. reflexivity.
  - rewrite Hm. reflexivity.
Qed.

(* ---- well-formedness and heap extension --------------------------------------------- *)

Definition extends (m0 m : rm) : Prop := exists ext, heap m = heap m0 ++ ext.

Lemma extends_refl m : extends m m.
Proof. exists []. now rewrite app_nil_r. Qed.

Lemma extends_trans a b c : extends a b -> extends b c -> extends a c.
Proof. intros [e1 H1] [e2 H2]. exists (e1 ++ e2). rewrite H2, H1, app_assoc. reflexivity. Qed.

Definition rm_step (m : rm) (e : sev) : rm := fst (sstep (m, []) e).

Lemma sstep_fst m ds e : fst (sstep (m, ds) e) = rm_step m e.
Proof. destruct e; reflexivity. Qed.

Lemma rm_step_extends m e : extends m (rm_step m e).
Proof.
  destruct e as [t|r l|r|new]; unfold rm_step; cbn.
  - apply extends_refl.
  - exists [l]. reflexivity.
  - exists []. cbn. now rewrite app_nil_r.
  - unfold load_all. destruct (alloc_all (heap m) new) as [h mp] eqn:E.
    destruct (alloc_all_spec _ _ _ _ E) as [Hh _]. exists (map snd new). exact Hh.
Qed.

Lemma rm_step_wf m e : wf_rm m -> wf_rm (rm_step m e).
Proof.
  intros Hwf. destruct e as [t|r l|r|new]; unfold rm_step; cbn; auto.
  - intros r' a H. unfold load_res in *. cbn [rmap heap] in *. rewrite app_length. cbn.
    destruct (Z.eq_dec r' r) as [->|Hne].
    + rewrite alookup_aset_same in H. inversion H; subst. lia.
    + rewrite alookup_aset_other in H by auto. apply Hwf in H. lia.
  - intros r' a H. unfold clear_res in *. cbn [rmap heap] in *. apply alookup_adel_some in H. eapply Hwf; eauto.
  - intros r' a H. unfold load_all in *. destruct (alloc_all (heap m) new) as [h mp] eqn:E. cbn [rmap heap] in *.
    destruct (alloc_all_spec _ _ _ _ E) as [_ Hm]. specialize (Hm r'). rewrite H in Hm. apply Hm.
Qed.

(* a slice reached through an old state is still there, unchanged *)
Lemma slice_stable m0 m r a : wf_rm m0 -> extends m0 m -> alookup r (rmap m0) = Some a -> slice_at m a = lookup m0 r.
Proof.
  intros Hwf [ext He] Ha. unfold lookup. rewrite Ha. unfold slice_at at 1. rewrite He.
  apply app_nth1. eapply Hwf; eauto.
Qed.

(* ---- the invariant ------------------------------------------------------------------ *)

Definition dec_ok (hist : list rm) (rd : res * dstate) : Prop :=
  match snd rd with
  | DIdle => True
  | DWalk a i acc => exists m0, In m0 hist /\ alookup (fst rd) (rmap m0) = a /\ acc = firstn i (lookup m0 (fst rd))
  | DDone seen => exists m0, In m0 hist /\ seen = lookup m0 (fst rd)
  end.

Definition sinv (s : sstate) (hist : list rm) : Prop :=
  wf_rm (fst s) /\ In (fst s) hist /\
  (forall m0, In m0 hist -> wf_rm m0 /\ extends m0 (fst s)) /\
  Forall (dec_ok hist) (snd s).

Lemma dec_ok_mono hist hist' rd : (forall m, In m hist -> In m hist') -> dec_ok hist rd -> dec_ok hist' rd.
Proof.
  intros Hi. unfold dec_ok. destruct (snd rd); auto.
  - intros (m0 & H & R). exists m0. auto.
  - intros (m0 & H & R). exists m0. auto.
Qed.

Lemma dstep_ok hist m rd :
  wf_rm m -> In m hist -> (forall m0, In m0 hist -> wf_rm m0 /\ extends m0 m) ->
  dec_ok hist rd -> dec_ok hist (fst rd, dstep m (fst rd) (snd rd)).
Proof.
  intros Hwf Hin Hh. destruct rd as [r d]. unfold dec_ok. cbn [fst snd].
  destruct d as [|a i acc|seen]; cbn [dstep].
  - intros _. exists m. auto.
  - intros (m0 & Hm0 & Ha & Hacc). destruct (Hh _ Hm0) as [Hwf0 Hext].
    destruct a as [a|].
    + rewrite (slice_stable m0 m r a Hwf0 Hext Ha).
      destruct (nth_error (lookup m0 r) i) as [x|] eqn:E.
      * exists m0. repeat split; auto. rewrite (firstn_S_nth_error _ _ _ E). congruence.
      * exists m0. split; auto. rewrite Hacc. apply firstn_nth_error_none. exact E.
    + exists m0. split; auto. unfold lookup in *. rewrite Ha in *. rewrite firstn_nil in Hacc. exact Hacc.
  - auto.
Qed.

Lemma sinv_step s hist e : sinv s hist -> sinv (sstep s e) (fst (sstep s e) :: hist).
Proof.
  destruct s as [m ds]. intros (Hwf & Hin & Hh & Hd). rewrite sstep_fst. cbn [fst snd] in *.
  assert (Hwf' : wf_rm (rm_step m e)) by (apply rm_step_wf; auto).
  assert (Hext : extends m (rm_step m e)) by apply rm_step_extends.
  split; [|split; [|split]].
  - rewrite sstep_fst. exact Hwf'.
  - rewrite sstep_fst. left; reflexivity.
  - rewrite sstep_fst. intros m0 [<-|H0].
    + split; [exact Hwf'|apply extends_refl].
    + destruct (Hh _ H0) as [A B]. split; [exact A|eapply extends_trans; eauto].
  - destruct e as [t|r l|r|new]; cbn [sstep snd fst].
    + unfold upd_dec. apply Forall_upd_nth.
      * eapply Forall_impl; [|exact Hd]. intros rd. apply dec_ok_mono. intros; right; auto.
      * intros rd Hrd. apply (dec_ok_mono hist); [intros; right; auto|].
        apply dstep_ok; auto.
        apply (dec_ok_mono (rm_step m (SDec t) :: hist)); [|exact Hrd].
        intros m1 [<-|H1]; auto.
    + eapply Forall_impl; [|exact Hd]. intros rd. apply dec_ok_mono. intros; right; auto.
    + eapply Forall_impl; [|exact Hd]. intros rd. apply dec_ok_mono. intros; right; auto.
    + eapply Forall_impl; [|exact Hd]. intros rd. apply dec_ok_mono. intros; right; auto.
Qed.

Lemma dec_ok_weaken hist rd : dec_ok hist rd -> forall hist', (forall m, In m hist -> In m hist') -> dec_ok hist' rd.
Proof. intros H hist' Hi. eapply dec_ok_mono; eauto. Qed.

Lemma sinv_run sched : forall s hist, sinv s hist -> sinv (fst (srun s hist sched)) (snd (srun s hist sched)).
Proof.
  induction sched as [|e r IH]; intros s hist H; cbn [srun]; [exact H|].
  apply IH. apply sinv_step. exact H.
Qed.

Lemma sinv_init m ds : wf_rm m -> Forall (fun rd => snd rd = DIdle) ds -> sinv (m, ds) [m].
Proof.
  intros Hwf Hd. split; [exact Hwf|split; [left; reflexivity|split]].
  - intros m0 [<-|[]]. split; [exact Hwf|apply extends_refl].
  - eapply Forall_impl; [|exact Hd]. intros [r d] H. cbn in H. subst. exact I.
Qed.

(* every finished decision was computed from exactly one rule list of its resource, one that
   was in force at some point of the run — for every schedule, any number of deciders/loaders *)
Theorem switch_atomic : forall m ds sched t r seen,
  wf_rm m -> Forall (fun rd => snd rd = DIdle) ds ->
  nth_error (snd (fst (srun (m, ds) [m] sched))) t = Some (r, DDone seen) ->
  exists m', In m' (snd (srun (m, ds) [m] sched)) /\ seen = lookup m' r.
Proof.
  intros m ds sched t r seen Hwf Hd Hn.
  destruct (sinv_run sched _ _ (sinv_init m ds Hwf Hd)) as (_ & _ & _ & HF).
  rewrite Forall_forall in HF. specialize (HF _ (nth_error_In _ _ Hn)). exact HF.
Qed.

(* ---- exactly one update during the decisions: old or new ---------------------------- *)

Definition only_dec (sched : list sev) : Prop := Forall (fun e => match e with SDec _ => True | _ => False end) sched.

Lemma srun_only_dec sched : only_dec sched -> forall s hist,
  fst (fst (srun s hist sched)) = fst s /\
  forall m, In m (snd (srun s hist sched)) -> m = fst s \/ In m hist.
Proof.
  induction 1 as [|e r He _ IH]; intros s hist; cbn [srun].
  - split; auto.
  - destruct e; try contradiction. specialize (IH (sstep s (SDec t)) (fst (sstep s (SDec t)) :: hist)).
    cbn [sstep fst] in *. destruct IH as [A B]. split; [exact A|].
    intros m Hm. destruct (B m Hm) as [->|[<-|Hi]]; auto.
Qed.

Lemma srun_app s hist s1 s2 :
  srun s hist (s1 ++ s2) = srun (fst (srun s hist s1)) (snd (srun s hist s1)) s2.
Proof. revert s hist. induction s1 as [|e r IH]; intros s hist; cbn [srun app]; auto. Qed.

Theorem switch_old_or_new : forall m ds before upd after t r seen,
  wf_rm m -> Forall (fun rd => snd rd = DIdle) ds ->
  only_dec before -> only_dec after ->
  nth_error (snd (fst (srun (m, ds) [m] (before ++ upd :: after)))) t = Some (r, DDone seen) ->
  seen = lookup m r \/ seen = lookup (rm_step m upd) r.
Proof.
  intros m ds before upd after t r seen Hwf Hd Hb Ha Hn.
  destruct (switch_atomic _ _ _ _ _ _ Hwf Hd Hn) as (m' & Hin & ->).
  rewrite srun_app in Hin. cbn [srun] in Hin.
  destruct (srun_only_dec before Hb (m, ds) [m]) as [E1 H1]. cbn [fst] in E1.
  set (s1 := fst (srun (m, ds) [m] before)) in *.
  set (h1 := snd (srun (m, ds) [m] before)) in *.
  destruct (srun_only_dec after Ha (sstep s1 upd) (fst (sstep s1 upd) :: h1)) as [_ H2].
  assert (Es : fst (sstep s1 upd) = rm_step m upd).
  { destruct s1 as [m1 d1]. cbn [fst] in E1. subst m1. apply sstep_fst. }
  destruct (H2 _ Hin) as [->|[<-|Hi]].
  - right. rewrite Es. reflexivity.
  - right. rewrite Es. reflexivity.
  - left. destruct (H1 _ Hi) as [->|[<-|[]]]; reflexivity.
Qed.

(* what the dynamic legs assert: if the old and the new list of the resource give the same
   verdict (any function of the list the decision was computed from), so does every decision that
   races the one update *)
Lemma switch_equal_verdict : forall (V : Type) (verdict : list rule -> V) (v : V) m ds before upd after t r seen,
  wf_rm m -> Forall (fun rd => snd rd = DIdle) ds ->
  only_dec before -> only_dec after ->
  nth_error (snd (fst (srun (m, ds) [m] (before ++ upd :: after)))) t = Some (r, DDone seen) ->
  verdict (lookup m r) = v -> verdict (lookup (rm_step m upd) r) = v -> verdict seen = v.
Proof.
  intros V verdict v m ds before upd after t r seen Hwf Hds Hb Ha Hn Ho Hnw.
  destruct (switch_old_or_new m ds before upd after t r seen Hwf Hds Hb Ha Hn) as [E|E]; rewrite E; assumption.
Qed.
