(* The handler theorems of Proofs/DatasourceProofs.v composed with the wire round trip of
   Proofs/JsonProofs.v. *)
From SG Require Import Base.Prelude Model.Json Model.Datasource Model.DatasourceWire
  Proofs.JsonProofs Proofs.DatasourceProofs.

Lemma somes_map_Some {A} (l : list A) : somes (map Some l) = l.
Proof. induction l as [|x l IH]; cbn; [reflexivity|]. rewrite IH. reflexivity. Qed.

Lemma valid_of_map_Some {A} (valid : A -> bool) (l : list A) : valid_of valid (map Some l) = filter valid l.
Proof. unfold valid_of. rewrite somes_map_Some. reflexivity. Qed.

Lemma wire_convert_encode sch l :
  schema_ok sch = true -> forallb (rule_ok sch) l = true ->
  wire_convert sch (encode sch l) = CVal (false, map Some l).
Proof. intros S H. unfold wire_convert. rewrite (wire_roundtrip sch l S H). reflexivity. Qed.

Lemma wire_convert_empty sch : wire_convert sch [] = CNil.
Proof. reflexivity. Qed.

Section WireHandler.
  Variable mgr : Type.
  Variable sch : schema.
  Variable peq     : wprop -> wprop -> bool.
  Variable load    : list (option wrule) -> mgr -> mgr * lres.
  Variable clear   : mgr -> mgr * lres.
  Variable valid    : wrule -> bool.
  Variable in_force : mgr -> list wrule.
  Variable canon    : list wrule -> list wrule.

  Notation handle := (handle (wire_convert sch) peq wtyped load clear).
  Notation handle_body := (handle_body (wire_convert sch) peq wtyped load clear).
  Notation Sync := (Sync wtyped valid in_force canon).

  Hypothesis Hsch : schema_ok sch = true.
  Hypothesis L1 : load_ok_spec load valid in_force canon.
  Hypothesis L2 : load_fail_keeps load in_force.
  Hypothesis L3 : clear_ok_spec clear in_force canon.
  Hypothesis L4 : clear_fail_keeps clear in_force.
  Hypothesis L5 : peq_typed peq wtyped.

  (* delivering the wire form of a rule list: nil is returned and exactly its valid rules are in
     force, or the delivery is rejected as a whole *)
  Lemma wire_applied_exactly s l :
    Sync s -> forallb (rule_ok sch) l = true ->
    let b := encode sch l in
    let s' := fst (handle s b) in
    match snd (handle_body s b) with
    | Returned RNil => in_force (mgr_of s') = canon (filter valid l)
    | _ => last_of s' = last_of s /\ in_force (mgr_of s') = in_force (mgr_of s)
    end.
  Proof.
    intros HS H b s'. rewrite <- (valid_of_map_Some valid l).
    apply (applied_rules _ _ _ _ (wire_convert sch) peq wtyped load clear valid in_force canon
             s b (false, map Some l) (map Some l)); auto.
    apply wire_convert_encode; auto.
  Qed.

  Lemma wire_applied_total s l :
    loader_total load clear -> Sync s -> forallb (rule_ok sch) l = true ->
    snd (handle s (encode sch l)) = Returned RNil /\
    in_force (mgr_of (fst (handle s (encode sch l)))) = canon (filter valid l).
  Proof.
    intros T HS H. rewrite <- (valid_of_map_Some valid l).
    apply (applied_rules_total _ _ _ _ (wire_convert sch) peq wtyped load clear valid in_force canon
             s (encode sch l) (false, map Some l) (map Some l)); auto.
    apply wire_convert_encode; auto.
  Qed.

  (* the empty payload clears *)
  Lemma wire_empty_total s :
    loader_total load clear -> Sync s ->
    snd (handle s []) = Returned RNil /\ in_force (mgr_of (fst (handle s []))) = canon [].
  Proof.
    intros T HS.
    apply (applied_empty_total _ _ _ _ (wire_convert sch) peq wtyped load clear valid in_force canon s []); auto.
  Qed.

  (* what the decoder refuses is refused by the handler, which keeps everything *)
  Lemma wire_reject s b : decode sch b = Undecodable -> handle s b = (s, Returned RErr).
  Proof.
    intros H. apply reject_keeps. unfold wire_convert. rewrite H. reflexivity.
  Qed.
End WireHandler.
