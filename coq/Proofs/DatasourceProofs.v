(* Lemmas about Model/Datasource.v: the property handler for an arbitrary converter and an
   arbitrary loader, and the file datasource's event machine. *)
From SG Require Import Base.Prelude Model.Datasource.

Section HandlerProofs.

  Variables (bytes prop rule mgr : Type).
  Variable convert : bytes -> conv prop.
  Variable peq     : prop -> prop -> bool.
  Variable typed   : prop -> option (list (option rule)).
  Variable load    : list (option rule) -> mgr -> mgr * lres.
  Variable clear   : mgr -> mgr * lres.
  Variable valid    : rule -> bool.
  Variable in_force : mgr -> list rule.
  Variable canon    : list rule -> list rule.

  Notation state := (state prop mgr).
  Notation handle_body := (handle_body convert peq typed load clear).
  Notation handle := (handle convert peq typed load clear).
  Notation run := (run convert peq typed load clear).
  Notation updater := (updater typed load clear).
  Notation Sync := (Sync typed valid in_force canon).
  Notation valid_of := (valid_of valid).

  (* the part of Handle after a successful conversion *)
  Definition cont (s : state) (real : option prop) : state * outcome :=
    if consistent peq real (fst s) then (s, Returned RNil)
    else
      let '(m', r) := updater real (snd s) in
      match r with
      | LOk    => ((real, m'), Returned RNil)
      | LErr   => ((fst s, m'), Returned RErr)
      | LPanic => ((fst s, m'), Panicked)
      end.

  Definition real_of (c : conv prop) : option (option prop) :=
    match c with CNil => Some None | CVal p => Some (Some p) | _ => None end.

  Lemma handle_body_cont s b real :
    real_of (convert b) = Some real -> handle_body s b = cont s real.
  Proof.
    unfold handle_body, cont. destruct s as [lastp m]. cbn [fst snd].
    destruct (convert b); cbn; intros H; inversion H; subst; reflexivity.
  Qed.

  (* ---- no panic escapes ------------------------------------------------------------- *)

  Lemma handle_no_escape s b : snd (handle s b) <> Panicked.
  Proof.
    unfold handle. destruct (handle_body s b) as [s' o]. cbn. destruct o; cbn; discriminate.
  Qed.

  Lemma run_no_escape s ps : Forall (fun o => o <> Panicked) (snd (run s ps)).
  Proof.
    revert s. induction ps as [|p ps IH]; intros s; cbn; [constructor|].
    pose proof (handle_no_escape s p) as Hn.
    destruct (handle s p) as [s1 o] eqn:E. specialize (IH s1).
    destruct (run s1 ps) as [s2 os]. cbn in *. constructor; auto.
  Qed.

  (* a panic inside (converter, loader) is reported as a nil return *)
  Lemma handle_fst s b : fst (handle s b) = fst (handle_body s b).
  Proof. unfold handle. destruct (handle_body s b); reflexivity. Qed.

  Lemma handle_snd s b : snd (handle s b) = recovered (snd (handle_body s b)).
  Proof. unfold handle. destruct (handle_body s b); reflexivity. Qed.

  (* ---- undecodable payloads are rejected and change nothing --------------------------- *)

  Lemma reject_keeps s b : convert b = CErr -> handle s b = (s, Returned RErr).
  Proof.
    intros H. unfold handle, handle_body. destruct s as [lastp m]. rewrite H. reflexivity.
  Qed.

  Lemma conv_panic_keeps s b : convert b = CPanic -> handle s b = (s, Returned RNil).
  Proof.
    intros H. unfold handle, handle_body. destruct s as [lastp m]. rewrite H. reflexivity.
  Qed.

  (* ---- assumptions about the loader (stated where used) ------------------------------- *)

  Definition load_ok_spec := forall l m m', load l m = (m', LOk) -> in_force m' = canon (valid_of l).
  Definition load_fail_keeps := forall l m m' r, load l m = (m', r) -> r <> LOk -> in_force m' = in_force m.
  Definition clear_ok_spec := forall m m', clear m = (m', LOk) -> in_force m' = canon [].
  Definition clear_fail_keeps := forall m m' r, clear m = (m', r) -> r <> LOk -> in_force m' = in_force m.
  Definition peq_typed := forall p q, peq p q = true -> typed p = typed q.
  Definition loader_total := (forall l m, snd (load l m) = LOk) /\ (forall m, snd (clear m) = LOk).

  (* what is in force when property `real` has been applied *)
  Definition target (real : option prop) (rs : list rule) : Prop :=
    match real with
    | None => rs = canon []
    | Some p => exists l, typed p = Some l /\ rs = canon (valid_of l)
    end.

  Lemma Sync_target s : Sync s <-> target (fst s) (in_force (snd s)).
  Proof. unfold Datasource.Sync, target, last_of, mgr_of. destruct (fst s); tauto. Qed.

  Section WithLoaderSpec.
    Hypothesis Hlok : load_ok_spec.
    Hypothesis Hlfail : load_fail_keeps.
    Hypothesis Hcok : clear_ok_spec.
    Hypothesis Hcfail : clear_fail_keeps.
    Hypothesis Hpeq : peq_typed.

    Lemma updater_ok real m m' :
      updater real m = (m', LOk) -> target real (in_force m').
    Proof.
      unfold Datasource.updater, target. destruct real as [p|].
      - destruct (typed p) as [l|] eqn:T; intros H.
        + exists l. split; [reflexivity|]. eapply Hlok; eauto.
        + inversion H.
      - intros H. eapply Hcok; eauto.
    Qed.

    Lemma updater_fail real m m' r :
      updater real m = (m', r) -> r <> LOk -> in_force m' = in_force m.
    Proof.
      unfold Datasource.updater. destruct real as [p|].
      - destruct (typed p) as [l|] eqn:T; intros H Hr.
        + eapply Hlfail; eauto.
        + inversion H; subst. reflexivity.
      - intros H Hr. eapply Hcfail; eauto.
    Qed.

    Lemma consistent_target real lastp rs :
      consistent peq real lastp = true -> target lastp rs -> target real rs.
    Proof.
      unfold consistent, target. destruct real as [p|], lastp as [q|]; try discriminate; auto.
      intros E [l [T R]]. exists l. split; auto. rewrite (Hpeq p q E). exact T.
    Qed.

    (* the three ways the post-conversion part of Handle can end *)
    Lemma cont_cases s real :
      Sync s ->
      let '(s', o) := cont s real in
      match o with
      | Returned RNil => target real (in_force (snd s')) /\ Sync s'
                         /\ (consistent peq real (fst s) = true /\ s' = s \/ fst s' = real)
      | _ => fst s' = fst s /\ in_force (snd s') = in_force (snd s)
      end.
    Proof.
      intros HS. unfold cont. destruct (consistent peq real (fst s)) eqn:C.
      - split; [|split; [exact HS | left; auto]].
        apply Sync_target in HS. eapply consistent_target; eauto.
      - destruct (updater real (snd s)) as [m' r] eqn:U. destruct r.
        + pose proof (updater_ok _ _ _ U) as T. split; [exact T|]. split; [|right; reflexivity].
          apply Sync_target. exact T.
        + split; [reflexivity|]. eapply updater_fail; eauto. discriminate.
        + split; [reflexivity|]. eapply updater_fail; eauto. discriminate.
    Qed.

    Lemma cont_sync s real : Sync s -> Sync (fst (cont s real)).
    Proof.
      intros HS. pose proof (cont_cases s real HS) as H.
      destruct (cont s real) as [s' o]. cbn. destruct o as [[|]|].
      - tauto.
      - destruct H as [H1 H2]. apply Sync_target. apply Sync_target in HS. rewrite H1, H2. exact HS.
      - destruct H as [H1 H2]. apply Sync_target. apply Sync_target in HS. rewrite H1, H2. exact HS.
    Qed.

    (* the handler and the manager stay in agreement over every delivery *)
    Lemma handle_sync s b : Sync s -> Sync (fst (handle s b)).
    Proof.
      intros HS. rewrite handle_fst.
      destruct (real_of (convert b)) as [real|] eqn:R.
      - rewrite (handle_body_cont s b real R). apply cont_sync; auto.
      - unfold Datasource.handle_body. destruct s as [lastp m].
        destruct (convert b); cbn in R; try discriminate; exact HS.
    Qed.

    Lemma run_sync s ps : Sync s -> Sync (fst (run s ps)).
    Proof.
      revert s. induction ps as [|p ps IH]; intros s HS; cbn; [exact HS|].
      pose proof (handle_sync s p HS) as H1.
      destruct (handle s p) as [s1 o]. cbn in H1. specialize (IH s1 H1).
      destruct (run s1 ps) as [s2 os]. exact IH.
    Qed.

    (* decodable payload: applied exactly, or rejected with nothing changed *)
    Lemma applied_exactly s b real :
      Sync s -> real_of (convert b) = Some real ->
      let s' := fst (handle s b) in
      match snd (handle_body s b) with
      | Returned RNil => target real (in_force (snd s'))
      | _ => fst s' = fst s /\ in_force (snd s') = in_force (snd s)
      end.
    Proof.
      intros HS R. cbn zeta. rewrite handle_fst, (handle_body_cont s b real R).
      pose proof (cont_cases s real HS) as H. destruct (cont s real) as [s' o]. cbn.
      destruct o as [[|]|]; tauto.
    Qed.

    (* with a loader that neither fails nor panics: Handle returns nil and the payload's valid
       rules are in force *)
    Lemma applied_total s b real :
      loader_total -> (forall p, real = Some p -> typed p <> None) ->
      Sync s -> real_of (convert b) = Some real ->
      snd (handle s b) = Returned RNil /\ target real (in_force (snd (fst (handle s b)))).
    Proof.
      intros [Tl Tc] Hty HS R.
      pose proof (applied_exactly s b real HS R) as H. cbn zeta in H.
      rewrite handle_snd. rewrite (handle_body_cont s b real R) in *.
      assert (E : snd (cont s real) = Returned RNil).
      { unfold cont. destruct (consistent peq real (fst s)); [reflexivity|].
        destruct (updater real (snd s)) as [m' r] eqn:U.
        assert (r = LOk).
        { unfold Datasource.updater in U. destruct real as [p|].
          - destruct (typed p) as [l|] eqn:T; [|exfalso; eapply Hty; eauto].
            specialize (Tl l (snd s)). rewrite U in Tl. exact Tl.
          - specialize (Tc (snd s)). rewrite U in Tc. exact Tc. }
        subst r. reflexivity. }
      rewrite E in *. cbn. split; [reflexivity|exact H].
    Qed.

    (* re-delivery after a successful delivery leaves the rules in force unchanged, even when
       DeepEqual is not reflexive on the property (NaN keys) *)
    Lemma redeliver_in_force s b :
      Sync s -> snd (handle_body s b) = Returned RNil ->
      let s1 := fst (handle s b) in
      in_force (snd (fst (handle s1 b))) = in_force (snd s1).
    Proof.
      intros HS H1. cbn zeta.
      destruct (real_of (convert b)) as [real|] eqn:R.
      2:{ rewrite !handle_fst. unfold Datasource.handle_body.
          destruct s as [lastp m]. destruct (convert b); cbn in R; try discriminate; cbn;
          rewrite ?R; reflexivity. }
      pose proof (applied_exactly s b real HS R) as A. cbn zeta in A. rewrite H1 in A.
      pose proof (handle_sync s b HS) as HS1.
      set (s1 := fst (handle s b)) in *.
      pose proof (applied_exactly s1 b real HS1 R) as A2. cbn zeta in A2.
      destruct (snd (handle_body s1 b)) as [[|]|]; try tauto.
      unfold target in *. destruct real as [p|].
      - destruct A as [l [T E]], A2 as [l2 [T2 E2]]. rewrite T in T2. inversion T2; subst. congruence.
      - congruence.
    Qed.

  End WithLoaderSpec.

  (* ---- identical re-delivery is a no-op (needs nothing about the loader) --------------- *)

  Lemma idempotent s b :
    snd (handle_body s b) = Returned RNil ->
    (forall p, convert b = CVal p -> peq p p = true) ->
    handle (fst (handle s b)) b = (fst (handle s b), Returned RNil).
  Proof.
    intros H1 Hrefl.
    destruct (real_of (convert b)) as [real|] eqn:R.
    2:{ unfold Datasource.handle_body in H1. destruct s as [lastp m].
        destruct (convert b) eqn:C; cbn in R; try discriminate; cbn in H1; discriminate. }
    assert (Hc : consistent peq real real = true).
    { destruct real as [p|]; cbn; [|reflexivity]. apply Hrefl.
      destruct (convert b); cbn in R; inversion R; reflexivity. }
    rewrite handle_fst. rewrite (handle_body_cont s b real R) in *.
    unfold cont in H1 |- *.
    destruct (consistent peq real (fst s)) eqn:C.
    - cbn [fst]. unfold Datasource.handle. rewrite (handle_body_cont s b real R). unfold cont. rewrite C. reflexivity.
    - destruct (updater real (snd s)) as [m' r] eqn:U. destruct r; cbn in H1; try discriminate.
      cbn [fst]. unfold Datasource.handle. rewrite (handle_body_cont (real, m') b real R).
      unfold cont. cbn [fst snd]. rewrite Hc. reflexivity.
  Qed.

  (* an undecodable payload is rejected again; a converter panic changes nothing again *)
  Lemma idempotent_rejected s b :
    real_of (convert b) = None ->
    fst (handle s b) = s /\ handle (fst (handle s b)) b = handle s b.
  Proof.
    intros R. assert (E : fst (handle s b) = s).
    { unfold Datasource.handle, Datasource.handle_body. destruct s as [lastp m].
      destruct (convert b); cbn in R; try discriminate; reflexivity. }
    split; [exact E|]. rewrite E. reflexivity.
  Qed.

  (* ---- the file datasource ------------------------------------------------------------- *)

  Variable empty_payload : bytes.

  Notation fstate := (fstate bytes prop mgr).
  Notation fstep := (fstep convert peq typed load clear empty_payload).
  Notation frun := (frun convert peq typed load clear empty_payload).
  Notation finit := (finit convert peq typed load clear).
  Notation deliver := (deliver convert peq typed load clear).
  Notation read_and_update := (read_and_update convert peq typed load clear).
  Notation process_event := (process_event convert peq typed load clear empty_payload).

  Lemma run_app s a p : fst (run s (a ++ [p])) = fst (handle (fst (run s a)) p).
  Proof.
    revert s. induction a as [|x a IH]; intros s; cbn.
    - destruct (handle s p) as [s1 o]. reflexivity.
    - destruct (handle s x) as [s1 o]. specialize (IH s1).
      destruct (run s1 (a ++ [p])) as [s2 os]. destruct (run s1 a) as [s3 os3]. cbn in *. exact IH.
  Qed.

  Definition closing (e : fevent) : bool := match e with EvWrite => false | _ => true end.

  Definition last_is (h : list bytes) (c : bytes) : Prop := exists h', h = h' ++ [c].

  (* the invariant of the event machine *)
  Record FInv (s0 : state) (st : fstate) : Prop := {
    fi_state : f_hs st = fst (run s0 (f_hist st));
        (* the handler has seen exactly the recorded payloads *)
    fi_fresh : f_mode st = Watching -> forall c, f_file st = Some c ->
               f_queue st <> [] \/ last_is (f_hist st) c;
        (* a content the handler has not seen last is followed by a pending event *)
    fi_gone : f_mode st = Watching -> f_file st = None -> existsb closing (f_queue st) = true;
        (* a missing file is followed by a pending rename/remove event *)
    fi_closed : f_mode st = Closed -> last_is (f_hist st) empty_payload
        (* the source closes only after delivering the empty payload *)
  }.

  Lemma FInv_deliver s0 st p :
    f_hs st = fst (run s0 (f_hist st)) ->
    f_hs (deliver st p) = fst (run s0 (f_hist (deliver st p))).
  Proof. intros H. cbn. rewrite run_app, H. reflexivity. Qed.

  Lemma FInv_init s0 c : FInv s0 (finit s0 c).
  Proof.
    unfold Datasource.finit, Datasource.read_and_update. cbn [f_file].
    constructor; cbn.
    - destruct (handle s0 c); reflexivity.
    - intros _ c' E. inversion E; subst. right. exists []. reflexivity.
    - discriminate.
    - discriminate.
  Qed.

  Lemma existsb_app_closing q e : existsb closing q = true -> existsb closing (q ++ [e]) = true.
  Proof. intros H. rewrite existsb_app, H. reflexivity. Qed.

  Lemma FInv_step s0 st o : FInv s0 st -> FInv s0 (fstep st o).
  Proof.
    intros [I1 I2 I3 I4].
    destruct o as [c| |c| |]; unfold Datasource.fstep.
    - (* FsWrite *)
      destruct (f_file st) eqn:F; [|constructor; auto; rewrite ?F; auto].
      unfold Datasource.enqueue. cbn [f_mode set_file].
      destruct (f_mode st) eqn:M; constructor; cbn; rewrite ?M; auto; try discriminate.
      intros _ c' _. left. destruct (f_queue st); discriminate.
    - (* FsRenameAway *)
      destruct (f_file st) eqn:F; [|constructor; auto; rewrite ?F; auto].
      unfold Datasource.enqueue. cbn [f_mode set_file].
      destruct (f_mode st) eqn:M; constructor; cbn; rewrite ?M; auto; try discriminate.
      intros _ _. rewrite existsb_app. cbn. apply orb_true_r.
    - (* FsRecreate *)
      destruct (f_file st) eqn:F; [constructor; auto; rewrite ?F; auto|].
      constructor; cbn; auto; try discriminate.
      intros M c' _. left. specialize (I3 M eq_refl). destruct (f_queue st); [discriminate|discriminate].
    - (* FsRemove *)
      destruct (f_file st) eqn:F; [|constructor; auto; rewrite ?F; auto].
      unfold Datasource.enqueue. cbn [f_mode set_file].
      destruct (f_mode st) eqn:M; constructor; cbn; rewrite ?M; auto; try discriminate.
      intros _ _. rewrite existsb_app. cbn. apply orb_true_r.
    - (* Process *)
      destruct (f_mode st) eqn:M; [|constructor; auto; rewrite ?M; auto].
      destruct (f_queue st) as [|e q] eqn:Q; [constructor; auto; rewrite ?M, ?Q; auto|].
      destruct e; unfold Datasource.process_event, Datasource.read_and_update; cbn [f_file set_queue deliver].
      + (* EvWrite *)
        destruct (f_file st) as [c|] eqn:F.
        * constructor; cbn; rewrite ?M, ?F.
          -- rewrite run_app, I1. reflexivity.
          -- intros _ c' E. inversion E; subst. right. exists (f_hist st). reflexivity.
          -- discriminate.
          -- discriminate.
        * constructor; cbn; rewrite ?M, ?F; auto; try discriminate.
      + (* EvRename *)
        destruct (f_file st) as [c|] eqn:F.
        * constructor; cbn; rewrite ?M, ?F.
          -- rewrite !run_app, I1. reflexivity.
          -- intros _ c' E. inversion E; subst. right. exists (f_hist st ++ [empty_payload]). reflexivity.
          -- discriminate.
          -- discriminate.
        * constructor; cbn; rewrite ?F; try discriminate.
          -- rewrite run_app, I1. reflexivity.
          -- intros _. exists (f_hist st). reflexivity.
      + (* EvRemove *)
        constructor; cbn; try discriminate.
        * rewrite run_app, I1. reflexivity.
        * intros _. exists (f_hist st). reflexivity.
  Qed.

  Lemma FInv_run s0 st os : FInv s0 st -> FInv s0 (frun st os).
  Proof.
    revert st. induction os as [|o os IH]; intros st H; cbn; [exact H|].
    apply IH. apply FInv_step. exact H.
  Qed.

  (* quiescent and still watching: the file exists and its content is the payload the handler
     processed last; closed: the empty payload was processed last *)
  Lemma file_converges s0 c0 os :
    let st := frun (finit s0 c0) os in
    f_hs st = fst (run s0 (f_hist st)) /\
    (f_mode st = Watching -> f_queue st = [] ->
       exists c, f_file st = Some c /\ last_is (f_hist st) c) /\
    (f_mode st = Closed -> last_is (f_hist st) empty_payload).
  Proof.
    cbn zeta. pose proof (FInv_run s0 _ os (FInv_init s0 c0)) as [I1 I2 I3 I4].
    split; [exact I1|]. split; [|exact I4].
    intros M Q. destruct (f_file (frun (finit s0 c0) os)) as [c|] eqn:F.
    - exists c. split; [reflexivity|]. destruct (I2 M c eq_refl) as [H|H]; [congruence|exact H].
    - specialize (I3 M eq_refl). rewrite Q in I3. discriminate.
  Qed.

  (* ... hence, with the loader assumptions, the rules in force are those of the file *)
  Lemma file_in_force s0 c0 os :
    load_ok_spec -> load_fail_keeps -> clear_ok_spec -> clear_fail_keeps -> peq_typed ->
    loader_total -> (forall b p, convert b = CVal p -> typed p <> None) ->
    Sync s0 ->
    let st := frun (finit s0 c0) os in
    (f_mode st = Watching -> f_queue st = [] ->
       exists c, f_file st = Some c /\
         forall real, real_of (convert c) = Some real -> target real (in_force (snd (f_hs st)))) /\
    (f_mode st = Closed -> convert empty_payload = CNil -> in_force (snd (f_hs st)) = canon []).
  Proof.
    intros Hlok Hlfail Hcok Hcfail Hpeq Htot Hty HS. cbn zeta.
    destruct (file_converges s0 c0 os) as [I1 [I2 I3]].
    assert (Hlast : forall c real, last_is (f_hist (frun (finit s0 c0) os)) c ->
              real_of (convert c) = Some real ->
              target real (in_force (snd (f_hs (frun (finit s0 c0) os))))).
    { intros c real [h' Hh] R. rewrite I1, Hh, run_app.
      eapply applied_total; eauto.
      - intros p Hp. subst real. destruct (convert c) eqn:C; cbn in R; inversion R; subst. eapply Hty; eauto.
      - apply run_sync; auto. }
    split.
    - intros M Q. destruct (I2 M Q) as [c [F L]]. exists c. split; [exact F|].
      intros real R. eapply Hlast; eauto.
    - intros M E. specialize (Hlast empty_payload None (I3 M)). rewrite E in Hlast.
      apply Hlast. reflexivity.
  Qed.


  (* ---- final forms used by Properties/C18.v (specification vocabulary of the model only) -- *)

  Lemma applied_rules s b p l :
    load_ok_spec -> load_fail_keeps -> clear_ok_spec -> clear_fail_keeps -> peq_typed ->
    Sync s -> convert b = CVal p -> typed p = Some l ->
    let s' := fst (handle s b) in
    match snd (handle_body s b) with
    | Returned RNil => in_force (mgr_of s') = canon (valid_of l)
    | _ => last_of s' = last_of s /\ in_force (mgr_of s') = in_force (mgr_of s)
    end.
  Proof.
    intros H1 H2 H3 H4 H5 HS C T. cbn zeta.
    pose proof (applied_exactly H1 H2 H3 H4 H5 s b (Some p) HS) as A. cbn zeta in A.
    rewrite C in A. specialize (A eq_refl).
    destruct (snd (handle_body s b)) as [[|]|]; auto.
    destruct A as [l' [T' E]]. rewrite T in T'. inversion T'; subst. exact E.
  Qed.

  Lemma applied_empty s b :
    load_ok_spec -> load_fail_keeps -> clear_ok_spec -> clear_fail_keeps -> peq_typed ->
    Sync s -> convert b = CNil ->
    let s' := fst (handle s b) in
    match snd (handle_body s b) with
    | Returned RNil => in_force (mgr_of s') = canon []
    | _ => last_of s' = last_of s /\ in_force (mgr_of s') = in_force (mgr_of s)
    end.
  Proof.
    intros H1 H2 H3 H4 H5 HS C. cbn zeta.
    pose proof (applied_exactly H1 H2 H3 H4 H5 s b None HS) as A. cbn zeta in A.
    rewrite C in A. specialize (A eq_refl).
    destruct (snd (handle_body s b)) as [[|]|]; auto.
  Qed.

  Lemma applied_rules_total s b p l :
    load_ok_spec -> load_fail_keeps -> clear_ok_spec -> clear_fail_keeps -> peq_typed -> loader_total ->
    Sync s -> convert b = CVal p -> typed p = Some l ->
    snd (handle s b) = Returned RNil /\ in_force (mgr_of (fst (handle s b))) = canon (valid_of l).
  Proof.
    intros H1 H2 H3 H4 H5 H6 HS C T.
    destruct (applied_total H1 H2 H3 H4 H5 s b (Some p) H6) as [R [l' [T' E]]]; auto.
    - intros q Hq. inversion Hq; subst. rewrite T. discriminate.
    - rewrite C. reflexivity.
    - split; [exact R|]. rewrite T in T'. inversion T'; subst. exact E.
  Qed.

  Lemma applied_empty_total s b :
    load_ok_spec -> load_fail_keeps -> clear_ok_spec -> clear_fail_keeps -> peq_typed -> loader_total ->
    Sync s -> convert b = CNil ->
    snd (handle s b) = Returned RNil /\ in_force (mgr_of (fst (handle s b))) = canon [].
  Proof.
    intros H1 H2 H3 H4 H5 H6 HS C.
    destruct (applied_total H1 H2 H3 H4 H5 s b None H6) as [R E]; auto.
    - intros q Hq. discriminate.
    - rewrite C. reflexivity.
  Qed.

  Lemma file_converges_rules s0 c0 os :
    load_ok_spec -> load_fail_keeps -> clear_ok_spec -> clear_fail_keeps -> peq_typed ->
    loader_total -> (forall b p, convert b = CVal p -> typed p <> None) ->
    convert empty_payload = CNil ->
    Sync s0 ->
    let st := frun (finit s0 c0) os in
    (f_mode st = Watching -> f_queue st = [] ->
       exists c, f_file st = Some c /\
         match convert c with
         | CVal p => forall l, typed p = Some l -> in_force (mgr_of (f_hs st)) = canon (valid_of l)
         | CNil => in_force (mgr_of (f_hs st)) = canon []
         | _ => True
         end) /\
    (f_mode st = Closed -> in_force (mgr_of (f_hs st)) = canon []).
  Proof.
    intros H1 H2 H3 H4 H5 H6 H7 HE HS. cbn zeta.
    destruct (file_in_force s0 c0 os H1 H2 H3 H4 H5 H6 H7 HS) as [A B]. split.
    - intros M Q. destruct (A M Q) as [c [F T]]. exists c. split; [exact F|].
      destruct (convert c) as [| | |p] eqn:C; auto.
      + apply (T None). reflexivity.
      + intros l Tl. destruct (T (Some p) eq_refl) as [l' [T' E]]. rewrite Tl in T'. inversion T'; subst. exact E.
    - intros M. apply B; auto.
  Qed.

End HandlerProofs.

Arguments load_ok_spec {rule mgr} load valid in_force canon.
Arguments load_fail_keeps {rule mgr} load in_force.
Arguments clear_ok_spec {rule mgr} clear in_force canon.
Arguments clear_fail_keeps {rule mgr} clear in_force.
Arguments peq_typed {prop rule} peq typed.
Arguments loader_total {rule mgr} load clear.

(* ---- the reference instance satisfies every loader assumption ---------------------------- *)
From SG Require Import Model.DatasourceRef.

Section RefInstance.
  Variable validtab : list Z.

  Lemma ref_load_ok : load_ok_spec (rload validtab) (rvalid validtab) m_rules zsort.
  Proof.
    intros l m m' H. unfold rload in H. destruct (m_fault m); inversion H; subst. reflexivity.
  Qed.

  Lemma ref_load_fail : load_fail_keeps (rload validtab) m_rules.
  Proof.
    intros l m m' r H Hr. unfold rload in H. destruct (m_fault m); inversion H; subst; [reflexivity|congruence].
  Qed.

  Lemma ref_clear_ok : clear_ok_spec rclear m_rules zsort.
  Proof. intros m m' H. inversion H; subst. reflexivity. Qed.

  Lemma ref_clear_fail : clear_fail_keeps rclear m_rules.
  Proof. intros m m' r H Hr. inversion H; subst. congruence. Qed.

  Lemma oz_eqb_eq a b : oz_eqb a b = true -> a = b.
  Proof. destruct a, b; cbn; try discriminate; auto. intros H. f_equal. lia. Qed.

  Lemma ozl_eqb_eq a b : ozl_eqb a b = true -> a = b.
  Proof.
    revert b. induction a as [|x a IH]; intros [|y b]; cbn; try discriminate; auto.
    intros H. apply andb_true_iff in H. destruct H as [H1 H2].
    f_equal; [apply oz_eqb_eq; auto | apply IH; auto].
  Qed.

  Lemma ref_peq_typed w : peq_typed rpeq (rtyped w).
  Proof.
    intros p q H. unfold rpeq in H. apply andb_true_iff in H. destruct H as [_ H].
    unfold rtyped. destruct w; [reflexivity|]. f_equal. apply ozl_eqb_eq. exact H.
  Qed.

  Lemma ref_sync_init w : Sync (rtyped w) (rvalid validtab) m_rules zsort rinit.
  Proof. reflexivity. Qed.
End RefInstance.
