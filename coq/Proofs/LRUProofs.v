(* Lemmas about Model/LRU.v: recency order, absence of eviction while the number of distinct
   keys does not exceed the capacity, refinement to an unbounded total map, and the effect of
   an operation on the binding of another key. *)
From SG Require Import Base.Prelude Model.LRU.
#[local] Open Scope Z_scope.

Section LRUProofs.
Context {V : Type}.
Implicit Types (l : lru V) (k : Z) (v : V).

Definition real_key k : Prop := k < NaNBase.

Lemma keys_cons k v l : lru_keys ((k, v) :: l) = k :: lru_keys l.
Proof. reflexivity. Qed.
Lemma keys_nil : lru_keys (@nil (Z * V)) = [].
Proof. reflexivity. Qed.

Lemma lru_find_real k l : real_key k -> lru_find k l = alookup k l.
Proof. unfold real_key, lru_find. intros H. destruct (NaNBase <=? k) eqn:E; [lia|reflexivity]. Qed.

Lemma alookup_none_notin k l : alookup k l = None <-> ~ In k (lru_keys l).
Proof.
  induction l as [|[k' v'] r IH]; cbn.
  - tauto.
  - destruct (k =? k') eqn:E.
    + split; [discriminate|]. intros H. exfalso. apply H. left. lia.
    + rewrite IH. split; [intros H [H1|H1]; [lia|tauto]|tauto].
Qed.

Lemma alookup_some_in k l v : alookup k l = Some v -> In k (lru_keys l).
Proof.
  intros H. destruct (in_dec Z.eq_dec k (lru_keys l)) as [Hi|Hn]; [exact Hi|].
  apply alookup_none_notin in Hn. congruence.
Qed.

Lemma in_alookup_some k l : In k (lru_keys l) -> exists v, alookup k l = Some v.
Proof.
  intros H. destruct (alookup k l) as [v|] eqn:E; [eauto|].
  apply alookup_none_notin in E. tauto.
Qed.

Lemma keys_length l : length (lru_keys l) = length l.
Proof. apply map_length. Qed.

(* ---- deletion ---------------------------------------------------------------------- *)

Lemma keys_lru_del k l : lru_keys (lru_del k l) = keys_del k (lru_keys l).
Proof.
  unfold lru_keys. induction l as [|[k' v'] r IH]; cbn; [reflexivity|].
  destruct (k =? k'); cbn; [reflexivity|]. now rewrite <- IH.
Qed.

Lemma keys_del_notin k ks : ~ In k ks -> keys_del k ks = ks.
Proof.
  induction ks as [|k' r IH]; cbn; [reflexivity|]. intros H.
  destruct (k =? k') eqn:E; [exfalso; apply H; left; lia|]. f_equal. apply IH. tauto.
Qed.

Lemma in_keys_del k k' ks : In k' (keys_del k ks) -> In k' ks.
Proof.
  induction ks as [|k2 r IH]; cbn; [tauto|].
  destruct (k =? k2); cbn; [tauto|]. intros [H|H]; [tauto|right; auto].
Qed.

Lemma in_keys_del_other k k' ks : k' <> k -> In k' ks -> In k' (keys_del k ks).
Proof.
  intros Hne. induction ks as [|k2 r IH]; cbn; [tauto|].
  destruct (k =? k2) eqn:E; cbn.
  - intros [H|H]; [lia|exact H].
  - intros [H|H]; [left; exact H|right; auto].
Qed.

Lemma nodup_keys_del k ks : NoDup ks -> NoDup (keys_del k ks).
Proof.
  induction 1 as [|k2 r Hn Hd IH]; cbn; [constructor|].
  destruct (k =? k2); [exact Hd|]. constructor; [|exact IH].
  intros H. apply Hn. eapply in_keys_del; eauto.
Qed.

Lemma notin_keys_del k ks : NoDup ks -> ~ In k (keys_del k ks).
Proof.
  induction 1 as [|k2 r Hn Hd IH]; cbn; [tauto|].
  destruct (k =? k2) eqn:E.
  - assert (k = k2) by lia. subst. exact Hn.
  - cbn. intros [H|H]; [lia|tauto].
Qed.

Lemma length_keys_del k ks : In k ks -> S (length (keys_del k ks)) = length ks.
Proof.
  induction ks as [|k2 r IH]; cbn; [tauto|].
  destruct (k =? k2) eqn:E; [reflexivity|]. intros [H|H]; [lia|]. cbn. f_equal. auto.
Qed.

Lemma alookup_del_other k k' l : k' <> k -> alookup k' (lru_del k l) = alookup k' l.
Proof.
  intros Hne. induction l as [|[k2 v2] r IH]; cbn; [reflexivity|].
  destruct (k =? k2) eqn:E; cbn.
  - destruct (k' =? k2) eqn:E2; [lia|reflexivity].
  - destruct (k' =? k2); auto.
Qed.

Lemma alookup_set_same k v l : In k (lru_keys l) -> alookup k (lru_set k v l) = Some v.
Proof.
  induction l as [|[k2 v2] r IH]; cbn; [tauto|].
  destruct (k =? k2) eqn:E; cbn; rewrite ?Z.eqb_refl, ?E; [reflexivity|].
  intros [H|H]; [lia|auto].
Qed.

Lemma alookup_set_other k k' v l : k' <> k -> alookup k' (lru_set k v l) = alookup k' l.
Proof.
  intros Hne. induction l as [|[k2 v2] r IH]; cbn; [reflexivity|].
  destruct (k =? k2) eqn:E; cbn.
  - assert (k = k2) by lia. subst. destruct (k' =? k2) eqn:E2; [lia|reflexivity].
  - destruct (k' =? k2); auto.
Qed.

Lemma keys_lru_set k v l : lru_keys (lru_set k v l) = lru_keys l.
Proof.
  unfold lru_keys. induction l as [|[k2 v2] r IH]; cbn; [reflexivity|].
  destruct (k =? k2) eqn:E; cbn; [f_equal; lia|now rewrite <- IH].
Qed.

Lemma lru_set_absent k v l : alookup k l = None -> lru_set k v l = l.
Proof.
  induction l as [|[k2 v2] r IH]; cbn; [reflexivity|].
  destruct (k =? k2) eqn:E; [discriminate|]. intros H. now rewrite IH.
Qed.

(* ---- eviction ---------------------------------------------------------------------- *)

Lemma keys_removelast l : lru_keys (removelast l) = removelast (lru_keys l).
Proof.
  induction l as [|[k v] r IH]; [reflexivity|].
  destruct r as [|p r']; [reflexivity|].
  change (removelast ((k, v) :: p :: r')) with ((k, v) :: removelast (p :: r')).
  change (lru_keys ((k, v) :: removelast (p :: r'))) with (k :: lru_keys (removelast (p :: r'))).
  rewrite IH. reflexivity.
Qed.

Definition key_trim (cap : Z) (ks : list Z) : list Z :=
  if cap <? Z.of_nat (length ks) then removelast ks else ks.

Lemma keys_lru_trim cap l : lru_keys (lru_trim cap l) = key_trim cap (lru_keys l).
Proof.
  unfold lru_trim, key_trim. rewrite keys_length.
  destruct (cap <? Z.of_nat (length l)); [apply keys_removelast|reflexivity].
Qed.

Lemma lru_trim_fits cap l : Z.of_nat (length l) <= cap -> lru_trim cap l = l.
Proof. unfold lru_trim. intros H. destruct (cap <? Z.of_nat (length l)) eqn:E; [lia|reflexivity]. Qed.

(* a binding either survives removelast unchanged or disappears *)
Lemma alookup_removelast k l :
  alookup k (removelast l) = alookup k l \/ alookup k (removelast l) = None.
Proof.
  induction l as [|[k2 v2] r IH]; [left; reflexivity|].
  destruct r as [|p r']; [right; reflexivity|].
  change (removelast ((k2, v2) :: p :: r')) with ((k2, v2) :: removelast (p :: r')).
  cbn [alookup]. destruct (k =? k2); [left; reflexivity|exact IH].
Qed.

Lemma in_removelast (A : Type) (x : A) (ks : list A) : In x (removelast ks) -> In x ks.
Proof.
  induction ks as [|y r IH]; [tauto|]. destruct r as [|z r']; [cbn; tauto|].
  change (removelast (y :: z :: r')) with (y :: removelast (z :: r')).
  intros [H|H]; [left; exact H|right; auto].
Qed.

Lemma nodup_removelast (A : Type) (ks : list A) : NoDup ks -> NoDup (removelast ks).
Proof.
  induction 1 as [|y r Hn Hd IH]; [constructor|]. destruct r as [|z r']; [constructor|].
  change (removelast (y :: z :: r')) with (y :: removelast (z :: r')).
  constructor; [|exact IH]. intros H. apply Hn. now apply in_removelast.
Qed.

Lemma length_removelast (A : Type) (ks : list A) : ks <> [] -> S (length (removelast ks)) = length ks.
Proof.
  induction ks as [|y r IH]; [congruence|]. intros _. destruct r as [|z r']; [reflexivity|].
  change (removelast (y :: z :: r')) with (y :: removelast (z :: r')). cbn [length]. f_equal.
  apply IH. discriminate.
Qed.

(* ---- the recency order, for every history over real (non-NaN) keys ------------------- *)

(* effect of one operation on the key sequence: the touched key goes to the front; a new key
   pushes the oldest one out when the capacity is exceeded *)
Definition keys_step (cap : Z) (ks : list Z) (o : lru_op V) : list Z :=
  let k := op_key o in
  match o with
  | OpAddIfAbsent _ _ | OpAdd _ _ =>
      if existsb (Z.eqb k) ks then touch k ks else key_trim cap (k :: ks)
  | OpGet _ => if existsb (Z.eqb k) ks then touch k ks else ks
  | OpSet _ _ => ks
  end.

Lemma existsb_in k ks : existsb (Z.eqb k) ks = true <-> In k ks.
Proof.
  rewrite existsb_exists. split.
  - intros [x [Hx He]]. assert (k = x) by lia. now subst.
  - intros H. exists k. split; [exact H|lia].
Qed.

Lemma find_cases k l : real_key k ->
  (lru_find k l = None /\ alookup k l = None /\ existsb (Z.eqb k) (lru_keys l) = false) \/
  (exists v, lru_find k l = Some v /\ alookup k l = Some v /\ existsb (Z.eqb k) (lru_keys l) = true).
Proof.
  intros Hr. rewrite (lru_find_real _ _ Hr). destruct (alookup k l) as [v|] eqn:F.
  - right. exists v. repeat split; auto. apply existsb_in. eapply alookup_some_in; eauto.
  - left. repeat split; auto. apply alookup_none_notin in F.
    destruct (existsb (Z.eqb k) (lru_keys l)) eqn:G; [|reflexivity].
    apply existsb_in in G. tauto.
Qed.

Lemma keys_lru_step cap l o : real_key (op_key o) ->
  lru_keys (fst (lru_step cap l o)) = keys_step cap (lru_keys l) o.
Proof.
  intros Hr.
  destruct o as [k v|k|k v|k v]; cbn [lru_step keys_step op_key fst] in *.
  - unfold lru_add_if_absent. destruct (find_cases k l Hr) as [[-> [_ ->]]|[x [-> [_ ->]]]]; cbn [fst].
    + now rewrite keys_lru_trim.
    + unfold touch. rewrite <- keys_lru_del. reflexivity.
  - unfold lru_get. destruct (find_cases k l Hr) as [[-> [_ ->]]|[x [-> [_ ->]]]]; cbn [fst].
    + reflexivity.
    + unfold touch. rewrite <- keys_lru_del. reflexivity.
  - unfold lru_add. destruct (find_cases k l Hr) as [[-> [_ ->]]|[x [-> [_ ->]]]]; cbn [fst].
    + now rewrite keys_lru_trim.
    + unfold touch. rewrite <- keys_lru_del. reflexivity.
  - apply keys_lru_set.
Qed.

(* eviction removes exactly the least recently used key: a new key entering a full cache *)
Lemma lru_evicts_oldest cap k v l :
  lru_find k l = None -> Z.of_nat (length l) = cap -> 1 <= cap ->
  fst (lru_add_if_absent cap k v l) = (k, v) :: removelast l /\
  lru_keys l = removelast (lru_keys l) ++ [last (lru_keys l) 0].
Proof.
  intros Hf Hlen Hcap. unfold lru_add_if_absent. rewrite Hf. cbn [fst].
  assert (Hne : l <> []) by (intros ->; cbn in Hlen; lia).
  split.
  - unfold lru_trim. cbn [length]. destruct (cap <? Z.of_nat (S (length l))) eqn:E; [|lia].
    destruct l; [congruence|reflexivity].
  - apply app_removelast_last. destruct l; [congruence|discriminate].
Qed.

(* ---- well-formedness --------------------------------------------------------------- *)

Definition lru_wf (cap : Z) l : Prop := NoDup (lru_keys l) /\ Z.of_nat (length l) <= cap.

Lemma key_trim_nodup cap ks : NoDup ks -> NoDup (key_trim cap ks).
Proof. unfold key_trim. intros H. destruct (cap <? _); [now apply nodup_removelast|exact H]. Qed.

Lemma key_trim_length cap ks : 0 <= cap -> Z.of_nat (length ks) <= cap + 1 ->
  Z.of_nat (length (key_trim cap ks)) <= cap.
Proof.
  unfold key_trim. intros Hc H. destruct (cap <? Z.of_nat (length ks)) eqn:E; [|lia].
  assert (Hne : ks <> []) by (intros ->; cbn in E; lia).
  pose proof (length_removelast _ ks Hne). lia.
Qed.

Lemma touch_nodup k ks : NoDup ks -> NoDup (touch k ks).
Proof.
  intros H. unfold touch. constructor; [now apply notin_keys_del|now apply nodup_keys_del].
Qed.

Lemma touch_length k ks : In k ks -> length (touch k ks) = length ks.
Proof. intros H. unfold touch. cbn [length]. now apply length_keys_del. Qed.

Lemma keys_step_wf cap ks o : 0 <= cap ->
  NoDup ks -> Z.of_nat (length ks) <= cap ->
  NoDup (keys_step cap ks o) /\ Z.of_nat (length (keys_step cap ks o)) <= cap.
Proof.
  intros Hc Hnd Hlen.
  assert (Hpush : forall k, existsb (Z.eqb k) ks = false ->
            NoDup (key_trim cap (k :: ks)) /\ Z.of_nat (length (key_trim cap (k :: ks))) <= cap).
  { intros k E. split.
    - apply key_trim_nodup. constructor; [|exact Hnd]. intros Hi. apply existsb_in in Hi. congruence.
    - apply key_trim_length; [exact Hc|]. cbn [length]. lia. }
  assert (Htouch : forall k, existsb (Z.eqb k) ks = true ->
            NoDup (touch k ks) /\ Z.of_nat (length (touch k ks)) <= cap).
  { intros k E. apply existsb_in in E. split; [now apply touch_nodup|]. rewrite touch_length; auto. }
  destruct o as [k v|k|k v|k v]; cbn [keys_step op_key].
  - destruct (existsb (Z.eqb k) ks) eqn:E; auto.
  - destruct (existsb (Z.eqb k) ks) eqn:E; auto.
  - destruct (existsb (Z.eqb k) ks) eqn:E; auto.
  - auto.
Qed.

Lemma lru_step_wf cap l o : 0 <= cap -> real_key (op_key o) ->
  lru_wf cap l -> lru_wf cap (fst (lru_step cap l o)).
Proof.
  intros Hc Hr [Hnd Hlen]. unfold lru_wf. rewrite <- keys_length, (keys_lru_step _ _ _ Hr).
  rewrite <- keys_length in Hlen. now apply keys_step_wf.
Qed.

(* ---- no eviction while the distinct keys fit ----------------------------------------- *)

Lemma front_keys k (x : V) l :
  lru_keys ((k, x) :: lru_del k l) = touch k (lru_keys l).
Proof. rewrite keys_cons, keys_lru_del. reflexivity. Qed.

Lemma touch_incl k ks (K : list Z) : In k K -> incl ks K -> incl (touch k ks) K.
Proof.
  intros Hk Hi y [Hy|Hy]; [now subst|]. apply Hi. eapply in_keys_del; eauto.
Qed.

(* all keys of the cache and of the operation lie in a duplicate-free universe K that fits *)
Lemma lru_step_no_evict cap (K : list Z) l o :
  NoDup K -> Z.of_nat (length K) <= cap -> In (op_key o) K -> real_key (op_key o) ->
  NoDup (lru_keys l) -> incl (lru_keys l) K ->
  let l' := fst (lru_step cap l o) in
  NoDup (lru_keys l') /\ incl (lru_keys l') K /\
  (forall k', k' <> op_key o -> alookup k' l' = alookup k' l) /\
  (match o with
   | OpAddIfAbsent k v => alookup k l' = Some (match alookup k l with Some x => x | None => v end)
                          /\ snd (lru_step cap l o) = alookup k l
   | OpGet k => alookup k l' = alookup k l /\ snd (lru_step cap l o) = alookup k l
   | OpAdd k v => alookup k l' = Some v
   | OpSet k v => alookup k l' = match alookup k l with Some _ => Some v | None => None end
   end).
Proof.
  intros HK Hfit Hin Hr Hnd Hincl l'.
  assert (Hpush : forall k v, In k K -> alookup k l = None -> lru_trim cap ((k, v) :: l) = (k, v) :: l).
  { intros k v HkK Hnone. apply lru_trim_fits.
    assert (Hnd2 : NoDup (lru_keys ((k, v) :: l))).
    { rewrite keys_cons. constructor; [now apply alookup_none_notin|exact Hnd]. }
    assert (Hi2 : incl (lru_keys ((k, v) :: l)) K).
    { rewrite keys_cons. intros x [Hx|Hx]; [now subst|auto]. }
    pose proof (NoDup_incl_length Hnd2 Hi2) as Hl. rewrite keys_length in Hl. lia. }
  assert (Hpushed : forall k v, In k K -> alookup k l = None ->
            NoDup (lru_keys ((k, v) :: l)) /\ incl (lru_keys ((k, v) :: l)) K).
  { intros k v HkK Hnone. rewrite keys_cons. split.
    - constructor; [now apply alookup_none_notin|exact Hnd].
    - intros y [Hy|Hy]; [now subst|auto]. }
  assert (Hfront : forall k (x : V), In k K ->
             NoDup (lru_keys ((k, x) :: lru_del k l)) /\ incl (lru_keys ((k, x) :: lru_del k l)) K).
  { intros k x HkK. rewrite front_keys. split; [now apply touch_nodup|now apply touch_incl]. }
  assert (Hother : forall k (x : V) k', k' <> k -> alookup k' ((k, x) :: lru_del k l) = alookup k' l).
  { intros k x k' Hne. cbn [alookup]. destruct (k' =? k) eqn:E2; [lia|]. now apply alookup_del_other. }
  assert (Hother2 : forall k (x : V) k', k' <> k -> alookup k' ((k, x) :: l) = alookup k' l).
  { intros k x k' Hne. cbn [alookup]. destruct (k' =? k) eqn:E2; [lia|reflexivity]. }
  assert (Hsame : forall k (x : V) r, alookup k ((k, x) :: r) = Some x).
  { intros k x r. cbn [alookup]. now rewrite Z.eqb_refl. }
  destruct o as [k v|k|k v|k v]; cbn [lru_step op_key fst snd] in *; subst l'.
  - unfold lru_add_if_absent. rewrite (lru_find_real _ _ Hr).
    destruct (alookup k l) as [x|] eqn:E; cbn [fst snd].
    + destruct (Hfront k x Hin) as [H1 H2]. repeat split; auto.
    + rewrite (Hpush k v Hin E). destruct (Hpushed k v Hin E) as [H1 H2]. repeat split; auto.
  - unfold lru_get. rewrite (lru_find_real _ _ Hr).
    destruct (alookup k l) as [x|] eqn:E; cbn [fst snd].
    + destruct (Hfront k x Hin) as [H1 H2]. repeat split; auto.
    + repeat split; auto.
  - unfold lru_add. rewrite (lru_find_real _ _ Hr).
    destruct (alookup k l) as [x|] eqn:E; cbn [fst snd].
    + destruct (Hfront k v Hin) as [H1 H2]. repeat split; auto.
    + rewrite (Hpush k v Hin E). destruct (Hpushed k v Hin E) as [H1 H2]. repeat split; auto.
  - rewrite keys_lru_set. repeat split; auto.
    + intros k' Hne. now apply alookup_set_other.
    + destruct (alookup k l) as [x|] eqn:E.
      * apply alookup_set_same. eapply alookup_some_in; eauto.
      * now rewrite lru_set_absent.
Qed.

(* ---- refinement: a cache whose distinct keys fit behaves as an unbounded total map ------ *)

Definition agrees l (m : tmap V) : Prop := forall k, alookup k l = m k.

Lemma lru_step_refines cap (K : list Z) l (m : tmap V) o :
  NoDup K -> Z.of_nat (length K) <= cap -> In (op_key o) K -> real_key (op_key o) ->
  NoDup (lru_keys l) -> incl (lru_keys l) K -> agrees l m ->
  snd (lru_step cap l o) = snd (map_step m o) /\
  agrees (fst (lru_step cap l o)) (fst (map_step m o)) /\
  NoDup (lru_keys (fst (lru_step cap l o))) /\ incl (lru_keys (fst (lru_step cap l o))) K.
Proof.
  intros HK Hfit Hin Hr Hnd Hincl Hag.
  destruct (lru_step_no_evict cap K l o HK Hfit Hin Hr Hnd Hincl) as [H1 [H2 [H3 H4]]].
  repeat split; auto.
  - destruct o as [k v|k|k v|k v]; cbn [map_step lru_step snd] in *.
    + destruct H4 as [_ ->]. rewrite (Hag k). destruct (m k); reflexivity.
    + destruct H4 as [_ ->]. apply Hag.
    + reflexivity.
    + destruct (m k); reflexivity.
  - intros k'. destruct o as [k v|k|k v|k v]; cbn [map_step op_key] in *.
    + destruct (Z.eq_dec k' k) as [->|Hne].
      * destruct H4 as [-> _]. rewrite (Hag k). destruct (m k) eqn:E; cbn [fst]; [now rewrite E|].
        unfold tm_upd. now rewrite Z.eqb_refl.
      * rewrite (H3 k' Hne), (Hag k'). destruct (m k) eqn:E; cbn [fst]; [reflexivity|].
        unfold tm_upd. destruct (k' =? k) eqn:E2; [lia|reflexivity].
    + cbn [fst]. destruct (Z.eq_dec k' k) as [->|Hne].
      * destruct H4 as [-> _]. apply Hag.
      * rewrite (H3 k' Hne). apply Hag.
    + cbn [fst]. unfold tm_upd. destruct (Z.eq_dec k' k) as [->|Hne].
      * rewrite H4. now rewrite Z.eqb_refl.
      * rewrite (H3 k' Hne), (Hag k'). destruct (k' =? k) eqn:E2; [lia|reflexivity].
    + destruct (Z.eq_dec k' k) as [->|Hne].
      * rewrite H4, (Hag k). destruct (m k) eqn:E; cbn [fst]; [|now rewrite E].
        unfold tm_upd. now rewrite Z.eqb_refl.
      * rewrite (H3 k' Hne), (Hag k'). destruct (m k) eqn:E; cbn [fst]; [|reflexivity].
        unfold tm_upd. destruct (k' =? k) eqn:E2; [lia|reflexivity].
Qed.

Theorem lru_refines_map cap (K : list Z) : NoDup K -> Z.of_nat (length K) <= cap ->
  forall ops l (m : tmap V),
  Forall (fun o => In (op_key o) K /\ real_key (op_key o)) ops ->
  NoDup (lru_keys l) -> incl (lru_keys l) K -> agrees l m ->
  snd (lru_run cap l ops) = snd (map_run m ops) /\
  agrees (fst (lru_run cap l ops)) (fst (map_run m ops)).
Proof.
  intros HK Hfit. induction ops as [|o r IH]; intros l m Hops Hnd Hincl Hag.
  - split; [reflexivity|exact Hag].
  - inversion Hops as [|? ? [Hin Hr] Hrest]; subst.
    destruct (lru_step_refines cap K l m o HK Hfit Hin Hr Hnd Hincl Hag) as [H1 [H2 [H3 H4]]].
    cbn [lru_run map_run].
    destruct (lru_step cap l o) as [l1 x] eqn:E1. destruct (map_step m o) as [m1 y] eqn:E2.
    cbn [fst snd] in *. specialize (IH l1 m1 Hrest H3 H4 H2).
    destruct (lru_run cap l1 r) as [l2 xs]. destruct (map_run m1 r) as [m2 ys].
    cbn [fst snd] in *. destruct IH as [IH1 IH2]. split; [congruence|exact IH2].
Qed.

(* ---- effect of an operation on another key, with eviction possible ------------------- *)

(* the binding of a key other than the one operated on is unchanged or evicted *)
Lemma lru_step_other cap l o k' : k' <> op_key o ->
  alookup k' (fst (lru_step cap l o)) = alookup k' l \/ alookup k' (fst (lru_step cap l o)) = None.
Proof.
  intros Hne.
  assert (Hfront : forall k (x : V), k' <> k -> alookup k' ((k, x) :: lru_del k l) = alookup k' l).
  { intros k x Hn. cbn [alookup]. destruct (k' =? k) eqn:E2; [lia|]. now apply alookup_del_other. }
  assert (Hpush : forall k (x : V), k' <> k ->
            alookup k' (lru_trim cap ((k, x) :: l)) = alookup k' l \/
            alookup k' (lru_trim cap ((k, x) :: l)) = None).
  { intros k x Hn. unfold lru_trim. destruct (cap <? _).
    - destruct (alookup_removelast k' ((k, x) :: l)) as [H|H]; [left|right; exact H].
      rewrite H. cbn [alookup]. destruct (k' =? k) eqn:E2; [lia|reflexivity].
    - left. cbn [alookup]. destruct (k' =? k) eqn:E2; [lia|reflexivity]. }
  destruct o as [k v|k|k v|k v]; cbn [lru_step op_key fst] in *.
  - unfold lru_add_if_absent. destruct (lru_find k l); cbn [fst]; auto.
  - unfold lru_get. destruct (lru_find k l); cbn [fst]; auto.
  - unfold lru_add. destruct (lru_find k l); cbn [fst]; auto.
  - left. now apply alookup_set_other.
Qed.

(* the key operated on by AddIfAbsent / Add is bound afterwards (capacity >= 1) *)
Lemma lru_add_if_absent_bound cap k v l : 1 <= cap -> real_key k ->
  alookup k (fst (lru_add_if_absent cap k v l)) =
  Some (match alookup k l with Some x => x | None => v end).
Proof.
  intros Hc Hr. unfold lru_add_if_absent. rewrite (lru_find_real _ _ Hr).
  destruct (alookup k l) as [x|] eqn:E; cbn [fst].
  - cbn [alookup]. now rewrite Z.eqb_refl.
  - unfold lru_trim. destruct (cap <? _) eqn:E2.
    + destruct l as [|p r]; [cbn in E2; lia|].
      change (removelast ((k, v) :: p :: r)) with ((k, v) :: removelast (p :: r)).
      cbn [alookup]. now rewrite Z.eqb_refl.
    + cbn [alookup]. now rewrite Z.eqb_refl.
Qed.

End LRUProofs.
