(* The comparison of RejectTrafficShapingChecker.DoCheck,
      float64(sum) + float64(batch) > threshold,
   equals the exact comparison  sum + batch > threshold  as long as sum + batch < 2^53, and hence
   the integer comparison  sum + batch > floor(threshold)  for a finite non-negative threshold.
   Through Flocq's formalisation of IEEE-754 binary64 (Coq primitive floats = binary64,
   FloatAxioms). *)
From Coq Require Import ZArith Reals Floats Lia Lra.
From Flocq Require Import Core IEEE754.BinarySingleNaN IEEE754.PrimFloat.
From SG Require Import Base.Prelude Base.GoInt Base.GoFloat Model.Flow.
#[local] Open Scope Z_scope.

#[local] Instance Hprec : FLX.Prec_gt_0 prec := eq_refl _.
#[local] Instance Hmax : Prec_lt_emax prec emax := eq_refl _.

Notation FHprec := Flocq.IEEE754.PrimFloat.Hprec.
Notation FHmax := Flocq.IEEE754.PrimFloat.Hmax.

(* round to nearest, ties to even, in binary64 *)
Definition Rnd (x : R) : R := round radix2 (SpecFloat.fexp prec emax) ZnearestE x.

(* the real value of a double (0 for infinities and NaN) *)
Definition FR (f : Coq.Floats.PrimFloat.float) : R := B2R (Prim2B f).
Definition ffinite (f : Coq.Floats.PrimFloat.float) : bool := is_finite_SF (Prim2SF f).

Lemma FR_SF f : FR f = SF2R radix2 (Prim2SF f).
Proof. unfold FR, Prim2B. apply B2R_SF2B. Qed.

Lemma fin_SF f : is_finite (Prim2B f) = ffinite f.
Proof. unfold Prim2B, ffinite. apply is_finite_SF2B. Qed.

#[local] Instance fexp_valid : Valid_exp (SpecFloat.fexp prec emax) := fexp_correct prec emax Hprec.

Lemma bpow53 : bpow radix2 53 = IZR (2 ^ 53).
Proof. rewrite <- (IZR_Zpower radix2 53) by lia. reflexivity. Qed.

Lemma F2R_int z : F2R (Float radix2 z 0) = IZR z.
Proof. unfold F2R; cbn; ring. Qed.

Lemma int_format z : Z.abs z < 2 ^ 53 -> generic_format radix2 (SpecFloat.fexp prec emax) (IZR z).
Proof.
  intros Hz. rewrite <- F2R_int.
  apply generic_format_F2R. intros Hnz. unfold cexp. rewrite F2R_int.
  assert (Hm : (mag radix2 (IZR z) <= 53)%Z).
  { apply mag_le_bpow.
    - apply not_0_IZR. exact Hnz.
    - rewrite <- abs_IZR. rewrite bpow53. apply IZR_lt. exact Hz. }
  unfold SpecFloat.fexp, SpecFloat.emin, prec, emax. lia.
Qed.

Lemma Rnd_int z : Z.abs z < 2 ^ 53 -> Rnd (IZR z) = IZR z.
Proof. intros Hz. unfold Rnd. apply round_generic; [apply valid_rnd_N|apply int_format; exact Hz]. Qed.

Lemma bpow_emax_big z : Z.abs z < 2 ^ 53 -> (Rabs (IZR z) < bpow radix2 emax)%R.
Proof.
  intros Hz. rewrite <- abs_IZR. apply Rlt_le_trans with (bpow radix2 53).
  - rewrite bpow53. apply IZR_lt. exact Hz.
  - apply bpow_le. unfold emax. lia.
Qed.

(* float64(n) of a uint64 / int64 below 2^53 is exact *)
Lemma of_u64_correct n : 0 <= n < 2 ^ 53 ->
  FR (f_of_u64 n) = IZR n /\ is_finite (Prim2B (f_of_u64 n)) = true.
Proof.
  intros Hn. unfold f_of_u64, f_of_u63.
  assert (E2 : (n <? two63) = true). { Transparent two63. unfold two63. lia. } rewrite E2.
  unfold FR. rewrite of_int63_equiv.
  assert (E3 : Uint63.to_Z (Uint63.of_Z n) = n).
  { rewrite Uint63.of_Z_spec. apply Z.mod_small. unfold Uint63.wB, Uint63.size. cbn. lia. }
  rewrite E3.
  pose proof (binary_normalize_correct prec emax FHprec FHmax mode_NE n 0 false) as H.
  cbv zeta in H. rewrite F2R_int in H. cbn [round_mode] in H.
  fold (Rnd (IZR n)) in H. rewrite Rnd_int in H by lia.
  rewrite Rlt_bool_true in H by (apply bpow_emax_big; lia).
  destruct H as (H1 & H2 & _). split; assumption.
Qed.

Lemma of_i64_correct n : 0 <= n < 2 ^ 53 ->
  FR (f_of_i64 n) = IZR n /\ is_finite (Prim2B (f_of_i64 n)) = true.
Proof.
  intros Hn. unfold f_of_i64. assert (E1 : (n <? 0) = false) by lia. rewrite E1.
  apply of_u64_correct. exact Hn.
Qed.

(* float64(sum) + float64(batch) is exact below 2^53 *)
Lemma sum_correct s b : 0 <= s -> 0 <= b -> s + b < 2 ^ 53 ->
  FR (f_of_i64 s + f_of_u64 b) = IZR (s + b) /\ is_finite (Prim2B (f_of_i64 s + f_of_u64 b)) = true.
Proof.
  intros Hs Hb Hsb.
  destruct (of_i64_correct s ltac:(lia)) as (Vs & Fs).
  destruct (of_u64_correct b ltac:(lia)) as (Vb & Fb).
  unfold FR in *. rewrite add_equiv.
  pose proof (Bplus_correct prec emax FHprec FHmax mode_NE _ _ Fs Fb) as H.
  rewrite Vs, Vb in H. rewrite <- plus_IZR in H. cbn [round_mode] in H.
  fold (Rnd (IZR (s + b))) in H. rewrite Rnd_int in H by lia.
  rewrite Rlt_bool_true in H by (apply bpow_emax_big; lia).
  destruct H as (H1 & H2 & _). split; assumption.
Qed.

(* the float comparison is the exact one *)
Lemma rule_blocks_real thr s b : ffinite thr = true -> 0 <= s -> 0 <= b -> s + b < 2 ^ 53 ->
  rule_blocks thr s b = Rlt_bool (FR thr) (IZR (s + b)).
Proof.
  intros Hf Hs Hb Hsb. destruct (sum_correct s b Hs Hb Hsb) as (V & F).
  unfold rule_blocks. rewrite ltb_equiv. rewrite Bltb_correct; [|rewrite fin_SF; exact Hf|exact F].
  fold (FR thr). fold (FR (f_of_i64 s + f_of_u64 b)). rewrite V. reflexivity.
Qed.

(* ---- floor of a finite non-negative threshold, computable ---- *)

Definition thr_limit (thr : Coq.Floats.PrimFloat.float) : Z :=
  match f_trunc thr with Some z => z | None => 0 end.

(* the guard of the theorems: a finite threshold that IsValidRule accepts *)
Definition thr_ok (thr : Coq.Floats.PrimFloat.float) : bool := ffinite thr && negb (thr <? 0)%float.

Lemma bpow_nonneg_Z e : 0 <= e -> bpow radix2 e = IZR (2 ^ e).
Proof. intros He. rewrite <- (IZR_Zpower radix2 e) by exact He. reflexivity. Qed.

Lemma bpow_neg_Z e : e < 0 -> bpow radix2 e = (/ IZR (2 ^ (- e)))%R.
Proof.
  intros He. replace e with (- (- e)) at 1 by lia. rewrite bpow_opp. rewrite bpow_nonneg_Z by lia. reflexivity.
Qed.

Lemma floor_scaled z e :
  Zfloor (IZR z * bpow radix2 e) = if 0 <=? e then z * 2 ^ e else z / 2 ^ (- e).
Proof.
  destruct (0 <=? e) eqn:E.
  - rewrite bpow_nonneg_Z by lia. rewrite <- mult_IZR. apply Zfloor_IZR.
  - rewrite bpow_neg_Z by lia. apply Zfloor_div. apply Z.pow_nonzero; lia.
Qed.

Lemma FR_zero : FR 0%float = 0%R.
Proof. rewrite FR_SF. reflexivity. Qed.

Lemma thr_ok_nonneg thr : thr_ok thr = true -> ffinite thr = true /\ (0 <= FR thr)%R.
Proof.
  unfold thr_ok. intros H. apply andb_prop in H. destruct H as [Hf Hn]. split; [exact Hf|].
  apply negb_true_iff in Hn. rewrite ltb_equiv in Hn.
  rewrite Bltb_correct in Hn; [|rewrite fin_SF; exact Hf|reflexivity].
  fold (FR thr) in Hn. fold (FR 0%float) in Hn. rewrite FR_zero in Hn.
  revert Hn. case Rlt_bool_spec; [discriminate|]. intros Hle _. exact Hle.
Qed.

Lemma thr_limit_floor thr : thr_ok thr = true -> thr_limit thr = Zfloor (FR thr).
Proof.
  intros H. destruct (thr_ok_nonneg thr H) as (Hf & Hpos). revert Hf Hpos.
  unfold ffinite, thr_limit, f_trunc. rewrite FR_SF.
  destruct (Prim2SF thr) as [s|s| |s m e]; cbn [is_finite_SF SF2R].
  - intros _ _. rewrite Zfloor_IZR. reflexivity.
  - discriminate.
  - discriminate.
  - intros _ Hpos. destruct s.
    + exfalso. assert (F2R (Float radix2 (cond_Zopp true (Z.pos m)) e) < 0)%R; [|lra].
      apply F2R_lt_0. cbn. lia.
    + unfold F2R. cbn [cond_Zopp Fnum Fexp]. rewrite floor_scaled. reflexivity.
Qed.

Lemma thr_limit_nonneg thr : thr_ok thr = true -> 0 <= thr_limit thr.
Proof.
  intros H. rewrite (thr_limit_floor thr H). destruct (thr_ok_nonneg thr H) as (_ & Hpos).
  apply Zfloor_lub. cbn. exact Hpos.
Qed.

(* DoCheck blocks iff sum + batch exceeds the integer part of the threshold *)
Theorem rule_blocks_exact thr s b : thr_ok thr = true -> 0 <= s -> 0 <= b -> s + b < 2 ^ 53 ->
  rule_blocks thr s b = (thr_limit thr <? s + b).
Proof.
  intros Hok Hs Hb Hsb. destruct (thr_ok_nonneg thr Hok) as (Hf & _).
  rewrite (rule_blocks_real thr s b Hf Hs Hb Hsb). rewrite (thr_limit_floor thr Hok).
  destruct (Zfloor (FR thr) <? s + b) eqn:E.
  - apply Rlt_bool_true. apply Z.ltb_lt in E.
    apply Rlt_le_trans with (IZR (Zfloor (FR thr)) + 1)%R; [apply Zfloor_ub|].
    rewrite <- (plus_IZR _ 1). apply IZR_le. lia.
  - apply Rlt_bool_false. apply Z.ltb_ge in E.
    apply Rle_trans with (IZR (Zfloor (FR thr))); [apply IZR_le; exact E|apply Zfloor_lb].
Qed.

(* and the exact-real reading of the same comparison *)
Theorem rule_blocks_iff_real thr s b : thr_ok thr = true -> 0 <= s -> 0 <= b -> s + b < 2 ^ 53 ->
  (rule_blocks thr s b = false <-> (IZR (s + b) <= FR thr)%R).
Proof.
  intros Hok Hs Hb Hsb. destruct (thr_ok_nonneg thr Hok) as (Hf & _).
  rewrite (rule_blocks_real thr s b Hf Hs Hb Hsb). split.
  - case Rlt_bool_spec; [discriminate|]. intros Hle _. exact Hle.
  - intros H. apply Rlt_bool_false. exact H.
Qed.
