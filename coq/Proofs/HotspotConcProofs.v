(* Lemmas about the concurrency path of Model/Hotspot.v (conc_check, conc_bump, Entry/Exit
   histories) for property C06. *)
From SG Require Import Base.Prelude Base.GoInt Model.LRU Model.Hotspot.
#[local] Open Scope Z_scope.

(* ---- the recorded finding: the cell of a value in flight is evicted ------------------- *)

Definition conc_rule (thr cap : Z) : rule :=
  {| r_metric := 0; r_behavior := 0; r_idx := 0; r_key := 0; r_thr := thr; r_maxq := 0;
     r_burst := 0; r_dur := 0; r_cap := cap; r_spec := [] |}.

Definition arg1 (k : Z) : req := {| q_args := [Some k]; q_atts := []; q_batch := 1 |}.

(* capacity 1, threshold 1: a, b, a are all admitted (the second `a` although one `a` is in
   flight); after all three have exited the counter of `a` is -1, and two further entries for
   `a` are admitted together *)
Definition evict_witness : list op :=
  [Enter 0 (arg1 5); Enter 0 (arg1 6); Enter 0 (arg1 5); Exit 0; Exit 1; Exit 2;
   Enter 0 (arg1 5); Enter 0 (arg1 5)].

Lemma evict_witness_run :
  let rules := fun res : Z => if res =? 0 then [conc_rule 1 1] else [] in
  let '(s, o) := run rules true (init 0) evict_witness in
  o = [OPass []; OPass []; OPass []; ONone; ONone; ONone; OPass []; OPass []] /\
  length (s_live s) = 2%nat /\
  map m_conc (metrics_of rules s 0) = [[(5, 1)]].
Proof. vm_compute. repeat split; reflexivity. Qed.
