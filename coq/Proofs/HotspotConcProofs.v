(* Lemmas about the concurrency path of Model/Hotspot.v (conc_check, conc_bump, Entry/Exit
   histories over several resources and rules) for property C06:
   - in every reachable state of every history whose values fit the parameter capacity, the cell
     of value v under a concurrency rule holds exactly the number of live entries of the resource
     that were admitted with v under that rule (so it is 0 once they have all exited);
   - an Entry on a resource guarded by concurrency rules is admitted iff for every rule the live
     entries of its value are fewer than the value's threshold;
   - Exit gives back exactly the units of the exiting entry's own values;
   - the recorded finding's witness: beyond the capacity the cell of a value in flight is evicted. *)
From SG Require Import Base.Prelude Base.GoInt Model.LRU Model.Hotspot
  Proofs.LRUProofs Proofs.HotspotCtrlProofs Proofs.HotspotRunProofs.
#[local] Open Scope Z_scope.

(* ---- counters and the ledger of live entries ------------------------------------------------- *)

(* content of the cell of v (an absent cell counts as 0) *)
Definition cnt (l : lru Z) (v : Z) : Z := match alookup v l with Some x => x | None => 0 end.

(* 1 if the live entry e = (resource, input) occupies value v under rule r of resource res *)
Definition contrib (res : Z) (r : rule) (v : Z) (e : Z * req) : Z :=
  if (fst e =? res) && (match extract r (snd e) with Some k => k =? v | None => false end) then 1 else 0.

(* number of live entries of resource res admitted with value v under rule r *)
Fixpoint live_count (res : Z) (r : rule) (v : Z) (live : list (Z * (Z * req))) : Z :=
  match live with
  | [] => 0
  | (_, e) :: rest => contrib res r v e + live_count res r v rest
  end.

Lemma contrib_range res r v e : 0 <= contrib res r v e <= 1.
Proof. unfold contrib. destruct (_ && _); lia. Qed.

Lemma live_count_range res r v live : 0 <= live_count res r v live <= Z.of_nat (length live).
Proof.
  induction live as [|[k e] rest IH]; cbn [live_count length]; [lia|].
  pose proof (contrib_range res r v e). lia.
Qed.

Lemma live_count_del res r v k e : forall live, alookup k live = Some e ->
  live_count res r v live = contrib res r v e + live_count res r v (live_del k live).
Proof.
  induction live as [|[k' e'] rest IH]; cbn [alookup live_del live_count]; [discriminate|].
  destruct (k =? k') eqn:E.
  - intros [= ->]. reflexivity.
  - intros H. cbn [live_count]. rewrite (IH H). lia.
Qed.

Lemma live_del_length k : forall live, (length (live_del k live) <= length live)%nat.
Proof.
  induction live as [|[k' e'] rest IH]; cbn [live_del length]; [lia|].
  destruct (k =? k'); cbn [length]; lia.
Qed.

Lemma contrib_other_res res res' r v q : res' <> res -> contrib res' r v (res, q) = 0.
Proof. intros H. unfold contrib. cbn [fst]. destruct (res =? res') eqn:E; [lia|reflexivity]. Qed.

Lemma contrib_same res r v q :
  contrib res r v (res, q) = match extract r q with Some k => if k =? v then 1 else 0 | None => 0 end.
Proof. unfold contrib. cbn [fst snd]. rewrite Z.eqb_refl. cbn [andb]. destruct (extract r q); reflexivity. Qed.

(* ---- the cell cache while the values fit --------------------------------------------------------- *)

Definition is_conc (r : rule) : bool := r_metric r =? 0.

Lemma cnt_add_if_absent cap (K : list Z) k l :
  NoDup K -> Z.of_nat (length K) <= cap -> In k K -> real_key k ->
  NoDup (lru_keys l) -> incl (lru_keys l) K ->
  let l' := fst (lru_add_if_absent cap k 0 l) in
  NoDup (lru_keys l') /\ incl (lru_keys l') K /\ (forall v, cnt l' v = cnt l v) /\
  snd (lru_add_if_absent cap k 0 l) = alookup k l /\ alookup k l' <> None.
Proof.
  intros HK Hfit Hin Hr Hnd Hincl l'.
  pose proof (lru_step_no_evict cap K l (OpAddIfAbsent k 0) HK Hfit Hin Hr Hnd Hincl) as H.
  cbn [lru_step op_key] in H. cbn zeta in H. fold l' in H. destruct H as [H1 [H2 [H3 [H4 H5]]]].
  repeat split; auto.
  - intros v. unfold cnt. destruct (Z.eq_dec v k) as [->|Hne].
    + rewrite H4. destruct (alookup k l); reflexivity.
    + now rewrite (H3 v Hne).
  - rewrite H4. discriminate.
Qed.

Lemma cnt_bump (K : list Z) k c x l :
  In k K -> real_key k -> alookup k l = Some c -> NoDup (lru_keys l) -> incl (lru_keys l) K ->
  let l' := lru_set k x (fst (lru_get k l)) in
  NoDup (lru_keys l') /\ incl (lru_keys l') K /\ cnt l' k = x /\ (forall v, v <> k -> cnt l' v = cnt l v).
Proof.
  intros Hin Hr Hc Hnd Hincl l'. subst l'. rewrite (get_present k c l Hr Hc). cbn [fst].
  rewrite set_front. rewrite keys_front. repeat split.
  - now apply touch_nodup.
  - now apply touch_incl.
  - unfold cnt. now rewrite look_front.
  - intros v Hne. unfold cnt. now rewrite (look_front_other k v x l Hne).
Qed.

(* ---- per-rule invariant --------------------------------------------------------------------------- *)

Section Fits.
Variable K : list Z.
Hypothesis HK : NoDup K.

(* the cell cache of concurrency rule r of resource res agrees with the ledger of live entries *)
Definition CI (res : Z) (L : list (Z * (Z * req))) (r : rule) (m : metric) : Prop :=
  is_conc r = true ->
  NoDup (lru_keys (m_conc m)) /\ incl (lru_keys (m_conc m)) K /\
  forall v, cnt (m_conc m) v = live_count res r v L.

(* the cell of the value the request selects under r exists *)
Definition Pres (q : req) (r : rule) (m : metric) : Prop :=
  is_conc r = true -> forall k, extract r q = Some k -> alookup k (m_conc m) <> None.

Fixpoint all2 (P : rule -> metric -> Prop) (rules : list rule) (ms : list metric) : Prop :=
  match rules, ms with
  | r :: rs, m :: mr => P r m /\ all2 P rs mr
  | _, _ => True
  end.

Lemma all2_impl (P Q : rule -> metric -> Prop) rules : forall ms,
  (forall r m, In r rules -> P r m -> Q r m) -> all2 P rules ms -> all2 Q rules ms.
Proof.
  induction rules as [|r rs IH]; intros ms H Ha; [destruct ms; exact I|].
  destruct ms as [|m mr]; [exact I|]. cbn [all2] in *. destruct Ha as [H1 H2]. split.
  - apply H; [left; reflexivity|exact H1].
  - apply IH; [|exact H2]. intros r0 m0 Hin. apply H. right. exact Hin.
Qed.

Lemma all2_nth (P : rule -> metric -> Prop) rules : forall ms i r m,
  all2 P rules ms -> nth_error rules i = Some r -> nth_error ms i = Some m -> P r m.
Proof.
  induction rules as [|r0 rs IH]; intros ms i r m Ha Hr Hm; [destruct i; discriminate|].
  destruct ms as [|m0 mr]; [destruct i; discriminate|]. cbn [all2] in Ha. destruct Ha as [H1 H2].
  destruct i as [|i]; cbn in Hr, Hm; [inversion Hr; inversion Hm; subst; exact H1|eauto].
Qed.

Lemma all2_init (P : rule -> metric -> Prop) rules : (forall r, P r metric0) ->
  all2 P rules (map (fun _ => metric0) rules).
Proof. intros H. induction rules as [|r rs IH]; [exact I|]. cbn. split; [apply H|exact IH]. Qed.

(* the request's values lie in K and K fits every concurrency rule of the list *)
Definition req_in (rules : list rule) (q : req) : Prop :=
  forall r, In r rules -> is_conc r = true -> forall k, extract r q = Some k -> In k K /\ real_key k.
Definition caps_fit (rules : list rule) : Prop :=
  forall r, In r rules -> is_conc r = true -> Z.of_nat (length K) <= cache_size r.

Lemma perform_checking_conc r m now k b : is_conc r = true ->
  perform_checking r m now k b = conc_check r m k.
Proof. unfold is_conc, perform_checking. intros ->. reflexivity. Qed.

(* one concurrency check: the ledger relation is untouched, the cell of k exists afterwards, and
   the decision compares (live entries of k) + 1 with the threshold of k *)
Lemma conc_check_spec res L r m k :
  is_conc r = true -> Z.of_nat (length K) <= cache_size r -> In k K -> real_key k ->
  Z.of_nat (length L) < two62 -> CI res L r m ->
  let n := live_count res r k L in
  CI res L r (fst (conc_check r m k)) /\
  alookup k (m_conc (fst (conc_check r m k))) <> None /\
  snd (conc_check r m k) = if n <? tok_count r k then DPass else DBlock (Some (n + 1)).
Proof.
  intros Hc Hfit Hin Hr Hlen Hci n. destruct (Hci Hc) as [Hnd [Hincl Hcnt]].
  destruct (cnt_add_if_absent (cache_size r) K k (m_conc m) HK Hfit Hin Hr Hnd Hincl)
    as [H1 [H2 [H3 [H4 H5]]]].
  unfold conc_check.
  destruct (lru_add_if_absent (cache_size r) k 0 (m_conc m)) as [c1 prior]. cbn [fst snd] in *.
  assert (Hcur : match prior with Some x => x | None => 0 end = n).
  { subst prior. specialize (Hcnt k). unfold cnt in Hcnt. exact Hcnt. }
  rewrite Hcur. pose proof (live_count_range res r k L) as Hrng. fold n in Hrng.
  unfold two62 in Hlen. rewrite (i64_small (n + 1)) by lia.
  assert (Hci' : CI res L r {| m_time := m_time m; m_tok := m_tok m; m_conc := c1 |}).
  { intros _. cbn [m_conc]. repeat split; auto. intros v. rewrite H3. apply Hcnt. }
  destruct (n + 1 <=? tok_count r k) eqn:E1; destruct (n <? tok_count r k) eqn:E2; try lia;
    cbn [fst snd m_conc]; (split; [exact Hci'|]; split; [exact H5|reflexivity]).
Qed.

Lemma conc_check_threshold_zero res L r m k :
  is_conc r = true -> Z.of_nat (length K) <= cache_size r -> In k K -> real_key k ->
  Z.of_nat (length L) < two62 -> CI res L r m -> tok_count r k <= 0 ->
  snd (conc_check r m k) = DBlock (Some (live_count res r k L + 1)).
Proof.
  intros Hc Hfit Hin Hr Hlen Hci HT.
  destruct (conc_check_spec res L r m k Hc Hfit Hin Hr Hlen Hci) as [_ [_ H]]. rewrite H.
  pose proof (live_count_range res r k L). destruct (live_count res r k L <? tok_count r k) eqn:E; [lia|reflexivity].
Qed.

(* ---- Slot.Check over the rules of a resource ------------------------------------------------------ *)

Lemma slot_check_conc res L rules : forall ms i clk adv q,
  caps_fit rules -> req_in rules q -> Z.of_nat (length L) < two62 ->
  all2 (CI res L) rules ms ->
  let '(ms', _, _, v) := slot_check i rules ms clk adv q in
  all2 (CI res L) rules ms' /\ (v = VPass -> all2 (Pres q) rules ms').
Proof.
  induction rules as [|r rs IH]; intros ms i clk adv q Hcap Hreq Hlen Hall.
  - cbn. destruct ms; split; auto.
  - destruct ms as [|m mr]; [cbn; split; auto|].
    cbn [all2] in Hall. destruct Hall as [Hm Hmr].
    assert (Hcap' : caps_fit rs) by (intros r0 Hin; apply Hcap; right; exact Hin).
    assert (Hreq' : req_in rs q) by (intros r0 Hin; apply Hreq; right; exact Hin).
    cbn [slot_check]. destruct (extract r q) as [k|] eqn:Ex.
    + (* what one check does to this rule's statistics *)
      assert (Hstep : CI res L r (fst (perform_checking r m (ms_of_ns clk) k (q_batch q))) /\
                      Pres q r (fst (perform_checking r m (ms_of_ns clk) k (q_batch q)))).
      { destruct (is_conc r) eqn:Ec.
        - rewrite (perform_checking_conc r m _ k _ Ec).
          destruct (Hreq r ltac:(left; reflexivity) Ec k Ex) as [Hin Hr].
          destruct (conc_check_spec res L r m k Ec (Hcap r ltac:(left; reflexivity) Ec) Hin Hr Hlen Hm)
            as [H1 [H2 _]].
          split; [exact H1|]. intros _ k0 Hk0. rewrite Ex in Hk0. inversion Hk0; subst. exact H2.
        - split; intros H; unfold CI, Pres in *; congruence. }
      destruct Hstep as [Hci1 Hpres1].
      destruct (perform_checking r m (ms_of_ns clk) k (q_batch q)) as [m1 d]. cbn [fst] in *.
      destruct d as [|tv|ns|].
      * specialize (IH mr (i + 1) clk adv q Hcap' Hreq' Hlen Hmr).
        destruct (slot_check (i + 1) rs mr clk adv q) as [[[mr1 clk1] sl] v].
        destruct IH as [IH1 IH2]. split; [cbn; auto|]. intros Hv. cbn. auto.
      * split; [cbn; auto|discriminate].
      * destruct (0 <? ns).
        -- specialize (IH mr (i + 1) (if adv then u64 (clk + ns) else clk) adv q Hcap' Hreq' Hlen Hmr).
           destruct (slot_check (i + 1) rs mr _ adv q) as [[[mr1 clk1] sl] v].
           destruct IH as [IH1 IH2]. split; [cbn; auto|]. intros Hv. cbn. auto.
        -- specialize (IH mr (i + 1) clk adv q Hcap' Hreq' Hlen Hmr).
           destruct (slot_check (i + 1) rs mr clk adv q) as [[[mr1 clk1] sl] v].
           destruct IH as [IH1 IH2]. split; [cbn; auto|]. intros Hv. cbn. auto.
      * split; [cbn; auto|discriminate].
    + specialize (IH mr (i + 1) clk adv q Hcap' Hreq' Hlen Hmr).
      destruct (slot_check (i + 1) rs mr clk adv q) as [[[mr1 clk1] sl] v].
      destruct IH as [IH1 IH2]. split; [cbn; auto|]. intros Hv. cbn. split; [|auto].
      intros _ k0 Hk0. congruence.
Qed.

(* ---- ConcurrencyStatSlot: +1 on pass, -1 on completion -------------------------------------------- *)

Lemma conc_bump_spec delta res L L' r m q :
  is_conc r = true -> (forall k, extract r q = Some k -> In k K /\ real_key k) ->
  CI res L r m -> Pres q r m ->
  (forall v, live_count res r v L' =
             live_count res r v L + match extract r q with Some k => if k =? v then delta else 0 | None => 0 end) ->
  (forall v, - two62 < live_count res r v L + delta < two62) ->
  CI res L' r (conc_bump delta r m q).
Proof.
  intros Hc Hreq Hci Hpres HL Hrng _. destruct (Hci Hc) as [Hnd [Hincl Hcnt]].
  unfold conc_bump. unfold is_conc in Hc. rewrite Hc.
  destruct (extract r q) as [k|] eqn:Ex.
  - destruct (Hreq k eq_refl) as [Hin Hr].
    destruct (alookup k (m_conc m)) as [c|] eqn:Ec; [|exfalso; exact (Hpres Hc k Ex Ec)].
    destruct (cnt_bump K k c (i64 (c + delta)) (m_conc m) Hin Hr Ec Hnd Hincl) as [H1 [H2 [H3 H4]]].
    rewrite (get_present k c _ Hr Ec) in *. cbn [fst] in *. cbn [m_conc].
    repeat split; auto. intros v. rewrite HL.
    assert (Hck : c = live_count res r k L) by (rewrite <- Hcnt; unfold cnt; now rewrite Ec).
    destruct (k =? v) eqn:E.
    + assert (k = v) by lia. subst v. rewrite H3. specialize (Hrng k). unfold two62 in Hrng.
      rewrite i64_small by lia. lia.
    + rewrite (H4 v ltac:(lia)). rewrite Hcnt. lia.
  - repeat split; auto. intros v. rewrite HL, Hcnt. lia.
Qed.

Lemma conc_bump_nonconc delta r m q : is_conc r = false -> conc_bump delta r m q = m.
Proof. unfold is_conc, conc_bump. intros ->. reflexivity. Qed.

Lemma conc_bump_all_spec delta res L L' rules : forall ms q,
  req_in rules q -> all2 (CI res L) rules ms -> all2 (Pres q) rules ms ->
  (forall r v, live_count res r v L' =
               live_count res r v L + match extract r q with Some k => if k =? v then delta else 0 | None => 0 end) ->
  (forall r v, - two62 < live_count res r v L + delta < two62) ->
  all2 (CI res L') rules (conc_bump_all delta rules ms q).
Proof.
  induction rules as [|r rs IH]; intros ms q Hreq Hci Hpres HL Hrng; [destruct ms; exact I|].
  destruct ms as [|m mr]; [exact I|]. cbn [all2 conc_bump_all] in *.
  destruct Hci as [Hc1 Hc2]. destruct Hpres as [Hp1 Hp2]. split.
  - destruct (is_conc r) eqn:Ec.
    + apply (conc_bump_spec delta res L L' r m q Ec); auto.
      intros k Hk. exact (Hreq r ltac:(left; reflexivity) Ec k Hk).
    + intros H. congruence.
  - apply IH; auto. intros r0 Hin. apply Hreq. right. exact Hin.
Qed.

Lemma all2_CI_ext res L L' rules ms :
  (forall r v, live_count res r v L' = live_count res r v L) ->
  all2 (CI res L) rules ms -> all2 (CI res L') rules ms.
Proof.
  intros H. apply all2_impl. intros r m _ Hci Hc. destruct (Hci Hc) as [H1 [H2 H3]].
  repeat split; auto. intros v. now rewrite H.
Qed.

Lemma pres_of_count res L q rs : forall ms,
  all2 (CI res L) rs ms -> (forall r k, extract r q = Some k -> 1 <= live_count res r k L) ->
  all2 (Pres q) rs ms.
Proof.
  induction rs as [|r rs IH]; intros ms Hall H; [destruct ms; exact I|].
  destruct ms as [|m mr]; [exact I|]. cbn [all2] in *. destruct Hall as [Ha Hb]. split; [|auto].
  intros Hc k0 Hk0 Hnone. destruct (Ha Hc) as [_ [_ Hcnt]]. specialize (Hcnt k0).
  unfold cnt in Hcnt. rewrite Hnone in Hcnt. specialize (H r k0 Hk0). lia.
Qed.

(* ---- histories ------------------------------------------------------------------------------------ *)

Variable rules : Z -> list rule.
Hypothesis Hcaps : forall res, caps_fit (rules res).

Definition op_in (o : op) : Prop :=
  match o with Enter res q => req_in (rules res) q | _ => True end.

(* every live entry's own values lie in K (needed when it exits) *)
Definition live_in (L : list (Z * (Z * req))) : Prop :=
  Forall (fun e => req_in (rules (fst (snd e))) (snd (snd e))) L.

Definition SI (s : state) : Prop :=
  live_in (s_live s) /\ forall res, all2 (CI res (s_live s)) (rules res) (metrics_of rules s res).

Lemma SI_init clk0 : SI (init clk0).
Proof.
  split; [constructor|]. intros res. unfold metrics_of. cbn. apply all2_init.
  intros r _. cbn [m_conc metric0 lru_keys map]. split; [apply NoDup_nil|]. split; [intros x []|]. intros v. reflexivity.
Qed.

Lemma live_in_del k L : live_in L -> live_in (live_del k L).
Proof.
  unfold live_in. induction 1 as [|[k' e'] rest Hx Hr IH]; cbn [live_del]; [constructor|].
  destruct (k =? k'); [exact Hr|constructor; assumption].
Qed.

Lemma live_in_lookup k L e : live_in L -> alookup k L = Some e -> req_in (rules (fst e)) (snd e).
Proof.
  unfold live_in. induction 1 as [|[k' e'] rest Hx Hr IH]; cbn [alookup]; [discriminate|].
  destruct (k =? k'); [intros [= <-]; exact Hx|exact IH].
Qed.

Lemma step_SI adv s o n : op_in o -> SI s -> Z.of_nat (length (s_live s)) <= n -> n + 1 < two62 ->
  SI (fst (step rules adv s o)) /\ Z.of_nat (length (s_live (fst (step rules adv s o)))) <= n + 1.
Proof.
  intros Ho [Hlive Hs] Hn Hbound. unfold two62 in *. unfold SI. destruct o as [ms|res q|k]; cbn [step].
  - cbn [fst s_live]. split; [split; [exact Hlive|]|lia]. intros res. exact (Hs res).
  - cbn [op_in] in Ho.
    pose proof (slot_check_conc res (s_live s) (rules res) (metrics_of rules s res) 0 (s_clk s) adv q
                  (Hcaps res) Ho ltac:(unfold two62; lia) (Hs res)) as H.
    destruct (slot_check 0 (rules res) (metrics_of rules s res) (s_clk s) adv q) as [[[ms1 clk1] sl] v].
    destruct H as [H1 H2]. destruct v as [|i tv|i]; cbn [fst snd s_live].
    + split; [split|cbn [length]; lia].
      * constructor; [cbn [fst snd]; exact Ho|exact Hlive].
      * intros res'. rewrite metrics_of_aset. destruct (res' =? res) eqn:E.
        -- assert (res' = res) by lia. subst res'.
           apply (conc_bump_all_spec 1 res (s_live s)); auto.
           ++ intros r v. cbn [live_count]. rewrite contrib_same. destruct (extract r q) as [k|]; [|lia].
              destruct (k =? v); lia.
           ++ intros r v. pose proof (live_count_range res r v (s_live s)). unfold two62. lia.
        -- apply (all2_CI_ext res' (s_live s)); [|exact (Hs res')].
           intros r v. cbn [live_count]. rewrite contrib_other_res by lia. lia.
    + split; [split; [exact Hlive|]|lia]. intros res'. rewrite metrics_of_aset.
      destruct (res' =? res) eqn:E; [|exact (Hs res')]. assert (res' = res) by lia. now subst.
    + split; [split; [exact Hlive|]|lia]. intros res'. rewrite metrics_of_aset.
      destruct (res' =? res) eqn:E; [|exact (Hs res')]. assert (res' = res) by lia. now subst.
  - destruct (alookup k (s_live s)) as [[res q]|] eqn:El; cbn [fst snd s_live].
    + pose proof (live_in_lookup k _ _ Hlive El) as Hreq. cbn [fst snd] in Hreq.
      pose proof (live_del_length k (s_live s)) as Hdl.
      split; [split; [now apply live_in_del|]|lia].
      intros res'. rewrite metrics_of_aset. destruct (res' =? res) eqn:E.
      * assert (res' = res) by lia. subst res'.
        assert (HL : forall r v, live_count res r v (s_live s) =
                     live_count res r v (live_del k (s_live s)) +
                     match extract r q with Some k0 => if k0 =? v then 1 else 0 | None => 0 end).
        { intros r v. rewrite (live_count_del res r v k (res, q) _ El), contrib_same. lia. }
        apply (conc_bump_all_spec (-1) res (s_live s)); auto.
        -- (* the cell of each value the entry occupies exists: its count is at least 1 *)
           apply (pres_of_count res (s_live s) q); [exact (Hs res)|].
           intros r k0 Hk0. specialize (HL r k0). rewrite Hk0, Z.eqb_refl in HL.
           pose proof (live_count_range res r k0 (live_del k (s_live s))). lia.
        -- intros r v. specialize (HL r v). destruct (extract r q) as [k0|]; [|lia]. destruct (k0 =? v); lia.
        -- intros r v. pose proof (live_count_range res r v (s_live s)). unfold two62. lia.
      * apply (all2_CI_ext res' (s_live s)); [|exact (Hs res')].
        intros r v. rewrite (live_count_del res' r v k (res, q) _ El), contrib_other_res by lia. lia.
    + split; [split; [exact Hlive|]|lia]. intros res. exact (Hs res).
Qed.

Lemma run_SI adv ops : forall s n, Forall op_in ops -> SI s ->
  Z.of_nat (length (s_live s)) <= n -> n + Z.of_nat (length ops) < two62 ->
  SI (fst (run rules adv s ops)).
Proof.
  induction ops as [|o rest IH]; intros s n Hops Hs Hn Hb; [exact Hs|].
  inversion Hops as [|? ? Ho Hrest]; subst. cbn [length] in Hb.
  destruct (step_SI adv s o n Ho Hs Hn ltac:(lia)) as [H1 H2]. cbn [run].
  destruct (step rules adv s o) as [s1 ob]. cbn [fst] in *.
  specialize (IH s1 (n + 1) Hrest H1 H2 ltac:(lia)). destruct (run rules adv s1 rest) as [s2 obs]. exact IH.
Qed.

(* counter(v) = number of live entries admitted with v, in every reachable state *)
Theorem run_counter_exact adv clk0 ops :
  Forall op_in ops -> Z.of_nat (length ops) < two62 ->
  let s := fst (run rules adv (init clk0) ops) in
  forall res i r m, nth_error (rules res) i = Some r -> nth_error (metrics_of rules s res) i = Some m ->
  is_conc r = true -> forall v, cnt (m_conc m) v = live_count res r v (s_live s).
Proof.
  intros Hops Hb s res i r m Hr Hm Hc v.
  pose proof (run_SI adv ops (init clk0) 0 Hops (SI_init clk0) ltac:(cbn; lia) ltac:(lia)) as [_ Hs].
  fold s in Hs. destruct (all2_nth _ _ _ _ _ _ (Hs res) Hr Hm Hc) as [_ [_ H]]. apply H.
Qed.

(* ---- the decision on a resource guarded by concurrency rules only ---------------------------------- *)

Definition admits (res : Z) (L : list (Z * (Z * req))) (q : req) (r : rule) : Prop :=
  forall k, extract r q = Some k -> live_count res r k L < tok_count r k.

Lemma slot_check_conc_decision res L rs : forall ms i clk adv q,
  Forall (fun r => is_conc r = true) rs -> length ms = length rs ->
  caps_fit rs -> req_in rs q -> Z.of_nat (length L) < two62 -> all2 (CI res L) rs ms ->
  let '(_, _, sl, v) := slot_check i rs ms clk adv q in
  sl = [] /\ (v = VPass <-> Forall (admits res L q) rs) /\ (forall j, v <> VSpin j).
Proof.
  induction rs as [|r rs IH]; intros ms i clk adv q Hconc Hlen Hcap Hreq HL Hall.
  - cbn. destruct ms; repeat split; auto; try discriminate; constructor.
  - destruct ms as [|m mr]; [discriminate|]. inversion Hconc as [|? ? Hc Hcr]; subst.
    cbn [all2] in Hall. destruct Hall as [Hm Hmr].
    assert (Hcap' : caps_fit rs) by (intros r0 Hin; apply Hcap; right; exact Hin).
    assert (Hreq' : req_in rs q) by (intros r0 Hin; apply Hreq; right; exact Hin).
    assert (Hlen' : length mr = length rs) by (cbn in Hlen; lia).
    cbn [slot_check]. destruct (extract r q) as [k|] eqn:Ex.
    + rewrite (perform_checking_conc r m _ k _ Hc).
      destruct (Hreq r ltac:(left; reflexivity) Hc k Ex) as [Hin Hr].
      destruct (conc_check_spec res L r m k Hc (Hcap r ltac:(left; reflexivity) Hc) Hin Hr HL Hm)
        as [_ [_ Hd]].
      destruct (conc_check r m k) as [m1 d]. cbn [snd] in Hd. subst d.
      destruct (live_count res r k L <? tok_count r k) eqn:E.
      * specialize (IH mr (i + 1) clk adv q Hcr Hlen' Hcap' Hreq' HL Hmr).
        destruct (slot_check (i + 1) rs mr clk adv q) as [[[mr1 clk1] sl] v].
        destruct IH as [IH1 [IH2 IH3]]. split; [exact IH1|]. split; [|exact IH3]. rewrite IH2. split.
        -- intros H. constructor; [|exact H]. intros k0 Hk0. rewrite Ex in Hk0. inversion Hk0; subst. lia.
        -- intros H. now inversion H.
      * split; [reflexivity|]. split; [|discriminate]. split; [discriminate|].
        intros H. inversion H as [|? ? Ha _]; subst. specialize (Ha k Ex). lia.
    + specialize (IH mr (i + 1) clk adv q Hcr Hlen' Hcap' Hreq' HL Hmr).
      destruct (slot_check (i + 1) rs mr clk adv q) as [[[mr1 clk1] sl] v].
      destruct IH as [IH1 [IH2 IH3]]. split; [exact IH1|]. split; [|exact IH3]. rewrite IH2. split.
      * intros H. constructor; [|exact H]. intros k0 Hk0. congruence.
      * intros H. now inversion H.
Qed.

(* the statistics list of a resource always has one entry per rule *)
Lemma slot_check_length rs : forall ms i clk adv q,
  let '(ms', _, _, _) := slot_check i rs ms clk adv q in length ms' = length ms.
Proof.
  induction rs as [|r rs IH]; intros ms i clk adv q; [destruct ms; reflexivity|].
  destruct ms as [|m mr]; [reflexivity|]. cbn [slot_check].
  destruct (extract r q) as [k|].
  - destruct (perform_checking r m (ms_of_ns clk) k (q_batch q)) as [m1 d]. destruct d as [|tv|ns|].
    + specialize (IH mr (i + 1) clk adv q). destruct (slot_check (i + 1) rs mr clk adv q) as [[[mr1 c1] sl] v].
      cbn [length]. now rewrite IH.
    + reflexivity.
    + destruct (0 <? ns).
      * specialize (IH mr (i + 1) (if adv then u64 (clk + ns) else clk) adv q).
        destruct (slot_check (i + 1) rs mr _ adv q) as [[[mr1 c1] sl] v]. cbn [length]. now rewrite IH.
      * specialize (IH mr (i + 1) clk adv q). destruct (slot_check (i + 1) rs mr clk adv q) as [[[mr1 c1] sl] v].
        cbn [length]. now rewrite IH.
    + reflexivity.
  - specialize (IH mr (i + 1) clk adv q). destruct (slot_check (i + 1) rs mr clk adv q) as [[[mr1 c1] sl] v].
    cbn [length]. now rewrite IH.
Qed.

Lemma conc_bump_all_length delta rs : forall ms q, length (conc_bump_all delta rs ms q) = length ms.
Proof.
  induction rs as [|r rs IH]; intros ms q; [destruct ms; reflexivity|].
  destruct ms as [|m mr]; [reflexivity|]. cbn [conc_bump_all length]. now rewrite IH.
Qed.

Definition LI (s : state) : Prop := forall res, length (metrics_of rules s res) = length (rules res).

Lemma LI_init clk0 : LI (init clk0).
Proof. intros res. unfold metrics_of. cbn. apply map_length. Qed.

Lemma step_LI adv s o : LI s -> LI (fst (step rules adv s o)).
Proof.
  intros Hs. destruct o as [ms|res q|k]; cbn [step].
  - exact Hs.
  - pose proof (slot_check_length (rules res) (metrics_of rules s res) 0 (s_clk s) adv q) as H.
    destruct (slot_check 0 (rules res) (metrics_of rules s res) (s_clk s) adv q) as [[[ms1 clk1] sl] v].
    destruct v as [|i tv|i]; cbn [fst]; intros res'; rewrite metrics_of_aset;
      (destruct (res' =? res) eqn:E; [|exact (Hs res')]); assert (res' = res) by lia; subst res';
      rewrite ?conc_bump_all_length, H; exact (Hs res).
  - destruct (alookup k (s_live s)) as [[res q]|]; cbn [fst]; [|exact Hs].
    intros res'. rewrite metrics_of_aset. destruct (res' =? res) eqn:E; [|exact (Hs res')].
    assert (res' = res) by lia. subst res'. rewrite conc_bump_all_length. exact (Hs res).
Qed.

Lemma run_LI adv ops : forall s, LI s -> LI (fst (run rules adv s ops)).
Proof.
  induction ops as [|o rest IH]; intros s Hs; [exact Hs|]. cbn [run].
  pose proof (step_LI adv s o Hs) as H1. destruct (step rules adv s o) as [s1 ob]. cbn [fst] in H1.
  specialize (IH s1 H1). destruct (run rules adv s1 rest) as [s2 obs]. exact IH.
Qed.

(* the reachable states *)
Definition reach (adv : bool) (clk0 : Z) (ops : list op) : state := fst (run rules adv (init clk0) ops).

Lemma reach_SI adv clk0 ops : Forall op_in ops -> Z.of_nat (length ops) < two62 ->
  SI (reach adv clk0 ops) /\ LI (reach adv clk0 ops) /\
  Z.of_nat (length (s_live (reach adv clk0 ops))) <= Z.of_nat (length ops).
Proof.
  intros Hops Hb. split; [|split].
  - apply (run_SI adv ops (init clk0) 0 Hops (SI_init clk0)); cbn; lia.
  - apply run_LI. apply LI_init.
  - unfold reach.
    assert (G : forall ops0 s, Z.of_nat (length (s_live (fst (run rules adv s ops0)))) <=
                              Z.of_nat (length (s_live s)) + Z.of_nat (length ops0)).
    { induction ops0 as [|o rest IH]; intros s; [cbn; lia|]. cbn [run].
      assert (H1 : Z.of_nat (length (s_live (fst (step rules adv s o)))) <= Z.of_nat (length (s_live s)) + 1).
      { destruct o as [ms|res q|k]; cbn [step]; [cbn; lia| |].
        - destruct (slot_check 0 (rules res) (metrics_of rules s res) (s_clk s) adv q) as [[[ms1 clk1] sl] v].
          destruct v; cbn [fst s_live length]; lia.
        - destruct (alookup k (s_live s)) as [[res q]|]; cbn [fst s_live]; [|lia].
          pose proof (live_del_length k (s_live s)). lia. }
      destruct (step rules adv s o) as [s1 ob]. cbn [fst] in H1. specialize (IH s1).
      destruct (run rules adv s1 rest) as [s2 obs]. cbn [fst length] in *. lia. }
    specialize (G ops (init clk0)). cbn [init s_live length] in G. lia.
Qed.

(* the decision: on a resource guarded by concurrency rules only, an Entry is admitted iff for
   every rule the live entries of the value it selects are fewer than that value's threshold *)
Theorem run_decision adv clk0 ops res q :
  Forall op_in ops -> Z.of_nat (length ops) < two62 -> req_in (rules res) q ->
  Forall (fun r => is_conc r = true) (rules res) ->
  let s := reach adv clk0 ops in
  snd (step rules adv s (Enter res q)) = OPass [] <-> Forall (admits res (s_live s) q) (rules res).
Proof.
  intros Hops Hb Hq Hconc s. destruct (reach_SI adv clk0 ops Hops Hb) as [[_ Hs] [Hl Hlen]]. fold s in Hs, Hl, Hlen.
  pose proof (slot_check_conc_decision res (s_live s) (rules res) (metrics_of rules s res) 0 (s_clk s) adv q
                Hconc (Hl res) (Hcaps res) Hq ltac:(lia) (Hs res)) as H.
  cbn [step]. destruct (slot_check 0 (rules res) (metrics_of rules s res) (s_clk s) adv q) as [[[ms1 clk1] sl] v].
  destruct H as [-> [H2 H3]]. rewrite <- H2. destruct v as [|i tv|i]; cbn [snd]; split; intros H; try discriminate; auto.
Qed.

(* Exit gives back exactly the units of the exiting entry's own values: every cell of every
   concurrency rule changes by minus the entry's contribution, nothing else changes *)
Theorem run_release_own_unit adv clk0 ops k res q :
  Forall op_in ops -> Z.of_nat (length ops) + 1 < two62 ->
  let s := reach adv clk0 ops in
  alookup k (s_live s) = Some (res, q) ->
  let s' := fst (step rules adv s (Exit k)) in
  forall res' i r m m', nth_error (rules res') i = Some r ->
  nth_error (metrics_of rules s res') i = Some m -> nth_error (metrics_of rules s' res') i = Some m' ->
  is_conc r = true -> forall v, cnt (m_conc m') v = cnt (m_conc m) v - contrib res' r v (res, q).
Proof.
  intros Hops Hb s El s' res' i r m m' Hr Hm Hm' Hc v.
  destruct (reach_SI adv clk0 ops Hops ltac:(lia)) as [Hsi [_ Hlen]]. fold s in Hsi, Hlen.
  destruct (step_SI adv s (Exit k) (Z.of_nat (length ops)) I Hsi Hlen Hb) as [[_ Hs'] _]. fold s' in Hs'.
  destruct Hsi as [_ Hs].
  destruct (all2_nth _ _ _ _ _ _ (Hs res') Hr Hm Hc) as [_ [_ H1]].
  destruct (all2_nth _ _ _ _ _ _ (Hs' res') Hr Hm' Hc) as [_ [_ H2]].
  rewrite H1, H2. assert (Hl : s_live s' = live_del k (s_live s)).
  { subst s'. cbn [step]. rewrite El. reflexivity. }
  rewrite Hl. rewrite (live_count_del res' r v k (res, q) _ El). lia.
Qed.

Theorem run_counter_zero adv clk0 ops :
  Forall op_in ops -> Z.of_nat (length ops) < two62 ->
  let s := fst (run rules adv (init clk0) ops) in
  s_live s = [] ->
  forall res i r m, nth_error (rules res) i = Some r -> nth_error (metrics_of rules s res) i = Some m ->
  is_conc r = true -> forall v, cnt (m_conc m) v = 0.
Proof.
  intros Hops Hb s Hl res i r m Hr Hm Hc v.
  rewrite (run_counter_exact adv clk0 ops Hops Hb res i r m Hr Hm Hc v). fold s. rewrite Hl. reflexivity.
Qed.


End Fits.


(* ---- the recorded finding: the cell of a value in flight is evicted ------------------- *)

Definition conc_rule (thr cap : Z) : rule :=
  {| r_metric := 0; r_behavior := 0; r_idx := 0; r_key := 0; r_thr := thr; r_maxq := 0;
     r_burst := 0; r_dur := 0; r_cap := cap; r_spec := [] |}.

Definition arg1 (k : Z) : req := {| q_args := [Some k]; q_atts := []; q_batch := 1 |}.

(* capacity 1, threshold 1: a, b, a are all admitted (the second `a` although one `a` is in
   flight); after all three have exited the counter of `a` is -1, and two further entries for
   `a` are admitted together *)
Definition evict_witness : list op :=
  [Enter 0 (arg1 5); Enter 0 (arg1 6); Enter 0 (arg1 5); Exit 0; Exit 1; Exit 2;
   Enter 0 (arg1 5); Enter 0 (arg1 5)].

Lemma evict_witness_run :
  let rules := fun res : Z => if res =? 0 then [conc_rule 1 1] else [] in
  let '(s, o) := run rules true (init 0) evict_witness in
  o = [OPass []; OPass []; OPass []; ONone; ONone; ONone; OPass []; OPass []] /\
  length (s_live s) = 2%nat /\
  map m_conc (metrics_of rules s 0) = [[(5, 1)]].
Proof. vm_compute. repeat split; reflexivity. Qed.
