(* Resource-level lemmas for C03: every history of Entry / Exit operations keeps the
   per-breaker invariants, and the listener log is a legal path per breaker. *)
From Coq Require Import Floats.
From SG Require Import Base.Prelude Base.GoInt Base.GoFloat Model.Breaker
  Proofs.BreakerLAProofs Proofs.BreakerProofs.
#[local] Open Scope Z_scope.

(* ---------- listener logs ---------- *)

Lemma log_of_app i a b : log_of i (a ++ b) = log_of i a ++ log_of i b.
Proof. unfold log_of. apply flat_map_app. Qed.

Lemma log_of_tag_same i es : log_of i (tag i es) = es.
Proof. unfold log_of, tag. induction es as [|e es IH]; cbn; [reflexivity|]. rewrite Z.eqb_refl. cbn. f_equal. exact IH. Qed.

Lemma log_of_tag_other k i es : k <> i -> log_of k (tag i es) = [].
Proof.
  intros Hne. unfold log_of, tag. induction es as [|e es IH]; cbn; [reflexivity|].
  destruct (Z.eqb_spec i k); [lia|]. exact IH.
Qed.

Lemma path_app s a b : path s (a ++ b) = match path s a with Some s' => path s' b | None => None end.
Proof.
  revert s; induction a as [|[f t sn] a IH]; intros s; cbn [path app]; [reflexivity|].
  destruct (bst_eqb f s && edge_ok f t); [apply IH|reflexivity].
Qed.

Lemma try_pass_path c b t :
  let '(b1, _, es, _) := try_pass c b t in path (state b) es = Some (state b1).
Proof. rewrite try_pass_spec. destruct (state b) eqn:E; cbn; rewrite ?E; try reflexivity. destruct (next_retry b <=? t); cbn; rewrite ?E; reflexivity. Qed.

Lemma rollback_path b : let '(b1, es) := rollback b in path (state b) es = Some (state b1).
Proof. unfold rollback. destruct (state b) eqn:E; cbn; rewrite ?E; reflexivity. Qed.

Lemma decide_path c b t bad sl2 h2 B T :
  let '(b1, es) := decide c b t bad sl2 h2 B T in path (state b) es = Some (state b1).
Proof.
  unfold decide. destruct (state b) eqn:E.
  - destruct (T <? min_amt c); [|destruct (reached c B T)]; cbn; rewrite ?E; reflexivity.
  - destruct bad; [|destruct ((probe_num c =? 0) || (probe_num c <=? cur_probe b + 1))]; cbn; rewrite ?E; reflexivity.
  - cbn. rewrite E. reflexivity.
Qed.

Lemma on_complete_path c b t rt err :
  let '(b1, es) := on_complete c b t rt err in path (state b) es = Some (state b1).
Proof.
  unfold on_complete. destruct (t <=? 0); [reflexivity|].
  destruct (la_current (gn c) (gbl c) t (slots b)); [|reflexivity]. apply decide_path.
Qed.

Lemma enter_all_path cs : forall i t lb bs, length cs = length bs ->
  let '(bs1, r, es, hs) := enter_all i t lb cs bs in
  (forall k, k < i -> log_of k es = [] /\ log_of k hs = []) /\
  (forall j b, nth_error bs j = Some b ->
     exists b1, nth_error bs1 j = Some b1 /\
       path (state b) (log_of (i + Z.of_nat j) (es ++ hs)) = Some (state b1)).
Proof.
  induction cs as [|c cs IH]; intros i t lb [|b bs] Hl; cbn in Hl; try discriminate; cbn [enter_all].
  - split; [intros; split; reflexivity|]. intros [|j] b0 Hj; discriminate.
  - pose proof (try_pass_path c b t) as Hp.
    destruct (try_pass c b t) as [[[b1 ok] es] hooked] eqn:Etp.
    destruct ok.
    + specialize (IH (i + 1) t lb bs ltac:(lia)).
      destruct (enter_all (i + 1) t lb cs bs) as [[[bs1 r] es'] hs'].
      destruct IH as [IHlt IHnth].
      set (blocked := match r with Some _ => true | None => lb end).
      pose proof (rollback_path b1) as Hrp.
      destruct (hooked && blocked); [destruct (rollback b1) as [b2 es2]|].
      * split.
        { intros k Hk. rewrite !log_of_app, !log_of_tag_other by lia.
          destruct (IHlt k ltac:(lia)) as [-> ->]. split; reflexivity. }
        intros [|j] b0 Hj; cbn in Hj.
        { inversion Hj; subst b0. exists b2. split; [reflexivity|].
          rewrite Z.add_0_r. rewrite !log_of_app, !log_of_tag_same.
          destruct (IHlt i ltac:(lia)) as [-> ->]. rewrite !app_nil_r.
          rewrite path_app, Hp. exact Hrp. }
        { destruct (IHnth j b0 Hj) as (b3 & Hn3 & Hp3). exists b3. split; [exact Hn3|].
          replace (i + Z.of_nat (S j)) with (i + 1 + Z.of_nat j) by lia.
          rewrite !log_of_app, !log_of_tag_other by lia. cbn [app].
          rewrite <- log_of_app. exact Hp3. }
      * split.
        { intros k Hk. rewrite !log_of_app, !log_of_tag_other by lia.
          destruct (IHlt k ltac:(lia)) as [-> ->]. split; reflexivity. }
        intros [|j] b0 Hj; cbn in Hj.
        { inversion Hj; subst b0. exists b1. split; [reflexivity|].
          rewrite Z.add_0_r. rewrite !log_of_app, !log_of_tag_same.
          destruct (IHlt i ltac:(lia)) as [-> ->]. rewrite !app_nil_r. exact Hp. }
        { destruct (IHnth j b0 Hj) as (b3 & Hn3 & Hp3). exists b3. split; [exact Hn3|].
          replace (i + Z.of_nat (S j)) with (i + 1 + Z.of_nat j) by lia.
          rewrite !log_of_app, !log_of_tag_other by lia. cbn [app].
          rewrite <- log_of_app. exact Hp3. }
    + split.
      { intros k Hk. rewrite log_of_tag_other by lia. split; reflexivity. }
      intros [|j] b0 Hj; cbn in Hj.
      { inversion Hj; subst b0. exists b1. split; [reflexivity|].
        rewrite Z.add_0_r, app_nil_r, log_of_tag_same. exact Hp. }
      { exists b0. split; [exact Hj|]. rewrite app_nil_r, log_of_tag_other by lia. reflexivity. }
Qed.

Lemma complete_all_path cs : forall i t rt err bs, length cs = length bs ->
  let '(bs1, es) := complete_all i t rt err cs bs in
  (forall k, k < i -> log_of k es = []) /\
  (forall j b, nth_error bs j = Some b ->
     exists b1, nth_error bs1 j = Some b1 /\ path (state b) (log_of (i + Z.of_nat j) es) = Some (state b1)).
Proof.
  induction cs as [|c cs IH]; intros i t rt err [|b bs] Hl; cbn in Hl; try discriminate; cbn [complete_all].
  - split; [intros; reflexivity|]. intros [|j] b0 Hj; discriminate.
  - pose proof (on_complete_path c b t rt err) as Hp.
    destruct (on_complete c b t rt err) as [b1 es].
    specialize (IH (i + 1) t rt err bs ltac:(lia)).
    destruct (complete_all (i + 1) t rt err cs bs) as [bs1 es']. destruct IH as [IHlt IHnth].
    split.
    { intros k Hk. rewrite log_of_app, log_of_tag_other by lia. rewrite (IHlt k) by lia. reflexivity. }
    intros [|j] b0 Hj; cbn in Hj.
    { inversion Hj; subst b0. exists b1. split; [reflexivity|].
      rewrite Z.add_0_r, log_of_app, log_of_tag_same, (IHlt i) by lia. rewrite app_nil_r. exact Hp. }
    { destruct (IHnth j b0 Hj) as (b3 & Hn3 & Hp3). exists b3. split; [exact Hn3|].
      replace (i + Z.of_nat (S j)) with (i + 1 + Z.of_nat j) by lia.
      rewrite log_of_app, log_of_tag_other by lia. exact Hp3. }
Qed.

(* ---------- reachable resource states ---------- *)

Definition op_dt (o : op) : Z := match o with Enter dt _ => dt | Complete dt _ _ => dt end.

(* a history: creation at a positive time, non-negative time steps, clock below tmax *)
Definition hist_ok (t0 : Z) (ops : list op) : Prop :=
  0 < t0 /\ Forall (fun o => 0 <= op_dt o) ops /\ t0 + sumZ (map op_dt ops) < tmax.

Record RInv (cs : list cfg) (t0 : Z) (s : rstate) : Prop := {
  ri_t0   : 0 < t0 <= now s;
  ri_tmax : now s < tmax;
  ri_brs  : RBInv cs t0 (brs s) (now s);
  ri_path : forall j b, nth_error (brs s) j = Some b ->
              path Closed (log_of (Z.of_nat j) (log s)) = Some (state b)
}.

Lemma RBInv_length cs t0 bs tl : RBInv cs t0 bs tl -> length cs = length bs.
Proof. induction 1; cbn; auto. Qed.

Lemma RInv_init cs t0 : Forall cfg_ok cs -> 0 < t0 < tmax -> RInv cs t0 (rinit cs t0).
Proof.
  intros Hc Ht. constructor; cbn; try lia.
  - induction Hc as [|c cs Hc1 _ IH]; cbn; constructor; [apply BInv_new; [assumption|lia]|exact IH].
  - intros j b Hj. apply nth_error_In in Hj. apply in_map_iff in Hj. destruct Hj as (c & <- & _). reflexivity.
Qed.

Lemma step_inv cs t0 s o : Forall cfg_ok cs -> RInv cs t0 s -> 0 <= op_dt o -> now s + op_dt o < tmax ->
  RInv cs t0 (fst (step cs s o)).
Proof.
  intros Hc [H0 Hm Hb Hp] Hdt Hlt. pose proof (RBInv_length _ _ _ _ Hb) as Hlen.
  destruct o as [dt lb|dt k err]; cbn [op_dt] in *; cbn [step].
  - pose proof (RBInv_time cs t0 (brs s) (now s) (now s + dt) Hc Hb ltac:(lia)) as Hb1.
    pose proof (enter_all_inv 0 (now s + dt) lb cs t0 (brs s) Hb1) as Hb2.
    pose proof (enter_all_path cs 0 (now s + dt) lb (brs s) Hlen) as Hpath.
    destruct (enter_all 0 (now s + dt) lb cs (brs s)) as [[[bs1 r] es] hs]. cbn [fst] in Hb2.
    destruct Hpath as [_ Hnth].
    assert (Hpath' : forall j b, nth_error bs1 j = Some b ->
              path Closed (log_of (Z.of_nat j) (log s ++ es ++ hs)) = Some (state b)).
    { intros j b1 Hj.
      assert (Hjl : (j < length (brs s))%nat).
      { pose proof (RBInv_length _ _ _ _ Hb2) as Hl2.
        assert (j < length bs1)%nat by (apply nth_error_Some; congruence). lia. }
      destruct (nth_error (brs s) j) as [b0|] eqn:Eb0; [|apply nth_error_None in Eb0; lia].
      destruct (Hnth j b0 Eb0) as (b1' & Hn1 & Hp1). rewrite Hj in Hn1. inversion Hn1; subst b1'.
      rewrite log_of_app, path_app, (Hp j b0 Eb0). exact Hp1. }
    destruct r as [i|]; [|destruct lb]; cbn [fst]; (constructor; cbn [now brs log]; [lia|lia|exact Hb2|exact Hpath']).
  - destruct (alookup k (live s)) as [ts|].
    + pose proof (complete_all_inv 0 (now s + dt) (now s + dt - ts) err cs t0 (brs s) (now s) Hc Hb ltac:(lia) ltac:(lia)) as Hb2.
      pose proof (complete_all_path cs 0 (now s + dt) (now s + dt - ts) err (brs s) Hlen) as Hpath.
      destruct (complete_all 0 (now s + dt) (now s + dt - ts) err cs (brs s)) as [bs1 es]. cbn [fst] in *.
      destruct Hpath as [_ Hnth].
      constructor; cbn [now brs log]; auto; try lia.
      intros j b1 Hj.
      assert (Hjl : (j < length (brs s))%nat).
      { pose proof (RBInv_length _ _ _ _ Hb2) as Hl2.
        assert (j < length bs1)%nat by (apply nth_error_Some; congruence). lia. }
      destruct (nth_error (brs s) j) as [b0|] eqn:Eb0; [|apply nth_error_None in Eb0; lia].
      destruct (Hnth j b0 Eb0) as (b1' & Hn1 & Hp1). rewrite Hj in Hn1. inversion Hn1; subst b1'.
      rewrite log_of_app, path_app, (Hp j b0 Eb0). exact Hp1.
    + cbn [fst]. constructor; cbn [now brs log]; auto; try lia.
      apply (RBInv_time cs t0 (brs s) (now s)); auto; lia.
Qed.

Lemma step_now cs s o : now (fst (step cs s o)) = now s + op_dt o.
Proof.
  destruct o as [dt lb|dt k err]; cbn [step op_dt].
  - destruct (enter_all 0 (now s + dt) lb cs (brs s)) as [[[bs1 r] es] hs].
    destruct r; [|destruct lb]; reflexivity.
  - destruct (alookup k (live s)); [|reflexivity].
    destruct (complete_all 0 (now s + dt) (now s + dt - z) err cs (brs s)). reflexivity.
Qed.

Lemma run_inv_gen cs t0 ops : forall s, Forall cfg_ok cs -> RInv cs t0 s ->
  Forall (fun o => 0 <= op_dt o) ops -> now s + sumZ (map op_dt ops) < tmax ->
  RInv cs t0 (fst (run cs s ops)).
Proof.
  induction ops as [|o ops IH]; intros s Hc HI Hnn Hlt; cbn [run]; [exact HI|].
  inversion Hnn as [|? ? Ho Hr]; subst. cbn [map sumZ fold_right] in Hlt. fold (sumZ (map op_dt ops)) in Hlt.
  assert (Hs : 0 <= sumZ (map op_dt ops)).
  { apply sumZ_nonneg. apply Forall_map. exact Hr. }
  pose proof (step_inv cs t0 s o Hc HI Ho ltac:(lia)) as HI1.
  pose proof (step_now cs s o) as Hn1.
  destruct (step cs s o) as [s1 ob]. cbn [fst] in *.
  specialize (IH s1 Hc HI1 Hr ltac:(lia)).
  destruct (run cs s1 ops) as [s2 obs]. exact IH.
Qed.

Lemma run_inv cs t0 ops : Forall cfg_ok cs -> hist_ok t0 ops -> RInv cs t0 (fst (run cs (rinit cs t0) ops)).
Proof.
  intros Hc (H0 & Hnn & Hlt).
  assert (Hs : 0 <= sumZ (map op_dt ops)) by (apply sumZ_nonneg; apply Forall_map; exact Hnn).
  apply run_inv_gen; auto. apply RInv_init; auto. lia.
Qed.

(* ---------- lifting the breaker-level statements ---------- *)

Lemma RBInv_nth cs t0 bs tl j c b :
  RBInv cs t0 bs tl -> nth_error cs j = Some c -> nth_error bs j = Some b -> BInv c t0 b tl.
Proof.
  intros H. revert j. induction H as [|c0 b0 cs bs Hb _ IH]; intros [|j] Hc Hbn; cbn in *; try discriminate.
  - inversion Hc; inversion Hbn; subst. exact Hb.
  - eapply IH; eassumption.
Qed.

Lemma Forall_nth_error {A} (P : A -> Prop) l j x : Forall P l -> nth_error l j = Some x -> P x.
Proof. intros H Hn. apply nth_error_In in Hn. rewrite Forall_forall in H. auto. Qed.

(* the decision of an Entry *)
Lemma enter_obs cs s dt lb :
  snd (step cs s (Enter dt lb)) =
  match first_refusing 0 (now s + dt) cs (brs s) with
  | Some i => OBlock i
  | None => if lb then OBlockLater else OPass
  end.
Proof.
  cbn [step]. pose proof (enter_all_result 0 (now s + dt) lb cs (brs s)) as Hr.
  destruct (enter_all 0 (now s + dt) lb cs (brs s)) as [[[bs1 r] es] hs]. cbn in Hr. subst r.
  destruct (first_refusing 0 (now s + dt) cs (brs s)); [|destruct lb]; reflexivity.
Qed.

Lemma first_refusing_le i t cs : forall bs j c b,
  nth_error cs j = Some c -> nth_error bs j = Some b -> passes c b t = false ->
  exists k, first_refusing i t cs bs = Some k /\ i <= k <= i + Z.of_nat j.
Proof.
  revert i; induction cs as [|c0 cs IH]; intros i [|b0 bs] [|j] c b Hc Hb Hp; cbn in Hc, Hb; try discriminate; cbn [first_refusing].
  - inversion Hc; inversion Hb; subst. rewrite Hp. exists i. split; [reflexivity|lia].
  - destruct (passes c0 b0 t).
    + destruct (IH (i + 1) bs j c b Hc Hb Hp) as (k & Hk & Hr). exists k. split; [exact Hk|lia].
    + exists i. split; [reflexivity|lia].
Qed.

(* the breakers before the first refusing one all pass; the refusing one does not *)
Lemma first_refusing_spec i t cs : forall bs k,
  first_refusing i t cs bs = Some k ->
  exists j c b, k = i + Z.of_nat j /\ nth_error cs j = Some c /\ nth_error bs j = Some b /\ passes c b t = false /\
    forall j' c' b', (j' < j)%nat -> nth_error cs j' = Some c' -> nth_error bs j' = Some b' -> passes c' b' t = true.
Proof.
  revert i; induction cs as [|c0 cs IH]; intros i [|b0 bs] k Hf; cbn [first_refusing] in Hf; try discriminate.
  destruct (passes c0 b0 t) eqn:Ep.
  - destruct (IH (i + 1) bs k Hf) as (j & c & b & Hk & Hc & Hb & Hp & Hall).
    exists (S j), c, b. split; [lia|]. split; [exact Hc|]. split; [exact Hb|]. split; [exact Hp|].
    intros [|j'] c' b' Hlt Hc' Hb'; cbn in Hc', Hb'.
    + inversion Hc'; inversion Hb'; subst. exact Ep.
    + eapply Hall; try eassumption. lia.
  - inversion Hf; subst k. exists 0%nat, c0, b0. split; [lia|]. split; [reflexivity|]. split; [reflexivity|].
    split; [exact Ep|]. intros j' ? ? Hlt. lia.
Qed.

Lemma first_refusing_none i t cs : forall bs,
  first_refusing i t cs bs = None -> length cs = length bs ->
  forall j c b, nth_error cs j = Some c -> nth_error bs j = Some b -> passes c b t = true.
Proof.
  revert i; induction cs as [|c0 cs IH]; intros i [|b0 bs] Hf Hl [|j] c b Hc Hb; cbn in Hc, Hb, Hl; try discriminate;
    cbn [first_refusing] in Hf.
  - inversion Hc; inversion Hb; subst. destruct (passes c b t); [reflexivity|discriminate].
  - destruct (passes c0 b0 t); [|discriminate]. eapply IH; try eassumption. lia.
Qed.

(* state after a blocked / admitted Entry *)
Lemma enter_blocked_state cs t0 s dt lb : Forall cfg_ok cs -> RInv cs t0 s -> 0 <= dt ->
  snd (step cs s (Enter dt lb)) <> OPass ->
  brs (fst (step cs s (Enter dt lb))) = brs s /\ live (fst (step cs s (Enter dt lb))) = live s.
Proof.
  intros Hc [H0 Hm Hb Hp] Hdt Hobs. rewrite enter_obs in Hobs.
  pose proof (RBInv_time cs t0 (brs s) (now s) (now s + dt) Hc Hb ltac:(lia)) as Hb1.
  pose proof (enter_all_blocked_unchanged 0 (now s + dt) lb cs t0 (brs s) Hb1) as Hun.
  pose proof (enter_all_result 0 (now s + dt) lb cs (brs s)) as Hr.
  cbn [step]. destruct (enter_all 0 (now s + dt) lb cs (brs s)) as [[[bs1 r] es] hs]. cbn in Hun, Hr. subst r.
  destruct (first_refusing 0 (now s + dt) cs (brs s)) as [i|].
  - cbn. split; [apply Hun; reflexivity|reflexivity].
  - destruct lb; [|congruence]. cbn. split; [apply Hun; reflexivity|reflexivity].
Qed.

Lemma enter_admitted_state cs t0 s dt : RInv cs t0 s ->
  snd (step cs s (Enter dt false)) = OPass ->
  brs (fst (step cs s (Enter dt false))) = map admit_one (brs s) /\
  live (fst (step cs s (Enter dt false))) = (nops s, now s + dt) :: live s.
Proof.
  intros [H0 Hm Hb Hp] Hobs. rewrite enter_obs in Hobs.
  pose proof (enter_all_admitted 0 (now s + dt) cs (brs s)) as Had.
  pose proof (enter_all_result 0 (now s + dt) false cs (brs s)) as Hr.
  cbn [step]. destruct (enter_all 0 (now s + dt) false cs (brs s)) as [[[bs1 r] es] hs]. cbn in Had, Hr. subst r.
  destruct (first_refusing 0 (now s + dt) cs (brs s)) as [i|]; [discriminate|].
  cbn. split; [apply Had; [reflexivity|eapply RBInv_length; eassumption]|reflexivity].
Qed.

(* a completion of a live entry: breaker j processes it with on_complete *)
Lemma complete_nth cs s dt k err ts j c b :
  alookup k (live s) = Some ts -> nth_error cs j = Some c -> nth_error (brs s) j = Some b ->
  nth_error (brs (fst (step cs s (Complete dt k err)))) j
    = Some (fst (on_complete c b (now s + dt) (now s + dt - ts) err)).
Proof.
  intros Hk Hc Hb. cbn [step]. rewrite Hk.
  pose proof (complete_all_nth 0 (now s + dt) (now s + dt - ts) err cs (brs s) j c b Hc Hb) as Hn.
  destruct (complete_all 0 (now s + dt) (now s + dt - ts) err cs (brs s)) as [bs1 es]. exact Hn.
Qed.

(* the listener calls of breaker j caused by a completion are exactly those of its on_complete *)
Lemma complete_all_log cs : forall i t rt err bs j c b,
  nth_error cs j = Some c -> nth_error bs j = Some b -> length cs = length bs ->
  log_of (i + Z.of_nat j) (snd (complete_all i t rt err cs bs)) = snd (on_complete c b t rt err).
Proof.
  induction cs as [|c0 cs IH]; intros i t rt err [|b0 bs] [|j] c b Hc Hb Hl; cbn in Hc, Hb, Hl; try discriminate; cbn [complete_all].
  - inversion Hc; inversion Hb; subst.
    pose proof (complete_all_path cs (i + 1) t rt err bs ltac:(lia)) as Hp.
    destruct (on_complete c b t rt err) as [b1 es].
    destruct (complete_all (i + 1) t rt err cs bs) as [bs1 es']. destruct Hp as [Hlt _].
    cbn [snd]. rewrite Z.add_0_r, log_of_app, log_of_tag_same, (Hlt i) by lia. apply app_nil_r.
  - specialize (IH (i + 1) t rt err bs j c b Hc Hb ltac:(lia)).
    destruct (on_complete c0 b0 t rt err) as [b1 es].
    destruct (complete_all (i + 1) t rt err cs bs) as [bs1 es']. cbn [snd] in *.
    replace (i + Z.of_nat (S j)) with (i + 1 + Z.of_nat j) by lia.
    rewrite log_of_app, log_of_tag_other by lia. exact IH.
Qed.

Lemma complete_log cs s dt k err ts j c b :
  alookup k (live s) = Some ts -> nth_error cs j = Some c -> nth_error (brs s) j = Some b ->
  length cs = length (brs s) ->
  log_of (Z.of_nat j) (log (fst (step cs s (Complete dt k err))))
    = log_of (Z.of_nat j) (log s) ++ snd (on_complete c b (now s + dt) (now s + dt - ts) err).
Proof.
  intros Hk Hc Hb Hl. cbn [step]. rewrite Hk.
  pose proof (complete_all_log cs 0 (now s + dt) (now s + dt - ts) err (brs s) j c b Hc Hb Hl) as Hn.
  destruct (complete_all 0 (now s + dt) (now s + dt - ts) err cs (brs s)) as [bs1 es]. cbn [fst snd log] in *.
  rewrite log_of_app. f_equal. exact Hn.
Qed.

(* ---------- the statements of Properties/C03.v ---------- *)

Definition reach (cs : list cfg) (t0 : Z) (ops : list op) : rstate := fst (run cs (rinit cs t0) ops).

Lemma thm_opens_iff cs t0 ops j c b dt k err ts :
  Forall cfg_ok cs -> hist_ok t0 ops ->
  let s := reach cs t0 ops in
  nth_error cs j = Some c -> nth_error (brs s) j = Some b -> state b = Closed ->
  alookup k (live s) = Some ts -> 0 <= dt -> now s + dt < tmax ->
  let t := now s + dt in
  let bad := is_bad c (t - ts) err in
  let h2 := ghist b ++ [(t, bad)] in
  let B := ref_bad c h2 t in
  let T := ref_tot c h2 t in
  let s' := fst (step cs s (Complete dt k err)) in
  exists b', nth_error (brs s') j = Some b' /\
    if (min_amt c <=? T) && reached c B T
    then state b' = Open /\ next_retry b' = t + retry_ms c /\ ghist b' = h2 /\
         log_of (Z.of_nat j) (log s') = log_of (Z.of_nat j) (log s) ++ [TEv Closed Open (Some (open_snapshot c B T))]
    else state b' = Closed /\ ghist b' = h2 /\ log_of (Z.of_nat j) (log s') = log_of (Z.of_nat j) (log s).
Proof.
  intros Hcs Hh s Hc Hb Hst Hk Hdt Hlt t bad h2 B T s'.
  pose proof (run_inv cs t0 ops Hcs Hh) as HI. fold (reach cs t0 ops) in HI. fold s in HI.
  destruct HI as [H0 Hm Hbr Hp].
  pose proof (RBInv_nth _ _ _ _ _ _ _ Hbr Hc Hb) as HB.
  pose proof (Forall_nth_error _ _ _ _ Hcs Hc) as Hcok.
  eexists. split; [apply (complete_nth cs s dt k err ts j c b Hk Hc Hb)|].
  pose proof (complete_log cs s dt k err ts j c b Hk Hc Hb (RBInv_length _ _ _ _ Hbr)) as Hlog.
  fold s' in Hlog. rewrite Hlog.
  pose proof (opens_iff c t0 b (now s) t (t - ts) err Hcok HB ltac:(lia) ltac:(lia) Hst) as Ho.
  cbv zeta in Ho. fold bad h2 B T in Ho. fold t.
  destruct ((min_amt c <=? T) && reached c B T).
  - destruct Ho as (H1 & H2 & H3 & H4). rewrite H3. auto.
  - destruct Ho as (H1 & H2 & H3 & H4). rewrite H3, app_nil_r. auto.
Qed.

(* an Open breaker whose deadline has not been reached: no request to the resource is admitted,
   the block is the circuit-breaking one and names the first breaker that does not pass; nothing
   changes *)
Lemma thm_open_rejects cs t0 ops j c b dt lb :
  Forall cfg_ok cs -> hist_ok t0 ops ->
  let s := reach cs t0 ops in
  nth_error cs j = Some c -> nth_error (brs s) j = Some b ->
  state b = Open -> 0 <= dt -> now s + dt < next_retry b ->
  let r := step cs s (Enter dt lb) in
  exists i, snd r = OBlock i /\ 0 <= i <= Z.of_nat j /\
    first_refusing 0 (now s + dt) cs (brs s) = Some i /\
    brs (fst r) = brs s /\ live (fst r) = live s.
Proof.
  intros Hcs Hh s Hc Hb Hst Hdt Hlt r.
  pose proof (run_inv cs t0 ops Hcs Hh) as HI. fold (reach cs t0 ops) in HI. fold s in HI.
  assert (Hnp : passes c b (now s + dt) = false).
  { unfold passes. rewrite Hst. apply Z.leb_gt. lia. }
  destruct (first_refusing_le 0 (now s + dt) cs (brs s) j c b Hc Hb Hnp) as (i & Hi & Hr).
  assert (Hobs : snd r = OBlock i) by (subst r; rewrite enter_obs, Hi; reflexivity).
  exists i. split; [exact Hobs|]. split; [lia|]. split; [exact Hi|].
  apply (enter_blocked_state cs t0 s dt lb Hcs HI Hdt). fold r. rewrite Hobs. discriminate.
Qed.

Lemma thm_decision cs s dt lb :
  snd (step cs s (Enter dt lb)) =
  match first_refusing 0 (now s + dt) cs (brs s) with
  | Some i => OBlock i
  | None => if lb then OBlockLater else OPass
  end.
Proof. apply enter_obs. Qed.

Lemma thm_probe_after_timeout c b t :
  (state b = Open -> next_retry b <= t ->
     try_pass c b t = ({| state := HalfOpen; next_retry := next_retry b; cur_probe := cur_probe b;
                          slots := slots b; ghist := ghist b |}, true, [TEv Open HalfOpen None], true)) /\
  (state b = Open -> t < next_retry b -> try_pass c b t = (b, false, [], false)) /\
  (state b = HalfOpen -> probe_num c = 0 -> try_pass c b t = (b, false, [], false)) /\
  (state b = HalfOpen -> 0 < probe_num c -> try_pass c b t = (b, true, [], false)) /\
  (state b = Closed -> try_pass c b t = (b, true, [], false)).
Proof.
  rewrite try_pass_spec. repeat split; intros Hs; rewrite Hs; try reflexivity.
  - intros Hle. destruct (Z.leb_spec (next_retry b) t); [reflexivity|lia].
  - intros Hlt. destruct (Z.leb_spec (next_retry b) t); [lia|reflexivity].
  - intros ->. reflexivity.
  - intros Hp. destruct (Z.ltb_spec 0 (probe_num c)); [reflexivity|lia].
Qed.

(* an admitted request: every breaker lets it pass, the Open ones (deadline reached) become HalfOpen *)
Lemma thm_admitted cs t0 ops dt :
  Forall cfg_ok cs -> hist_ok t0 ops ->
  let s := reach cs t0 ops in
  let r := step cs s (Enter dt false) in
  snd r = OPass ->
  brs (fst r) = map admit_one (brs s) /\
  forall j c b, nth_error cs j = Some c -> nth_error (brs s) j = Some b -> passes c b (now s + dt) = true.
Proof.
  intros Hcs Hh s r Hobs.
  pose proof (run_inv cs t0 ops Hcs Hh) as HI. fold (reach cs t0 ops) in HI. fold s in HI.
  split; [apply (enter_admitted_state cs t0 s dt HI Hobs)|].
  subst r. rewrite enter_obs in Hobs.
  destruct (first_refusing 0 (now s + dt) cs (brs s)) eqn:Ef; [discriminate|].
  destruct HI as [_ _ Hbr _].
  apply (first_refusing_none 0 (now s + dt) cs (brs s) Ef (RBInv_length _ _ _ _ Hbr)).
Qed.

Lemma thm_half_open_complete cs t0 ops j c b dt k err ts :
  Forall cfg_ok cs -> hist_ok t0 ops ->
  let s := reach cs t0 ops in
  nth_error cs j = Some c -> nth_error (brs s) j = Some b -> state b = HalfOpen ->
  alookup k (live s) = Some ts -> 0 <= dt -> now s + dt < tmax ->
  let t := now s + dt in
  let bad := is_bad c (t - ts) err in
  let s' := fst (step cs s (Complete dt k err)) in
  exists b', nth_error (brs s') j = Some b' /\
   (if bad then
      state b' = Open /\ next_retry b' = t + retry_ms c /\ cur_probe b' = 0 /\
      log_of (Z.of_nat j) (log s') = log_of (Z.of_nat j) (log s) ++ [TEv HalfOpen Open (Some (probe_fail_snapshot c))]
    else if cur_probe b + 1 =? Z.max 1 (probe_num c) then
      state b' = Closed /\ cur_probe b' = 0 /\ ghist b' = [] /\
      log_of (Z.of_nat j) (log s') = log_of (Z.of_nat j) (log s) ++ [TEv HalfOpen Closed None] /\
      (forall t', t <= t' < tmax ->
         la_sum stot (gn c) (gbl c) t' (slots b') = 0 /\ la_sum sbad (gn c) (gbl c) t' (slots b') = 0)
    else
      state b' = HalfOpen /\ cur_probe b' = cur_probe b + 1 /\ cur_probe b + 1 < Z.max 1 (probe_num c) /\
      next_retry b' = next_retry b /\ log_of (Z.of_nat j) (log s') = log_of (Z.of_nat j) (log s)).
Proof.
  intros Hcs Hh s Hc Hb Hst Hk Hdt Hlt t bad s'.
  pose proof (run_inv cs t0 ops Hcs Hh) as HI. fold (reach cs t0 ops) in HI. fold s in HI.
  destruct HI as [H0 Hm Hbr Hp].
  pose proof (RBInv_nth _ _ _ _ _ _ _ Hbr Hc Hb) as HB.
  pose proof (Forall_nth_error _ _ _ _ Hcs Hc) as Hcok.
  eexists. split; [apply (complete_nth cs s dt k err ts j c b Hk Hc Hb)|].
  pose proof (complete_log cs s dt k err ts j c b Hk Hc Hb (RBInv_length _ _ _ _ Hbr)) as Hlog.
  fold s' in Hlog. rewrite Hlog.
  pose proof (half_open_complete c t0 b (now s) t (t - ts) err Hcok HB ltac:(lia) ltac:(lia) Hst) as Ho.
  cbv zeta in Ho. fold bad in Ho. fold t.
  destruct bad.
  - destruct Ho as (H1 & H2 & H3 & H4). rewrite H4. auto.
  - destruct (cur_probe b + 1 =? Z.max 1 (probe_num c)).
    + destruct Ho as (H1 & H2 & H3 & H4 & H5). rewrite H4. repeat split; auto; apply H5; assumption.
    + destruct Ho as (H1 & H2 & H3 & H4 & H5). rewrite H5, app_nil_r. auto.
Qed.

(* a request that is rejected (by a breaker or by a later slot) leaves every breaker as it was:
   a breaker probed by it is back in Open with the same deadline *)
Lemma thm_rollback cs t0 ops dt lb :
  Forall cfg_ok cs -> hist_ok t0 ops ->
  let s := reach cs t0 ops in
  0 <= dt ->
  let r := step cs s (Enter dt lb) in
  snd r <> OPass -> brs (fst r) = brs s /\ live (fst r) = live s.
Proof.
  intros Hcs Hh s Hdt r Hobs.
  pose proof (run_inv cs t0 ops Hcs Hh) as HI. fold (reach cs t0 ops) in HI. fold s in HI.
  apply (enter_blocked_state cs t0 s dt lb Hcs HI Hdt Hobs).
Qed.

Lemma thm_listener_path cs t0 ops j b :
  Forall cfg_ok cs -> hist_ok t0 ops ->
  let s := reach cs t0 ops in
  nth_error (brs s) j = Some b -> path Closed (log_of (Z.of_nat j) (log s)) = Some (state b).
Proof.
  intros Hcs Hh s Hb.
  pose proof (run_inv cs t0 ops Hcs Hh) as HI. fold (reach cs t0 ops) in HI. fold s in HI.
  destruct HI as [_ _ _ Hp]. apply Hp. exact Hb.
Qed.

(* the counters read by OnRequestComplete are the reference window counts *)
Lemma thm_window_refines cs t0 ops j c b t :
  Forall cfg_ok cs -> hist_ok t0 ops ->
  let s := reach cs t0 ops in
  nth_error cs j = Some c -> nth_error (brs s) j = Some b -> now s <= t < tmax ->
  la_sum stot (gn c) (gbl c) t (slots b) = ref_tot c (ghist b) t /\
  la_sum sbad (gn c) (gbl c) t (slots b) = ref_bad c (ghist b) t.
Proof.
  intros Hcs Hh s Hc Hb Ht.
  pose proof (run_inv cs t0 ops Hcs Hh) as HI. fold (reach cs t0 ops) in HI. fold s in HI.
  destruct HI as [H0 Hm Hbr Hp].
  pose proof (RBInv_nth _ _ _ _ _ _ _ Hbr Hc Hb) as (HIn & _).
  destruct (Forall_nth_error _ _ _ _ Hcs Hc) as (Hn & Hbl & H32 & _).
  pose proof (Inv_time _ _ Hn Hbl H32 _ _ _ _ t HIn ltac:(lia)) as HIt.
  unfold ref_tot, ref_bad, win_lo, win_hi.
  rewrite (la_sum_tot _ _ Hn Hbl H32 _ _ _ _ HIt) by lia.
  rewrite (la_sum_bad _ _ Hn Hbl H32 _ _ _ _ HIt) by lia.
  unfold itv. split; f_equal; lia.
Qed.
