(* Soundness of the lock discipline (C15): a table of accesses that is pairwise protected
   admits no race, for every set of threads whose accesses the table covers and for every
   well-formed trace. *)
From SG Require Import Base.Prelude Model.Lockset Model.LocksetRegions.

(* ---- lock-state invariant: two holdings of one lock are both read holdings ---------- *)

Fixpoint lock_inv (h : lstate) : Prop :=
  match h with
  | [] => True
  | (t, l, m) :: r => (forall t' m', In (t', l, m') r -> m = MR /\ m' = MR) /\ lock_inv r
  end.

Lemma holds_any_false h l : holds_any h l = false -> forall t m, ~ In (t, l, m) h.
Proof.
  unfold holds_any. intros H t m Hin.
  assert (existsb (fun e : holding => String.eqb (snd (fst e)) l) h = true) as E.
  { apply existsb_exists. exists (t, l, m). split; [exact Hin|]. cbn. apply String.eqb_refl. }
  congruence.
Qed.

Lemma holds_w_false h l : holds_w h l = false -> forall t m, In (t, l, m) h -> m = MR.
Proof.
  unfold holds_w. intros H t m Hin. destruct m; [reflexivity|].
  assert (existsb (fun e : holding => String.eqb (snd (fst e)) l && is_w (snd e)) h = true) as E.
  { apply existsb_exists. exists (t, l, MW). split; [exact Hin|]. cbn. rewrite String.eqb_refl. reflexivity. }
  congruence.
Qed.

Lemma release_incl t l h h' : release t l h = Some h' -> forall e, In e h' -> In e h.
Proof.
  revert h'. induction h as [|[[t' l'] m] r IH]; intros h' H e Hin; cbn in H; [discriminate|].
  destruct (Nat.eqb t t' && String.eqb l l')%bool.
  - inversion H; subst. right. exact Hin.
  - destruct (release t l r) as [r'|] eqn:E; [|discriminate]. inversion H; subst.
    destruct Hin as [Hin|Hin]; [left; exact Hin|right; eapply IH; eauto].
Qed.

Lemma release_inv t l h h' : release t l h = Some h' -> lock_inv h -> lock_inv h'.
Proof.
  revert h'. induction h as [|[[t' l'] m] r IH]; intros h' H Hinv; cbn in H; [discriminate|].
  destruct Hinv as [Hhd Hr].
  destruct (Nat.eqb t t' && String.eqb l l')%bool.
  - inversion H; subst. exact Hr.
  - destruct (release t l r) as [r'|] eqn:E; [|discriminate]. inversion H; subst.
    split; [|apply IH; auto].
    intros t2 m2 Hin. apply (Hhd t2 m2). eapply release_incl; eauto.
Qed.

Lemma lock_step_inv h t e h' : lock_step h t e = Some h' -> lock_inv h -> lock_inv h'.
Proof.
  destruct e as [l [|]|l|x|x]; cbn; intros H Hinv.
  - destruct (holds_w h l) eqn:E; [discriminate|]. inversion H; subst. split; [|exact Hinv].
    intros t' m' Hin. split; [reflexivity|]. eapply holds_w_false; eauto.
  - destruct (holds_any h l) eqn:E; [discriminate|]. inversion H; subst. split; [|exact Hinv].
    intros t' m' Hin. exfalso. eapply holds_any_false; eauto.
  - eapply release_inv; eauto.
  - inversion H; subst; exact Hinv.
  - inversion H; subst; exact Hinv.
Qed.

(* the heart of the matter: different threads never hold one lock with a writer among them *)
Lemma lock_inv_excl h : lock_inv h ->
  forall t1 t2 l m1 m2, In (t1, l, m1) h -> In (t2, l, m2) h -> t1 <> t2 -> m1 = MR /\ m2 = MR.
Proof.
  induction h as [|[[t l0] m] r IH]; intros Hinv t1 t2 l m1 m2 H1 H2 Hne; [inversion H1|].
  destruct Hinv as [Hhd Hr].
  destruct H1 as [H1|H1]; destruct H2 as [H2|H2].
  - inversion H1; inversion H2; subst. congruence.
  - inversion H1; subst. apply (Hhd t2 m2 H2).
  - inversion H2; subst. destruct (Hhd t1 m1 H1) as [A B]. split; assumption.
  - eapply IH; eauto.
Qed.

(* ---- the thread-local view of the lock state --------------------------------------- *)

Lemma local_in h t l m : In (l, m) (local h t) -> In (t, l, m) h.
Proof.
  unfold local. intros H. apply in_map_iff in H. destruct H as [[[t' l'] m'] [E Hin]].
  apply filter_In in Hin. destruct Hin as [Hin Ht]. cbn in *. inversion E; subst.
  apply Nat.eqb_eq in Ht. subst. exact Hin.
Qed.

Lemma local_cons_same h t l m : local ((t, l, m) :: h) t = (l, m) :: local h t.
Proof. unfold local. cbn. rewrite Nat.eqb_refl. reflexivity. Qed.

Lemma local_cons_other h t t' l m : t' <> t -> local ((t, l, m) :: h) t' = local h t'.
Proof.
  intros Hne. unfold local. cbn. destruct (Nat.eqb t t') eqn:E; [|reflexivity].
  apply Nat.eqb_eq in E. congruence.
Qed.

Lemma local_release_same t l h h' : release t l h = Some h' -> local h' t = remove_lock l (local h t).
Proof.
  revert h'. induction h as [|[[t' l'] m] r IH]; intros h' H; cbn in H; [discriminate|].
  destruct (Nat.eqb t t') eqn:Et; cbn [andb] in H.
  - apply Nat.eqb_eq in Et. subst t'. rewrite local_cons_same. cbn [remove_lock].
    destruct (String.eqb l l') eqn:El.
    + inversion H; subst. reflexivity.
    + destruct (release t l r) as [r'|] eqn:E; [|discriminate]. inversion H; subst.
      rewrite local_cons_same. f_equal. apply IH. reflexivity.
  - destruct (release t l r) as [r'|] eqn:E; [|discriminate]. inversion H; subst.
    assert (t <> t') as Hne by (intro; subst; rewrite Nat.eqb_refl in Et; discriminate).
    rewrite !local_cons_other by auto. apply IH. reflexivity.
Qed.

Lemma local_release_other t t2 l h h' : t2 <> t -> release t l h = Some h' -> local h' t2 = local h t2.
Proof.
  intros Hne. revert h'. induction h as [|[[t' l'] m] r IH]; intros h' H; cbn in H; [discriminate|].
  destruct (Nat.eqb t t' && String.eqb l l')%bool eqn:Eb.
  - inversion H; subst. apply andb_true_iff in Eb. destruct Eb as [Et _]. apply Nat.eqb_eq in Et. subst t'.
    rewrite local_cons_other by auto. reflexivity.
  - destruct (release t l r) as [r'|] eqn:E; [|discriminate]. inversion H; subst.
    unfold local. cbn. destruct (Nat.eqb t' t2); cbn; [f_equal|]; apply IH; reflexivity.
Qed.

Lemma lock_step_local_other h t e h' t2 : t2 <> t -> lock_step h t e = Some h' -> local h' t2 = local h t2.
Proof.
  intros Hne. destruct e as [l [|]|l|x|x]; cbn; intros H.
  - destruct (holds_w h l); [discriminate|]. inversion H; subst. apply local_cons_other; auto.
  - destruct (holds_any h l); [discriminate|]. inversion H; subst. apply local_cons_other; auto.
  - eapply local_release_other; eauto.
  - inversion H; reflexivity.
  - inversion H; reflexivity.
Qed.

(* what remains of the stepping thread's obligations after its step *)
Lemma lock_step_accs_same A h t e rest h' :
  lock_step h t e = Some h' ->
  Forall (covered A) (accs (local h t) (e :: rest)) ->
  Forall (covered A) (accs (local h' t) rest).
Proof.
  destruct e as [l [|]|l|x|x]; cbn [lock_step accs]; intros H HF.
  - destruct (holds_w h l); [discriminate|]. inversion H; subst. rewrite local_cons_same. exact HF.
  - destruct (holds_any h l); [discriminate|]. inversion H; subst. rewrite local_cons_same. exact HF.
  - erewrite local_release_same by eauto. exact HF.
  - inversion H; subst. inversion HF; assumption.
  - inversion H; subst. inversion HF; assumption.
Qed.

(* ---- the invariant of reachable configurations ------------------------------------- *)

Definition cfg_inv (A : list access) (c : config) : Prop :=
  lock_inv (fst c) /\
  forall t p, nth_error (snd c) t = Some p -> Forall (covered A) (accs (local (fst c) t) p).

Lemma nth_error_set_nth_same {X} n (v : X) l : (n < length l)%nat -> nth_error (set_nth n v l) n = Some v.
Proof. revert n; induction l as [|x r IH]; intros [|n] H; cbn in *; try lia; auto. apply IH. lia. Qed.

Lemma nth_error_set_nth_other {X} n m (v : X) l : n <> m -> nth_error (set_nth n v l) m = nth_error l m.
Proof. revert n m; induction l as [|x r IH]; intros [|n] [|m] H; cbn in *; try lia; auto. Qed.

Lemma cfg_inv_init A ps : Forall (prog_covered A) ps -> cfg_inv A (init_config ps).
Proof.
  intros HF. split; [exact I|]. intros t p Hn. cbn in *.
  apply nth_error_In in Hn. rewrite Forall_forall in HF. apply (HF p Hn).
Qed.

Lemma cfg_inv_step A c t c' : sched_step c t = Some c' -> cfg_inv A c -> cfg_inv A c'.
Proof.
  destruct c as [h ps]. unfold sched_step. cbn [fst snd].
  destruct (nth_error ps t) as [[|e rest]|] eqn:En; try discriminate.
  destruct (lock_step h t e) as [h'|] eqn:El; [|discriminate].
  intros H [Hl Hc]. inversion H; subst. cbn [fst snd] in *. split.
  - eapply lock_step_inv; eauto.
  - intros t2 p Hn. cbn [fst snd] in *. destruct (Nat.eq_dec t t2) as [->|Hne].
    + rewrite nth_error_set_nth_same in Hn by (apply nth_error_Some; congruence).
      inversion Hn; subst. eapply lock_step_accs_same; eauto.
    + rewrite nth_error_set_nth_other in Hn by auto.
      rewrite (lock_step_local_other h t e h' t2 (not_eq_sym Hne) El). apply Hc. exact Hn.
Qed.

Lemma cfg_inv_run A sched : forall c c', run c sched = Some c' -> cfg_inv A c -> cfg_inv A c'.
Proof.
  induction sched as [|t r IH]; intros c c' H Hinv; cbn in H.
  - inversion H; subst; exact Hinv.
  - destruct (sched_step c t) as [c1|] eqn:E; [|discriminate].
    eapply IH; eauto. eapply cfg_inv_step; eauto.
Qed.

(* ---- soundness --------------------------------------------------------------------- *)

Lemma protects_mono ha hb ha' hb' : incl ha ha' -> incl hb hb' -> protects ha hb -> protects ha' hb'.
Proof. intros Ia Ib (l & ma & mb & Ha & Hb & Hm). exists l, ma, mb. auto. Qed.

Lemma next_access_covered A h t e rest x :
  Forall (covered A) (accs (local h t) (e :: rest)) -> touches e x ->
  exists a, In a A /\ a_var a = x /\ incl (a_held a) (local h t) /\ (is_wr e = true -> a_kind a = Write).
Proof.
  intros HF Ht. destruct e as [l m|l|y|y]; cbn in Ht; try contradiction; subst y;
    cbn [accs] in HF; inversion HF as [|o os Hc _]; subst;
    destruct Hc as (a & Hin & Hk & Hv & Hi); cbn in *; exists a; repeat split; auto.
  intros D; discriminate.
Qed.

Theorem no_race_of_inv A x c : cfg_inv A c -> pair_disciplined A x -> ~ race_on x c.
Proof.
  intros [Hl Hc] Hd (i & j & ei & ri & ej & rj & Hne & Hi & Hj & Ti & Tj & Hw).
  destruct (next_access_covered A _ _ _ _ x (Hc _ _ Hi) Ti) as (a & Ha & Hva & Hia & Hka).
  destruct (next_access_covered A _ _ _ _ x (Hc _ _ Hj) Tj) as (b & Hb & Hvb & Hib & Hkb).
  assert (a_kind a = Write \/ a_kind b = Write) as Hk by (destruct Hw; [left|right]; auto).
  pose proof (protects_mono _ _ _ _ Hia Hib (Hd a b Ha Hb Hva Hvb Hk)) as (l & ma & mb & Hla & Hlb & Hm).
  apply local_in in Hla. apply local_in in Hlb.
  destruct (lock_inv_excl _ Hl _ _ _ _ _ Hla Hlb Hne) as [E1 E2].
  destruct Hm; congruence.
Qed.

(* pairwise form, for all thread sets and all well-formed traces *)
Theorem lockset_sound_pairwise : forall A x ps c,
  Forall (prog_covered A) ps -> pair_disciplined A x -> reachable ps c -> ~ race_on x c.
Proof.
  intros A x ps c Hcov Hd [sched Hrun].
  eapply no_race_of_inv; [|exact Hd]. eapply cfg_inv_run; eauto. apply cfg_inv_init; auto.
Qed.

Lemma common_lock_pairwise A x l : common_lock A x l -> pair_disciplined A x.
Proof.
  intros Hc a b Ha Hb Hva Hvb Hk. pose proof (Hc a Ha Hva) as Pa. pose proof (Hc b Hb Hvb) as Pb.
  destruct Hk as [Hk|Hk]; rewrite Hk in *.
  - destruct (a_kind b); [destruct Pb| |destruct Pb];
      first [ exists l, MW, MR; now auto | exists l, MW, MW; now auto ].
  - destruct (a_kind a); [destruct Pa| |destruct Pa];
      first [ exists l, MR, MW; now auto | exists l, MW, MW; now auto ].
Qed.

(* the classical statement: one guarding lock per variable *)
Theorem lockset_sound : forall A x l ps c,
  Forall (prog_covered A) ps -> common_lock A x l -> reachable ps c -> ~ race_on x c.
Proof. intros. eapply lockset_sound_pairwise; eauto. eapply common_lock_pairwise; eauto. Qed.

(* ---- the executable checker is sound ----------------------------------------------- *)

Lemma protectsb_sound ha hb : protectsb ha hb = true -> protects ha hb.
Proof.
  unfold protectsb. intros H. apply existsb_exists in H. destruct H as [[la ma] [Ha H]].
  apply existsb_exists in H. destruct H as [[lb mb] [Hb H]]. cbn in H.
  apply andb_true_iff in H. destruct H as [He Hm]. apply String.eqb_eq in He. subst lb.
  exists la, ma, mb. repeat split; auto.
  apply orb_true_iff in Hm. destruct Hm as [Hm|Hm]; [left|right]; destruct ma, mb; cbn in Hm; congruence.
Qed.

Lemma protects_sym ha hb : protects ha hb -> protects hb ha.
Proof. intros (l & ma & mb & A & B & C). exists l, mb, ma. repeat split; auto. tauto. Qed.

Lemma bad_pairs_nil L : bad_pairs L = [] ->
  forall a b, In a L -> In b L -> bad_pair a b = false.
Proof.
  induction L as [|x r IH]; intros H a b Ha Hb; [inversion Ha|].
  cbn [bad_pairs] in H. apply app_eq_nil in H. destruct H as [Hh Ht].
  apply map_eq_nil in Hh.
  assert (forall y, In y (x :: r) -> bad_pair x y = false /\ bad_pair y x = false) as Hx.
  { intros y Hy. destruct (bad_pair x y || bad_pair y x)%bool eqn:E.
    - assert (In y (filter (fun b => bad_pair x b || bad_pair b x)%bool (x :: r))) as Hin
        by (apply filter_In; split; auto).
      rewrite Hh in Hin. inversion Hin.
    - apply orb_false_iff in E. exact E. }
  destruct Ha as [->|Ha]; [apply (Hx b Hb)|].
  destruct Hb as [->|Hb]; [apply (Hx a (or_intror Ha))|].
  apply IH; auto.
Qed.

Theorem discipline_ok_sound A wl : discipline_ok A wl = true ->
  forall x, pair_disciplined (filter (live wl) A) x.
Proof.
  unfold discipline_ok, violations. intros H x a b Ha Hb Hva Hvb Hk.
  destruct (map _ _ ++ bad_pairs (filter (live wl) A)) eqn:E; [|discriminate].
  apply app_eq_nil in E. destruct E as [_ E].
  pose proof (bad_pairs_nil _ E a b Ha Hb) as Hbad. unfold bad_pair in Hbad.
  assert (String.eqb (a_var a) (a_var b) = true) as Ev by (apply String.eqb_eq; congruence).
  assert ((is_write a || is_write b)%bool = true) as Ew.
  { unfold is_write. destruct Hk as [Hk|Hk]; rewrite Hk; cbn; auto using orb_true_r. }
  rewrite Ev, Ew in Hbad. cbn in Hbad. apply negb_false_iff in Hbad. apply protectsb_sound; exact Hbad.
Qed.

Lemma discipline_ok_no_unknown A wl : discipline_ok A wl = true ->
  forall a, In a A -> live wl a = true -> a_kind a <> Unknown.
Proof.
  unfold discipline_ok, violations. intros H a Ha Hl Hk.
  destruct (map _ _ ++ bad_pairs (filter (live wl) A)) eqn:E; [|discriminate].
  apply app_eq_nil in E. destruct E as [E _]. apply map_eq_nil in E.
  assert (In a (filter is_unknown (filter (live wl) A))) as Hin.
  { apply filter_In. split; [apply filter_In; auto|]. unfold is_unknown. rewrite Hk. reflexivity. }
  rewrite E in Hin. inversion Hin.
Qed.

(* The instantiation used by the generated check: once `discipline_ok table wl = true` has
   been computed, threads that run only code outside the whitelisted functions and touch
   only variables outside the whitelisted ones are race free on every variable. *)
Theorem race_free_of_discipline : forall A wl,
  discipline_ok A wl = true ->
  forall ps c x, Forall (prog_covered (filter (live wl) A)) ps -> reachable ps c -> ~ race_on x c.
Proof.
  intros A wl H ps c x Hcov Hr. eapply lockset_sound_pairwise; eauto. apply discipline_ok_sound; auto.
Qed.

(* ---- unlock discipline (Model/LocksetRegions.v) ------------------------------------- *)

(* A body that passes the static check leaves no lock behind, whichever of its may-panic calls
   panics (or none): after a recovered panic the goroutine holds exactly what it held before. *)
Lemma fcheck_no_leak : forall b held deferred p,
  fcheck b held deferred = true -> fexec b held deferred p = [].
Proof.
  induction b as [|s r IH]; intros held deferred p H; cbn in *.
  - destruct (leftover held deferred); [reflexivity|discriminate].
  - destruct s as [l|l|l|[|]]; cbn in *; try (apply IH; exact H).
    apply andb_true_iff in H. destruct H as [H0 H1].
    destruct p as [[|n]|]; try (apply IH; exact H1).
    destruct (leftover held deferred); [reflexivity|discriminate].
Qed.

Theorem no_lock_leak : forall b p, fcheck b [] [] = true -> fexec b [] [] p = [].
Proof. intros b p H. apply fcheck_no_leak; exact H. Qed.

(* ... and the check is exact: if it fails, some choice of the panicking call (or a normal
   run) leaves a lock behind *)
Lemma fcheck_complete : forall b held deferred,
  fcheck b held deferred = false -> exists p, fexec b held deferred p <> [].
Proof.
  induction b as [|s r IH]; intros held deferred H; cbn in *.
  - exists None. destruct (leftover held deferred); [discriminate|intro E; discriminate].
  - destruct s as [l|l|l|[|]]; cbn in *; try (apply IH; exact H).
    apply andb_false_iff in H. destruct H as [H|H].
    + exists (Some O). destruct (leftover held deferred); [discriminate|intro E; discriminate].
    + destruct (IH _ _ H) as [[n|] Hp].
      * exists (Some (S n)). exact Hp.
      * exists None. exact Hp.
Qed.

Lemma is_nil_filter_app {A} (g : A -> bool) (x y : list A) :
  is_nil (filter g (x ++ y)) = (is_nil (filter g x) && is_nil (filter g y))%bool.
Proof. rewrite filter_app. destruct (filter g x); reflexivity. Qed.

(* the table check on the facts the extractor emits for one body implies the static check *)
Lemma regions_ok_fcheck_gen : forall f b held deferred n,
  regions_ok (facts_go f b held deferred n) strict_policy = true -> fcheck b held deferred = true.
Proof.
  unfold regions_ok, region_violations.
  induction b as [|s r IH]; intros held deferred n H; cbn in *.
  - destruct (leftover held deferred); [reflexivity|cbn in H; discriminate].
  - destruct s as [l|l|l|[|]]; cbn in *; try (eapply IH; exact H).
    rewrite is_nil_filter_app in H. apply andb_true_iff in H. destruct H as [H0 H1].
    rewrite (IH _ _ _ H1), andb_true_r.
    clear - H0. unfold leftover.
    induction held as [|l hs IHh]; [reflexivity|].
    cbn in H0 |- *. unfold region_bad in H0 at 1. cbn in H0.
    destruct (existsb (String.eqb l) deferred); cbn in H0 |- *; [apply IHh; exact H0|discriminate].
Qed.

Theorem regions_ok_fcheck : forall f b,
  regions_ok (facts_of_body f b) strict_policy = true -> fcheck b [] [] = true.
Proof. intros f b H. eapply regions_ok_fcheck_gen; exact H. Qed.
