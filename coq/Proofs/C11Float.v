(* IEEE-754 binary64 facts used by C11, through Flocq's formalisation of Coq's primitive floats
   (FloatAxioms): each float operation is the rounding (to nearest, ties to even) of the exact
   operation when the result does not overflow; rounding is monotone; integers below 2^53 are exact. *)
From Coq Require Import ZArith Reals Floats Lia Lra Psatz.
From Flocq Require Import Core IEEE754.BinarySingleNaN IEEE754.PrimFloat.
From Flocq Require Import Relative.
From SG Require Import Base.Prelude Base.GoInt Base.GoFloat.
#[local] Open Scope Z_scope.

#[local] Instance Hprec : FLX.Prec_gt_0 prec := eq_refl _.
#[local] Instance Hmax : Prec_lt_emax prec emax := eq_refl _.

Notation FHprec := Flocq.IEEE754.PrimFloat.Hprec.
Notation FHmax := Flocq.IEEE754.PrimFloat.Hmax.

Notation fex := (SpecFloat.fexp prec emax).

(* round to nearest, ties to even, in binary64 *)
Definition Rnd (x : R) : R := round radix2 fex ZnearestE x.

(* the real value of a double (0 for infinities and NaN) and finiteness *)
Definition FR (f : Coq.Floats.PrimFloat.float) : R := B2R (Prim2B f).
Definition fin (f : Coq.Floats.PrimFloat.float) : Prop := is_finite (Prim2B f) = true.

#[global] Instance fexp_valid : Valid_exp fex := fexp_correct prec emax Hprec.

Lemma FR_SF f : FR f = SF2R radix2 (Prim2SF f).
Proof. unfold FR, Prim2B. apply B2R_SF2B. Qed.

Lemma fin_SF f : is_finite (Prim2B f) = is_finite_SF (Prim2SF f).
Proof. unfold Prim2B. apply is_finite_SF2B. Qed.

Lemma Rnd_le x y : (x <= y)%R -> (Rnd x <= Rnd y)%R.
Proof. intros H. unfold Rnd. apply round_le; [exact fexp_valid|apply valid_rnd_N|exact H]. Qed.

Lemma bpow53 : bpow radix2 53 = IZR (2 ^ 53).
Proof. rewrite <- (IZR_Zpower radix2 53) by lia. reflexivity. Qed.

Lemma F2R_int z : F2R (Float radix2 z 0) = IZR z.
Proof. unfold F2R; cbn; ring. Qed.

Lemma int_format z : Z.abs z <= 2 ^ 53 -> generic_format radix2 fex (IZR z).
Proof.
  intros Hz. destruct (Z.eq_dec (Z.abs z) (2 ^ 53)) as [E|E].
  - assert (Hb : generic_format radix2 fex (bpow radix2 53)).
    { apply generic_format_bpow. unfold SpecFloat.fexp, SpecFloat.emin, prec, emax. lia. }
    rewrite bpow53 in Hb.
    destruct (Z.abs_eq_or_opp z) as [A|A]; rewrite A in E.
    + rewrite E. exact Hb.
    + replace z with (- 2 ^ 53) by lia. rewrite opp_IZR. apply generic_format_opp. exact Hb.
  - rewrite <- F2R_int.
    apply generic_format_F2R. intros Hnz. unfold cexp. rewrite F2R_int.
    assert (Hm : (mag radix2 (IZR z) <= 53)%Z).
    { apply mag_le_bpow.
      - apply not_0_IZR. exact Hnz.
      - rewrite <- abs_IZR. rewrite bpow53. apply IZR_lt. lia. }
    unfold SpecFloat.fexp, SpecFloat.emin, prec, emax. lia.
Qed.

Lemma Rnd_generic x : generic_format radix2 fex x -> Rnd x = x.
Proof. intros H. unfold Rnd. apply round_generic; [apply valid_rnd_N|exact H]. Qed.

Lemma Rnd_int z : Z.abs z <= 2 ^ 53 -> Rnd (IZR z) = IZR z.
Proof. intros Hz. apply Rnd_generic, int_format, Hz. Qed.

Lemma Rnd_0 : Rnd 0 = 0%R.
Proof. exact (Rnd_int 0 ltac:(lia)). Qed.

Lemma Rnd_format x : generic_format radix2 fex (Rnd x).
Proof. unfold Rnd. apply generic_format_round; [exact fexp_valid|apply valid_rnd_N]. Qed.

Lemma FR_format f : generic_format radix2 fex (FR f).
Proof. unfold FR. apply generic_format_B2R. Qed.

(* a comfortable overflow margin *)
Definition big : R := bpow radix2 1000.

Lemma big_format : generic_format radix2 fex big.
Proof. apply generic_format_bpow. unfold SpecFloat.fexp, SpecFloat.emin, prec, emax. lia. Qed.

Lemma big_lt_emax : (big < bpow radix2 emax)%R.
Proof. apply bpow_lt. unfold emax. lia. Qed.

Lemma Rnd_abs_big x : (Rabs x <= big)%R -> (Rabs (Rnd x) < bpow radix2 emax)%R.
Proof.
  intros H. apply Rle_lt_trans with big; [|exact big_lt_emax].
  unfold Rnd. apply abs_round_le_generic; [exact fexp_valid|apply valid_rnd_N|exact big_format|exact H].
Qed.

(* ---- the operations ---- *)

Lemma fmul_ok x y : fin x -> fin y -> (Rabs (FR x * FR y) <= big)%R ->
  FR (x * y)%float = Rnd (FR x * FR y) /\ fin (x * y)%float.
Proof.
  intros Fx Fy Hb. unfold FR, fin in *. rewrite mul_equiv.
  pose proof (Bmult_correct prec emax FHprec FHmax mode_NE (Prim2B x) (Prim2B y)) as H.
  cbn [round_mode] in H. fold (Rnd (B2R (Prim2B x) * B2R (Prim2B y))) in H.
  rewrite Rlt_bool_true in H by (apply Rnd_abs_big; exact Hb).
  destruct H as (H1 & H2 & _). split; [exact H1|]. rewrite H2, Fx, Fy. reflexivity.
Qed.

Lemma fdiv_ok x y : fin x -> fin y -> FR y <> 0%R -> (Rabs (FR x / FR y) <= big)%R ->
  FR (x / y)%float = Rnd (FR x / FR y) /\ fin (x / y)%float.
Proof.
  intros Fx Fy Hy Hb. unfold FR, fin in *. rewrite div_equiv.
  pose proof (Bdiv_correct prec emax FHprec FHmax mode_NE (Prim2B x) (Prim2B y) Hy) as H.
  cbn [round_mode] in H. fold (Rnd (B2R (Prim2B x) / B2R (Prim2B y))) in H.
  rewrite Rlt_bool_true in H by (apply Rnd_abs_big; exact Hb).
  destruct H as (H1 & H2 & _). split; [exact H1|]. rewrite H2, Fx. reflexivity.
Qed.

Lemma fadd_ok x y : fin x -> fin y -> (Rabs (FR x + FR y) <= big)%R ->
  FR (x + y)%float = Rnd (FR x + FR y) /\ fin (x + y)%float.
Proof.
  intros Fx Fy Hb. unfold FR, fin in *. rewrite add_equiv.
  pose proof (Bplus_correct prec emax FHprec FHmax mode_NE (Prim2B x) (Prim2B y) Fx Fy) as H.
  cbn [round_mode] in H. fold (Rnd (B2R (Prim2B x) + B2R (Prim2B y))) in H.
  rewrite Rlt_bool_true in H by (apply Rnd_abs_big; exact Hb).
  destruct H as (H1 & H2 & _). split; assumption.
Qed.

(* ---- integer conversions ---- *)

Lemma bpow_emax_53 z : Z.abs z <= 2 ^ 53 -> (Rabs (IZR z) < bpow radix2 emax)%R.
Proof.
  intros Hz. rewrite <- abs_IZR. apply Rle_lt_trans with (bpow radix2 53).
  - rewrite bpow53. apply IZR_le. exact Hz.
  - apply bpow_lt. unfold emax. lia.
Qed.

Lemma of_u63_ok n : 0 <= n <= 2 ^ 53 -> FR (f_of_u63 n) = IZR n /\ fin (f_of_u63 n).
Proof.
  intros Hn. unfold f_of_u63, FR, fin. rewrite of_int63_equiv.
  assert (E3 : Uint63.to_Z (Uint63.of_Z n) = n).
  { rewrite Uint63.of_Z_spec. apply Z.mod_small. unfold Uint63.wB, Uint63.size. cbn. lia. }
  rewrite E3.
  pose proof (binary_normalize_correct prec emax FHprec FHmax mode_NE n 0 false) as H.
  cbv zeta in H. rewrite F2R_int in H. cbn [round_mode] in H.
  fold (Rnd (IZR n)) in H. rewrite Rnd_int in H by lia.
  rewrite Rlt_bool_true in H by (apply bpow_emax_53; lia).
  destruct H as (H1 & H2 & _). split; assumption.
Qed.

Lemma of_u64_ok n : 0 <= n <= 2 ^ 53 -> FR (f_of_u64 n) = IZR n /\ fin (f_of_u64 n).
Proof.
  intros Hn. unfold f_of_u64.
  assert (E : (n <? two63) = true). { Transparent two63. unfold two63. lia. }
  rewrite E. apply of_u63_ok, Hn.
Qed.

Lemma of_i64_ok n : Z.abs n <= 2 ^ 53 -> FR (f_of_i64 n) = IZR n /\ fin (f_of_i64 n).
Proof.
  intros Hn. unfold f_of_i64. destruct (n <? 0) eqn:E.
  - apply Z.ltb_lt in E.
    assert (Hn' : 0 <= - n <= 2 ^ 53) by lia.
    destruct (of_u64_ok (- n) Hn') as [H1 H2]. unfold FR, fin in *.
    rewrite opp_equiv, B2R_Bopp, is_finite_Bopp, H1, opp_IZR. split; [lra|exact H2].
  - apply Z.ltb_ge in E. apply of_u64_ok. lia.
Qed.

(* ---- comparisons of finite doubles ---- *)

Lemma leb_R x y : fin x -> fin y -> (x <=? y)%float = Rle_bool (FR x) (FR y).
Proof. intros Fx Fy. rewrite leb_equiv. apply Bleb_correct; assumption. Qed.

Lemma ltb_R x y : fin x -> fin y -> (x <? y)%float = Rlt_bool (FR x) (FR y).
Proof. intros Fx Fy. rewrite ltb_equiv. apply Bltb_correct; assumption. Qed.

Lemma eqb_R x y : fin x -> fin y -> (x =? y)%float = Req_bool (FR x) (FR y).
Proof. intros Fx Fy. rewrite eqb_equiv. apply Beqb_correct; assumption. Qed.

Lemma leb_true x y : fin x -> fin y -> (FR x <= FR y)%R -> (x <=? y)%float = true.
Proof. intros Fx Fy H. rewrite leb_R by assumption. apply Rle_bool_true, H. Qed.

Lemma ltb_false x y : fin x -> fin y -> (FR y <= FR x)%R -> (x <? y)%float = false.
Proof. intros Fx Fy H. rewrite ltb_R by assumption. apply Rlt_bool_false, H. Qed.

(* ---- relative error of one rounding, in the normal range ---- *)

Definition uu : R := bpow radix2 (-53).   (* unit round-off *)

Lemma Rnd_rel x : (bpow radix2 (-1022) <= Rabs x)%R -> (Rabs (Rnd x - x) <= uu * Rabs x)%R.
Proof.
  intros H. unfold Rnd, uu.
  pose proof (relative_error_N_FLT radix2 (SpecFloat.emin prec emax) prec FHprec (fun z => negb (Z.even z)) x) as R.
  replace (SpecFloat.emin prec emax + prec - 1) with (-1022) in R by (unfold SpecFloat.emin, prec, emax; lia).
  specialize (R H).
  replace (/ 2 * bpow radix2 (- prec + 1))%R with (bpow radix2 (-53)) in R.
  - exact R.
  - change (/ 2)%R with (bpow radix2 (-1)). rewrite <- bpow_plus. f_equal.
Qed.
