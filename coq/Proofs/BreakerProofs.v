(* Lemmas for property C03: the breaker model refines the three-state diagram whose guards
   are written over the reference window counts. *)
From Coq Require Import Floats.
From SG Require Import Base.Prelude Base.GoInt Base.GoFloat Model.Breaker Proofs.BreakerLAProofs.
#[local] Open Scope Z_scope.

(* configurations built from valid rules: positive geometry, uint32 interval, non-negative
   probe number / timeout *)
Definition cfg_ok (c : cfg) : Prop :=
  0 < gn c /\ 0 < gbl c /\ gn c * gbl c < two32 /\ 0 <= probe_num c /\ 0 <= retry_ms c.

(* per-breaker invariant at time tl (t0 = creation time) *)
Definition BInv (c : cfg) (t0 : Z) (b : breaker) (tl : Z) : Prop :=
  Inv (gn c) (gbl c) t0 (slots b) (ghist b) tl /\
  0 <= cur_probe b /\
  (state b <> HalfOpen -> cur_probe b = 0) /\
  (state b = HalfOpen -> cur_probe b < Z.max 1 (probe_num c)).

Lemma BInv_new c t0 : cfg_ok c -> 0 <= t0 -> BInv c t0 (new_breaker c t0) t0.
Proof.
  intros (Hn & Hbl & _) H0. split; [apply Inv_init; assumption|]. cbn. repeat split; try lia; try discriminate.
Qed.

Lemma BInv_time c t0 b tl tl' : cfg_ok c -> BInv c t0 b tl -> tl <= tl' -> BInv c t0 b tl'.
Proof.
  intros (Hn & Hbl & H32 & _) (HI & Hp) Hle. split; [apply (Inv_time _ _ Hn Hbl H32 _ _ _ tl); assumption|exact Hp].
Qed.

(* ---------- TryPass ---------- *)

Lemma try_pass_spec c b t :
  try_pass c b t =
  match state b with
  | Closed => (b, true, [], false)
  | HalfOpen => (b, 0 <? probe_num c, [], false)
  | Open => if next_retry b <=? t
            then ({| state := HalfOpen; next_retry := next_retry b; cur_probe := cur_probe b; slots := slots b; ghist := ghist b |},
                  true, [TEv Open HalfOpen None], true)
            else (b, false, [], false)
  end.
Proof. unfold try_pass. destruct (state b); reflexivity. Qed.

Lemma try_pass_passes c b t : snd (fst (fst (try_pass c b t))) = passes c b t.
Proof. unfold try_pass, passes. destruct (state b); try reflexivity. destruct (next_retry b <=? t); reflexivity. Qed.

Lemma try_pass_inv c t0 b tl : BInv c t0 b tl -> BInv c t0 (fst (fst (fst (try_pass c b tl)))) tl.
Proof.
  intros HB. pose proof HB as (HI & H0 & Hne & Hh). rewrite try_pass_spec. destruct (state b) eqn:E.
  - exact HB.
  - exact HB.
  - destruct (next_retry b <=? tl); [|exact HB]. cbn [fst].
    assert (Hz : cur_probe b = 0) by (apply Hne; first [discriminate | rewrite E; discriminate]).
    unfold BInv. cbn [state cur_probe slots ghist]. rewrite Hz.
    split; [exact HI|]. split; [lia|]. split; [intros Hx; congruence|intros _; lia].
Qed.

(* a probe that is rolled back leaves the breaker exactly as it was *)
Lemma rollback_restores c t0 b tl t b1 ok es :
  BInv c t0 b tl -> try_pass c b t = (b1, ok, es, true) ->
  state b = Open /\ next_retry b <= t /\ state b1 = HalfOpen /\ es = [TEv Open HalfOpen None] /\
  rollback b1 = (b, [TEv HalfOpen Open (Some (SF 1%float))]).
Proof.
  intros HB. rewrite try_pass_spec. destruct (state b) eqn:E; try (intros Heq; inversion Heq; fail).
  destruct (Z.leb_spec (next_retry b) t) as [Hle|Hgt]; intros Heq; inversion Heq; subst.
  cbn. split; [reflexivity|]. split; [lia|]. split; [reflexivity|]. split; [reflexivity|].
  f_equal. destruct b; cbn in *. subst. reflexivity.
Qed.

(* ---------- OnRequestComplete ---------- *)

Lemma on_complete_unfold c t0 b tl t rt err :
  cfg_ok c -> BInv c t0 b tl -> tl <= t -> 0 < t < tmax ->
  let bad := is_bad c rt err in
  let h2 := ghist b ++ [(t, bad)] in
  exists sl2,
    Inv (gn c) (gbl c) t0 sl2 h2 t /\
    on_complete c b t rt err = decide c b t bad sl2 h2 (ref_bad c h2 t) (ref_tot c h2 t).
Proof.
  intros (Hn & Hbl & H32 & _) (HI & _) Hle Ht bad h2.
  pose proof (Inv_time _ _ Hn Hbl H32 _ _ _ _ _ HI Hle) as HI1.
  destruct (Inv_current _ _ Hn Hbl H32 _ _ _ _ HI1) as (sl1 & Hcur & HI2 & Hst).
  pose proof (Inv_add _ _ Hn Hbl _ _ _ _ bad HI2 Hst) as HI3. cbv zeta in HI3.
  eexists. split; [exact HI3|].
  unfold on_complete. destruct (Z.leb_spec t 0); [lia|]. rewrite Hcur.
  fold bad. fold h2. unfold ref_bad, ref_tot, win_lo, win_hi.
  rewrite (la_sum_bad _ _ Hn Hbl H32 _ _ _ _ HI3) by lia.
  rewrite (la_sum_tot _ _ Hn Hbl H32 _ _ _ _ HI3) by lia.
  unfold itv. f_equal; f_equal; lia.
Qed.

Ltac binv_fin := (split; [lia|]); split; intros Hx; try reflexivity; try lia; try discriminate; try congruence.

Lemma decide_inv c t0 b t bad sl2 h2 B T :
  cfg_ok c -> BInv c t0 b t -> t < tmax -> Inv (gn c) (gbl c) t0 sl2 h2 t ->
  BInv c t0 (fst (decide c b t bad sl2 h2 B T)) t.
Proof.
  intros (Hn & Hbl & H32 & Hp & _) HB Ht HI. pose proof HB as (_ & H0 & Hne & Hh). unfold decide.
  destruct (state b) eqn:E.
  - (* Closed *)
    assert (Hz : cur_probe b = 0) by (apply Hne; first [discriminate | rewrite E; discriminate]).
    destruct (T <? min_amt c); [|destruct (reached c B T)]; cbn [fst]; unfold BInv, set_slots;
      cbn [state cur_probe slots ghist]; rewrite ?E, ?Hz; (split; [exact HI|]); binv_fin.
  - (* HalfOpen *)
    assert (Hlt : cur_probe b < Z.max 1 (probe_num c)) by (apply Hh; first [reflexivity | rewrite E; reflexivity]).
    destruct bad; [|destruct ((probe_num c =? 0) || (probe_num c <=? cur_probe b + 1)) eqn:Ep]; cbn [fst];
      unfold BInv; cbn [state cur_probe slots ghist].
    + split; [exact HI|]. binv_fin.
    + split; [apply (Inv_clear _ _ Hn Hbl H32 _ _ h2); assumption|]. binv_fin.
    + split; [exact HI|]. binv_fin.
  - (* Open *)
    assert (Hz : cur_probe b = 0) by (apply Hne; first [discriminate | rewrite E; discriminate]).
    cbn [fst]; unfold BInv, set_slots; cbn [state cur_probe slots ghist]; rewrite ?E, ?Hz; (split; [exact HI|]); binv_fin.
Qed.

Lemma on_complete_inv c t0 b tl t rt err :
  cfg_ok c -> BInv c t0 b tl -> tl <= t -> 0 < t < tmax -> BInv c t0 (fst (on_complete c b t rt err)) t.
Proof.
  intros Hc HB Hle Ht. destruct (on_complete_unfold c t0 b tl t rt err Hc HB Hle Ht) as (sl2 & HI & ->).
  apply decide_inv; try assumption; try lia. eapply BInv_time; eassumption.
Qed.

(* C03_opens_iff at breaker level *)
Lemma opens_iff c t0 b tl t rt err :
  cfg_ok c -> BInv c t0 b tl -> tl <= t -> 0 < t < tmax -> state b = Closed ->
  let bad := is_bad c rt err in
  let h2 := ghist b ++ [(t, bad)] in
  let B := ref_bad c h2 t in let T := ref_tot c h2 t in
  let r := on_complete c b t rt err in
  if (min_amt c <=? T) && reached c B T
  then state (fst r) = Open /\ next_retry (fst r) = t + retry_ms c /\
       snd r = [TEv Closed Open (Some (open_snapshot c B T))] /\ ghist (fst r) = h2
  else state (fst r) = Closed /\ next_retry (fst r) = next_retry b /\ snd r = [] /\ ghist (fst r) = h2.
Proof.
  intros Hc HB Hle Ht Hs bad h2 B T r.
  destruct (on_complete_unfold c t0 b tl t rt err Hc HB Hle Ht) as (sl2 & HI & Heq).
  subst r. rewrite Heq. fold bad h2 B T. unfold decide. rewrite Hs.
  destruct (Z.ltb_spec T (min_amt c)); destruct (Z.leb_spec (min_amt c) T); try lia; cbn [andb].
  - cbn. auto.
  - destruct (reached c B T); cbn; auto.
Qed.

(* completions never change the state of an Open breaker, and only a Closed breaker takes Closed->Open *)
Lemma open_stays c t0 b tl t rt err :
  cfg_ok c -> BInv c t0 b tl -> tl <= t -> 0 < t < tmax -> state b = Open ->
  let r := on_complete c b t rt err in
  state (fst r) = Open /\ next_retry (fst r) = next_retry b /\ cur_probe (fst r) = cur_probe b /\ snd r = [].
Proof.
  intros Hc HB Hle Ht Hs r.
  destruct (on_complete_unfold c t0 b tl t rt err Hc HB Hle Ht) as (sl2 & HI & Heq).
  subst r. rewrite Heq. unfold decide. rewrite Hs. cbn. auto.
Qed.

(* C03_failed_probe_reopens / C03_probes_close at breaker level *)
Lemma half_open_complete c t0 b tl t rt err :
  cfg_ok c -> BInv c t0 b tl -> tl <= t -> 0 < t < tmax -> state b = HalfOpen ->
  let bad := is_bad c rt err in
  let r := on_complete c b t rt err in
  if bad then
    state (fst r) = Open /\ next_retry (fst r) = t + retry_ms c /\ cur_probe (fst r) = 0 /\
    snd r = [TEv HalfOpen Open (Some (probe_fail_snapshot c))]
  else if cur_probe b + 1 =? Z.max 1 (probe_num c) then
    state (fst r) = Closed /\ cur_probe (fst r) = 0 /\ ghist (fst r) = [] /\
    snd r = [TEv HalfOpen Closed None] /\
    (forall t', t <= t' < tmax -> ref_tot c (ghist (fst r)) t' = 0 /\
        la_sum stot (gn c) (gbl c) t' (slots (fst r)) = 0 /\ la_sum sbad (gn c) (gbl c) t' (slots (fst r)) = 0)
  else
    state (fst r) = HalfOpen /\ cur_probe (fst r) = cur_probe b + 1 /\ cur_probe b + 1 < Z.max 1 (probe_num c) /\
    next_retry (fst r) = next_retry b /\ snd r = [].
Proof.
  intros Hc HB Hle Ht Hs bad r.
  destruct (on_complete_unfold c t0 b tl t rt err Hc HB Hle Ht) as (sl2 & HI & Heq).
  pose proof (on_complete_inv c t0 b tl t rt err Hc HB Hle Ht) as HB'.
  destruct HB as (_ & H0 & Hne & Hh). specialize (Hh Hs).
  destruct Hc as (Hn & Hbl & H32 & Hp & Hr).
  subst r. revert HB'. rewrite Heq. fold bad. unfold decide. rewrite Hs.
  destruct bad; [cbn; auto|].
  destruct (Z.eqb_spec (cur_probe b + 1) (Z.max 1 (probe_num c))) as [He|He].
  - assert (Hcl : (probe_num c =? 0) || (probe_num c <=? cur_probe b + 1) = true).
    { destruct (Z.eqb_spec (probe_num c) 0); cbn; [reflexivity|]. apply Z.leb_le. lia. }
    rewrite Hcl. cbn [fst snd]. intros (HI' & _). cbn [slots ghist state cur_probe] in *.
    split; [reflexivity|]. split; [reflexivity|]. split; [reflexivity|]. split; [reflexivity|].
    intros t' Ht'. pose proof (Inv_time _ _ Hn Hbl H32 _ _ _ _ t' HI' ltac:(lia)) as HI''.
    split; [reflexivity|]. split.
    + rewrite (la_sum_tot _ _ Hn Hbl H32 _ _ _ _ HI'') by lia. reflexivity.
    + rewrite (la_sum_bad _ _ Hn Hbl H32 _ _ _ _ HI'') by lia. reflexivity.
  - assert (Hcl : (probe_num c =? 0) || (probe_num c <=? cur_probe b + 1) = false).
    { destruct (Z.eqb_spec (probe_num c) 0); cbn; [lia|]. apply Z.leb_gt. lia. }
    rewrite Hcl. cbn [fst snd state cur_probe next_retry]. intros _.
    split; [reflexivity|]. split; [reflexivity|]. split; [lia|]. split; reflexivity.
Qed.

(* ---------- the resource: Entry ---------- *)

Definition RBInv (cs : list cfg) (t0 : Z) (bs : list breaker) (tl : Z) : Prop :=
  Forall2 (fun c b => BInv c t0 b tl) cs bs.

Lemma RBInv_time cs t0 bs tl tl' : Forall cfg_ok cs -> RBInv cs t0 bs tl -> tl <= tl' -> RBInv cs t0 bs tl'.
Proof.
  intros Hc H Hle. induction H as [|c b cs bs Hb _ IH]; constructor.
  - inversion Hc; subst. eapply BInv_time; eassumption.
  - apply IH. inversion Hc; assumption.
Qed.

(* the first breaker that does not let the request pass *)
Fixpoint first_refusing (i : Z) (t : Z) (cs : list cfg) (bs : list breaker) : option Z :=
  match cs, bs with
  | c :: cs', b :: bs' => if passes c b t then first_refusing (i + 1) t cs' bs' else Some i
  | _, _ => None
  end.

Lemma enter_all_result i t lb cs bs :
  snd (fst (fst (enter_all i t lb cs bs))) = first_refusing i t cs bs.
Proof.
  revert i bs; induction cs as [|c cs IH]; intros i [|b bs]; cbn [enter_all first_refusing]; try reflexivity.
  pose proof (try_pass_passes c b t) as Hp.
  destruct (try_pass c b t) as [[[b1 ok] es] hooked]. cbn in Hp. subst ok.
  destruct (passes c b t); [|reflexivity].
  specialize (IH (i + 1) bs).
  destruct (enter_all (i + 1) t lb cs bs) as [[[bs1 r] es'] hs']. cbn in IH. subst r.
  destruct (hooked && match first_refusing (i + 1) t cs bs with Some _ => true | None => lb end);
    [destruct (rollback b1)|]; reflexivity.
Qed.

Lemma enter_all_inv i t lb cs t0 bs :
  RBInv cs t0 bs t -> RBInv cs t0 (fst (fst (fst (enter_all i t lb cs bs)))) t.
Proof.
  intros H. revert i. induction H as [|c b cs bs Hb Hr IH]; intros i; cbn [enter_all]; [constructor|].
  pose proof (try_pass_inv c t0 b t Hb) as Hb1.
  destruct (try_pass c b t) as [[[b1 ok] es] hooked] eqn:Etp. cbn in Hb1.
  destruct ok; [|constructor; assumption].
  specialize (IH (i + 1)).
  destruct (enter_all (i + 1) t lb cs bs) as [[[bs1 r] es'] hs']. cbn in IH.
  destruct hooked.
  - destruct (rollback_restores c t0 b t t b1 true es Hb Etp) as (_ & _ & _ & _ & Hrb).
    destruct (match r with Some _ => true | None => lb end); cbn [andb].
    + rewrite Hrb. constructor; assumption.
    + constructor; assumption.
  - cbn [andb]. constructor; assumption.
Qed.

(* C03_rollback: a blocked entry leaves every breaker exactly as it was *)
Lemma enter_all_blocked_unchanged i t lb cs t0 bs :
  RBInv cs t0 bs t ->
  (match first_refusing i t cs bs with Some _ => true | None => lb end) = true ->
  fst (fst (fst (enter_all i t lb cs bs))) = bs.
Proof.
  intros H. revert i. induction H as [|c b cs bs Hb Hr IH]; intros i Hblk; cbn [enter_all]; [reflexivity|].
  cbn [first_refusing] in Hblk.
  pose proof (try_pass_passes c b t) as Hp.
  destruct (try_pass c b t) as [[[b1 ok] es] hooked] eqn:Etp. cbn in Hp. subst ok.
  destruct (passes c b t) eqn:Ep.
  - specialize (IH (i + 1) Hblk). pose proof (enter_all_result (i + 1) t lb cs bs) as Hres.
    destruct (enter_all (i + 1) t lb cs bs) as [[[bs1 r] es'] hs']. cbn in IH, Hres. subst r bs1.
    rewrite Hblk. destruct hooked; cbn [andb].
    + destruct (rollback_restores c t0 b t t b1 true es Hb Etp) as (_ & _ & _ & _ & Hrb). rewrite Hrb. reflexivity.
    + (* no hook: TryPass did not change the breaker *)
      rewrite try_pass_spec in Etp. destruct (state b); try (inversion Etp; reflexivity).
      destruct (next_retry b <=? t); inversion Etp; try reflexivity.
  - (* refused here: unchanged *)
    rewrite try_pass_spec in Etp. unfold passes in Ep. destruct (state b); try discriminate.
    + inversion Etp. reflexivity.
    + rewrite Ep in Etp. inversion Etp. reflexivity.
Qed.

(* an admitted entry: every breaker passes; the ones that were Open with the timeout elapsed are
   now HalfOpen, all others unchanged *)
Definition admit_one (b : breaker) : breaker :=
  match state b with
  | Open => {| state := HalfOpen; next_retry := next_retry b; cur_probe := cur_probe b; slots := slots b; ghist := ghist b |}
  | _ => b
  end.

Lemma enter_all_admitted i t cs bs :
  first_refusing i t cs bs = None -> length cs = length bs ->
  fst (fst (fst (enter_all i t false cs bs))) = map admit_one bs.
Proof.
  revert i bs; induction cs as [|c cs IH]; intros i [|b bs] Hf Hl; cbn [enter_all map]; try reflexivity; try discriminate.
  cbn [first_refusing] in Hf. cbn in Hl.
  pose proof (try_pass_passes c b t) as Hp.
  destruct (try_pass c b t) as [[[b1 ok] es] hooked] eqn:Etp. cbn in Hp. subst ok.
  destruct (passes c b t) eqn:Ep; [|discriminate].
  specialize (IH (i + 1) bs Hf ltac:(lia)). pose proof (enter_all_result (i + 1) t false cs bs) as Hres.
  destruct (enter_all (i + 1) t false cs bs) as [[[bs1 r] es'] hs']. cbn in IH, Hres. subst r bs1.
  rewrite Hf. rewrite andb_false_r. cbn. f_equal.
  rewrite try_pass_spec in Etp. unfold passes in Ep. unfold admit_one. destruct (state b).
  - inversion Etp; reflexivity.
  - inversion Etp; reflexivity.
  - rewrite Ep in Etp. inversion Etp; reflexivity.
Qed.

(* ---------- the resource: completion ---------- *)

Lemma complete_all_inv i t rt err cs t0 bs tl :
  Forall cfg_ok cs -> RBInv cs t0 bs tl -> tl <= t -> 0 < t < tmax ->
  RBInv cs t0 (fst (complete_all i t rt err cs bs)) t.
Proof.
  intros Hc H Hle Ht. revert i. induction H as [|c b cs bs Hb Hr IH]; intros i; cbn [complete_all]; [constructor|].
  inversion Hc; subst.
  pose proof (on_complete_inv c t0 b tl t rt err H1 Hb Hle Ht) as Hb1.
  destruct (on_complete c b t rt err) as [b1 es]. specialize (IH H2 (i + 1)).
  destruct (complete_all (i + 1) t rt err cs bs) as [bs1 es']. cbn in *. constructor; assumption.
Qed.

(* every breaker of the resource processes the completion with on_complete *)
Lemma complete_all_nth i t rt err cs bs k c b :
  nth_error cs k = Some c -> nth_error bs k = Some b ->
  nth_error (fst (complete_all i t rt err cs bs)) k = Some (fst (on_complete c b t rt err)).
Proof.
  revert i bs k; induction cs as [|c0 cs IH]; intros i [|b0 bs] [|k] Hc Hb; cbn in Hc, Hb; try discriminate; cbn [complete_all].
  - inversion Hc; inversion Hb; subst. destruct (on_complete c b t rt err) as [b1 es].
    destruct (complete_all (i + 1) t rt err cs bs) as [bs1 es']. reflexivity.
  - specialize (IH (i + 1) bs k Hc Hb). destruct (on_complete c0 b0 t rt err) as [b1 es].
    destruct (complete_all (i + 1) t rt err cs bs) as [bs1 es']. exact IH.
Qed.
