From SG Require Import Base.Prelude Model.AdmitConc.

Section KBound.
Variable limit k bmax : Z.
Variable amt : Z -> Z.
Hypothesis Hk : 1 <= k.
Hypothesis Hlimit : 0 <= limit.
Hypothesis Hbmax : 0 <= bmax.
(* what a request adds is at most its batch, and at most bmax *)
Hypothesis Hamt : forall b, 0 <= b -> 0 <= amt b <= b /\ amt b <= bmax.

(* schedules: releases are non-negative; at most k requests are ever inside the path *)
Definition ev_ok (e : ev) : Prop := match e with Release a => 0 <= a | Check _ b => 0 <= b | Record _ => True end.

Definition pend_ok (s : cstate) : Prop :=
  Z.of_nat (length (pending s)) <= k /\ Forall (fun p => 0 <= snd p <= bmax) (pending s).

Definition KInv (s : cstate) : Prop :=
  count s + pending_sum s <= limit + (k - 1) * bmax.

Lemma sum_le_len (l : list (Z * Z)) :
  Forall (fun p => 0 <= snd p <= bmax) l -> sumZ (map snd l) <= Z.of_nat (length l) * bmax.
Proof.
  induction 1 as [|x r Hx _ IH]; cbn [map sumZ fold_right length]; [lia|].
  unfold sumZ in *. lia.
Qed.

Lemma premove_sum tid l a :
  alookup tid l = Some a -> sumZ (map snd (premove tid l)) = sumZ (map snd l) - a.
Proof.
  induction l as [|[k' v'] r IH]; cbn [alookup premove]; [discriminate|].
  destruct (tid =? k') eqn:E; intros H.
  - inversion H; subst. cbn [map snd sumZ fold_right]. unfold sumZ. lia.
  - cbn [map snd sumZ fold_right]. specialize (IH H). unfold sumZ in *. lia.
Qed.

Lemma premove_forall (P : Z * Z -> Prop) tid l : Forall P l -> Forall P (premove tid l).
Proof.
  induction 1 as [|[k' v'] r Hx Hr IH]; cbn [premove]; [constructor|].
  destruct (tid =? k'); [exact Hr|constructor; assumption].
Qed.

Lemma premove_len tid l : (length (premove tid l) <= length l)%nat.
Proof.
  induction l as [|[k' v'] r IH]; cbn [premove length]; [lia|].
  destruct (tid =? k'); cbn [length]; lia.
Qed.

(* the shape of the pending set is preserved as long as the schedule keeps it <= k *)
Lemma cstep_pend_amounts s e :
  ev_ok e ->
  Forall (fun p => 0 <= snd p <= bmax) (pending s) ->
  Forall (fun p => 0 <= snd p <= bmax) (pending (cstep limit amt s e)).
Proof.
  intros He H. destruct e as [tid b|tid|a]; cbn [cstep].
  - destruct (count s + b <=? limit); cbn [pending]; [|assumption].
    constructor; [cbn; pose proof (Hamt b He); lia|assumption].
  - destruct (alookup tid (pending s)); cbn [pending]; [|assumption]. apply premove_forall; assumption.
  - cbn [pending]. assumption.
Qed.

Lemma cstep_kinv s e :
  ev_ok e -> pend_ok s -> pend_ok (cstep limit amt s e) -> KInv s -> KInv (cstep limit amt s e).
Proof.
  unfold KInv, pend_ok, pending_sum. intros He (Hl & Ha) (Hl' & Ha') HI.
  destruct e as [tid b|tid|a]; cbn [cstep] in *.
  - destruct (count s + b <=? limit) eqn:E; cbn [count pending map snd sumZ fold_right] in *; [|assumption].
    pose proof (sum_le_len _ Ha) as Hs. pose proof (Hamt b He) as Hb. cbn [length] in Hl'.
    unfold sumZ in *. nia.
  - destruct (alookup tid (pending s)) as [a|] eqn:E; cbn [count pending]; [|assumption].
    rewrite (premove_sum _ _ _ E). lia.
  - cbn [count pending]. cbn in He. lia.
Qed.

(* every state along a schedule *)
Lemma ctrace_kinv sched : forall s,
  Forall ev_ok sched ->
  Forall pend_ok (ctrace limit amt sched s) ->
  KInv s -> Forall KInv (ctrace limit amt sched s).
Proof.
  induction sched as [|e r IH]; intros s Hev Hp HI; cbn [ctrace] in *.
  - constructor; [assumption|constructor].
  - inversion Hev; subst. inversion Hp; subst. constructor; [assumption|].
    apply IH; auto. apply cstep_kinv; auto.
    destruct r; cbn [ctrace] in *; match goal with H : Forall pend_ok (_ :: _) |- _ => inversion H; assumption end.
Qed.

Lemma pending_sum_nonneg s : Forall (fun p => 0 <= snd p <= bmax) (pending s) -> 0 <= pending_sum s.
Proof.
  unfold pending_sum. induction 1 as [|x r Hx _ IH]; cbn [map sumZ fold_right]; [lia|]. unfold sumZ in *. lia.
Qed.

Theorem k_bound sched :
  Forall ev_ok sched ->
  Forall pend_ok (ctrace limit amt sched cinit) ->
  Forall (fun s => count s <= limit + (k - 1) * bmax) (ctrace limit amt sched cinit).
Proof.
  intros Hev Hp.
  assert (HI : KInv cinit) by (unfold KInv, cinit, pending_sum; cbn; nia).
  pose proof (ctrace_kinv sched cinit Hev Hp HI) as H.
  rewrite Forall_forall in *. intros s Hs. specialize (H s Hs). specialize (Hp s Hs).
  destruct Hp as (_ & Ha). pose proof (pending_sum_nonneg s Ha). unfold KInv in H. cbn beta. lia.
Qed.

End KBound.
