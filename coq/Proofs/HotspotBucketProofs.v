(* The token bucket of one value (Model/Hotspot.v, [bucket_step]: reject mode in exact integer
   arithmetic) and the pacing cell of one value ([pace_step]: throttling mode): envelope,
   window bound, idle grant, spacing, wait bound.  Pure arithmetic; no caches here. *)
From SG Require Import Base.Prelude Model.Hotspot.
#[local] Open Scope Z_scope.

Section Bucket.
Variables T B D : Z.
Hypothesis HT : 0 < T.
Hypothesis HB : 0 <= B.
Hypothesis HD : 0 < D.
Let M := T + B.

(* arrival times are non-decreasing from t on, batches are non-negative *)
Fixpoint times_ok (t : Z) (calls : list (Z * Z)) : Prop :=
  match calls with
  | [] => True
  | (now, b) :: r => t <= now /\ 0 <= b /\ times_ok now r
  end.

Fixpoint last_time (t : Z) (calls : list (Z * Z)) : Z :=
  match calls with
  | [] => t
  | (now, _) :: r => last_time now r
  end.

Lemma last_time_ge t calls : times_ok t calls -> t <= last_time t calls.
Proof.
  revert t. induction calls as [|[now b] r IH]; intros t H; cbn in *; [lia|].
  destruct H as [H1 [_ H2]]. specialize (IH now H2). lia.
Qed.

Definition bucket_range (c : bucket) : Prop :=
  match c with None => True | Some (_, tok) => 0 <= tok <= M end.

(* potential: tokens admitted so far (A) plus tokens left never exceed the full bucket plus
   what the elapsed time since t0 has earned *)
Definition Binv (t0 A : Z) (c : bucket) : Prop :=
  match c with
  | None => A = 0
  | Some (last, tok) => 0 <= tok <= M /\ t0 <= last /\ D * (A + tok - M) <= T * (last - t0)
  end.

Definition upto (t : Z) (c : bucket) : Prop :=
  match c with None => True | Some (last, _) => last <= t end.

Lemma div_mul_le_D x : 0 <= x -> D * (x / D) <= x.
Proof. intros Hx. apply Z.mul_div_le. exact HD. Qed.

Lemma bucket_step_inv t0 A c t now b :
  Binv t0 A c -> upto t c -> t0 <= t -> t <= now -> 0 <= b ->
  let '(c', a) := bucket_step T B D c now b in
  Binv t0 (A + (if a then b else 0)) c' /\ upto now c'.
Proof.
  intros Hinv Hup Ht0 Hnow Hb. unfold bucket_step.
  destruct (T <=? 0) eqn:ET; [lia|]. fold M.
  destruct (M <? b) eqn:EM.
  { rewrite Z.add_0_r. split; [exact Hinv|]. destruct c as [[last tok]|]; cbn in *; lia. }
  destruct c as [[last tok]|]; cbn [Binv upto] in *.
  - destruct Hinv as [Htok [Hl Hpot]].
    destruct (D <? now - last) eqn:EP.
    + set (toAdd := (now - last) * T / D).
      assert (Hta : 0 <= toAdd) by (apply Z.div_pos; nia).
      assert (Hmul : D * toAdd <= (now - last) * T) by (apply div_mul_le_D; nia).
      destruct (M <? toAdd + tok) eqn:EC.
      * destruct (M - b <? 0) eqn:EN; cbn [Binv upto].
        -- rewrite Z.add_0_r. repeat split; lia.
        -- repeat split; try lia; try nia.
      * destruct (toAdd + tok - b <? 0) eqn:EN; cbn [Binv upto].
        -- rewrite Z.add_0_r. repeat split; lia.
        -- repeat split; try lia; try nia.
    + destruct (0 <=? tok - b) eqn:EN; cbn [Binv upto].
      * repeat split; try lia; try nia.
      * rewrite Z.add_0_r. repeat split; lia.
  - subst A. cbn [Binv upto]. repeat split; try lia; try nia.
Qed.

Lemma bucket_run_inv calls : forall t0 A c t,
  Binv t0 A c -> upto t c -> t0 <= t -> times_ok t calls ->
  let '(c', adm) := bucket_run T B D c calls in
  Binv t0 (A + admitted_tokens calls adm) c' /\ upto (last_time t calls) c'.
Proof.
  induction calls as [|[now b] r IH]; intros t0 A c t Hinv Hup Ht0 Hok.
  - cbn. rewrite Z.add_0_r. auto.
  - cbn [times_ok] in Hok. destruct Hok as [Hnow [Hb Hr]].
    pose proof (bucket_step_inv t0 A c t now b Hinv Hup Ht0 Hnow Hb) as Hs.
    cbn [bucket_run last_time]. destruct (bucket_step T B D c now b) as [c1 a].
    destruct Hs as [Hi1 Hu1].
    assert (Ht1 : t0 <= now) by lia.
    specialize (IH t0 _ c1 now Hi1 Hu1 Ht1 Hr).
    destruct (bucket_run T B D c1 r) as [c2 l]. cbn [admitted_tokens].
    destruct IH as [IH1 IH2]. split; [|exact IH2].
    replace (A + ((if a then b else 0) + admitted_tokens r l))
      with (A + (if a then b else 0) + admitted_tokens r l) by lia. exact IH1.
Qed.

(* tokens left are never negative and never exceed threshold + burst *)
Lemma bucket_run_range calls t0 :
  times_ok t0 calls -> bucket_range (fst (bucket_run T B D None calls)).
Proof.
  intros Hok.
  pose proof (bucket_run_inv calls t0 0 None t0 eq_refl I (Z.le_refl _) Hok) as H.
  destruct (bucket_run T B D None calls) as [c adm]. destruct H as [H _].
  destruct c as [[last tok]|]; cbn in *; [tauto|exact I].
Qed.

(* envelope: admitted <= (threshold + burst) + threshold * elapsed / duration, elapsed counted
   from the first time the value was seen; stated without division *)
Theorem bucket_envelope_total t0 calls :
  times_ok t0 calls ->
  let adm := snd (bucket_run T B D None calls) in
  D * (admitted_tokens calls adm - (T + B)) <= T * (last_time t0 calls - t0).
Proof.
  intros Hok adm. subst adm.
  pose proof (bucket_run_inv calls t0 0 None t0 eq_refl I (Z.le_refl _) Hok) as H.
  pose proof (last_time_ge t0 calls Hok) as Hge.
  destruct (bucket_run T B D None calls) as [c adm]. cbn [snd]. destruct H as [Hi Hu].
  rewrite Z.add_0_l in Hi. fold M.
  destruct c as [[last tok]|]; cbn [Binv upto] in *.
  - destruct Hi as [Htok [Hl Hpot]]. nia.
  - rewrite Hi. nia.
Qed.

(* ---- at most 2 * (threshold + burst) inside any interval of one duration ------------- *)

Variables lo hi : Z.
Hypothesis Hwin : hi - lo <= D.

Definition Winv (t W : Z) (c : bucket) : Prop :=
  0 <= W <= 2 * M /\ (t < lo -> W = 0) /\
  match c with
  | None => W = 0
  | Some (last, tok) =>
      0 <= tok <= M /\ last <= t /\
      (t <= hi -> (last < lo -> W + tok <= M) /\ (lo <= last -> W + tok <= 2 * M))
  end.

Lemma bucket_step_win t W c now b :
  Winv t W c -> t <= now -> 0 <= b ->
  let '(c', a) := bucket_step T B D c now b in
  Winv now (W + (if a && (lo <=? now) && (now <=? hi) then b else 0)) c'.
Proof.
  intros [HW [Hlo Hc]] Hnow Hb. unfold bucket_step.
  destruct (T <=? 0) eqn:ET; [lia|]. fold M.
  assert (HM : 0 < M) by (unfold M; lia).
  destruct (M <? b) eqn:EM.
  { cbn [andb]. rewrite Z.add_0_r. unfold Winv. split; [exact HW|]. split; [intros H; apply Hlo; lia|].
    destruct c as [[last tok]|]; [|exact Hc].
    destruct Hc as [H1 [H2 H3]]. split; [exact H1|]. split; [lia|]. intros H. apply H3. lia. }
  destruct c as [[last tok]|].
  - destruct Hc as [Htok [Hup Href]].
    (* a helper for the three "state unchanged" exits *)
    assert (Hsame : Winv now (W + 0) (Some (last, tok))).
    { rewrite Z.add_0_r. unfold Winv. split; [exact HW|]. split; [intros H; apply Hlo; lia|].
      split; [exact Htok|]. split; [lia|]. intros H. apply Href. lia. }
    destruct (D <? now - last) eqn:EP.
    + set (toAdd := (now - last) * T / D).
      assert (Hta : 0 <= toAdd) by (apply Z.div_pos; nia).
      set (newq := if M <? toAdd + tok then M - b else toAdd + tok - b).
      assert (Hnq : newq + b <= M) by (subst newq; destruct (M <? toAdd + tok) eqn:EC; lia).
      destruct (newq <? 0) eqn:EN; [exact Hsame|].
      cbn [andb]. destruct ((lo <=? now) && (now <=? hi)) eqn:EW.
      * (* a refill inside the window: the previous refill was before the window *)
        assert (Hin : lo <= now <= hi) by lia.
        assert (Hl : last < lo) by lia.
        destruct (Href ltac:(lia)) as [Ha _]. specialize (Ha Hl).
        unfold Winv. repeat split; try lia.
      * rewrite Z.add_0_r. unfold Winv. split; [exact HW|]. split; [intros H; apply Hlo; lia|].
        split; [lia|]. split; [lia|]. intros H.
        assert (Hbefore : now < lo) by lia. rewrite (Hlo ltac:(lia)). split; lia.
    + destruct (0 <=? tok - b) eqn:EN; [|exact Hsame].
      cbn [andb]. destruct ((lo <=? now) && (now <=? hi)) eqn:EW.
      * assert (Hin : lo <= now <= hi) by lia. destruct (Href ltac:(lia)) as [Ha Hb2].
        unfold Winv. split.
        { destruct (Z.lt_ge_cases last lo) as [H|H]; [specialize (Ha H)|specialize (Hb2 H)]; lia. }
        split; [lia|]. split; [lia|]. split; [lia|]. intros _. split; intros H.
        -- specialize (Ha H). lia.
        -- specialize (Hb2 H). lia.
      * rewrite Z.add_0_r. unfold Winv. split; [exact HW|]. split; [intros H; apply Hlo; lia|].
        split; [lia|]. split; [lia|]. intros H. destruct (Href ltac:(lia)) as [Ha Hb2]. split; intros H2.
        -- specialize (Ha H2). lia.
        -- specialize (Hb2 H2). lia.
  - (* first sight: nothing has been admitted so far *)
    subst W. cbn [andb]. unfold Winv.
    destruct ((lo <=? now) && (now <=? hi)) eqn:EW.
    + repeat split; try lia.
    + repeat split; try lia.
Qed.

Lemma bucket_run_win calls : forall t W c,
  Winv t W c -> times_ok t calls ->
  let '(c', adm) := bucket_run T B D c calls in
  Winv (last_time t calls) (W + admitted_in lo hi calls adm) c'.
Proof.
  induction calls as [|[now b] r IH]; intros t W c Hinv Hok.
  - cbn. rewrite Z.add_0_r. exact Hinv.
  - cbn [times_ok] in Hok. destruct Hok as [Hnow [Hb Hr]].
    pose proof (bucket_step_win t W c now b Hinv Hnow Hb) as Hs.
    cbn [bucket_run last_time]. destruct (bucket_step T B D c now b) as [c1 a].
    specialize (IH now _ c1 Hs Hr).
    destruct (bucket_run T B D c1 r) as [c2 l]. cbn [admitted_in].
    replace (W + ((if a && (lo <=? now) && (now <=? hi) then b else 0) + admitted_in lo hi r l))
      with (W + (if a && (lo <=? now) && (now <=? hi) then b else 0) + admitted_in lo hi r l) by lia.
    exact IH.
Qed.

Theorem bucket_envelope_window t0 calls :
  times_ok t0 calls ->
  admitted_in lo hi calls (snd (bucket_run T B D None calls)) <= 2 * (T + B).
Proof.
  intros Hok.
  assert (H0 : Winv t0 0 None).
  { unfold Winv. assert (0 < M) by (unfold M; lia). repeat split; lia. }
  pose proof (bucket_run_win calls t0 0 None H0 Hok) as H.
  destruct (bucket_run T B D None calls) as [c adm]. cbn [snd].
  destruct H as [[_ H] _]. fold M. lia.
Qed.

End Bucket.

(* ---- idle grant ---------------------------------------------------------------------- *)

(* the bucket was last refilled more than one duration ago: a batch up to the threshold passes *)
Lemma bucket_idle_grant_step T B D last tok now b :
  0 < T -> 0 <= B -> 0 < D -> 0 <= tok -> D < now - last -> 0 <= b <= T ->
  snd (bucket_step T B D (Some (last, tok)) now b) = true.
Proof.
  intros HT HB HD Htok Hidle Hb. unfold bucket_step.
  destruct (T <=? 0) eqn:ET; [lia|]. destruct (T + B <? b) eqn:EM; [lia|].
  destruct (D <? now - last) eqn:EP; [|lia].
  assert (Hta : T <= (now - last) * T / D) by (apply Z.div_le_lower_bound; nia).
  set (toAdd := (now - last) * T / D) in *.
  destruct (T + B <? toAdd + tok) eqn:EC.
  - destruct (T + B - b <? 0) eqn:EN; [lia|reflexivity].
  - destruct (toAdd + tok - b <? 0) eqn:EN; [lia|reflexivity].
Qed.

(* a value never seen before is granted any batch up to threshold + burst *)
Lemma bucket_first_grant T B D now b :
  0 < T -> 0 <= b <= T + B -> snd (bucket_step T B D None now b) = true.
Proof.
  intros HT Hb. unfold bucket_step.
  destruct (T <=? 0) eqn:ET; [lia|]. destruct (T + B <? b) eqn:EM; [lia|reflexivity].
Qed.

(* history form: after any history of the value, a request arriving more than one duration
   after the previous request (whatever its outcome) with a batch up to the threshold passes *)
Theorem bucket_idle_grant T B D t0 calls now b :
  0 < T -> 0 <= B -> 0 < D -> times_ok t0 calls ->
  D < now - last_time t0 calls -> 0 <= b <= T ->
  snd (bucket_step T B D (fst (bucket_run T B D None calls)) now b) = true.
Proof.
  intros HT HB HD Hok Hidle Hb.
  pose proof (bucket_run_inv T B D HT HB HD calls t0 0 None t0 eq_refl I (Z.le_refl _) Hok) as H.
  destruct (bucket_run T B D None calls) as [c adm]. cbn [fst]. destruct H as [Hi Hu].
  destruct c as [[last tok]|].
  - cbn in Hi, Hu. apply bucket_idle_grant_step; lia.
  - apply bucket_first_grant; lia.
Qed.

(* ---- throttling mode: the pacing cell of one value ------------------------------------- *)

(* an admitted request is scheduled at now + wait; consecutive scheduled times are at least the
   spacing apart; a positive wait is below the maximum queueing time; a request that arrives
   when the spacing has already elapsed is admitted without wait *)
Lemma pace_step_spec Q c now I :
  match pace_step Q c now I with
  | (c', Some w) =>
      0 <= w /\ c' = Some (now + w) /\ (0 < w -> w < Q) /\
      match c with Some last => last + I <= now + w | None => w = 0 end
  | (c', None) => c' = c /\ exists last, c = Some last /\ now < last + I /\ Q <= last + I - now
  end.
Proof.
  unfold pace_step. destruct c as [last|].
  - destruct ((last + I <=? now) || (last + I - now <? Q)) eqn:E.
    + destruct (0 <? last + I - now) eqn:E2.
      * repeat split; try lia. f_equal. lia.
      * repeat split; try lia. f_equal. lia.
    + split; [reflexivity|]. exists last. repeat split; lia.
  - repeat split; try lia. f_equal. lia.
Qed.

Lemma pace_step_admit Q last now I : last + I <= now -> pace_step Q (Some last) now I = (Some now, Some 0).
Proof.
  intros H. unfold pace_step. destruct ((last + I <=? now) || (last + I - now <? Q)) eqn:E; [|lia].
  destruct (0 <? last + I - now) eqn:E2; [lia|reflexivity].
Qed.

(* histories of one value: (arrival ms, spacing computed for this request) *)
Fixpoint pace_run (Q : Z) (c : option Z) (calls : list (Z * Z)) : option Z * list (option Z) :=
  match calls with
  | [] => (c, [])
  | (now, iv) :: r =>
      let '(c1, w) := pace_step Q c now iv in
      let '(c2, l) := pace_run Q c1 r in (c2, w :: l)
  end.

(* scheduled pass times of the admitted requests, each with the spacing it was admitted under *)
Fixpoint schedule (calls : list (Z * Z)) (ws : list (option Z)) : list (Z * Z) :=
  match calls, ws with
  | (now, iv) :: r, Some w :: l => (now + w, iv) :: schedule r l
  | _ :: r, None :: l => schedule r l
  | _, _ => []
  end.

(* every scheduled time is at least its spacing after the previous scheduled time *)
Fixpoint spaced (prev : option Z) (s : list (Z * Z)) : Prop :=
  match s with
  | [] => True
  | (t, iv) :: r => match prev with Some p => p + iv <= t | None => True end /\ spaced (Some t) r
  end.

Theorem pace_run_spaced Q calls : forall c,
  spaced c (schedule calls (snd (pace_run Q c calls))).
Proof.
  induction calls as [|[now iv] r IH]; intros c; [exact I|].
  cbn [pace_run]. pose proof (pace_step_spec Q c now iv) as Hs.
  destruct (pace_step Q c now iv) as [c1 [w|]].
  - destruct Hs as [_ [-> [_ Hsp]]]. specialize (IH (Some (now + w))).
    destruct (pace_run Q (Some (now + w)) r) as [c2 l]. cbn [snd schedule spaced] in *.
    split; [|exact IH]. destruct c as [last|]; [lia|exact I].
  - destruct Hs as [-> _]. specialize (IH c).
    destruct (pace_run Q c r) as [c2 l]. cbn [snd schedule] in *. exact IH.
Qed.

Theorem pace_run_wait Q calls : forall c,
  Forall (fun w => match w with Some w => 0 <= w /\ (0 < w -> w < Q) | None => True end)
         (snd (pace_run Q c calls)).
Proof.
  induction calls as [|[now iv] r IH]; intros c; [constructor|].
  cbn [pace_run]. pose proof (pace_step_spec Q c now iv) as Hs.
  destruct (pace_step Q c now iv) as [c1 w]. specialize (IH c1).
  destruct (pace_run Q c1 r) as [c2 l]. cbn [snd] in *. constructor; [|exact IH].
  destruct w as [w|]; [|exact I]. tauto.
Qed.
