(* C17, part 3: the writer refines the item-level ghost state of Model/MetricLogSpec.v.
   Invariant: the directory is sorted by name, its last file is the current one, every file is
   the rendering (lines + one idx entry per group) of its ghost group list, group seconds
   increase strictly inside a file and weakly across files. *)
From SG Require Import Base.Prelude Base.GoInt Model.MLBytes Model.MLDecimal Model.MetricLog
  Model.MetricLogSpec Proofs.MLBytesProofs Proofs.MetricLogLineProofs Proofs.MetricLogBoundProofs.

(* ---------------------------------------------------------------- lists *)

Lemma upd_last_snoc {A} (f : A -> A) l x : upd_last f (l ++ [x]) = l ++ [f x].
Proof.
  induction l as [|y r IH]; [reflexivity|]. cbn [app upd_last].
  destruct (r ++ [x]) eqn:E; [destruct r; discriminate|]. rewrite IH. reflexivity.
Qed.

Lemma lenZ_app {A} (a b : list A) : lenZ (a ++ b) = lenZ a + lenZ b.
Proof. unfold lenZ. rewrite app_length. lia. Qed.

Lemma lenZ_nonneg {A} (a : list A) : 0 <= lenZ a.
Proof. unfold lenZ. lia. Qed.

Lemma Forall_skipn {A} (P : A -> Prop) n l : Forall P l -> Forall P (skipn n l).
Proof.
  revert l; induction n as [|n IH]; intros l H; [exact H|]. destruct l as [|x r]; [constructor|].
  cbn [skipn]. apply IH. inversion H; assumption.
Qed.

Lemma Forall2_skipn {A B} (R : A -> B -> Prop) n l l' : Forall2 R l l' -> Forall2 R (skipn n l) (skipn n l').
Proof.
  revert l l'; induction n as [|n IH]; intros l l' H; [exact H|]. destruct H; [constructor|].
  cbn [skipn]. apply IH. assumption.
Qed.

Lemma Forall2_lenZ {A B} (R : A -> B -> Prop) l l' : Forall2 R l l' -> lenZ l = lenZ l'.
Proof. intros H. unfold lenZ. induction H; cbn [length]; lia. Qed.

Lemma Forall2_snoc_inv {A B} (R : A -> B -> Prop) l x l' y :
  Forall2 R (l ++ [x]) (l' ++ [y]) -> Forall2 R l l' /\ R x y.
Proof.
  intros H. apply Forall2_app_inv_r in H. destruct H as (l1 & l2 & H1 & H2 & E).
  inversion H2 as [|a b ra rb Hab Hr]; subst. inversion Hr; subst.
  apply app_inj_tail in E. destruct E; subst. split; assumption.
Qed.

Lemma Forall2_snoc {A B} (R : A -> B -> Prop) l x l' y :
  Forall2 R l l' -> R x y -> Forall2 R (l ++ [x]) (l' ++ [y]).
Proof. intros H1 H2. apply Forall2_app; [exact H1|]. constructor; [exact H2|constructor]. Qed.

(* a Forall2 against a list with a last element splits the other list the same way *)
Lemma Forall2_snoc_r {A B} (R : A -> B -> Prop) l l' y :
  Forall2 R l (l' ++ [y]) -> exists l0 x, l = l0 ++ [x] /\ Forall2 R l0 l' /\ R x y.
Proof.
  intros H. apply Forall2_app_inv_r in H. destruct H as (l1 & l2 & H1 & H2 & E).
  inversion H2 as [|a b ra rb Hab Hr]; subst. inversion Hr; subst. eauto.
Qed.

Lemma Forall2_snoc_l {A B} (R : A -> B -> Prop) l x l' :
  Forall2 R (l ++ [x]) l' -> exists l0 y, l' = l0 ++ [y] /\ Forall2 R l l0 /\ R x y.
Proof.
  intros H. apply Forall2_app_inv_l in H. destruct H as (l1 & l2 & H1 & H2 & E).
  inversion H2 as [|a b ra rb Hab Hr]; subst. inversion Hr; subst. eauto.
Qed.

(* ---------------------------------------------------------------- rendering of a ghost file *)

Fixpoint entries (gs : list group) (pos : Z) : list (Z * Z) :=
  match gs with
  | [] => []
  | g :: r => (fst g, pos) :: entries r (pos + lenZ (enc_lines (snd g)))
  end.

Definition enc_entries (es : list (Z * Z)) : bytes := flat_map (fun e => be64 (fst e) ++ be64 (snd e)) es.

Definition frep (f : file) (gs : list group) : Prop :=
  f_data f = enc_lines (gitems gs) /\ f_idx f = enc_entries (entries gs 0).

Lemma gitems_app a b : gitems (a ++ b) = gitems a ++ gitems b.
Proof. apply flat_map_app. Qed.

Lemma entries_app a b p : entries (a ++ b) p = entries a p ++ entries b (p + lenZ (enc_lines (gitems a))).
Proof.
  revert p; induction a as [|g r IH]; intros p; cbn [app entries gitems flat_map].
  - cbn. rewrite Z.add_0_r. reflexivity.
  - rewrite IH. fold (gitems r). rewrite enc_lines_app, lenZ_app, Z.add_assoc. reflexivity.
Qed.

Lemma enc_entries_app a b : enc_entries (a ++ b) = enc_entries a ++ enc_entries b.
Proof. apply flat_map_app. Qed.

Lemma entries_length gs p : length (entries gs p) = length gs.
Proof. revert p; induction gs as [|g r IH]; intros p; cbn [entries length]; [reflexivity|]. rewrite IH. reflexivity. Qed.

Lemma entries_fst gs p : map fst (entries gs p) = map fst gs.
Proof. revert p; induction gs as [|g r IH]; intros p; cbn [entries map fst]; [reflexivity|]. rewrite IH. reflexivity. Qed.

(* ---------------------------------------------------------------- file names *)

Definition name_lt (a b : file) : Prop := file_ltb a b = true.

Fixpoint names_sorted (l : list file) : Prop :=
  match l with
  | [] => True
  | f :: r => Forall (name_lt f) r /\ names_sorted r
  end.

Lemma name_lt_trans a b d : name_lt a b -> name_lt b d -> name_lt a d.
Proof. unfold name_lt, file_ltb. lia. Qed.

Lemma name_lt_asym a b : name_lt a b -> file_ltb b a = false.
Proof. unfold name_lt, file_ltb. lia. Qed.

Lemma name_lt_neq a b : name_lt a b -> name_is (f_day b) (f_seq b) a = false /\ same_name b a = false.
Proof. unfold name_lt, file_ltb, name_is, same_name. lia. Qed.

Lemma sort_sorted l : names_sorted l -> sort_files l = l.
Proof.
  induction l as [|f r IH]; intros H; [reflexivity|]. destruct H as [H1 H2].
  unfold sort_files in *. cbn [fold_right]. rewrite (IH H2).
  destruct r as [|g r']; [reflexivity|]. cbn [insert_file].
  inversion H1 as [|? ? Hg _]; subst. rewrite (name_lt_asym _ _ Hg). reflexivity.
Qed.

Lemma names_sorted_snoc l x : names_sorted l -> Forall (fun f => name_lt f x) l -> names_sorted (l ++ [x]).
Proof.
  induction l as [|f r IH]; intros H1 H2; cbn [app names_sorted]; [split; constructor|].
  destruct H1 as [Ha Hb]. inversion H2; subst. split.
  - apply Forall_app. split; [exact Ha|]. constructor; [assumption|constructor].
  - apply IH; assumption.
Qed.

Lemma names_sorted_snoc_inv l x : names_sorted (l ++ [x]) -> names_sorted l /\ Forall (fun f => name_lt f x) l.
Proof.
  induction l as [|f r IH]; intros H; cbn [app names_sorted] in *; [split; [exact I|constructor]|].
  destruct H as [Ha Hb]. apply Forall_app in Ha. destruct Ha as [Ha1 Ha2]. inversion Ha2; subst.
  destruct (IH Hb) as [Hc Hd]. repeat split; try assumption. constructor; assumption.
Qed.

Lemma names_sorted_skipn n l : names_sorted l -> names_sorted (skipn n l).
Proof.
  revert l; induction n as [|n IH]; intros l H; [exact H|]. destruct l as [|f r]; [exact I|].
  cbn [skipn]. apply IH. destruct H; assumption.
Qed.

Lemma names_sorted_app_cross a b : names_sorted (a ++ b) -> forall x y, In x a -> In y b -> name_lt x y.
Proof.
  induction a as [|f r IH]; intros H x y Hx Hy; [destruct Hx|].
  cbn [app names_sorted] in H. destruct H as [Ha Hb]. destruct Hx as [->|Hx].
  - rewrite Forall_forall in Ha. apply Ha. apply in_or_app. right. exact Hy.
  - apply (IH Hb); assumption.
Qed.

Lemma remove_sorted (a b : list file) : names_sorted (a ++ b) ->
  filter (fun f => negb (existsb (same_name f) a)) (a ++ b) = b.
Proof.
  intros H. rewrite filter_app. rewrite filter_doomed_nil by apply incl_refl. cbn [app].
  pose proof (names_sorted_app_cross a b H) as Hc. clear H.
  induction b as [|y r IH]; [reflexivity|]. cbn [filter].
  assert (E : existsb (same_name y) a = false).
  { destruct (existsb (same_name y) a) eqn:E; [|reflexivity]. apply existsb_exists in E.
    destruct E as (x & Hx & Hs). pose proof (Hc x y Hx (or_introl eq_refl)) as Hl.
    apply name_lt_neq in Hl. destruct Hl as [_ Hl]. congruence. }
  rewrite E. cbn [negb]. f_equal. apply IH. intros x z Hx Hz. apply Hc; [exact Hx|right; exact Hz].
Qed.

Lemma remove_deprecated_sorted c fs : names_sorted fs ->
  remove_deprecated c fs = dropZ (lenZ fs - c_max_files c + 1) fs.
Proof.
  intros H. unfold remove_deprecated. rewrite (sort_sorted _ H). unfold takeZ, dropZ.
  set (k := Z.to_nat (lenZ fs - c_max_files c + 1)).
  rewrite <- (firstn_skipn k fs) in H. pose proof (remove_sorted _ _ H) as Hr. rewrite firstn_skipn in Hr. exact Hr.
Qed.

(* ---------------------------------------------------------------- structural invariant *)

Definition SInv (w : wstate) (G : list (list group)) : Prop :=
  Forall2 frep (w_fs w) G /\ names_sorted (w_fs w) /\
  exists init cur, w_fs w = init ++ [cur] /\ f_day cur = w_day w /\ f_seq cur = w_seq w.

Lemma frep_empty d s : frep (mkFile d s [] []) [].
Proof. split; reflexivity. Qed.

Lemma filter_snoc {A} (p : A -> bool) l x : filter p (l ++ [x]) = filter p l ++ (if p x then [x] else []).
Proof. rewrite filter_app. reflexivity. Qed.

Lemma next_name_sorted c w ts init cur :
  w_fs w = init ++ [cur] -> names_sorted (w_fs w) -> f_day cur <= day_of c ts ->
  next_name c (w_fs w) ts = (day_of c ts, if f_day cur =? day_of c ts then f_seq cur + 1 else 0).
Proof.
  intros E Hs Hd. unfold next_name. rewrite (sort_sorted _ Hs), E. rewrite filter_snoc.
  destruct (f_day cur =? day_of c ts) eqn:Ed.
  - rewrite rev_app_distr. reflexivity.
  - rewrite app_nil_r. rewrite E in Hs. apply names_sorted_snoc_inv in Hs. destruct Hs as [_ Hl].
    assert (En : filter (fun f => f_day f =? day_of c ts) init = []).
    { clear E. induction init as [|f r IH]; [reflexivity|]. inversion Hl as [|? ? Hf Hr]; subst. cbn [filter].
      assert (f_day f =? day_of c ts = false) as ->. { unfold name_lt, file_ltb in Hf. lia. }
      apply IH. exact Hr. }
    rewrite En. reflexivity.
Qed.

Lemma roll_SInv c w ts G : SInv w G -> w_day w <= day_of c ts ->
  SInv (roll c w ts) (dropZ (lenZ G - c_max_files c + 1) G ++ [[]]) /\
  w_day (roll c w ts) = day_of c ts /\ w_latest (roll c w ts) = w_latest w.
Proof.
  intros (HF & Hs & init & cur & E & Ed & Eq) Hd. unfold roll.
  rewrite (next_name_sorted c w ts init cur E Hs) by lia.
  set (s := if f_day cur =? day_of c ts then f_seq cur + 1 else 0).
  set (d := day_of c ts). cbn [w_day w_latest w_fs].
  rewrite (remove_deprecated_sorted c _ Hs). rewrite (Forall2_lenZ _ _ _ HF).
  set (n := lenZ G - c_max_files c + 1).
  assert (Hnew : Forall (fun f => name_lt f (mkFile d s [] [])) (w_fs w)).
  { assert (Hc : name_lt cur (mkFile d s [] [])).
    { unfold name_lt, file_ltb, s, d. cbn [f_day f_seq]. destruct (f_day cur =? day_of c ts) eqn:E1; lia. }
    rewrite E. rewrite E in Hs. apply names_sorted_snoc_inv in Hs. destruct Hs as [_ Hl].
    apply Forall_app. split; [|constructor; [exact Hc|constructor]].
    eapply Forall_impl; [|exact Hl]. intros f Hf. cbn beta in Hf. exact (name_lt_trans _ _ _ Hf Hc). }
  assert (Hnew' : Forall (fun f => name_lt f (mkFile d s [] [])) (dropZ n (w_fs w))) by (apply Forall_skipn; exact Hnew).
  assert (Hex : existsb (name_is d s) (dropZ n (w_fs w)) = false).
  { destruct (existsb (name_is d s) (dropZ n (w_fs w))) eqn:Ex; [|reflexivity]. apply existsb_exists in Ex.
    destruct Ex as (x & Hx & Hn). rewrite Forall_forall in Hnew'. specialize (Hnew' x Hx).
    apply name_lt_neq in Hnew'. cbn [f_day f_seq] in Hnew'. destruct Hnew' as [Hn' _]. congruence. }
  unfold create_file. rewrite Hex. repeat split.
  - apply Forall2_snoc; [apply Forall2_skipn; exact HF|apply frep_empty].
  - apply names_sorted_snoc; [apply names_sorted_skipn; exact Hs|exact Hnew'].
  - exists (dropZ n (w_fs w)), (mkFile d s [] []). repeat split.
Qed.

Lemma find_cur init cur : Forall (fun f => name_lt f cur) init ->
  find (name_is (f_day cur) (f_seq cur)) (init ++ [cur]) = Some cur.
Proof.
  induction init as [|f r IH]; intros H; cbn [app find].
  - unfold name_is. rewrite !Z.eqb_refl. reflexivity.
  - inversion H as [|? ? Hf Hr]; subst. destruct (name_lt_neq _ _ Hf) as [-> _]. apply IH. exact Hr.
Qed.

Lemma map_cur (g : file -> file) init cur : Forall (fun f => name_lt f cur) init ->
  map (fun f => if name_is (f_day cur) (f_seq cur) f then g f else f) (init ++ [cur]) = init ++ [g cur].
Proof.
  induction init as [|f r IH]; intros H; cbn [app map].
  - unfold name_is. rewrite !Z.eqb_refl. reflexivity.
  - inversion H as [|? ? Hf Hr]; subst. destruct (name_lt_neq _ _ Hf) as [-> _]. rewrite IH by exact Hr. reflexivity.
Qed.

Lemma cur_size_SInv w Gi gs : SInv w (Gi ++ [gs]) -> cur_size w = lenZ (enc_lines (gitems gs)).
Proof.
  intros (HF & Hs & init & cur & E & Ed & Eq). unfold cur_size. rewrite <- Ed, <- Eq, E.
  rewrite E in Hs. apply names_sorted_snoc_inv in Hs. destruct Hs as [_ Hl]. rewrite (find_cur _ _ Hl).
  rewrite E in HF. apply Forall2_snoc_inv in HF. destruct HF as [_ [Hd _]]. rewrite Hd. reflexivity.
Qed.

Lemma append_SInv w Gi gs gs' data idx : SInv w (Gi ++ [gs]) ->
  (forall cur, frep cur gs -> frep (mkFile (f_day cur) (f_seq cur) (f_data cur ++ data) (f_idx cur ++ idx)) gs') ->
  SInv (append_cur w data idx) (Gi ++ [gs']).
Proof.
  intros (HF & Hs & init & cur & E & Ed & Eq) Hrep. unfold SInv, append_cur. cbn [w_fs w_day w_seq].
  rewrite <- Ed, <- Eq, E. rewrite E in Hs, HF. destruct (names_sorted_snoc_inv _ _ Hs) as [Hs1 Hl].
  rewrite (map_cur (fun f => mkFile (f_day f) (f_seq f) (f_data f ++ data) (f_idx f ++ idx)) _ _ Hl).
  apply Forall2_snoc_inv in HF. destruct HF as [HF1 HF2]. repeat split.
  - apply Forall2_snoc; [exact HF1|]. apply Hrep. exact HF2.
  - apply names_sorted_snoc; [exact Hs1|]. eapply Forall_impl; [|exact Hl]. intros f Hf. exact Hf.
  - eexists _, _. repeat split.
Qed.

(* ---------------------------------------------------------------- temporal invariant (ghost only) *)

Definition group_ok (g : group) : Prop :=
  snd g <> [] /\ 0 <= fst g < two64 /\ Forall (fun it => valid_item it /\ sec_of it = fst g) (snd g).

Fixpoint inc_lt (l : list Z) : Prop :=
  match l with [] => True | x :: r => Forall (fun y => x < y) r /\ inc_lt r end.
Fixpoint inc_le (l : list Z) : Prop :=
  match l with [] => True | x :: r => Forall (fun y => x <= y) r /\ inc_le r end.

Definition allsecs (G : list (list group)) : list Z := flat_map (fun gs => map fst gs) G.

Definition TInv (latest : Z) (G : list (list group)) : Prop :=
  Forall (Forall group_ok) G /\
  Forall (fun gs => inc_lt (map fst gs)) G /\
  inc_le (allsecs G) /\
  Forall (fun s => s <= latest) (allsecs G) /\
  Forall (fun gs => lenZ (enc_lines (gitems gs)) < two63) G /\
  (last G [] = [] \/ fst (last (last G []) (0, [])) = latest).

Lemma inc_lt_snoc l x : inc_lt l -> Forall (fun y => y < x) l -> inc_lt (l ++ [x]).
Proof.
  induction l as [|a r IH]; intros H1 H2; cbn [app inc_lt]; [split; constructor|].
  destruct H1 as [Ha Hb]. inversion H2; subst. split.
  - apply Forall_app. split; [exact Ha|]. constructor; [assumption|constructor].
  - apply IH; assumption.
Qed.

Lemma inc_le_snoc l x : inc_le l -> Forall (fun y => y <= x) l -> inc_le (l ++ [x]).
Proof.
  induction l as [|a r IH]; intros H1 H2; cbn [app inc_le]; [split; constructor|].
  destruct H1 as [Ha Hb]. inversion H2; subst. split.
  - apply Forall_app. split; [exact Ha|]. constructor; [assumption|constructor].
  - apply IH; assumption.
Qed.

Lemma inc_le_app_r a b : inc_le (a ++ b) -> inc_le b.
Proof. induction a as [|x r IH]; intros H; [exact H|]. apply IH. destruct H; assumption. Qed.

Lemma allsecs_app a b : allsecs (a ++ b) = allsecs a ++ allsecs b.
Proof. apply flat_map_app. Qed.

Lemma allsecs_snoc a gs : allsecs (a ++ [gs]) = allsecs a ++ map fst gs.
Proof. rewrite allsecs_app. cbn. rewrite app_nil_r. reflexivity. Qed.

Lemma TInv_roll latest G n : TInv latest G -> TInv latest (skipn n G ++ [[]]).
Proof.
  intros (H1 & H2 & H3 & H4 & H5 & H6). unfold TInv.
  assert (Es : exists pre, allsecs G = pre ++ allsecs (skipn n G)).
  { exists (allsecs (firstn n G)). rewrite <- allsecs_app, firstn_skipn. reflexivity. }
  destruct Es as [pre Es]. rewrite allsecs_snoc. cbn [map]. rewrite app_nil_r. repeat split.
  - apply Forall_app. split; [apply Forall_skipn; exact H1|repeat constructor].
  - apply Forall_app. split; [apply Forall_skipn; exact H2|repeat constructor].
  - rewrite Es in H3. eapply inc_le_app_r. exact H3.
  - rewrite Es in H4. apply Forall_app in H4. tauto.
  - apply Forall_app. split; [apply Forall_skipn; exact H5|]. constructor; [|constructor]. cbn. unfold lenZ. cbn.
    Transparent two63. unfold two63. Opaque two63. lia.
  - left. apply last_last.
Qed.

Lemma enc_lines_nonempty its : its <> [] -> 0 < lenZ (enc_lines its).
Proof.
  destruct its as [|it r]; [congruence|]. intros _. rewrite enc_lines_cons, lenZ_app.
  pose proof (lenZ_nonneg (format_item it)). unfold lenZ in *. cbn [length]. lia.
Qed.

Lemma group_pos gs : Forall group_ok gs -> gs <> [] -> 0 < lenZ (enc_lines (gitems gs)).
Proof.
  intros H Hn. apply enc_lines_nonempty. destruct gs as [|g r]; [congruence|].
  inversion H as [|? ? Hg _]; subst. destruct Hg as [Hg _]. cbn [gitems flat_map].
  destruct (snd g); [congruence|discriminate].
Qed.

Lemma TInv_add latest Gi gs sec its :
  TInv latest (Gi ++ [gs]) -> latest <= sec -> 0 <= sec < two64 -> its <> [] ->
  Forall (fun it => valid_item it /\ sec_of it = sec) its ->
  lenZ (enc_lines (gitems gs)) + lenZ (enc_lines its) < two63 ->
  TInv sec (Gi ++ [g_add latest sec its gs]) /\
  gitems (g_add latest sec its gs) = gitems gs ++ its /\
  entries (g_add latest sec its gs) 0 =
    entries gs 0 ++ (if (sec >? latest) || (lenZ (enc_lines (gitems gs)) =? 0)
                     then [(sec, lenZ (enc_lines (gitems gs)))] else []).
Proof.
  intros (H1 & H2 & H3 & H4 & H5 & H6) Hl Hsec Hne Hits Hsz.
  apply Forall_app in H1. destruct H1 as [H1a H1b]. inversion H1b as [|? ? Hgs _]; subst.
  apply Forall_app in H2. destruct H2 as [H2a H2b]. inversion H2b as [|? ? Hinc _]; subst.
  apply Forall_app in H5. destruct H5 as [H5a H5b].
  rewrite allsecs_snoc in H3, H4. rewrite last_last in H6.
  assert (Epos : (lenZ (enc_lines (gitems gs)) =? 0) = match gs with [] => true | _ => false end).
  { destruct gs as [|g0 r0]; [reflexivity|]. pose proof (group_pos _ Hgs ltac:(discriminate)). lia. }
  rewrite Epos. unfold g_add.
  destruct ((sec >? latest) || match gs with [] => true | _ => false end) eqn:Ec.
  - (* a new group *)
    split; [|split].
    + unfold TInv. rewrite allsecs_snoc, last_last, map_app, app_assoc. cbn [map fst]. repeat split.
      * apply Forall_app. split; [exact H1a|]. constructor; [|constructor].
        apply Forall_app. split; [exact Hgs|]. constructor; [|constructor]. repeat split; try assumption; cbn [fst]; lia.
      * apply Forall_app. split; [exact H2a|]. constructor; [|constructor]. rewrite map_app. cbn [map fst].
        apply inc_lt_snoc; [exact Hinc|]. apply Forall_app in H4. destruct H4 as [_ H4].
        destruct gs as [|g0 r0]; [constructor|]. assert (sec > latest) by (cbn in Ec; lia).
        eapply Forall_impl; [|exact H4]. cbn beta. intros; lia.
      * apply inc_le_snoc; [exact H3|]. eapply Forall_impl; [|exact H4]. cbn beta. intros; lia.
      * apply Forall_app. split; [|constructor; [lia|constructor]]. eapply Forall_impl; [|exact H4]. cbn beta. intros; lia.
      * apply Forall_app. split; [exact H5a|]. constructor; [|constructor]. rewrite gitems_app, enc_lines_app, lenZ_app.
        cbn [gitems flat_map snd]. rewrite app_nil_r. lia.
      * right. rewrite last_last. reflexivity.
    + rewrite gitems_app. cbn [gitems flat_map snd]. rewrite app_nil_r. reflexivity.
    + rewrite entries_app. cbn [entries fst]. rewrite Z.add_0_l. reflexivity.
  - (* the last group grows *)
    destruct gs as [|g0 r0]; [rewrite orb_true_r in Ec; discriminate|].
    assert (Hsl : sec = latest) by lia. subst sec.
    destruct (exists_last (l := g0 :: r0) ltac:(discriminate)) as (gs0 & [s l] & Egs). rewrite Egs in *.
    destruct H6 as [H6|H6]; [destruct gs0; discriminate|]. rewrite last_last in H6. cbn [fst] in H6. subst s.
    rewrite upd_last_snoc. cbn [fst snd]. rewrite orb_false_r in Ec.
    apply Forall_app in Hgs. destruct Hgs as [Hg0 Hg1]. inversion Hg1 as [|? ? Hg _]; subst.
    destruct Hg as (Hg_a & Hg_b & Hg_c). cbn [fst snd] in *.
    split; [|split].
    + unfold TInv. rewrite allsecs_snoc, last_last, map_app in *. cbn [map fst] in *. repeat split; try assumption.
      * apply Forall_app. split; [exact H1a|]. constructor; [|constructor].
        apply Forall_app. split; [exact Hg0|]. constructor; [|constructor]. repeat split; cbn [fst snd]; try lia.
        -- destruct l; [congruence|discriminate].
        -- apply Forall_app. split; assumption.
      * apply Forall_app. split; [exact H2a|]. constructor; [|constructor]. rewrite map_app. exact Hinc.
      * apply Forall_app. split; [exact H5a|]. constructor; [|constructor].
        rewrite !gitems_app, !enc_lines_app, !lenZ_app in *. cbn [gitems flat_map snd] in *. rewrite !app_nil_r in *.
        rewrite enc_lines_app, lenZ_app. lia.
      * right. rewrite last_last. reflexivity.
    + rewrite !gitems_app. cbn [gitems flat_map snd]. rewrite !app_nil_r, app_assoc. reflexivity.
    + rewrite app_nil_r, !entries_app. cbn [entries fst]. reflexivity.
Qed.

(* ---------------------------------------------------------------- the searcher's position cache *)

Definition nm (f : file) : Z * Z := (f_day f, f_seq f).
Definition pair_lt (a b : Z * Z) : Prop := fst a < fst b \/ (fst a = fst b /\ snd a < snd b).

Lemma name_lt_pair a b : name_lt a b <-> pair_lt (nm a) (nm b).
Proof. unfold name_lt, file_ltb, pair_lt, nm. cbn [fst snd]. lia. Qed.

Lemma pair_lt_trans a b d : pair_lt a b -> pair_lt b d -> pair_lt a d.
Proof. unfold pair_lt. lia. Qed.

Definition cache_rel (n : Z * Z) (sec : Z) (n' : Z * Z) (gs : list group) : Prop :=
  pair_lt n' n -> Forall (fun s => s < sec) (map fst gs).

(* the cached position (file name, idx offset, second) is either unusable or sound: its offset is a
   multiple of 16, its file is not newer than the current one, and every group of every older
   file is before the cached second *)
Definition CInv (names : list (Z * Z)) (G : list (list group)) (cur : Z * Z) (st : sstate) : Prop :=
  match s_name st with
  | None => True
  | Some n =>
      ~ pair_lt cur n /\ (exists j, s_off st = 16 * Z.of_nat j) /\
      Forall2 (cache_rel n (s_sec st)) names G
  end.

Lemma CInv_roll names G cur st k new : CInv names G cur st -> pair_lt cur new ->
  CInv (skipn k names ++ [new]) (skipn k G ++ [[]]) new st.
Proof.
  unfold CInv. destruct (s_name st) as [n|]; [|tauto]. intros (H1 & H2 & H3) Hlt.
  assert (Hn : ~ pair_lt new n) by (intros H; apply H1; eapply pair_lt_trans; eassumption).
  split; [exact Hn|]. split; [exact H2|]. apply Forall2_snoc; [apply Forall2_skipn; exact H3|].
  intros H. tauto.
Qed.

Lemma CInv_last ni Gi gs gs' cur st : CInv (ni ++ [cur]) (Gi ++ [gs]) cur st -> CInv (ni ++ [cur]) (Gi ++ [gs']) cur st.
Proof.
  unfold CInv. destruct (s_name st) as [n|]; [|tauto]. intros (H1 & H2 & H3).
  split; [exact H1|]. split; [exact H2|]. apply Forall2_snoc_inv in H3. destruct H3 as [H3 _].
  apply Forall2_snoc; [exact H3|]. intros H. tauto.
Qed.

Lemma roll_names c w ts G : SInv w G -> w_day w <= day_of c ts ->
  map nm (w_fs (roll c w ts)) =
    skipn (Z.to_nat (lenZ G - c_max_files c + 1)) (map nm (w_fs w)) ++ [(w_day (roll c w ts), w_seq (roll c w ts))] /\
  pair_lt (w_day w, w_seq w) (w_day (roll c w ts), w_seq (roll c w ts)).
Proof.
  intros (HF & Hs & init & cur & E & Ed & Eq) Hd. unfold roll.
  rewrite (next_name_sorted c w ts init cur E Hs) by lia.
  set (s := if f_day cur =? day_of c ts then f_seq cur + 1 else 0).
  set (d := day_of c ts). cbn [w_day w_seq w_fs].
  rewrite (remove_deprecated_sorted c _ Hs). rewrite (Forall2_lenZ _ _ _ HF).
  set (n := lenZ G - c_max_files c + 1).
  assert (Hc : name_lt cur (mkFile d s [] [])).
  { unfold name_lt, file_ltb, s, d. cbn [f_day f_seq]. destruct (f_day cur =? day_of c ts) eqn:E1; lia. }
  assert (Hnew : Forall (fun f => name_lt f (mkFile d s [] [])) (w_fs w)).
  { rewrite E. rewrite E in Hs. apply names_sorted_snoc_inv in Hs. destruct Hs as [_ Hl].
    apply Forall_app. split; [|constructor; [exact Hc|constructor]].
    eapply Forall_impl; [|exact Hl]. intros f Hf. cbn beta in Hf. exact (name_lt_trans _ _ _ Hf Hc). }
  assert (Hnew' : Forall (fun f => name_lt f (mkFile d s [] [])) (dropZ n (w_fs w))) by (apply Forall_skipn; exact Hnew).
  assert (Hex : existsb (name_is d s) (dropZ n (w_fs w)) = false).
  { destruct (existsb (name_is d s) (dropZ n (w_fs w))) eqn:Ex; [|reflexivity]. apply existsb_exists in Ex.
    destruct Ex as (x & Hx & Hn). rewrite Forall_forall in Hnew'. specialize (Hnew' x Hx).
    apply name_lt_neq in Hnew'. cbn [f_day f_seq] in Hnew'. destruct Hnew' as [Hn' _]. congruence. }
  unfold create_file. rewrite Hex. split.
  - rewrite map_app. unfold dropZ. rewrite skipn_map. reflexivity.
  - apply name_lt_pair in Hc. unfold nm in Hc. cbn [f_day f_seq] in Hc. rewrite <- Ed, <- Eq. exact Hc.
Qed.

Lemma append_names w data idx : map nm (w_fs (append_cur w data idx)) = map nm (w_fs w).
Proof.
  unfold append_cur. cbn [w_fs]. rewrite map_map. apply map_ext. intros f.
  destruct (name_is (w_day w) (w_seq w) f); reflexivity.
Qed.

Lemma SInv_names w G : SInv w G -> exists ni, map nm (w_fs w) = ni ++ [(w_day w, w_seq w)].
Proof.
  intros (_ & _ & init & cur & E & Ed & Eq). exists (map nm init). rewrite E, map_app. cbn [map]. unfold nm.
  rewrite Ed, Eq. reflexivity.
Qed.

(* ---------------------------------------------------------------- the writer invariant *)

Definition two62 : Z := 4611686018427387904.

Definition good_cfg (c : cfg) (t0 : Z) : Prop :=
  1 <= c_max_size c <= two62 /\ 0 <= t0 /\ 0 <= t0 / 1000 + c_tz c.

(* what a caller can hand to Write: Go field ranges, names without '|' / LF, and a batch of less
   than 2^62 bytes *)
Definition good_op (o : op) : Prop :=
  match o with
  | Write ts tstr items =>
      Forall (fun it => valid_item (stamp ts tstr it)) items /\
      lenZ (enc_lines (map (stamp ts tstr) items)) < two62
  | Find _ => True
  end.

Definition WInv (c : cfg) (w : wstate) (g : gstate) : Prop :=
  SInv w (gs_files g) /\ TInv (gs_latest g) (gs_files g) /\
  w_latest w = gs_latest g /\ w_day w = (w_latest w + c_tz c) / 86400 /\
  0 <= w_latest w + c_tz c /\ 0 <= w_latest w /\
  lenZ (enc_lines (gitems (g_cur g))) < c_max_size c.

Lemma w_init_eq c t0 : w_init c t0 = mkW [mkFile (day_of c t0) 0 [] []] (day_of c t0) 0 (t0 / 1000).
Proof.
  unfold w_init, roll, next_name, remove_deprecated, create_file, takeZ. cbn [w_fs sort_files fold_right filter rev].
  reflexivity.
Qed.

Lemma WInv_init c t0 : good_cfg c t0 -> WInv c (w_init c t0) (g_init t0).
Proof.
  intros (Hm & Ht & Hz). rewrite w_init_eq. unfold WInv, g_init, g_cur. cbn [gs_files gs_latest w_latest w_day last].
  assert (H63 : lenZ (enc_lines (gitems [])) < two63).
  { cbn. unfold lenZ. cbn. Transparent two63. unfold two63. Opaque two63. lia. }
  repeat split; try (repeat constructor; fail); try exact Hz; try (apply Z.div_pos; lia);
    try (cbn; unfold lenZ; cbn; lia).
  exists [], (mkFile (day_of c t0) 0 [] []). repeat split.
Qed.

Lemma SInv_snoc_ghost w G : SInv w G -> exists Gi gs, G = Gi ++ [gs].
Proof.
  intros (HF & _ & init & cur & E & _). rewrite E in HF. apply Forall2_snoc_l in HF.
  destruct HF as (l0 & y & -> & _). eauto.
Qed.

Lemma is_new_day_spec c last sec : 0 <= last + c_tz c -> last <= sec ->
  is_new_day c last sec = ((sec + c_tz c) / 86400 >? (last + c_tz c) / 86400).
Proof. intros H1 H2. unfold is_new_day. rewrite !Z.quot_div_nonneg by lia. reflexivity. Qed.

Definition CI (w : wstate) (g : gstate) (st : sstate) : Prop :=
  CInv (map nm (w_fs w)) (gs_files g) (w_day w, w_seq w) st.

Lemma w_write_inv c t0 w g st ts tstr items : good_cfg c t0 -> good_op (Write ts tstr items) ->
  WInv c w g -> CI w g st ->
  WInv c (w_write c w ts tstr items) (g_write c g ts tstr items) /\
  CI (w_write c w ts tstr items) (g_write c g ts tstr items) st.
Proof.
  intros (Hm & _ & _) [Hv Hsz] HW HC. unfold w_write, g_write.
  destruct items as [|it0 its0]; [split; [exact HW|exact HC]|]. set (items := it0 :: its0) in *.
  destruct (ts <=? 0) eqn:Ets; [split; [exact HW|exact HC]|]. pose proof HW as HW0.
  destruct HW as (HS & HT & El & Ed & Hz & Hl0 & Hcs). rewrite <- El.
  set (sec := ts / 1000). destruct (sec <? w_latest w) eqn:Eold; [split; [exact HW0|exact HC]|]. clear HW0.
  unfold CI in *.
  assert (Hday : day_of c ts = (sec + c_tz c) / 86400) by reflexivity.
  assert (Hsec64 : 0 <= sec < two64).
  { inversion Hv as [|? ? Hv0 _]; subst. destruct Hv0 as [Hts _]. cbn [stamp i_ts] in Hts. unfold lim64 in Hts.
    Transparent two64. unfold two64. Opaque two64. unfold sec. lia. }
  (* phase 1: day roll *)
  set (b1 := (sec >? w_latest w) && is_new_day c (w_latest w) sec).
  set (w1 := if b1 then roll c w ts else w).
  set (g1 := if b1 then g_roll c g else g).
  assert (H1 : SInv w1 (gs_files g1) /\ TInv (gs_latest g) (gs_files g1) /\ w_latest w1 = w_latest w /\
               w_day w1 = (sec + c_tz c) / 86400 /\ lenZ (enc_lines (gitems (g_cur g1))) < c_max_size c /\
               CInv (map nm (w_fs w1)) (gs_files g1) (w_day w1, w_seq w1) st).
  { unfold w1, g1. destruct b1 eqn:Eb1.
    - unfold b1 in Eb1. rewrite is_new_day_spec in Eb1 by lia.
      destruct (roll_SInv c w ts _ HS) as (Ha & Hb & Hc); [rewrite Hday; lia|].
      destruct (roll_names c w ts _ HS) as [En Hlt]; [rewrite Hday; lia|].
      unfold g_roll, g_cur, dropZ in *. cbn [gs_files gs_latest].
      split; [exact Ha|]. split; [apply TInv_roll; exact HT|]. split; [exact Hc|]. split; [rewrite Hb; exact Hday|].
      split; [rewrite last_last; cbn; unfold lenZ; cbn; lia|].
      rewrite En. eapply CInv_roll; [exact HC|exact Hlt].
    - split; [exact HS|]. split; [exact HT|]. split; [reflexivity|]. split; [|split; [exact Hcs|exact HC]]. unfold b1 in Eb1.
      destruct (sec >? w_latest w) eqn:Egt; cbn [andb] in Eb1.
      + rewrite is_new_day_spec in Eb1 by lia. rewrite Ed.
        assert ((w_latest w + c_tz c) / 86400 <= (sec + c_tz c) / 86400) by (apply Z.div_le_mono; lia). lia.
      + assert (sec = w_latest w) by lia. rewrite Ed. congruence. }
  destruct H1 as (HS1 & HT1 & El1 & Ed1 & Hcs1 & HC1).
  fold w1. fold g1.
  destruct (SInv_snoc_ghost _ _ HS1) as (Gi & gs & EG).
  (* phase 2: index entry and lines *)
  set (its := map (stamp ts tstr) items).
  assert (Hits : Forall (fun it => valid_item it /\ sec_of it = sec) its).
  { unfold its. apply Forall_forall. intros x Hx. apply in_map_iff in Hx. destruct Hx as (y & <- & Hy).
    rewrite Forall_forall in Hv. split; [apply Hv; exact Hy|reflexivity]. }
  assert (Hne : its <> []) by (unfold its, items; discriminate).
  assert (Hcur1 : g_cur g1 = gs) by (unfold g_cur; rewrite EG; apply last_last).
  rewrite Hcur1 in Hcs1. rewrite EG in HS1, HT1, HC1.
  unfold two62 in *.
  assert (Hsz2 : lenZ (enc_lines (gitems gs)) + lenZ (enc_lines its) < two63).
  { Transparent two63. unfold two63. Opaque two63. fold its in Hsz. lia. }
  rewrite <- El in HT1.
  destruct (TInv_add _ Gi gs sec its HT1 ltac:(lia) Hsec64 Hne Hits Hsz2) as (HT2 & Egi & Een).
  pose proof (cur_size_SInv _ _ _ HS1) as Ecs1.
  set (pos := cur_size w1).
  set (w2 := if (sec >? w_latest w) || (pos =? 0) then append_cur w1 [] (be64 sec ++ be64 pos) else w1).
  set (w3 := append_cur w2 (enc_lines its) []).
  assert (HC3 : CInv (map nm (w_fs w3)) (Gi ++ [g_add (w_latest w) sec its gs]) (w_day w3, w_seq w3) st).
  { destruct (SInv_names _ _ HS1) as [ni Eni].
    assert (E3 : map nm (w_fs w3) = ni ++ [(w_day w1, w_seq w1)] /\ w_day w3 = w_day w1 /\ w_seq w3 = w_seq w1).
    { unfold w3, w2. destruct ((sec >? w_latest w) || (pos =? 0)); rewrite ?append_names; auto. }
    destruct E3 as (-> & -> & ->). rewrite Eni in HC1. eapply CInv_last. exact HC1. }
  assert (HS3 : SInv w3 (Gi ++ [g_add (w_latest w) sec its gs]) /\ w_day w3 = w_day w1 /\ w_latest w3 = w_latest w1).
  { unfold w3, w2. fold pos in Ecs1. rewrite <- Ecs1 in Een.
    destruct ((sec >? w_latest w) || (pos =? 0)) eqn:Ec.
    - split; [|split; reflexivity].
      apply (append_SInv _ Gi (gs ++ [(sec, [])])).
      + apply (append_SInv _ Gi gs); [exact HS1|]. intros cur [Hd Hi]. split; cbn [f_data f_idx].
        * rewrite app_nil_r, gitems_app. cbn. rewrite app_nil_r. exact Hd.
        * rewrite entries_app, enc_entries_app, <- Hi. cbn [entries enc_entries flat_map fst snd].
          rewrite app_nil_r, Z.add_0_l, <- Ecs1. reflexivity.
      + intros cur [Hd Hi]. split; cbn [f_data f_idx].
        * rewrite Egi, enc_lines_app, Hd, gitems_app. cbn. rewrite !app_nil_r. reflexivity.
        * rewrite app_nil_r, Een, Hi, !entries_app. cbn [entries fst snd]. cbn [gitems flat_map enc_lines lenZ length].
          rewrite Z.add_0_l, <- Ecs1. reflexivity.
    - split; [|split; reflexivity].
      apply (append_SInv _ Gi gs); [exact HS1|]. intros cur [Hd Hi]. split; cbn [f_data f_idx].
      + rewrite Egi, enc_lines_app, Hd. reflexivity.
      + rewrite app_nil_r, Een, app_nil_r. exact Hi. }
  destruct HS3 as (HS3 & Ed3 & El3).
  fold w2. fold w3.
  (* phase 3: size roll *)
  set (g2 := mkGS (upd_last (g_add (w_latest w) sec its) (gs_files g1)) (w_latest w)).
  assert (Eg2 : gs_files g2 = Gi ++ [g_add (w_latest w) sec its gs]).
  { unfold g2. cbn [gs_files]. rewrite EG. apply upd_last_snoc. }
  assert (Ecur2 : g_cur g2 = g_add (w_latest w) sec its gs) by (unfold g_cur; rewrite Eg2; apply last_last).
  pose proof (cur_size_SInv _ _ _ HS3) as Ecs3. rewrite <- Ecur2 in Ecs3. rewrite <- Ecs3.
  set (fin := if sec >? w_latest w then sec else w_latest w).
  assert (Efin : fin = sec) by (unfold fin; destruct (sec >? w_latest w) eqn:Ef; lia).
  destruct (cur_size w3 >=? c_max_size c) eqn:Esz.
  - destruct (roll_SInv c w3 ts _ HS3) as (Ha & Hb & Hc); [rewrite Ed3, Ed1, Hday; lia|].
    destruct (roll_names c w3 ts _ HS3) as [En Hlt]; [rewrite Ed3, Ed1, Hday; lia|].
    unfold WInv, g_roll, g_cur, dropZ in *. cbn [gs_files gs_latest w_fs w_day w_seq w_latest]. rewrite Eg2, Efin.
    split.
    + split; [exact Ha|]. split; [apply TInv_roll; exact HT2|]. split; [reflexivity|].
      split; [rewrite Hb; exact Hday|]. split; [lia|]. split; [lia|].
      rewrite last_last. cbn. unfold lenZ. cbn. lia.
    + rewrite En. eapply CInv_roll; [exact HC3|exact Hlt].
  - unfold WInv, g_cur in *. cbn [gs_files gs_latest w_fs w_day w_seq w_latest]. rewrite Efin.
    split.
    + split; [rewrite Eg2; exact HS3|]. split; [rewrite Eg2; exact HT2|]. split; [reflexivity|].
      split; [rewrite Ed3, Ed1; reflexivity|]. split; [lia|]. split; [lia|]. lia.
    + rewrite Eg2. exact HC3.
Qed.
