(* The limit expression int(float64(n) * pct) of checkAllNodes, related to the exact product
   through Flocq's formalisation of IEEE-754 binary64 (Coq primitive floats = binary64,
   FloatAxioms). *)
From Coq Require Import ZArith Reals Floats Lia Lra.
From Flocq Require Import Core IEEE754.BinarySingleNaN IEEE754.PrimFloat.
From SG Require Import Base.Prelude Base.GoInt Base.GoFloat Model.Outlier Proofs.OutlierProofs.
#[local] Open Scope Z_scope.

#[local] Instance Hprec : FLX.Prec_gt_0 prec := eq_refl _.
#[local] Instance Hmax : Prec_lt_emax prec emax := eq_refl _.

Notation FHprec := Flocq.IEEE754.PrimFloat.Hprec.
Notation FHmax := Flocq.IEEE754.PrimFloat.Hmax.

(* round to nearest, ties to even, in binary64 *)
Definition Rnd (x : R) : R := round radix2 (SpecFloat.fexp prec emax) ZnearestE x.

(* the real value of a double (0 for infinities and NaN) *)
Definition FR (f : Coq.Floats.PrimFloat.float) : R := B2R (Prim2B f).

Lemma FR_SF f : FR f = SF2R radix2 (Prim2SF f).
Proof. unfold FR, Prim2B. apply B2R_SF2B. Qed.

Lemma fin_SF f : is_finite (Prim2B f) = is_finite_SF (Prim2SF f).
Proof. unfold Prim2B. apply is_finite_SF2B. Qed.

#[local] Instance fexp_valid : Valid_exp (SpecFloat.fexp prec emax) := fexp_correct prec emax Hprec.

Lemma Rnd_le x y : (x <= y)%R -> (Rnd x <= Rnd y)%R.
Proof. intros H. unfold Rnd. apply round_le; [exact fexp_valid|apply valid_rnd_N|exact H]. Qed.

Lemma bpow53 : bpow radix2 53 = IZR (2 ^ 53).
Proof. rewrite <- (IZR_Zpower radix2 53) by lia. reflexivity. Qed.

Lemma F2R_int z : F2R (Float radix2 z 0) = IZR z.
Proof. unfold F2R; cbn; ring. Qed.

Lemma int_format z : Z.abs z < 2 ^ 53 -> generic_format radix2 (SpecFloat.fexp prec emax) (IZR z).
Proof.
  intros Hz. rewrite <- F2R_int.
  apply generic_format_F2R. intros Hnz. unfold cexp. rewrite F2R_int.
  assert (Hm : (mag radix2 (IZR z) <= 53)%Z).
  { apply mag_le_bpow.
    - apply not_0_IZR. exact Hnz.
    - rewrite <- abs_IZR. rewrite bpow53. apply IZR_lt. exact Hz. }
  unfold SpecFloat.fexp, SpecFloat.emin, prec, emax. lia.
Qed.

Lemma Rnd_int z : Z.abs z < 2 ^ 53 -> Rnd (IZR z) = IZR z.
Proof. intros Hz. unfold Rnd. apply round_generic; [apply valid_rnd_N|apply int_format; exact Hz]. Qed.

(* ---- float64(n) ---------------------------------------------------------------------------- *)

Lemma bpow_emax_big z : Z.abs z < 2 ^ 53 -> (Rabs (IZR z) < bpow radix2 emax)%R.
Proof.
  intros Hz. rewrite <- abs_IZR. apply Rlt_le_trans with (bpow radix2 53).
  - rewrite bpow53. apply IZR_lt. exact Hz.
  - apply bpow_le. unfold emax. lia.
Qed.

Lemma of_int_correct n : 0 <= n < 2 ^ 53 ->
  FR (f_of_i64 n) = IZR n /\ is_finite (Prim2B (f_of_i64 n)) = true.
Proof.
  intros Hn. unfold f_of_i64, f_of_u64, f_of_u63.
  assert (E1 : (n <? 0) = false) by lia. rewrite E1.
  assert (E2 : (n <? two63) = true). { Transparent two63. unfold two63. lia. } rewrite E2.
  unfold FR. rewrite of_int63_equiv.
  assert (E3 : Uint63.to_Z (Uint63.of_Z n) = n).
  { rewrite Uint63.of_Z_spec. apply Z.mod_small. unfold Uint63.wB, Uint63.size. cbn. lia. }
  rewrite E3.
  pose proof (binary_normalize_correct prec emax FHprec FHmax mode_NE n 0 false) as H.
  cbv zeta in H. rewrite F2R_int in H. cbn [round_mode] in H.
  fold (Rnd (IZR n)) in H. rewrite Rnd_int in H by lia.
  rewrite Rlt_bool_true in H by (apply bpow_emax_big; lia).
  destruct H as (H1 & H2 & _). split; assumption.
Qed.

(* ---- a valid percentage --------------------------------------------------------------------- *)

Lemma FR_zero : FR 0%float = 0%R.
Proof. rewrite FR_SF. reflexivity. Qed.

Lemma FR_one : FR 1%float = 1%R.
Proof.
  rewrite FR_SF. change (Prim2SF 1) with (S754_finite false 4503599627370496 (-52)).
  unfold SF2R, F2R. cbn. lra.
Qed.

Lemma pct_valid_correct p : pct_valid p = true ->
  is_finite (Prim2B p) = true /\ (0 <= FR p <= 1)%R.
Proof.
  unfold pct_valid. intros H. apply andb_prop in H. destruct H as [H0 H1].
  assert (Hf : is_finite (Prim2B p) = true).
  { rewrite fin_SF. rewrite leb_spec in H0, H1.
    destruct (Prim2SF p) as [s|s| |s m e]; try reflexivity.
    - destruct s; vm_compute in H0, H1; discriminate.
    - vm_compute in H0. discriminate. }
  split; [exact Hf|].
  rewrite leb_equiv in H0, H1.
  assert (F0 : is_finite (Prim2B 0%float) = true) by (rewrite fin_SF; reflexivity).
  assert (F1 : is_finite (Prim2B 1%float) = true) by (rewrite fin_SF; reflexivity).
  rewrite Bleb_correct in H0 by assumption. rewrite Bleb_correct in H1 by assumption.
  fold (FR 0%float) in H0. fold (FR p) in H0, H1. fold (FR 1%float) in H1.
  rewrite FR_zero in H0. rewrite FR_one in H1.
  split.
  - destruct (Rle_bool_spec 0 (FR p)) as [H|H]; [exact H|discriminate].
  - destruct (Rle_bool_spec (FR p) 1) as [H|H]; [exact H|discriminate].
Qed.

(* ---- the product ------------------------------------------------------------------------------ *)

Lemma Rnd_0 : Rnd 0 = 0%R.
Proof. exact (Rnd_int 0 ltac:(lia)). Qed.

Lemma product_correct n p : 0 <= n < 2 ^ 53 -> pct_valid p = true ->
  FR (f_of_i64 n * p)%float = Rnd (IZR n * FR p) /\
  is_finite (Prim2B (f_of_i64 n * p)%float) = true /\
  (0 <= Rnd (IZR n * FR p) <= IZR n)%R.
Proof.
  intros Hn Hp. destruct (of_int_correct n Hn) as [Hv Hf]. destruct (pct_valid_correct p Hp) as [Hpf Hpr].
  assert (Hn0 : (0 <= IZR n)%R) by (apply IZR_le; lia).
  assert (Hb : (0 <= Rnd (IZR n * FR p) <= IZR n)%R).
  { split.
    - rewrite <- Rnd_0. apply Rnd_le. apply Rmult_le_pos; lra.
    - rewrite <- (Rnd_int n) at 2 by lia. apply Rnd_le. nra. }
  unfold FR at 1. rewrite mul_equiv.
  pose proof (Bmult_correct prec emax FHprec FHmax mode_NE (Prim2B (f_of_i64 n)) (Prim2B p)) as H.
  cbn [round_mode] in H. fold (FR (f_of_i64 n)) in H. fold (FR p) in H. rewrite Hv in H.
  fold (Rnd (IZR n * FR p)) in H.
  rewrite Rlt_bool_true in H.
  - destruct H as (H1 & H2 & _). rewrite Hf, Hpf in H2. split; [exact H1|]. split; [exact H2|exact Hb].
  - apply Rle_lt_trans with (IZR n).
    + rewrite Rabs_pos_eq by lra. lra.
    + rewrite <- (Rabs_pos_eq (IZR n)) by lra. apply bpow_emax_big. lia.
Qed.

(* ---- int64(f) for a finite non-negative f ------------------------------------------------- *)

Lemma bpow_nonneg_Z e : 0 <= e -> bpow radix2 e = IZR (2 ^ e).
Proof. intros He. rewrite <- (IZR_Zpower radix2 e) by exact He. reflexivity. Qed.

Lemma bpow_neg_Z e : e < 0 -> bpow radix2 e = (/ IZR (2 ^ (- e)))%R.
Proof.
  intros He. replace e with (- (- e)) at 1 by lia. rewrite bpow_opp. rewrite bpow_nonneg_Z by lia. reflexivity.
Qed.

(* floor of z * 2^e *)
Lemma floor_scaled z e :
  Zfloor (IZR z * bpow radix2 e) = if 0 <=? e then z * 2 ^ e else z / 2 ^ (- e).
Proof.
  destruct (0 <=? e) eqn:E.
  - rewrite bpow_nonneg_Z by lia. rewrite <- mult_IZR. apply Zfloor_IZR.
  - rewrite bpow_neg_Z by lia. apply Zfloor_div. apply Z.pow_nonzero; lia.
Qed.

Lemma f_trunc_correct f : is_finite (Prim2B f) = true -> (0 <= FR f)%R ->
  f_trunc f = Some (Zfloor (FR f)).
Proof.
  rewrite fin_SF, FR_SF. unfold f_trunc. destruct (Prim2SF f) as [s|s| |s m e]; cbn [is_finite_SF SF2R].
  - intros _ _. rewrite Zfloor_IZR. reflexivity.
  - discriminate.
  - discriminate.
  - intros _ Hpos. destruct s.
    + exfalso. assert (F2R (Float radix2 (cond_Zopp true (Z.pos m)) e) < 0)%R; [|lra].
      apply F2R_lt_0. cbn. lia.
    + unfold F2R. cbn [cond_Zopp Fnum Fexp]. rewrite floor_scaled. reflexivity.
Qed.

Lemma limit_is_floor n p : 0 <= n < 2 ^ 53 -> pct_valid p = true ->
  limit_of n p = Zfloor (Rnd (IZR n * FR p)).
Proof.
  intros Hn Hp. destruct (product_correct n p Hn Hp) as (Hv & Hf & Hb).
  unfold limit_of, go_i64_of_f. rewrite f_trunc_correct; [|exact Hf|rewrite Hv; lra].
  rewrite Hv.
  assert (0 <= Zfloor (Rnd (IZR n * FR p)) <= n).
  { split.
    - apply Zfloor_lub. cbn. lra.
    - apply le_IZR. apply Rle_trans with (Rnd (IZR n * FR p)); [apply Zfloor_lb|lra]. }
  assert (E : ((- two63 <=? Zfloor (Rnd (IZR n * FR p))) && (Zfloor (Rnd (IZR n * FR p)) <? two63))%bool = true).
  { Transparent two63. unfold two63. lia. }
  rewrite E. reflexivity.
Qed.

(* ---- the exact floor ---------------------------------------------------------------------------- *)

Lemma exact_floor_correct n p : is_finite (Prim2B p) = true ->
  exact_floor n p = Zfloor (IZR n * FR p).
Proof.
  rewrite fin_SF, FR_SF. unfold exact_floor. destruct (Prim2SF p) as [s|s| |s m e]; cbn [is_finite_SF SF2R].
  - intros _. rewrite Rmult_0_r. rewrite Zfloor_IZR. reflexivity.
  - discriminate.
  - discriminate.
  - intros _. unfold F2R. cbn [Fnum Fexp]. rewrite <- Rmult_assoc. rewrite <- mult_IZR.
    rewrite floor_scaled. destruct s; cbn [cond_Zopp]; destruct (0 <=? e); reflexivity.
Qed.

(* ---- main statements -------------------------------------------------------------------------- *)

(* the correctly rounded product float64(n) * p is the integer floor(n * p) + 1 *)
Definition product_rounds_to_next_integer (n : Z) (p : Coq.Floats.PrimFloat.float) : Prop :=
  Rnd (IZR n * FR p) = IZR (exact_floor n p + 1).

Lemma limit_le_count n p : 0 <= n < 2 ^ 53 -> pct_valid p = true -> 0 <= limit_of n p <= n.
Proof.
  intros Hn Hp. rewrite limit_is_floor by assumption.
  destruct (product_correct n p Hn Hp) as (_ & _ & Hb). split.
  - apply Zfloor_lub. cbn. lra.
  - apply le_IZR. apply Rle_trans with (Rnd (IZR n * FR p)); [apply Zfloor_lb|lra].
Qed.

Lemma limit_vs_exact_floor n p : 0 <= n < 2 ^ 53 -> pct_valid p = true ->
  exact_floor n p <= limit_of n p <= exact_floor n p + 1 /\
  (limit_of n p = exact_floor n p + 1 <-> product_rounds_to_next_integer n p).
Proof.
  intros Hn Hp. unfold product_rounds_to_next_integer.
  rewrite limit_is_floor by assumption.
  destruct (pct_valid_correct p Hp) as [Hpf Hpr].
  rewrite (exact_floor_correct n p Hpf).
  destruct (product_correct n p Hn Hp) as (_ & _ & Hb).
  set (x := (IZR n * FR p)%R) in *. set (k := Zfloor x).
  assert (Hn0 : (0 <= IZR n)%R) by (apply IZR_le; lia).
  assert (Hx : (0 <= x <= IZR n)%R) by (unfold x; split; nra).
  assert (Hk0 : 0 <= k) by (apply Zfloor_lub; cbn; lra).
  assert (Hkn : k <= n) by (apply le_IZR; apply Rle_trans with x; [apply Zfloor_lb|lra]).
  assert (Hlo : (IZR k <= Rnd x)%R).
  { rewrite <- (Rnd_int k) by lia. apply Rnd_le. apply Zfloor_lb. }
  assert (Hhi : (Rnd x <= IZR (k + 1))%R).
  { destruct (Z.eq_dec k n) as [E|E].
    - rewrite plus_IZR. rewrite E. lra.
    - rewrite <- (Rnd_int (k + 1)) by lia. apply Rnd_le. left. rewrite plus_IZR. apply Zfloor_ub. }
  assert (Hfl : k <= Zfloor (Rnd x) <= k + 1).
  { split; [apply Zfloor_lub; exact Hlo|].
    apply le_IZR. apply Rle_trans with (Rnd x); [apply Zfloor_lb|exact Hhi]. }
  split; [exact Hfl|]. split.
  - intros E. apply Rle_antisym; [exact Hhi|]. rewrite <- E. apply Zfloor_lb.
  - intros E. rewrite E. apply Zfloor_IZR.
Qed.

Lemma step_filter_exact_floor r s obj now order s' f h :
  0 <= Z.of_nat (length (nodes s)) < 2 ^ 53 -> pct_valid (pct r) = true ->
  ~ product_rounds_to_next_integer (Z.of_nat (length (nodes s))) (pct r) ->
  step r s (Enter obj true now order) = (s', OLists f h) ->
  Z.of_nat (length f) <= exact_floor (Z.of_nat (length (nodes s))) (pct r).
Proof.
  intros Hn Hp Hnr Hs. destruct (step_filter_len r s obj now order s' f h Hs) as [Hl _].
  destruct (limit_vs_exact_floor _ _ Hn Hp) as [Hb Hiff].
  destruct (limit_le_count _ _ Hn Hp) as [H0 _].
  assert (limit_of (Z.of_nat (length (nodes s))) (pct r) <> exact_floor (Z.of_nat (length (nodes s))) (pct r) + 1)
    by (intro E; apply Hnr; apply Hiff; exact E).
  lia.
Qed.

(* the literal bound fails inside the rounding region: n = 3, pct = the double nearest 1/3 *)
Definition rf_rule : orule :=
  mkOR (mkBR 2 100000 1 60000 0 (mkF false 1 0) 1) false (mkF false 6004799503160661 (-54)).
Definition rf_ops : list op :=
  [ Enter 1 true 1000 []; Exit 1 1000 1 true;
    Enter 1 true 1001 [1]; Exit 1 1001 2 false;
    Enter 1 true 1002 [1; 2]; Exit 1 1002 3 false ].

Lemma filter_exact_floor_refuted : exists r ops obj now order s' f h,
  pct_valid (pct r) = true /\ NoDup order /\
  step r (exec r init ops) (Enter obj true now order) = (s', OLists f h) /\
  exact_floor (Z.of_nat (length (nodes (exec r init ops)))) (pct r) < Z.of_nat (length f).
Proof.
  exists rf_rule, rf_ops, 1, 1003, [1; 2; 3].
  eexists. exists [1], []. split; [vm_compute; reflexivity|]. split.
  - repeat constructor; cbn; intuition lia.
  - split; [vm_compute; reflexivity|vm_compute; reflexivity].
Qed.
