(* Instantiation of the generic leap-array theorems at the real MetricBucket payload, the
   reuse-validity check, and the BucketLeapArray / SlidingWindowMetric level statements. *)
From SG Require Import Base.Prelude Base.GoInt Model.LeapArray Proofs.LeapArrayProofs.

(* ---------- the payload is a commutative merge with idempotent reset value ---------- *)
Lemma mb_assoc a b c : mb_op a (mb_op b c) = mb_op (mb_op a b) c.
Proof. unfold mb_op; cbn. f_equal; try lia. Qed.
Lemma mb_comm a b : mb_op a b = mb_op b a.
Proof. unfold mb_op; cbn. f_equal; lia. Qed.
Lemma mb_e_idem : mb_op mb_e mb_e = mb_e.
Proof. reflexivity. Qed.

(* ---------- event histories of a BucketLeapArray ---------- *)
Inductive sev :=
| SAdd (t ev c : Z)       (* AddCount(ev, c) at time t *)
| SConc (t cc : Z).       (* UpdateConcurrency(cc) at time t *)

Definition sev_time (x : sev) : Z := match x with SAdd t _ _ => t | SConc t _ => t end.
Definition sev_gev (x : sev) : Z * mb :=
  match x with SAdd t ev c => (t, mb_amount ev c) | SConc t cc => (t, mb_conc cc) end.

Definition bla_step (a : bla) (x : sev) : bla :=
  match x with SAdd t ev c => bla_add a t ev c | SConc t cc => bla_update_conc a t cc end.
Definition bla_run (a : bla) (h : list sev) : bla := fold_left bla_step h a.

Fixpoint smono (tl : Z) (h : list sev) : Prop :=
  match h with [] => True | x :: r => tl <= sev_time x /\ smono (sev_time x) r end.
Fixpoint slast (tl : Z) (h : list sev) : Z :=
  match h with [] => tl | x :: r => slast (sev_time x) r end.

Lemma smono_mono tl h : smono tl h -> mono tl (map sev_gev h).
Proof.
  revert tl; induction h as [|x r IH]; intros tl; cbn; [trivial|].
  destruct x; cbn; intros [H1 H2]; split; auto.
Qed.
Lemma slast_last tl h : last_t tl (map sev_gev h) = slast tl h.
Proof. revert tl; induction h as [|x r IH]; intros tl; cbn; [reflexivity|]. destruct x; cbn; apply IH. Qed.

Lemma bla_run_slots a h :
  la_slots (bla_run a h) = g_run mb_op mb_e (la_n a) (la_bl a) (la_slots a) (map sev_gev h)
  /\ la_n (bla_run a h) = la_n a /\ la_bl (bla_run a h) = la_bl a.
Proof.
  revert a; induction h as [|x r IH]; intros a; cbn [bla_run fold_left map g_run]; [auto|].
  fold (bla_run (bla_step a x) r). destruct (IH (bla_step a x)) as (H1 & H2 & H3).
  rewrite H1, H2, H3. destruct x; cbn; auto.
Qed.

(* the reference window sums, stated directly on the event list *)
Definition in_win (lo hi t : Z) : bool := (lo <=? t) && (t <? hi).

Definition win_sum (ev : Z) (h : list sev) (lo hi : Z) : Z :=
  sumZ (map (fun x => match x with
                      | SAdd t e c => if (e =? ev) && in_win lo hi t then c else 0
                      | SConc _ _ => 0 end) h).

Definition win_min_rt (h : list sev) (lo hi : Z) : Z :=
  fold_right (fun x acc => match x with
                           | SAdd t e c => if (e =? EvRt) && in_win lo hi t then Z.min c acc else acc
                           | SConc _ _ => acc end) DefaultStatisticMaxRt h.

Definition win_max_conc (h : list sev) (lo hi : Z) : Z :=
  fold_right (fun x acc => match x with
                           | SConc t cc => if in_win lo hi t then Z.max cc acc else acc
                           | SAdd _ _ _ => acc end) 0 h.

Definition ev_ok (ev : Z) : Prop := 0 <= ev <= 4.

Lemma ref_win_sum ev h lo hi : ev_ok ev ->
  mb_get ev (ref mb_op mb_e (map sev_gev h) lo hi) = win_sum ev h lo hi.
Proof.
  intros Hev. unfold win_sum. induction h as [|x r IH]; cbn [map LeapArray.ref sumZ fold_right].
  - unfold ev_ok, mb_get, EvPass, EvBlock, EvComplete, EvError, EvRt in *.
    repeat match goal with |- context [?a =? ?b] => destruct (Z.eqb_spec a b) end; reflexivity.
  - fold (sumZ (map (fun x => match x with
                      | SAdd t e c => if (e =? ev) && in_win lo hi t then c else 0
                      | SConc _ _ => 0 end) r)).
    destruct x as [t e0 c|t cc]; cbn [sev_gev]; unfold in_win in *.
    + destruct ((lo <=? t) && (t <? hi)); rewrite ?andb_false_r, ?andb_true_r; [|rewrite IH; lia].
      rewrite <- IH. unfold ev_ok, mb_get, mb_amount, mb_op, EvPass, EvBlock, EvComplete, EvError, EvRt in *.
      repeat match goal with |- context [?a =? ?b] => destruct (Z.eqb_spec a b); try lia end; cbn; lia.
    + destruct ((lo <=? t) && (t <? hi)); [|rewrite IH; lia].
      rewrite <- IH. unfold ev_ok, mb_get, mb_conc, mb_op, EvPass, EvBlock, EvComplete, EvError, EvRt in *.
      repeat match goal with |- context [?a =? ?b] => destruct (Z.eqb_spec a b); try lia end; cbn; lia.
Qed.

Ltac prj := cbn [m_minrt m_maxc c_pass c_block c_complete c_error c_rt mb_e mb_conc].
Lemma minrt_op x y : m_minrt (mb_op x y) = Z.min (m_minrt x) (m_minrt y). Proof. reflexivity. Qed.
Lemma maxc_op x y : m_maxc (mb_op x y) = Z.max (m_maxc x) (m_maxc y). Proof. reflexivity. Qed.

Lemma ref_minrt_le h lo hi : m_minrt (ref mb_op mb_e (map sev_gev h) lo hi) <= DefaultStatisticMaxRt.
Proof.
  induction h as [|y r IH]; cbn [map LeapArray.ref]; [prj; lia|].
  destruct y; cbn [sev_gev]; destruct ((lo <=? _) && (_ <? hi)); auto; rewrite minrt_op; lia.
Qed.

Lemma ref_maxc_ge h lo hi : 0 <= m_maxc (ref mb_op mb_e (map sev_gev h) lo hi).
Proof.
  induction h as [|y r IH]; cbn [map LeapArray.ref]; [prj; lia|].
  destruct y; cbn [sev_gev]; destruct ((lo <=? _) && (_ <? hi)); auto; rewrite maxc_op; lia.
Qed.

Lemma amount_minrt ev c : m_minrt (mb_amount ev c) = if ev =? EvRt then Z.min c DefaultStatisticMaxRt else DefaultStatisticMaxRt.
Proof.
  unfold mb_amount, EvPass, EvBlock, EvComplete, EvError, EvRt.
  repeat match goal with |- context [?a =? ?b] => destruct (Z.eqb_spec a b); try lia end; reflexivity.
Qed.
Lemma amount_maxc ev c : m_maxc (mb_amount ev c) = 0.
Proof.
  unfold mb_amount. repeat match goal with |- context [?a =? ?b] => destruct (Z.eqb_spec a b) end; reflexivity.
Qed.

Lemma ref_win_min_rt h lo hi :
  m_minrt (ref mb_op mb_e (map sev_gev h) lo hi) = win_min_rt h lo hi.
Proof.
  unfold win_min_rt. induction h as [|x r IH]; cbn [map LeapArray.ref fold_right]; [reflexivity|].
  pose proof (ref_minrt_le r lo hi) as HR.
  destruct x as [t e0 c|t cc]; cbn [sev_gev]; unfold in_win in *.
  - destruct ((lo <=? t) && (t <? hi)); rewrite ?andb_false_r, ?andb_true_r; [|exact IH].
    rewrite <- IH. rewrite minrt_op, amount_minrt.
    destruct (e0 =? EvRt); lia.
  - destruct ((lo <=? t) && (t <? hi)); [|exact IH].
    rewrite <- IH. rewrite minrt_op. unfold mb_conc. prj. lia.
Qed.

Lemma ref_win_max_conc h lo hi :
  m_maxc (ref mb_op mb_e (map sev_gev h) lo hi) = win_max_conc h lo hi.
Proof.
  unfold win_max_conc. induction h as [|x r IH]; cbn [map LeapArray.ref fold_right]; [reflexivity|].
  pose proof (ref_maxc_ge r lo hi) as HR.
  destruct x as [t e0 c|t cc]; cbn [sev_gev]; unfold in_win in *.
  - destruct ((lo <=? t) && (t <? hi)); [|exact IH].
    rewrite <- IH. rewrite maxc_op, amount_maxc. lia.
  - destruct ((lo <=? t) && (t <? hi)); [|exact IH].
    rewrite <- IH. rewrite maxc_op. unfold mb_conc. prj.
    (* UpdateConcurrency stores max(cc,0) only implicitly: a negative cc never raises the maximum *)
    lia.
Qed.

(* ---------- CheckValidityForReuseStatistic: a view is constructible only if it tiles ---------- *)
Lemma check_reuse_tiles vn vitv pn pitv :
  0 <= vn -> 0 <= vitv -> 0 <= pn -> 0 <= pitv ->
  check_reuse vn vitv pn pitv = true ->
  0 < vn /\ 0 < vitv /\ 0 < pn /\ 0 < pitv /\
  vitv mod vn = 0 /\ pitv mod pn = 0 /\
  pitv mod vitv = 0 /\                 (* the array is a whole number of view windows *)
  (vitv / vn) mod (pitv / pn) = 0 /\   (* a view bucket is a whole number of array buckets *)
  vitv mod (pitv / pn) = 0 /\          (* hence the view window is a whole number of array buckets *)
  vitv <= pitv /\ 0 < pitv / pn.
Proof.
  intros H1 H2 H3 H4. unfold check_reuse.
  repeat rewrite andb_true_iff. repeat rewrite negb_true_iff. repeat rewrite orb_false_iff.
  repeat rewrite negb_false_iff. repeat rewrite Z.eqb_eq. repeat rewrite Z.eqb_neq.
  intros (((((Hv1 & Hv2) & Hv3) & ((Hp1 & Hp2) & Hp3)) & Hd1) & Hd2).
  assert (Hvn0 : 0 < vn) by lia. assert (Hvitv0 : 0 < vitv) by lia. assert (Hpn0 : 0 < pn) by lia. assert (Hpitv0 : 0 < pitv) by lia.
  assert (Hpbl : 0 < pitv / pn).
  { apply Z.mod_divide in Hp3; [|lia]. destruct Hp3 as [q ->]. rewrite Z.div_mul by lia. nia. }
  assert (Hvv : vitv mod (pitv / pn) = 0).
  { apply Z.mod_divide in Hv3; [|lia]. destruct Hv3 as [q Hq].
    rewrite Hq in Hd2. rewrite Z.div_mul in Hd2 by lia.
    apply Z.mod_divide in Hd2; [|lia]. destruct Hd2 as [r ->].
    rewrite Hq. replace (r * (pitv / pn) * vn) with (r * vn * (pitv / pn)) by ring. apply Z.mod_mul. lia. }
  assert (vitv <= pitv).
  { apply Z.mod_divide in Hd1; [|lia]. destruct Hd1 as [q Hq1]. clear - Hq1 Hvitv0 Hpitv0.
    destruct (Z_le_gt_dec q 0) as [Hq|Hq].
    - pose proof (Z.mul_nonpos_nonneg q vitv Hq ltac:(lia)). lia.
    - pose proof (mul_pos_ge q vitv ltac:(lia) Hvitv0). lia. }
  repeat split; auto.
Qed.

(* ---------- BucketLeapArray / view level theorems ---------- *)
Section Bla.
Variable n itv : Z.
Hypothesis Hn : 0 < n.
Hypothesis Hdiv : itv mod n = 0.     (* NewLeapArray's validity check *)
Hypothesis Hitv : 0 < itv < two32.   (* uint32 *)

Let bl := itv / n.
Lemma bl_pos : 0 < bl.
Proof. unfold bl. apply Z.mod_divide in Hdiv; [|lia]. destruct Hdiv as [q ->]. rewrite Z.div_mul by lia. nia. Qed.
Lemma itv_eq : n * bl = itv.
Proof. unfold bl. apply Z.mod_divide in Hdiv; [|lia]. destruct Hdiv as [q ->]. rewrite Z.div_mul by lia. ring. Qed.
Lemma nbl_lt : n * bl < two32. Proof. rewrite itv_eq. lia. Qed.

Notation INV := (@Inv mb mb_op mb_e n bl).
Ltac mbfacts := first [exact mb_assoc | exact mb_comm | exact mb_e_idem | exact Hn | exact bl_pos | exact nbl_lt].

Lemma bla_inv t0 h : 0 < t0 -> smono t0 h ->
  INV t0 (la_slots (bla_run (bla_new n itv t0) h)) (map sev_gev h) (slast t0 h).
Proof.
  intros Ht0 Hm. destruct (bla_run_slots (bla_new n itv t0) h) as (-> & _ & _).
  cbn [bla_new la_n la_bl la_slots]. fold bl. rewrite <- slast_last.
  change (map sev_gev h) with ([] ++ map sev_gev h) at 2.
  apply Inv_run; try mbfacts.
  - apply Inv_init; try mbfacts. assumption.
  - apply smono_mono. assumption.
Qed.

(* CountWithTime / Values / MinRt / MaxConcurrency of the array itself *)
Theorem bla_read_eq_ref t0 h now : 0 < t0 -> smono t0 h -> slast t0 h <= now < two62' ->
  snd (bla_read (bla_run (bla_new n itv t0) h) now)
  = ref mb_op mb_e (map sev_gev h) (bstart bl now + bl - itv) (bstart bl now + bl).
Proof.
  intros Ht0 Hm Hnow. pose proof (bla_inv t0 h Ht0 Hm) as HI.
  destruct (bla_run_slots (bla_new n itv t0) h) as (Hs & Hn' & Hbl').
  unfold bla_read. rewrite Hn', Hbl'. cbn [bla_new la_n la_bl]. fold bl.
  assert (HR : snd (g_read mb_op mb_e n bl (la_slots (bla_run (bla_new n itv t0) h)) now)
               = ref mb_op mb_e (map sev_gev h) (bstart bl now + bl - n * bl) (bstart bl now + bl)).
  { eapply read_eq_ref; try mbfacts; eassumption. }
  destruct (g_read mb_op mb_e n bl (la_slots (bla_run (bla_new n itv t0) h)) now) as [l m] eqn:E.
  cbn [snd] in *. rewrite HR, itv_eq. reflexivity.
Qed.

(* a window view (SlidingWindowMetric) over the array, read without refreshing *)
Theorem view_eq_ref t0 h now vn vitv :
  0 < t0 -> smono t0 h -> 0 <= vn -> 0 <= vitv ->
  check_reuse vn vitv n itv = true ->
  0 < now < two62' -> slast t0 h < two62' ->
  slast t0 h < bstart bl now + bl - vitv + itv ->     (* reads at or after the last event always satisfy this *)
  view_merge (bla_run (bla_new n itv t0) h) {| v_n := vn; v_itv := vitv |} now
  = ref mb_op mb_e (map sev_gev h) (bstart bl now + bl - vitv) (bstart bl now + bl).
Proof.
  intros Ht0 Hm Hvn Hvitv Hck Hnow Hl Hrec. pose proof (bla_inv t0 h Ht0 Hm) as HI.
  destruct (check_reuse_tiles vn vitv n itv Hvn Hvitv ltac:(lia) ltac:(lia) Hck)
    as (_ & Hv0 & _ & _ & _ & _ & _ & _ & Hvm & Hvle & _).
  destruct (bla_run_slots (bla_new n itv t0) h) as (Hs & Hn' & Hbl').
  unfold view_merge. rewrite Hn', Hbl'. cbn [bla_new la_n la_bl v_itv]. fold bl.
  eapply view_read_eq_ref; try mbfacts; try eassumption; rewrite ?itv_eq; auto; lia.
Qed.

Lemma read_now_ok t0 h now vitv : 0 < vitv <= itv -> slast t0 h <= now ->
  slast t0 h < bstart bl now + bl - vitv + itv.
Proof.
  intros Hv Hl. unfold bstart. pose proof (Z.mod_pos_bound now bl bl_pos). lia.
Qed.

(* previous-window reads (GetPreviousQPS): the view read one view bucket earlier, valid as
   long as the array is longer than the view by at least that bucket *)
Theorem view_previous_eq_ref t0 h now vn vitv :
  0 < t0 -> smono t0 h -> 0 <= vn -> 0 <= vitv ->
  check_reuse vn vitv n itv = true ->
  vitv / vn <= itv - vitv ->
  slast t0 h <= now < two62' -> 0 < now - vitv / vn ->
  let prev := now - vitv / vn in
  view_merge (bla_run (bla_new n itv t0) h) {| v_n := vn; v_itv := vitv |} prev
  = ref mb_op mb_e (map sev_gev h) (bstart bl prev + bl - vitv) (bstart bl prev + bl).
Proof.
  intros Ht0 Hm Hvn Hvitv Hck Hshort Hnow Hprev prev.
  destruct (check_reuse_tiles vn vitv n itv Hvn Hvitv ltac:(lia) ltac:(lia) Hck)
    as (Hvn0 & Hv0 & _ & _ & _ & _ & _ & _ & Hvm & Hvle & _).
  assert (0 <= vitv / vn) by (apply Z.div_pos; lia).
  apply view_eq_ref; auto; try (unfold prev; lia).
  unfold prev, bstart. pose proof (Z.mod_pos_bound (now - vitv / vn) bl bl_pos). lia.
Qed.

(* under monotone time the "time is behind" error branch of currentBucketOfTime is unreachable *)
Theorem bla_never_behind t0 h now : 0 < t0 -> smono t0 h -> slast t0 h <= now ->
  g_current mb_e n bl (la_slots (bla_run (bla_new n itv t0) h)) now <> None.
Proof.
  intros Ht0 Hm Hnow. pose proof (bla_inv t0 h Ht0 Hm) as HI.
  assert (Hx : exists l', g_current mb_e n bl (la_slots (bla_run (bla_new n itv t0) h)) now = Some l' /\
               INV t0 l' (map sev_gev h) now /\ fst (slot_at mb_e l' (tidx n bl now)) = bstart bl now).
  { eapply current_some; try mbfacts; eassumption. }
  destruct Hx as (l' & -> & _). discriminate.
Qed.

(* ValuesConditional (hence MetricsOnCondition / SecondMetricsOnCondition and every view):
   nothing older than the window is ever returned ... *)
Theorem bla_nothing_stale t0 h now pred s :
  0 < t0 -> smono t0 h -> 0 < now < two62' -> slast t0 h < two62' ->
  In s (g_values_cond n bl (la_slots (bla_run (bla_new n itv t0) h)) now pred) ->
  fst s mod bl = 0 /\ bstart bl now + bl - itv <= fst s <= bstart bl now /\ pred (fst s) = true /\
  snd s = ref mb_op mb_e (map sev_gev h) (fst s) (fst s + bl).
Proof.
  intros Ht0 Hm Hnow Hl Hin. pose proof (bla_inv t0 h Ht0 Hm) as HI.
  rewrite <- itv_eq.
  eapply cond_nothing_stale; try mbfacts; eassumption.
Qed.

(* ... and nothing inside it is lost *)
Theorem bla_nothing_lost t0 h now pred b :
  0 < t0 -> smono t0 h -> 0 < now < two62' -> slast t0 h < two62' ->
  b mod bl = 0 -> bstart bl now + bl - itv <= b <= bstart bl now -> pred b = true ->
  slast t0 h < b + itv ->
  ref mb_op mb_e (map sev_gev h) b (b + bl) <> mb_e ->
  In (b, ref mb_op mb_e (map sev_gev h) b (b + bl))
     (g_values_cond n bl (la_slots (bla_run (bla_new n itv t0) h)) now pred).
Proof.
  intros Ht0 Hm Hnow Hl Hb Hr Hp Hrec Hne. pose proof (bla_inv t0 h Ht0 Hm) as HI.
  eapply cond_nothing_lost; try mbfacts; try eassumption; rewrite ?itv_eq; assumption.
Qed.

End Bla.
