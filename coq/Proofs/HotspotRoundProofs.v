(* int64(math.Round(float64(x))) as the Go code of the hot-parameter throttling controller computes it
   (Model/HotspotStep.v: i64_of_round (f_of_i64 x), the text the leaf translator regenerates) equals the
   model's [f64_round_trip x] (Model/Hotspot.v).  Through Flocq's formalisation of Coq's primitive floats
   (FloatAxioms), as in Proofs/C11Float.v. *)
From Coq Require Import ZArith Reals Floats Lia Lra.
From Flocq Require Import Core IEEE754.BinarySingleNaN IEEE754.PrimFloat.
From SG Require Import Base.Prelude Base.GoInt Base.GoFloat Model.LRU Model.Hotspot Model.HotspotStep
  Proofs.C11Float.
#[local] Open Scope Z_scope.

Lemma bpow_nonneg_Z e : 0 <= e -> bpow radix2 e = IZR (2 ^ e).
Proof. intros He. rewrite <- (IZR_Zpower radix2 e) by exact He. reflexivity. Qed.

Lemma bpow_neg_Z e : e < 0 -> bpow radix2 e = (/ IZR (2 ^ (- e)))%R.
Proof.
  intros He. replace e with (- (- e)) at 1 by lia. rewrite bpow_opp. rewrite bpow_nonneg_Z by lia. reflexivity.
Qed.

(* a finite double whose value is the integer n rounds (math.Round) to n *)
Lemma round_Z_of_int f n : fin f -> FR f = IZR n -> round_Z f = Some n.
Proof.
  unfold fin. rewrite fin_SF, FR_SF. unfold round_Z.
  destruct (Prim2SF f) as [s|s| |s m e]; cbn [is_finite_SF SF2R]; try discriminate.
  - intros _ H. apply eq_IZR in H. subst n. reflexivity.
  - intros _ H. unfold F2R in H. cbn [Fnum Fexp] in H. f_equal.
    destruct (0 <=? e) eqn:Ee.
    + apply Z.leb_le in Ee. rewrite bpow_nonneg_Z in H by exact Ee. rewrite <- mult_IZR in H.
      apply eq_IZR in H. destruct s; cbn [cond_Zopp] in H; lia.
    + apply Z.leb_gt in Ee. rewrite bpow_neg_Z in H by exact Ee.
      assert (Hp : 0 < 2 ^ (- e)) by (apply Z.pow_pos_nonneg; lia).
      assert (Hq : (IZR (2 ^ (- e)) <> 0)%R) by (apply not_0_IZR; lia).
      assert (Hm : cond_Zopp s (Z.pos m) = n * 2 ^ (- e)).
      { apply eq_IZR. rewrite mult_IZR. rewrite <- H. field. exact Hq. }
      assert (Hh : 2 ^ (- e) = 2 * 2 ^ (- e - 1)).
      { replace (- e) with (Z.succ (- e - 1)) at 1 by lia. apply Z.pow_succ_r. lia. }
      assert (Hh0 : 0 < 2 ^ (- e - 1)) by (apply Z.pow_pos_nonneg; lia).
      destruct s; cbn [cond_Zopp] in Hm.
      * assert (Em : Z.pos m = (- n) * 2 ^ (- e)) by lia. rewrite Em.
        rewrite Z.div_add_l by lia. rewrite Z.div_small by lia. lia.
      * rewrite Hm. rewrite Z.div_add_l by lia. rewrite Z.div_small by lia. lia.
Qed.

(* below 2^53 the conversion chain is the identity: what [f64_round_trip] says *)
Lemma round_trip_small x : Z.abs x < 2 ^ 53 -> i64_of_round (f_of_i64 x) = f64_round_trip x.
Proof.
  intros Hx. destruct (of_i64_ok x ltac:(lia)) as [Hv Hf].
  unfold i64_of_round. rewrite (round_Z_of_int _ x Hf Hv).
  unfold f64_round_trip, two53.
  assert (E1 : (Z.abs x <? 9007199254740992) = true) by (apply Z.ltb_lt; lia).
  rewrite E1.
  assert (E2 : ((- two63 <=? x) && (x <? two63))%bool = true).
  { Transparent two63. unfold two63. apply andb_true_intro. split; [apply Z.leb_le|apply Z.ltb_lt]; lia. }
  rewrite E2. reflexivity.
Qed.
