(* Lemmas about Model/Chain.v, part 1: slot ordering (Add*Slot) and the shape of the call
   log produced by SlotChain.Entry / exit (order, first block, once-only, fail-open). *)
From Coq Require Import Sorting.Sorted Sorting.Permutation.
From SG Require Import Base.Prelude Model.Chain.

(* ---------------------------------------------------------------------------------- *)
(* stable insertion                                                                     *)

Section Sorting.
Context {A : Type} (ord : A -> Z).

Definition ole (a b : A) : Prop := ord a <= ord b.
Definition fv (v : Z) (l : list A) : list A := filter (fun y => ord y =? v) l.

Lemma ins_perm x l : Permutation (ins ord x l) (x :: l).
Proof.
  induction l as [|y r IH]; cbn; [apply Permutation_refl|].
  destruct (ord x <? ord y); [apply Permutation_refl|].
  eapply perm_trans; [apply perm_skip, IH|apply perm_swap].
Qed.

Lemma ins_forall (P : A -> Prop) x l : P x -> Forall P l -> Forall P (ins ord x l).
Proof.
  intros Hx Hl. induction Hl as [|y r Hy Hr IH]; cbn; [constructor; auto|].
  destruct (ord x <? ord y); constructor; auto.
Qed.

Lemma ins_sorted x l : StronglySorted ole l -> StronglySorted ole (ins ord x l).
Proof.
  induction 1 as [|y r Hs IH Hall]; cbn; [repeat constructor|].
  destruct (ord x <? ord y) eqn:E.
  - constructor; [constructor; auto|]. constructor; [unfold ole; lia|].
    eapply Forall_impl; [|exact Hall]. unfold ole. intros a Ha. lia.
  - constructor; auto. apply ins_forall; auto. unfold ole. lia.
Qed.

Lemma sort_stable_snoc l x : sort_stable ord (l ++ [x]) = ins ord x (sort_stable ord l).
Proof. unfold sort_stable. rewrite fold_left_app. reflexivity. Qed.

Lemma sort_stable_sorted l : StronglySorted ole (sort_stable ord l).
Proof.
  induction l as [|x l IH] using rev_ind; [constructor|].
  rewrite sort_stable_snoc. apply ins_sorted, IH.
Qed.

Lemma sort_stable_perm l : Permutation (sort_stable ord l) l.
Proof.
  induction l as [|x l IH] using rev_ind; [apply Permutation_refl|].
  rewrite sort_stable_snoc. eapply perm_trans; [apply ins_perm|].
  eapply perm_trans; [apply perm_skip, IH|]. apply Permutation_cons_append.
Qed.

Lemma fv_none v l : Forall (fun y => v < ord y) l -> fv v l = [].
Proof.
  induction 1 as [|y r Hy _ IH]; cbn; [reflexivity|].
  destruct (ord y =? v) eqn:E; [lia|exact IH].
Qed.

(* among equal order values the new slot goes last: insertion order is kept on ties *)
Lemma fv_ins v x l : StronglySorted ole l ->
  fv v (ins ord x l) = fv v l ++ (if ord x =? v then [x] else []).
Proof.
  induction 1 as [|y r Hs IH Hall]; cbn.
  - destruct (ord x =? v); reflexivity.
  - destruct (ord x <? ord y) eqn:E.
    + cbn. destruct (ord x =? v) eqn:Ex.
      * assert (Hn : fv v (y :: r) = []).
        { apply fv_none. constructor; [lia|]. eapply Forall_impl; [|exact Hall]. unfold ole. intros a Ha. lia. }
        unfold fv in Hn. cbn in Hn. rewrite Hn. reflexivity.
      * rewrite app_nil_r. reflexivity.
    + cbn. destruct (ord y =? v); cbn; unfold fv in IH; rewrite IH; reflexivity.
Qed.

Lemma fv_sort_stable v l : fv v (sort_stable ord l) = fv v l.
Proof.
  induction l as [|x l IH] using rev_ind; [reflexivity|].
  rewrite sort_stable_snoc, fv_ins by apply sort_stable_sorted.
  rewrite IH. unfold fv. rewrite filter_app. cbn. destruct (ord x =? v); reflexivity.
Qed.

(* the list obtained by adding xs one after the other to l0 *)
Lemma adds_sorted xs l0 : StronglySorted ole l0 -> StronglySorted ole (fold_left (add_slot ord) xs l0).
Proof.
  revert l0. induction xs as [|x xs IH]; intros l0 H0; cbn; [exact H0|].
  apply IH. apply sort_stable_sorted.
Qed.

Lemma adds_fv v xs l0 : fv v (fold_left (add_slot ord) xs l0) = fv v l0 ++ fv v xs.
Proof.
  revert l0. induction xs as [|x xs IH]; intros l0; cbn [fold_left]; [unfold fv; cbn; rewrite app_nil_r; reflexivity|].
  rewrite IH. unfold add_slot. rewrite fv_sort_stable. unfold fv. rewrite filter_app, <- app_assoc.
  f_equal. cbn. destruct (ord x =? v); reflexivity.
Qed.

Lemma adds_perm xs l0 : Permutation (fold_left (add_slot ord) xs l0) (l0 ++ xs).
Proof.
  revert l0. induction xs as [|x xs IH]; intros l0; cbn; [rewrite app_nil_r; apply Permutation_refl|].
  eapply perm_trans; [apply IH|]. unfold add_slot.
  eapply perm_trans; [apply Permutation_app_tail, sort_stable_perm|]. rewrite <- app_assoc. apply Permutation_refl.
Qed.

End Sorting.

(* the slots of each kind, in insertion order *)
Definition preps_of (seq : list slot) : list pslot := flat_map (fun s => match s with SP p => [p] | _ => [] end) seq.
Definition checks_of (seq : list slot) : list cslot := flat_map (fun s => match s with SC c => [c] | _ => [] end) seq.
Definition stats_of (seq : list slot) : list sslot := flat_map (fun s => match s with SS c => [c] | _ => [] end) seq.

Lemma build_from seq ch :
  preps (fold_left add seq ch) = fold_left (add_slot p_ord) (preps_of seq) (preps ch) /\
  checks (fold_left add seq ch) = fold_left (add_slot c_ord) (checks_of seq) (checks ch) /\
  stats (fold_left add seq ch) = fold_left (add_slot s_ord) (stats_of seq) (stats ch).
Proof.
  revert ch. induction seq as [|s seq IH]; intros ch; cbn; [auto|].
  destruct (IH (add ch s)) as (Hp & Hc & Hs). rewrite Hp, Hc, Hs.
  destruct s; cbn; auto.
Qed.

Definition ordered_stable {A} (ord : A -> Z) (inserted result : list A) : Prop :=
  StronglySorted (ole ord) result /\
  (forall v, fv ord v result = fv ord v inserted) /\
  Permutation result inserted.

Lemma build_ordered seq :
  ordered_stable p_ord (preps_of seq) (preps (build seq)) /\
  ordered_stable c_ord (checks_of seq) (checks (build seq)) /\
  ordered_stable s_ord (stats_of seq) (stats (build seq)).
Proof.
  unfold build. destruct (build_from seq empty_chain) as (Hp & Hc & Hs). rewrite Hp, Hc, Hs. cbn.
  repeat split; try (apply adds_sorted; constructor); try (intros v; rewrite adds_fv; reflexivity);
    apply (adds_perm _ _ []).
Qed.

(* ---------------------------------------------------------------------------------- *)
(* the loops of SlotChain.Entry                                                         *)

Definition pcall (p : pslot) : call := LPrep (p_id p).
Definition ccall (c : cslot) : call := LCheck (c_id c).
Definition scall (x : ctx) (be : option berr) (s : sslot) : list call :=
  if s_real s then [] else
  [match be with
   | None => LPassed (s_id s) (x_res x) (x_batch x)
   | Some e => LBlocked (s_id s) (x_res x) (x_batch x) e
   end].
Definition scalls (x : ctx) (be : option berr) (ss : list sslot) : list call := flat_map (scall x be) ss.

Lemma scalls_cons x be s r : scalls x be (s :: r) = scall x be s ++ scalls x be r.
Proof. reflexivity. Qed.

Definition p_panics (flag : Z) (p : pslot) : Prop := pbeh_of p flag = PPanic.
Definition c_benign (flag : Z) (c : cslot) : Prop :=
  match cbeh_of c flag with CPass | CNil | CWait => True | _ => False end.
Definition s_panics (flag : Z) (s : sslot) : Prop := sbeh_of s flag = SPanic.

Lemma run_preps_flag ps x lg : x_flag (fst (fst (run_preps ps x lg))) = x_flag x.
Proof.
  revert x lg. induction ps as [|p r IH]; intros x lg; cbn; [reflexivity|].
  destruct (pbeh_of p (x_flag x)).
  - apply IH.
  - rewrite IH. reflexivity.
  - reflexivity.
Qed.

(* general shape: the prepare slots called are a prefix of the chain's list, in list order *)
Lemma run_preps_shape ps x lg :
  exists ps1 ps2, ps = ps1 ++ ps2 /\
    snd (fst (run_preps ps x lg)) = rev (map pcall ps1) ++ lg /\
    Forall (fun p => ~ p_panics (x_flag x) p) (removelast ps1) /\
    (snd (run_preps ps x lg) = false -> ps2 = [] /\ Forall (fun p => ~ p_panics (x_flag x) p) ps1) /\
    (snd (run_preps ps x lg) = true -> exists p, last ps1 p = p /\ ps1 <> [] /\ p_panics (x_flag x) (last ps1 p)).
Proof.
  revert x lg. induction ps as [|p r IH]; intros x lg.
  - exists [], []. cbn. repeat split; auto; try constructor. discriminate.
  - cbn [run_preps]. unfold p_panics in *.
    assert (Hgen : forall x', x_flag x' = x_flag x ->
      pbeh_of p (x_flag x) <> PPanic ->
      exists ps1 ps2, p :: r = ps1 ++ ps2 /\
        snd (fst (run_preps r x' (LPrep (p_id p) :: lg))) = rev (map pcall ps1) ++ lg /\
        Forall (fun p => pbeh_of p (x_flag x) <> PPanic) (removelast ps1) /\
        (snd (run_preps r x' (LPrep (p_id p) :: lg)) = false -> ps2 = [] /\ Forall (fun p => pbeh_of p (x_flag x) <> PPanic) ps1) /\
        (snd (run_preps r x' (LPrep (p_id p) :: lg)) = true -> exists p0, last ps1 p0 = p0 /\ ps1 <> [] /\ pbeh_of (last ps1 p0) (x_flag x) = PPanic)).
    { intros x' Hf Hnp. destruct (IH x' (LPrep (p_id p) :: lg)) as (a & b & Hab & Hlg & Hrl & Hok & Hpan).
      rewrite Hf in *. exists (p :: a), b. split; [rewrite Hab; reflexivity|].
      split; [rewrite Hlg; cbn; rewrite <- app_assoc; reflexivity|].
      split.
      { destruct a as [|a0 a']; [constructor|]. cbn [removelast]. constructor; auto. }
      split.
      { intros Hs. destruct (Hok Hs) as [Hb Ha]. split; auto. }
      { intros Hs. destruct (Hpan Hs) as (p0 & Hl & Hne & Hp0).
        destruct a as [|a0 a']; [congruence|].
        exists p0. cbn [last]. repeat split; auto; discriminate. } }
    destruct (pbeh_of p (x_flag x)) eqn:E.
    + apply Hgen; [reflexivity|congruence].
    + apply Hgen; [reflexivity|congruence].
    + exists [p], r. cbn. repeat split; auto; try constructor; try discriminate.
      exists p. repeat split; auto; discriminate.
Qed.

(* exact form when no prepare slot panics *)
Lemma run_preps_ok ps x lg :
  Forall (fun p => ~ p_panics (x_flag x) p) ps ->
  snd (fst (run_preps ps x lg)) = rev (map pcall ps) ++ lg /\ snd (run_preps ps x lg) = false.
Proof.
  revert x lg. induction ps as [|p r IH]; intros x lg H; [cbn; auto|].
  inversion H as [|? ? Hp Hr]; subst. unfold p_panics in *. cbn [run_preps].
  destruct (pbeh_of p (x_flag x)) eqn:E; try congruence.
  - destruct (IH x (LPrep (p_id p) :: lg) Hr) as [H1 H2]. rewrite H1, H2. cbn. rewrite <- app_assoc. auto.
  - destruct (IH (set_node x) (LPrep (p_id p) :: lg) Hr) as [H1 H2]. rewrite H1, H2. cbn. rewrite <- app_assoc. auto.
Qed.

Lemma run_preps_panic ps1 p ps2 x lg :
  Forall (fun p => ~ p_panics (x_flag x) p) ps1 -> p_panics (x_flag x) p ->
  snd (fst (run_preps (ps1 ++ p :: ps2) x lg)) = rev (map pcall (ps1 ++ [p])) ++ lg /\
  snd (run_preps (ps1 ++ p :: ps2) x lg) = true.
Proof.
  revert x lg. induction ps1 as [|q r IH]; intros x lg H Hp.
  - cbn. unfold p_panics in Hp. rewrite Hp. cbn. auto.
  - inversion H as [|? ? Hq Hr]; subst. unfold p_panics in *. cbn [run_preps app].
    destruct (pbeh_of q (x_flag x)) eqn:E; try congruence.
    + destruct (IH x (LPrep (p_id q) :: lg) Hr Hp) as [H1 H2]. rewrite H1, H2. cbn. rewrite <- !app_assoc. auto.
    + destruct (IH (set_node x) (LPrep (p_id q) :: lg) Hr Hp) as [H1 H2]. rewrite H1, H2. cbn. rewrite <- !app_assoc. auto.
Qed.

(* rule checks: all benign => all run, no block *)
Lemma run_checks_ok cs flag lg :
  Forall (c_benign flag) cs ->
  run_checks cs flag lg = (None, rev (map ccall cs) ++ lg, false).
Proof.
  revert lg. induction cs as [|c r IH]; intros lg H; [reflexivity|].
  inversion H as [|? ? Hc Hr]; subst. unfold c_benign in Hc. cbn [run_checks].
  destruct (cbeh_of c flag); try contradiction; rewrite IH by auto; cbn; rewrite <- app_assoc; reflexivity.
Qed.

(* first block wins: the slots before it run, it runs, nothing after it runs *)
Lemma run_checks_block pre c post flag lg e :
  Forall (c_benign flag) pre -> cbeh_of c flag = CBlock e ->
  run_checks (pre ++ c :: post) flag lg = (Some e, rev (map ccall (pre ++ [c])) ++ lg, false).
Proof.
  revert lg. induction pre as [|q r IH]; intros lg H Hc.
  - cbn. rewrite Hc. reflexivity.
  - inversion H as [|? ? Hq Hr]; subst. unfold c_benign in Hq. cbn [run_checks app].
    destruct (cbeh_of q flag); try contradiction; rewrite IH by auto; cbn; rewrite <- !app_assoc; reflexivity.
Qed.

Lemma run_checks_panic pre c post flag lg :
  Forall (c_benign flag) pre -> cbeh_of c flag = CPanic ->
  run_checks (pre ++ c :: post) flag lg = (None, rev (map ccall (pre ++ [c])) ++ lg, true).
Proof.
  revert lg. induction pre as [|q r IH]; intros lg H Hc.
  - cbn. rewrite Hc. reflexivity.
  - inversion H as [|? ? Hq Hr]; subst. unfold c_benign in Hq. cbn [run_checks app].
    destruct (cbeh_of q flag); try contradiction; rewrite IH by auto; cbn; rewrite <- !app_assoc; reflexivity.
Qed.

(* every rule-check list decomposes into one of the three cases above *)
Lemma checks_cases cs flag :
  Forall (c_benign flag) cs \/
  exists pre c post, cs = pre ++ c :: post /\ Forall (c_benign flag) pre /\
     ((exists e, cbeh_of c flag = CBlock e) \/ cbeh_of c flag = CPanic).
Proof.
  induction cs as [|c r IH]; [left; constructor|].
  destruct (cbeh_of c flag) eqn:E.
  1-3: destruct IH as [IH|(pre & c' & post & -> & Hpre & Hc)];
       [left; constructor; auto; unfold c_benign; rewrite E; exact I
       |right; exists (c :: pre), c', post; repeat split; auto; constructor; auto; unfold c_benign; rewrite E; exact I].
  - right. exists [], c, r. repeat split; auto. left. eauto.
  - right. exists [], c, r. repeat split; auto.
Qed.

(* statistic loop of Entry: absent panics every slot is told the outcome exactly once, in order *)
Lemma run_stats_ok ss x be nd lg :
  Forall (fun s => ~ s_panics (x_flag x) s) ss ->
  snd (fst (run_stats ss x be nd lg)) = rev (scalls x be ss) ++ lg /\ snd (run_stats ss x be nd lg) = false.
Proof.
  revert nd lg. induction ss as [|s r IH]; intros nd lg H; [cbn; auto|].
  inversion H as [|? ? Hs Hr]; subst. unfold s_panics, sbeh_of in Hs. cbn [run_stats]. rewrite scalls_cons. unfold scall.
  destruct (s_real s) eqn:Er.
  - cbn [app]. apply IH; auto.
  - unfold sbeh_of. rewrite Er. destruct (pick SOk (s_behs s) (x_flag x)) eqn:E; [|congruence].
    destruct (IH nd ((match be with None => LPassed (s_id s) (x_res x) (x_batch x) | Some e => LBlocked (s_id s) (x_res x) (x_batch x) e end) :: lg) Hr) as [H1 H2].
    rewrite H1, H2. split; [|reflexivity].
    rewrite rev_app_distr. cbn [rev app]. rewrite <- app_assoc. reflexivity.
Qed.

(* in general the statistic slots told are a prefix, in order *)
Lemma run_stats_shape ss x be nd lg :
  exists ss1 ss2, ss = ss1 ++ ss2 /\ snd (fst (run_stats ss x be nd lg)) = rev (scalls x be ss1) ++ lg /\
    (snd (run_stats ss x be nd lg) = false -> ss2 = []).
Proof.
  revert nd lg. induction ss as [|s r IH]; intros nd lg.
  - exists [], []. cbn. auto.
  - cbn [run_stats]. destruct (s_real s) eqn:Er.
    + destruct (IH (match be with None => on_nodes nd x (fun c => node_pass c (x_batch x)) | Some _ => on_nodes nd x (fun c => node_block c (x_batch x)) end) lg)
        as (a & b & Hab & Hlg & Hok).
      exists (s :: a), b. split; [rewrite Hab; reflexivity|]. split; auto.
      rewrite Hlg, scalls_cons. unfold scall. rewrite Er. reflexivity.
    + destruct (sbeh_of s (x_flag x)) eqn:E.
      * destruct (IH nd ((match be with None => LPassed (s_id s) (x_res x) (x_batch x) | Some e => LBlocked (s_id s) (x_res x) (x_batch x) e end) :: lg))
          as (a & b & Hab & Hlg & Hok).
        exists (s :: a), b. split; [rewrite Hab; reflexivity|]. split; auto.
        rewrite Hlg, scalls_cons. unfold scall. rewrite Er. rewrite rev_app_distr. cbn [rev app]. rewrite <- app_assoc. reflexivity.
      * exists [s], r. rewrite scalls_cons. unfold scall. rewrite Er. cbn. repeat split; auto. discriminate.
Qed.

(* completions *)
Definition dcall (x : ctx) (t : Z) (s : sslot) : list call :=
  if s_real s then [] else [LDone (s_id s) (x_res x) (x_batch x) (x_err x) (t - x_start x)].
Definition dcalls (x : ctx) (t : Z) (ss : list sslot) : list call := flat_map (dcall x t) ss.
Lemma dcalls_cons x t s r : dcalls x t (s :: r) = dcall x t s ++ dcalls x t r.
Proof. reflexivity. Qed.

Lemma ctx_rt_set_rt x t : ctx_rt (set_rt x (t - x_start x)) t = t - x_start x.
Proof. unfold ctx_rt. cbn. destruct (t - x_start x =? 0) eqn:E; lia. Qed.

(* x' ranges over the context as modified by the real statistic slot (PutRt) *)
Lemma run_done_ok ss x x' t nd lg :
  (x' = x \/ x' = set_rt x (t - x_start x)) -> x_rt x = 0 ->
  Forall (fun s => ~ s_panics (x_flag x) s) ss ->
  snd (fst (run_done ss x' t nd lg)) = rev (dcalls x t ss) ++ lg /\ snd (run_done ss x' t nd lg) = false.
Proof.
  intros Hx Hrt. revert x' Hx nd lg. induction ss as [|s r IH]; intros x' Hx nd lg H; [cbn; auto|].
  inversion H as [|s0 l0 Hs Hr]; subst s0 l0. unfold s_panics, sbeh_of in Hs.
  assert (Hf : x_flag x' = x_flag x) by (destruct Hx; subst; reflexivity).
  assert (Hst : x_start x' = x_start x) by (destruct Hx; subst; reflexivity).
  assert (Hres : x_res x' = x_res x /\ x_batch x' = x_batch x /\ x_err x' = x_err x) by (destruct Hx; subst; cbn; auto).
  destruct Hres as (Hres & Hb & He).
  assert (Hcr : ctx_rt x' t = t - x_start x).
  { destruct Hx; subst. - unfold ctx_rt. rewrite Hrt. reflexivity. - apply ctx_rt_set_rt. }
  cbn [run_done]. rewrite dcalls_cons. unfold dcall.
  destruct (s_real s) eqn:Er.
  - cbn [app]. rewrite Hst. apply IH; auto.
    right. destruct Hx; subst; reflexivity.
  - unfold sbeh_of. rewrite Er, Hf. destruct (pick SOk (s_behs s) (x_flag x)) eqn:E; [|congruence].
    rewrite Hres, Hb, He, Hcr.
    destruct (IH x' Hx nd (LDone (s_id s) (x_res x) (x_batch x) (x_err x) (t - x_start x) :: lg) Hr) as [H1 H2].
    rewrite H1, H2. split; [|reflexivity]. rewrite rev_app_distr. cbn [rev app]. rewrite <- app_assoc. reflexivity.
Qed.

Definition hcall (h : Z * hbeh) : call := LHandler (fst h).
Definition h_panics (h : Z * hbeh) : Prop := snd h = HPanic.

Lemma run_handlers_ok hs lg :
  Forall (fun h => ~ h_panics h) hs -> run_handlers hs lg = (rev (map hcall hs) ++ lg, false).
Proof.
  revert lg. induction hs as [|[id b] r IH]; intros lg H; [reflexivity|].
  inversion H as [|? ? Hh Hr]; subst. unfold h_panics in Hh. cbn in Hh. cbn [run_handlers].
  destruct b; try congruence; rewrite IH by auto; cbn; rewrite <- app_assoc; reflexivity.
Qed.
