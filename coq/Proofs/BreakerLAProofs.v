(* The breakers' leap array of (bad,total) counters refines the reference window counts:
   under non-decreasing time the sum over the buckets returned by Values() equals the number
   of recorded completions whose timestamp lies in the bucket-aligned statistic window.
   (Adapted from the prototype in DESIGN.md Appendix A to the list-of-slots model, two
   counters, the uint64 wrap-around in isBucketDeprecated, `>=`, and resetMetric.) *)
From SG Require Import Base.Prelude Base.GoInt Model.Breaker.
#[local] Open Scope Z_scope.
#[local] Transparent two32 two63 two64.

Section LA.
Variable n : Z.
Variable bl : Z.
Hypothesis Hn : 0 < n.
Hypothesis Hbl : 0 < bl.
Hypothesis Hitv32 : n * bl < two32.

Definition itv := n * bl.
Notation bs := (bstart bl).
Notation idx := (bidx n bl).

(* ---------- arithmetic ---------- *)
Lemma bs_le t : bs t <= t. Proof. unfold bstart. pose proof (Z.mod_pos_bound t bl Hbl). lia. Qed.
Lemma bs_lt t : t < bs t + bl. Proof. unfold bstart. pose proof (Z.mod_pos_bound t bl Hbl). lia. Qed.
Lemma bs_div t : bs t = bl * (t / bl). Proof. unfold bstart. rewrite Z.mod_eq by lia. lia. Qed.
Lemma bs_mono a b : a <= b -> bs a <= bs b.
Proof. intros. rewrite !bs_div. apply Z.mul_le_mono_nonneg_l; [lia|]. apply Z.div_le_mono; lia. Qed.
Lemma bs_nonneg t : 0 <= t -> 0 <= bs t.
Proof. intros. rewrite bs_div. apply Z.mul_nonneg_nonneg; [lia|]. apply Z.div_pos; lia. Qed.
Lemma idx_range t : 0 <= idx t < n. Proof. apply Z.mod_pos_bound; lia. Qed.
Lemma bs_bucket t s : s mod bl = 0 -> s <= t < s + bl -> bs t = s.
Proof.
  intros Hs Ht. apply Z.mod_divide in Hs; [|lia]. destruct Hs as [q ->].
  rewrite bs_div. assert (t / bl = q); [|subst; lia].
  symmetry. apply Z.div_unique with (r := t - q*bl); lia.
Qed.
Lemma bs_aligned t : bs t mod bl = 0.
Proof. rewrite bs_div. rewrite Z.mul_comm. apply Z.mod_mul. lia. Qed.
Lemma bs_bs t : bs (bs t) = bs t.
Proof. apply bs_bucket; [apply bs_aligned|]. lia. Qed.
Lemma idx_bs t : idx (bs t) = idx t.
Proof. unfold bidx. f_equal. rewrite bs_div. rewrite Z.mul_comm. apply Z.div_mul. lia. Qed.

Lemma same_idx_diff s1 s2 :
  s1 mod bl = 0 -> s2 mod bl = 0 -> idx s1 = idx s2 -> exists k, s2 - s1 = k * itv.
Proof.
  intros H1 H2 Hi. apply Z.mod_divide in H1; [|lia]. apply Z.mod_divide in H2; [|lia].
  destruct H1 as [q1 ->]. destruct H2 as [q2 ->]. unfold bidx in Hi.
  rewrite !Z.div_mul in Hi by lia.
  assert ((q2 - q1) mod n = 0) as H.
  { rewrite Zminus_mod, Hi, Z.sub_diag. apply Z.mod_0_l. lia. }
  apply Z.mod_divide in H; [|lia]. destruct H as [k Hk]. exists k. unfold itv. nia.
Qed.

Lemma aligned_lt_le a b : a mod bl = 0 -> b mod bl = 0 -> a < b -> a + bl <= b.
Proof.
  intros Ha Hb Hlt. apply Z.mod_divide in Ha; [|lia]. apply Z.mod_divide in Hb; [|lia].
  destruct Ha as [x ->]. destruct Hb as [y ->]. assert (x < y) by nia. nia.
Qed.

Lemma idx_shift t k : idx (t + k * bl) = (idx t + k) mod n.
Proof. unfold bidx. rewrite Z.div_add by lia. rewrite Zplus_mod_idemp_l. reflexivity. Qed.

(* ---------- sums over indices ---------- *)
Lemma sum_idx_ext f g k : (forall i, 0 <= i < Z.of_nat k -> f i = g i) -> sum_idx f k = sum_idx g k.
Proof. induction k as [|k IH]; intros H; cbn [sum_idx]; [reflexivity|].
  rewrite IH, H; [reflexivity|lia|]. intros; apply H; lia. Qed.
Lemma sum_idx_plus f g k : sum_idx (fun i => f i + g i) k = sum_idx f k + sum_idx g k.
Proof. induction k as [|k IH]; cbn [sum_idx]; [reflexivity|]. rewrite IH. lia. Qed.
Lemma sum_idx_zero f k : (forall i, 0 <= i < Z.of_nat k -> f i = 0) -> sum_idx f k = 0.
Proof. intros H. rewrite (sum_idx_ext f (fun _ => 0)) by exact H. clear H. induction k as [|k IH]; cbn [sum_idx]; lia. Qed.
Lemma sum_idx_single f k i0 : 0 <= i0 < Z.of_nat k ->
  (forall i, 0 <= i < Z.of_nat k -> i <> i0 -> f i = 0) -> sum_idx f k = f i0.
Proof.
  induction k as [|k IH]; intros Hi H; [lia|]. cbn [sum_idx].
  destruct (Z.eq_dec i0 (Z.of_nat k)) as [->|Hne].
  - rewrite sum_idx_zero; [lia|]. intros; apply H; lia.
  - rewrite IH; [|lia|intros; apply H; lia]. rewrite (H (Z.of_nat k)); lia.
Qed.

(* ---------- reference counts ---------- *)
Lemma ref_app w p q lo hi : ref_count w (p ++ q) lo hi = ref_count w p lo hi + ref_count w q lo hi.
Proof. induction p as [|[t a] p IH]; cbn [ref_count app]; [lia|]. rewrite IH. lia. Qed.
Lemma ref_empty_if w p lo hi : (forall t a, In (t,a) p -> ~ (lo <= t < hi)) -> ref_count w p lo hi = 0.
Proof. induction p as [|[t a] p IH]; intros H; cbn [ref_count]; [reflexivity|].
  rewrite IH by (intros; eapply H; right; eassumption).
  destruct (Z.leb_spec lo t), (Z.ltb_spec t hi); cbn; try lia.
  exfalso. eapply (H t a); [left; reflexivity|lia]. Qed.

(* ---------- list access ---------- *)
Lemma sget_sset sl i v j : (Z.to_nat i < length sl)%nat -> 0 <= i -> 0 <= j ->
  sget (sset sl i v) j = if j =? i then v else sget sl j.
Proof.
  intros Hl Hi Hj. unfold sget, sset. destruct (Z.eqb_spec j i) as [->|Hne].
  - rewrite nth_upd_nth_same by assumption. reflexivity.
  - apply nth_upd_nth_other. lia.
Qed.
Lemma sset_length sl i v : length (sset sl i v) = length sl.
Proof. apply upd_nth_length. Qed.

Lemma sget_clear now sl i :
  sget (la_clear n bl now sl) i =
  (let w := sget sl i in if la_valid n bl now w then {| sst := sst w; sbad := 0; stot := 0 |} else w).
Proof.
  unfold sget, la_clear.
  set (f := fun w : slot => if la_valid n bl now w then {| sst := sst w; sbad := 0; stot := 0 |} else w).
  assert (Hd : f slot0 = slot0) by (unfold f; destruct (la_valid n bl now slot0); reflexivity).
  rewrite <- Hd at 1. rewrite map_nth. reflexivity.
Qed.
Lemma clear_length now sl : length (la_clear n bl now sl) = length sl.
Proof. apply map_length. Qed.

Lemma seqZ_length a k : length (seqZ a k) = k.
Proof. revert a; induction k as [|k IH]; intros a; cbn; auto. Qed.
Lemma seqZ_nth a k j d : (j < k)%nat -> nth j (seqZ a k) d = a + Z.of_nat j.
Proof. revert a j; induction k as [|k IH]; intros a [|j] H; cbn [seqZ nth]; try lia. rewrite IH by lia. lia. Qed.

Lemma init_length t0 : length (la_init n bl t0) = Z.to_nat n.
Proof. unfold la_init. rewrite map_length. apply seqZ_length. Qed.

Lemma sget_init t0 i : 0 <= i < n ->
  sget (la_init n bl t0) i = {| sst := bs t0 + ((i - idx t0) mod n) * bl; sbad := 0; stot := 0 |}.
Proof.
  intros Hi. unfold sget, la_init.
  set (f := fun i0 : Z => {| sst := if idx t0 <=? i0 then bs t0 + (i0 - idx t0) * bl else bs t0 + (n - idx t0 + i0) * bl; sbad := 0; stot := 0 |}).
  rewrite (nth_indep _ slot0 (f 0)) by (rewrite map_length, seqZ_length; lia).
  rewrite map_nth. rewrite seqZ_nth by lia. rewrite Z2Nat.id by lia. unfold f. cbn [Z.add].
  pose proof (idx_range t0) as Hr. f_equal.
  destruct (Z.leb_spec (idx t0) i).
  - rewrite Z.mod_small by lia. reflexivity.
  - replace (i - idx t0) with ((n - idx t0 + i) + (-1) * n) by lia. rewrite Z.mod_add by lia.
    rewrite Z.mod_small by lia. reflexivity.
Qed.

(* ---------- isBucketDeprecated without the wrap-around ---------- *)
Lemma valid_spec now w : 0 <= now < tmax -> 0 <= sst w < two63 ->
  la_valid n bl now w = (sst w <=? now) && (now - sst w <? n * bl).
Proof.
  intros Hnow Hs. unfold la_valid, u64_sub, u64.
  assert (H64 : two64 = 2 * two63) by reflexivity.
  assert (H63 : two63 = 2 * tmax) by reflexivity.
  assert (H32 : two32 < tmax) by reflexivity.
  destruct (Z.leb_spec (sst w) now) as [Hle|Hgt]; cbn [andb].
  - rewrite Z.mod_small by lia. reflexivity.
  - replace (now - sst w) with ((now - sst w + two64) + (-1) * two64) by lia.
    rewrite Z.mod_add by lia. rewrite Z.mod_small by lia.
    destruct (Z.ltb_spec (now - sst w + two64) (n * bl)); [lia|reflexivity].
Qed.

(* ---------- invariant ---------- *)
(* t0 = creation time, h = completions recorded since the last clear, tl = current time *)
Definition Inv (t0 : Z) (sl : list slot) (h : list (Z * bool)) (tl : Z) : Prop :=
  length sl = Z.to_nat n /\ 0 <= t0 <= tl /\
  (forall t a, In (t,a) h -> t0 <= t <= tl) /\
  forall i, 0 <= i < n ->
    let w := sget sl i in
    sst w mod bl = 0 /\ idx (sst w) = i /\
    (tl < sst w + itv ->
       sbad w = ref_count w_bad h (sst w) (sst w + bl) /\ stot w = ref_count w_tot h (sst w) (sst w + bl)) /\
    (forall t a, In (t,a) h -> idx t = i -> bs t <= sst w) /\
    sst w <= bs tl + (n-1)*bl /\
    (bs tl < sst w -> sst w < bs t0 + itv) /\
    bs t0 <= sst w.

Lemma Inv_init t0 : 0 <= t0 -> Inv t0 (la_init n bl t0) [] t0.
Proof.
  intros H0. split; [apply init_length|]. split; [lia|]. split; [intros ? ? []|].
  intros i Hi. cbv zeta. rewrite sget_init by assumption. cbn [sst sbad stot].
  pose proof (Z.mod_pos_bound (i - idx t0) n Hn) as Hm.
  repeat split.
  - rewrite Z.mod_add by lia. apply bs_aligned.
  - rewrite idx_shift, idx_bs. rewrite Zplus_mod_idemp_r.
    replace (idx t0 + (i - idx t0)) with i by lia. apply Z.mod_small; lia.
  - intros ? ? [].
  - nia.
  - intros _. unfold itv. nia.
  - nia.
Qed.

Lemma Inv_time t0 sl h tl tl' : Inv t0 sl h tl -> tl <= tl' -> Inv t0 sl h tl'.
Proof.
  intros (HL & H0 & Hev & H) Hle. pose proof (bs_mono _ _ Hle) as Hbm.
  split; [assumption|]. split; [lia|]. split; [intros t a Hin; specialize (Hev _ _ Hin); lia|].
  intros i Hi. destruct (H _ Hi) as (Ha & Hix & Hc & Hb & Hd & He & Hf).
  split; [assumption|]. split; [assumption|]. split; [intros Hfr; apply Hc; lia|].
  split; [assumption|]. split; [nia|]. split; [intros; apply He; lia|assumption].
Qed.

Lemma never_behind t0 sl h now :
  Inv t0 sl h now -> sst (sget sl (idx now)) <= bs now.
Proof.
  intros (HL & H0 & Hev & H). pose proof (idx_range now) as Hr.
  destruct (H _ Hr) as (Ha & Hi & _ & _ & Hd & _).
  destruct (Z_le_gt_dec (sst (sget sl (idx now))) (bs now)) as [|Hgt]; [assumption|exfalso].
  destruct (same_idx_diff (bs now) (sst (sget sl (idx now)))) as [k Hk];
    [apply bs_aligned|assumption|rewrite idx_bs; symmetry; assumption|].
  unfold itv in Hk. assert (0 < k) by nia. nia.
Qed.

Lemma Inv_current t0 sl h now :
  Inv t0 sl h now ->
  exists sl', la_current n bl now sl = Some sl' /\ Inv t0 sl' h now /\ sst (sget sl' (idx now)) = bs now.
Proof.
  intros HI. pose proof (never_behind _ _ _ _ HI) as Hnb.
  pose proof HI as (HL & H0 & Hev & H). pose proof (idx_range now) as Hr.
  unfold la_current.
  destruct (Z.eqb_spec (bs now) (sst (sget sl (idx now)))) as [Heq|Hne].
  - exists sl. auto.
  - destruct (Z.ltb_spec (sst (sget sl (idx now))) (bs now)) as [Hlt|Hge]; [|lia].
    eexists. split; [reflexivity|].
    assert (Hlen : (Z.to_nat (idx now) < length sl)%nat) by lia.
    split; [|rewrite sget_sset by lia; rewrite Z.eqb_refl; reflexivity].
    split; [rewrite sset_length; assumption|]. split; [lia|]. split; [assumption|].
    intros i Hi. cbv zeta. rewrite sget_sset by lia.
    destruct (Z.eqb_spec i (idx now)) as [->|Hni]; cbn [sst sbad stot].
    + destruct (H _ Hr) as (Ha & Hix & Hc & Hb & Hd & He & Hf).
      assert (Hz : forall w, ref_count w h (bs now) (bs now + bl) = 0).
      { intros w. apply ref_empty_if. intros t a Hin Ht.
        assert (bs t = bs now) by (apply bs_bucket; [apply bs_aligned|lia]).
        assert (idx t = idx now) by (rewrite <- (idx_bs t), <- (idx_bs now); congruence).
        specialize (Hb _ _ Hin H2). lia. }
      repeat split.
      * apply bs_aligned.
      * apply idx_bs.
      * symmetry; apply Hz.
      * symmetry; apply Hz.
      * intros t a Hin _. specialize (Hev _ _ Hin). apply bs_mono. lia.
      * nia.
      * lia.
      * lia.
    + apply H; assumption.
Qed.

Lemma Inv_add t0 sl h now (bad : bool) :
  Inv t0 sl h now -> sst (sget sl (idx now)) = bs now ->
  let w := sget sl (idx now) in
  Inv t0 (sset sl (idx now) {| sst := sst w; sbad := sbad w + (if bad then 1 else 0); stot := stot w + 1 |})
      (h ++ [(now, bad)]) now.
Proof.
  intros HI Hcur w. destruct HI as (HL & H0 & Hev & H). pose proof (idx_range now) as Hr.
  assert (Hlen : (Z.to_nat (idx now) < length sl)%nat) by lia.
  split; [rewrite sset_length; assumption|]. split; [lia|]. split.
  { intros t1 a1 Hin. apply in_app_or in Hin. destruct Hin as [Hin|[Heq|[]]].
    - apply Hev in Hin. lia. - inversion Heq; subst. lia. }
  intros i Hi. cbv zeta. rewrite sget_sset by lia.
  pose proof (bs_le now). pose proof (bs_lt now).
  destruct (Z.eqb_spec i (idx now)) as [->|Hne]; cbn [sst sbad stot].
  - destruct (H _ Hr) as (Ha & Hix & Hc & Hb & Hd & He & Hf). fold w in Ha, Hix, Hc, Hb, Hd, He, Hf.
    assert (Hw : sst w = bs now) by exact Hcur. rewrite Hw in *.
    split; [assumption|]. split; [apply idx_bs|]. split; [|split; [|split; [assumption|split; assumption]]].
    + intros Hfresh. destruct (Hc Hfresh) as [Hb1 Hb2]. rewrite !ref_app, Hb1, Hb2. cbn [ref_count].
      destruct (Z.leb_spec (bs now) now), (Z.ltb_spec now (bs now + bl)); cbn [andb]; try lia.
      unfold w_bad, w_tot. split; lia.
    + intros t1 a1 Hin Hidx. apply in_app_or in Hin. destruct Hin as [Hin|[Heq|[]]].
      * eapply Hb; eassumption. * inversion Heq; subst. lia.
  - destruct (H _ Hi) as (Ha & Hix & Hc & Hb & Hd & He & Hf).
    split; [assumption|]. split; [assumption|]. split; [|split; [|split; [assumption|split; assumption]]].
    + intros Hfresh. destruct (Hc Hfresh) as [Hb1 Hb2]. rewrite !ref_app, Hb1, Hb2. cbn [ref_count].
      destruct (Z.leb_spec (sst (sget sl i)) now), (Z.ltb_spec now (sst (sget sl i) + bl)); cbn [andb]; try lia.
      exfalso. assert (bs now = sst (sget sl i)) by (apply bs_bucket; [assumption|lia]).
      apply Hne. rewrite <- Hix, <- H5. apply idx_bs.
    + intros t1 a1 Hin Hidx. apply in_app_or in Hin. destruct Hin as [Hin|[Heq|[]]].
      * eapply Hb; eassumption. * inversion Heq; subst. congruence.
Qed.

Lemma slot_bounds t0 sl h now i : Inv t0 sl h now -> now < tmax -> 0 <= i < n ->
  0 <= sst (sget sl i) < two63.
Proof.
  intros (HL & H0 & Hev & H) Hnow Hi. destruct (H _ Hi) as (Ha & Hix & Hc & Hb & Hd & He & Hf).
  pose proof (bs_nonneg t0 ltac:(lia)). pose proof (bs_le now).
  assert (H63 : two63 = 2 * tmax) by reflexivity.
  assert (H32 : two32 < tmax) by reflexivity.
  split; [lia|]. nia.
Qed.

Lemma Inv_clear t0 sl h now : Inv t0 sl h now -> now < tmax -> Inv t0 (la_clear n bl now sl) [] now.
Proof.
  intros HI Hnow. pose proof HI as (HL & H0 & Hev & H).
  split; [rewrite clear_length; assumption|]. split; [lia|]. split; [intros ? ? []|].
  intros i Hi. cbv zeta. rewrite sget_clear. cbv zeta.
  destruct (H _ Hi) as (Ha & Hix & Hc & Hb & Hd & He & Hf).
  pose proof (slot_bounds _ _ _ _ _ HI Hnow Hi) as Hsb.
  rewrite valid_spec by lia.
  destruct (Z.leb_spec (sst (sget sl i)) now) as [Hle|Hgt]; cbn [andb].
  - destruct (Z.ltb_spec (now - sst (sget sl i)) (n * bl)) as [Hv|Hv]; cbn [sst sbad stot].
    + repeat split; try assumption. intros ? ? [].
    + repeat split; try assumption; try (intros ? ? []). all: unfold itv in *; lia.
  - (* creation-time future slot: nothing recorded there *)
    repeat split; try assumption; try (intros ? ? []).
    + destruct (Hc ltac:(unfold itv; nia)) as [Hb1 _]. rewrite Hb1. apply ref_empty_if.
      intros t a Hin Ht. specialize (Hev _ _ Hin). lia.
    + destruct (Hc ltac:(unfold itv; nia)) as [_ Hb2]. rewrite Hb2. apply ref_empty_if.
      intros t a Hin Ht. specialize (Hev _ _ Hin). lia.
Qed.

(* ---------- the read ---------- *)
Definition wslot (now i : Z) := bs now - ((idx now - i) mod n) * bl.

Lemma wslot_facts now i : 0 <= i < n ->
  wslot now i mod bl = 0 /\ idx (wslot now i) = i /\
  bs now + bl - itv <= wslot now i /\ wslot now i <= bs now.
Proof.
  intros Hi. unfold wslot. pose proof (Z.mod_pos_bound (idx now - i) n Hn) as Hm.
  repeat split.
  - replace (bs now - (idx now - i) mod n * bl) with (bs now + (- ((idx now - i) mod n)) * bl) by lia.
    rewrite Z.mod_add by lia. apply bs_aligned.
  - replace (bs now - (idx now - i) mod n * bl) with (bs now + (- ((idx now - i) mod n)) * bl) by lia.
    rewrite idx_shift, idx_bs.
    replace (idx now + - ((idx now - i) mod n)) with (idx now - (idx now - i) mod n) by lia.
    rewrite Zminus_mod_idemp_r. replace (idx now - (idx now - i)) with i by lia. apply Z.mod_small; lia.
  - unfold itv. nia.
  - nia.
Qed.

Lemma partition_window w p now :
  sum_idx (fun i => ref_count w p (wslot now i) (wslot now i + bl)) (Z.to_nat n)
  = ref_count w p (bs now + bl - itv) (bs now + bl).
Proof.
  induction p as [|[t a] p IH]; cbn [ref_count].
  - apply sum_idx_zero. reflexivity.
  - rewrite sum_idx_plus, IH. f_equal.
    set (lo := bs now + bl - itv). set (hi := bs now + bl).
    destruct (Z.leb_spec lo t) as [Hlo|Hlo]; [destruct (Z.ltb_spec t hi) as [Hhi|Hhi]|]; cbn [andb].
    + pose proof (idx_range t) as Hr.
      rewrite (sum_idx_single _ _ (idx t)); [|rewrite Z2Nat.id; lia|].
      * destruct (wslot_facts now (idx t) Hr) as (Wa & Wi & Wlo & Whi).
        assert (bs t = wslot now (idx t)) as H.
        { destruct (same_idx_diff _ _ Wa (bs_aligned t)) as [k Hk]; [rewrite idx_bs; assumption|].
          pose proof (bs_le t). pose proof (bs_lt t).
          assert (lo mod bl = 0).
          { unfold lo, itv. replace (bs now + bl - n*bl) with (bs now + (1 - n) * bl) by lia.
            rewrite Z.mod_add by lia. apply bs_aligned. }
          assert (lo <= bs t). { rewrite <- (bs_bucket lo lo) by (try assumption; lia). apply bs_mono. lia. }
          assert (hi mod bl = 0).
          { unfold hi. replace (bs now + bl) with (bs now + 1 * bl) by lia.
            rewrite Z.mod_add by lia. apply bs_aligned. }
          assert (bs t + bl <= hi) by (apply aligned_lt_le; [apply bs_aligned|assumption|lia]).
          fold lo in Wlo. unfold hi, lo in *.
          assert (Hitv : 0 < itv) by (unfold itv; nia).
          assert (- itv < k * itv < itv) by lia.
          assert (k = 0) by nia. subst k. lia. }
        rewrite <- H. pose proof (bs_le t). pose proof (bs_lt t).
        destruct (Z.leb_spec (bs t) t), (Z.ltb_spec t (bs t + bl)); cbn; lia.
      * intros i Hi Hne. rewrite Z2Nat.id in Hi by lia.
        destruct (wslot_facts now i Hi) as (Wa & Wi & Wlo & Whi).
        destruct (Z.leb_spec (wslot now i) t), (Z.ltb_spec t (wslot now i + bl)); cbn; try reflexivity.
        exfalso. apply Hne. rewrite <- Wi. rewrite <- (idx_bs t). f_equal. symmetry. apply bs_bucket; [assumption|lia].
    + apply sum_idx_zero. intros i Hi. rewrite Z2Nat.id in Hi by lia.
      destruct (wslot_facts now i Hi) as (Wa & Wi & Wlo & Whi). unfold hi in *.
      destruct (Z.leb_spec (wslot now i) t), (Z.ltb_spec t (wslot now i + bl)); cbn; try reflexivity. lia.
    + apply sum_idx_zero. intros i Hi. rewrite Z2Nat.id in Hi by lia.
      destruct (wslot_facts now i Hi) as (Wa & Wi & Wlo & Whi). fold lo in Wlo.
      destruct (Z.leb_spec (wslot now i) t), (Z.ltb_spec t (wslot now i + bl)); cbn; try reflexivity. lia.
Qed.

Lemma la_sum_ok proj w t0 sl h now :
  Inv t0 sl h now -> now < tmax ->
  (forall i, 0 <= i < n -> now < sst (sget sl i) + itv ->
     proj (sget sl i) = ref_count w h (sst (sget sl i)) (sst (sget sl i) + bl)) ->
  la_sum proj n bl now sl = ref_count w h (bs now + bl - itv) (bs now + bl).
Proof.
  intros HI Hnow Hproj. pose proof HI as (HL & H0 & Hev & H).
  unfold la_sum. rewrite <- partition_window.
  apply sum_idx_ext. intros i Hi. rewrite Z2Nat.id in Hi by lia.
  destruct (H _ Hi) as (Ha & Hix & Hc & Hb & Hd & He & Hf).
  pose proof (slot_bounds _ _ _ _ _ HI Hnow Hi) as Hsb.
  rewrite valid_spec by lia. fold itv.
  destruct (wslot_facts now i Hi) as (Wa & Wi & Wlo & Whi).
  destruct (same_idx_diff _ _ Wa Ha (eq_trans Wi (eq_sym Hix))) as [k Hk].
  pose proof (bs_le now). pose proof (bs_lt now).
  assert (Hitv : 0 < itv) by (unfold itv; nia).
  destruct (Z_lt_le_dec k 0) as [Hk0|Hk0]; [|destruct (Z.eq_dec k 0) as [->|Hk1]].
  - (* slot older than its window bucket: expired *)
    assert (sst (sget sl i) <= wslot now i - itv) by nia.
    assert (Hz : ref_count w h (wslot now i) (wslot now i + bl) = 0).
    { apply ref_empty_if. intros t a Hin Ht.
      assert (bs t = wslot now i) by (apply bs_bucket; [assumption|lia]).
      assert (idx t = i) by (rewrite <- (idx_bs t); congruence).
      specialize (Hb _ _ Hin H5). nia. }
    rewrite Hz.
    destruct (Z.leb_spec (sst (sget sl i)) now), (Z.ltb_spec (now - sst (sget sl i)) itv); cbn [andb]; try reflexivity.
    lia.
  - (* the slot holds exactly its window bucket *)
    assert (Hs : sst (sget sl i) = wslot now i) by lia.
    destruct (Z.leb_spec (sst (sget sl i)) now), (Z.ltb_spec (now - sst (sget sl i)) itv); cbn [andb]; try lia.
    rewrite <- Hs. apply Hproj; [assumption|lia].
  - (* creation-time slot dated after now: not returned, and nothing recorded in its window bucket *)
    assert (wslot now i + itv <= sst (sget sl i)) by nia.
    assert (now < sst (sget sl i)) by nia.
    assert (Hz : ref_count w h (wslot now i) (wslot now i + bl) = 0).
    { apply ref_empty_if. intros t a Hin Ht. specialize (Hev _ _ Hin).
      assert (bs now < sst (sget sl i)) by lia. specialize (He H5).
      pose proof (bs_le t0).
      assert (wslot now i + bl <= bs t0) by (apply aligned_lt_le; [assumption|apply bs_aligned|lia]).
      pose proof (bs_lt t0).
      assert (bs t0 <= t). { pose proof (bs_mono t0 t). lia. } lia. }
    rewrite Hz. destruct (Z.leb_spec (sst (sget sl i)) now); cbn [andb]; [lia|reflexivity].
Qed.

Lemma la_sum_bad t0 sl h now : Inv t0 sl h now -> now < tmax ->
  la_sum sbad n bl now sl = ref_count w_bad h (bs now + bl - itv) (bs now + bl).
Proof.
  intros HI Hnow. apply (la_sum_ok sbad w_bad t0); try assumption.
  intros i Hi Hf. destruct HI as (_ & _ & _ & H). destruct (H _ Hi) as (_ & _ & Hc & _). apply Hc; assumption.
Qed.
Lemma la_sum_tot t0 sl h now : Inv t0 sl h now -> now < tmax ->
  la_sum stot n bl now sl = ref_count w_tot h (bs now + bl - itv) (bs now + bl).
Proof.
  intros HI Hnow. apply (la_sum_ok stot w_tot t0); try assumption.
  intros i Hi Hf. destruct HI as (_ & _ & _ & H). destruct (H _ Hi) as (_ & _ & Hc & _). apply Hc; assumption.
Qed.

End LA.
