(* C17, part 2: the number of log files never exceeds MaxFileAmount. *)
From Coq Require Import Permutation.
From SG Require Import Base.Prelude Base.GoInt Model.MLBytes Model.MLDecimal Model.MetricLog.

Lemma insert_file_perm f l : Permutation (insert_file f l) (f :: l).
Proof.
  induction l as [|g r IH]; cbn [insert_file]; [apply Permutation_refl|].
  destruct (file_ltb g f).
  - eapply Permutation_trans; [apply perm_skip; exact IH|apply perm_swap].
  - apply Permutation_refl.
Qed.

Lemma sort_files_perm l : Permutation (sort_files l) l.
Proof.
  induction l as [|f r IH]; cbn [sort_files fold_right]; [constructor|].
  eapply Permutation_trans; [apply insert_file_perm|]. apply perm_skip. exact IH.
Qed.

Lemma perm_filter {A} (p : A -> bool) l l' : Permutation l l' -> Permutation (filter p l) (filter p l').
Proof.
  induction 1 as [|x l l' _ IH|x y l|l l' l'' _ IH1 _ IH2]; cbn [filter].
  - constructor.
  - destruct (p x); [apply perm_skip|]; exact IH.
  - destruct (p x), (p y); try apply Permutation_refl. apply perm_swap.
  - eapply Permutation_trans; eassumption.
Qed.

Lemma same_name_refl f : same_name f f = true.
Proof. unfold same_name. rewrite !Z.eqb_refl. reflexivity. Qed.

Lemma filter_doomed_nil (d l : list file) : incl l d ->
  filter (fun f => negb (existsb (same_name f) d)) l = [].
Proof.
  induction l as [|x r IH]; intros Hi; cbn [filter]; [reflexivity|].
  assert (Hx : existsb (same_name x) d = true).
  { apply existsb_exists. exists x. split; [apply Hi; left; reflexivity|apply same_name_refl]. }
  rewrite Hx. cbn [negb]. apply IH. intros y Hy. apply Hi. right. exact Hy.
Qed.

Lemma filter_length_le {A} (p : A -> bool) l : (length (filter p l) <= length l)%nat.
Proof. induction l as [|x r IH]; cbn [filter length]; [lia|]. destruct (p x); cbn [length]; lia. Qed.

Lemma remove_deprecated_bound c fs : 1 <= c_max_files c ->
  lenZ (remove_deprecated c fs) <= c_max_files c - 1 \/
  (lenZ fs <= c_max_files c - 1 /\ lenZ (remove_deprecated c fs) <= lenZ fs).
Proof.
  intros Hm. unfold remove_deprecated.
  set (S := sort_files fs). set (n := lenZ S - c_max_files c + 1).
  set (d := takeZ n S).
  assert (HlenS : lenZ S = lenZ fs).
  { unfold lenZ. f_equal. apply Permutation_length. apply sort_files_perm. }
  destruct (Z_le_gt_dec n 0) as [Hn|Hn].
  - right. split; [lia|]. unfold lenZ. pose proof (filter_length_le (fun f => negb (existsb (same_name f) d)) fs). lia.
  - left.
    pose proof (perm_filter (fun f => negb (existsb (same_name f) d)) _ _ (Permutation_sym (sort_files_perm fs))) as HP.
    apply Permutation_length in HP. unfold lenZ. rewrite HP. fold S.
    rewrite <- (firstn_skipn (Z.to_nat n) S) at 1. rewrite filter_app.
    rewrite filter_doomed_nil by (unfold d, takeZ; apply incl_refl).
    cbn [app].
    pose proof (filter_length_le (fun f => negb (existsb (same_name f) d)) (skipn (Z.to_nat n) S)) as H1.
    rewrite skipn_length in H1. unfold lenZ in *. lia.
Qed.

Lemma create_file_length d s fs : lenZ (create_file d s fs) <= lenZ fs + 1.
Proof.
  unfold create_file, lenZ. destruct (existsb (name_is d s) fs).
  - rewrite map_length. lia.
  - rewrite app_length. cbn [length]. lia.
Qed.

Lemma roll_bound c w ts : 1 <= c_max_files c -> lenZ (w_fs (roll c w ts)) <= c_max_files c.
Proof.
  intros Hm. unfold roll. destruct (next_name c (w_fs w) ts) as [d s]. cbn [w_fs].
  pose proof (create_file_length d s (remove_deprecated c (w_fs w))) as H1.
  destruct (remove_deprecated_bound c (w_fs w) Hm) as [H2|[H2 H3]]; lia.
Qed.

Lemma append_cur_length w a b : lenZ (w_fs (append_cur w a b)) = lenZ (w_fs w).
Proof. unfold append_cur, lenZ. cbn [w_fs]. rewrite map_length. reflexivity. Qed.

Lemma w_write_bound c w ts tstr items : 1 <= c_max_files c ->
  lenZ (w_fs w) <= c_max_files c -> lenZ (w_fs (w_write c w ts tstr items)) <= c_max_files c.
Proof.
  intros Hm Hw. unfold w_write. destruct items as [|it0 its]; [exact Hw|].
  destruct (ts <=? 0); [exact Hw|]. destruct (ts / 1000 <? w_latest w); [exact Hw|].
  set (w1 := if (ts / 1000 >? w_latest w) && is_new_day c (w_latest w) (ts / 1000) then roll c w ts else w).
  assert (H1 : lenZ (w_fs w1) <= c_max_files c).
  { unfold w1. destruct ((ts / 1000 >? w_latest w) && is_new_day c (w_latest w) (ts / 1000)); [apply roll_bound; exact Hm|exact Hw]. }
  set (w2 := if (ts / 1000 >? w_latest w) || (cur_size w1 =? 0) then append_cur w1 [] (be64 (ts / 1000) ++ be64 (cur_size w1)) else w1).
  assert (H2 : lenZ (w_fs w2) <= c_max_files c).
  { unfold w2. destruct ((ts / 1000 >? w_latest w) || (cur_size w1 =? 0)); [rewrite append_cur_length|]; exact H1. }
  set (w3 := append_cur w2 (enc_lines (map (stamp ts tstr) (it0 :: its))) []).
  assert (H3 : lenZ (w_fs w3) <= c_max_files c) by (unfold w3; rewrite append_cur_length; exact H2).
  cbn [w_fs]. destruct (cur_size w3 >=? c_max_size c); [apply roll_bound; exact Hm|exact H3].
Qed.

Lemma w_init_bound c t0 : 1 <= c_max_files c -> lenZ (w_fs (w_init c t0)) <= c_max_files c.
Proof. intros Hm. unfold w_init. cbn [w_fs]. apply roll_bound. exact Hm. Qed.

Lemma step_bound c y o : 1 <= c_max_files c ->
  lenZ (w_fs (y_w y)) <= c_max_files c -> lenZ (w_fs (y_w (fst (step c y o)))) <= c_max_files c.
Proof.
  intros Hm H. destruct o as [ts tstr items|q]; cbn [step fst y_w].
  - apply w_write_bound; assumption.
  - destruct (search (w_fs (y_w y)) (y_s y) q). cbn [fst y_w]. exact H.
Qed.

Lemma run_bound c ops : 1 <= c_max_files c -> forall y,
  lenZ (w_fs (y_w y)) <= c_max_files c -> lenZ (w_fs (y_w (fst (run c y ops)))) <= c_max_files c.
Proof.
  intros Hm. induction ops as [|o r IH]; intros y H; cbn [run fst]; [exact H|].
  pose proof (step_bound c y o Hm H) as H1.
  destruct (step c y o) as [y1 out]. cbn [fst] in H1.
  specialize (IH y1 H1). destruct (run c y1 r) as [y2 outs]. cbn [fst] in *. exact IH.
Qed.

Lemma file_bound c t0 ops : 1 <= c_max_files c ->
  lenZ (w_fs (y_w (fst (run c (sys_init c t0) ops)))) <= c_max_files c.
Proof. intros Hm. apply run_bound; [exact Hm|]. unfold sys_init. cbn [y_w]. apply w_init_bound. exact Hm. Qed.
