(* Safety of the repaired reset order (mb.reset() first, BucketStart published last) under the
   explicit no-stall hypothesis: C09_right_bucket, C09_expired_invisible (and the refutation of the
   latter on the order before fix 43206f8). Invariants by induction over schedules. *)
From SG Require Import Base.Prelude Base.GoInt Model.LeapArrayConc Proofs.LeapArrayConcProofs.

(* ------------------------------------------------------------------------------------ *)
(* geometry: timestamps at most one bucket length apart that select the same slot select the same bucket *)

Lemma bstart_eq g x : 0 < g_bl g -> bstart g x = g_bl g * (x / g_bl g).
Proof. intros H. unfold bstart. rewrite Z.mod_eq by lia. lia. Qed.

Lemma geo_le g x y :
  0 < g_bl g -> (2 <= g_n g)%nat -> x - g_bl g <= y -> bidx g x = bidx g y -> bstart g x <= bstart g y.
Proof.
  intros Hb Hn Hxy Hi. rewrite !bstart_eq by lia.
  set (bl := g_bl g) in *. set (n := Z.of_nat (g_n g)) in *. assert (Hn2 : 2 <= n) by lia.
  assert (Hq : x / bl - 1 <= y / bl).
  { replace (x / bl - 1) with ((x + (-1) * bl) / bl) by (rewrite Z.div_add by lia; lia).
    apply Z.div_le_mono; lia. }
  unfold bidx in Hi. fold bl n in Hi.
  apply Z2Nat.inj in Hi; try (apply Z.mod_pos_bound; lia).
  destruct (Z.eq_dec (y / bl) (x / bl - 1)) as [E|E].
  - exfalso. rewrite E in Hi.
    assert (H1 : (x / bl - (x / bl - 1)) mod n = 0).
    { rewrite Zminus_mod, Hi, Z.sub_diag. apply Z.mod_0_l. lia. }
    replace (x / bl - (x / bl - 1)) with 1 in H1 by lia. rewrite Z.mod_1_l in H1 by lia. discriminate.
  - apply Z.mul_le_mono_nonneg_l; lia.
Qed.

Lemma geo_eq g x y :
  0 < g_bl g -> (2 <= g_n g)%nat -> x - g_bl g <= y -> y - g_bl g <= x -> bidx g x = bidx g y -> bstart g x = bstart g y.
Proof.
  intros Hb Hn H1 H2 Hi. pose proof (geo_le g x y Hb Hn H1 Hi). pose proof (geo_le g y x Hb Hn H2 (eq_sym Hi)). lia.
Qed.

Lemma bidx_lt g x : (0 < g_n g)%nat -> (bidx g x < g_n g)%nat.
Proof.
  intros H. unfold bidx. pose proof (Z.mod_pos_bound (x / g_bl g) (Z.of_nat (g_n g)) ltac:(lia)). lia.
Qed.

(* ------------------------------------------------------------------------------------ *)
(* reading the shared state *)

Definition S_at (s : shared) (i : nat) : Z := s_start (nth i (slots s) dslot).
Definition C_at (s : shared) (i k : nat) : list (Z * Z) := contribv (nth i (slots s) dslot) k.

Definition tidx (g : geom) (t : thread) : nat := bidx g (t_now t).
Definition tbs (g : geom) (t : thread) : Z := bstart g (t_now t).

Lemma nth_error_upd_nth_cases {A} n m (f : A -> A) l x :
  nth_error (upd_nth n f l) m = Some x ->
  (n = m /\ exists y, nth_error l m = Some y /\ x = f y) \/ (n <> m /\ nth_error l m = Some x).
Proof.
  destruct (Nat.eq_dec n m) as [->|Hne]; intros H.
  - left. split; auto. destruct (nth_error l m) as [y|] eqn:E.
    + rewrite (nth_error_upd_nth_same _ _ _ _ E) in H. inversion H. eauto.
    + exfalso. apply nth_error_None in E. assert (Hl : (length (upd_nth m f l) <= m)%nat) by (rewrite upd_nth_length; auto).
      apply nth_error_None in Hl. congruence.
  - right. split; auto. rewrite nth_error_upd_nth_other in H; auto.
Qed.

(* effect of one step on starts and contribution lists *)
Lemma S_at_eff e s j :
  S_at (apply_eff e s) j =
  match e with
  | EStart i v => if (Nat.eqb j i && (i <? length (slots s))%nat)%bool then v else S_at s j
  | _ => S_at s j
  end.
Proof.
  unfold S_at. destruct e; cbn [apply_eff set_slots slots]; auto.
  - destruct (nth_upd_nth_cases j i (slot_set_start v) (slots s) dslot) as [(-> & Hl & ->)|(Hc & ->)].
    + rewrite Nat.eqb_refl. apply Nat.ltb_lt in Hl. rewrite Hl. reflexivity.
    + destruct (Nat.eqb_spec j i); destruct (Nat.ltb_spec i (length (slots s))); cbn; auto; lia.
  - destruct (nth_upd_nth_cases j i (slot_zero k) (slots s) dslot) as [(-> & Hl & ->)|(Hc & ->)]; auto.
  - destruct (nth_upd_nth_cases j i (slot_set_minrt v) (slots s) dslot) as [(-> & Hl & ->)|(Hc & ->)]; auto.
  - destruct (nth_upd_nth_cases j i (slot_set_maxc v) (slots s) dslot) as [(-> & Hl & ->)|(Hc & ->)]; auto.
  - destruct (nth_upd_nth_cases j (a_slot r) (slot_add (a_kind r) (a_amt r)) (slots s) dslot) as [(-> & Hl & ->)|(Hc & ->)]; auto.
Qed.

(* a contribution list after the step: unchanged, emptied, or extended by the add under the current start *)
Lemma C_at_eff e s j k :
  C_at (apply_eff e s) j k = C_at s j k \/
  (exists i, e = EZero i k /\ j = i /\ C_at (apply_eff e s) j k = []) \/
  (exists r, e = EAdd r /\ j = a_slot r /\ k = a_kind r /\ C_at (apply_eff e s) j k = C_at s j k ++ [(a_amt r, S_at s j)]).
Proof.
  unfold C_at, S_at. destruct e; cbn [apply_eff set_slots slots]; auto.
  - destruct (nth_upd_nth_cases j i (slot_set_start v) (slots s) dslot) as [(-> & Hl & ->)|(Hc & ->)]; auto.
  - destruct (nth_upd_nth_cases j i (slot_zero k0) (slots s) dslot) as [(-> & Hl & ->)|(Hc & ->)]; auto.
    unfold contribv, slot_zero; cbn [s_contrib].
    destruct (nth_upd_nth_cases k k0 (fun _ : list (Z * Z) => []) (s_contrib (nth i (slots s) dslot)) []) as [(-> & Hk & ->)|(Hc & ->)]; auto.
    right. left. exists i. auto.
  - destruct (nth_upd_nth_cases j i (slot_set_minrt v) (slots s) dslot) as [(-> & Hl & ->)|(Hc & ->)]; auto.
  - destruct (nth_upd_nth_cases j i (slot_set_maxc v) (slots s) dslot) as [(-> & Hl & ->)|(Hc & ->)]; auto.
  - destruct (nth_upd_nth_cases j (a_slot r) (slot_add (a_kind r) (a_amt r)) (slots s) dslot) as [(-> & Hl & ->)|(Hc & ->)]; auto.
    unfold contribv, slot_add; cbn [s_contrib].
    destruct (nth_upd_nth_cases k (a_kind r) (fun l => l ++ [(a_amt r, s_start (nth (a_slot r) (slots s) dslot))])
                (s_contrib (nth (a_slot r) (slots s) dslot)) []) as [(-> & Hk & ->)|(Hc & ->)]; auto.
    right. right. exists r. auto.
Qed.

Lemma apply_eff_len e s : length (slots (apply_eff e s)) = length (slots s).
Proof. destruct e; cbn [apply_eff set_slots slots]; rewrite ?upd_nth_length; auto. Qed.

Lemma apply_eff_stale e s : stale (apply_eff e s) = match e with EStale l => stale s ++ l | _ => stale s end.
Proof. destruct e; reflexivity. Qed.

Definition contrib_len (x : slot) : Prop := length (s_contrib x) = n_events.

Lemma apply_eff_contrib_len e s : Forall contrib_len (slots s) -> Forall contrib_len (slots (apply_eff e s)).
Proof.
  intros H. destruct e; cbn [apply_eff set_slots slots]; auto; apply Forall_upd_nth; auto; intros x Hx;
    pose proof (Forall_nth_error _ _ _ _ H Hx) as Hl; unfold contrib_len in *; cbn; rewrite ?upd_nth_length; auto.
Qed.

Lemma contribv_out x k : contrib_len x -> (n_events <= k)%nat -> contribv x k = [].
Proof. intros Hl Hk. unfold contribv. apply nth_overflow. unfold contrib_len in Hl. lia. Qed.

(* ------------------------------------------------------------------------------------ *)
(* the invariant *)

Definition at_home (p : pc) : bool := match p with PUnlock | PAdd => true | _ => false end.

(* number of counters the thread has already zeroed in the reset it is executing *)
Definition zeroed_upto (p : pc) : nat :=
  match p with PZero j => j | PZeroMin | PZeroMax | PStoreStart => n_events | _ => 0%nat end.

Record thr_ok (g : geom) (t0 : Z) (s : shared) (u : thread) : Prop := {
  (* an operation in progress read its timestamp from the clock *)
  k_now : active u = true -> t0 <= t_now u <= clock s;
  (* at the unlock and at the add the selected slot carries the operation's own bucket start *)
  k_home : active u = true -> at_home (t_pc u) = true -> S_at s (tidx g u) = tbs g u;
  (* inside a reset that changes the start, the counters already zeroed have received nothing since *)
  k_zeroed : active u = true -> forall k, (k < zeroed_upto (t_pc u))%nat -> S_at s (tidx g u) <> tbs g u -> C_at s (tidx g u) k = [];
  (* a start a reader saw is at most the current start of that slot *)
  k_seen : forall i seen, In (i, seen) (t_acc u) -> seen <= S_at s i
}.

Record sh_ok (g : geom) (t0 : Z) (s : shared) : Prop := {
  h_clock : t0 <= clock s;
  h_len : length (slots s) = g_n g;
  (* no slot is ahead of a timestamp that an operation in progress can have *)
  h_ahead : forall x, t0 <= x -> clock s - g_bl g <= x -> S_at s (bidx g x) <= bstart g x;
  h_clen : Forall contrib_len (slots s);
  (* every amount in a counter was added under the slot's current start *)
  h_contrib : forall i k p, In p (C_at s i k) -> snd p = S_at s i;
  h_stale : stale s = [];
  h_right : Forall (fun r => a_start r = a_own r) (adds s)
}.

Record Inv2 (g : geom) (t0 : Z) (c : config) : Prop := {
  i2_sh : sh_ok g t0 (sh c);
  i2_thr : Forall (thr_ok g t0 (sh c)) (thr c)
}.

Definition fresh_thr (g : geom) (s : shared) (u : thread) : Prop := active u = true -> clock s - t_now u <= g_bl g.

Lemma freshb_thr g c : freshb g c = true -> Forall (fresh_thr g (sh c)) (thr c).
Proof.
  unfold freshb. rewrite forallb_forall, Forall_forall. intros H u Hu Ha. specialize (H u Hu).
  rewrite Ha in H. cbn in H. lia.
Qed.

Record geom_ok (g : geom) : Prop := { go_bl : 0 < g_bl g; go_n : (2 <= g_n g)%nat; go_zf : g_zero_first g = true }.

(* two operations in progress on the same slot have the same bucket start *)
Lemma same_bucket g t0 s u v :
  geom_ok g -> thr_ok g t0 s u -> thr_ok g t0 s v -> fresh_thr g s u -> fresh_thr g s v ->
  active u = true -> active v = true -> tidx g u = tidx g v -> tbs g u = tbs g v.
Proof.
  intros [Hb Hn _] Hu Hv Fu Fv Au Av Hi. pose proof (k_now _ _ _ _ Hu Au). pose proof (k_now _ _ _ _ Hv Av).
  specialize (Fu Au). specialize (Fv Av). apply geo_eq; auto; lia.
Qed.

Lemma start_le_own g t0 s u :
  sh_ok g t0 s -> thr_ok g t0 s u -> fresh_thr g s u -> active u = true -> S_at s (tidx g u) <= tbs g u.
Proof.
  intros Hs Hu Fu Au. pose proof (k_now _ _ _ _ Hu Au). specialize (Fu Au). apply (h_ahead _ _ _ Hs); lia.
Qed.

(* ------------------------------------------------------------------------------------ *)
(* what the stepping thread is when it emits an effect *)

Lemma tstep_eff_shape g tid s t e t' :
  g_zero_first g = true -> tstep g tid s t = (e, t') ->
  match e with
  | ENone => True
  | ELock _ => True
  | EStart i v => active t = true /\ t_pc t = PStoreStart /\ i = tidx g t /\ v = tbs g t
  | EZero i k => active t = true /\ t_pc t = PZero k /\ i = tidx g t
  | EMinRt _ _ => True
  | EMaxC _ _ => True
  | EAdd r => active t = true /\ t_pc t = PAdd /\ a_slot r = tidx g t /\ a_start r = S_at s (tidx g t) /\ a_own r = tbs g t
  | EStale l => exists k i seen rest, t_acc t = (i, seen) :: rest /\
                  l = map (fun p => {| x_tid := tid; x_slot := i; x_seen := seen; x_under := snd p; x_amt := fst p |})
                          (filter (fun p => snd p <? seen) (C_at s i k))
  | ERet _ => True
  end.
Proof.
  intros Hzf H. unfold active, tidx, tbs, S_at, C_at. tstep_inv H t; rewrite ?Eops, ?Epc; auto; eauto 10.
Qed.

Definition eff_shape (g : geom) (tid : nat) (s : shared) (t : thread) (e : eff) : Prop :=
  match e with
  | EStart i v => active t = true /\ t_pc t = PStoreStart /\ i = tidx g t /\ v = tbs g t
  | EZero i k => active t = true /\ t_pc t = PZero k /\ i = tidx g t
  | EAdd r => active t = true /\ t_pc t = PAdd /\ a_slot r = tidx g t /\ a_start r = S_at s (tidx g t) /\ a_own r = tbs g t
  | EStale l => exists k i seen rest, t_acc t = (i, seen) :: rest /\
                  l = map (fun p => {| x_tid := tid; x_slot := i; x_seen := seen; x_under := snd p; x_amt := fst p |})
                          (filter (fun p => snd p <? seen) (C_at s i k))
  | _ => True
  end.

Lemma tstep_eff_shape' g tid s t e t' : g_zero_first g = true -> tstep g tid s t = (e, t') -> eff_shape g tid s t e.
Proof. intros Hzf H. pose proof (tstep_eff_shape _ _ _ _ _ _ Hzf H) as Hs. destruct e; exact Hs || exact I. Qed.

(* starts never decrease *)
Lemma S_at_mono g t0 tid s t e j :
  geom_ok g -> sh_ok g t0 s -> thr_ok g t0 s t -> fresh_thr g s t -> eff_shape g tid s t e ->
  S_at s j <= S_at (apply_eff e s) j.
Proof.
  intros Hg Hs Ht Ft Hsh. rewrite S_at_eff. destruct e; try lia.
  destruct Hsh as (Ha & Hpc & -> & ->).
  destruct (Nat.eqb_spec j (tidx g t)) as [->|]; cbn [andb]; try lia.
  destruct (_ <? _)%nat; try lia. eapply start_le_own; eauto.
Qed.

(* the other threads' (and the stepping thread's old) local invariants survive the effect *)
Lemma thr_ok_eff g t0 tid s t e u :
  geom_ok g -> sh_ok g t0 s -> thr_ok g t0 s t -> fresh_thr g s t -> eff_shape g tid s t e ->
  thr_ok g t0 s u -> fresh_thr g s u -> thr_ok g t0 (apply_eff e s) u.
Proof.
  intros Hg Hs Ht Ft Hsh Hu Fu. constructor.
  - rewrite apply_eff_clock. apply (k_now _ _ _ _ Hu).
  - intros Au Hh. rewrite S_at_eff. pose proof (k_home _ _ _ _ Hu Au Hh) as Hpre. destruct e; auto.
    destruct Hsh as (Ha & Hpc & -> & ->).
    destruct (Nat.eqb_spec (tidx g u) (tidx g t)) as [E|]; cbn [andb]; auto.
    destruct (_ <? _)%nat; auto. symmetry. eapply same_bucket; eauto.
  - intros Au k Hk Hne. rewrite S_at_eff in Hne.
    assert (Hne0 : S_at s (tidx g u) <> tbs g u).
    { destruct e; auto. destruct Hsh as (Ha & Hpc & -> & ->).
      destruct (Nat.eqb_spec (tidx g u) (tidx g t)) as [E|]; cbn [andb] in Hne; auto.
      destruct (_ <? _)%nat; auto. exfalso. apply Hne. symmetry. eapply same_bucket; eauto. }
    pose proof (k_zeroed _ _ _ _ Hu Au k Hk Hne0) as Hpre.
    destruct (C_at_eff e s (tidx g u) k) as [->|[(i & -> & _ & ->)|(r & -> & Hj & Hkk & _)]]; auto.
    exfalso. destruct Hsh as (Ha & Hpc & Hsl & Hst & Hown).
    assert (E : tidx g u = tidx g t) by congruence.
    apply Hne0. rewrite E. rewrite (k_home _ _ _ _ Ht Ha) by (rewrite Hpc; reflexivity).
    eapply same_bucket; eauto.
  - intros i seen Hin. pose proof (k_seen _ _ _ _ Hu i seen Hin). pose proof (S_at_mono g t0 tid s t e i Hg Hs Ht Ft Hsh). lia.
Qed.

Lemma C_at_zero s i k : C_at (apply_eff (EZero i k) s) i k = [].
Proof.
  unfold C_at. cbn [apply_eff set_slots slots].
  destruct (nth_upd_nth_cases i i (slot_zero k) (slots s) dslot) as [(_ & Hl & ->)|([Hc|Hc] & ->)]; try lia.
  - unfold contribv, slot_zero; cbn [s_contrib].
    destruct (nth_upd_nth_cases k k (fun _ : list (Z * Z) => []) (s_contrib (nth i (slots s) dslot)) []) as [(_ & Hk & ->)|([Hc|Hc] & ->)]; auto; try lia.
    apply nth_overflow. auto.
  - rewrite nth_overflow by auto. unfold contribv; cbn. destruct k; reflexivity.
Qed.

Lemma filter_nil {A} (f : A -> bool) l : (forall x, In x l -> f x = false) -> filter f l = [].
Proof. induction l as [|x r IH]; intros H; cbn; auto. rewrite (H x) by (left; auto). apply IH. intros y Hy. apply H. right; auto. Qed.

Lemma sh_ok_eff g t0 tid s t e :
  geom_ok g -> sh_ok g t0 s -> thr_ok g t0 s t -> fresh_thr g s t -> eff_shape g tid s t e ->
  sh_ok g t0 (apply_eff e s).
Proof.
  intros Hg Hs Ht Ft Hsh. pose proof Hg as [Hb Hn Hzf]. constructor.
  - rewrite apply_eff_clock. apply (h_clock _ _ _ Hs).
  - rewrite apply_eff_len. apply (h_len _ _ _ Hs).
  - intros x Hx0 Hx. rewrite apply_eff_clock in Hx. rewrite S_at_eff. pose proof (h_ahead _ _ _ Hs x Hx0 Hx) as Hpre.
    destruct e; auto. destruct Hsh as (Ha & Hpc & -> & ->).
    destruct (Nat.eqb_spec (bidx g x) (tidx g t)) as [E|]; cbn [andb]; auto.
    destruct (_ <? _)%nat; auto. unfold tbs. pose proof (k_now _ _ _ _ Ht Ha). apply geo_le; auto. lia.
  - apply apply_eff_contrib_len. apply (h_clen _ _ _ Hs).
  - intros i k p Hin.
    destruct (C_at_eff e s i k) as [Hc|[(i0 & -> & _ & Hc)|(r & -> & Hj & Hkk & Hc)]]; rewrite Hc in Hin.
    + pose proof (h_contrib _ _ _ Hs i k p Hin) as Hpre. rewrite S_at_eff. destruct e; auto.
      destruct Hsh as (Ha & Hpc & -> & ->).
      destruct (Nat.eqb_spec i (tidx g t)) as [->|]; cbn [andb]; auto.
      destruct (_ <? _)%nat; auto.
      destruct (Z.eq_dec (S_at s (tidx g t)) (tbs g t)) as [E|E]; [congruence|]. exfalso.
      destruct (Nat.lt_ge_cases k n_events) as [Hk|Hk].
      * rewrite (k_zeroed _ _ _ _ Ht Ha k) in Hin; auto. rewrite Hpc. exact Hk.
      * unfold C_at in Hin. rewrite contribv_out in Hin; auto.
        pose proof (h_clen _ _ _ Hs) as Hcl. rewrite Forall_forall in Hcl. apply Hcl. apply nth_In.
        rewrite (h_len _ _ _ Hs). apply bidx_lt. lia.
    + destruct Hin.
    + rewrite S_at_eff. apply in_app_or in Hin. destruct Hin as [Hin|[<-|[]]]; auto.
      apply (h_contrib _ _ _ Hs i k p Hin).
  - rewrite apply_eff_stale. destruct e; try apply (h_stale _ _ _ Hs).
    destruct Hsh as (k & i & seen & rest & Hacc & ->). rewrite (h_stale _ _ _ Hs). cbn [app].
    assert (Hf : filter (fun p : Z * Z => snd p <? seen) (C_at s i k) = []).
    { pose proof (k_seen _ _ _ _ Ht i seen ltac:(rewrite Hacc; left; reflexivity)) as Hle.
      apply filter_nil. intros p Hp. rewrite (h_contrib _ _ _ Hs i k p Hp). lia. }
    rewrite Hf. reflexivity.
  - rewrite apply_eff_adds. destruct e; try apply (h_right _ _ _ Hs).
    apply Forall_app. split; [apply (h_right _ _ _ Hs)|]. constructor; auto.
    destruct Hsh as (Ha & Hpc & Hsl & Hst & Hown). rewrite Hst, Hown. apply (k_home _ _ _ _ Ht Ha). rewrite Hpc. reflexivity.
Qed.

(* ------------------------------------------------------------------------------------ *)
(* the stepping thread's new local state (purely syntactic facts about tstep) *)

Ltac crush_local :=
  unfold after_cb, vloop, next_op, set_pc, start_pc; cbn [t_ops t_pc t_now t_acc t_i t_sum t_rets tl];
  repeat (match goal with
          | |- context [if ?b then _ else _] => destruct b eqn:?
          | |- context [match ?l with [] => _ | _ :: _ => _ end] => destruct l eqn:?
          end; cbn [t_ops t_pc t_now t_acc t_i t_sum t_rets tl]).

Lemma tstep_now g tid s t e t' :
  tstep g tid s t = (e, t') -> active t' = true ->
  (t_pc t = PBegin /\ t_now t' = clock s /\ e = ENone /\ t_acc t' = [] /\ at_home (t_pc t') = false /\ zeroed_upto (t_pc t') = 0%nat)
  \/ (active t = true /\ t_now t' = t_now t /\ t_pc t <> PBegin).
Proof.
  intros H. unfold active. tstep_inv H t; rewrite ?Eops, ?Epc; crush_local; intros; try discriminate;
    first [ right; repeat split; auto; discriminate | left; repeat split; auto; fail | idtac ].
Qed.

Lemma tstep_home g tid s t e t' :
  g_zero_first g = true -> tstep g tid s t = (e, t') -> active t' = true -> at_home (t_pc t') = true ->
  (t_pc t = PStoreStart /\ e = EStart (tidx g t) (tbs g t))
  \/ (t_pc t = PUnlock /\ e = ELock false)
  \/ (S_at s (tidx g t) = tbs g t /\ e = ENone)
  \/ g_n g = 1%nat
  \/ (e = ENone /\ t' = t).
Proof.
  intros Hzf H. unfold active, S_at, tidx, tbs. tstep_inv H t; rewrite ?Eops, ?Epc, ?Hzf in *; crush_local; intros; try discriminate; auto.
  all: try (right; right; left; split; auto; lia).
  all: try (right; right; right; left; apply Nat.eqb_eq; assumption).
  all: try (right; right; right; right; split; reflexivity).
Qed.

Lemma tstep_zeroed g tid s t e t' :
  g_zero_first g = true -> tstep g tid s t = (e, t') -> active t' = true ->
  forall k, (k < zeroed_upto (t_pc t'))%nat ->
  ((k < zeroed_upto (t_pc t))%nat /\ (k < n_events)%nat) \/ (e = EZero (tidx g t) k /\ (k < n_events)%nat).
Proof.
  intros Hzf H. unfold active, tidx. tstep_inv H t; rewrite ?Eops, ?Epc, ?Hzf in *; crush_local; intros; try discriminate; cbn [zeroed_upto] in *; try lia.
  all: unfold n_events in *; match goal with |- context [EZero _ ?k = EZero _ ?k0] => destruct (Nat.eq_dec k0 k) as [->|] end;
    [right; split; [reflexivity|lia] | left; lia].
Qed.

Lemma tstep_acc g tid s t e t' :
  tstep g tid s t = (e, t') ->
  forall i seen, In (i, seen) (t_acc t') -> In (i, seen) (t_acc t) \/ (e = ENone /\ seen = S_at s i).
Proof.
  intros H. unfold S_at. tstep_inv H t; rewrite ?Eops, ?Epc in *; crush_local; intros i0 seen0 Hin; auto;
    try (destruct Hin; fail); try (rewrite ?Eacc in *; auto; fail).
  all: try (apply in_app_or in Hin; destruct Hin as [Hin|[Hin|[]]]; [left; exact Hin | right; inversion Hin; auto]).
  all: try (rewrite <- Heql in Hin; apply in_app_or in Hin; destruct Hin as [Hin|[Hin|[]]]; [left; exact Hin | right; inversion Hin; auto]).
  all: try (left; right; exact Hin).
Qed.


Lemma thr_ok_own g t0 tid s t e t' :
  geom_ok g -> sh_ok g t0 s -> thr_ok g t0 s t -> fresh_thr g s t -> tstep g tid s t = (e, t') ->
  thr_ok g t0 (apply_eff e s) t'.
Proof.
  intros Hg Hs Ht Ft Hst. pose proof Hg as [Hb Hn Hzf].
  pose proof (tstep_eff_shape' _ _ _ _ _ _ Hzf Hst) as Hsh.
  pose proof (thr_ok_eff g t0 tid s t e t Hg Hs Ht Ft Hsh Ht Ft) as Hpost.
  constructor.
  - intros A'. destruct (tstep_now _ _ _ _ _ _ Hst A') as [(Hpc & Hnow & -> & _)|(Ha & Hnow & _)]; rewrite Hnow.
    + cbn [apply_eff]. pose proof (h_clock _ _ _ Hs). lia.
    + apply (k_now _ _ _ _ Hpost Ha).
  - intros A' Hh. destruct (tstep_now _ _ _ _ _ _ Hst A') as [(_ & _ & _ & _ & Hf & _)|(Ha & Hnow & _)]; [congruence|].
    unfold tidx, tbs. rewrite Hnow. fold (tidx g t) (tbs g t).
    destruct (tstep_home _ _ _ _ _ _ Hzf Hst A' Hh) as [(Hpc & ->)|[(Hpc & ->)|[(HS & ->)|[H1|(-> & ->)]]]].
    + rewrite S_at_eff, Nat.eqb_refl. rewrite (h_len _ _ _ Hs).
      assert (Hlt : (tidx g t <? g_n g)%nat = true) by (apply Nat.ltb_lt; apply bidx_lt; lia). rewrite Hlt. reflexivity.
    + apply (k_home _ _ _ _ Hpost Ha). rewrite Hpc. reflexivity.
    + exact HS.
    + lia.
    + apply (k_home _ _ _ _ Hpost Ha Hh).
  - intros A' k Hk Hne. destruct (tstep_now _ _ _ _ _ _ Hst A') as [(_ & _ & _ & _ & _ & Hz)|(Ha & Hnow & _)]; [lia|].
    revert Hne. unfold tidx, tbs. rewrite Hnow. fold (tidx g t) (tbs g t). intros Hne.
    destruct (tstep_zeroed _ _ _ _ _ _ Hzf Hst A' k Hk) as [(Hk' & _)|(-> & _)].
    + apply (k_zeroed _ _ _ _ Hpost Ha k Hk' Hne).
    + apply C_at_zero.
  - intros i seen Hin. destruct (tstep_acc _ _ _ _ _ _ Hst i seen Hin) as [Hold|(-> & ->)].
    + apply (k_seen _ _ _ _ Hpost i seen Hold).
    + cbn [apply_eff]. lia.
Qed.

Lemma thr_ok_tick g t0 dt s u : thr_ok g t0 s u -> thr_ok g t0 (tick dt s) u.
Proof.
  intros [H1 H2 H3 H4]. constructor; auto. intros A. specialize (H1 A). cbn [tick clock]. lia.
Qed.

Lemma sh_ok_tick g t0 dt s : sh_ok g t0 s -> sh_ok g t0 (tick dt s).
Proof.
  intros [H1 H2 H3 H4 H5 H6 H7]. constructor; auto.
  - cbn [tick clock]. lia.
  - intros x Hx0 Hx. apply H3; auto. cbn [tick clock] in Hx. lia.
Qed.

Lemma step_inv2 g t0 c e : geom_ok g -> Inv2 g t0 c -> freshb g c = true -> Inv2 g t0 (step g c e).
Proof.
  intros Hg [Hs Hth] Hf. apply freshb_thr in Hf. destruct e as [tid|dt]; cbn [step].
  - destruct (nth_error (thr c) tid) as [t|] eqn:Et; [|constructor; auto].
    destruct (tstep g tid (sh c) t) as [e t'] eqn:Est.
    pose proof (Forall_nth_error _ _ _ _ Hth Et) as Ht. pose proof (Forall_nth_error _ _ _ _ Hf Et) as Ft.
    pose proof (tstep_eff_shape' _ _ _ _ _ _ (go_zf _ Hg) Est) as Hsh.
    constructor; cbn [sh thr].
    + eapply sh_ok_eff; eauto.
    + apply Forall_upd_nth.
      * rewrite Forall_forall in *. intros u Hu. eapply thr_ok_eff; eauto.
      * intros x _. eapply thr_ok_own; eauto.
  - constructor; cbn [sh thr].
    + apply sh_ok_tick; auto.
    + eapply Forall_impl; [|exact Hth]. intros u. apply thr_ok_tick.
Qed.

Lemma exec_inv2 g t0 sched c : geom_ok g -> Inv2 g t0 c -> alongb (freshb g) g sched c = true -> Inv2 g t0 (exec g sched c).
Proof.
  intros Hg. revert c. induction sched as [|e r IH]; intros c Hc Hal; cbn [exec fold_left]; auto.
  cbn [alongb] in Hal. apply andb_prop in Hal. destruct Hal as [Hf Hr]. apply IH; auto. apply step_inv2; auto.
Qed.

(* ------------------------------------------------------------------------------------ *)
(* the initial configuration *)

Lemma nth_init_slots g t0 i : (i < g_n g)%nat -> nth i (map (init_slot g t0) (seq 0 (g_n g))) dslot = init_slot g t0 i.
Proof.
  intros H. rewrite nth_indep with (d' := init_slot g t0 0) by (rewrite map_length, seq_length; auto).
  rewrite map_nth. rewrite seq_nth by auto. reflexivity.
Qed.

Lemma active_init ops : active (init_thread ops) = false.
Proof. unfold active, init_thread; cbn. destruct ops; reflexivity. Qed.

Lemma nth_repeat_nil {A} k m : nth k (repeat (@nil A) m) [] = [].
Proof. destruct (nth_in_or_default k (repeat (@nil A) m) []) as [H|H]; auto. apply repeat_spec in H. auto. Qed.

Lemma C_at_init g t0 i k : C_at (init_shared g t0) i k = [].
Proof.
  unfold C_at, init_shared; cbn [slots]. destruct (Nat.lt_ge_cases i (g_n g)).
  - rewrite nth_init_slots by auto. unfold contribv, init_slot; cbn [s_contrib]. apply nth_repeat_nil.
  - rewrite nth_map_seq_default by auto. unfold contribv; cbn. destruct k; reflexivity.
Qed.

Lemma init_ahead g t0 x : 0 < g_bl g -> (0 < g_n g)%nat -> t0 <= x -> S_at (init_shared g t0) (bidx g x) <= bstart g x.
Proof.
  intros Hb Hn Hx. unfold S_at, init_shared; cbn [slots]. rewrite nth_init_slots by (apply bidx_lt; auto).
  unfold init_slot; cbn [s_start]. rewrite !bstart_eq by auto. unfold bidx.
  set (bl := g_bl g) in *. set (n := Z.of_nat (g_n g)) in *. assert (Hn0 : 0 < n) by lia.
  rewrite !Z2Nat.id by (apply Z.mod_pos_bound; lia).
  rewrite <- Zminus_mod.
  assert (Hq : t0 / bl <= x / bl) by (apply Z.div_le_mono; lia).
  assert (Hm : (x / bl - t0 / bl) mod n <= x / bl - t0 / bl) by (apply Z.mod_le; lia).
  nia.
Qed.

Lemma init_inv2 g t0 progs : 0 < g_bl g -> (0 < g_n g)%nat -> Inv2 g t0 (init g t0 progs).
Proof.
  intros Hb Hn. constructor; cbn [init sh thr].
  - constructor.
    + cbn. lia.
    + cbn [init_shared slots]. rewrite map_length, seq_length. reflexivity.
    + intros x Hx0 _. apply init_ahead; auto.
    + cbn [init_shared slots]. rewrite Forall_map. rewrite Forall_forall. intros i _. unfold contrib_len, init_slot; cbn. reflexivity.
    + intros i k p Hin. rewrite C_at_init in Hin. destruct Hin.
    + reflexivity.
    + constructor.
  - rewrite Forall_map. rewrite Forall_forall. intros ops _. constructor; rewrite ?active_init; try discriminate.
    intros i seen Hin. unfold init_thread in Hin; cbn in Hin. destruct Hin.
Qed.

(* ------------------------------------------------------------------------------------ *)
(* C09_right_bucket, C09_expired_invisible *)

Lemma right_bucket g t0 progs sched :
  0 < g_bl g -> (2 <= g_n g)%nat -> g_zero_first g = true ->
  no_stall g sched (init g t0 progs) ->
  let c := exec g sched (init g t0 progs) in
  Forall (fun r => a_start r = a_own r) (adds (sh c)).
Proof.
  intros Hb Hn Hzf Hns c. apply (h_right g t0). apply i2_sh. apply exec_inv2; auto.
  - constructor; auto.
  - apply init_inv2; auto. lia.
Qed.

Lemma expired_invisible g t0 progs sched :
  0 < g_bl g -> (2 <= g_n g)%nat -> g_zero_first g = true ->
  no_stall g sched (init g t0 progs) ->
  stale (sh (exec g sched (init g t0 progs))) = [].
Proof.
  intros Hb Hn Hzf Hns. apply (h_stale g t0). apply i2_sh. apply exec_inv2; auto.
  - constructor; auto.
  - apply init_inv2; auto. lia.
Qed.

(* every amount a counter holds was added under the current start of its slot: an amount never
   survives into a later window of the slot *)
Lemma contrib_current g t0 progs sched :
  0 < g_bl g -> (2 <= g_n g)%nat -> g_zero_first g = true ->
  no_stall g sched (init g t0 progs) ->
  let c := exec g sched (init g t0 progs) in
  forall i k p, In p (contribv (nth i (slots (sh c)) dslot) k) -> snd p = s_start (nth i (slots (sh c)) dslot).
Proof.
  intros Hb Hn Hzf Hns c. apply (h_contrib g t0). apply i2_sh. apply exec_inv2; auto.
  - constructor; auto.
  - apply init_inv2; auto. lia.
Qed.
