(* C17, part 4: what the searcher sees of a file.  From the bytes of a rendered ghost file -
   intact, or with its data or its idx cut at an arbitrary byte - to the "view" the search
   proofs work with: the decodable idx entries from any 16-byte position, what a read from a
   group's offset returns, what the cache re-validation read returns. *)
From SG Require Import Base.Prelude Base.GoInt Model.MLBytes Model.MLDecimal Model.MetricLog
  Model.MetricLogSpec Proofs.MLBytesProofs Proofs.MetricLogLineProofs Proofs.MetricLogBoundProofs
  Proofs.MetricLogWriterProofs.

(* ---------------------------------------------------------------- lists *)

Lemma firstn_exact {A} (a b : list A) n : length a = n -> firstn n (a ++ b) = a.
Proof. intros <-. rewrite firstn_app, Nat.sub_diag, firstn_all. cbn. apply app_nil_r. Qed.

Lemma skipn_exact {A} (a b : list A) n : length a = n -> skipn n (a ++ b) = b.
Proof. intros <-. rewrite skipn_app, Nat.sub_diag, skipn_all. reflexivity. Qed.

Lemma In_firstn {A} (x : A) n l : In x (firstn n l) -> In x l.
Proof. intros H. rewrite <- (firstn_skipn n l). apply in_or_app. left. exact H. Qed.

Lemma In_skipn {A} (x : A) n l : In x (skipn n l) -> In x l.
Proof. intros H. rewrite <- (firstn_skipn n l). apply in_or_app. right. exact H. Qed.

Lemma skipn_add {A} b a (l : list A) : skipn (b + a) l = skipn a (skipn b l).
Proof.
  revert l; induction b as [|b IH]; intros l; [reflexivity|]. destruct l as [|x r]; [rewrite !skipn_nil; reflexivity|].
  cbn [Nat.add skipn]. apply IH.
Qed.

Lemma Forall_firstn {A} (P : A -> Prop) n l : Forall P l -> Forall P (firstn n l).
Proof. intros H. apply Forall_forall. intros x Hx. rewrite Forall_forall in H. apply H. eapply In_firstn. exact Hx. Qed.

Lemma skipn_nth {A} (l : list A) j : (j < length l)%nat ->
  exists e r, skipn j l = e :: r /\ nth_error l j = Some e.
Proof.
  revert l; induction j as [|j IH]; intros l H; destruct l as [|x r]; cbn [length] in H; try lia.
  - exists x, r. split; reflexivity.
  - cbn [skipn nth_error]. apply IH. lia.
Qed.

Lemma firstn_skipn_firstn {A} a b c (X : list A) :
  length (firstn a (skipn b (firstn c X))) = a ->
  firstn a (skipn b (firstn c X)) = firstn a (skipn b X).
Proof.
  intros H. rewrite <- (firstn_skipn c X) at 2. rewrite skipn_app, firstn_app.
  rewrite firstn_length in H. replace (a - length (skipn b (firstn c X)))%nat with O by lia.
  cbn [firstn]. rewrite app_nil_r. reflexivity.
Qed.

Lemma takeZ_app_ge {A} (a b : list A) c : lenZ a <= c -> takeZ c (a ++ b) = a ++ takeZ (c - lenZ a) b.
Proof.
  intros H. unfold takeZ, lenZ in *. rewrite firstn_app. rewrite firstn_all2 by lia.
  replace (Z.to_nat (c - Z.of_nat (length a))) with (Z.to_nat c - length a)%nat by lia. reflexivity.
Qed.

Lemma takeZ_app_le {A} (a b : list A) c : c <= lenZ a -> takeZ c (a ++ b) = takeZ c a.
Proof.
  intros H. unfold takeZ, lenZ in *. rewrite firstn_app.
  replace (Z.to_nat c - length a)%nat with O by lia. cbn [firstn]. apply app_nil_r.
Qed.

Lemma takeZ_all {A} (a : list A) c : lenZ a <= c -> takeZ c a = a.
Proof. intros H. unfold takeZ, lenZ in *. apply firstn_all2. lia. Qed.

(* ---------------------------------------------------------------- idx bytes *)

Definition e16 (e : Z * Z) : bytes := be64 (fst e) ++ be64 (snd e).

Lemma e16_length e : length (e16 e) = 16%nat.
Proof. unfold e16, be64. rewrite app_length, !be_length. reflexivity. Qed.

Lemma enc_entries_cons e r : enc_entries (e :: r) = e16 e ++ enc_entries r.
Proof. reflexivity. Qed.

Lemma enc_entries_length l : length (enc_entries l) = (16 * length l)%nat.
Proof.
  induction l as [|e r IH]; [reflexivity|]. rewrite enc_entries_cons, app_length, e16_length, IH. cbn [length]. lia.
Qed.

Definition ent_ok (e : Z * Z) : Prop := 0 <= fst e < two64 /\ 0 <= snd e < two63.

Lemma decode_step f bs : (16 <= length bs)%nat ->
  decode_idx (S f) bs =
  let '(es, t) := decode_idx f (skipn 16 bs) in
  ((de64u (firstn 8 bs), de64s (firstn 8 (skipn 8 bs))) :: es, t).
Proof.
  intros H. destruct bs as [|z bs]; [cbn in H; lia|]. cbn [decode_idx].
  destruct (length (z :: bs) <? 16)%nat eqn:E; [apply Nat.ltb_lt in E; lia|reflexivity].
Qed.

Lemma decode_short f bs : (length bs < 16)%nat ->
  decode_idx (S f) bs = ([], match bs with [] => false | _ => true end).
Proof.
  intros H. destruct bs as [|z bs]; [reflexivity|]. cbn [decode_idx].
  destruct (length (z :: bs) <? 16)%nat eqn:E; [reflexivity|apply Nat.ltb_ge in E; lia].
Qed.

Lemma e16_decode e X : ent_ok e ->
  de64u (firstn 8 (e16 e ++ X)) = fst e /\ de64s (firstn 8 (skipn 8 (e16 e ++ X))) = snd e /\
  skipn 16 (e16 e ++ X) = X.
Proof.
  intros [H1 H2]. unfold e16. rewrite <- app_assoc. split; [|split].
  - rewrite firstn_exact by apply be_length. apply de64u_be64. exact H1.
  - rewrite skipn_exact by apply be_length. rewrite firstn_exact by apply be_length. apply de64s_be64. exact H2.
  - rewrite app_assoc. apply skipn_exact. rewrite app_length. unfold be64. rewrite !be_length. reflexivity.
Qed.

Lemma decode_enc es : forall fuel tail, Forall ent_ok es -> (length tail < 16)%nat -> (length es < fuel)%nat ->
  decode_idx fuel (enc_entries es ++ tail) = (es, match tail with [] => false | _ => true end).
Proof.
  induction es as [|e r IH]; intros fuel tail Hok Ht Hf; destruct fuel as [|f]; try (cbn [length] in Hf; lia).
  - cbn [enc_entries flat_map app]. apply decode_short. exact Ht.
  - inversion Hok as [|? ? He Hr]; subst. rewrite enc_entries_cons, <- app_assoc.
    rewrite decode_step by (rewrite app_length, e16_length; lia).
    destruct (e16_decode e (enc_entries r ++ tail) He) as (E1 & E2 & E3). rewrite E1, E2, E3.
    rewrite (IH f tail Hr Ht) by (cbn [length] in Hf; lia). destruct e; reflexivity.
Qed.

Lemma skipn_enc j : forall l tail, (j <= length l)%nat ->
  skipn (16 * j) (enc_entries l ++ tail) = enc_entries (skipn j l) ++ tail.
Proof.
  induction j as [|j IH]; intros l tail H; [reflexivity|].
  destruct l as [|e r]; [cbn [length] in H; lia|].
  replace (16 * S j)%nat with (16 + 16 * j)%nat by lia. rewrite skipn_add.
  rewrite enc_entries_cons, <- app_assoc. rewrite (skipn_exact (e16 e)) by apply e16_length.
  cbn [skipn]. apply IH. cbn [length] in H. lia.
Qed.

Lemma to_nat_16 j : Z.to_nat (16 * Z.of_nat j) = (16 * j)%nat.
Proof. lia. Qed.

(* the entries the searcher decodes from idx position 16*j of (complete entries ++ a torn rest) *)
Lemma v1_gen l tail j : Forall ent_ok l -> (length tail < 16)%nat ->
  fst (idx_entries (dropZ (16 * Z.of_nat j) (enc_entries l ++ tail))) = skipn j l.
Proof.
  intros Hok Ht. unfold dropZ. rewrite to_nat_16.
  destruct (Nat.le_gt_cases j (length l)) as [Hj|Hj].
  - rewrite skipn_enc by exact Hj. unfold idx_entries. rewrite decode_enc.
    + reflexivity.
    + apply Forall_skipn. exact Hok.
    + exact Ht.
    + rewrite app_length, enc_entries_length. lia.
  - rewrite (skipn_all2 l) by lia. rewrite skipn_all2; [reflexivity|].
    rewrite app_length, enc_entries_length. lia.
Qed.

Lemma take_enc_entries l : forall n, exists ki tail,
  firstn n (enc_entries l) = enc_entries (firstn ki l) ++ tail /\ (length tail < 16)%nat /\
  (forall j, (16 * (j + 1) <= n)%nat -> (j < length l)%nat -> (j < ki)%nat).
Proof.
  induction l as [|e r IH]; intros n.
  - exists O, []. rewrite firstn_nil. cbn. repeat split; [lia|]. intros j _ H. cbn in H. lia.
  - destruct (Nat.lt_ge_cases n 16) as [Hn|Hn].
    + exists O, (firstn n (e16 e)). rewrite enc_entries_cons, firstn_app, e16_length.
      replace (n - 16)%nat with O by lia. cbn [firstn enc_entries flat_map app]. rewrite app_nil_r.
      repeat split; [rewrite firstn_length, e16_length; lia|]. intros j Hj _. lia.
    + destruct (IH (n - 16)%nat) as (ki & tail & E & Ht & Hv). exists (S ki), tail.
      rewrite enc_entries_cons, firstn_app, e16_length, E. rewrite firstn_all2 by (rewrite e16_length; lia).
      cbn [firstn]. rewrite enc_entries_cons, <- app_assoc. repeat split; [exact Ht|].
      intros [|j] Hj Hl; [lia|]. cbn [length] in Hl. assert (j < ki)%nat by (apply Hv; lia). lia.
Qed.

(* the 8 bytes the cache re-validation reads at idx position 16*j *)
Lemma cache_bytes l j :
  length (firstn 8 (skipn (16 * j) (enc_entries l))) = 8%nat ->
  exists e, nth_error l j = Some e /\ firstn 8 (skipn (16 * j) (enc_entries l)) = be64 (fst e).
Proof.
  intros H. destruct (Nat.lt_ge_cases j (length l)) as [Hj|Hj].
  - destruct (skipn_nth l j Hj) as (e & r & Es & En). exists e. split; [exact En|].
    pose proof (skipn_enc j l [] ltac:(lia)) as E. rewrite !app_nil_r in E. rewrite E, Es, enc_entries_cons.
    unfold e16. rewrite <- app_assoc. apply firstn_exact. apply be_length.
  - rewrite skipn_all2 in H by (rewrite enc_entries_length; lia). cbn in H. lia.
Qed.

Lemma entries_ok gs : forall p, Forall group_ok gs -> 0 <= p -> p + lenZ (enc_lines (gitems gs)) < two63 ->
  Forall ent_ok (entries gs p).
Proof.
  induction gs as [|g r IH]; intros p Hg Hp Hs; cbn [entries]; [constructor|].
  inversion Hg as [|? ? Hg0 Hr]; subst. cbn [gitems flat_map] in Hs. fold (gitems r) in Hs.
  rewrite enc_lines_app, lenZ_app in Hs.
  pose proof (lenZ_nonneg (enc_lines (snd g))). pose proof (lenZ_nonneg (enc_lines (gitems r))).
  constructor.
  - destruct Hg0 as (_ & Hs0 & _). split; cbn [fst snd]; [exact Hs0|lia].
  - apply IH; [exact Hr|lia|lia].
Qed.

Lemma entries_nth gs : forall p j e, nth_error (entries gs p) j = Some e ->
  exists g, nth_error gs j = Some g /\ fst e = fst g /\ snd e = p + lenZ (enc_lines (gitems (firstn j gs))).
Proof.
  induction gs as [|g r IH]; intros p j e H; [destruct j; discriminate|].
  destruct j as [|j]; cbn [entries nth_error] in H.
  - inversion H; subst. exists g. cbn. repeat split. unfold lenZ. cbn. lia.
  - destruct (IH _ _ _ H) as (g' & Hn & Hf & Hs). exists g'. repeat split; [exact Hn|exact Hf|].
    rewrite Hs. cbn [firstn gitems flat_map]. fold (gitems (firstn j r)). rewrite enc_lines_app, lenZ_app. lia.
Qed.

(* ---------------------------------------------------------------- data bytes *)

Lemma vis_prefix its : forall c, vis_items c its = firstn (length (vis_items c its)) its.
Proof.
  induction its as [|it r IH]; intros c; [reflexivity|]. cbn [vis_items].
  destruct (lenZ (format_item it) + 1 <=? c); [|reflexivity]. cbn [length firstn]. f_equal. apply IH.
Qed.

Lemma vis_full its : forall c, lenZ (enc_lines its) <= c -> vis_items c its = its.
Proof.
  induction its as [|it r IH]; intros c H; [reflexivity|]. cbn [vis_items].
  rewrite enc_lines_cons, lenZ_app in H. unfold lenZ at 2 in H. cbn [length] in H. fold (lenZ (enc_lines r)) in H.
  pose proof (lenZ_nonneg (enc_lines r)).
  destruct (lenZ (format_item it) + 1 <=? c) eqn:E; [|lia]. f_equal. apply IH.
  assert (Z.of_nat (S (length (enc_lines r))) = 1 + lenZ (enc_lines r)) by (unfold lenZ; lia). lia.
Qed.

Lemma enc_lines_mono l : forall a b, (a <= b)%nat -> lenZ (enc_lines (firstn a l)) <= lenZ (enc_lines (firstn b l)).
Proof.
  induction l as [|x r IH]; intros a b H; [rewrite !firstn_nil; lia|].
  destruct a as [|a]; [cbn; apply lenZ_nonneg|]. destruct b as [|b]; [lia|]. cbn [firstn].
  rewrite !enc_lines_cons, !lenZ_app. specialize (IH a b ltac:(lia)). unfold lenZ in *. cbn [length]. lia.
Qed.

Lemma take_enc its : forall c, Forall valid_item its -> exists tail,
  takeZ c (enc_lines its) = enc_lines (vis_items c its) ++ tail /\ ~ In 10 tail /\
  (vis_items c its = its \/
   lenZ (enc_lines (vis_items c its) ++ tail) < lenZ (enc_lines (firstn (S (length (vis_items c its))) its))).
Proof.
  induction its as [|it r IH]; intros c Hv.
  - exists []. unfold takeZ. rewrite firstn_nil. cbn. repeat split; [tauto|left; reflexivity].
  - inversion Hv as [|? ? Hit Hr]; subst. cbn [vis_items]. set (n := lenZ (format_item it) + 1).
    rewrite enc_lines_cons.
    destruct (n <=? c) eqn:E.
    + destruct (IH (c - n) Hr) as (tail & Et & Hnl & Hlen). exists tail.
      replace (format_item it ++ 10 :: enc_lines r) with ((format_item it ++ [10]) ++ enc_lines r)
        by (rewrite <- app_assoc; reflexivity).
      assert (Hl : lenZ (format_item it ++ [10]) = n) by (rewrite lenZ_app; reflexivity).
      rewrite takeZ_app_ge by lia. rewrite Hl, Et. repeat split.
      * rewrite enc_lines_cons. rewrite <- !app_assoc. reflexivity.
      * exact Hnl.
      * destruct Hlen as [Hlen|Hlen]; [left; f_equal; exact Hlen|right].
        cbn [length]. change (firstn (S (S (length (vis_items (c - n) r)))) (it :: r))
          with (it :: firstn (S (length (vis_items (c - n) r))) r).
        rewrite !enc_lines_cons. rewrite <- app_assoc. cbn [app]. rewrite !lenZ_app in *.
        unfold lenZ in *. cbn [length] in *. rewrite ?app_length in *. lia.
    + exists (takeZ c (format_item it)). rewrite takeZ_app_le by (unfold n in E; lia). repeat split.
      * intros Hin. apply In_firstn in Hin. revert Hin. apply format_nolf. exact Hit.
      * right. cbn [length firstn enc_lines flat_map app]. rewrite app_nil_r.
        unfold takeZ. rewrite lenZ_app. unfold lenZ. rewrite firstn_length. cbn [length]. lia.
Qed.

Lemma valid_firstn n its : Forall valid_item its -> Forall valid_item (firstn n its).
Proof. intros H. apply Forall_forall. intros x Hx. rewrite Forall_forall in H. apply H. eapply In_firstn. exact Hx. Qed.

Lemma valid_skipn n its : Forall valid_item its -> Forall valid_item (skipn n its).
Proof. apply Forall_skipn. Qed.

(* a read from the byte offset of line number nb in a data file cut at byte c *)
Lemma read_cut c its nb : Forall valid_item its -> (nb <= length its)%nat ->
  read_items (takeZ c (enc_lines its)) (lenZ (enc_lines (firstn nb its))) = skipn nb (vis_items c its).
Proof.
  intros Hv Hnb. destruct (take_enc its c Hv) as (tail & Et & Hnl & Hlen). rewrite Et.
  set (vis := vis_items c its) in *. set (k := length vis) in *.
  assert (Evis : vis = firstn k its) by apply vis_prefix.
  destruct (Nat.le_gt_cases nb k) as [Hk|Hk].
  - assert (E1 : firstn nb its = firstn nb vis).
    { rewrite Evis, firstn_firstn. f_equal. lia. }
    rewrite E1. rewrite <- (firstn_skipn nb vis) at 1. rewrite enc_lines_app, <- app_assoc.
    apply read_items_at; [|exact Hnl]. apply valid_skipn. rewrite Evis. apply valid_firstn. exact Hv.
  - rewrite (skipn_all2 vis) by (fold k; lia). apply read_items_beyond.
    destruct Hlen as [Hlen|Hlen].
    + exfalso. assert (length vis = length its) by (rewrite Hlen; reflexivity). fold k in H. lia.
    + pose proof (enc_lines_mono its (S k) nb ltac:(lia)). lia.
Qed.

Lemma group_items_valid gs : Forall group_ok gs -> Forall valid_item (gitems gs).
Proof.
  intros H. apply Forall_forall. intros x Hx. unfold gitems in Hx. apply in_flat_map in Hx.
  destruct Hx as (g & Hg & Hx). rewrite Forall_forall in H. destruct (H g Hg) as (_ & _ & Hf).
  rewrite Forall_forall in Hf. apply Hf. exact Hx.
Qed.

Lemma gitems_firstn_length gs j : firstn (length (gitems (firstn j gs))) (gitems gs) = gitems (firstn j gs).
Proof.
  rewrite <- (firstn_skipn j gs) at 2. rewrite gitems_app. apply firstn_exact. reflexivity.
Qed.

Lemma gitems_skipn_length gs j : skipn (length (gitems (firstn j gs))) (gitems gs) = gitems (skipn j gs).
Proof.
  rewrite <- (firstn_skipn j gs) at 2. rewrite gitems_app. apply skipn_exact. reflexivity.
Qed.

(* ---------------------------------------------------------------- the view of a file *)

(* v = (gs, ki, c): the ghost groups of the file, the number of its idx entries that are
   completely on disk, the byte at which its data is cut (anything >= its size: not cut) *)
Definition view := (list group * nat * Z)%type.

Definition vitems (v : view) : list item := let '(gs, _, c) := v in vis_items c (gitems gs).

Definition SView (f : file) (v : view) : Prop :=
  let '(gs, ki, c) := v in
  (forall j, fst (idx_entries (dropZ (16 * Z.of_nat j) (f_idx f))) = skipn j (firstn ki (entries gs 0))) /\
  (forall j, (j <= length gs)%nat ->
     read_items (f_data f) (lenZ (enc_lines (gitems (firstn j gs)))) =
     skipn (length (gitems (firstn j gs))) (vis_items c (gitems gs))) /\
  (forall j, length (firstn 8 (dropZ (16 * Z.of_nat j) (f_idx f))) = 8%nat ->
     exists g, nth_error gs j = Some g /\ de64u (firstn 8 (dropZ (16 * Z.of_nat j) (f_idx f))) = fst g).

Definition gfile_ok (gs : list group) : Prop :=
  Forall group_ok gs /\ inc_lt (map fst gs) /\ lenZ (enc_lines (gitems gs)) < two63.

(* a file whose data is cut at byte cd and whose idx is cut at byte ci (Z: any value; beyond the
   size = not cut) *)
Lemma cut_view f gs cd ci : frep f gs -> gfile_ok gs ->
  exists ki, SView (mkFile (f_day f) (f_seq f) (takeZ cd (f_data f)) (takeZ ci (f_idx f))) (gs, ki, cd) /\
    (ki <= length gs)%nat /\
    (forall j, 16 * (Z.of_nat j + 1) <= ci -> (j < length gs)%nat -> (j < ki)%nat).
Proof.
  intros [Hd Hi] (Hg & Hinc & Hsz). rewrite Hd, Hi.
  assert (Hes : Forall ent_ok (entries gs 0)) by (apply entries_ok; [exact Hg|lia|lia]).
  destruct (take_enc_entries (entries gs 0) (Z.to_nat ci)) as (ki0 & tail & Et & Ht & Hvis).
  set (ki := Nat.min ki0 (length gs)).
  assert (Eki : firstn ki0 (entries gs 0) = firstn ki (entries gs 0)).
  { unfold ki. destruct (Nat.le_gt_cases ki0 (length gs)) as [H|H]; [rewrite Nat.min_l by lia; reflexivity|].
    rewrite Nat.min_r by lia. rewrite !firstn_all2 by (rewrite entries_length; lia). reflexivity. }
  exists ki. split; [|split].
  - assert (Et' : takeZ ci (enc_entries (entries gs 0)) = enc_entries (firstn ki (entries gs 0)) ++ tail).
    { unfold takeZ. rewrite Et, Eki. reflexivity. }
    unfold SView. cbn [f_data f_idx]. split; [|split].
    + intros j. rewrite Et'. apply v1_gen; [|exact Ht]. apply Forall_firstn. exact Hes.
    + intros j Hj. rewrite <- (gitems_firstn_length gs j) at 1.
      apply read_cut; [apply group_items_valid; exact Hg|].
      rewrite <- (firstn_skipn j gs) at 2. rewrite gitems_app, app_length. lia.
    + intros j Hlen. unfold dropZ, takeZ in *. rewrite to_nat_16 in *.
      rewrite firstn_skipn_firstn in * by exact Hlen.
      destruct (cache_bytes _ _ Hlen) as (e & He & Eb). rewrite Eb.
      destruct (entries_nth _ _ _ _ He) as (g & Hn & Hf & _). exists g. split; [exact Hn|].
      rewrite de64u_be64; [exact Hf|]. rewrite Forall_forall in Hes. apply (Hes e). eapply nth_error_In. exact He.
  - unfold ki. lia.
  - intros j Hj Hl. unfold ki. assert (j < ki0)%nat; [|lia]. apply Hvis; [lia|]. rewrite entries_length. exact Hl.
Qed.
