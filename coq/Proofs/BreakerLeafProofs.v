(* The breaker models of C03 (Model/Breaker.v) and C12 (Model/BreakerConc.v) ARE the leaf
   transcriptions of Model/BreakerLeaf.v (which translator/leaf regenerates from the Go source
   and C03_leaf_check.v / C12_leaf_check.v prove equal to the regenerated Gallina for all inputs):

   - sequentially (one caller: every load of the state word returns the breaker's state, a CAS
     succeeds iff the state is the expected one, the probe counter loaded after addCurProbeNum is
     the old value + 1): [try_pass], [rollback], [decide] are the action lists of
     [try_pass_leaf], [rollback_leaf], [decide_leaf] executed by [seq_run];
   - in the pc machine: every branch taken by [tstep] at a load (T301, T303, T302, C301, C301b,
     C314) is the branch of the leaf function at the loaded value, and the pc chain after each
     successful CAS performs the actions of the from*To* transcription in the same order
     (yield labels and effects). *)
From Coq Require Import Floats.
From SG Require Import Base.Prelude Base.GoInt Base.GoFloat Model.Breaker Model.BreakerConc Model.BreakerLeaf.
#[local] Open Scope Z_scope.

(* ---------------------------------------------------------------------------------- *)
(* arithmetic                                                                           *)

(* the deadline store does not wrap for clock values and timeouts in range *)
Lemma retry_value_id now retry : 0 <= now -> 0 <= retry -> now + retry < two64 ->
  retry_value now retry = now + retry.
Proof. intros H1 H2 H3. unfold retry_value. apply u64_id. unfold in_u64. lia. Qed.

Lemma retry_value_tmax now retry : 0 <= now < tmax -> 0 <= retry < two32 ->
  retry_value now retry = now + retry.
Proof.
  intros H1 H2. apply retry_value_id; try lia.
  Transparent two64 two32. unfold two64, two32, tmax in *. lia. Opaque two64 two32.
Qed.

(* the window-sum loop computes the exact sums of the buckets' counters as long as they stay below
   2^64 (the model's la_sum adds in Z: a uint64 counter cannot wrap below 2^64 completions) *)
Fixpoint sum_fst (l : list (Z * Z)) : Z := match l with [] => 0 | (a, _) :: r => a + sum_fst r end.
Fixpoint sum_snd (l : list (Z * Z)) : Z := match l with [] => 0 | (_, b) :: r => b + sum_snd r end.

Lemma sum_loop_exact l : forall s t,
  Forall (fun p => 0 <= fst p /\ 0 <= snd p) l -> 0 <= s -> 0 <= t ->
  s + sum_fst l < two64 -> t + sum_snd l < two64 ->
  sum_loop l (s, t) = (s + sum_fst l, t + sum_snd l).
Proof.
  induction l as [|[a b] r IH]; intros s t Hl Hs Ht H1 H2; cbn [sum_loop sum_fst sum_snd fst snd] in *.
  - f_equal; lia.
  - inversion Hl as [|x y [Ha Hb] Hr]; subst. cbn [fst snd] in Ha, Hb.
    assert (Hfr : 0 <= sum_fst r) by (clear -Hr; induction Hr as [|[x y] r' [Hx _] _ IHr]; cbn [sum_fst fst] in *; lia).
    assert (Hsr : 0 <= sum_snd r) by (clear -Hr; induction Hr as [|[x y] r' [_ Hy] _ IHr]; cbn [sum_snd snd] in *; lia).
    unfold sum_step. rewrite !u64_id by (unfold in_u64; lia).
    rewrite IH by (try assumption; lia). f_equal; lia.
Qed.

(* getRuleStatSlidingWindowBucketCount is the bucket count of rule_cfg *)
Lemma rule_cfg_bucket_count s th minamt retry probe maxrt interval raw :
  gn (rule_cfg s th minamt retry probe maxrt interval raw) = bucket_count interval raw
  /\ gbl (rule_cfg s th minamt retry probe maxrt interval raw) = interval / bucket_count interval raw.
Proof. unfold rule_cfg, bucket_count. cbn [gn gbl]. split; reflexivity. Qed.

(* ---------------------------------------------------------------------------------- *)
(* sequential model (C03)                                                               *)

Lemma try_pass_is_leaf c b now :
  try_pass c b now =
  (let r := try_pass_leaf (probe_num c) (state b) (next_retry b) now true in
   let s := seq_run c now b (snd r) in (q_b s, fst r, q_ev s, q_hook s)).
Proof.
  unfold try_pass, try_pass_leaf, retry_arrived. destruct b as [st nr cp sl gh]. cbn [state next_retry].
  destruct st; cbn; try reflexivity.
  destruct (nr <=? now); reflexivity.
Qed.

(* the exit hook of a probe whose entry was blocked *)
Lemma rollback_is_leaf c b now :
  rollback b =
  (let s := fold_left (prim c now) (rollback_leaf true (bst_eqb (state b) HalfOpen)) {| q_b := b; q_ev := []; q_hook := false |} in
   (q_b s, q_ev s)).
Proof. unfold rollback, rollback_leaf. destruct b as [st nr cp sl gh]. destruct st; reflexivity. Qed.

Lemma decide_is_leaf c b now bad sl2 h2 B T :
  retry_value now (retry_ms c) = now + retry_ms c ->
  decide c b now bad sl2 h2 B T =
  (let s := seq_run c now (set_slots b sl2 h2) (decide_leaf c (state b) (state b) (cur_probe b + 1) bad B T) in
   (q_b s, q_ev s)).
Proof.
  intros Hr. unfold decide, decide_leaf, set_slots. destruct b as [st nr cp sl gh]. cbn [state next_retry cur_probe slots ghist].
  destruct st.
  - destruct (T <? min_amt c); [reflexivity|]. destruct (reached c B T); [|reflexivity].
    cbn. rewrite Hr. reflexivity.
  - destruct bad.
    + cbn. rewrite Hr. reflexivity.
    + destruct ((probe_num c =? 0) || (probe_num c <=? cp + 1)); reflexivity.
  - reflexivity.
Qed.

(* on_complete = counter adds (adds_leaf: the bad counter iff is_bad, then the total counter; they
   are the +1 updates of sl2) followed by decide at the sums *)
Lemma on_complete_is_leaf c b now rt err :
  0 < now -> retry_value now (retry_ms c) = now + retry_ms c ->
  forall sl1, la_current (gn c) (gbl c) now (slots b) = Some sl1 ->
  let i := bidx (gn c) (gbl c) now in
  let bad := is_bad c rt err in
  let w := sget sl1 i in
  let sl2 := sset sl1 i {| sst := sst w; sbad := sbad w + (if bad then 1 else 0); stot := stot w + 1 |} in
  let B := la_sum sbad (gn c) (gbl c) now sl2 in
  let T := la_sum stot (gn c) (gbl c) now sl2 in
  complete_leaf c true (state b) (state b) (cur_probe b + 1) bad B T
    = adds_leaf bad ++ decide_leaf c (state b) (state b) (cur_probe b + 1) bad B T
  /\ on_complete c b now rt err =
     (let s := seq_run c now (set_slots b sl2 (ghist b ++ [(now, bad)]))
                 (decide_leaf c (state b) (state b) (cur_probe b + 1) bad B T) in (q_b s, q_ev s)).
Proof.
  intros Hn Hr sl1 Hc. cbv zeta. split; [reflexivity|].
  unfold on_complete. replace (now <=? 0) with false by (symmetry; apply Z.leb_gt; lia).
  rewrite Hc. apply decide_is_leaf, Hr.
Qed.

(* MetricStatSlot.OnCompleted in the model: complete_all gives every breaker of the resource, in
   order, exactly one on_complete with the entry's (now, rt, err) - one [stat_slot_step] each *)
Lemma complete_all_once i now rt err c cs b bs :
  complete_all i now rt err (c :: cs) (b :: bs) =
  (let '(b1, es) := on_complete c b now rt err in
   let '(bs1, es') := complete_all (i + 1) now rt err cs bs in
   (b1 :: bs1, tag i es ++ es'))
  /\ length (stat_slot_step rt (if err then 1 else 0)) = 1%nat.
Proof. split; reflexivity. Qed.

(* ---------------------------------------------------------------------------------- *)
(* pc machine (C12): branches at the loads                                              *)

Section Conc.
Variables (c : cfg) (tid clk : Z) (sh : shared) (th : thread).

(* TryPass: load of the state word *)
Lemma conc_T301 : tpc th = T301 ->
  snd (tstep c tid clk sh th) =
  match sw sh with
  | Open => with_pc th T303
  | s => finish (result th (fst (try_pass_leaf (probe_num c) s (dl sh) clk true)))
  end
  /\ (sw sh <> Open -> snd (try_pass_leaf (probe_num c) (sw sh) (dl sh) clk true) = []).
Proof.
  intros H. unfold tstep. rewrite H. unfold try_pass_leaf.
  destruct (sw sh); cbn [fst snd]; (split; [|intros; try reflexivity; congruence]).
  - reflexivity.
  - destruct (0 <? probe_num c); reflexivity.
  - reflexivity.
Qed.

(* retryTimeoutArrived: clock read and load of the deadline *)
Lemma conc_T303 : tpc th = T303 ->
  tstep c tid clk sh th =
  (sh, if retry_arrived (dl sh) clk then with_pc th (T302 clk (dtag sh))
       else finish (result th (fst (try_pass_leaf (probe_num c) Open (dl sh) clk true)))).
Proof.
  intros H. unfold tstep. rewrite H. unfold try_pass_leaf, retry_arrived.
  destruct (dl sh <=? clk); reflexivity.
Qed.

(* fromOpenToHalfOpen: the result of TryPass is the result of the CAS; the CAS succeeds iff the
   state word is Open *)
Lemma conc_T302 rnow rtag d : tpc th = T302 rnow rtag -> retry_arrived d rnow = true ->
  let ok := bst_eqb (sw sh) Open in
  tres (snd (tstep c tid clk sh th)) = tres th ++ [fst (try_pass_leaf (probe_num c) Open d rnow ok)]
  /\ snd (try_pass_leaf (probe_num c) Open d rnow ok) = [AOpenToHalf]
  /\ sw (fst (tstep c tid clk sh th)) = (if ok then HalfOpen else sw sh)
  /\ label (tpc (snd (tstep c tid clk sh th))) =
       (if ok then 307 else label (tpc (finish (result th false)))).
Proof.
  intros H Ha. unfold tstep. rewrite H. unfold try_pass_leaf. rewrite Ha.
  destruct (sw sh) eqn:E; cbn; rewrite ?E; repeat split; reflexivity.
Qed.

(* OnRequestComplete: first load of the state word.  The branch is the first action of
   decide_leaf at the loaded value; only Closed-with-threshold-reached loads the word again *)
Lemma conc_C301 bad B T : tpc th = C301 bad B T ->
  forall s2 p,
  tstep c tid clk sh th =
  (sh, match sw sh with
       | Closed => if (T <? min_amt c) || negb (reached c B T)
                   then goto th (decide_leaf c Closed s2 p bad B T)
                   else with_pc th (C301b B T)
       | s1 => goto th (decide_leaf c s1 s2 p bad B T)
       end).
Proof.
  intros H s2 p. unfold tstep. rewrite H. unfold decide_leaf.
  destruct (sw sh).
  - destruct (T <? min_amt c); [reflexivity|]. destruct (reached c B T); reflexivity.
  - destruct bad; reflexivity.
  - reflexivity.
Qed.

(* second load of the state word *)
Lemma conc_C301b bad B T : tpc th = C301b B T ->
  (T <? min_amt c) = false -> reached c B T = true ->
  forall p, tstep c tid clk sh th = (sh, goto th (decide_leaf c Closed (sw sh) p bad B T)).
Proof.
  intros H Hm Hr p. unfold tstep. rewrite H. unfold decide_leaf. rewrite Hm, Hr.
  destruct (sw sh); reflexivity.
Qed.

(* load of the probe counter after addCurProbeNum *)
Lemma conc_C314 : tpc th = C314 ->
  forall s2 B T, tstep c tid clk sh th = (sh, goto th (tl (decide_leaf c HalfOpen s2 (pn sh) false B T))).
Proof.
  intros H s2 B T. unfold tstep. rewrite H. unfold decide_leaf. cbn [tl].
  destruct ((probe_num c =? 0) || (probe_num c <=? pn sh)); reflexivity.
Qed.

(* addCurProbeNum *)
Lemma conc_C305 : tpc th = C305 -> tstep c tid clk sh th = (set_pn sh (pn sh + 1), with_pc th C314).
Proof. intros H. unfold tstep. rewrite H. reflexivity. Qed.

End Conc.

(* ---------------------------------------------------------------------------------- *)
(* pc machine: the chain after each CAS is the from*To* transcription                   *)

(* the pcs a thread walks through when its CAS succeeds *)
Definition chain_co (sn : snap) : list pc := [CCasCO sn; C304co sn; C307co sn].
Definition chain_ho (sn : snap) : list pc := [CCasHO sn; C306ho sn; C304ho sn; C307ho sn].
Definition chain_hc : list pc := [CCasHC; C306hc; C307hc].

Lemma chain_labels sn :
  map label (chain_co sn) = map act_label (snd (from_closed_to_open_leaf true sn))
  /\ map label (chain_ho sn) = map act_label (snd (from_half_to_open_leaf true sn))
  /\ map label chain_hc = map act_label (snd (from_half_to_closed_leaf true))
  /\ (forall a b blk, map label [T302 a b; T307 blk] = map act_label (firstn 2 (snd (from_open_to_half_leaf true false))))
  /\ map label [R302; R307] = map act_label (rollback_leaf true true).
Proof. repeat split. Qed.

(* a failed CAS performs nothing else *)
Lemma failed_cas_only sn :
  snd (from_closed_to_open_leaf false sn) = [ACas Closed Open]
  /\ snd (from_half_to_open_leaf false sn) = [ACas HalfOpen Open]
  /\ snd (from_half_to_closed_leaf false) = [ACas HalfOpen Closed]
  /\ (forall e, snd (from_open_to_half_leaf false e) = [ACas Open HalfOpen])
  /\ rollback_leaf true false = [ACas HalfOpen Open] /\ (forall ok, rollback_leaf false ok = []).
Proof. repeat split. Qed.

(* effect of each pc of the chains on the real (non-ghost) shared state: the action of the
   transcription at the same position, executed on (state word, deadline, probe counter) *)
Definition real (sh : shared) : bst * Z * Z := (sw sh, dl sh, pn sh).

Definition prim_real (c : cfg) (clk : Z) (r : bst * Z * Z) (a : bact) : bst * Z * Z :=
  let '(s, d, p) := r in
  match a with
  | ACas f t => if bst_eqb s f then (t, d, p) else r
  | AUpdateRetry => (s, retry_value clk (retry_ms c), p)
  | AResetProbe => (s, d, 0)
  | AAddProbe => (s, d, p + 1)
  | _ => r
  end.

Section Chains.
Variables (c : cfg) (tid clk : Z) (sh : shared) (th : thread).
Hypothesis Hretry : retry_value clk (retry_ms c) = clk + retry_ms c.

Lemma conc_cas_co sn : tpc th = CCasCO sn ->
  let ok := bst_eqb (sw sh) Closed in
  real (fst (tstep c tid clk sh th)) = prim_real c clk (real sh) (ACas Closed Open)
  /\ snd (tstep c tid clk sh th) = (if ok then with_pc th (C304co sn) else finish th).
Proof. intros H. unfold tstep. rewrite H. unfold real. destruct (sw sh) eqn:E; cbn; rewrite ?E; split; reflexivity. Qed.

Lemma conc_cas_ho sn : tpc th = CCasHO sn ->
  let ok := bst_eqb (sw sh) HalfOpen in
  real (fst (tstep c tid clk sh th)) = prim_real c clk (real sh) (ACas HalfOpen Open)
  /\ snd (tstep c tid clk sh th) = (if ok then with_pc th (C306ho sn) else finish th).
Proof. intros H. unfold tstep. rewrite H. unfold real. destruct (sw sh) eqn:E; cbn; rewrite ?E; split; reflexivity. Qed.

Lemma conc_cas_hc : tpc th = CCasHC ->
  let ok := bst_eqb (sw sh) HalfOpen in
  real (fst (tstep c tid clk sh th)) = prim_real c clk (real sh) (ACas HalfOpen Closed)
  /\ snd (tstep c tid clk sh th) = (if ok then with_pc th C306hc else finish th).
Proof.
  intros H. unfold tstep. rewrite H. unfold real, reset_metric.
  destruct (sw sh) eqn:E; cbn; rewrite ?E; try (split; reflexivity).
  all: destruct (clk <=? 0); cbn; rewrite ?E; split; reflexivity.
Qed.

Lemma conc_cas_rollback : tpc th = R302 ->
  let ok := bst_eqb (sw sh) HalfOpen in
  real (fst (tstep c tid clk sh th)) = prim_real c clk (real sh) (ACas HalfOpen Open)
  /\ snd (tstep c tid clk sh th) = (if ok then with_pc th R307 else finish th).
Proof. intros H. unfold tstep. rewrite H. unfold real. destruct (sw sh) eqn:E; cbn; rewrite ?E; split; reflexivity. Qed.

(* the steps after the CAS: second, third, fourth action of the transcription *)
Lemma conc_after_co sn :
  (tpc th = C304co sn ->
     real (fst (tstep c tid clk sh th)) = prim_real c clk (real sh) AUpdateRetry
     /\ snd (tstep c tid clk sh th) = with_pc th (C307co sn))
  /\ (tpc th = C307co sn ->
     tstep c tid clk sh th = (add_call sh tid (TEv Closed Open (Some sn)), finish th)).
Proof.
  split; intros H; unfold tstep; rewrite H; [|reflexivity].
  unfold real, prim_real. cbn. rewrite Hretry. split; reflexivity.
Qed.

Lemma conc_after_ho sn :
  (tpc th = C306ho sn ->
     real (fst (tstep c tid clk sh th)) = prim_real c clk (real sh) AResetProbe
     /\ snd (tstep c tid clk sh th) = with_pc th (C304ho sn))
  /\ (tpc th = C304ho sn ->
     real (fst (tstep c tid clk sh th)) = prim_real c clk (real sh) AUpdateRetry
     /\ snd (tstep c tid clk sh th) = with_pc th (C307ho sn))
  /\ (tpc th = C307ho sn ->
     tstep c tid clk sh th = (add_call sh tid (TEv HalfOpen Open (Some sn)), finish th)).
Proof.
  split; [|split]; intros H; unfold tstep; rewrite H; try reflexivity.
  - split; reflexivity.
  - unfold real, prim_real. cbn. rewrite Hretry. split; reflexivity.
Qed.

Lemma conc_after_hc :
  (tpc th = C306hc ->
     real (fst (tstep c tid clk sh th)) = prim_real c clk (real sh) AResetProbe
     /\ snd (tstep c tid clk sh th) = with_pc th C307hc)
  /\ (tpc th = C307hc ->
     tstep c tid clk sh th = (reset_metric c clk (add_call sh tid (TEv HalfOpen Closed None)), finish th)).
Proof. split; intros H; unfold tstep; rewrite H; [split|]; reflexivity. Qed.

End Chains.
