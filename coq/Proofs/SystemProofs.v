(* Proofs for C07: the system protection stage (Model/System.v).

   Part A  GetMaxOfSingleBucket equals the maximum of the per-bucket reference sums (from C08's
           nothing-stale / nothing-lost theorems).
   Part B  the inbound node after a ledger of statistic events is the leap array run on the
           expanded event list; the gauge counts admitted-and-not-exited inbound entries.
   Part C  every getter the system slot reads equals the reference reading computed from the
           ledger alone (C08's theorems).
   Part D  the slot's decision: inbound only; blocked iff some loaded valid rule is violated
           on the reference readings; the reported rule is violated, for every iteration order. *)
From Coq Require Import Floats Permutation.
From SG Require Import Base.Prelude Base.GoInt Base.GoFloat Model.LeapArray Model.StatNode Model.Rules Model.System
  Proofs.LeapArrayProofs Proofs.StatProofs Proofs.RulesProofs.
#[local] Open Scope Z_scope.

(* ------------------------------------------------------------------------------------------ *)
(* Part A: maximum over the buckets of a window *)

Definition fmax {A} (f : A -> Z) (l : list A) : Z := fold_right (fun x acc => Z.max (f x) acc) 0 l.

Lemma fmax_ge0 {A} (f : A -> Z) l : 0 <= fmax f l.
Proof. unfold fmax. induction l as [|x r IH]; cbn [fold_right]; lia. Qed.
Lemma fmax_in {A} (f : A -> Z) l x : In x l -> f x <= fmax f l.
Proof. unfold fmax. induction l as [|y r IH]; cbn [fold_right In]; [tauto|]. intros [->|H]; [lia|]. specialize (IH H). lia. Qed.
Lemma fmax_le {A} (f : A -> Z) l m : 0 <= m -> (forall x, In x l -> f x <= m) -> fmax f l <= m.
Proof.
  intros Hm. unfold fmax. induction l as [|y r IH]; cbn [fold_right]; intros H; [lia|].
  pose proof (H y (or_introl eq_refl)). specialize (IH (fun x Hx => H x (or_intror Hx))). lia.
Qed.

(* the starts of the k consecutive buckets from lo *)
Definition bucket_starts (lo bl : Z) (k : nat) : list Z := map (fun i => lo + Z.of_nat i * bl) (seq 0 k).

(* reference for GetMaxOfSingleBucket: the largest per-bucket sum among the k buckets from lo (at least 0) *)
Definition win_max_bucket (ev : Z) (h : list sev) (lo bl : Z) (k : nat) : Z :=
  fmax (fun b => win_sum ev h b (b + bl)) (bucket_starts lo bl k).

Lemma mb_eq_dec (x y : mb) : {x = y} + {x <> y}.
Proof. decide equality; apply Z.eq_dec. Qed.

Lemma slast_ge t0 h : smono t0 h -> t0 <= slast t0 h.
Proof.
  revert t0. induction h as [|x r IH]; intros t0; cbn; [lia|]. intros [H1 H2]. specialize (IH _ H2). lia.
Qed.

Lemma ref_before t0 h lo hi : smono t0 h -> hi <= t0 -> ref mb_op mb_e (map sev_gev h) lo hi = mb_e.
Proof.
  revert t0. induction h as [|x r IH]; intros t0 Hm Hhi; cbn [map LeapArray.ref]; [reflexivity|].
  destruct Hm as [H1 H2].
  assert (E : ref mb_op mb_e (map sev_gev r) lo hi = mb_e) by (apply (IH (sev_time x)); [assumption|lia]).
  destruct x as [t ev c|t cc]; cbn [sev_gev sev_time] in *;
    (destruct (Z.ltb_spec t hi); [lia|]); rewrite andb_false_r; exact E.
Qed.

Lemma view_max_single_ref n itv t0 h now vn vitv ev :
  0 < n -> itv mod n = 0 -> 0 < itv < two32 ->
  0 < t0 -> smono t0 h -> 0 <= vn -> 0 <= vitv ->
  check_reuse vn vitv n itv = true ->
  slast t0 h <= now < two62' -> ev_ok ev ->
  view_max_single (bla_run (bla_new n itv t0) h) {| v_n := vn; v_itv := vitv |} now ev
  = win_max_bucket ev h (bstart (itv / n) now + itv / n - vitv) (itv / n) (Z.to_nat (vitv / (itv / n))).
Proof.
  intros Hn Hd Hi Ht0 Hm Hvn Hvitv Hck Hnow Hev.
  destruct (check_reuse_tiles vn vitv n itv Hvn Hvitv ltac:(lia) ltac:(lia) Hck)
    as (_ & Hv0 & _ & _ & _ & _ & _ & _ & Hvm & Hvle & _).
  pose proof (bl_pos n itv Hn Hd Hi) as Hbl. pose proof (itv_eq n itv Hn Hd Hi) as Hie.
  pose proof (slast_ge t0 h Hm) as Hsl.
  destruct (bla_run_slots (bla_new n itv t0) h) as (_ & Hn' & Hbl').
  unfold view_max_single, view_buckets, v_satisfied. rewrite Hn', Hbl'. cbn [bla_new la_n la_bl v_itv].
  set (bl := itv / n) in *.
  set (L := la_slots (bla_run (bla_new n itv t0) h)).
  (* the window in integers *)
  apply Z.mod_divide in Hvm; [|lia]. destruct Hvm as [q3 Hq3].
  assert (Hq3p : 0 < q3) by nia.
  assert (Hk : vitv / bl = q3) by (rewrite Hq3; apply Z.div_mul; lia).
  rewrite Hk.
  assert (Hbs : bstart bl now = bl * (now / bl)) by (unfold bstart; rewrite Z.mod_eq by lia; lia).
  set (q2 := now / bl) in *.
  assert (Hq2 : 0 <= q2) by (apply Z.div_pos; lia).
  assert (Hbsle : bstart bl now <= now) by (unfold bstart; pose proof (Z.mod_pos_bound now bl Hbl); lia).
  pose proof two62_two32_lt_two63 as T1. pose proof two63_lt_two64 as T2. pose proof two32_pos as T3.
  assert (Hble : bl <= itv) by nia.
  unfold v_range.
  assert (Hw : u64 (bstart bl now + bl) = bstart bl now + bl) by (apply u64_id; unfold in_u64; nia).
  rewrite Hw.
  set (lo := bstart bl now + bl - vitv).
  set (st := if vitv <? bstart bl now + bl then bstart bl now + bl - vitv else 0).
  assert (Hst : lo <= st /\ 0 <= st /\ (0 <= lo -> st = lo)).
  { unfold st, lo. destruct (Z.ltb_spec vitv (bstart bl now + bl)); lia. }
  set (pred := fun ws : Z => (st <=? ws) && (ws <=? bstart bl now)).
  apply Z.le_antisymm.
  - (* everything returned is one of the window's buckets, with its reference sum *)
    apply fmax_le; [apply fmax_ge0|]. intros s Hs.
    destruct (bla_nothing_stale n itv Hn Hd Hi t0 h now pred s Ht0 Hm ltac:(lia) ltac:(lia) Hs)
      as (Ha & Hr & Hp & Hc).
    fold bl in Ha, Hr, Hc. rewrite Hc. rewrite (ref_win_sum ev h _ _ Hev).
    apply (fmax_in (fun b => win_sum ev h b (b + bl))).
    unfold pred in Hp. apply andb_prop in Hp. destruct Hp as [Hp1 Hp2].
    apply Z.leb_le in Hp1, Hp2.
    apply Z.mod_divide in Ha; [|lia]. destruct Ha as [q1 Hq1].
    unfold bucket_starts. apply in_map_iff. exists (Z.to_nat (q1 - (q2 + 1 - q3))).
    assert (q2 + 1 - q3 <= q1) by (unfold lo in Hst; nia).
    assert (q1 <= q2) by nia.
    split.
    + rewrite Z2Nat.id by lia. unfold lo. rewrite Hq1, Hbs, Hq3. ring.
    + apply in_seq. split; [lia|]. apply Nat2Z.inj_lt. rewrite Nat2Z.inj_add, !Z2Nat.id by lia. cbn. lia.
  - (* every window bucket with a non-empty reference is returned *)
    apply fmax_le; [apply fmax_ge0|]. intros b Hb.
    unfold bucket_starts in Hb. apply in_map_iff in Hb. destruct Hb as (i & <- & Hi2).
    apply in_seq in Hi2. set (b := lo + Z.of_nat i * bl).
    assert (Hiq : 0 <= Z.of_nat i < q3) by (split; [lia|]; apply Nat2Z.inj_lt in Hi2 ||
      (destruct Hi2 as [_ Hi2]; cbn in Hi2; apply Nat2Z.inj_lt in Hi2; rewrite Z2Nat.id in Hi2 by lia; lia)).
    destruct (mb_eq_dec (ref mb_op mb_e (map sev_gev h) b (b + bl)) mb_e) as [E|NE].
    + rewrite <- (ref_win_sum ev h _ _ Hev), E.
      assert (Z0 : mb_get ev mb_e = 0).
      { unfold mb_get, ev_ok, EvPass, EvBlock, EvComplete, EvError, EvRt in *.
        repeat match goal with |- context [?a =? ?b] => destruct (Z.eqb_spec a b) end; reflexivity. }
      rewrite Z0. apply fmax_ge0.
    + assert (Hbm : b mod bl = 0).
      { unfold b, lo. rewrite Hbs, Hq3.
        replace (bl * q2 + bl - q3 * bl + Z.of_nat i * bl) with ((q2 + 1 - q3 + Z.of_nat i) * bl) by ring.
        apply Z.mod_mul. lia. }
      assert (Hb0 : 0 <= b).
      { destruct (Z_le_gt_dec 0 b) as [|Hneg]; [assumption|exfalso]. apply NE.
        apply (ref_before t0); [assumption|].
        apply Z.mod_divide in Hbm; [|lia]. destruct Hbm as [qb Hqb]. nia. }
      assert (Hbr : lo <= b <= bstart bl now) by (unfold b, lo; rewrite Hq3; nia).
      assert (Hin : In (b, ref mb_op mb_e (map sev_gev h) b (b + bl)) (g_values_cond n bl L now pred)).
      { apply (bla_nothing_lost n itv Hn Hd Hi t0 h now pred b); try assumption; try lia.
        - fold bl. unfold lo in Hbr. lia.
        - unfold pred. apply andb_true_intro. split; apply Z.leb_le; [|lia].
          destruct Hst as (_ & _ & Hst3). destruct (Z_le_gt_dec 0 lo); [rewrite Hst3 by lia; lia|].
          unfold st. unfold lo in *. destruct (Z.ltb_spec vitv (bstart bl now + bl)); lia.
        - unfold lo in Hbr. lia. }
      rewrite <- (ref_win_sum ev h _ _ Hev).
      apply (fmax_in (fun s : Z * mb => mb_get ev (snd s)) _ _ Hin).
Qed.
