(* Proofs for C07: the system protection stage (Model/System.v).

   Part A  GetMaxOfSingleBucket equals the maximum of the per-bucket reference sums (from C08's
           nothing-stale / nothing-lost theorems).
   Part B  the inbound node after a ledger of statistic events is the leap array run on the
           expanded event list; the gauge counts admitted-and-not-exited inbound entries.
   Part C  every getter the system slot reads equals the reference reading computed from the
           ledger alone (C08's theorems).
   Part D  the slot's decision: inbound only; blocked iff some loaded valid rule is violated
           on the reference readings; the reported rule is violated, for every iteration order. *)
From Coq Require Import Floats Permutation.
From SG Require Import Base.Prelude Base.GoInt Base.GoFloat Model.LeapArray Model.StatNode Model.Rules Model.System
  Proofs.LeapArrayProofs Proofs.StatProofs Proofs.RulesProofs.
#[local] Open Scope Z_scope.

(* ------------------------------------------------------------------------------------------ *)
(* Part A: maximum over the buckets of a window *)

Definition fmax {A} (f : A -> Z) (l : list A) : Z := fold_right (fun x acc => Z.max (f x) acc) 0 l.

Lemma fmax_ge0 {A} (f : A -> Z) l : 0 <= fmax f l.
Proof. unfold fmax. induction l as [|x r IH]; cbn [fold_right]; lia. Qed.
Lemma fmax_in {A} (f : A -> Z) l x : In x l -> f x <= fmax f l.
Proof. unfold fmax. induction l as [|y r IH]; cbn [fold_right In]; [tauto|]. intros [->|H]; [lia|]. specialize (IH H). lia. Qed.
Lemma fmax_le {A} (f : A -> Z) l m : 0 <= m -> (forall x, In x l -> f x <= m) -> fmax f l <= m.
Proof.
  intros Hm. unfold fmax. induction l as [|y r IH]; cbn [fold_right]; intros H; [lia|].
  pose proof (H y (or_introl eq_refl)). specialize (IH (fun x Hx => H x (or_intror Hx))). lia.
Qed.

(* the starts of the k consecutive buckets from lo *)
Definition bucket_starts (lo bl : Z) (k : nat) : list Z := map (fun i => lo + Z.of_nat i * bl) (seq 0 k).

(* reference for GetMaxOfSingleBucket: the largest per-bucket sum among the k buckets from lo (at least 0) *)
Definition win_max_bucket (ev : Z) (h : list sev) (lo bl : Z) (k : nat) : Z :=
  fmax (fun b => win_sum ev h b (b + bl)) (bucket_starts lo bl k).

Lemma mul_le_cancel a b c : 0 < c -> a * c <= b * c -> a <= b.
Proof. intros. nia. Qed.
Lemma mul_lt_cancel a b c : 0 < c -> a * c < b * c -> a < b.
Proof. intros. nia. Qed.

Lemma neg_aligned b bl : 0 < bl -> b mod bl = 0 -> b < 0 -> b + bl <= 0.
Proof.
  intros Hbl Hm Hb. apply Z.mod_divide in Hm; [|lia]. destruct Hm as [q ->].
  assert (q < 0) by (apply (mul_lt_cancel _ _ bl Hbl); lia). nia.
Qed.

Lemma mb_eq_dec (x y : mb) : {x = y} + {x <> y}.
Proof. decide equality; apply Z.eq_dec. Qed.

Lemma slast_ge t0 h : smono t0 h -> t0 <= slast t0 h.
Proof.
  revert t0. induction h as [|x r IH]; intros t0; cbn; [lia|]. intros [H1 H2]. specialize (IH _ H2). lia.
Qed.

Lemma ref_before t0 h lo hi : smono t0 h -> hi <= t0 -> ref mb_op mb_e (map sev_gev h) lo hi = mb_e.
Proof.
  revert t0. induction h as [|x r IH]; intros t0 Hm Hhi; cbn [map LeapArray.ref]; [reflexivity|].
  destruct Hm as [H1 H2].
  assert (E : ref mb_op mb_e (map sev_gev r) lo hi = mb_e) by (apply (IH (sev_time x)); [assumption|lia]).
  destruct x as [t ev c|t cc]; cbn [sev_gev sev_time] in *;
    (destruct (Z.ltb_spec t hi); [lia|]); rewrite andb_false_r; exact E.
Qed.

Lemma view_max_single_ref n itv t0 h now vn vitv ev :
  0 < n -> itv mod n = 0 -> 0 < itv < two32 ->
  0 < t0 -> smono t0 h -> 0 <= vn -> 0 <= vitv ->
  check_reuse vn vitv n itv = true ->
  slast t0 h <= now < two62' -> ev_ok ev ->
  view_max_single (bla_run (bla_new n itv t0) h) {| v_n := vn; v_itv := vitv |} now ev
  = win_max_bucket ev h (bstart (itv / n) now + itv / n - vitv) (itv / n) (Z.to_nat (vitv / (itv / n))).
Proof.
  intros Hn Hd Hi Ht0 Hm Hvn Hvitv Hck Hnow Hev.
  destruct (check_reuse_tiles vn vitv n itv Hvn Hvitv ltac:(lia) ltac:(lia) Hck)
    as (_ & Hv0 & _ & _ & _ & _ & _ & _ & Hvm & Hvle & _).
  pose proof (bl_pos n itv Hn Hd Hi) as Hbl. pose proof (itv_eq n itv Hn Hd Hi) as Hie.
  pose proof (slast_ge t0 h Hm) as Hsl.
  destruct (bla_run_slots (bla_new n itv t0) h) as (_ & Hn' & Hbl').
  unfold view_max_single, view_buckets, v_satisfied. rewrite Hn', Hbl'. cbn [bla_new la_n la_bl v_itv].
  set (bl := itv / n) in *.
  set (L := la_slots (bla_run (bla_new n itv t0) h)).
  (* the window in integers *)
  apply Z.mod_divide in Hvm; [|lia]. destruct Hvm as [q3 Hq3].
  assert (Hq3p : 0 < q3) by nia.
  assert (Hk : vitv / bl = q3) by (rewrite Hq3; apply Z.div_mul; lia).
  rewrite Hk.
  assert (Hbs : bstart bl now = bl * (now / bl)) by (unfold bstart; rewrite Z.mod_eq by lia; lia).
  set (q2 := now / bl) in *.
  assert (Hq2 : 0 <= q2) by (apply Z.div_pos; lia).
  assert (Hbsle : bstart bl now <= now) by (unfold bstart; pose proof (Z.mod_pos_bound now bl Hbl); lia).
  pose proof two62_two32_lt_two63 as T1. pose proof two63_lt_two64 as T2. pose proof two32_pos as T3.
  assert (Hble : bl <= itv) by nia.
  unfold v_range.
  assert (Hw : u64 (bstart bl now + bl) = bstart bl now + bl) by (apply u64_id; unfold in_u64; nia).
  rewrite Hw.
  set (lo := bstart bl now + bl - vitv).
  set (st := if vitv <? bstart bl now + bl then bstart bl now + bl - vitv else 0).
  assert (Hst : lo <= st /\ 0 <= st /\ (0 <= lo -> st = lo)).
  { unfold st, lo. destruct (Z.ltb_spec vitv (bstart bl now + bl)); lia. }
  set (pred := fun ws : Z => (st <=? ws) && (ws <=? bstart bl now)).
  apply Z.le_antisymm.
  - (* everything returned is one of the window's buckets, with its reference sum *)
    apply fmax_le; [apply fmax_ge0|]. intros s Hs.
    destruct (bla_nothing_stale n itv Hn Hd Hi t0 h now pred s Ht0 Hm ltac:(lia) ltac:(lia) Hs)
      as (Ha & Hr & Hp & Hc).
    fold bl in Ha, Hr, Hc. rewrite Hc. rewrite (ref_win_sum ev h _ _ Hev).
    apply (fmax_in (fun b => win_sum ev h b (b + bl))).
    unfold pred in Hp. apply andb_prop in Hp. destruct Hp as [Hp1 Hp2].
    apply Z.leb_le in Hp1, Hp2.
    apply Z.mod_divide in Ha; [|lia]. destruct Ha as [q1 Hq1].
    unfold bucket_starts. apply in_map_iff. exists (Z.to_nat (q1 - (q2 + 1 - q3))).
    assert (q2 + 1 - q3 <= q1).
    { apply (mul_le_cancel _ _ bl Hbl). unfold lo in Hst. rewrite Hbs, Hq3 in Hst. lia. }
    assert (q1 <= q2) by (apply (mul_le_cancel _ _ bl Hbl); lia).
    split.
    + rewrite Z2Nat.id by lia. unfold lo. rewrite Hq1, Hbs, Hq3. ring.
    + apply in_seq. split; [lia|]. apply Nat2Z.inj_lt. rewrite Nat2Z.inj_add, !Z2Nat.id by lia. cbn. lia.
  - (* every window bucket with a non-empty reference is returned *)
    apply fmax_le; [apply fmax_ge0|]. intros b Hb.
    unfold bucket_starts in Hb. apply in_map_iff in Hb. destruct Hb as (i & <- & Hi2).
    apply in_seq in Hi2. set (b := lo + Z.of_nat i * bl).
    assert (Hiq : 0 <= Z.of_nat i < q3) by lia.
    assert (Hib1 : 0 <= Z.of_nat i * bl) by (apply Z.mul_nonneg_nonneg; lia).
    assert (Hib2 : Z.of_nat i * bl + bl <= q3 * bl).
    { replace (Z.of_nat i * bl + bl) with ((Z.of_nat i + 1) * bl) by ring. apply Z.mul_le_mono_nonneg_r; lia. }
    destruct (mb_eq_dec (ref mb_op mb_e (map sev_gev h) b (b + bl)) mb_e) as [E|NE].
    + rewrite <- (ref_win_sum ev h _ _ Hev), E.
      assert (Z0 : mb_get ev mb_e = 0).
      { unfold mb_get, ev_ok, EvPass, EvBlock, EvComplete, EvError, EvRt in *.
        repeat match goal with |- context [?a =? ?b] => destruct (Z.eqb_spec a b) end; reflexivity. }
      rewrite Z0. apply fmax_ge0.
    + assert (Hbm : b mod bl = 0).
      { unfold b, lo. rewrite Hbs, Hq3.
        replace (bl * q2 + bl - q3 * bl + Z.of_nat i * bl) with ((q2 + 1 - q3 + Z.of_nat i) * bl) by ring.
        apply Z.mod_mul. lia. }
      assert (Hb0 : 0 <= b).
      { destruct (Z_le_gt_dec 0 b) as [|Hneg]; [assumption|exfalso]. apply NE.
        apply (ref_before t0); [assumption|].
        pose proof (neg_aligned b bl Hbl Hbm ltac:(lia)). lia. }
      assert (Hbr : lo <= b <= bstart bl now) by (unfold b, lo; rewrite Hq3; lia).
      assert (Hin : In (b, ref mb_op mb_e (map sev_gev h) b (b + bl)) (g_values_cond n bl L now pred)).
      { apply (bla_nothing_lost n itv Hn Hd Hi t0 h now pred b); try assumption; try lia;
          try (fold bl; unfold lo in Hbr; lia).
        unfold pred. apply andb_true_intro. split; apply Z.leb_le; [|lia].
          destruct Hst as (_ & _ & Hst3). destruct (Z_le_gt_dec 0 lo); [rewrite Hst3 by lia; lia|].
          unfold st. unfold lo in *. destruct (Z.ltb_spec vitv (bstart bl now + bl)); lia. }
      rewrite <- (ref_win_sum ev h _ _ Hev).
      apply (fmax_in (fun s : Z * mb => mb_get ev (snd s)) _ _ Hin).
Qed.

(* ------------------------------------------------------------------------------------------ *)
(* Part B: the inbound node after a ledger of statistic events *)

Definition nev_time (e : nev) : Z := match e with NPass t _ => t | NBlock t _ => t | NComplete t _ _ _ => t end.

(* the AddCount / UpdateConcurrency calls a ledger performs on the leap array; c = gauge before *)
Fixpoint expand (c : Z) (l : list nev) : list sev :=
  match l with
  | [] => []
  | NPass t b :: r => SConc t (i32 (c + 1)) :: SAdd t EvPass b :: expand (i32 (c + 1)) r
  | NBlock t b :: r => SAdd t EvBlock b :: expand c r
  | NComplete t b rt err :: r =>
      (if err then [SAdd t EvError b] else []) ++ SAdd t EvRt rt :: SAdd t EvComplete b :: expand (i32 (c - 1)) r
  end.

Fixpoint conc_after (c : Z) (l : list nev) : Z :=
  match l with
  | [] => c
  | NPass _ _ :: r => conc_after (i32 (c + 1)) r
  | NBlock _ _ :: r => conc_after c r
  | NComplete _ _ _ _ :: r => conc_after (i32 (c - 1)) r
  end.

Fixpoint nmono (tl : Z) (l : list nev) : Prop :=
  match l with [] => True | e :: r => tl <= nev_time e /\ nmono (nev_time e) r end.
Fixpoint nlast (tl : Z) (l : list nev) : Z :=
  match l with [] => tl | e :: r => nlast (nev_time e) r end.

Lemma bla_run_app a h1 h2 : bla_run a (h1 ++ h2) = bla_run (bla_run a h1) h2.
Proof. unfold bla_run. apply fold_left_app. Qed.

Lemma node_apply_list l : forall x,
  nd_arr (fold_left node_apply l x) = bla_run (nd_arr x) (expand (nd_conc x) l) /\
  nd_conc (fold_left node_apply l x) = conc_after (nd_conc x) l /\
  nd_view (fold_left node_apply l x) = nd_view x.
Proof.
  induction l as [|e r IH]; intros x; cbn [fold_left expand conc_after]; [auto|].
  destruct (IH (node_apply x e)) as (H1 & H2 & H3). rewrite H1, H2, H3.
  destruct e as [t b|t b|t b rt err]; cbn [node_apply].
  - cbn [node_add node_inc nd_arr nd_conc nd_view]. auto.
  - cbn [node_add nd_arr nd_conc nd_view]. auto.
  - destruct err; cbn [node_add node_dec nd_arr nd_conc nd_view app]; auto.
Qed.

Lemma expand_mono l : forall tl c, nmono tl l -> smono tl (expand c l) /\ slast tl (expand c l) = nlast tl l.
Proof.
  induction l as [|e r IH]; intros tl c; cbn [nmono expand nlast]; [cbn; auto|].
  intros [H1 H2]. destruct e as [t b|t b|t b rt err]; cbn [nev_time] in *.
  - destruct (IH t (i32 (c + 1)) H2) as [A B]. cbn [smono slast sev_time]. repeat split; try lia; assumption.
  - destruct (IH t c H2) as [A B]. cbn [smono slast sev_time]. repeat split; try lia; assumption.
  - destruct (IH t (i32 (c - 1)) H2) as [A B].
    destruct err; cbn [app smono slast sev_time]; repeat split; try lia; assumption.
Qed.

(* ------------------------------------------------------------------------------------------ *)
(* the ledger of a run and the bookkeeping invariants *)

Fixpoint ledger (s : sstate) (ops : list sop) : list nev :=
  match ops with [] => [] | o :: r => step_events s o ++ ledger (fst (sys_step s o)) r end.

Definition op_time (o : sop) : option Z :=
  match o with OEntry t _ _ _ => Some t | OExit t _ _ => Some t | OProbe t => Some t | _ => None end.

(* clock readings never decrease along the history *)
Fixpoint hist_mono (tl : Z) (ops : list sop) : Prop :=
  match ops with
  | [] => True
  | o :: r => match op_time o with Some t => tl <= t /\ hist_mono t r | None => hist_mono tl r end
  end.
Fixpoint hist_last (tl : Z) (ops : list sop) : Z :=
  match ops with
  | [] => tl
  | o :: r => match op_time o with Some t => hist_last t r | None => hist_last tl r end
  end.

Lemma hist_last_ge ops : forall tl, hist_mono tl ops -> tl <= hist_last tl ops.
Proof.
  induction ops as [|o r IH]; intros tl; cbn [hist_mono hist_last]; [lia|].
  destruct (op_time o) as [t|]; [intros [H1 H2]; specialize (IH _ H2); lia|apply IH].
Qed.

Lemma sys_after_cons s o r : sys_after s (o :: r) = sys_after (fst (sys_step s o)) r.
Proof. reflexivity. Qed.

Lemma step_node s o : st_node (fst (sys_step s o)) = fold_left node_apply (step_events s o) (st_node s).
Proof.
  destruct o as [l|f|f|t inb b ord|t k err|t]; cbn [sys_step].
  - destruct (sys_load (st_rules s) l). reflexivity.
  - reflexivity.
  - reflexivity.
  - destruct (decide s t inb ord) as [[r v]|]; reflexivity.
  - reflexivity.
  - reflexivity.
Qed.

Lemma after_node ops : forall s, st_node (sys_after s ops) = fold_left node_apply (ledger s ops) (st_node s).
Proof.
  induction ops as [|o r IH]; intros s; [reflexivity|].
  rewrite sys_after_cons, IH. cbn [ledger]. rewrite fold_left_app, step_node. reflexivity.
Qed.

Lemma step_events_shape s o :
  step_events s o = [] \/ exists e, step_events s o = [e] /\ op_time o = Some (nev_time e).
Proof.
  destruct o as [l|f|f|t inb b ord|t k err|t]; cbn [step_events op_time]; auto.
  - destruct inb; [|auto]. destruct (decide s t true ord); right; eexists; split; reflexivity.
  - destruct (find_live k (st_live s)) as [e|]; [|auto]. destruct (le_inbound e); [|auto].
    right; eexists; split; reflexivity.
Qed.

Lemma nmono_weaken tl tl' l : tl' <= tl -> nmono tl l -> nmono tl' l.
Proof. destruct l as [|e l]; cbn [nmono]; [trivial|]. intros H [X Y]. split; [lia|assumption]. Qed.
Lemma nlast_weaken tl tl' l m : tl' <= tl -> nlast tl l <= m -> nlast tl' l <= m.
Proof. destruct l as [|e l]; cbn [nlast]; [lia|trivial]. Qed.

Lemma ledger_mono ops : forall s tl, hist_mono tl ops ->
  nmono tl (ledger s ops) /\ nlast tl (ledger s ops) <= hist_last tl ops.
Proof.
  induction ops as [|o r IH]; intros s tl; cbn [hist_mono hist_last ledger]; [cbn; intros; split; [trivial|lia]|].
  intros Hm. destruct (step_events_shape s o) as [E|(e & E & Et)]; rewrite E; cbn [app].
  - destruct (op_time o) as [t|].
    + destruct Hm as [H1 H2]. destruct (IH (fst (sys_step s o)) t H2) as [A B].
      split; [apply (nmono_weaken t); assumption|apply (nlast_weaken t); assumption].
    + apply IH. assumption.
  - rewrite Et in *. destruct Hm as [H1 H2]. destruct (IH (fst (sys_step s o)) (nev_time e) H2) as [A B].
    cbn [nmono nlast]. repeat split; assumption.
Qed.

(* gauge bookkeeping *)
Definition delta1 (e : nev) : Z := match e with NPass _ _ => 1 | NBlock _ _ => 0 | NComplete _ _ _ _ => -1 end.
(* admitted minus completed inbound entries of a ledger *)
Definition in_flight (l : list nev) : Z := sumZ (map delta1 l).

Definition linb (l : list live_entry) : Z := Z.of_nat (length (filter le_inbound l)).
(* inbound entries admitted and not yet exited *)
Definition live_inbound (s : sstate) : Z := linb (st_live s).

Definition WF (s : sstate) (k : Z) : Prop :=
  nd_conc (st_node s) = live_inbound s /\ Z.of_nat (length (st_live s)) <= k /\
  Forall (fun e => le_id e < st_next s) (st_live s) /\ NoDup (map le_id (st_live s)).

Lemma linb_le l : 0 <= linb l <= Z.of_nat (length l).
Proof.
  unfold linb. induction l as [|e r IH]; cbn [filter length]; [lia|].
  destruct (le_inbound e); cbn [length]; lia.
Qed.

Lemma remove_live_absent k l : ~ In k (map le_id l) -> remove_live k l = l.
Proof.
  induction l as [|e r IH]; cbn [remove_live filter map In]; [reflexivity|]. intros H.
  destruct (Z.eqb_spec (le_id e) k) as [E|E]; [exfalso; auto|]. cbn [negb].
  f_equal. apply IH. tauto.
Qed.

Lemma find_live_none k l : find_live k l = None -> ~ In k (map le_id l).
Proof.
  induction l as [|e r IH]; cbn [find_live map In]; [tauto|].
  destruct (Z.eqb_spec (le_id e) k) as [E|E]; [discriminate|]. intros H [X|X]; [auto|]. apply (IH H X).
Qed.

Lemma remove_live_sub k l : forall e, In e (remove_live k l) -> In e l.
Proof. intros e H. apply filter_In in H. tauto. Qed.

Lemma remove_live_length k l : (length (remove_live k l) <= length l)%nat.
Proof. unfold remove_live. induction l as [|e r IH]; cbn [filter length]; [lia|]. destruct (negb _); cbn [length]; lia. Qed.

Lemma remove_live_nodup k l : NoDup (map le_id l) -> NoDup (map le_id (remove_live k l)).
Proof.
  induction l as [|e r IH]; cbn [remove_live filter map]; [auto|]. intros H. inversion H as [|? ? Hn Hr]; subst.
  fold (remove_live k r). destruct (negb (le_id e =? k)); [|auto].
  cbn [map]. constructor; [|auto]. intros X. apply Hn.
  apply in_map_iff in X. destruct X as (e' & E1 & E2). apply in_map_iff. exists e'. split; [assumption|].
  apply (remove_live_sub k r). assumption.
Qed.

Lemma remove_live_found k l e : NoDup (map le_id l) -> find_live k l = Some e ->
  le_id e = k /\ In e l /\ linb (remove_live k l) = linb l - (if le_inbound e then 1 else 0).
Proof.
  induction l as [|x r IH]; cbn [find_live]; [discriminate|]. intros Hnd.
  inversion Hnd as [|? ? Hn Hr]; subst.
  destruct (Z.eqb_spec (le_id x) k) as [E|E].
  - intros X. injection X as <-. split; [assumption|]. split; [left; reflexivity|].
    cbn [remove_live filter]. rewrite (proj2 (Z.eqb_eq _ _) E). cbn [negb]. fold (remove_live k r).
    rewrite remove_live_absent by (rewrite <- E; assumption).
    unfold linb. cbn [filter]. destruct (le_inbound x); cbn [length]; lia.
  - intros X. destruct (IH Hr X) as (A & B & C). split; [assumption|]. split; [right; assumption|].
    cbn [remove_live filter]. rewrite (proj2 (Z.eqb_neq _ _) E). cbn [negb]. fold (remove_live k r).
    unfold linb in *. cbn [filter]. destruct (le_inbound x); cbn [length]; lia.
Qed.

Lemma linb_in e l : In e l -> le_inbound e = true -> 1 <= linb l.
Proof.
  unfold linb. induction l as [|x r IH]; cbn [In filter]; [tauto|]. intros [->|H] Hi.
  - rewrite Hi. cbn [length]. lia.
  - specialize (IH H Hi). destruct (le_inbound x); cbn [length]; lia.
Qed.

Transparent two31 two32.
Lemma i32_small x : - two31 <= x < two31 -> i32 x = x.
Proof. intros H. apply i32_id. exact H. Qed.

(* one operation preserves the bookkeeping; the int32 gauge does not wrap while fewer than
   2^31 - 1 entries are live *)
Lemma WF_step s k o : WF s k -> k + 1 < two31 ->
  WF (fst (sys_step s o)) (k + 1) /\
  nd_conc (st_node (fst (sys_step s o))) = nd_conc (st_node s) + in_flight (step_events s o).
Proof.
  intros (Hc & Hlen & Hid & Hnd) Hk. unfold WF, live_inbound in *.
  pose proof (linb_le (st_live s)) as Hlb.
  rewrite step_node. destruct (node_apply_list (step_events s o) (st_node s)) as (_ & -> & _).
  destruct o as [l|f|f|t inb b ord|t kk err|t]; cbn [sys_step step_events].
  - destruct (sys_load (st_rules s) l). cbn [fst st_node st_live st_next conc_after in_flight map sumZ fold_right].
    repeat split; try assumption; lia.
  - cbn [fst st_node st_live st_next conc_after in_flight map sumZ fold_right]. repeat split; try assumption; lia.
  - cbn [fst st_node st_live st_next conc_after in_flight map sumZ fold_right]. repeat split; try assumption; lia.
  - destruct inb.
    + destruct (decide s t true ord) as [[r v]|];
        cbn [fst st_node st_live st_next conc_after in_flight map sumZ fold_right delta1].
      * repeat split; try assumption; try lia.
        eapply Forall_impl; [|exact Hid]. cbn. intros; lia.
      * rewrite i32_small by lia. unfold linb. cbn [filter le_inbound length map le_id].
        unfold linb in Hc, Hlb. repeat split; try lia.
        -- constructor; [cbn; lia|]. eapply Forall_impl; [|exact Hid]. cbn. intros; lia.
        -- constructor; [|assumption]. intros X. apply in_map_iff in X. destruct X as (e & E1 & E2).
           rewrite Forall_forall in Hid. specialize (Hid e E2). lia.
    + assert (D : decide s t false ord = None) by reflexivity. rewrite D.
      cbn [fst st_node st_live st_next conc_after in_flight map sumZ fold_right].
      unfold linb. cbn [filter le_inbound length map le_id]. unfold linb in Hc, Hlb. repeat split; try lia.
      * constructor; [cbn; lia|]. eapply Forall_impl; [|exact Hid]. cbn. intros; lia.
      * constructor; [|assumption]. intros X. apply in_map_iff in X. destruct X as (e & E1 & E2).
        rewrite Forall_forall in Hid. specialize (Hid e E2). lia.
  - cbn [fst st_node st_live st_next].
    pose proof (remove_live_length kk (st_live s)) as Hrl.
    pose proof (remove_live_nodup kk (st_live s) Hnd) as Hrn.
    assert (Hrf : Forall (fun e => le_id e < st_next s) (remove_live kk (st_live s))).
    { rewrite Forall_forall in *. intros e He. apply Hid. apply (remove_live_sub kk). assumption. }
    destruct (find_live kk (st_live s)) as [e|] eqn:EF.
    + destruct (remove_live_found kk (st_live s) e Hnd EF) as (A & B & C). rewrite C.
      destruct (le_inbound e) eqn:EI; cbn [conc_after in_flight map sumZ fold_right delta1].
      * pose proof (linb_in e _ B EI). rewrite i32_small by lia. repeat split; try assumption; lia.
      * repeat split; try assumption; lia.
    + rewrite remove_live_absent by (apply find_live_none; assumption).
      cbn [conc_after in_flight map sumZ fold_right]. repeat split; try assumption; lia.
  - cbn [fst st_node st_live st_next conc_after in_flight map sumZ fold_right]. repeat split; try assumption; lia.
Qed.
Opaque two31 two32.

Lemma in_flight_app a b : in_flight (a ++ b) = in_flight a + in_flight b.
Proof. unfold in_flight. rewrite map_app, sumZ_app. reflexivity. Qed.

Lemma after_conc ops : forall s k, WF s k -> k + Z.of_nat (length ops) < two31 ->
  WF (sys_after s ops) (k + Z.of_nat (length ops)) /\
  nd_conc (st_node (sys_after s ops)) = nd_conc (st_node s) + in_flight (ledger s ops).
Proof.
  induction ops as [|o r IH]; intros s k Hw Hk.
  - cbn [length sys_after fold_left ledger in_flight map sumZ fold_right]. rewrite Z.add_0_r. split; [assumption|lia].
  - cbn [length] in Hk |- *. rewrite Nat2Z.inj_succ in *.
    destruct (WF_step s k o Hw ltac:(lia)) as [Hw1 Hc1].
    destruct (IH _ _ Hw1 ltac:(lia)) as [Hw2 Hc2].
    rewrite sys_after_cons. cbn [ledger]. rewrite in_flight_app.
    replace (k + Z.succ (Z.of_nat (length r))) with (k + 1 + Z.of_nat (length r)) by lia.
    split; [assumption|]. rewrite Hc2, Hc1. lia.
Qed.

(* the rules in force are always valid ones *)
Lemma step_rules_valid s o : Forall (fun r => sys_valid r = true) (sys_rules (st_rules s)) ->
  Forall (fun r => sys_valid r = true) (sys_rules (st_rules (fst (sys_step s o)))).
Proof.
  intros H. destruct o as [l|f|f|t inb b ord|t k err|t]; cbn [sys_step]; try exact H.
  - unfold sys_load. destruct (opt_eqb _ (sys_raw (st_rules s)) l); cbn [fst st_rules sys_rules]; [exact H|].
    apply Forall_forall. intros r Hr. apply filter_In in Hr. tauto.
  - destruct (decide s t inb ord) as [[r v]|]; exact H.
Qed.

Lemma after_rules_valid ops : forall s, Forall (fun r => sys_valid r = true) (sys_rules (st_rules s)) ->
  Forall (fun r => sys_valid r = true) (sys_rules (st_rules (sys_after s ops))).
Proof.
  induction ops as [|o r IH]; intros s H; [exact H|]. rewrite sys_after_cons. apply IH, step_rules_valid, H.
Qed.

(* ------------------------------------------------------------------------------------------ *)
(* Part C: what the slot reads equals the reference computed from the ledger alone *)

Record readings := {
  rd_qps : float;            (* total inbound admitted QPS *)
  rd_conc : Z;               (* inbound in-flight count *)
  rd_avg_rt : float;         (* inbound average response time *)
  rd_min_rt : float;         (* minimum response time *)
  rd_max_complete : float    (* peak completion rate (per second) *)
}.

Definition node_readings (x : node) (now : Z) : readings :=
  {| rd_qps := node_qps x now EvPass; rd_conc := nd_conc x; rd_avg_rt := node_avg_rt x now;
     rd_min_rt := node_min_rt x now; rd_max_complete := node_max_avg x now EvComplete |}.

(* REFERENCE readings at clock [now] of an inbound node with geometry (gn x gitv array, vn x vitv
   view) whose recorded history is the ledger L: plain window sums / minimum / per-bucket
   maximum over the events of the bucket-aligned window (lo, hi], C08's reference *)
Definition ref_readings (gn gitv vn vitv : Z) (L : list nev) (now : Z) : readings :=
  let h := expand 0 L in
  let bl := gitv / gn in
  let hi := bstart bl now + bl in
  let lo := hi - vitv in
  {| rd_qps := (f_of_i64 (win_sum EvPass h lo hi) / (f_of_u64 vitv / 1000))%float;
     rd_conc := in_flight L;
     rd_avg_rt := (let complete := win_sum EvComplete h lo hi in
                   if complete <=? 0 then 0%float else f_of_i64 (Z.quot (win_sum EvRt h lo hi) complete));
     rd_min_rt := f_of_i64 (let m := win_min_rt h lo hi in if m <? 1 then 1 else m);
     rd_max_complete := (f_of_i64 (win_max_bucket EvComplete h lo bl (Z.to_nat (vitv / bl)))
                         * f_of_u64 vn / f_of_u64 vitv * 1000)%float |}.

Lemma ev_ok_pass : ev_ok EvPass. Proof. unfold ev_ok, EvPass. lia. Qed.
Lemma ev_ok_complete : ev_ok EvComplete. Proof. unfold ev_ok, EvComplete. lia. Qed.
Lemma ev_ok_rt : ev_ok EvRt. Proof. unfold ev_ok, EvRt. lia. Qed.

Lemma view_read n itv t0 h now vn vitv :
  0 < n -> itv mod n = 0 -> 0 < itv < two32 ->
  0 < t0 -> smono t0 h -> 0 <= vn -> 0 <= vitv ->
  check_reuse vn vitv n itv = true ->
  slast t0 h <= now < two62' ->
  view_merge (bla_run (bla_new n itv t0) h) {| v_n := vn; v_itv := vitv |} now
  = ref mb_op mb_e (map sev_gev h) (bstart (itv / n) now + itv / n - vitv) (bstart (itv / n) now + itv / n).
Proof.
  intros Hn Hd Hi Ht0 Hm Hvn Hvitv Hck Hnow.
  destruct (check_reuse_tiles vn vitv n itv Hvn Hvitv ltac:(lia) ltac:(lia) Hck)
    as (_ & Hv0 & _ & _ & _ & _ & _ & _ & _ & Hvle & _).
  pose proof (slast_ge t0 h Hm).
  apply (view_eq_ref n itv Hn Hd Hi t0 h now vn vitv); auto; try lia.
  apply (read_now_ok n itv Hn Hd Hi); lia.
Qed.

Lemma node_readings_ref gn gitv vn vitv t0 L now x :
  0 < gn -> gitv mod gn = 0 -> 0 < gitv < two32 -> 0 <= vn -> 0 <= vitv ->
  check_reuse vn vitv gn gitv = true ->
  0 < t0 -> nmono t0 L -> nlast t0 L <= now < two62' ->
  nd_arr x = bla_run (bla_new gn gitv t0) (expand 0 L) ->
  nd_view x = {| v_n := vn; v_itv := vitv |} ->
  nd_conc x = in_flight L ->
  node_readings x now = ref_readings gn gitv vn vitv L now.
Proof.
  intros Hn Hd Hi Hvn Hvitv Hck Ht0 Hm Hnow Ha Hv Hc.
  destruct (expand_mono L t0 0 Hm) as [Hsm Hsl].
  assert (Hnow' : slast t0 (expand 0 L) <= now < two62') by (rewrite Hsl; assumption).
  pose proof (view_read gn gitv t0 (expand 0 L) now vn vitv Hn Hd Hi Ht0 Hsm Hvn Hvitv Hck Hnow') as HV.
  assert (HS : forall ev, ev_ok ev ->
    node_sum x now ev = win_sum ev (expand 0 L) (bstart (gitv / gn) now + gitv / gn - vitv) (bstart (gitv / gn) now + gitv / gn)).
  { intros ev Hev. unfold node_sum, view_sum. rewrite Ha, Hv, HV. apply ref_win_sum. assumption. }
  unfold node_readings, ref_readings. f_equal.
  - unfold node_qps, view_qps. fold (node_sum x now EvPass). rewrite (HS _ ev_ok_pass), Hv. reflexivity.
  - assumption.
  - unfold node_avg_rt. rewrite (HS _ ev_ok_complete), (HS _ ev_ok_rt). reflexivity.
  - unfold node_min_rt, view_min_rt. rewrite Ha, Hv, HV, ref_win_min_rt. reflexivity.
  - unfold node_max_avg. rewrite Ha, Hv.
    rewrite (view_max_single_ref gn gitv t0 (expand 0 L) now vn vitv EvComplete Hn Hd Hi Ht0 Hsm Hvn Hvitv Hck Hnow' ev_ok_complete).
    reflexivity.
Qed.

(* ---- the same reference written directly on the ledger (no leap-array vocabulary) ---- *)
Definition pass_amt (e : nev) : Z := match e with NPass _ b => b | _ => 0 end.
Definition complete_amt (e : nev) : Z := match e with NComplete _ b _ _ => b | _ => 0 end.
Definition rt_amt (e : nev) : Z := match e with NComplete _ _ rt _ => rt | _ => 0 end.

(* sum of f over the ledger entries recorded at a clock reading in [lo, hi) *)
Definition led_sum (f : nev -> Z) (L : list nev) (lo hi : Z) : Z :=
  sumZ (map (fun e => if in_win lo hi (nev_time e) then f e else 0) L).
(* smallest response time completed in [lo, hi), from DefaultStatisticMaxRt *)
Definition led_min_rt (L : list nev) (lo hi : Z) : Z :=
  fold_right (fun e acc => match e with
                           | NComplete t _ rt _ => if in_win lo hi t then Z.min rt acc else acc
                           | _ => acc end) DefaultStatisticMaxRt L.

Lemma win_sum_cons ev x h lo hi :
  win_sum ev (x :: h) lo hi
  = (match x with SAdd t e c => if (e =? ev) && in_win lo hi t then c else 0 | SConc _ _ => 0 end) + win_sum ev h lo hi.
Proof. reflexivity. Qed.

Lemma led_sum_cons f e L lo hi :
  led_sum f (e :: L) lo hi = (if in_win lo hi (nev_time e) then f e else 0) + led_sum f L lo hi.
Proof. reflexivity. Qed.

Lemma expand_sum_pass L lo hi : forall c, win_sum EvPass (expand c L) lo hi = led_sum pass_amt L lo hi.
Proof.
  induction L as [|e r IH]; intros c; [reflexivity|]. rewrite led_sum_cons.
  destruct e as [t b|t b|t b rt err]; cbn [expand nev_time pass_amt].
  - rewrite !win_sum_cons, IH. change (EvPass =? EvPass) with true. cbn [andb]. destruct (in_win lo hi t); lia.
  - rewrite !win_sum_cons, IH. change (EvBlock =? EvPass) with false. cbn [andb]. destruct (in_win lo hi t); lia.
  - destruct err; cbn [app]; rewrite !win_sum_cons, IH;
      change (EvError =? EvPass) with false; change (EvRt =? EvPass) with false; change (EvComplete =? EvPass) with false;
      cbn [andb]; destruct (in_win lo hi t); lia.
Qed.

Lemma expand_sum_complete L lo hi : forall c, win_sum EvComplete (expand c L) lo hi = led_sum complete_amt L lo hi.
Proof.
  induction L as [|e r IH]; intros c; [reflexivity|]. rewrite led_sum_cons.
  destruct e as [t b|t b|t b rt err]; cbn [expand nev_time complete_amt].
  - rewrite !win_sum_cons, IH. change (EvPass =? EvComplete) with false. cbn [andb]. destruct (in_win lo hi t); lia.
  - rewrite !win_sum_cons, IH. change (EvBlock =? EvComplete) with false. cbn [andb]. destruct (in_win lo hi t); lia.
  - destruct err; cbn [app]; rewrite !win_sum_cons, IH;
      change (EvError =? EvComplete) with false; change (EvRt =? EvComplete) with false; change (EvComplete =? EvComplete) with true;
      cbn [andb]; destruct (in_win lo hi t); lia.
Qed.

Lemma expand_sum_rt L lo hi : forall c, win_sum EvRt (expand c L) lo hi = led_sum rt_amt L lo hi.
Proof.
  induction L as [|e r IH]; intros c; [reflexivity|]. rewrite led_sum_cons.
  destruct e as [t b|t b|t b rt err]; cbn [expand nev_time rt_amt].
  - rewrite !win_sum_cons, IH. change (EvPass =? EvRt) with false. cbn [andb]. destruct (in_win lo hi t); lia.
  - rewrite !win_sum_cons, IH. change (EvBlock =? EvRt) with false. cbn [andb]. destruct (in_win lo hi t); lia.
  - destruct err; cbn [app]; rewrite !win_sum_cons, IH;
      change (EvError =? EvRt) with false; change (EvRt =? EvRt) with true; change (EvComplete =? EvRt) with false;
      cbn [andb]; destruct (in_win lo hi t); lia.
Qed.

Lemma expand_min_rt L lo hi : forall c, win_min_rt (expand c L) lo hi = led_min_rt L lo hi.
Proof.
  unfold win_min_rt, led_min_rt.
  induction L as [|e r IH]; intros c; [reflexivity|].
  destruct e as [t b|t b|t b rt err]; cbn [expand fold_right].
  - change (EvPass =? EvRt) with false. cbn [andb]. apply IH.
  - change (EvBlock =? EvRt) with false. cbn [andb]. apply IH.
  - destruct err; cbn [app fold_right];
      change (EvError =? EvRt) with false; change (EvRt =? EvRt) with true; change (EvComplete =? EvRt) with false;
      cbn [andb]; rewrite IH; reflexivity.
Qed.

Lemma fmax_ext {A} (f g : A -> Z) l : (forall x, f x = g x) -> fmax f l = fmax g l.
Proof. intros H. unfold fmax. induction l as [|x r IH]; cbn [fold_right]; [reflexivity|]. rewrite H, IH. reflexivity. Qed.

(* INBOUND STATISTICS at clock [now], from the ledger alone.  Window = the vitv ms ending at the
   end of the current array bucket (bucket length bl = gitv / gn), i.e. [hi - vitv, hi):
     QPS          = (batches admitted in the window) / (vitv / 1000)
     in flight    = admitted - completed entries so far
     average RT   = (sum of response times in the window) div (batches completed), 0 if none
     minimum RT   = smallest response time in the window, from 60000, at least 1
     peak completion rate = (largest number of batches completed within one bucket of the
                    window) * vn / vitv * 1000 *)
Definition inbound_stats (gn gitv vn vitv : Z) (L : list nev) (now : Z) : readings :=
  let bl := gitv / gn in
  let hi := bstart bl now + bl in
  let lo := hi - vitv in
  {| rd_qps := (f_of_i64 (led_sum pass_amt L lo hi) / (f_of_u64 vitv / 1000))%float;
     rd_conc := in_flight L;
     rd_avg_rt := (let complete := led_sum complete_amt L lo hi in
                   if complete <=? 0 then 0%float else f_of_i64 (Z.quot (led_sum rt_amt L lo hi) complete));
     rd_min_rt := f_of_i64 (let m := led_min_rt L lo hi in if m <? 1 then 1 else m);
     rd_max_complete := (f_of_i64 (fmax (fun b => led_sum complete_amt L b (b + bl)) (bucket_starts lo bl (Z.to_nat (vitv / bl))))
                         * f_of_u64 vn / f_of_u64 vitv * 1000)%float |}.

Lemma ref_readings_ledger gn gitv vn vitv L now :
  ref_readings gn gitv vn vitv L now = inbound_stats gn gitv vn vitv L now.
Proof.
  unfold ref_readings, inbound_stats, win_max_bucket.
  rewrite !expand_sum_pass, !expand_sum_complete, !expand_sum_rt, !expand_min_rt.
  rewrite (fmax_ext _ (fun b => led_sum complete_amt L b (b + gitv / gn))) by (intros; apply expand_sum_complete).
  reflexivity.
Qed.

(* ------------------------------------------------------------------------------------------ *)
(* Part D: the decision *)

(* estimated capacity exceeded: more than one request in flight, and more in flight than
   peak completion rate x minimum response time (ms) / 1000 *)
Definition over_capacity (rd : readings) : bool :=
  (1 <? rd_conc rd) && (rd_max_complete rd * rd_min_rt rd / 1000 <? f_of_i64 (rd_conc rd))%float.

(* the value a rule's metric type looks at *)
Definition metric_value (rd : readings) (load cpu : float) (r : srule) : float :=
  if s_metric r =? MtInboundQPS then rd_qps rd
  else if s_metric r =? MtConcurrency then f_of_i64 (rd_conc rd)
  else if s_metric r =? MtAvgRT then rd_avg_rt rd
  else if s_metric r =? MtLoad then load
  else if s_metric r =? MtCpuUsage then cpu
  else 0%float.

(* SPEC: rule r is violated at these readings.  QPS / in-flight / average RT: the value is not
   below the trigger (it has reached it).  Load / cpu: the value is above the trigger and, for
   the BBR strategy, the estimated capacity is exceeded. *)
Definition violated (rd : readings) (load cpu : float) (r : srule) : bool :=
  if s_metric r =? MtInboundQPS then negb (rd_qps rd <? s_trigger r)%float
  else if s_metric r =? MtConcurrency then negb (f_of_i64 (rd_conc rd) <? s_trigger r)%float
  else if s_metric r =? MtAvgRT then negb (rd_avg_rt rd <? s_trigger r)%float
  else if s_metric r =? MtLoad then
    (s_trigger r <? load)%float && (negb (s_strategy r =? BBR) || over_capacity rd)
  else if s_metric r =? MtCpuUsage then
    (s_trigger r <? cpu)%float && (negb (s_strategy r =? BBR) || over_capacity rd)
  else false.

Lemma check_bbr_spec x now : check_bbr_simple x now = negb (over_capacity (node_readings x now)).
Proof.
  unfold check_bbr_simple, over_capacity, node_readings. cbn [rd_conc rd_max_complete rd_min_rt].
  destruct ((1 <? nd_conc x) && _); reflexivity.
Qed.

Lemma do_check_rule_spec x now load cpu r :
  do_check_rule x now load cpu r
  = (negb (violated (node_readings x now) load cpu r), metric_value (node_readings x now) load cpu r).
Proof.
  unfold do_check_rule, violated, metric_value. rewrite check_bbr_spec.
  destruct (s_metric r =? MtInboundQPS); [cbn [node_readings rd_qps]; rewrite negb_involutive; reflexivity|].
  destruct (s_metric r =? MtConcurrency); [cbn [node_readings rd_conc]; rewrite negb_involutive; reflexivity|].
  destruct (s_metric r =? MtAvgRT); [cbn [node_readings rd_avg_rt]; rewrite negb_involutive; reflexivity|].
  destruct (s_metric r =? MtLoad).
  { destruct (s_trigger r <? load)%float; [|reflexivity]. rewrite negb_involutive.
    destruct (negb (s_strategy r =? BBR) || over_capacity (node_readings x now)); reflexivity. }
  destruct (s_metric r =? MtCpuUsage).
  { destruct (s_trigger r <? cpu)%float; [|reflexivity]. rewrite negb_involutive.
    destruct (negb (s_strategy r =? BBR) || over_capacity (node_readings x now)); reflexivity. }
  reflexivity.
Qed.

Lemma check_rules_some x now load cpu rs r v :
  check_rules x now load cpu rs = Some (r, v) ->
  In r rs /\ violated (node_readings x now) load cpu r = true /\ v = metric_value (node_readings x now) load cpu r.
Proof.
  induction rs as [|a rest IH]; cbn [check_rules]; [discriminate|].
  rewrite do_check_rule_spec.
  destruct (violated (node_readings x now) load cpu a) eqn:E; cbn [negb].
  - intros X. injection X as <- <-. split; [left; reflexivity|]. split; [assumption|reflexivity].
  - intros X. destruct (IH X) as (A & B & C). split; [right; assumption|]. split; assumption.
Qed.

Lemma check_rules_none x now load cpu rs :
  check_rules x now load cpu rs = None <->
  forall r, In r rs -> violated (node_readings x now) load cpu r = false.
Proof.
  induction rs as [|a rest IH]; cbn [check_rules].
  - split; [intros _ r []|reflexivity].
  - rewrite do_check_rule_spec.
    destruct (violated (node_readings x now) load cpu a) eqn:E; cbn [negb].
    + split; [discriminate|]. intros H. rewrite (H a (or_introl eq_refl)) in E. discriminate.
    + rewrite IH. split.
      * intros H r [<-|Hr]; [assumption|apply H; assumption].
      * intros H r Hr. apply H. right. assumption.
Qed.

Lemma in_get_rules rules ord r : In r (get_rules rules ord) <-> In r rules /\ In (s_metric r) ord.
Proof.
  unfold get_rules. rewrite in_flat_map. split.
  - intros (mt & Hmt & Hr). unfold rules_of_metric in Hr. apply filter_In in Hr. destruct Hr as [Hr E].
    apply Z.eqb_eq in E. subst mt. split; assumption.
  - intros [Hr Ho]. exists (s_metric r). split; [assumption|]. apply filter_In. split; [assumption|apply Z.eqb_refl].
Qed.

(* Go's map iteration visits every key: every metric type that has loaded rules appears in ord *)
Definition covers (ord : list Z) (rules : list srule) : Prop := forall r, In r rules -> In (s_metric r) ord.

Lemma perm_covers ord rules : Permutation ord [0; 1; 2; 3; 4] ->
  Forall (fun r => sys_valid r = true /\ 0 <= s_metric r) rules -> covers ord rules.
Proof.
  intros Hp Hv r Hr. rewrite Forall_forall in Hv. destruct (Hv r Hr) as [V N].
  apply (Permutation_in _ (Permutation_sym Hp)).
  unfold sys_valid in V. destruct (negb (s_trigger r =? s_trigger r)%float); [discriminate|].
  destruct (s_trigger r <? 0)%float; [discriminate|].
  destruct (Z.leb_spec 5 (s_metric r)); [discriminate|].
  assert (s_metric r = 0 \/ s_metric r = 1 \/ s_metric r = 2 \/ s_metric r = 3 \/ s_metric r = 4) by lia.
  cbn [In]. intuition.
Qed.

(* ---- the decision of the slot in terms of the node's readings ---- *)
Lemma slot_outbound x now load cpu rules ord : slot_check false x now load cpu rules ord = None.
Proof. reflexivity. Qed.

Lemma slot_blocked_sound x now load cpu rules ord r v :
  slot_check true x now load cpu rules ord = Some (r, v) ->
  In r rules /\ In (s_metric r) ord /\ violated (node_readings x now) load cpu r = true /\
  v = metric_value (node_readings x now) load cpu r.
Proof.
  unfold slot_check. cbn [negb]. intros H. apply check_rules_some in H. destruct H as (A & B & C).
  apply in_get_rules in A. tauto.
Qed.

Lemma slot_blocked_iff x now load cpu rules ord : covers ord rules ->
  ((exists rv, slot_check true x now load cpu rules ord = Some rv) <->
   exists r, In r rules /\ violated (node_readings x now) load cpu r = true).
Proof.
  intros Hc. split.
  - intros ([r v] & H). apply slot_blocked_sound in H. exists r. tauto.
  - intros (r & Hr & Hv). unfold slot_check. cbn [negb].
    destruct (check_rules x now load cpu (get_rules rules ord)) as [rv|] eqn:E; [exists rv; reflexivity|].
    exfalso. rewrite check_rules_none in E. rewrite (E r) in Hv; [discriminate|].
    apply in_get_rules. split; [assumption|apply Hc; assumption].
Qed.

(* ---- reachable states ---- *)
Section Run.
Variables gn gitv vn vitv t0 : Z.
Hypothesis Hgn : 0 < gn.
Hypothesis Hgd : gitv mod gn = 0.
Hypothesis Hgi : 0 < gitv < two32.
Hypothesis Hvn : 0 <= vn.
Hypothesis Hvitv : 0 <= vitv.
Hypothesis Hck : check_reuse vn vitv gn gitv = true.
Hypothesis Ht0 : 0 < t0.

Let s0 := sys_state0 gn gitv vn vitv t0.

Lemma WF0 : WF s0 0.
Proof. unfold WF, s0, sys_state0, live_inbound, linb. cbn. repeat split; try lia; constructor. Qed.

Transparent two31.
Lemma run_readings ops now :
  hist_mono t0 ops -> Z.of_nat (length ops) < two31 -> hist_last t0 ops <= now < two62' ->
  node_readings (st_node (sys_after s0 ops)) now = ref_readings gn gitv vn vitv (ledger s0 ops) now
  /\ in_flight (ledger s0 ops) = live_inbound (sys_after s0 ops).
Proof.
  intros Hm Hlen Hnow.
  destruct (ledger_mono ops s0 t0 Hm) as [Lm Ll].
  destruct (after_conc ops s0 0 WF0 ltac:(lia)) as [(Wc & _) Hc].
  pose proof (after_node ops s0) as Hnode.
  destruct (node_apply_list (ledger s0 ops) (st_node s0)) as (Ha & _ & Hv).
  rewrite <- Hnode in Ha, Hv.
  assert (C0 : nd_conc (st_node s0) = 0) by reflexivity. rewrite C0 in Hc, Ha. rewrite Z.add_0_l in Hc.
  split; [|rewrite <- Hc; exact Wc].
  apply (node_readings_ref gn gitv vn vitv t0); try assumption; try lia.
Qed.
Opaque two31.

End Run.

(* ------------------------------------------------------------------------------------------ *)
(* the property theorems (restated verbatim in Properties/C07.v) *)

Definition blocked_system (x : sobs) : Prop := exists tag v, x = OBlocked BlockTypeSystemFlow tag v.

Lemma entry_obs s t inb b ord :
  snd (sys_step s (OEntry t inb b ord)) =
  match decide s t inb ord with Some (r, v) => OBlocked BlockTypeSystemFlow (s_tag r) v | None => OPassed end.
Proof. cbn [sys_step]. destruct (decide s t inb ord) as [[r v]|]; reflexivity. Qed.

(* system rules never block outbound traffic: in every state whatsoever *)
Theorem outbound_never s t b ord :
  snd (sys_step s (OEntry t false b ord)) = OPassed /\ step_events s (OEntry t false b ord) = [].
Proof. split; reflexivity. Qed.

Section Thm.
Variables gn gitv vn vitv t0 : Z.
Hypothesis Hgn : 0 < gn.
Hypothesis Hgd : gitv mod gn = 0.
Hypothesis Hgi : 0 < gitv < two32.
Hypothesis Hvn : 0 <= vn.
Hypothesis Hvitv : 0 <= vitv.
Hypothesis Hck : check_reuse vn vitv gn gitv = true.
Hypothesis Ht0 : 0 < t0.
Variable ops : list sop.
Variable t : Z.
Hypothesis Hm : hist_mono t0 ops.
Hypothesis Hlen : Z.of_nat (length ops) < two31.
Hypothesis Hnow : hist_last t0 ops <= t < two62'.

Let s0 := sys_state0 gn gitv vn vitv t0.
Let s := sys_after s0 ops.
Let rd := inbound_stats gn gitv vn vitv (ledger s0 ops) t.

Lemma decide_readings : node_readings (st_node s) t = rd.
Proof. unfold rd. rewrite <- ref_readings_ledger. apply (run_readings gn gitv vn vitv t0 Hgn Hgd Hgi Hvn Hvitv Hck Ht0 ops t Hm Hlen Hnow). Qed.

Theorem inbound_iff b ord : covers ord (sys_rules (st_rules s)) ->
  (blocked_system (snd (sys_step s (OEntry t true b ord))) <->
   exists r, In r (sys_rules (st_rules s)) /\ sys_valid r = true /\
             violated rd (st_load s) (st_cpu s) r = true).
Proof.
  intros Hc. rewrite entry_obs. unfold decide.
  pose proof (slot_blocked_iff (st_node s) t (st_load s) (st_cpu s) (sys_rules (st_rules s)) ord Hc) as HI.
  rewrite decide_readings in HI.
  assert (HV : Forall (fun r => sys_valid r = true) (sys_rules (st_rules s))).
  { apply after_rules_valid. constructor. }
  rewrite Forall_forall in HV.
  split.
  - intros (tag & v & E).
    destruct (slot_check true (st_node s) t (st_load s) (st_cpu s) (sys_rules (st_rules s)) ord) as [[r v']|] eqn:ES; [|discriminate].
    destruct (proj1 HI (ex_intro _ _ eq_refl)) as (r0 & A & B). exists r0. split; [assumption|]. split; [apply HV; assumption|assumption].
  - intros (r & A & _ & B). destruct (proj2 HI (ex_intro _ r (conj A B))) as ([r' v'] & E). rewrite E.
    exists (s_tag r'), v'. reflexivity.
Qed.

(* the rule reported by a blocked call is a loaded valid rule that is violated, and the
   reported snapshot is the value of that rule's metric: for EVERY iteration order *)
Theorem reported_rule_violated b ord tag v :
  snd (sys_step s (OEntry t true b ord)) = OBlocked BlockTypeSystemFlow tag v ->
  exists r, In r (sys_rules (st_rules s)) /\ sys_valid r = true /\ s_tag r = tag /\
            violated rd (st_load s) (st_cpu s) r = true /\
            v = metric_value rd (st_load s) (st_cpu s) r.
Proof.
  rewrite entry_obs. unfold decide.
  destruct (slot_check true (st_node s) t (st_load s) (st_cpu s) (sys_rules (st_rules s)) ord) as [[r v']|] eqn:ES; [|discriminate].
  intros X. injection X as <- <-.
  apply slot_blocked_sound in ES. rewrite decide_readings in ES. destruct ES as (A & _ & B & C).
  assert (HV : Forall (fun r => sys_valid r = true) (sys_rules (st_rules s))).
  { apply after_rules_valid. constructor. }
  rewrite Forall_forall in HV.
  exists r. repeat split; try assumption. apply HV. assumption.
Qed.

(* with no violated rule (in particular with no rule) every inbound request passes, for every
   iteration order, and is recorded as admitted *)
Theorem no_rule_pass b ord :
  (forall r, In r (sys_rules (st_rules s)) -> violated rd (st_load s) (st_cpu s) r = false) ->
  snd (sys_step s (OEntry t true b ord)) = OPassed /\ step_events s (OEntry t true b ord) = [NPass t b].
Proof.
  intros H. rewrite entry_obs. cbn [step_events]. unfold decide, slot_check. cbn [negb].
  assert (E : check_rules (st_node s) t (st_load s) (st_cpu s) (get_rules (sys_rules (st_rules s)) ord) = None).
  { apply check_rules_none. intros r Hr. rewrite decide_readings. apply H. apply in_get_rules in Hr. tauto. }
  rewrite E. split; reflexivity.
Qed.

(* the in-flight reference is the number of inbound entries admitted and not yet exited *)
Theorem inflight_is_live : rd_conc rd = live_inbound s.
Proof.
  change (rd_conc rd) with (rd_conc (ref_readings gn gitv vn vitv (ledger s0 ops) t)).
  apply (run_readings gn gitv vn vitv t0 Hgn Hgd Hgi Hvn Hvitv Hck Ht0 ops t Hm Hlen Hnow).
Qed.

End Thm.

(* ------------------------------------------------------------------------------------------ *)
(* the state's rule set and readings are the latest inputs *)

Definition loads (ops : list sop) : list (option (list (option srule))) :=
  flat_map (fun o => match o with OLoad l => [l] | _ => [] end) ops.

Fixpoint last_load (d : float) (ops : list sop) : float :=
  match ops with [] => d | OSetLoad f :: r => last_load f r | _ :: r => last_load d r end.
Fixpoint last_cpu (d : float) (ops : list sop) : float :=
  match ops with [] => d | OSetCpu f :: r => last_cpu f r | _ :: r => last_cpu d r end.

Lemma step_inputs s o :
  st_rules (fst (sys_step s o)) = match o with OLoad l => fst (sys_load (st_rules s) l) | _ => st_rules s end /\
  st_load (fst (sys_step s o)) = match o with OSetLoad f => f | _ => st_load s end /\
  st_cpu (fst (sys_step s o)) = match o with OSetCpu f => f | _ => st_cpu s end.
Proof.
  destruct o as [l|f|f|t inb b ord|t k err|t]; cbn [sys_step]; auto.
  - destruct (sys_load (st_rules s) l). auto.
  - destruct (decide s t inb ord) as [[r v]|]; auto.
Qed.

Lemma after_inputs ops : forall s,
  st_rules (sys_after s ops) = fst (sys_run (st_rules s) (loads ops)) /\
  st_load (sys_after s ops) = last_load (st_load s) ops /\
  st_cpu (sys_after s ops) = last_cpu (st_cpu s) ops.
Proof.
  induction ops as [|o r IH]; intros s; [cbn; auto|].
  rewrite sys_after_cons. destruct (IH (fst (sys_step s o))) as (A & B & C).
  destruct (step_inputs s o) as (A1 & B1 & C1). rewrite A, B, C, A1, B1, C1.
  destruct o; cbn [loads flat_map app last_load last_cpu]; auto.
  fold (loads r). rewrite sys_run_cons. cbn [fst]. auto.
Qed.

(* the loaded rules are the valid, non-nil members of the list given to the latest LoadRules
   call that reported a change (C13's theorem for the system manager) *)
Lemma loaded_are_valid_latest gn gitv vn vitv t0 ops :
  let s := sys_after (sys_state0 gn gitv vn vitv t0) ops in
  sys_rules (st_rules s)
  = filter sys_valid (nonnil (sys_latest_from [] (combine (loads ops) (snd (sys_run sys_init (loads ops)))))) /\
  st_load s = last_load NotRetrieved ops /\ st_cpu s = last_cpu NotRetrieved ops.
Proof.
  cbn zeta. destruct (after_inputs ops (sys_state0 gn gitv vn vitv t0)) as (A & B & C).
  rewrite A, B, C. cbn [sys_state0 st_rules st_load st_cpu]. split; [|auto].
  apply sys_enforced_eq_valid_latest.
Qed.

(* ------------------------------------------------------------------------------------------ *)
(* reading of "has reached its trigger": for non-NaN operands, not (v < trigger) is trigger <= v
   (uses the specification of PrimFloat comparisons, FloatAxioms) *)
Lemma SFcompare_antisym x y : SFcompare y x = option_map CompOpp (SFcompare x y).
Proof.
  destruct x as [sx|sx| |sx mx ex], y as [sy|sy| |sy my ey]; cbn [SFcompare option_map CompOpp]; try reflexivity;
   try (destruct sx; reflexivity); try (destruct sy; reflexivity); try (destruct sx, sy; reflexivity).
  change (Pos.compare_cont Eq my mx) with (Pos.compare my mx).
  change (Pos.compare_cont Eq mx my) with (Pos.compare mx my).
  rewrite (Z.compare_antisym ex ey), (Pos.compare_antisym mx my).
  destruct sx, sy; cbn; try reflexivity; destruct (ex ?= ey)%Z; cbn; try reflexivity;
   destruct (mx ?= my)%positive; reflexivity.
Qed.

Definition not_nan (f : float) : Prop := (f =? f)%float = true.

Lemma SFcompare_some x y : SFcompare x x <> None -> SFcompare y y <> None -> SFcompare x y <> None.
Proof. destruct x, y; cbn; congruence. Qed.

Lemma not_ltb_is_leb (v thr : float) :
  not_nan v -> not_nan thr -> negb (v <? thr)%float = (thr <=? v)%float.
Proof.
  unfold not_nan. intros Hv Ht. rewrite FloatAxioms.eqb_spec in Hv, Ht.
  rewrite FloatAxioms.ltb_spec, FloatAxioms.leb_spec. unfold SFeqb, SFltb, SFleb in *.
  rewrite (SFcompare_antisym (Prim2SF v) (Prim2SF thr)).
  assert (N : SFcompare (Prim2SF v) (Prim2SF thr) <> None).
  { apply SFcompare_some; intros E; rewrite E in *; discriminate. }
  destruct (SFcompare (Prim2SF v) (Prim2SF thr)) as [[| |]|]; try reflexivity. congruence.
Qed.

(* for the three statistics-based metric types and non-NaN values: violated iff trigger <= value *)
Lemma violated_reached rd load cpu r :
  s_metric r = MtInboundQPS \/ s_metric r = MtConcurrency \/ s_metric r = MtAvgRT ->
  not_nan (metric_value rd load cpu r) -> not_nan (s_trigger r) ->
  violated rd load cpu r = (s_trigger r <=? metric_value rd load cpu r)%float.
Proof.
  intros Hm Hv Ht. unfold violated, metric_value in *.
  destruct Hm as [E|[E|E]]; rewrite E in *; cbn [Z.eqb MtInboundQPS MtConcurrency MtAvgRT Pos.eqb] in *;
    apply not_ltb_is_leb; assumption.
Qed.
