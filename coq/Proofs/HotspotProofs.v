(* Lemmas about Model/Hotspot.v: slot level (argument extraction, requests without the
   selected argument, specific items) and the recorded findings' witnesses. *)
From SG Require Import Base.Prelude Base.GoInt Model.LRU Model.Hotspot.
#[local] Open Scope Z_scope.

(* ---- requests without the selected argument are never limited ----------------------- *)

Lemma slot_check_no_arg : forall rules ms i clk adv q,
  Forall (fun r => extract r q = None) rules ->
  slot_check i rules ms clk adv q = (ms, clk, [], VPass).
Proof.
  induction rules as [|r rs IH]; intros ms i clk adv q H.
  - destruct ms; reflexivity.
  - inversion H as [|? ? Hr Hrs]; subst. destruct ms as [|m mr]; [reflexivity|].
    cbn [slot_check]. rewrite Hr. rewrite (IH mr (i + 1) clk adv q Hrs). reflexivity.
Qed.

Lemma conc_bump_all_no_arg : forall delta rules ms q,
  Forall (fun r => extract r q = None) rules -> conc_bump_all delta rules ms q = ms.
Proof.
  induction rules as [|r rs IH]; intros ms q H.
  - destruct ms; reflexivity.
  - inversion H as [|? ? Hr Hrs]; subst. destruct ms as [|m mr]; [reflexivity|].
    cbn [conc_bump_all]. unfold conc_bump. rewrite Hr. rewrite (IH mr q Hrs).
    destruct (r_metric r =? 0); reflexivity.
Qed.

(* ---- specific items ------------------------------------------------------------------ *)

Definition with_threshold (r : rule) (x : Z) : rule :=
  {| r_metric := r_metric r; r_behavior := r_behavior r; r_idx := r_idx r; r_key := r_key r;
     r_thr := x; r_maxq := r_maxq r; r_burst := r_burst r; r_dur := r_dur r; r_cap := r_cap r;
     r_spec := [] |}.

Lemma tok_count_specific r k x : alookup k (r_spec r) = Some x -> tok_count r k = x.
Proof. unfold tok_count. intros ->. reflexivity. Qed.

Lemma tok_count_general r k : alookup k (r_spec r) = None -> tok_count r k = r_thr r.
Proof. unfold tok_count. intros ->. reflexivity. Qed.

Lemma cache_size_with_threshold r x : cache_size (with_threshold r x) = cache_size r.
Proof. reflexivity. Qed.

(* the check of value k is the check of a rule whose only threshold is the one in force for k *)
Lemma perform_checking_threshold r m now k b :
  perform_checking r m now k b = perform_checking (with_threshold r (tok_count r k)) m now k b.
Proof.
  unfold perform_checking, reject_check, throttle_check, conc_check, throttle_interval.
  rewrite cache_size_with_threshold.
  replace (tok_count (with_threshold r (tok_count r k)) k) with (tok_count r k) by reflexivity.
  reflexivity.
Qed.
