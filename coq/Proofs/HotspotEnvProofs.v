(* Reject-mode controller histories of Model/Hotspot.v under *syntactic* hypotheses:
   - the values of the history fit the parameter cache ([fits]) => nothing is evicted;
   - the no-overflow guard ([guard]: elapsed ms * threshold < 2^62, magnitudes < 2^62);
   and from them: independence (the decisions for v are those of the token bucket run on the
   sub-history of v alone, and those of the controller run on the restricted history), the two
   envelopes, the idle grant, the range of the stored tokens.  Also, without any guard: the
   lockstep of the two caches for every key (NaN included) and the non-negativity of every stored
   token count. *)
From SG Require Import Base.Prelude Base.GoInt Model.LRU Model.Hotspot
  Proofs.LRUProofs Proofs.HotspotBucketProofs Proofs.HotspotCtrlProofs.
#[local] Open Scope Z_scope.

(* ---- lockstep for every key (NaN keys are never found and always inserted) -------------- *)

Lemma find_nan {V : Type} k (l : lru V) : ~ real_key k -> lru_find k l = None.
Proof. unfold real_key, lru_find. intros H. destruct (NaNBase <=? k) eqn:E; [reflexivity|lia]. Qed.

Lemma reject_check_lockstep r m now k b :
  lockstep m ->
  lockstep (fst (reject_check r m now k b)) /\ snd (reject_check r m now k b) <> DSpin.
Proof.
  intros Hl. destruct (Z_lt_dec k NaNBase) as [Hr|Hn].
  - destruct (reject_check_struct r m now k b Hr Hl) as [H1 [H2 _]]. auto.
  - unfold reject_check.
    destruct (tok_count r k <=? 0); [cbn [fst snd]; split; [exact Hl|discriminate]|].
    destruct (i64 (tok_count r k + r_burst r) <? b); [cbn [fst snd]; split; [exact Hl|discriminate]|].
    unfold lru_add_if_absent. rewrite !(find_nan k _ Hn). cbn [fst snd].
    split; [|discriminate]. unfold lockstep. cbn [m_time m_tok].
    rewrite !keys_trim_front. now rewrite Hl.
Qed.

(* ---- stored token counts are never negative (no guard, evictions allowed) ---------------- *)

Definition nonneg_cells (l : lru Z) : Prop := Forall (fun kv => 0 <= snd kv) l.

Lemma nonneg_del k l : nonneg_cells l -> nonneg_cells (lru_del k l).
Proof.
  unfold nonneg_cells. induction 1 as [|[k' v'] r Hx Hr IH]; cbn [lru_del]; [constructor|].
  destruct (k =? k'); [exact Hr|constructor; assumption].
Qed.

Lemma nonneg_removelast l : nonneg_cells l -> nonneg_cells (removelast l).
Proof.
  unfold nonneg_cells. induction 1 as [|x r Hx Hr IH]; [constructor|].
  destruct r as [|y r']; [constructor|].
  change (removelast (x :: y :: r')) with (x :: removelast (y :: r')). constructor; assumption.
Qed.

Lemma nonneg_trim cap l : nonneg_cells l -> nonneg_cells (lru_trim cap l).
Proof. unfold lru_trim. intros H. destruct (cap <? _); [now apply nonneg_removelast|exact H]. Qed.

Lemma nonneg_set k v l : 0 <= v -> nonneg_cells l -> nonneg_cells (lru_set k v l).
Proof.
  unfold nonneg_cells. intros Hv. induction 1 as [|[k' v'] r Hx Hr IH]; cbn [lru_set]; [constructor|].
  destruct (k =? k'); constructor; auto.
Qed.

Lemma nonneg_lookup k l x : nonneg_cells l -> alookup k l = Some x -> 0 <= x.
Proof.
  unfold nonneg_cells. induction 1 as [|[k' v'] r Hx Hr IH]; cbn [alookup]; [discriminate|].
  destruct (k =? k'); [intros [= <-]; exact Hx|exact IH].
Qed.

Lemma nonneg_find k l x : nonneg_cells l -> lru_find k l = Some x -> 0 <= x.
Proof. unfold lru_find. destruct (NaNBase <=? k); [discriminate|apply nonneg_lookup]. Qed.

Lemma nonneg_aia cap k v l : 0 <= v -> nonneg_cells l -> nonneg_cells (fst (lru_add_if_absent cap k v l)).
Proof.
  intros Hv Hl. unfold lru_add_if_absent. destruct (lru_find k l) as [x|] eqn:E; cbn [fst].
  - constructor; [cbn; eapply nonneg_find; eauto|now apply nonneg_del].
  - apply nonneg_trim. constructor; assumption.
Qed.

Lemma nonneg_get k l : nonneg_cells l -> nonneg_cells (fst (lru_get k l)).
Proof.
  intros Hl. unfold lru_get. destruct (lru_find k l) as [x|] eqn:E; cbn [fst]; [|exact Hl].
  constructor; [cbn; eapply nonneg_find; eauto|now apply nonneg_del].
Qed.

#[local] Transparent two63 two64.
Lemma i64_sub_nonneg M b : 0 <= b -> b <= i64 M -> 0 <= i64 (i64 M - b).
Proof.
  intros Hb Hle. pose proof (i64_range M) as HM. unfold in_i64, two63 in HM.
  rewrite i64_small; lia.
Qed.
#[local] Opaque two63 two64.

Lemma reject_check_tokens_nonneg r m now k b :
  0 <= b -> nonneg_cells (m_tok m) -> nonneg_cells (m_tok (fst (reject_check r m now k b))).
Proof.
  intros Hb Hn. unfold reject_check.
  destruct (tok_count r k <=? 0); [exact Hn|].
  destruct (i64 (tok_count r k + r_burst r) <? b) eqn:EM; [exact Hn|].
  assert (H0 : 0 <= i64 (i64 (tok_count r k + r_burst r) - b)) by (apply i64_sub_nonneg; lia).
  set (M := i64 (tok_count r k + r_burst r)) in *.
  destruct (lru_add_if_absent (cache_size r) k now (m_time m)) as [tc1 [last|]].
  - destruct (i64 (r_dur r * 1000) <? i64 (now - last)).
    + pose proof (nonneg_aia (cache_size r) k (i64 (M - b)) (m_tok m) H0 Hn) as Ha.
      destruct (lru_add_if_absent (cache_size r) k (i64 (M - b)) (m_tok m)) as [kc1 [rest|]];
        cbn [fst] in Ha; [|exact Ha].
      match goal with |- context [if ?c <? 0 then _ else _] => destruct (c <? 0) eqn:EN end;
        cbn [fst m_tok]; [exact Ha|]. apply nonneg_set; [lia|exact Ha].
    + pose proof (nonneg_get k (m_tok m) Hn) as Hg.
      destruct (lru_get k (m_tok m)) as [kc1 [old|]]; cbn [fst] in Hg; [|exact Hg].
      destruct (0 <=? i64 (old - b)) eqn:EN; cbn [fst m_tok]; [|exact Hg].
      apply nonneg_set; [lia|exact Hg].
  - pose proof (nonneg_aia (cache_size r) k (i64 (M - b)) (m_tok m) H0 Hn) as Ha.
    destruct (lru_add_if_absent (cache_size r) k (i64 (M - b)) (m_tok m)) as [kc1 o].
    exact Ha.
Qed.

Theorem ctrl_run_tokens_nonneg r calls : forall m,
  Forall (fun c => 0 <= snd c) calls -> nonneg_cells (m_tok m) ->
  nonneg_cells (m_tok (fst (ctrl_run r m calls))).
Proof.
  induction calls as [|[[now k] b] rest IH]; intros m Hb Hn; [exact Hn|].
  inversion Hb as [|? ? Hb1 Hb2]; subst. cbn [snd] in Hb1.
  pose proof (reject_check_tokens_nonneg r m now k b Hb1 Hn) as H1.
  cbn [ctrl_run]. destruct (reject_check r m now k b) as [m1 d]. cbn [fst] in H1.
  specialize (IH m1 Hb2 H1). destruct (ctrl_run r m1 rest) as [m2 ds]. exact IH.
Qed.

(* lockstep of whole controller histories, every key *)
Theorem ctrl_run_lockstep_any r calls : forall m,
  lockstep m ->
  lockstep (fst (ctrl_run r m calls)) /\ Forall (fun d => d <> DSpin) (snd (ctrl_run r m calls)).
Proof.
  induction calls as [|[[now k] b] rest IH]; intros m Hl.
  - split; [exact Hl|constructor].
  - destruct (reject_check_lockstep r m now k b Hl) as [H1 H2].
    cbn [ctrl_run]. destruct (reject_check r m now k b) as [m1 d]. cbn [fst snd] in *.
    destruct (IH m1 H1) as [IH1 IH2]. destruct (ctrl_run r m1 rest) as [m2 ds].
    cbn [fst snd] in *. split; [exact IH1|constructor; assumption].
Qed.

(* ---- the key sequence after one check --------------------------------------------------- *)

Lemma reject_check_keys r m now k b :
  real_key k -> lockstep m ->
  let ks := lru_keys (m_time m) in
  let ks' := lru_keys (m_time (fst (reject_check r m now k b))) in
  ks' = ks \/ (In k ks /\ ks' = touch k ks) \/ (~ In k ks /\ ks' = key_trim (cache_size r) (k :: ks)).
Proof.
  intros Hr Hl ks ks'. subst ks ks'. unfold reject_check.
  destruct (tok_count r k <=? 0); [left; reflexivity|].
  destruct (i64 (tok_count r k + r_burst r) <? b); [left; reflexivity|].
  set (M := i64 (tok_count r k + r_burst r)).
  destruct (alookup k (m_time m)) as [last|] eqn:Et.
  - assert (Hin : In k (lru_keys (m_time m))) by (eapply alookup_some_in; eauto).
    assert (Hk : exists x, alookup k (m_tok m) = Some x).
    { destruct (alookup k (m_tok m)) as [x|] eqn:Ek; [eauto|].
      apply (same_keys_lookup k _ _ Hl) in Ek. congruence. }
    destruct Hk as [x Ek]. right; left. split; [exact Hin|].
    rewrite (aia_present _ k now last _ Hr Et).
    destruct (i64 (r_dur r * 1000) <? i64 (now - last)).
    + rewrite (aia_present _ k _ x _ Hr Ek).
      match goal with |- context [if ?c then _ else _] => destruct c end; cbn [fst m_time];
        rewrite ?set_front; apply keys_front.
    + rewrite (get_present k x _ Hr Ek).
      destruct (0 <=? i64 (x - b)); cbn [fst m_time]; rewrite ?set_front; apply keys_front.
  - assert (Hnin : ~ In k (lru_keys (m_time m))) by (now apply alookup_none_notin).
    assert (Ek : alookup k (m_tok m) = None) by (apply (same_keys_lookup k _ _ Hl); exact Et).
    right; right. split; [exact Hnin|].
    rewrite (aia_absent _ k now _ Hr Et), (aia_absent _ k _ _ Hr Ek). cbn [fst m_time].
    apply keys_trim_front.
Qed.

(* ---- no eviction while the values fit ---------------------------------------------------- *)

Definition cache_in (K : list Z) (m : metric) : Prop :=
  NoDup (lru_keys (m_time m)) /\ incl (lru_keys (m_time m)) K.

Lemma cell_some_iff m k : lockstep m -> (cell m k <> None <-> In k (lru_keys (m_time m))).
Proof.
  intros Hl. unfold cell. split.
  - destruct (alookup k (m_time m)) eqn:E; [intros _; eapply alookup_some_in; eauto|congruence].
  - intros Hin. destruct (in_alookup_some k _ Hin) as [x ->].
    assert (Hin2 : In k (lru_keys (m_tok m))) by (rewrite <- Hl; exact Hin).
    destruct (in_alookup_some k _ Hin2) as [y ->]. discriminate.
Qed.

Lemma reject_check_no_evict r (K : list Z) m now k b :
  NoDup K -> Z.of_nat (length K) <= cache_size r -> In k K -> real_key k ->
  lockstep m -> cache_in K m ->
  let m' := fst (reject_check r m now k b) in
  cache_in K m' /\ forall k', k' <> k -> cell m' k' = cell m k'.
Proof.
  intros HK Hfit Hin Hr Hl [Hnd Hincl] m'.
  destruct (reject_check_struct r m now k b Hr Hl) as [Hl' [_ [_ Hkept]]]. fold m' in Hl'.
  pose proof (reject_check_keys r m now k b Hr Hl) as Hkeys. cbn zeta in Hkeys. fold m' in Hkeys.
  assert (Hpush : ~ In k (lru_keys (m_time m)) ->
            key_trim (cache_size r) (k :: lru_keys (m_time m)) = k :: lru_keys (m_time m)).
  { intros Hnin. unfold key_trim.
    assert (Hnd2 : NoDup (k :: lru_keys (m_time m))) by (constructor; assumption).
    assert (Hi2 : incl (k :: lru_keys (m_time m)) K) by (intros y [Hy|Hy]; [now subst|auto]).
    pose proof (NoDup_incl_length Hnd2 Hi2) as Hlen.
    destruct (cache_size r <? Z.of_nat (length (k :: lru_keys (m_time m)))) eqn:E; [lia|reflexivity]. }
  assert (Hci : cache_in K m' /\ forall k', In k' (lru_keys (m_time m)) -> In k' (lru_keys (m_time m'))).
  { unfold cache_in. destruct Hkeys as [He|[[Hi He]|[Hni He]]]; rewrite He.
    - split; [split; assumption|auto].
    - split; [split; [now apply touch_nodup|now apply touch_incl]|].
      intros k' Hk'. destruct (Z.eq_dec k' k) as [->|Hne]; [left; reflexivity|].
      right. now apply in_keys_del_other.
    - rewrite (Hpush Hni). split; [split|].
      + constructor; assumption.
      + intros y [Hy|Hy]; [now subst|auto].
      + intros k' Hk'. right. exact Hk'. }
  destruct Hci as [Hci Hmono]. split; [exact Hci|].
  intros k' Hne. destruct (Hkept k' Hne) as [H|H]; [exact H|].
  destruct (cell m k') eqn:Ec; [|exact H]. exfalso.
  assert (Hs : cell m k' <> None) by (rewrite Ec; discriminate).
  apply (cell_some_iff m k' Hl) in Hs. apply Hmono in Hs.
  apply (cell_some_iff m' k' Hl') in Hs. tauto.
Qed.

(* ---- the syntactic guard and the state it maintains ---------------------------------------- *)

Definition batch_max : Z := 4294967296.    (* the batch count is a uint32 *)

(* all magnitudes below 2^62, and (longest elapsed time) * threshold below 2^62 *)
Definition guard (r : rule) (v t0 tmax : Z) : Prop :=
  let T := tok_count r v in
  0 <= r_burst r /\ - two62 < T /\ T + r_burst r < two62 /\ 0 < r_dur r * 1000 < two62 /\
  0 <= tmax - t0 < two62 /\ (tmax - t0) * T < two62.

(* arrival times non-decreasing in [t, tmax], batch counts in the uint32 range *)
Fixpoint calls_ok (t tmax : Z) (calls : list (Z * Z * Z)) : Prop :=
  match calls with
  | [] => True
  | (now, _, b) :: rest => t <= now <= tmax /\ 0 <= b < batch_max /\ calls_ok now tmax rest
  end.

Definition fits (r : rule) (K : list Z) (calls : list (Z * Z * Z)) : Prop :=
  NoDup K /\ Z.of_nat (length K) <= cache_size r /\
  Forall (fun c => In (snd (fst c)) K /\ real_key (snd (fst c))) calls.

Lemma fits_real r K calls : fits r K calls -> calls_real calls.
Proof. intros [_ [_ H]]. unfold calls_real. eapply Forall_impl; [|exact H]. cbn. tauto. Qed.

Definition cell_in (M t0 t : Z) (c : bucket) : Prop :=
  match c with None => True | Some (last, tok) => 0 <= tok <= M /\ t0 <= last <= t end.

Lemma bucket_step_cell_in T B D t0 t c now b :
  0 <= B -> cell_in (T + B) t0 t c -> t0 <= t <= now -> 0 <= b ->
  cell_in (T + B) t0 now (fst (bucket_step T B D c now b)).
Proof.
  intros HB Hc Ht Hb. unfold bucket_step.
  assert (Hkeep : cell_in (T + B) t0 now c).
  { destruct c as [[last tok]|]; cbn in *; [lia|exact I]. }
  destruct (T <=? 0) eqn:ET; [exact Hkeep|].
  destruct (T + B <? b) eqn:EM; [exact Hkeep|].
  destruct c as [[last tok]|]; cbn [cell_in fst] in *.
  - destruct (D <? now - last).
    + destruct (T + B <? (now - last) * T / D + tok) eqn:EC.
      * destruct (T + B - b <? 0) eqn:EN; cbn [fst cell_in]; lia.
      * destruct ((now - last) * T / D + tok - b <? 0) eqn:EN; cbn [fst cell_in]; lia.
    + destruct (0 <=? tok - b) eqn:EN; cbn [fst cell_in]; lia.
  - lia.
Qed.

Lemma call_ok_of_guard r v t0 tmax t now b c :
  guard r v t0 tmax -> cell_in (tok_count r v + r_burst r) t0 t c ->
  t0 <= t <= now -> now <= tmax -> 0 <= b < batch_max ->
  call_ok r v now b c.
Proof.
  unfold guard, call_ok, two62, batch_max.
  intros [HB [HT [HM [HD [Hsp Hpr]]]]] Hc Ht Hmax Hb.
  repeat split; try lia.
  destruct c as [[last tok]|]; [|exact I]. cbn in Hc.
  repeat split; try lia.
  destruct (Z_le_gt_dec (tok_count r v) 0); nia.
Qed.

(* fits + guard => the semantic side condition [stays] of ctrl_run_projection *)
Lemma stays_of_fits r K v t0 tmax calls : forall m t,
  guard r v t0 tmax -> fits r K calls -> calls_ok t tmax calls -> t0 <= t ->
  lockstep m -> cache_in K m -> cell_in (tok_count r v + r_burst r) t0 t (cell m v) ->
  stays r v m calls.
Proof.
  induction calls as [|[[now k] b] rest IH]; intros m t Hg Hf Hok Ht Hl Hci Hcell; [exact I|].
  destruct Hf as [HK [Hfit Hall]]. inversion Hall as [|? ? [Hin Hr] Hrest]; subst. cbn [fst snd] in Hin, Hr.
  cbn [calls_ok] in Hok. destruct Hok as [Hnow [Hb Hokr]].
  destruct (reject_check_no_evict r K m now k b HK Hfit Hin Hr Hl Hci) as [Hci' Hoth].
  destruct (reject_check_struct r m now k b Hr Hl) as [Hl' _].
  cbn [stays]. split.
  - destruct (k =? v) eqn:E.
    + eapply call_ok_of_guard; eauto; lia.
    + intros Hs. rewrite (Hoth v ltac:(lia)). exact Hs.
  - apply (IH _ now); auto; try lia.
    + repeat split; assumption.
    + destruct (k =? v) eqn:E.
      * assert (k = v) by lia. subst k.
        assert (Hcall : call_ok r v now b (cell m v)) by (eapply call_ok_of_guard; eauto; lia).
        destruct (reject_check_refines r m now v b Hr Hl Hcall) as [_ Hc]. rewrite Hc.
        destruct Hg as [HB _]. apply (bucket_step_cell_in _ _ _ t0 t); auto; lia.
      * rewrite (Hoth v ltac:(lia)).
        destruct (cell m v) as [[last tok]|]; cbn in *; [lia|exact I].
Qed.

Lemma metric0_ok K : lockstep metric0 /\ cache_in K metric0 /\ cell metric0 0 = None.
Proof.
  repeat split; cbn; try constructor. intros x [].
Qed.

Lemma cell_metric0 v : cell metric0 v = None.
Proof. reflexivity. Qed.

(* ---- independence ------------------------------------------------------------------------ *)

Definition only (v : Z) (calls : list (Z * Z * Z)) : list (Z * Z * Z) :=
  filter (fun c => snd (fst c) =? v) calls.

Lemma proj_only v calls : proj v (only v calls) = proj v calls.
Proof.
  induction calls as [|[[now k] b] rest IH]; [reflexivity|].
  unfold only in *. cbn [filter fst snd proj]. destruct (k =? v) eqn:E; [|exact IH].
  cbn [proj]. rewrite E. now rewrite IH.
Qed.

Lemma decs_for_only v calls : forall ds, length ds = length (only v calls) ->
  decs_for v (only v calls) ds = ds.
Proof.
  induction calls as [|[[now k] b] rest IH]; intros ds Hlen.
  - destruct ds; [reflexivity|discriminate].
  - unfold only in *. cbn [filter fst snd] in *. destruct (k =? v) eqn:E; [|now apply IH].
    destruct ds as [|d dr]; [discriminate|]. cbn [decs_for]. rewrite E. f_equal. apply IH.
    cbn in Hlen. lia.
Qed.

Lemma ctrl_run_length r calls : forall m, length (snd (ctrl_run r m calls)) = length calls.
Proof.
  induction calls as [|[[now k] b] rest IH]; intros m; [reflexivity|].
  cbn [ctrl_run]. destruct (reject_check r m now k b) as [m1 d]. specialize (IH m1).
  destruct (ctrl_run r m1 rest) as [m2 ds]. cbn [snd length] in *. now rewrite IH.
Qed.

Lemma calls_ok_only v calls : forall t tmax, calls_ok t tmax calls -> calls_ok t tmax (only v calls).
Proof.
  induction calls as [|[[now k] b] rest IH]; intros t tmax H; [exact I|].
  cbn [calls_ok] in H. destruct H as [H1 [H2 H3]]. unfold only in *. cbn [filter fst snd].
  destruct (k =? v).
  - cbn [calls_ok]. repeat split; try lia. apply IH. exact H3.
  - apply IH. revert H3. clear - H1. revert now H1.
    induction rest as [|[[n2 k2] b2] r2 IHr]; intros now H1 H3; [exact I|].
    cbn [calls_ok] in *. destruct H3 as [H4 [H5 H6]]. repeat split; try lia. exact H6.
Qed.

Lemma calls_ok_weaken calls : forall t t' tmax, t' <= t -> calls_ok t tmax calls -> calls_ok t' tmax calls.
Proof.
  destruct calls as [|[[now k] b] rest]; intros t t' tmax Hle H; [exact I|].
  cbn [calls_ok] in *. destruct H as [H1 [H2 H3]]. repeat split; try lia. exact H3.
Qed.

(* the decisions taken for v in a multi-value history are those of one token bucket fed with
   the sub-history of v alone *)
Theorem ctrl_run_bucket r K v t0 tmax calls :
  guard r v t0 tmax -> fits r K calls -> calls_ok t0 tmax calls ->
  let T := tok_count r v in let B := r_burst r in let D := r_dur r * 1000 in
  decs_for v calls (snd (ctrl_run r metric0 calls)) =
    map dec_of (snd (bucket_run T B D None (proj v calls))) /\
  cell (fst (ctrl_run r metric0 calls)) v = fst (bucket_run T B D None (proj v calls)).
Proof.
  intros Hg Hf Hok T B D.
  destruct (metric0_ok K) as [Hl [Hci _]].
  assert (Hst : stays r v metric0 calls).
  { apply (stays_of_fits r K v t0 tmax calls metric0 t0); auto; try lia. exact I. }
  exact (ctrl_run_projection r v calls metric0 (fits_real _ _ _ Hf) Hl Hst).
Qed.

Lemma fits_only r K v calls : fits r K calls -> In v K -> fits r [v] (only v calls).
Proof.
  intros [HK [Hfit Hall]] Hv. split; [constructor; [tauto|constructor]|]. split.
  - pose proof (cache_size_pos r). cbn. lia.
  - unfold only. apply Forall_forall. intros [[now k] b] Hin. apply filter_In in Hin.
    destruct Hin as [Hin E]. cbn [fst snd] in *. assert (k = v) by lia. subst k.
    rewrite Forall_forall in Hall. specialize (Hall _ Hin). cbn in Hall. split; [left; reflexivity|tauto].
Qed.

(* ... and therefore those of the same controller fed with the history restricted to v *)
Theorem ctrl_run_independence r K v t0 tmax calls :
  guard r v t0 tmax -> fits r K calls -> calls_ok t0 tmax calls -> In v K ->
  decs_for v calls (snd (ctrl_run r metric0 calls)) = snd (ctrl_run r metric0 (only v calls)).
Proof.
  intros Hg Hf Hok Hv.
  destruct (ctrl_run_bucket r K v t0 tmax calls Hg Hf Hok) as [H1 _].
  destruct (ctrl_run_bucket r [v] v t0 tmax (only v calls) Hg (fits_only _ _ _ _ Hf Hv)
              (calls_ok_only v calls _ _ Hok)) as [H2 _].
  cbn zeta in *. rewrite proj_only in H2. rewrite H1, <- H2.
  apply decs_for_only. apply ctrl_run_length.
Qed.

(* a value with a non-positive threshold is always refused, whatever else happens *)
Lemma ctrl_run_nonpositive r v calls : forall m, tok_count r v <= 0 ->
  Forall (fun d => d = DBlock None) (decs_for v calls (snd (ctrl_run r m calls))).
Proof.
  induction calls as [|[[now k] b] rest IH]; intros m HT; [constructor|].
  cbn [ctrl_run]. destruct (reject_check r m now k b) as [m1 d] eqn:E.
  specialize (IH m1 HT). destruct (ctrl_run r m1 rest) as [m2 ds]. cbn [snd decs_for] in *.
  destruct (k =? v) eqn:Ek; [|exact IH]. constructor; [|exact IH].
  assert (k = v) by lia. subst k. unfold reject_check in E.
  destruct (tok_count r v <=? 0) eqn:ET; [|lia]. now inversion E.
Qed.

(* ---- envelopes, idle grant, token range ----------------------------------------------------- *)

Definition is_pass (d : dec) : bool := match d with DPass => true | _ => false end.

Lemma is_pass_dec_of l : map is_pass (map dec_of l) = l.
Proof. induction l as [|a l IH]; [reflexivity|]. cbn [map]. rewrite IH. now destruct a. Qed.

Lemma times_ok_proj v calls : forall t tmax, calls_ok t tmax calls -> times_ok t (proj v calls).
Proof.
  induction calls as [|[[now k] b] rest IH]; intros t tmax H; [exact I|].
  cbn [calls_ok] in H. destruct H as [H1 [H2 H3]]. cbn [proj]. destruct (k =? v).
  - cbn [times_ok]. repeat split; try lia. eapply IH; eauto.
  - eapply IH. eapply calls_ok_weaken; [|exact H3]. lia.
Qed.

(* the admission flags of v's requests *)
Definition adm_of (v : Z) (calls : list (Z * Z * Z)) (ds : list dec) : list bool :=
  map is_pass (decs_for v calls ds).

Lemma adm_of_bucket r K v t0 tmax calls :
  guard r v t0 tmax -> fits r K calls -> calls_ok t0 tmax calls ->
  adm_of v calls (snd (ctrl_run r metric0 calls)) =
  snd (bucket_run (tok_count r v) (r_burst r) (r_dur r * 1000) None (proj v calls)).
Proof.
  intros Hg Hf Hok. destruct (ctrl_run_bucket r K v t0 tmax calls Hg Hf Hok) as [H _].
  unfold adm_of. cbn zeta in H. rewrite H. apply is_pass_dec_of.
Qed.

Theorem ctrl_envelope_total r K v t0 tmax calls :
  guard r v t0 tmax -> fits r K calls -> calls_ok t0 tmax calls -> 0 < tok_count r v ->
  let T := tok_count r v in let B := r_burst r in let D := r_dur r * 1000 in
  let adm := adm_of v calls (snd (ctrl_run r metric0 calls)) in
  D * (admitted_tokens (proj v calls) adm - (T + B)) <= T * (last_time t0 (proj v calls) - t0).
Proof.
  intros Hg Hf Hok HT T B D adm. subst adm. rewrite (adm_of_bucket r K v t0 tmax calls Hg Hf Hok).
  destruct Hg as [HB [_ [_ [HD _]]]].
  apply (bucket_envelope_total T B D HT HB (proj1 HD) t0). eapply times_ok_proj; eauto.
Qed.

(* the time v was first seen (t0 if it never was) *)
Definition first_seen (t0 : Z) (pc : list (Z * Z)) : Z :=
  match pc with [] => t0 | (t1, _) :: _ => t1 end.

Theorem ctrl_envelope_total_first r K v t0 tmax calls :
  guard r v t0 tmax -> fits r K calls -> calls_ok t0 tmax calls -> 0 < tok_count r v ->
  let T := tok_count r v in let B := r_burst r in let D := r_dur r * 1000 in
  let adm := adm_of v calls (snd (ctrl_run r metric0 calls)) in
  let t1 := first_seen t0 (proj v calls) in
  D * (admitted_tokens (proj v calls) adm - (T + B)) <= T * (last_time t1 (proj v calls) - t1).
Proof.
  intros Hg Hf Hok HT T B D adm t1. subst adm. rewrite (adm_of_bucket r K v t0 tmax calls Hg Hf Hok).
  pose proof (times_ok_proj v calls t0 tmax Hok) as Htimes.
  destruct Hg as [HB [_ [_ [HD _]]]]. fold T B D. fold B in HB. fold D in HD.
  assert (Ht1 : times_ok t1 (proj v calls)).
  { subst t1. destruct (proj v calls) as [|[n b] rest]; [exact I|]. cbn [first_seen times_ok] in *. 
    destruct Htimes as [_ [Hb Hr]]. repeat split; [lia|exact Hb|exact Hr]. }
  exact (bucket_envelope_total T B D HT HB (proj1 HD) t1 (proj v calls) Ht1).
Qed.

Theorem ctrl_envelope_window r K v t0 tmax calls lo hi :
  guard r v t0 tmax -> fits r K calls -> calls_ok t0 tmax calls -> 0 < tok_count r v ->
  hi - lo <= r_dur r * 1000 ->
  let adm := adm_of v calls (snd (ctrl_run r metric0 calls)) in
  admitted_in lo hi (proj v calls) adm <= 2 * (tok_count r v + r_burst r).
Proof.
  intros Hg Hf Hok HT Hwin adm. subst adm. rewrite (adm_of_bucket r K v t0 tmax calls Hg Hf Hok).
  destruct Hg as [HB [_ [_ [HD _]]]].
  apply (bucket_envelope_window _ _ _ HT HB (proj1 HD) lo hi Hwin t0). eapply times_ok_proj; eauto.
Qed.

Lemma ctrl_run_app r c1 : forall m c2,
  ctrl_run r m (c1 ++ c2) =
  let '(m1, d1) := ctrl_run r m c1 in let '(m2, d2) := ctrl_run r m1 c2 in (m2, d1 ++ d2).
Proof.
  induction c1 as [|[[now k] b] rest IH]; intros m c2.
  - cbn [app ctrl_run]. destruct (ctrl_run r m c2); reflexivity.
  - cbn [app ctrl_run]. destruct (reject_check r m now k b) as [m1 d]. rewrite IH.
    destruct (ctrl_run r m1 rest) as [m2 ds]. destruct (ctrl_run r m2 c2) as [m3 ds2]. reflexivity.
Qed.

Lemma calls_ok_app c1 : forall t tmax c2,
  calls_ok t tmax (c1 ++ c2) -> calls_ok t tmax c1.
Proof.
  induction c1 as [|[[now k] b] rest IH]; intros t tmax c2 H; [exact I|].
  cbn [app calls_ok] in *. destruct H as [H1 [H2 H3]]. repeat split; try lia. eapply IH; eauto.
Qed.

Lemma proj_app v c1 c2 : proj v (c1 ++ c2) = proj v c1 ++ proj v c2.
Proof.
  induction c1 as [|[[now k] b] rest IH]; [reflexivity|]. cbn [app proj].
  destruct (k =? v); [cbn [app]; now rewrite IH|exact IH].
Qed.

Lemma bucket_run_app T B D c1 : forall c c2,
  bucket_run T B D c (c1 ++ c2) =
  let '(x, l1) := bucket_run T B D c c1 in let '(y, l2) := bucket_run T B D x c2 in (y, l1 ++ l2).
Proof.
  induction c1 as [|[now b] rest IH]; intros c c2.
  - cbn [app bucket_run]. destruct (bucket_run T B D c c2); reflexivity.
  - cbn [app bucket_run]. destruct (bucket_step T B D c now b) as [x a]. rewrite IH.
    destruct (bucket_run T B D x rest) as [y l]. destruct (bucket_run T B D y c2); reflexivity.
Qed.

(* idle grant: a request for v with a batch up to the threshold, arriving more than one duration
   after the previous request for v (or as the first one), is admitted *)
Theorem ctrl_idle_grant r K v t0 tmax calls now b :
  guard r v t0 tmax -> fits r K (calls ++ [(now, v, b)]) -> calls_ok t0 tmax (calls ++ [(now, v, b)]) ->
  0 < tok_count r v -> b <= tok_count r v ->
  r_dur r * 1000 < now - last_time t0 (proj v calls) ->
  last (snd (ctrl_run r metric0 (calls ++ [(now, v, b)]))) DSpin = DPass.
Proof.
  intros Hg Hf Hok HT Hb Hidle.
  destruct (ctrl_run_bucket r K v t0 tmax _ Hg Hf Hok) as [H _]. cbn zeta in H.
  set (T := tok_count r v) in *. set (B := r_burst r) in *. set (D := r_dur r * 1000) in *.
  assert (Hb0 : 0 <= b).
  { clear - Hok. induction calls as [|[[n k] b'] rest IH]; cbn [app calls_ok] in Hok.
    - unfold batch_max in Hok. lia.
    - destruct Hok as [_ [_ Hok]]. revert Hok. generalize n. clear IH.
      induction rest as [|[[n2 k2] b2] r2 IHr]; intros n0 Hok; cbn [app calls_ok] in Hok.
      + unfold batch_max in Hok. lia.
      + destruct Hok as [_ [_ Hok]]. eapply IHr; eauto. }
  destruct Hg as [HB [_ [_ [HD _]]]].
  pose proof (bucket_idle_grant T B D t0 (proj v calls) now b HT HB (proj1 HD)
                (times_ok_proj v calls t0 tmax (calls_ok_app _ _ _ _ Hok)) Hidle ltac:(lia)) as Hgrant.
  rewrite proj_app in H. cbn [proj] in H. rewrite Z.eqb_refl in H.
  rewrite bucket_run_app in H.
  destruct (bucket_run T B D None (proj v calls)) as [x l1]. cbn [fst] in Hgrant.
  cbn [bucket_run] in H. destruct (bucket_step T B D x now b) as [y a]. cbn [snd] in Hgrant. subst a.
  cbn [snd] in H.
  rewrite ctrl_run_app in *. destruct (ctrl_run r metric0 calls) as [m1 d1] eqn:E1.
  cbn [ctrl_run] in *. destruct (reject_check r m1 now v b) as [m2 d] eqn:E2. cbn [snd] in *.
  rewrite last_last.
  (* the decisions for v of calls ++ [last] end with the last decision *)
  assert (Hlen : length d1 = length calls).
  { pose proof (ctrl_run_length r calls metric0) as Hl. rewrite E1 in Hl. exact Hl. }
  assert (Hdf : forall cs ds, length ds = length cs ->
            decs_for v (cs ++ [(now, v, b)]) (ds ++ [d]) = decs_for v cs ds ++ [d]).
  { induction cs as [|[[n k] b'] rest IH]; intros ds Hl.
    - destruct ds; [|discriminate]. cbn. now rewrite Z.eqb_refl.
    - destruct ds as [|d0 dr]; [discriminate|]. cbn [app decs_for].
      destruct (k =? v); [cbn [app]; f_equal|]; apply IH; cbn in Hl; lia. }
  rewrite (Hdf calls d1 Hlen) in H. rewrite map_app in H. cbn [map] in H.
  apply (f_equal (fun l => last l DSpin)) in H. rewrite !last_last in H. exact H.
Qed.

(* the tokens stored for v are within [0, threshold + burst] *)
Theorem ctrl_tokens_range r K v t0 tmax calls :
  guard r v t0 tmax -> fits r K calls -> calls_ok t0 tmax calls -> 0 < tok_count r v ->
  match alookup v (m_tok (fst (ctrl_run r metric0 calls))) with
  | Some tok => 0 <= tok <= tok_count r v + r_burst r
  | None => True
  end.
Proof.
  intros Hg Hf Hok HT.
  destruct (ctrl_run_bucket r K v t0 tmax calls Hg Hf Hok) as [_ Hc]. cbn zeta in Hc.
  destruct (ctrl_run_lockstep_any r calls metric0 ltac:(reflexivity)) as [Hl _].
  destruct Hg as [HB [_ [_ [HD _]]]].
  pose proof (bucket_run_range _ _ _ HT HB (proj1 HD) (proj v calls) t0
                (times_ok_proj v calls t0 tmax Hok)) as Hr.
  rewrite <- Hc in Hr. unfold cell in Hr.
  destruct (alookup v (m_tok (fst (ctrl_run r metric0 calls)))) as [tok|] eqn:Ek; [|exact I].
  destruct (alookup v (m_time (fst (ctrl_run r metric0 calls)))) as [last|] eqn:Et.
  - exact Hr.
  - apply (same_keys_lookup v _ _ Hl) in Et. congruence.
Qed.
