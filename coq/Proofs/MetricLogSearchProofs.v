(* C17, part 6: the searcher (position cache, idx scan, file loop) over the views of the files:
   it starts reading at the first retained group whose second is >= the begin second. *)
From SG Require Import Base.Prelude Base.GoInt Model.MLBytes Model.MLDecimal Model.MetricLog
  Model.MetricLogSpec Proofs.MLBytesProofs Proofs.MetricLogLineProofs Proofs.MetricLogBoundProofs
  Proofs.MetricLogWriterProofs Proofs.MetricLogViewProofs Proofs.MetricLogReadProofs.

(* ---------------------------------------------------------------- lists *)

Lemma nth_error_skipn {A} (l : list A) n i : nth_error (skipn n l) i = nth_error l (n + i).
Proof.
  revert l; induction n as [|n IH]; intros l; [reflexivity|]. destruct l as [|x r]; [destruct i; reflexivity|].
  cbn [skipn Nat.add nth_error]. apply IH.
Qed.

Lemma nth_error_firstn_some {A} (l : list A) n i x : nth_error (firstn n l) i = Some x ->
  (i < n)%nat /\ nth_error l i = Some x.
Proof.
  revert l i; induction n as [|n IH]; intros l i H; [destruct i; discriminate|].
  destruct l as [|y r]; [destruct i; discriminate|]. destruct i as [|i]; cbn [firstn nth_error] in *.
  - split; [lia|exact H].
  - destruct (IH _ _ H). split; [lia|assumption].
Qed.

Lemma firstn_skipn_swap {A} (l : list A) m n : firstn m (skipn n l) = skipn n (firstn (n + m) l).
Proof.
  revert l; induction n as [|n IH]; intros l; [reflexivity|]. destruct l as [|x r]; [rewrite firstn_nil; reflexivity|].
  cbn [skipn Nat.add firstn]. apply IH.
Qed.

Lemma In_firstn_le {A} (x : A) a b l : (a <= b)%nat -> In x (firstn a l) -> In x (firstn b l).
Proof.
  intros H Hin. replace a with (Nat.min a b) in Hin by lia. rewrite <- firstn_firstn in Hin.
  eapply In_firstn. exact Hin.
Qed.

Lemma Forall2_imp {A B} (R R' : A -> B -> Prop) l l' : (forall a b, R a b -> R' a b) -> Forall2 R l l' -> Forall2 R' l l'.
Proof. intros H. induction 1; constructor; auto. Qed.

Lemma Forall_app_l {A} (P : A -> Prop) a b : Forall P (a ++ b) -> Forall P a.
Proof. intros H. apply Forall_app in H. tauto. Qed.

Lemma Forall_app_r {A} (P : A -> Prop) a b : Forall P (a ++ b) -> Forall P b.
Proof. intros H. apply Forall_app in H. tauto. Qed.

Lemma Forall2_firstn {A B} (R : A -> B -> Prop) n l l' : Forall2 R l l' -> Forall2 R (firstn n l) (firstn n l').
Proof.
  revert l l'; induction n as [|n IH]; intros l l' H; [constructor|]. destruct H; [constructor|].
  cbn [firstn]. constructor; [assumption|]. apply IH. assumption.
Qed.

Lemma Forall2_nth_l {A B} (R : A -> B -> Prop) l l' i x : Forall2 R l l' -> nth_error l i = Some x ->
  exists y, nth_error l' i = Some y /\ R x y.
Proof.
  intros H. revert i. induction H as [|a b ra rb Hab Hr IH]; intros i Hn; [destruct i; discriminate|].
  destruct i as [|i]; cbn [nth_error] in *; [inversion Hn; subst; eauto|]. apply IH. exact Hn.
Qed.

Lemma inc_lt_app_inv a b : inc_lt (a ++ b) -> inc_lt a /\ inc_lt b /\ forall x y, In x a -> In y b -> x < y.
Proof.
  induction a as [|z r IH]; intros H; cbn [app inc_lt] in *.
  - repeat split; [exact H|]. intros x y [].
  - destruct H as [H1 H2]. destruct (IH H2) as (Ha & Hb & Hc). apply Forall_app in H1. destruct H1 as [H1a H1b].
    repeat split; try assumption. intros x y [<-|Hx] Hy.
    + rewrite Forall_forall in H1b. apply H1b. exact Hy.
    + apply Hc; assumption.
Qed.

Lemma inc_le_app_inv a b : inc_le (a ++ b) -> inc_le a /\ inc_le b /\ forall x y, In x a -> In y b -> x <= y.
Proof.
  induction a as [|z r IH]; intros H; cbn [app inc_le] in *.
  - repeat split; [exact H|]. intros x y [].
  - destruct H as [H1 H2]. destruct (IH H2) as (Ha & Hb & Hc). apply Forall_app in H1. destruct H1 as [H1a H1b].
    repeat split; try assumption. intros x y [<-|Hx] Hy.
    + rewrite Forall_forall in H1b. apply H1b. exact Hy.
    + apply Hc; assumption.
Qed.

Lemma inc_lt_le l : inc_lt l -> inc_le l.
Proof.
  induction l as [|x r IH]; intros H; [exact I|]. destruct H as [H1 H2]. split; [|apply IH; exact H2].
  eapply Forall_impl; [|exact H1]. cbn beta. intros; lia.
Qed.

(* ---------------------------------------------------------------- groups, seconds, items *)

Definition vg (v : view) : list group := fst (fst v).
Definition vsecs (v : view) : list Z := let '(gs, ki, _) := v in firstn ki (map fst gs).
Definition vg_lt (bsec : Z) (v : view) : Prop := Forall (fun s => s < bsec) (vsecs v).
Definition vfull (v : view) : Prop := let '(gs, ki, _) := v in (length gs <= ki)%nat.

Lemma item_group gs x : Forall group_ok gs -> In x (gitems gs) -> exists g, In g gs /\ sec_of x = fst g.
Proof.
  intros H Hx. unfold gitems in Hx. apply in_flat_map in Hx. destruct Hx as (g & Hg & Hx). exists g. split; [exact Hg|].
  rewrite Forall_forall in H. destruct (H g Hg) as (_ & _ & Hf). rewrite Forall_forall in Hf. apply Hf. exact Hx.
Qed.

Lemma vis_incl c its x : In x (vis_items c its) -> In x its.
Proof. rewrite vis_prefix. apply In_firstn. Qed.

Lemma items_lt gs bsec x : Forall group_ok gs -> Forall (fun s => s < bsec) (map fst gs) -> In x (gitems gs) ->
  sec_of x < bsec.
Proof.
  intros Hg Hl Hx. destruct (item_group gs x Hg Hx) as (g & Hin & ->). rewrite Forall_forall in Hl. apply Hl.
  apply in_map. exact Hin.
Qed.

Lemma firstn_vis_incl c gs j x : In x (firstn (length (gitems (firstn j gs))) (vis_items c (gitems gs))) ->
  In x (gitems (firstn j gs)).
Proof.
  intros H. rewrite vis_prefix, firstn_firstn in H. rewrite <- gitems_firstn_length.
  set (a := length (gitems (firstn j gs))) in *. set (b := length (vis_items c (gitems gs))) in *.
  destruct (Nat.le_gt_cases a b) as [Hab|Hab].
  - rewrite Nat.min_l in H by exact Hab. exact H.
  - rewrite Nat.min_r in H by lia. rewrite <- (firstn_skipn b (firstn a (gitems gs))).
    apply in_or_app. left. rewrite firstn_firstn, Nat.min_l by lia. exact H.
Qed.

Lemma skipn_vis_incl c gs j x : In x (skipn (length (gitems (firstn j gs))) (vis_items c (gitems gs))) ->
  In x (gitems (skipn j gs)).
Proof.
  intros H. rewrite <- gitems_skipn_length. rewrite vis_prefix in H.
  set (a := length (gitems (firstn j gs))) in *. set (b := length (vis_items c (gitems gs))) in *.
  rewrite <- (firstn_skipn b (gitems gs)). rewrite skipn_app. apply in_or_app. left. exact H.
Qed.

Lemma inc_lt_nth (gs : list group) j g : inc_lt (map fst gs) -> nth_error gs j = Some g ->
  Forall (fun s => s < fst g) (firstn j (map fst gs)) /\ Forall (fun s => fst g <= s) (skipn j (map fst gs)).
Proof.
  intros Hinc Hn. apply nth_error_split in Hn. destruct Hn as (a & b & -> & <-).
  rewrite map_app in *. cbn [map] in *. rewrite firstn_exact by apply map_length. rewrite skipn_exact by apply map_length.
  apply inc_lt_app_inv in Hinc. destruct Hinc as (_ & Hb & Hc). split.
  - apply Forall_forall. intros s Hs. apply Hc; [exact Hs|left; reflexivity].
  - constructor; [lia|]. destruct Hb as [Hb _]. eapply Forall_impl; [|exact Hb]. cbn beta. intros; lia.
Qed.

(* ---------------------------------------------------------------- the idx scan *)

Lemma scan_entries_spec es torn bsec : forall pos,
  (exists t s off, nth_error es t = Some (s, off) /\ bsec <= s /\
     Forall (fun e => fst e < bsec) (firstn t es) /\
     scan_entries es torn pos bsec = (Found s off, pos + 16 * Z.of_nat t)) \/
  (Forall (fun e => fst e < bsec) es /\
     exists r p, scan_entries es torn pos bsec = (r, p) /\ (r = NotFound \/ r = ScanErr)).
Proof.
  induction es as [|[s off] r IH]; intros pos; cbn [scan_entries].
  - right. split; [constructor|]. destruct torn; eauto.
  - destruct (s >=? bsec) eqn:E.
    + left. exists O, s, off. split; [reflexivity|]. split; [lia|]. split; [constructor|]. f_equal. lia.
    + destruct (IH (pos + 16)) as [(t & s' & off' & Hn & Hs & Hf & Hr)|(Hf & rr & p & Hr & Hk)].
      * left. exists (S t), s', off'. split; [exact Hn|]. split; [exact Hs|]. split.
        -- cbn [firstn]. constructor; [cbn [fst]; lia|exact Hf].
        -- rewrite Hr. f_equal. lia.
      * right. split; [constructor; [cbn [fst]; lia|exact Hf]|]. eauto.
Qed.

Lemma map_fst_entries_cut gs ki j0 t :
  map fst (firstn t (skipn j0 (firstn ki (entries gs 0)))) = firstn t (skipn j0 (firstn ki (map fst gs))).
Proof. rewrite <- firstn_map, <- skipn_map, <- firstn_map, entries_fst. reflexivity. Qed.

Lemma scan_view f gs ki c j0 bsec : SView f (gs, ki, c) ->
  let ss := skipn j0 (firstn ki (map fst gs)) in
  (exists t g, nth_error gs (j0 + t) = Some g /\ (j0 + t < ki)%nat /\ bsec <= fst g /\
     Forall (fun s => s < bsec) (firstn t ss) /\
     scan_idx (f_idx f) (16 * Z.of_nat j0) bsec =
       (Found (fst g) (lenZ (enc_lines (gitems (firstn (j0 + t) gs)))), 16 * Z.of_nat (j0 + t))) \/
  (Forall (fun s => s < bsec) ss /\
     exists r p, scan_idx (f_idx f) (16 * Z.of_nat j0) bsec = (r, p) /\ (r = NotFound \/ r = ScanErr)).
Proof.
  intros (V1 & _ & _). cbn zeta. unfold scan_idx. specialize (V1 j0).
  destruct (idx_entries (dropZ (16 * Z.of_nat j0) (f_idx f))) as [es torn]. cbn [fst] in V1. subst es.
  destruct (scan_entries_spec (skipn j0 (firstn ki (entries gs 0))) torn bsec (16 * Z.of_nat j0))
    as [(t & s & off & Hn & Hs & Hf & Hr)|(Hf & r & p & Hr & Hk)].
  - left. rewrite nth_error_skipn in Hn. apply nth_error_firstn_some in Hn. destruct Hn as [Hlt Hn].
    destruct (entries_nth _ _ _ _ Hn) as (g & Hg & Hfst & Hsnd). cbn [fst snd] in *. subst s off.
    exists t, g. split; [exact Hg|]. split; [exact Hlt|]. split; [exact Hs|]. split.
    + rewrite <- map_fst_entries_cut. apply Forall_map. exact Hf.
    + rewrite Hr. f_equal. lia.
  - right. split; [|eauto].
    assert (E : map fst (skipn j0 (firstn ki (entries gs 0))) = skipn j0 (firstn ki (map fst gs))).
    { rewrite <- skipn_map, <- firstn_map, entries_fst. reflexivity. }
    rewrite <- E. apply Forall_map. exact Hf.
Qed.

(* ---------------------------------------------------------------- the file loop *)

Lemma search_loop_spec bsec : forall rem vs, Forall2 SView rem vs -> forall j0 st,
  match snd (search_loop rem (16 * Z.of_nat j0) bsec st) with
  | None =>
      (fst (search_loop rem (16 * Z.of_nat j0) bsec st) = st \/
       s_name (fst (search_loop rem (16 * Z.of_nat j0) bsec st)) = None) /\
      match vs with
      | [] => True
      | (gs, ki, _) :: vr => Forall (fun s => s < bsec) (skipn j0 (firstn ki (map fst gs))) /\ Forall (vg_lt bsec) vr
      end
  | Some (rem', off) =>
      exists pre f post vpre gs ki c vpost jj g,
        rem = pre ++ f :: post /\ vs = vpre ++ (gs, ki, c) :: vpost /\
        Forall2 SView pre vpre /\ SView f (gs, ki, c) /\ Forall2 SView post vpost /\ rem' = f :: post /\
        nth_error gs jj = Some g /\ (jj < ki)%nat /\ bsec <= fst g /\
        off = lenZ (enc_lines (gitems (firstn jj gs))) /\
        fst (search_loop rem (16 * Z.of_nat j0) bsec st) = mkS (Some (f_day f, f_seq f)) (16 * Z.of_nat jj) (fst g) /\
        match vpre with
        | [] => (j0 <= jj)%nat /\ Forall (fun s => s < bsec) (skipn j0 (firstn jj (map fst gs)))
        | (gs0, ki0, _) :: vr =>
            Forall (fun s => s < bsec) (skipn j0 (firstn ki0 (map fst gs0))) /\ Forall (vg_lt bsec) vr /\
            Forall (fun s => s < bsec) (firstn jj (map fst gs))
        end
  end.
Proof.
  induction 1 as [|f [[gs ki] c] rem vs Hv HF IH]; intros j0 st; [cbn; tauto|].
  cbn [search_loop].
  destruct (scan_view f gs ki c j0 bsec Hv) as [(t & g & Hg & Hlt & Hs & Hf & Hr)|(Hf & r & p & Hr & Hk)]; cbn zeta in *.
  - rewrite Hr. pose proof (lenZ_nonneg (enc_lines (gitems (firstn (j0 + t) gs)))) as Hnn.
    replace (lenZ (enc_lines (gitems (firstn (j0 + t) gs))) >=? 0) with true by lia. cbn [fst snd].
    exists [], f, rem, [], gs, ki, c, vs, (j0 + t)%nat, g. cbn [app].
    repeat (split; [first [reflexivity|assumption|constructor]|]). split; [lia|].
    rewrite firstn_skipn_swap in Hf. rewrite firstn_firstn in Hf. rewrite Nat.min_l in Hf by lia. exact Hf.
  - rewrite Hr. specialize (IH O (mkS None p (s_sec st))). change (16 * Z.of_nat 0) with 0 in IH.
    assert (Eloop : (let '(res, pos) := (r, p) in
                     match res with
                     | Found sec off => let st' := mkS (Some (f_day f, f_seq f)) pos sec in
                                        if off >=? 0 then (st', Some (f :: rem, off)) else search_loop rem 0 bsec st'
                     | _ => search_loop rem 0 bsec (mkS None pos (s_sec st))
                     end) = search_loop rem 0 bsec (mkS None p (s_sec st))).
    { destruct Hk as [-> | ->]; reflexivity. }
    cbn zeta in Eloop. rewrite Eloop. clear Eloop.
    destruct (search_loop rem 0 bsec (mkS None p (s_sec st))) as [st' hit]. cbn [fst snd] in *.
    destruct hit as [[rem' off]|].
    + destruct IH as (pre & f' & post & vpre & gs' & ki' & c' & vpost & jj & g & E1 & E2 & F1 & F2 & F3 & E3 & Hn & Hlt & Hs & Eo & Est & Hm).
      exists (f :: pre), f', post, ((gs, ki, c) :: vpre), gs', ki', c', vpost, jj, g. cbn [app].
      split; [f_equal; exact E1|]. split; [f_equal; exact E2|]. split; [constructor; assumption|].
      repeat (split; [assumption|]).
      destruct vpre as [|[[gs0 ki0] c0] vr].
      * destruct Hm as [_ Hm]. split; [constructor|]. rewrite skipn_O in Hm. exact Hm.
      * destruct Hm as (Hm1 & Hm2 & Hm3). split; [|exact Hm3]. constructor; [|exact Hm2].
        unfold vg_lt, vsecs. rewrite skipn_O in Hm1. exact Hm1.
    + destruct IH as [IH1 IH2]. split.
      * right. destruct IH1 as [->|IH1]; [reflexivity|exact IH1].
      * split; [exact Hf|]. destruct vs as [|[[gs0 ki0] c0] vr]; [constructor|].
        destruct IH2 as [IH2 IH3]. constructor; [|exact IH3]. unfold vg_lt, vsecs. rewrite skipn_O in IH2. exact IH2.
Qed.

(* ---------------------------------------------------------------- the position cache *)

Lemma index_find d s : forall fs acc f, find (name_is d s) fs = Some f ->
  exists i, index_of_name d s fs acc = Some (acc + i)%nat /\ nth_error fs i = Some f /\ name_is d s f = true.
Proof.
  induction fs as [|x r IH]; intros acc f H; [discriminate|]. cbn [find index_of_name] in *.
  destruct (name_is d s x) eqn:E.
  - inversion H; subst. exists O. rewrite Nat.add_0_r. repeat split. exact E.
  - destruct (IH (S acc) f H) as (i & Hi & Hn & Hm). exists (S i). rewrite <- Nat.add_succ_comm. repeat split; assumption.
Qed.

Lemma older_groups n sec : forall (fs : list file) (vs : list view) i,
  Forall2 (fun n' gs => pair_lt n' n -> Forall (fun s => s < sec) (map fst gs)) (map nm fs) (map vg vs) ->
  (forall f, In f (firstn i fs) -> pair_lt (nm f) n) ->
  Forall (fun v => Forall (fun s => s < sec) (map fst (vg v))) (firstn i vs).
Proof.
  induction fs as [|f r IH]; intros vs i H Hlt; destruct vs as [|v vr]; inversion H; subst;
    try (rewrite firstn_nil; constructor).
  destruct i as [|i]; [constructor|]. cbn [firstn]. constructor.
  - match goal with Hx : pair_lt (nm f) n -> _ |- _ => apply Hx end. apply Hlt. left. reflexivity.
  - apply IH; [assumption|]. intros f' Hf'. apply Hlt. right. exact Hf'.
Qed.

Lemma sorted_before fs i f : names_sorted fs -> nth_error fs i = Some f ->
  forall f', In f' (firstn i fs) -> name_lt f' f.
Proof.
  intros Hs Hn f' Hf'. apply nth_error_split in Hn. destruct Hn as (a & b & -> & <-).
  rewrite firstn_exact in Hf' by reflexivity. eapply names_sorted_app_cross; [exact Hs|exact Hf'|left; reflexivity].
Qed.

Lemma offset_start_spec fs vs cur st bsec :
  names_sorted fs -> Forall2 SView fs vs -> Forall (fun v => gfile_ok (vg v)) vs ->
  CInv (map nm fs) (map vg vs) cur st ->
  exists j0 i0, offset_start fs st bsec = (16 * Z.of_nat j0, i0) /\
    Forall (fun v => Forall (fun s => s < bsec) (map fst (vg v))) (firstn i0 vs) /\
    match skipn i0 vs with
    | [] => True
    | v :: _ => Forall (fun s => s < bsec) (firstn j0 (map fst (vg v)))
    end.
Proof.
  intros Hs HF Hok HC. unfold offset_start.
  assert (Hdef : exists j0 i0, (0, O) = (16 * Z.of_nat j0, i0) /\
            Forall (fun v => Forall (fun s => s < bsec) (map fst (vg v))) (firstn i0 vs) /\
            match skipn i0 vs with [] => True | v :: _ => Forall (fun s => s < bsec) (firstn j0 (map fst (vg v))) end).
  { exists O, O. split; [reflexivity|]. split; [constructor|]. cbn [skipn]. destruct vs; [exact I|constructor]. }
  destruct (cache_ok fs st bsec) eqn:Ec; [|exact Hdef].
  unfold cache_ok in Ec. destruct (bsec <? s_sec st) eqn:Eb; [discriminate|].
  unfold CInv in HC. destruct (s_name st) as [[d s]|]; [|exact Hdef].
  destruct HC as (_ & [j Ej] & HC). destruct (find (name_is d s) fs) as [f|] eqn:Efind; [|discriminate].
  destruct (index_find d s fs O f Efind) as (i & Hi & Hn & Hname). rewrite Hi. cbn [Nat.add].
  destruct (Forall2_nth_l _ _ _ _ _ HF Hn) as ([[gs ki] c] & Hvn & Hview).
  rewrite Ej in *. destruct Hview as (_ & _ & V3). specialize (V3 j).
  destruct (length (firstn 8 (dropZ (16 * Z.of_nat j) (f_idx f))) <? 8)%nat eqn:El; [discriminate|].
  assert (Hl8 : length (firstn 8 (dropZ (16 * Z.of_nat j) (f_idx f))) = 8%nat).
  { apply Nat.ltb_ge in El. pose proof (firstn_le_length 8 (dropZ (16 * Z.of_nat j) (f_idx f))). lia. }
  destruct (V3 Hl8) as (g & Hg & Hde). rewrite Hde in Ec.
  assert (Esec : fst g = s_sec st) by lia.
  exists j, i. split; [reflexivity|]. split.
  - assert (Hn' : (d, s) = nm f). { unfold name_is in Hname. unfold nm. f_equal; lia. }
    pose proof (older_groups (d, s) (s_sec st) fs vs i HC) as Hold.
    eapply Forall_impl; [|apply Hold].
    + cbn beta. intros v Hv. eapply Forall_impl; [|exact Hv]. cbn beta. intros; lia.
    + intros f' Hf'. rewrite Hn'. apply name_lt_pair. eapply sorted_before; eassumption.
  - pose proof (nth_error_split vs i Hvn) as (a & b & Evs & Ea). rewrite Evs, <- Ea, skipn_exact by reflexivity.
    cbn [vg fst]. rewrite Forall_forall in Hok. assert (Hgok : gfile_ok gs).
    { apply (Hok (gs, ki, c)). eapply nth_error_In. exact Hvn. }
    destruct Hgok as (_ & Hinc & _). destruct (inc_lt_nth gs j g Hinc Hg) as [Hlt _].
    eapply Forall_impl; [|exact Hlt]. cbn beta. intros; lia.
Qed.

(* ---------------------------------------------------------------- the whole search *)

Lemma older_all n sec (l : list file) (vl : list view) : Forall2 (fun _ _ => True) l vl ->
  Forall (fun v => Forall (fun s => s < sec) (map fst (vg v))) vl ->
  Forall2 (cache_rel n sec) (map nm l) (map vg vl).
Proof.
  induction 1 as [|a b ra rb _ _ IH]; intros H; [constructor|]. inversion H; subst. cbn [map].
  constructor; [intros _; assumption|apply IH; assumption].
Qed.

Lemma newer_none n sec (l : list file) (vl : list view) : Forall2 (fun _ _ => True) l vl ->
  Forall (fun f => ~ pair_lt (nm f) n) l -> Forall2 (cache_rel n sec) (map nm l) (map vg vl).
Proof.
  induction 1 as [|a b ra rb _ _ IH]; intros H; [constructor|]. inversion H; subst. cbn [map].
  constructor; [intros Hlt; tauto|apply IH; assumption].
Qed.

Definition reader (q : query) (Xs : list (list item)) : list item :=
  match q with
  | QRange b e res => rbe_lists Xs (b / 1000) (e / 1000) res 0
  | QFrom _ m => rm_lists Xs m
  end.

Record SearchCtx (fs : list file) (vs : list view) (cur : Z * Z) (st : sstate) : Prop := mkCtx {
  sc_sorted : names_sorted fs;
  sc_views : Forall2 SView fs vs;
  sc_ok : Forall (fun v => gfile_ok (vg v)) vs;
  sc_le : inc_le (allsecs (map vg vs));
  sc_cache : CInv (map nm fs) (map vg vs) cur st;
  sc_full : exists vinit vlast, vs = vinit ++ [vlast] /\ Forall vfull vinit;
  sc_cur : Forall (fun f => ~ pair_lt cur (nm f)) fs
}.

Lemma prefix_of_init {A} (vinit : list A) vlast : forall vpre v vpost,
  vinit ++ [vlast] = vpre ++ v :: vpost -> exists rest, vinit = vpre ++ rest.
Proof.
  induction vinit as [|x r IH]; intros vpre v vpost E.
  - destruct vpre as [|y vpre]; [exists []; reflexivity|]. cbn in E. inversion E. destruct vpre; discriminate.
  - destruct vpre as [|y vpre]; [exists (x :: r); reflexivity|]. cbn [app] in E. inversion E; subst.
    destruct (IH _ _ _ H1) as [rest ->]. exists rest. reflexivity.
Qed.

Lemma vfull_secs v : vfull v -> vsecs v = map fst (vg v).
Proof. destruct v as [[gs ki] c]. unfold vfull, vsecs, vg. cbn [fst]. intros H. apply firstn_all2. rewrite map_length. exact H. Qed.

Lemma vitems_lt bsec v x : gfile_ok (vg v) -> Forall (fun s => s < bsec) (map fst (vg v)) -> In x (vitems v) -> sec_of x < bsec.
Proof.
  destruct v as [[gs ki] c]. unfold vg, vitems. cbn [fst]. intros (Hg & _) Hl Hx. apply vis_incl in Hx.
  eapply items_lt; eassumption.
Qed.

Lemma reads0_views post vpost : Forall2 SView post vpost -> reads0 post = map vitems vpost.
Proof.
  induction 1 as [|f [[gs ki] c] r vr Hv _ IH]; [reflexivity|]. cbn [reads0 map]. fold (reads0 r). rewrite IH. f_equal.
  destruct Hv as (_ & V2 & _). specialize (V2 O ltac:(lia)). cbn [firstn gitems flat_map enc_lines length skipn] in V2.
  exact V2.
Qed.

Lemma allsecs_in G gs s : In gs G -> In s (map fst gs) -> In s (allsecs G).
Proof. intros H1 H2. unfold allsecs. apply in_flat_map. exists gs. split; assumption. Qed.

Lemma flat_vitems_in vs x : In x (flat_map vitems vs) -> exists v, In v vs /\ In x (vitems v).
Proof. intros H. apply in_flat_map in H. exact H. Qed.

Theorem search_spec fs vs cur st q : SearchCtx fs vs cur st ->
  let bsec := q_begin q / 1000 in
  CInv (map nm fs) (map vg vs) cur (fst (search fs st q)) /\
  ((exists B Xs, flat_map vitems vs = B ++ concat Xs /\ (forall x, In x B -> sec_of x < bsec) /\
      (forall x, In x (concat Xs) -> bsec <= sec_of x) /\ snd (search fs st q) = reader q Xs) \/
   (snd (search fs st q) = [] /\ Forall (vg_lt bsec) vs)).
Proof.
  intros [Hs HF Hok Hle HC (vinit & vlast & Evs & Hfull) Hcur]. cbn zeta. set (bsec := q_begin q / 1000).
  unfold search. rewrite (sort_sorted _ Hs). fold bsec.
  destruct (offset_start_spec fs vs cur st bsec Hs HF Hok HC) as (j0 & i0 & Eo & Hskip & Hhead). rewrite Eo.
  pose proof (search_loop_spec bsec (skipn i0 fs) (skipn i0 vs) (Forall2_skipn _ i0 _ _ HF) j0 st) as HL.
  destruct (search_loop (skipn i0 fs) (16 * Z.of_nat j0) bsec st) as [st' hit]. cbn [fst snd] in HL.
  assert (Hskip_lt : Forall (vg_lt bsec) (firstn i0 vs)).
  { eapply Forall_impl; [|exact Hskip]. intros [[gs ki] c] Hv. unfold vg_lt, vsecs. unfold vg in Hv. cbn [fst] in Hv.
    apply Forall_forall. intros s Hin. rewrite Forall_forall in Hv. apply Hv. eapply In_firstn. exact Hin. }
  destruct hit as [[rem' off]|].
  - (* a start position was found *)
    destruct HL as (pre & f & post & vpre & gs & ki & c & vpost & jj & g & E1 & E2 & F1 & F2 & F3 & E3 & Hn & Hlt & Hb & Eoff & Est & Hm).
    subst rem' off st'. cbn [fst snd].
    set (VP := firstn i0 vs ++ vpre).
    assert (EV : vs = VP ++ (gs, ki, c) :: vpost).
    { unfold VP. rewrite <- app_assoc. etransitivity; [symmetry; apply (firstn_skipn i0)|]. f_equal. exact E2. }
    assert (EF : fs = (firstn i0 fs ++ pre) ++ f :: post).
    { rewrite <- app_assoc. etransitivity; [symmetry; apply (firstn_skipn i0)|]. f_equal. exact E1. }
    (* every visible second before the start is before bsec *)
    assert (HVP : Forall (vg_lt bsec) VP /\ Forall (fun s => s < bsec) (firstn jj (map fst gs))).
    { unfold VP. destruct vpre as [|[[gs0 ki0] c0] vr].
      - destruct Hm as [Hj Hm]. rewrite app_nil_r. split; [exact Hskip_lt|].
        cbn [app] in E2. rewrite E2 in Hhead. cbn [vg fst] in Hhead.
        rewrite <- (firstn_skipn j0 (firstn jj (map fst gs))). apply Forall_app. split; [|exact Hm].
        rewrite firstn_firstn, Nat.min_l by lia. exact Hhead.
      - destruct Hm as (Hm1 & Hm2 & Hm3). split; [|exact Hm3]. apply Forall_app. split; [exact Hskip_lt|].
        constructor; [|exact Hm2]. cbn [app] in E2. rewrite E2 in Hhead. cbn [vg fst] in Hhead.
        unfold vg_lt, vsecs. rewrite <- (firstn_skipn j0 (firstn ki0 (map fst gs0))). apply Forall_app. split; [|exact Hm1].
        apply Forall_forall. intros s Hin. rewrite firstn_firstn in Hin.
        rewrite Forall_forall in Hhead. apply Hhead. eapply In_firstn_le; [|exact Hin]. lia. }
    destruct HVP as [HVP Hjj].
    (* the files before the start are completely visible *)
    assert (HVPfull : Forall vfull VP).
    { pose proof EV as EV'. rewrite Evs in EV'. destruct (prefix_of_init _ _ _ _ _ EV') as [rest Erest].
      rewrite Erest in Hfull. eapply Forall_app_l. exact Hfull. }
    assert (HVPall : Forall (fun v => Forall (fun s => s < bsec) (map fst (vg v))) VP).
    { apply Forall_forall. intros v Hv. rewrite Forall_forall in HVP, HVPfull.
      rewrite <- vfull_secs by (apply HVPfull; exact Hv). apply HVP. exact Hv. }
    assert (Hok' := Hok). rewrite EV in Hok'. apply Forall_app in Hok'. destruct Hok' as [HokP HokQ].
    apply Forall_cons_iff in HokQ. destruct HokQ as [Hokv HokQ']. cbn [vg fst] in Hokv. destruct Hokv as (Hgok & Hinc & Hsz).
    destruct (inc_lt_nth gs jj g Hinc Hn) as [_ Hafter].
    split.
    + (* the new cache *)
      unfold CInv. cbn [s_name s_off s_sec]. split; [|split].
      * rewrite Forall_forall in Hcur. apply (Hcur f). rewrite EF. apply in_or_app. right. left. reflexivity.
      * exists jj. reflexivity.
      * fold (cache_rel (f_day f, f_seq f) (fst g)).
        assert (Hgoal : Forall2 (cache_rel (nm f) (fst g)) (map nm ((firstn i0 fs ++ pre) ++ f :: post))
                                (map vg (VP ++ (gs, ki, c) :: vpost))).
        { rewrite (map_app nm (firstn i0 fs ++ pre)), (map_app vg VP). apply Forall2_app.
          - apply older_all.
            + unfold VP. apply Forall2_app; [|eapply Forall2_imp; [|exact F1]; tauto].
              eapply Forall2_imp; [|apply Forall2_firstn; exact HF]. tauto.
            + eapply Forall_impl; [|exact HVPall]. cbn beta. intros v Hv. eapply Forall_impl; [|exact Hv].
              cbn beta. intros; lia.
          - apply newer_none.
            + constructor; [exact I|]. eapply Forall2_imp; [|exact F3]. tauto.
            + rewrite EF in Hs. assert (Hs2 : names_sorted (f :: post)).
              { clear - Hs. induction (firstn i0 fs ++ pre) as [|a l IH]; [exact Hs|]. apply IH. destruct Hs; assumption. }
              constructor; [unfold pair_lt; lia|]. destruct Hs2 as [Hs2 _]. eapply Forall_impl; [|exact Hs2].
              cbn beta. intros f' Hf' Hlt'. apply name_lt_pair in Hlt'. apply name_lt_asym in Hlt'.
              unfold name_lt in Hf'. congruence. }
        rewrite <- EF, <- EV in Hgoal. exact Hgoal.
    + left. exists (flat_map vitems VP ++ firstn (length (gitems (firstn jj gs))) (vitems (gs, ki, c))).
      exists (skipn (length (gitems (firstn jj gs))) (vitems (gs, ki, c)) :: map vitems vpost).
      split; [|split; [|split]].
      * rewrite EV, flat_map_app. cbn [flat_map concat]. rewrite <- app_assoc. f_equal.
        rewrite app_assoc, firstn_skipn. f_equal. rewrite flat_map_concat_map. reflexivity.
      * intros x Hx. apply in_app_or in Hx. destruct Hx as [Hx|Hx].
        -- destruct (flat_vitems_in _ _ Hx) as (v & Hv & Hxv). rewrite Forall_forall in HVPall, HokP.
           eapply vitems_lt; [apply HokP; exact Hv|apply HVPall; exact Hv|exact Hxv].
        -- unfold vitems in Hx. apply firstn_vis_incl in Hx.
           eapply items_lt; [apply Forall_firstn; exact Hgok| |exact Hx]. rewrite <- firstn_map. exact Hjj.
      * intros x Hx. cbn [concat] in Hx. apply in_app_or in Hx. destruct Hx as [Hx|Hx].
        -- unfold vitems in Hx. apply skipn_vis_incl in Hx.
           destruct (item_group _ x (Forall_skipn _ jj _ Hgok) Hx) as (g' & Hg' & ->).
           rewrite Forall_forall in Hafter. assert (fst g <= fst g'); [|lia]. apply Hafter. rewrite skipn_map.
           apply in_map. exact Hg'.
        -- rewrite <- flat_map_concat_map in Hx. destruct (flat_vitems_in _ _ Hx) as (v & Hv & Hxv).
           destruct v as [[gs' ki'] c']. unfold vitems in Hxv. apply vis_incl in Hxv.
           rewrite Forall_forall in HokQ'. destruct (HokQ' _ Hv) as (Hgok' & _). cbn [vg fst] in Hgok'.
           destruct (item_group _ x Hgok' Hxv) as (g' & Hg' & ->).
           rewrite EV, map_app, allsecs_app in Hle. apply inc_le_app_inv in Hle. destruct Hle as (_ & Hle & _).
           cbn [map] in Hle. change (allsecs (vg (gs, ki, c) :: map vg vpost)) with (map fst gs ++ allsecs (map vg vpost)) in Hle.
           apply inc_le_app_inv in Hle. destruct Hle as (_ & _ & Hle).
           assert (fst g <= fst g'); [|lia]. apply Hle.
           ++ apply in_map. eapply nth_error_In. exact Hn.
           ++ eapply allsecs_in; [apply in_map; exact Hv|]. cbn [vg fst]. apply in_map. exact Hg'.
      * assert (Er : reads (f :: post) (lenZ (enc_lines (gitems (firstn jj gs)))) =
                     skipn (length (gitems (firstn jj gs))) (vitems (gs, ki, c)) :: map vitems vpost).
        { cbn [reads]. rewrite (reads0_views _ _ F3). f_equal. destruct F2 as (_ & V2 & _). apply V2.
          assert (jj < length gs)%nat by (apply nth_error_Some; congruence). lia. }
        destruct q as [b e res|b m]; cbn [reader].
        -- rewrite rbe_files_lists, Er. reflexivity.
        -- rewrite rm_files_lists, Er. reflexivity.
  - (* no start position: every visible second is before bsec *)
    destruct HL as [Hst Hvis]. cbn [fst snd]. split.
    + destruct Hst as [->|Hst]; [exact HC|]. unfold CInv. rewrite Hst. exact I.
    + right. split; [reflexivity|]. rewrite <- (firstn_skipn i0 vs). apply Forall_app. split; [exact Hskip_lt|].
      destruct (skipn i0 vs) as [|[[gs ki] c] vr]; [constructor|]. destruct Hvis as [Hv1 Hv2].
      constructor; [|exact Hv2]. unfold vg_lt, vsecs. cbn [vg fst] in Hhead.
      rewrite <- (firstn_skipn j0 (firstn ki (map fst gs))). apply Forall_app. split; [|exact Hv1].
      apply Forall_forall. intros s Hin. rewrite firstn_firstn in Hin.
      rewrite Forall_forall in Hhead. apply Hhead. eapply In_firstn_le; [|exact Hin]. lia.
Qed.
