(* Memory-adaptive calculator: exact facts about the float model at and beyond the water
   marks, and the envelope / monotonicity of its exact-rational twin. *)
From Coq Require Import Floats.
From SG Require Import Base.Prelude Base.GoInt Base.GoFloat Model.Adaptive.
#[local] Open Scope Z_scope.

Lemma mem_low m mem : mem <= lowW m -> mem_allowed m mem = f_of_i64 (lowT m).
Proof.
  intro H. unfold mem_allowed. destruct (mem =? not_retrieved); [reflexivity|].
  destruct (mem <=? lowW m) eqn:E; [reflexivity|lia].
Qed.

Lemma mem_not_retrieved m : mem_allowed m not_retrieved = f_of_i64 (lowT m).
Proof. unfold mem_allowed. rewrite Z.eqb_refl. reflexivity. Qed.

Lemma mem_high m mem : 0 < lowW m -> lowW m < highW m -> highW m <= mem ->
  mem_allowed m mem = f_of_i64 (highT m).
Proof.
  intros H0 H1 H2. unfold mem_allowed, not_retrieved.
  destruct (mem =? -1) eqn:E0; [lia|].
  destruct (mem <=? lowW m) eqn:E1; [lia|].
  destruct (mem >=? highW m) eqn:E2; [reflexivity|lia].
Qed.

Definition mok (m : mcfg) : Prop :=
  0 < highT m /\ highT m < lowT m /\ 0 < lowW m /\ lowW m < highW m.

Lemma mvalid_mok total m : mvalid total m = true -> mok m.
Proof. unfold mvalid, mok. intro H. repeat (apply andb_prop in H as [H ?]). lia. Qed.

(* envelope of the twin: highT <= n/d <= lowT, d > 0 *)
Lemma twin_between m mem : mok m -> -1 <= mem ->
  let '(n, d) := mem_twin m mem in 0 < d /\ highT m * d <= n /\ n <= lowT m * d.
Proof.
  intros (H1 & H2 & H3 & H4) Hm. unfold mem_twin, not_retrieved.
  destruct (mem =? -1); [lia|].
  destruct (mem <=? lowW m) eqn:E1; [lia|].
  destruct (mem >=? highW m) eqn:E2; [lia|].
  repeat split; nia.
Qed.

(* strictly inside the marks the twin is strictly inside the envelope *)
Lemma twin_strict m mem : mok m -> lowW m < mem < highW m ->
  let '(n, d) := mem_twin m mem in highT m * d < n /\ n < lowT m * d.
Proof.
  intros (H1 & H2 & H3 & H4) Hm. unfold mem_twin, not_retrieved.
  destruct (mem =? -1) eqn:E0; [lia|].
  destruct (mem <=? lowW m) eqn:E1; [lia|].
  destruct (mem >=? highW m) eqn:E2; [lia|].
  split; nia.
Qed.

(* the twin is non-increasing in the memory reading *)
Lemma twin_monotone m mem1 mem2 : mok m -> 0 <= mem1 <= mem2 ->
  let '(n1, d1) := mem_twin m mem1 in let '(n2, d2) := mem_twin m mem2 in
  n2 * d1 <= n1 * d2.
Proof.
  intros (H1 & H2 & H3 & H4) Hm. unfold mem_twin, not_retrieved.
  destruct (mem1 =? -1) eqn:A0; [lia|]. destruct (mem2 =? -1) eqn:B0; [lia|].
  set (W := highW m - lowW m) in *. set (dT := lowT m - highT m) in *.
  assert (HW : 0 < W) by (unfold W; lia). assert (HdT : 0 < dT) by (unfold dT; lia).
  destruct (mem1 <=? lowW m) eqn:A1; destruct (mem2 <=? lowW m) eqn:B1; try lia.
  - (* mem1 at/below the low mark, mem2 above *)
    destruct (mem2 >=? highW m) eqn:B2; [lia|].
    replace (highT m - lowT m) with (- dT) by (unfold dT; lia).
    assert (0 <= dT * (mem2 - lowW m)) by nia. nia.
  - destruct (mem1 >=? highW m) eqn:A2; destruct (mem2 >=? highW m) eqn:B2; try lia.
    + (* mem1 inside, mem2 at/above the high mark *)
      replace (highT m - lowT m) with (- dT) by (unfold dT; lia).
      assert (mem1 - lowW m <= W) by (unfold W; lia).
      assert (dT * (mem1 - lowW m) <= dT * W) by nia.
      replace (lowT m) with (highT m + dT) by (unfold dT; lia). nia.
    + (* both inside *)
      replace (highT m - lowT m) with (- dT) by (unfold dT; lia).
      assert (dT * (mem1 - lowW m) <= dT * (mem2 - lowW m)) by nia. nia.
Qed.
