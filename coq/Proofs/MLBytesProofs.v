(* Lemmas about the byte-string helpers and the decimal conversions of the metric log model. *)
From SG Require Import Base.Prelude Base.GoInt Model.MLBytes Model.MLDecimal.

(* ------------------------------------------------------------------ split_on / lines *)

Lemma split_on_nonempty sep l : split_on sep l <> [].
Proof.
  destruct l as [|c r]; cbn [split_on]; [discriminate|].
  destruct (c =? sep); [discriminate|]. destruct (split_on sep r); discriminate.
Qed.

Lemma split_on_nosep sep a : ~ In sep a -> split_on sep a = [a].
Proof.
  induction a as [|c r IH]; intros H; cbn [split_on]; [reflexivity|].
  destruct (c =? sep) eqn:E.
  - exfalso. apply H. left. lia.
  - rewrite IH; [reflexivity|]. intros Hin. apply H. right. exact Hin.
Qed.

Lemma split_on_app sep a b : ~ In sep a -> split_on sep (a ++ sep :: b) = a :: split_on sep b.
Proof.
  induction a as [|c r IH]; intros H; cbn [split_on app].
  - rewrite Z.eqb_refl. reflexivity.
  - destruct (c =? sep) eqn:E.
    + exfalso. apply H. left. lia.
    + rewrite IH; [reflexivity|]. intros Hin. apply H. right. exact Hin.
Qed.

Lemma removelast_cons2 {A} (x : A) l : l <> [] -> removelast (x :: l) = x :: removelast l.
Proof. destruct l; [congruence|reflexivity]. Qed.

Lemma lines_app a b : ~ In 10 a -> lines (a ++ 10 :: b) = a :: lines b.
Proof.
  intros H. unfold lines. rewrite split_on_app by exact H.
  apply removelast_cons2. apply split_on_nonempty.
Qed.

Lemma lines_nolf a : ~ In 10 a -> lines a = [].
Proof. intros H. unfold lines. rewrite split_on_nosep by exact H. reflexivity. Qed.

Lemma strip_cr_cons2 x y r : strip_cr (x :: y :: r) = x :: strip_cr (y :: r).
Proof. reflexivity. Qed.

Lemma strip_cr_snoc a c : c <> 13 -> strip_cr (a ++ [c]) = a ++ [c].
Proof.
  intros Hc. induction a as [|x r IH].
  - cbn. destruct (c =? 13) eqn:E; [lia|reflexivity].
  - destruct r as [|y r'].
    + change (([x] ++ [c])) with (x :: [c]). rewrite strip_cr_cons2. f_equal. exact IH.
    + change ((x :: y :: r') ++ [c]) with (x :: y :: (r' ++ [c])). rewrite strip_cr_cons2. f_equal. exact IH.
Qed.

(* ------------------------------------------------------------------ big-endian *)

Lemma be_length n x : length (be n x) = n.
Proof. revert x; induction n as [|n IH]; intros x; cbn [be]; [reflexivity|]. rewrite app_length, IH. cbn. lia. Qed.

Lemma de_snoc l b : de (l ++ [b]) = de l * 256 + b.
Proof. unfold de. rewrite fold_left_app. reflexivity. Qed.

Lemma de_be n x : 0 <= x -> de (be n x) = x mod 256 ^ Z.of_nat n.
Proof.
  revert x; induction n as [|n IH]; intros x Hx.
  - cbn. rewrite Z.mod_1_r. reflexivity.
  - cbn [be]. rewrite de_snoc, IH by (apply Z.div_pos; lia).
    rewrite Nat2Z.inj_succ, Z.pow_succ_r by lia.
    rewrite Z.rem_mul_r; [lia | lia | apply Z.pow_pos_nonneg; lia].
Qed.

Lemma de64u_be64 x : 0 <= x < two64 -> de64u (be64 x) = x.
Proof.
  intros H. unfold de64u, be64. rewrite de_be by lia.
  change (256 ^ Z.of_nat 8) with 18446744073709551616.
  apply Z.mod_small. Transparent two64. unfold two64 in H. Opaque two64. lia.
Qed.

Lemma de64s_be64 x : 0 <= x < two63 -> de64s (be64 x) = x.
Proof.
  intros H. unfold de64s, be64. rewrite de_be by lia.
  change (256 ^ Z.of_nat 8) with 18446744073709551616.
  Transparent two63 two64. unfold two63 in H.
  rewrite Z.mod_small by lia. apply i64_id. unfold in_i64, two63. lia.
  Opaque two63 two64.
Qed.

(* ------------------------------------------------------------------ decimal *)

Lemma pd_snoc a l c : is_digit c = true ->
  pd a (l ++ [c]) = match pd a l with Some v => Some (v * 10 + (c - 48)) | None => None end.
Proof.
  intros Hc. revert a; induction l as [|x r IH]; intros a; cbn [app pd].
  - rewrite Hc. reflexivity.
  - destruct (is_digit x); [apply IH|reflexivity].
Qed.

Lemma pr_dec_ok fuel : forall n, 0 <= n < 10 ^ Z.of_nat (S fuel) ->
  pd 0 (pr_dec (S fuel) n) = Some n /\ Forall (fun c => is_digit c = true) (pr_dec (S fuel) n) /\
  exists p d, pr_dec (S fuel) n = p ++ [d] /\ is_digit d = true.
Proof.
  induction fuel as [|f IH]; intros n Hn.
  - change (10 ^ Z.of_nat 1) with 10 in Hn. cbn [pr_dec].
    assert (n <? 10 = true) as -> by lia.
    assert (Hd : is_digit (48 + n) = true) by (unfold is_digit; lia).
    split; [|split].
    + cbn [pd]. rewrite Hd. f_equal. lia.
    + constructor; [exact Hd|constructor].
    + exists [], (48 + n). split; [reflexivity|exact Hd].
  - remember (S f) as f1. cbn [pr_dec]. destruct (n <? 10) eqn:E.
    + assert (Hd : is_digit (48 + n) = true) by (unfold is_digit; lia).
      split; [|split].
      * cbn [pd]. rewrite Hd. f_equal. lia.
      * constructor; [exact Hd|constructor].
      * exists [], (48 + n). split; [reflexivity|exact Hd].
    + assert (Hq : 0 <= n / 10 < 10 ^ Z.of_nat f1).
      { rewrite Nat2Z.inj_succ, Z.pow_succ_r in Hn by lia. split; [apply Z.div_pos; lia|].
        apply Z.div_lt_upper_bound; lia. }
      destruct (IH _ Hq) as (H1 & H2 & _).
      assert (Hd : is_digit (48 + n mod 10) = true) by (unfold is_digit; lia).
      split; [|split].
      * rewrite pd_snoc by exact Hd. rewrite H1. f_equal. lia.
      * apply Forall_app. split; [exact H2|]. constructor; [exact Hd|constructor].
      * exists (pr_dec f1 (n / 10)), (48 + n mod 10). split; [reflexivity|exact Hd].
Qed.

Definition dec_bound : Z := 100000000000000000000.   (* 10^20 *)

Lemma print_uint_ok n : 0 <= n < dec_bound ->
  pd 0 (print_uint n) = Some n /\ Forall (fun c => is_digit c = true) (print_uint n) /\
  exists p d, print_uint n = p ++ [d] /\ is_digit d = true.
Proof. intros H. apply (pr_dec_ok 19). change (10 ^ Z.of_nat 20) with dec_bound. exact H. Qed.

Lemma print_uint_nonempty n : 0 <= n < dec_bound -> print_uint n <> [].
Proof. intros H. destruct (print_uint_ok n H) as (_ & _ & p & d & E & _). rewrite E. destruct p; discriminate. Qed.

Lemma parse_uint_print lim n : 0 <= n < lim -> lim <= dec_bound -> parse_uint lim (print_uint n) = Some n.
Proof.
  intros H Hl. assert (Hb : 0 <= n < dec_bound) by lia.
  destruct (print_uint_ok n Hb) as (H1 & _ & _). pose proof (print_uint_nonempty n Hb) as Hne.
  unfold parse_uint. destruct (print_uint n) eqn:E; [congruence|]. rewrite H1.
  destruct (n <? lim) eqn:E2; [reflexivity|lia].
Qed.

Lemma digit_not c x : is_digit c = true -> x < 48 \/ 57 < x -> c <> x.
Proof. unfold is_digit. lia. Qed.

Lemma digits_notin l x : Forall (fun c => is_digit c = true) l -> x < 48 \/ 57 < x -> ~ In x l.
Proof.
  intros HF Hx Hin. rewrite Forall_forall in HF. specialize (HF _ Hin). unfold is_digit in HF. lia.
Qed.

Lemma print_uint_notin n x : 0 <= n < dec_bound -> x < 48 \/ 57 < x -> ~ In x (print_uint n).
Proof. intros H Hx. destruct (print_uint_ok n H) as (_ & HF & _). apply digits_notin; assumption. Qed.

Lemma print_int_notin n x : - dec_bound < n < dec_bound -> x < 45 \/ 57 < x -> ~ In x (print_int n).
Proof.
  intros H Hx. unfold print_int. destruct (n <? 0) eqn:E.
  - intros [Hin|Hin]; [lia|]. revert Hin. apply print_uint_notin; lia.
  - apply print_uint_notin; lia.
Qed.

Lemma parse_int_print half n : - half <= n < half -> 0 < half <= dec_bound - 1 ->
  parse_int half (print_int n) = Some n.
Proof.
  intros H Hh. unfold print_int. destruct (n <? 0) eqn:E.
  - assert (Hb : 0 <= - n < dec_bound) by lia.
    destruct (print_uint_ok _ Hb) as (H1 & _ & _). pose proof (print_uint_nonempty _ Hb) as Hne.
    cbn [parse_int]. rewrite Z.eqb_refl. destruct (print_uint (- n)) eqn:E2; [congruence|].
    rewrite H1. destruct (- n <=? half) eqn:E3; [f_equal; lia|lia].
  - assert (Hb : 0 <= n < dec_bound) by lia.
    destruct (print_uint_ok _ Hb) as (H1 & HF & _). pose proof (print_uint_nonempty _ Hb) as Hne.
    unfold parse_int. destruct (print_uint n) as [|c r] eqn:E2; [congruence|].
    assert (Hc : is_digit c = true) by (inversion HF; assumption).
    assert (c =? 45 = false) as -> by (unfold is_digit in Hc; lia).
    assert (c =? 43 = false) as -> by (unfold is_digit in Hc; lia).
    rewrite H1. destruct (n <? half) eqn:E3; [reflexivity|lia].
Qed.

Lemma print_int_last n : - dec_bound < n < dec_bound -> exists p d, print_int n = p ++ [d] /\ is_digit d = true.
Proof.
  intros H. unfold print_int. destruct (n <? 0) eqn:E.
  - assert (Hb : 0 <= - n < dec_bound) by lia. destruct (print_uint_ok _ Hb) as (_ & _ & p & d & E2 & Hd).
    exists (45 :: p), d. rewrite E2. split; [reflexivity|exact Hd].
  - assert (Hb : 0 <= n < dec_bound) by lia. destruct (print_uint_ok _ Hb) as (_ & _ & p & d & E2 & Hd).
    exists p, d. split; assumption.
Qed.
