(* Lemmas about Model/Chain.v, part 2: SlotChain.Entry as a whole, api.entry, Exit; the
   separation invariant (every live entry owns its context, pooled contexts are clean and
   unowned) and what follows from it. *)
From Coq Require Import Sorting.Sorted Sorting.Permutation.
From SG Require Import Base.Prelude Model.Chain Proofs.ChainProofs.

(* ---------------------------------------------------------------------------------- *)
(* list helpers                                                                         *)

Lemma nth_error_upd_nth_same {A} n (f : A -> A) l a :
  nth_error l n = Some a -> nth_error (upd_nth n f l) n = Some (f a).
Proof. revert n; induction l as [|x r IH]; intros [|n] H; cbn in *; try discriminate; [congruence|auto]. Qed.

Lemma nth_error_upd_nth_other {A} n m (f : A -> A) l :
  n <> m -> nth_error (upd_nth n f l) m = nth_error l m.
Proof. revert n m; induction l as [|x r IH]; intros [|n] [|m] H; cbn in *; try lia; auto. Qed.

Lemma nth_error_snoc {A} (l : list A) a i b :
  nth_error (l ++ [a]) i = Some b ->
  (nth_error l i = Some b /\ (i < length l)%nat) \/ (i = length l /\ b = a).
Proof.
  intros H. destruct (Nat.lt_ge_cases i (length l)) as [Hl|Hl].
  - rewrite nth_error_app1 in H by auto. auto.
  - rewrite nth_error_app2 in H by auto. right.
    destruct (i - length l)%nat as [|k] eqn:E; cbn in H.
    + split; [lia|congruence].
    + destruct k; discriminate.
Qed.

Lemma remove1_subset c l y : In y (remove1 c l) -> In y l.
Proof.
  induction l as [|z r IH]; cbn; [auto|]. destruct (c =? z); cbn; intros H; auto. destruct H; auto.
Qed.

Lemma remove1_nodup c l : NoDup l -> NoDup (remove1 c l) /\ ~ In c (remove1 c l).
Proof.
  induction 1 as [|z r Hz Hr IH]; cbn; [split; [constructor|auto]|].
  destruct (c =? z) eqn:E.
  - assert (c = z) by lia. subst. auto.
  - destruct IH as [IH1 IH2]. split.
    + constructor; auto. intros Hin. apply Hz. eapply remove1_subset; eauto.
    + cbn. intros [H|H]; [lia|auto].
Qed.

Lemma memZ_in c l : memZ c l = true <-> In c l.
Proof.
  unfold memZ. rewrite existsb_exists. split.
  - intros (y & Hy & He). assert (c = y) by lia. subst. auto.
  - intros H. exists c. split; auto. lia.
Qed.

(* ---------------------------------------------------------------------------------- *)
(* what the slot chain does to the context                                              *)

Definition core (x : ctx) :=
  (x_entry x, x_start x, x_res x, x_inb x, x_batch x, x_flag x, x_args x, x_addr x).

Lemma run_preps_ctx ps x lg :
  let x' := fst (fst (run_preps ps x lg)) in
  core x' = core x /\ x_err x' = x_err x /\ x_blk x' = x_blk x /\ x_rep x' = x_rep x /\ x_rt x' = x_rt x.
Proof.
  revert x lg. induction ps as [|p r IH]; intros x lg; cbn [run_preps]; [cbn; auto|].
  destruct (pbeh_of p (x_flag x)).
  - apply IH.
  - destruct (IH (set_node x) (LPrep (p_id p) :: lg)) as (H1 & H2 & H3 & H4 & H5). cbn in *. auto.
  - cbn. auto.
Qed.

Lemma scalls_ext x y be ss : x_res x = x_res y -> x_batch x = x_batch y -> scalls x be ss = scalls y be ss.
Proof.
  intros Hr Hb. unfold scalls. apply flat_map_ext. intros s. unfold scall. rewrite Hr, Hb. reflexivity.
Qed.

Lemma run_stats_errs_indep ss x be nd lg :
  forall y, x_res y = x_res x -> x_batch y = x_batch x -> x_flag y = x_flag x -> x_node y = x_node x -> x_inb y = x_inb x ->
  run_stats ss y be nd lg = run_stats ss x be nd lg.
Proof.
  intros y Hr Hb Hf Hn Hi. revert nd lg. induction ss as [|s r IH]; intros nd lg; cbn [run_stats]; [reflexivity|].
  unfold on_nodes. rewrite Hr, Hb, Hf, Hn, Hi. destruct (s_real s); [apply IH|].
  destruct (sbeh_of s (x_flag x)); [apply IH|reflexivity].
Qed.

(* the result of SlotChain.Entry + EntryPassedOnPanic never touches the fields that identify
   the request; the error is the panic error exactly when a slot panicked *)
Lemma chain_entry_ctx ch x nd er :
  let r := chain_entry ch x nd er in
  core (r_ctx r) = core x /\ x_err (r_ctx r) = (if r_nil r then PANIC else x_err x) /\ x_rt (r_ctx r) = x_rt x.
Proof.
  unfold chain_entry.
  pose proof (run_preps_ctx (preps ch) x []) as Hp.
  destruct (run_preps (preps ch) x []) as [[x1 lg1] pan1]. cbn in Hp. destruct Hp as (Hc & He & _ & _ & Hrt).
  destruct pan1; [cbn; auto|].
  destruct (run_checks (checks ch) (x_flag x1) lg1) as [[blk lg2] pan2].
  destruct pan2; [cbn; auto|].
  destruct blk as [e|]; cbn.
  - destruct (run_stats (stats ch) _ (Some e) nd lg2) as [[nd3 lg3] pan3]. destruct pan3; cbn; auto.
  - destruct (run_stats (stats ch) _ None nd lg2) as [[nd3 lg3] pan3]. destruct pan3; cbn; auto.
Qed.

Lemma passed_on_panic_ctx ch r :
  let r' := passed_on_panic ch r in
  core (r_ctx r') = core (r_ctx r) /\ x_err (r_ctx r') = x_err (r_ctx r) /\ x_rt (r_ctx r') = x_rt (r_ctx r) /\
  (r_nil r = true -> r_nil r' = true) /\ r_errs r' = r_errs r.
Proof.
  unfold passed_on_panic. destruct (x_rep (r_ctx r)); [cbn; auto|].
  destruct (run_stats (stats ch) _ None (r_nodes r) (r_log r)) as [[nd lg] pan]. cbn. auto.
Qed.

(* ---------------------------------------------------------------------------------- *)
(* exact call logs of SlotChain.Entry                                                   *)

Definition no_prep_panic (ch : chain) (flag : Z) := Forall (fun p => ~ p_panics flag p) (preps ch).
Definition no_stat_panic (ch : chain) (flag : Z) := Forall (fun s => ~ s_panics flag s) (stats ch).

Lemma x2_facts x1 bid : let x2 := set_blk_rep x1 bid in
  x_res x2 = x_res x1 /\ x_batch x2 = x_batch x1 /\ x_flag x2 = x_flag x1.
Proof. cbn. auto. Qed.

(* no panic, no block: every slot of every kind runs once, in chain order; passed *)
Lemma chain_entry_pass ch x nd er :
  no_prep_panic ch (x_flag x) -> Forall (c_benign (x_flag x)) (checks ch) -> no_stat_panic ch (x_flag x) ->
  let r := chain_entry ch x nd er in
  r_nil r = false /\ x_blk (r_ctx r) = None /\ r_errs r = er /\
  rev (r_log r) = map pcall (preps ch) ++ map ccall (checks ch) ++ scalls x None (stats ch).
Proof.
  intros Hp Hc Hs. unfold chain_entry.
  destruct (run_preps_ok (preps ch) x [] Hp) as [Hl1 Hn1].
  pose proof (run_preps_ctx (preps ch) x []) as Hx.
  destruct (run_preps (preps ch) x []) as [[x1 lg1] pan1]. cbn in Hl1, Hn1, Hx. subst pan1. rewrite app_nil_r in Hl1.
  destruct Hx as (Hcore & _). injection Hcore as _ _ Hres _ Hb Hf _ _.
  rewrite Hf, run_checks_ok by auto.
  set (x2 := set_blk_rep x1 None).
  assert (Hs2 : Forall (fun s => ~ s_panics (x_flag x2) s) (stats ch)) by (unfold x2; cbn; rewrite Hf; exact Hs).
  destruct (run_stats_ok (stats ch) x2 None nd (rev (map ccall (checks ch)) ++ lg1) Hs2) as [Hl3 Hn3].
  destruct (run_stats (stats ch) x2 None nd _) as [[nd3 lg3] pan3]. cbn in Hl3, Hn3. subst pan3. cbn.
  repeat split; auto. rewrite Hl3, Hl1, !rev_app_distr, !rev_involutive.
  rewrite (scalls_ext x2 x) by (unfold x2; cbn; auto). rewrite <- app_assoc. reflexivity.
Qed.

(* first block wins: the slots after the first blocking one do not run, the statistic slots
   are told "blocked" with that slot's error, and the context's result carries that error *)
Lemma chain_entry_block ch x nd er pre c post e :
  no_prep_panic ch (x_flag x) -> checks ch = pre ++ c :: post ->
  Forall (c_benign (x_flag x)) pre -> cbeh_of c (x_flag x) = CBlock e -> no_stat_panic ch (x_flag x) ->
  let r := chain_entry ch x nd er in
  r_nil r = false /\ x_blk (r_ctx r) = Some (Z.of_nat (length er)) /\ r_errs r = er ++ [e] /\
  rev (r_log r) = map pcall (preps ch) ++ map ccall (pre ++ [c]) ++ scalls x (Some e) (stats ch).
Proof.
  intros Hp Hck Hpre Hc Hs. unfold chain_entry.
  destruct (run_preps_ok (preps ch) x [] Hp) as [Hl1 Hn1].
  pose proof (run_preps_ctx (preps ch) x []) as Hx.
  destruct (run_preps (preps ch) x []) as [[x1 lg1] pan1]. cbn in Hl1, Hn1, Hx. subst pan1. rewrite app_nil_r in Hl1.
  destruct Hx as (Hcore & _). injection Hcore as _ _ Hres _ Hb Hf _ _.
  rewrite Hf, Hck, (run_checks_block pre c post (x_flag x) lg1 e) by auto.
  set (x2 := set_blk_rep x1 (Some (Z.of_nat (length er)))).
  assert (Hs2 : Forall (fun s => ~ s_panics (x_flag x2) s) (stats ch)) by (unfold x2; cbn; rewrite Hf; exact Hs).
  destruct (run_stats_ok (stats ch) x2 (Some e) nd (rev (map ccall (pre ++ [c])) ++ lg1) Hs2) as [Hl3 Hn3].
  destruct (run_stats (stats ch) x2 (Some e) nd _) as [[nd3 lg3] pan3]. cbn in Hl3, Hn3. subst pan3. cbn.
  repeat split; auto. rewrite Hl3, Hl1, !rev_app_distr, !rev_involutive.
  rewrite (scalls_ext x2 x) by (unfold x2; cbn; auto). rewrite <- app_assoc. reflexivity.
Qed.

(* fail-open: a panicking prepare or rule-check slot makes SlotChain.Entry return nil, with no
   outcome reported yet *)
Lemma chain_entry_prep_panic ch x nd er ps1 p ps2 :
  preps ch = ps1 ++ p :: ps2 -> Forall (fun p => ~ p_panics (x_flag x) p) ps1 -> p_panics (x_flag x) p ->
  let r := chain_entry ch x nd er in
  r_nil r = true /\ x_rep (r_ctx r) = x_rep x /\ r_nodes r = nd /\ r_errs r = er /\
  rev (r_log r) = map pcall (ps1 ++ [p]).
Proof.
  intros Hps H1 Hp. unfold chain_entry. rewrite Hps.
  destruct (run_preps_panic ps1 p ps2 x [] H1 Hp) as [Hl Hn].
  pose proof (run_preps_ctx (ps1 ++ p :: ps2) x []) as Hx.
  destruct (run_preps (ps1 ++ p :: ps2) x []) as [[x1 lg1] pan1]. cbn in Hl, Hn, Hx. subst pan1. cbn.
  destruct Hx as (_ & _ & _ & Hrep & _). repeat split; auto.
  rewrite Hl, app_nil_r, rev_involutive. reflexivity.
Qed.

Lemma chain_entry_check_panic ch x nd er pre c post :
  no_prep_panic ch (x_flag x) -> checks ch = pre ++ c :: post ->
  Forall (c_benign (x_flag x)) pre -> cbeh_of c (x_flag x) = CPanic ->
  let r := chain_entry ch x nd er in
  r_nil r = true /\ x_rep (r_ctx r) = x_rep x /\ r_nodes r = nd /\ r_errs r = er /\
  rev (r_log r) = map pcall (preps ch) ++ map ccall (pre ++ [c]).
Proof.
  intros Hp Hck Hpre Hc. unfold chain_entry.
  destruct (run_preps_ok (preps ch) x [] Hp) as [Hl1 Hn1].
  pose proof (run_preps_ctx (preps ch) x []) as Hx.
  destruct (run_preps (preps ch) x []) as [[x1 lg1] pan1]. cbn in Hl1, Hn1, Hx. subst pan1. rewrite app_nil_r in Hl1.
  destruct Hx as (Hcore & _ & _ & Hrep & _). injection Hcore as _ _ _ _ _ Hf _ _.
  rewrite Hf, Hck, (run_checks_panic pre c post (x_flag x) lg1) by auto. cbn.
  repeat split; auto. rewrite Hl1, rev_app_distr, !rev_involutive. reflexivity.
Qed.

(* ... and EntryPassedOnPanic then tells every statistic slot "passed" exactly once *)
Lemma passed_on_panic_log ch r :
  x_rep (r_ctx r) = false -> no_stat_panic ch (x_flag (r_ctx r)) ->
  let r' := passed_on_panic ch r in
  x_blk (r_ctx r') = None /\ x_rep (r_ctx r') = true /\
  rev (r_log r') = rev (r_log r) ++ scalls (r_ctx r) None (stats ch).
Proof.
  intros Hrep Hs. unfold passed_on_panic. rewrite Hrep.
  set (x := set_blk_rep (r_ctx r) None).
  assert (Hs2 : Forall (fun s => ~ s_panics (x_flag x) s) (stats ch)) by exact Hs.
  destruct (run_stats_ok (stats ch) x None (r_nodes r) (r_log r) Hs2) as [Hl Hn].
  destruct (run_stats (stats ch) x None (r_nodes r) (r_log r)) as [[nd lg] pan]. cbn in Hl, Hn. cbn.
  repeat split; auto. rewrite Hl, rev_app_distr, rev_involutive.
  rewrite (scalls_ext x (r_ctx r)) by reflexivity. reflexivity.
Qed.

(* in every case the calls are made in chain order: prefixes of the three sorted lists *)
Lemma chain_entry_shape ch x nd er :
  let r := chain_entry ch x nd er in
  exists ps1 ps2 cs1 cs2 ss1 ss2 be,
    preps ch = ps1 ++ ps2 /\ checks ch = cs1 ++ cs2 /\ stats ch = ss1 ++ ss2 /\
    rev (r_log r) = map pcall ps1 ++ map ccall cs1 ++ scalls x be ss1 /\
    (r_nil r = false -> ps2 = [] /\ ss2 = []) /\
    (* either the statistic phase was reached (outcome reported), or no statistic slot ran *)
    (x_rep (r_ctx r) = true \/ (ss1 = [] /\ x_rep (r_ctx r) = x_rep x /\ r_nil r = true)).
Proof.
  unfold chain_entry.
  destruct (run_preps_shape (preps ch) x []) as (ps1 & ps2 & Hps & Hl1 & _ & Hok1 & _).
  pose proof (run_preps_ctx (preps ch) x []) as Hx.
  destruct (run_preps (preps ch) x []) as [[x1 lg1] pan1]. cbn in Hl1, Hok1, Hx. rewrite app_nil_r in Hl1.
  destruct Hx as (Hcore & _ & _ & Hrep & _). injection Hcore as _ _ Hres _ Hb Hf _ _.
  destruct pan1.
  { exists ps1, ps2, [], (checks ch), [], (stats ch), None. cbn. repeat split; auto; try discriminate.
    rewrite Hl1, !app_nil_r, rev_involutive. reflexivity. }
  destruct (Hok1 eq_refl) as [Hps2 _]. subst ps2.
  assert (Hcs : exists cs1 cs2, checks ch = cs1 ++ cs2 /\
            snd (fst (run_checks (checks ch) (x_flag x1) lg1)) = rev (map ccall cs1) ++ lg1).
  { rewrite Hf. destruct (checks_cases (checks ch) (x_flag x)) as [Hb0|(pre & c & post & Hck & Hpre & [[e He]|Hpn])].
    - exists (checks ch), []. rewrite app_nil_r, run_checks_ok by auto. auto.
    - exists (pre ++ [c]), post. rewrite Hck, (run_checks_block pre c post _ lg1 e) by auto.
      rewrite <- app_assoc. auto.
    - exists (pre ++ [c]), post. rewrite Hck, (run_checks_panic pre c post _ lg1) by auto.
      rewrite <- app_assoc. auto. }
  destruct Hcs as (cs1 & cs2 & Hcs & Hl2).
  destruct (run_checks (checks ch) (x_flag x1) lg1) as [[blk lg2] pan2]. cbn in Hl2.
  destruct pan2.
  { exists ps1, [], cs1, cs2, [], (stats ch), None. cbn. repeat split; auto; try discriminate.
    rewrite Hl2, Hl1, !app_nil_r, rev_app_distr, !rev_involutive. reflexivity. }
  set (bid_er := match blk with None => (None, er) | Some e => (Some (Z.of_nat (length er)), er ++ [e]) end).
  destruct bid_er as [bid er2] eqn:Ebe.
  assert (Hsh := run_stats_shape (stats ch) (set_blk_rep x1 bid) blk nd lg2).
  destruct Hsh as (ss1 & ss2 & Hss & Hl3 & Hok3).
  destruct (run_stats (stats ch) (set_blk_rep x1 bid) blk nd lg2) as [[nd3 lg3] pan3]. cbn in Hl3, Hok3.
  exists ps1, [], cs1, cs2, ss1, ss2, blk.
  assert (Hlog : rev lg3 = map pcall ps1 ++ map ccall cs1 ++ scalls x blk ss1).
  { rewrite Hl3, Hl2, Hl1, !rev_app_distr, !rev_involutive.
    rewrite (scalls_ext (set_blk_rep x1 bid) x) by (cbn; auto). rewrite <- app_assoc. reflexivity. }
  destruct pan3; cbn; repeat split; auto; try discriminate.
Qed.

(* ---------------------------------------------------------------------------------- *)
(* the separation invariant                                                             *)

Definition live_ok (s : state) (i : nat) (en : ent) : Prop :=
  e_exited en = false ->
  let c := e_ctx en in let x := ctxs s c in
  0 <= c < nctx s /\ ~ In c (pool s) /\ x_entry x = Z.of_nat i /\
  x_err x = g_err en /\ x_args x = g_args en /\ x_addr x = g_addr en /\
  x_res x = g_res en /\ x_inb x = g_inb en /\ x_batch x = g_batch en /\ x_start x = g_start en /\ x_rt x = 0 /\
  g_passed en = match x_blk x with None => true | Some _ => false end.

Record Inv (s : state) : Prop := {
  inv_live : forall i en, nth_error (ents s) i = Some en -> live_ok s i en;
  inv_pool : forall c, In c (pool s) -> 0 <= c < nctx s /\ ctxs s c = new_ctx;
  inv_nodup : NoDup (pool s);
  inv_nctx : 0 <= nctx s;
  inv_rets : forall b, In b (rets s) -> 0 <= b < Z.of_nat (length (errs s))
}.

Lemma inv_init : Inv init.
Proof.
  constructor.
  - intros [|i] en0 H0; discriminate.
  - intros c Hin. cbn in Hin. contradiction.
  - cbn. constructor.
  - cbn. lia.
  - intros b Hin. cbn in Hin. contradiction.
Qed.

Lemma get_ent_some s e en : get_ent s e = Some en -> 0 <= e /\ nth_error (ents s) (Z.to_nat e) = Some en.
Proof. unfold get_ent. destruct (e <? 0) eqn:E; [discriminate|]. intros H. split; [lia|exact H]. Qed.

(* two live entries never share a context *)
Lemma live_ctx_distinct s i j ei ej :
  Inv s -> nth_error (ents s) i = Some ei -> nth_error (ents s) j = Some ej ->
  e_exited ei = false -> e_exited ej = false -> i <> j -> e_ctx ei <> e_ctx ej.
Proof.
  intros HI Hi Hj Hli Hlj Hne Heq.
  destruct (inv_live s HI i ei Hi Hli) as (_ & _ & Hxi & _).
  destruct (inv_live s HI j ej Hj Hlj) as (_ & _ & Hxj & _).
  rewrite Heq in Hxi. lia.
Qed.

Lemma upd_same {A} (m : Z -> A) k v : upd m k v k = v.
Proof. unfold upd. rewrite Z.eqb_refl. reflexivity. Qed.
Lemma upd_other {A} (m : Z -> A) k v k' : k' <> k -> upd m k v k' = m k'.
Proof. unfold upd. intros H. destruct (k' =? k) eqn:E; [lia|reflexivity]. Qed.

(* --- Entry preserves the invariant --- *)
Lemma do_entry_inv chains s res inb batch flag args chid pk :
  Inv s -> Inv (fst (do_entry chains s res inb batch flag args chid pk)).
Proof.
  intros HI. unfold do_entry.
  set (ch := chains chid). set (reuse := memZ pk (pool s)).
  set (c := if reuse then pk else nctx s).
  set (x0 := if reuse then ctxs s c else new_ctx).
  set (e := Z.of_nat (length (ents s))).
  set (x := {| x_entry := e; x_err := x_err x0; x_start := now s; x_rt := x_rt x0; x_res := res; x_inb := inb;
               x_node := x_node x0; x_batch := batch; x_flag := flag;
               x_args := match args with [] => x_args x0 | _ => args end;
               x_blk := x_blk x0; x_rep := x_rep x0; x_addr := x_addr x0 |}).
  set (r0 := chain_entry ch x (nodes s) (errs s)).
  set (r := if r_nil r0 then passed_on_panic ch r0 else r0).
  set (pool1 := if reuse then remove1 c (pool s) else pool s).
  set (nctx1 := if reuse then nctx s else nctx s + 1).
  (* facts about the context handed out *)
  assert (Hx0 : x0 = new_ctx).
  { unfold x0. destruct reuse eqn:Er; [|reflexivity].
    apply memZ_in in Er. unfold c. apply (inv_pool s HI pk Er). }
  assert (Hc : 0 <= c < nctx1 /\ ~ In c pool1 /\ (forall c', In c' pool1 -> In c' (pool s) /\ c' <> c) /\ NoDup pool1 /\
               (forall i en, nth_error (ents s) i = Some en -> e_exited en = false -> e_ctx en <> c) /\ nctx s <= nctx1).
  { pose proof (inv_nctx s HI) as Hn. pose proof (inv_nodup s HI) as Hnd.
    unfold c, pool1, nctx1. destruct reuse eqn:Er.
    - apply memZ_in in Er. destruct (inv_pool s HI pk Er) as [Hr _].
      destruct (remove1_nodup pk (pool s) Hnd) as [Hnd1 Hnin].
      split; [lia|]. split; [exact Hnin|]. split.
      { intros c' Hin. split; [eapply remove1_subset; eauto|]. intros Heq. subst c'. auto. }
      split; [exact Hnd1|]. split; [|lia].
      intros i en Hi Hl Heq. destruct (inv_live s HI i en Hi Hl) as (_ & Hnp & _). rewrite Heq in Hnp. auto.
    - split; [lia|]. split.
      { intros Hin. destruct (inv_pool s HI _ Hin). lia. }
      split.
      { intros c' Hin. split; auto. intros Heq. subst c'. destruct (inv_pool s HI _ Hin). lia. }
      split; [exact Hnd|]. split; [|lia].
      intros i en Hi Hl Heq. destruct (inv_live s HI i en Hi Hl) as (Hr & _). lia. }
  destruct Hc as (Hc1 & Hc2 & Hc3 & Hc4 & Hc5 & Hc6).
  assert (Hr : core (r_ctx r) = core x /\ x_err (r_ctx r) = (if r_nil r then PANIC else x_err x) /\ x_rt (r_ctx r) = x_rt x /\
               (exists more, r_errs r = errs s ++ more)).
  { pose proof (chain_entry_ctx ch x (nodes s) (errs s)) as H0. fold r0 in H0. cbn in H0.
    assert (He0 : exists more, r_errs r0 = errs s ++ more).
    { unfold r0, chain_entry.
      destruct (run_preps (preps ch) x []) as [[x1 lg1] pan1]. destruct pan1; [exists []; cbn; rewrite app_nil_r; reflexivity|].
      destruct (run_checks (checks ch) (x_flag x1) lg1) as [[blk lg2] pan2]. destruct pan2; [exists []; cbn; rewrite app_nil_r; reflexivity|].
      destruct blk as [be|].
      - destruct (run_stats (stats ch) _ (Some be) (nodes s) lg2) as [[nd3 lg3] pan3]. destruct pan3; exists [be]; reflexivity.
      - destruct (run_stats (stats ch) _ None (nodes s) lg2) as [[nd3 lg3] pan3]. destruct pan3; exists []; cbn; rewrite app_nil_r; reflexivity. }
    unfold r. destruct (r_nil r0) eqn:En.
    - pose proof (passed_on_panic_ctx ch r0) as H1. cbn in H1. destruct H1 as (H1 & H2 & H3 & H4 & H5).
      rewrite (H4 En). destruct H0 as (H0a & H0b & H0c). rewrite H1, H2, H3, H5, H0b, H0c. auto.
    - rewrite En. destruct H0 as (H0a & H0b & H0c). auto. }
  destruct Hr as (Hcore & Herr & Hrt & (more & Hmore)).
  injection Hcore as Hce Hcs Hcr Hci Hcb Hcf Hca Hcd.
  assert (Hold : forall ctxs' ents' nodes' errs' rets' i en,
            (forall c', c' <> c -> ctxs' c' = ctxs s c') ->
            nth_error (ents s) i = Some en ->
            live_ok {| now := now s; ctxs := ctxs'; nctx := nctx1; pool := pool1; ents := ents'; nodes := nodes'; errs := errs'; rets := rets' |} i en).
  { intros ctxs' ents' nodes' errs' rets' i en Hfr Hi Hl. cbn.
    destruct (inv_live s HI i en Hi Hl) as (H1 & H2 & H3).
    pose proof (Hc5 i en Hi Hl) as Hne. rewrite (Hfr _ Hne).
    repeat split; try lia; try tauto.
    intros Hin. destruct (Hc3 _ Hin). tauto. }
  destruct (if r_nil r then None else x_blk (r_ctx r)) as [b|] eqn:Eblk.
  - (* blocked *)
    cbn [fst]. constructor; cbn.
    + intros i en Hi. apply nth_error_snoc in Hi. destruct Hi as [[Hi _]|[_ ->]].
      * intros Hl. pose proof (Hold (upd (ctxs s) c new_ctx) [] (nodes s) [] [] i en) as H. cbn in H.
        specialize (H (fun c' Hne => upd_other _ _ _ _ Hne) Hi Hl).
        destruct H as (H1 & H2 & H3). repeat split; try tauto.
        intros [Heq|Hin]; [|tauto]. apply (Hc5 i en Hi Hl). auto.
      * intros Hl. discriminate.
    + intros c' [Heq|Hin].
      * subst c'. rewrite upd_same. split; [lia|reflexivity].
      * destruct (Hc3 _ Hin) as [Hp Hne]. rewrite upd_other by auto. destruct (inv_pool s HI _ Hp). split; [lia|auto].
    + constructor; auto.
    + lia.
    + intros b' [Heq|Hin].
      * subst b'. rewrite app_length. cbn. lia.
      * pose proof (inv_rets s HI _ Hin). rewrite app_length, Hmore, app_length. lia.
  - (* entered *)
    cbn [fst]. constructor; cbn.
    + intros i en Hi. apply nth_error_snoc in Hi. destruct Hi as [[Hi _]|[-> ->]].
      * apply (Hold (upd (ctxs s) c (r_ctx r)) [] (nodes s) [] [] i en (fun c' Hne => upd_other _ _ _ _ Hne) Hi).
      * intros _. cbn. rewrite upd_same. rewrite Hce, Hcs, Hcr, Hci, Hcb, Hca, Hcd, Herr, Hrt. unfold x. cbn. rewrite Hx0. cbn.
        repeat split; try lia; auto. destruct args; reflexivity.
    + intros c' Hin. destruct (Hc3 _ Hin) as [Hp Hne]. rewrite upd_other by auto. destruct (inv_pool s HI _ Hp). split; [lia|auto].
    + auto.
    + lia.
    + intros b' Hin. pose proof (inv_rets s HI _ Hin). rewrite Hmore, app_length. lia.
Qed.

(* --- Exit --- *)
Lemma do_exit_inv chains s e err : Inv s -> Inv (fst (do_exit chains s e err)).
Proof.
  intros HI. unfold do_exit. destruct (get_ent s e) as [en|] eqn:Eg; [|exact HI].
  destruct (e_exited en) eqn:Ex; [exact HI|].
  apply get_ent_some in Eg. destruct Eg as [He Hn].
  destruct (run_handlers (e_handlers en) []) as [lg1 pan1].
  set (c := e_ctx en).
  destruct (inv_live s HI _ en Hn Ex) as (Hc1 & Hc2 & Hc3 & _). fold c in Hc1, Hc2, Hc3.
  match goal with |- Inv (fst (let '(nd2, lg2) := ?t in _)) => destruct t as [nd2 lg2] end.
  cbn [fst]. constructor; cbn.
  - intros i en' Hi. unfold set_ent in Hi.
    destruct (Nat.eq_dec (Z.to_nat e) i) as [Heq|Hne].
    + subst i. rewrite (nth_error_upd_nth_same _ _ _ _ Hn) in Hi. injection Hi as <-. intros Hl. discriminate.
    + rewrite nth_error_upd_nth_other in Hi by auto. intros Hl.
      pose proof (live_ctx_distinct s i (Z.to_nat e) en' en HI Hi Hn Hl Ex (not_eq_sym Hne)) as Hd. fold c in Hd.
      destruct (inv_live s HI i en' Hi Hl) as (H1 & H2 & H3). cbn. rewrite upd_other by auto.
      repeat split; try tauto. intros [Heq|Hin]; [congruence|tauto].
  - intros c' [Heq|Hin].
    + subst c'. rewrite upd_same. auto.
    + rewrite upd_other by (intros ->; auto). apply (inv_pool s HI _ Hin).
  - constructor; auto. apply (inv_nodup s HI).
  - apply (inv_nctx s HI).
  - apply (inv_rets s HI).
Qed.

(* --- TraceError / TraceCallee / WhenExit --- *)
Lemma with_ctx_ents_inv s e en (f : ctx -> ctx) (g : ent -> ent) :
  Inv s -> 0 <= e -> nth_error (ents s) (Z.to_nat e) = Some en ->
  (e_exited en = false ->
     live_ok (with_ctx_ents s (upd (ctxs s) (e_ctx en) (f (ctxs s (e_ctx en)))) (set_ent s e g)) (Z.to_nat e) (g en)) ->
  (e_exited en = true -> e_exited (g en) = true /\ f = (fun x => x)) ->
  Inv (with_ctx_ents s (upd (ctxs s) (e_ctx en) (f (ctxs s (e_ctx en)))) (set_ent s e g)).
Proof.
  intros HI He Hn Hlive Hdead. constructor; cbn.
  - intros i en' Hi. unfold set_ent in Hi.
    destruct (Nat.eq_dec (Z.to_nat e) i) as [Heq|Hne].
    + subst i. rewrite (nth_error_upd_nth_same _ _ _ _ Hn) in Hi. injection Hi as <-.
      destruct (e_exited en) eqn:Ex.
      * intros Hl. destruct (Hdead eq_refl) as [Hd _]. congruence.
      * apply Hlive; auto.
    + rewrite nth_error_upd_nth_other in Hi by auto. intros Hl.
      destruct (inv_live s HI i en' Hi Hl) as (H1 & H2 & H3). cbn.
      destruct (e_exited en) eqn:Ex.
      * destruct (Hdead eq_refl) as [_ ->]. unfold upd. destruct (e_ctx en' =? e_ctx en) eqn:E.
        -- assert (e_ctx en' = e_ctx en) by lia. rewrite <- H. repeat split; tauto.
        -- repeat split; tauto.
      * pose proof (live_ctx_distinct s i (Z.to_nat e) en' en HI Hi Hn Hl Ex (not_eq_sym Hne)) as Hd.
        rewrite upd_other by auto. repeat split; tauto.
  - intros c Hin. destruct (inv_pool s HI _ Hin) as [H1 H2]. split; auto.
    destruct (e_exited en) eqn:Ex.
    + destruct (Hdead eq_refl) as [_ ->]. unfold upd. destruct (c =? e_ctx en) eqn:E; auto.
      assert (c = e_ctx en) by lia. subst c. auto.
    + destruct (inv_live s HI _ en Hn Ex) as (_ & Hnp & _). rewrite upd_other; auto. intros ->. auto.
  - apply (inv_nodup s HI).
  - apply (inv_nctx s HI).
  - apply (inv_rets s HI).
Qed.

Lemma do_trace_inv s e err : Inv s -> Inv (do_trace s e err).
Proof.
  intros HI. unfold do_trace. destruct (get_ent s e) as [en|] eqn:Eg; [|exact HI].
  destruct ((err =? 0) || e_exited en) eqn:Ec; [exact HI|].
  apply orb_false_iff in Ec. destruct Ec as [Ez Ex].
  apply get_ent_some in Eg. destruct Eg as [He Hn].
  apply (with_ctx_ents_inv s e en (fun x => set_err x err) (set_g_err err) HI He Hn).
  - intros _ _. cbn. rewrite upd_same. destruct (inv_live s HI _ en Hn Ex) as (H1 & H2 & H3). cbn. repeat split; tauto.
  - congruence.
Qed.

Lemma do_callee_inv s e a : Inv s -> Inv (do_callee s e a).
Proof.
  intros HI. unfold do_callee. destruct (get_ent s e) as [en|] eqn:Eg; [|exact HI].
  destruct ((a =? 0) || e_exited en) eqn:Ec; [exact HI|].
  apply orb_false_iff in Ec. destruct Ec as [Ez Ex].
  apply get_ent_some in Eg. destruct Eg as [He Hn].
  apply (with_ctx_ents_inv s e en (fun x => set_addr x a) (set_g_addr a) HI He Hn).
  - intros _ _. cbn. rewrite upd_same. destruct (inv_live s HI _ en Hn Ex) as (H1 & H2 & H3). cbn. repeat split; tauto.
  - congruence.
Qed.

Lemma upd_id {A} (m : Z -> A) k : forall k', upd m k (m k) k' = m k'.
Proof. intros k'. unfold upd. destruct (k' =? k) eqn:E; [f_equal; lia|reflexivity]. Qed.

Lemma do_when_exit_inv s e hid hb : Inv s -> Inv (do_when_exit s e hid hb).
Proof.
  intros HI. unfold do_when_exit. destruct (get_ent s e) as [en|] eqn:Eg; [|exact HI].
  apply get_ent_some in Eg. destruct Eg as [He Hn].
  constructor; cbn.
  - intros i en' Hi. unfold set_ent in Hi.
    destruct (Nat.eq_dec (Z.to_nat e) i) as [Heq|Hne].
    + subst i. rewrite (nth_error_upd_nth_same _ _ _ _ Hn) in Hi. injection Hi as <-.
      intros Hl. apply (inv_live s HI _ en Hn Hl).
    + rewrite nth_error_upd_nth_other in Hi by auto. apply (inv_live s HI i en' Hi).
  - apply (inv_pool s HI).
  - apply (inv_nodup s HI).
  - apply (inv_nctx s HI).
  - apply (inv_rets s HI).
Qed.

Lemma step_inv chains s o : Inv s -> Inv (fst (step chains s o)).
Proof.
  intros HI. destruct o; cbn [step fst].
  - apply do_entry_inv; auto.
  - apply do_exit_inv; auto.
  - apply do_trace_inv; auto.
  - apply do_callee_inv; auto.
  - apply do_when_exit_inv; auto.
  - destruct HI. constructor; auto.
  - exact HI.
Qed.

Lemma run_step chains s o rest :
  run chains s (o :: rest) =
  (fst (run chains (fst (step chains s o)) rest), snd (step chains s o) :: snd (run chains (fst (step chains s o)) rest)).
Proof.
  cbn [run]. destruct (step chains s o) as [s1 ob]. cbn. destruct (run chains s1 rest) as [s2 obs]. reflexivity.
Qed.

Lemma exec_cons chains s o rest : exec chains s (o :: rest) = exec chains (fst (step chains s o)) rest.
Proof. unfold exec. rewrite run_step. reflexivity. Qed.

Lemma exec_app chains s a b : exec chains s (a ++ b) = exec chains (exec chains s a) b.
Proof. revert s. induction a as [|o r IH]; intros s; [reflexivity|]. cbn [app]. rewrite !exec_cons. apply IH. Qed.

Lemma exec_inv chains ops s : Inv s -> Inv (exec chains s ops).
Proof.
  revert s. induction ops as [|o r IH]; intros s HI; [exact HI|].
  rewrite exec_cons. apply IH, step_inv, HI.
Qed.

Lemma reachable_inv chains ops : Inv (exec chains init ops).
Proof. apply exec_inv, inv_init. Qed.

(* ---------------------------------------------------------------------------------- *)
(* operation level: what the caller of Entry / Exit observes                            *)

(* a context carrying just the request's resource and batch count (all that the recorded
   statistic-slot calls depend on) *)
Definition rb_ctx (res batch : Z) : ctx :=
  {| x_entry := -1; x_err := 0; x_start := 0; x_rt := 0; x_res := res; x_inb := false; x_node := false;
     x_batch := batch; x_flag := 0; x_args := []; x_blk := None; x_rep := false; x_addr := 0 |}.

Ltac entry_sets chains s res inb batch flag args chid pk :=
  unfold do_entry;
  set (ch := chains chid); set (reuse := memZ pk (pool s));
  set (c := if reuse then pk else nctx s);
  set (x0 := if reuse then ctxs s c else new_ctx);
  set (e := Z.of_nat (length (ents s)));
  set (x := {| x_entry := e; x_err := x_err x0; x_start := now s; x_rt := x_rt x0; x_res := res; x_inb := inb;
               x_node := x_node x0; x_batch := batch; x_flag := flag;
               x_args := match args with [] => x_args x0 | _ => args end;
               x_blk := x_blk x0; x_rep := x_rep x0; x_addr := x_addr x0 |});
  set (r0 := chain_entry ch x (nodes s) (errs s)).

(* no panic, no blocking slot: admitted; every slot ran exactly once, in chain order *)
Lemma do_entry_pass chains s res inb batch flag args chid pk :
  no_prep_panic (chains chid) flag -> Forall (c_benign flag) (checks (chains chid)) -> no_stat_panic (chains chid) flag ->
  exists c, snd (do_entry chains s res inb batch flag args chid pk) =
    REntered (Z.of_nat (length (ents s))) c
      (map pcall (preps (chains chid)) ++ map ccall (checks (chains chid)) ++ scalls (rb_ctx res batch) None (stats (chains chid))).
Proof.
  intros Hp Hc Hs. entry_sets chains s res inb batch flag args chid pk.
  destruct (chain_entry_pass ch x (nodes s) (errs s) Hp Hc Hs) as (Hnil & Hblk & Herrs & Hlog). fold r0 in Hnil, Hblk, Herrs, Hlog.
  repeat (rewrite Hnil; cbv iota). rewrite Hblk. exists c. cbn. rewrite Hlog. rewrite (scalls_ext x (rb_ctx res batch)) by reflexivity. reflexivity.
Qed.

(* first block wins: the caller gets exactly the first blocking slot's error; later rule-check
   slots did not run; the entry is already exited *)
Lemma do_entry_block chains s res inb batch flag args chid pk pre c0 post be :
  no_prep_panic (chains chid) flag -> checks (chains chid) = pre ++ c0 :: post ->
  Forall (c_benign flag) pre -> cbeh_of c0 flag = CBlock be -> no_stat_panic (chains chid) flag ->
  let s' := fst (do_entry chains s res inb batch flag args chid pk) in
  (exists c, snd (do_entry chains s res inb batch flag args chid pk) =
    RBlocked c be (map pcall (preps (chains chid)) ++ map ccall (pre ++ [c0]) ++ scalls (rb_ctx res batch) (Some be) (stats (chains chid)))) /\
  (exists en, nth_error (ents s') (length (ents s)) = Some en /\ e_exited en = true /\ g_passed en = false).
Proof.
  intros Hp Hck Hpre Hc Hs. entry_sets chains s res inb batch flag args chid pk.
  destruct (chain_entry_block ch x (nodes s) (errs s) pre c0 post be Hp Hck Hpre Hc Hs) as (Hnil & Hblk & Herrs & Hlog).
  fold r0 in Hnil, Hblk, Herrs, Hlog.
  repeat (rewrite Hnil; cbv iota). rewrite Hblk. cbn [fst snd]. split.
  - exists c. rewrite Herrs, Hlog, Nat2Z.id, app_nth2, Nat.sub_diag by lia. cbn [nth].
    rewrite (scalls_ext x (rb_ctx res batch)) by reflexivity. reflexivity.
  - cbn. rewrite nth_error_app2, Nat.sub_diag by lia. cbn. eauto.
Qed.

(* fail-open: a panic in a prepare slot ... *)
Lemma do_entry_prep_panic chains s res inb batch flag args chid pk ps1 p ps2 :
  Inv s ->
  preps (chains chid) = ps1 ++ p :: ps2 -> Forall (fun p => ~ p_panics flag p) ps1 -> p_panics flag p ->
  no_stat_panic (chains chid) flag ->
  exists c, snd (do_entry chains s res inb batch flag args chid pk) =
    REntered (Z.of_nat (length (ents s))) c
      (map pcall (ps1 ++ [p]) ++ scalls (rb_ctx res batch) None (stats (chains chid))).
Proof.
  intros HI Hps H1 Hp Hs. entry_sets chains s res inb batch flag args chid pk.
  assert (Hx0 : x0 = new_ctx).
  { unfold x0. destruct reuse eqn:Er; [|reflexivity]. apply memZ_in in Er. unfold c. apply (inv_pool s HI pk Er). }
  destruct (chain_entry_prep_panic ch x (nodes s) (errs s) ps1 p ps2 Hps H1 Hp) as (Hnil & Hrep & Hnd & Herrs & Hlog).
  fold r0 in Hnil, Hrep, Hnd, Herrs, Hlog. rewrite Hnil.
  assert (Hrep' : x_rep (r_ctx r0) = false) by (rewrite Hrep; unfold x; cbn; rewrite Hx0; reflexivity).
  assert (Hf : x_flag (r_ctx r0) = flag).
  { pose proof (chain_entry_ctx ch x (nodes s) (errs s)) as H0. fold r0 in H0. cbn in H0. destruct H0 as (H0 & _).
    injection H0 as _ _ _ _ _ Hf _ _. exact Hf. }
  assert (Hrb : x_res (r_ctx r0) = res /\ x_batch (r_ctx r0) = batch).
  { pose proof (chain_entry_ctx ch x (nodes s) (errs s)) as H0. fold r0 in H0. cbn in H0. destruct H0 as (H0 & _).
    injection H0 as _ _ Hr _ Hb _ _ _. auto. }
  destruct (passed_on_panic_log ch r0 Hrep') as (Hb & _ & Hl); [rewrite Hf; exact Hs|].
  pose proof (passed_on_panic_ctx ch r0) as Hpp. cbn in Hpp. destruct Hpp as (_ & _ & _ & Hn' & _).
  rewrite (Hn' Hnil). exists c. cbn. rewrite Hl, Hlog.
  rewrite (scalls_ext (r_ctx r0) (rb_ctx res batch)) by (cbn; tauto). reflexivity.
Qed.

(* ... or in a rule-check slot (e.g. a rule evaluated on an unhashable argument) never reaches
   the caller: the request is admitted and every statistic slot is told "passed" *)
Lemma do_entry_check_panic chains s res inb batch flag args chid pk pre c0 post :
  Inv s ->
  no_prep_panic (chains chid) flag -> checks (chains chid) = pre ++ c0 :: post ->
  Forall (c_benign flag) pre -> cbeh_of c0 flag = CPanic -> no_stat_panic (chains chid) flag ->
  exists c, snd (do_entry chains s res inb batch flag args chid pk) =
    REntered (Z.of_nat (length (ents s))) c
      (map pcall (preps (chains chid)) ++ map ccall (pre ++ [c0]) ++ scalls (rb_ctx res batch) None (stats (chains chid))).
Proof.
  intros HI Hp Hck Hpre Hc Hs. entry_sets chains s res inb batch flag args chid pk.
  assert (Hx0 : x0 = new_ctx).
  { unfold x0. destruct reuse eqn:Er; [|reflexivity]. apply memZ_in in Er. unfold c. apply (inv_pool s HI pk Er). }
  destruct (chain_entry_check_panic ch x (nodes s) (errs s) pre c0 post Hp Hck Hpre Hc) as (Hnil & Hrep & Hnd & Herrs & Hlog).
  fold r0 in Hnil, Hrep, Hnd, Herrs, Hlog. rewrite Hnil.
  assert (Hrep' : x_rep (r_ctx r0) = false) by (rewrite Hrep; unfold x; cbn; rewrite Hx0; reflexivity).
  pose proof (chain_entry_ctx ch x (nodes s) (errs s)) as H0. fold r0 in H0. cbn in H0. destruct H0 as (H0 & _).
  injection H0 as _ _ Hr _ Hb Hf _ _.
  destruct (passed_on_panic_log ch r0 Hrep') as (Hbk & _ & Hl); [rewrite Hf; exact Hs|].
  pose proof (passed_on_panic_ctx ch r0) as Hpp. cbn in Hpp. destruct Hpp as (_ & _ & _ & Hn' & _).
  rewrite (Hn' Hnil). exists c. cbn. rewrite Hl, Hlog.
  rewrite (scalls_ext (r_ctx r0) (rb_ctx res batch)) by (cbn; tauto). rewrite <- !app_assoc. reflexivity.
Qed.

(* whatever the slots do, Entry returns one of the two outcomes, and a block error only when
   SlotChain.Entry did not recover from a panic *)
Lemma do_entry_outcome chains s res inb batch flag args chid pk :
  let r0 := chain_entry (chains chid)
      {| x_entry := Z.of_nat (length (ents s));
         x_err := x_err (if memZ pk (pool s) then ctxs s (if memZ pk (pool s) then pk else nctx s) else new_ctx);
         x_start := now s;
         x_rt := x_rt (if memZ pk (pool s) then ctxs s (if memZ pk (pool s) then pk else nctx s) else new_ctx);
         x_res := res; x_inb := inb;
         x_node := x_node (if memZ pk (pool s) then ctxs s (if memZ pk (pool s) then pk else nctx s) else new_ctx);
         x_batch := batch; x_flag := flag;
         x_args := match args with [] => x_args (if memZ pk (pool s) then ctxs s (if memZ pk (pool s) then pk else nctx s) else new_ctx) | _ => args end;
         x_blk := x_blk (if memZ pk (pool s) then ctxs s (if memZ pk (pool s) then pk else nctx s) else new_ctx);
         x_rep := x_rep (if memZ pk (pool s) then ctxs s (if memZ pk (pool s) then pk else nctx s) else new_ctx);
         x_addr := x_addr (if memZ pk (pool s) then ctxs s (if memZ pk (pool s) then pk else nctx s) else new_ctx) |}
      (nodes s) (errs s) in
  (exists c lg, snd (do_entry chains s res inb batch flag args chid pk) = REntered (Z.of_nat (length (ents s))) c lg) \/
  (r_nil r0 = false /\ exists c be lg, snd (do_entry chains s res inb batch flag args chid pk) = RBlocked c be lg).
Proof.
  cbv zeta. entry_sets chains s res inb batch flag args chid pk.
  destruct (r_nil r0) eqn:En.
  - pose proof (passed_on_panic_ctx ch r0) as Hpp. cbn in Hpp. destruct Hpp as (_ & _ & _ & Hn' & _).
    rewrite (Hn' En). left. cbn. eauto.
  - rewrite En. destruct (x_blk (r_ctx r0)); [right|left]; cbn; eauto.
Qed.

(* --- Exit --- *)

(* the effective exit of an entry whose result is "pass": every exit handler, then OnCompleted of
   every statistic slot exactly once, in chain order, with the entry's own resource, batch,
   error and response time *)
Lemma do_exit_calls chains s e err en :
  Inv s -> get_ent s e = Some en -> e_exited en = false ->
  Forall (fun h => ~ h_panics h) (e_handlers en) ->
  no_stat_panic (chains (e_chain en)) (x_flag (ctxs s (e_ctx en))) ->
  snd (do_exit chains s e err) =
    RCalls (map hcall (e_handlers en) ++
            if g_passed en then
              dcalls {| x_entry := e; x_err := if err =? 0 then g_err en else err; x_start := g_start en; x_rt := 0;
                        x_res := g_res en; x_inb := g_inb en; x_node := false; x_batch := g_batch en; x_flag := 0;
                        x_args := []; x_blk := None; x_rep := false; x_addr := 0 |} (now s) (stats (chains (e_chain en)))
            else []).
Proof.
  intros HI Hg Hl Hh Hs. unfold do_exit. rewrite Hg, Hl.
  apply get_ent_some in Hg. destruct Hg as [He Hn].
  destruct (inv_live s HI _ en Hn Hl) as (_ & _ & _ & Herr & _ & _ & Hres & _ & Hb & Hst & Hrt & Hps).
  rewrite (run_handlers_ok _ [] Hh).
  set (x := ctxs s (e_ctx en)) in *.
  set (x1 := if err =? 0 then x else set_err x err).
  assert (Hx1 : x_blk x1 = x_blk x /\ x_flag x1 = x_flag x /\ x_rt x1 = 0 /\ x_res x1 = g_res en /\ x_batch x1 = g_batch en /\
                x_start x1 = g_start en /\ x_err x1 = (if err =? 0 then g_err en else err)).
  { unfold x1. destruct (err =? 0); cbn; auto 10. }
  destruct Hx1 as (Hk & Hf & Hrt1 & Hres1 & Hb1 & Hst1 & Herr1).
  rewrite Hk. rewrite Hps. destruct (x_blk x) eqn:Eb.
  - cbn. rewrite ?app_nil_r, ?rev_involutive. reflexivity.
  - assert (Hs1 : Forall (fun s0 => ~ s_panics (x_flag x1) s0) (stats (chains (e_chain en)))) by (rewrite Hf; exact Hs).
    destruct (run_done_ok (stats (chains (e_chain en))) x1 x1 (now s) (nodes s) (rev (map hcall (e_handlers en)) ++ []) (or_introl eq_refl) Hrt1 Hs1) as [Hl1 Hn1].
    destruct (run_done (stats (chains (e_chain en))) x1 (now s) (nodes s) _) as [[nd lg] pan]. cbn in Hl1. cbn.
    rewrite Hl1, ?app_nil_r, rev_app_distr, !rev_involutive. f_equal. f_equal.
    unfold dcalls. apply flat_map_ext. intros s0. unfold dcall. rewrite Hres1, Hb1, Herr1, Hst1. reflexivity.
Qed.

(* a repeated (or late) Exit does nothing at all; likewise late TraceError / TraceCallee *)
Lemma do_exit_late chains s e err en :
  get_ent s e = Some en -> e_exited en = true -> do_exit chains s e err = (s, RCalls []).
Proof. intros Hg Hx. unfold do_exit. rewrite Hg, Hx. reflexivity. Qed.
Lemma do_trace_late s e err en : get_ent s e = Some en -> e_exited en = true -> do_trace s e err = s.
Proof. intros Hg Hx. unfold do_trace. rewrite Hg, Hx, orb_true_r. reflexivity. Qed.
Lemma do_callee_late s e a en : get_ent s e = Some en -> e_exited en = true -> do_callee s e a = s.
Proof. intros Hg Hx. unfold do_callee. rewrite Hg, Hx, orb_true_r. reflexivity. Qed.

(* after an effective Exit the entry is exited *)
Lemma do_exit_exits chains s e err en :
  get_ent s e = Some en ->
  exists en', get_ent (fst (do_exit chains s e err)) e = Some en' /\ e_exited en' = true.
Proof.
  intros Hg. unfold do_exit. rewrite Hg. destruct (e_exited en) eqn:Ex; [exists en; auto|].
  destruct (run_handlers (e_handlers en) []) as [lg1 pan1].
  match goal with |- context [let '(nd2, lg2) := ?t in _] => destruct t as [nd2 lg2] end.
  cbn [fst]. pose proof Hg as Hg'. apply get_ent_some in Hg'. destruct Hg' as [He Hn].
  exists (mark_exited (now s) err en). split; [|reflexivity].
  unfold get_ent in *. destruct (e <? 0); [discriminate|]. cbn. unfold set_ent.
  apply nth_error_upd_nth_same. exact Hn.
Qed.

(* --- block errors handed to callers are never modified --- *)
Definition ret_view (s : state) : list berr := map (fun b => nth (Z.to_nat b) (errs s) berr0) (rev (rets s)).

Lemma step_errs_rets chains s o :
  exists more new, errs (fst (step chains s o)) = errs s ++ more /\ rets (fst (step chains s o)) = new ++ rets s.
Proof.
  assert (Hid : exists more new, errs s = errs s ++ more /\ rets s = new ++ rets s) by (exists [], []; rewrite app_nil_r; auto).
  destruct o; cbn [step fst]; auto.
  - entry_sets chains s res inb batch flag args chain pk.
    set (r := if r_nil r0 then passed_on_panic ch r0 else r0).
    assert (He : exists more, r_errs r = errs s ++ more).
    { assert (He0 : exists more, r_errs r0 = errs s ++ more).
      { unfold r0, chain_entry.
        destruct (run_preps (preps ch) x []) as [[x1 lg1] pan1]. destruct pan1; [exists []; cbn; rewrite app_nil_r; reflexivity|].
        destruct (run_checks (checks ch) (x_flag x1) lg1) as [[blk lg2] pan2]. destruct pan2; [exists []; cbn; rewrite app_nil_r; reflexivity|].
        destruct blk as [be|].
        - destruct (run_stats (stats ch) _ (Some be) (nodes s) lg2) as [[nd3 lg3] pan3]. destruct pan3; exists [be]; reflexivity.
        - destruct (run_stats (stats ch) _ None (nodes s) lg2) as [[nd3 lg3] pan3]. destruct pan3; exists []; cbn; rewrite app_nil_r; reflexivity. }
      unfold r. destruct (r_nil r0); [|exact He0].
      pose proof (passed_on_panic_ctx ch r0) as Hpp. cbn in Hpp. destruct Hpp as (_ & _ & _ & _ & Hpe). rewrite Hpe. exact He0. }
    destruct He as (more & Hmore).
    destruct (if r_nil r then None else x_blk (r_ctx r)) as [b|]; cbn [fst errs rets].
    + rewrite Hmore, <- app_assoc. eexists _, [_]. split; reflexivity.
    + rewrite Hmore. exists more, []. auto.
  - unfold do_exit. destruct (get_ent s e); [|exact Hid]. destruct (e_exited e0); [exact Hid|].
    destruct (run_handlers (e_handlers e0) []) as [lg1 pan1].
    match goal with |- context [let '(nd2, lg2) := ?t in _] => destruct t as [nd2 lg2] end. exact Hid.
  - unfold do_trace. destruct (get_ent s e); [|exact Hid]. destruct ((err =? 0) || e_exited e0); exact Hid.
  - unfold do_callee. destruct (get_ent s e); [|exact Hid]. destruct ((addr =? 0) || e_exited e0); exact Hid.
  - unfold do_when_exit. destruct (get_ent s e); exact Hid.
Qed.

Lemma ret_view_step chains s o : Inv s -> exists more, ret_view (fst (step chains s o)) = ret_view s ++ more.
Proof.
  intros HI. destruct (step_errs_rets chains s o) as (more & new & He & Hr).
  unfold ret_view. rewrite He, Hr, rev_app_distr, map_app. eexists. f_equal.
  apply map_ext_in. intros b Hb. apply in_rev in Hb. pose proof (inv_rets s HI b Hb).
  apply app_nth1. lia.
Qed.

Lemma ret_view_exec chains ops s : Inv s -> exists more, ret_view (exec chains s ops) = ret_view s ++ more.
Proof.
  revert s. induction ops as [|o r IH]; intros s HI; [exists []; rewrite app_nil_r; reflexivity|].
  rewrite exec_cons. destruct (ret_view_step chains s o HI) as (m1 & H1).
  destruct (IH _ (step_inv chains s o HI)) as (m2 & H2). rewrite H2, H1, <- app_assoc. eauto.
Qed.

(* the error just returned by a blocked Entry is the last element of the view *)
Lemma do_entry_ret_view chains s res inb batch flag args chid pk c1 be lg :
  Inv s -> snd (do_entry chains s res inb batch flag args chid pk) = RBlocked c1 be lg ->
  ret_view (fst (do_entry chains s res inb batch flag args chid pk)) = ret_view s ++ [be].
Proof.
  intros HI. pose proof (step_errs_rets chains s (OEntry res inb batch flag args chid pk)) as Hs. cbn [step fst] in Hs.
  pose proof (inv_rets s HI) as Hrets. revert Hs.
  entry_sets chains s res inb batch flag args chid pk.
  set (r := if r_nil r0 then passed_on_panic ch r0 else r0).
  destruct (if r_nil r then None else x_blk (r_ctx r)) as [b|]; cbn [fst snd errs rets]; [|discriminate].
  intros (more & new & He & Hr) Hobs. injection Hobs as _ Hbe _.
  unfold ret_view. cbn [errs rets rev]. rewrite map_app. cbn [map]. f_equal.
  - apply map_ext_in. intros b' Hb'. apply in_rev in Hb'. pose proof (Hrets b' Hb'). rewrite He.
    apply app_nth1. lia.
  - rewrite Nat2Z.id, app_nth2, Nat.sub_diag by lia. cbn. rewrite Hbe. reflexivity.
Qed.
