(* C19 — lemmas about the adapter IR: the boolean contract is the Prop-level contract;
   syntactic well-formedness implies the contract in every environment (induction on the
   IR); the finite environment enumeration is complete for programs that use < k flags. *)
From SG Require Import Base.Prelude Model.AdapterIR.
Local Open Scope nat_scope.

(* ------------------------------------------------------------------ mem / cnt *)

Lemma event_eqb_eq a b : event_eqb a b = true <-> a = b.
Proof. destruct a, b; cbn; split; intro H; try reflexivity; try discriminate. Qed.

Lemma event_eqb_refl a : event_eqb a a = true.
Proof. apply event_eqb_eq. reflexivity. Qed.

Lemma mem_In x t : mem x t = true <-> In x t.
Proof.
  unfold mem. rewrite existsb_exists. split.
  - intros [y [Hy He]]. apply event_eqb_eq in He. subst. exact Hy.
  - intros H. exists x. split; [exact H|apply event_eqb_refl].
Qed.

Lemma mem_false_In x t : mem x t = false <-> ~ In x t.
Proof.
  rewrite <- mem_In. destruct (mem x t); split; intro H.
  - discriminate.
  - exfalso. apply H. reflexivity.
  - intro F. discriminate.
  - reflexivity.
Qed.

Lemma negb_mem_In x t : negb (mem x t) = true <-> ~ In x t.
Proof. rewrite negb_true_iff. apply mem_false_In. Qed.

Lemma cnt_count_occ x t : cnt x t = count_occ event_eq_dec t x.
Proof.
  unfold cnt. induction t as [|y r IH]; cbn; [reflexivity|].
  destruct (event_eq_dec y x) as [E|E].
  - subst. rewrite event_eqb_refl. cbn. rewrite IH. reflexivity.
  - destruct (event_eqb x y) eqn:B.
    + apply event_eqb_eq in B. subst. exfalso. apply E. reflexivity.
    + exact IH.
Qed.

Lemma cnt_zero_In x t : cnt x t = 0 <-> ~ In x t.
Proof. rewrite cnt_count_occ. symmetry. apply count_occ_not_In. Qed.

(* ------------------------------------------------------------------ clause by clause *)

Lemma entry_first_sound t :
  entry_first_b t = true <->
  exists pre post, t = pre ++ EntryCall :: post /\
     ~ In EntryCall pre /\ ~ In HandlerCall pre /\ ~ In EntryCall post.
Proof.
  induction t as [|x r IH].
  - cbn. split; [discriminate|]. intros [pre [post [H _]]]. destruct pre; discriminate.
  - split.
    + intros H. destruct x; cbn in H; try discriminate;
        try (apply IH in H; destruct H as [pre [post [E [A [B C]]]]]; subst r;
             eexists (_ :: pre), post; split; [reflexivity|];
             repeat split; auto; intros [F|F]; try discriminate; auto).
      exists [], r. cbn. apply negb_mem_In in H. repeat split; auto.
    + intros [pre [post [E [A [B C]]]]]. destruct pre as [|y pre].
      * cbn in E. inversion E; subst. cbn. apply negb_mem_In. exact C.
      * cbn in E. inversion E; subst y r.
        assert (Hr : entry_first_b (pre ++ EntryCall :: post) = true).
        { apply IH. exists pre, post. repeat split; auto; intro F; [apply A|apply B]; right; exact F. }
        destruct x; cbn; try exact Hr.
        -- exfalso. apply A. left. reflexivity.
        -- exfalso. apply B. left. reflexivity.
Qed.

Lemma exit_after_sound t :
  exit_after_b t = true <-> (forall pre post, t = pre ++ HandlerCall :: post -> ~ In ExitCall pre).
Proof.
  induction t as [|x r IH].
  - cbn. split; [|reflexivity]. intros _ pre post H. destruct pre; discriminate.
  - split.
    + intros H pre post E. destruct pre as [|y pre]; [intros []|].
      cbn in E. inversion E; subst y r.
      destruct x; cbn in H;
        try (intros [F|F]; [discriminate|]; revert F; apply (proj1 IH H pre post); reflexivity).
      apply negb_mem_In in H. exfalso. apply H. apply in_or_app. right. left. reflexivity.
    + intros H.
      assert (Hr : exit_after_b r = true).
      { apply IH. intros pre post E F. apply (H (x :: pre) post); [cbn; rewrite E; reflexivity|]. right. exact F. }
      destruct x; cbn; try exact Hr.
      apply negb_mem_In. intros F. apply in_split in F. destruct F as [l1 [l2 F]].
      apply (H (ExitCall :: l1) l2); [cbn; rewrite F; reflexivity|]. left. reflexivity.
Qed.

Lemma traced_before_exit_sound t :
  traced_before_exit t = true <-> exists mid rest, t = mid ++ Traced :: rest /\ ~ In ExitCall mid.
Proof.
  induction t as [|x r IH].
  - cbn. split; [discriminate|]. intros [mid [rest [H _]]]. destruct mid; discriminate.
  - split.
    + intros H. destruct x; cbn in H; try discriminate;
        try (apply IH in H; destruct H as [mid [rest [E A]]]; subst r;
             eexists (_ :: mid), rest; split; [reflexivity|]; intros [F|F]; [discriminate|auto]).
      exists [], r. split; [reflexivity|intros []].
    + intros [mid [rest [E A]]]. destruct mid as [|y mid].
      * cbn in E. inversion E; subst. reflexivity.
      * cbn in E. inversion E; subst y r.
        assert (Hr : traced_before_exit (mid ++ Traced :: rest) = true).
        { apply IH. exists mid, rest. split; [reflexivity|]. intro F. apply A. right. exact F. }
        destruct x; cbn; try exact Hr; try reflexivity.
        exfalso. apply A. left. reflexivity.
Qed.

Lemma err_traced_sound t :
  err_traced_b t = true <->
  (forall pre post, t = pre ++ HandlerErr :: post ->
      exists mid rest, post = mid ++ Traced :: rest /\ ~ In ExitCall mid).
Proof.
  induction t as [|x r IH].
  - cbn. split; [|reflexivity]. intros _ pre post H. destruct pre; discriminate.
  - split.
    + intros H pre post E. destruct pre as [|y pre].
      * cbn in E. inversion E; subst x r. cbn in H. apply andb_true_iff in H. destruct H as [H _].
        apply traced_before_exit_sound. exact H.
      * cbn in E. inversion E; subst y r.
        assert (Hr : err_traced_b (pre ++ HandlerErr :: post) = true).
        { destruct x; cbn in H; try exact H. apply andb_true_iff in H. apply H. }
        apply (proj1 IH Hr pre post). reflexivity.
    + intros H.
      assert (Hr : err_traced_b r = true).
      { apply IH. intros pre post E. apply (H (x :: pre) post). cbn. rewrite E. reflexivity. }
      destruct x; cbn; try exact Hr.
      apply andb_true_iff. split; [|exact Hr].
      apply traced_before_exit_sound. apply (H [] r). reflexivity.
Qed.

Lemma clause_sound c en t : clause_b c en t = true <-> clause_P c en t.
Proof.
  destruct c; cbn [clause_b clause_P].
  - apply entry_first_sound.
  - destruct (blocked en); cbn.
    + rewrite negb_mem_In. split; auto.
    + split; [intros _ H; discriminate|reflexivity].
  - destruct (blocked en).
    + rewrite andb_true_iff, Nat.eqb_eq, !cnt_count_occ. destruct (fallback en); cbn.
      * rewrite negb_mem_In. split.
        -- intros [A B]. split; [intros _; split; auto|intros H; discriminate].
        -- intros [A _]. destruct (A eq_refl) as [A1 A2]. split; auto.
      * split.
        -- intros [A _]. split; [intros _; split; [exact A|intros H; discriminate]|intros H; discriminate].
        -- intros [A _]. destruct (A eq_refl) as [A1 _]. split; auto.
    + rewrite andb_true_iff, !negb_mem_In. split.
      * intros [A B]. split; [intros H; discriminate|auto].
      * intros [_ A]. apply A. reflexivity.
  - destruct (blocked en); cbn.
    + split; [intros _ H; discriminate|reflexivity].
    + rewrite Nat.eqb_eq, cnt_count_occ. split; auto.
  - rewrite Nat.eqb_eq. destruct (blocked en).
    + rewrite cnt_zero_In. split.
      * intros A. split; [intros H; discriminate|auto].
      * intros [_ A]. auto.
    + rewrite cnt_count_occ. split.
      * intros A. split; [auto|intros H; discriminate].
      * intros [A _]. auto.
  - apply exit_after_sound.
  - apply err_traced_sound.
  - apply negb_mem_In.
  - destruct (mem PanicOut t) eqn:M; cbn.
    + apply mem_In in M. rewrite andb_true_iff, negb_true_iff. split.
      * intros [A B] _. split; [|exact B]. destruct (handler en); try discriminate. reflexivity.
      * intros A. destruct (A M) as [A1 A2]. rewrite A1, A2. split; reflexivity.
    + apply mem_false_In in M. split; [intros _ H; contradiction|reflexivity].
Qed.

Lemma contract_sound en t : contract_b en t = true <-> Contract en t.
Proof.
  unfold contract_b, Contract. rewrite forallb_forall. split.
  - intros H c. apply clause_sound. apply H. destruct c; cbn; tauto.
  - intros H c _. apply clause_sound. apply H.
Qed.

(* ------------------------------------------------------------------ fragments *)

Lemma run_quiet p en s : quiet p = true -> run p en s = (Normal, s, []).
Proof.
  revert s. induction p; intros s H; cbn in H; try discriminate.
  - apply andb_true_iff in H. destruct H as [H1 H2].
    cbn. rewrite (IHp1 s H1), (IHp2 s H2). reflexivity.
  - apply andb_true_iff in H. destruct H as [H1 H2].
    cbn. destruct (flag en k); auto.
  - reflexivity.
Qed.

Lemma run_tail_ok p en s : tail_ok p = true ->
  run p en s = (Normal, s, []) \/ run p en s = (Returned, s, []).
Proof.
  revert s. induction p; intros s H; cbn in H; try discriminate.
  - right. reflexivity.
  - apply andb_true_iff in H. destruct H as [H1 H2].
    cbn. rewrite (run_quiet _ en s H1). destruct (IHp2 s H2) as [E|E]; rewrite E; auto.
  - apply andb_true_iff in H. destruct H as [H1 H2]. cbn. destruct (flag en k); auto.
  - left. reflexivity.
Qed.

Definition only_FR (t : list event) : Prop := Forall (fun x => x = FallbackCall \/ x = Rejected) t.

Lemma cnt_app x a b : cnt x (a ++ b) = cnt x a + cnt x b.
Proof. unfold cnt. rewrite filter_app, app_length. reflexivity. Qed.

Lemma sum_eqb_eq x y : sum_eqb x y = true -> x = y.
Proof.
  destruct x as [[a b] c], y as [[a' b'] c']. cbn. rewrite !andb_true_iff, !Nat.eqb_eq.
  intros [[A B] C]. apply eqb_prop in A. subst. reflexivity.
Qed.

Lemma rej_sum_sound p en s rt f r :
  rej_sum (fallback en) p = Some (rt, f, r) ->
  exists t, run p en s = ((if rt then Returned else Normal), s, t) /\
            only_FR t /\ cnt FallbackCall t = f /\ cnt Rejected t = r.
Proof.
  revert s rt f r. induction p; intros s rt f r H; cbn in H; try discriminate.
  - (* IfFallback *) cbn. destruct (fallback en); auto.
  - (* Fallback *) cbn. destruct (mandatory || fallback en); [|discriminate]. inversion H; subst.
    exists [FallbackCall]. repeat split; auto. constructor; auto.
  - (* DefaultReject *) inversion H; subst. exists [Rejected]. cbn. repeat split; auto. constructor; auto.
  - (* Return *) inversion H; subst. exists []. cbn. repeat split; auto. constructor.
  - (* Seq *) destruct (rej_sum (fallback en) p1) as [[[rt1 f1] r1]|] eqn:E1; [|discriminate].
    destruct (IHp1 s _ _ _ eq_refl) as [t1 [R1 [O1 [F1 C1]]]].
    destruct rt1.
    + inversion H; subst. exists t1. cbn. rewrite R1. auto.
    + destruct (rej_sum (fallback en) p2) as [[[rt2 f2] r2]|] eqn:E2; [|discriminate].
      inversion H; subst.
      destruct (IHp2 s _ _ _ eq_refl) as [t2 [R2 [O2 [F2 C2]]]].
      exists (t1 ++ t2). cbn. rewrite R1, R2. repeat split.
      * apply Forall_app. split; assumption.
      * rewrite cnt_app. rewrite F2. reflexivity.
      * rewrite cnt_app. rewrite C2. reflexivity.
  - (* IfOpt *) destruct (rej_sum (fallback en) p1) as [x|] eqn:E1; [|discriminate].
    destruct (rej_sum (fallback en) p2) as [y|] eqn:E2; [|discriminate].
    destruct (sum_eqb x y) eqn:E; [|discriminate]. apply sum_eqb_eq in E. subst y.
    inversion H; subst x. cbn. destruct (flag en k); auto.
  - (* Other *) inversion H; subst. exists []. cbn. repeat split; auto. constructor.
Qed.

Lemma only_FR_single t :
  only_FR t -> (cnt FallbackCall t = 1 /\ cnt Rejected t = 0 -> t = [FallbackCall]) /\
               (cnt FallbackCall t = 0 /\ cnt Rejected t = 1 -> t = [Rejected]).
Proof.
  intros H. destruct H as [|x r Hx Hr].
  - cbn. split; intros [A B]; discriminate.
  - assert (Hnil : cnt FallbackCall r = 0 -> cnt Rejected r = 0 -> r = []).
    { intros A B. destruct Hr as [|y r' Hy _]; [reflexivity|].
      destruct Hy; subst y; cbn in A, B; discriminate. }
    destruct Hx; subst x; unfold cnt in *; cbn; split; intros [A B]; try discriminate;
      f_equal; apply Hnil; lia.
Qed.

(* ------------------------------------------------------------------ wf => contract *)

(* the traces a well-formed entry point can produce *)
Definition good_trace (en : env) (t : list event) : Prop :=
  if blocked en
  then t = [EntryCall; FallbackCall] \/ (fallback en = false /\ t = [EntryCall; Rejected])
  else match handler en with
       | HOk => t = [EntryCall; HandlerCall; ExitCall]
       | HErr => t = [EntryCall; HandlerCall; ExitCall] \/
                 t = [EntryCall; HandlerCall; HandlerErr; Traced; ExitCall]
       | HPanic => t = [EntryCall; HandlerCall; ExitCall; PanicOut]
       end.

Lemma good_trace_contract en t : good_trace en t -> Contract en t.
Proof.
  intros H. apply contract_sound. unfold good_trace in H.
  destruct en as [b h f fl]. cbn in H. destruct b.
  - destruct H as [H|[Hf H]]; subst t; [destruct f; reflexivity|subst f; reflexivity].
  - destruct h; [subst t|destruct H as [H|H]; subst t|subst t]; reflexivity.
Qed.

Lemma upd_same g k v : upd g k v k = v.
Proof. unfold upd. rewrite Nat.eqb_refl. reflexivity. Qed.

Lemma wf_blocked_run fb B en s :
  wf_blocked fb B = true -> (fallback en = true -> fb = true) ->
  exists t, run B en s = (Returned, s, t) /\
            (t = [FallbackCall] \/ (fallback en = false /\ t = [Rejected])).
Proof.
  unfold wf_blocked, osum_is. intros H Hfb. apply andb_true_iff in H. destruct H as [H1 H2].
  destruct (fallback en) eqn:Ef.
  - rewrite (Hfb eq_refl) in H1. cbn in H1.
    destruct (rej_sum true B) as [x|] eqn:E; [|discriminate]. apply sum_eqb_eq in H1. subst x.
    assert (E' : rej_sum (fallback en) B = Some (true, 1, 0)) by (rewrite Ef; exact E).
    destruct (rej_sum_sound B en s _ _ _ E') as [t [R [O [F C]]]].
    exists t. split; [exact R|]. left. apply (only_FR_single t O). auto.
  - apply orb_true_iff in H2.
    destruct (rej_sum false B) as [x|] eqn:E; [|destruct H2; discriminate].
    destruct H2 as [H2|H2]; apply sum_eqb_eq in H2; subst x.
    + assert (E' : rej_sum (fallback en) B = Some (true, 0, 1)) by (rewrite Ef; exact E).
      destruct (rej_sum_sound B en s _ _ _ E') as [t [R [O [F C]]]]. exists t. split; [exact R|].
      right. split; [reflexivity|]. apply (only_FR_single t O). auto.
    + assert (E' : rej_sum (fallback en) B = Some (true, 1, 0)) by (rewrite Ef; exact E).
      destruct (rej_sum_sound B en s _ _ _ E') as [t [R [O [F C]]]]. exists t. split; [exact R|].
      left. apply (only_FR_single t O). auto.
Qed.

Definition finish (r : outcome * st * list event) : list event :=
  let '(o, s', t) := r in
  let '(pd, td) := run_defers (dstack s') in
  t ++ td ++ (if is_panicked o || pd then [PanicOut] else []).

Lemma exec_finish p en : exec p en = finish (run p en st0).
Proof. reflexivity. Qed.

(* handler part, admitted request: entry variable e non-nil, one deferred Exit pending *)
Section HandlerShapes.
  Variables (e : nat) (en : env) (s : st).
  Hypothesis Hn : enil s e = false.
  Hypothesis Hd : dstack s = [false].
  Hypothesis Hb : blocked en = false.

  Lemma finish_tail q s1 t0 : tail_ok q = true -> dstack s1 = [false] ->
    finish (let '(o2, s2, t2) := run q en s1 in (o2, s2, t0 ++ t2)) = t0 ++ [ExitCall].
  Proof.
    intros Hq Hs1. destruct (run_tail_ok q en s1 Hq) as [E|E]; rewrite E; cbn; rewrite Hs1; cbn;
      rewrite app_nil_r; reflexivity.
  Qed.

  Lemma shape_none : good_trace en (EntryCall :: finish (run (CallHandler ErrNone) en s)).
  Proof.
    unfold good_trace. rewrite Hb. cbn [run]. destruct (handler en); cbn; rewrite Hd; cbn; auto.
  Qed.

  Lemma shape_none_tail q : tail_ok q = true ->
    good_trace en (EntryCall :: finish (run (Seq (CallHandler ErrNone) q) en s)).
  Proof.
    intros Hq. unfold good_trace. rewrite Hb. cbn [run]. destruct (handler en); cbn [set_err].
    - rewrite (finish_tail q s _ Hq Hd). reflexivity.
    - rewrite (finish_tail q s _ Hq Hd). left. reflexivity.
    - cbn. rewrite Hd. reflexivity.
  Qed.

  Lemma run_trace_body v T s1 : trace_body e v T = true ->
    errv s1 v = true -> enil s1 e = false ->
    run T en s1 = (Normal, s1, [Traced]) \/ run T en s1 = (Returned, s1, [Traced]).
  Proof.
    intros HT Hv He. destruct T; cbn in HT; try discriminate.
    - apply andb_true_iff in HT. destruct HT as [A B]. apply Nat.eqb_eq in A, B. subst.
      cbn [run]. rewrite Hv, He. left. reflexivity.
    - destruct T1; try discriminate.
      apply andb_true_iff in HT. destruct HT as [HT C].
      apply andb_true_iff in HT. destruct HT as [A B]. apply Nat.eqb_eq in A, B. subst.
      cbn [run]. rewrite Hv, He. cbn [andb negb].
      destruct (run_tail_ok T2 en s1 C) as [E|E]; rewrite E; auto.
  Qed.

  Lemma shape_var_tail v v' T q :
    (v =? v') && trace_body e v T && tail_ok q = true ->
    good_trace en (EntryCall :: finish (run (Seq (CallHandler (ErrVar v)) (Seq (IfErr v' T Other) q)) en s)).
  Proof.
    intros W. apply andb_true_iff in W. destruct W as [W Hq].
    apply andb_true_iff in W. destruct W as [A HT]. apply Nat.eqb_eq in A. subst v'.
    unfold good_trace. rewrite Hb. cbn [run]. destruct (handler en); cbn [set_err].
    - cbn [errv]. rewrite upd_same.
      cbn [run].
      match goal with |- context [run q en ?s1] =>
        destruct (run_tail_ok q en s1 Hq) as [E|E]; rewrite E end; cbn; rewrite Hd; reflexivity.
    - cbn [errv]. rewrite upd_same.
      cbn [run].
      match goal with |- context [run T en ?s1] =>
        destruct (run_trace_body v T s1 HT) as [E|E]; [cbn; apply upd_same|exact Hn| |]; rewrite E end.
      + right.
        match goal with |- context [run q en ?s1] =>
          destruct (run_tail_ok q en s1 Hq) as [E2|E2]; rewrite E2 end; cbn; rewrite Hd; reflexivity.
      + right. cbn. rewrite Hd. reflexivity.
    - cbn. rewrite Hd. reflexivity.
  Qed.

  Lemma shape_var v v' T :
    (v =? v') && trace_body e v T = true ->
    good_trace en (EntryCall :: finish (run (Seq (CallHandler (ErrVar v)) (IfErr v' T Other)) en s)).
  Proof.
    intros W.
    assert (W' : (v =? v') && trace_body e v T && tail_ok Other = true) by (rewrite W; reflexivity).
    assert (G := shape_var_tail v v' T Other W').
    assert (Same : finish (run (Seq (CallHandler (ErrVar v)) (IfErr v' T Other)) en s) =
                   finish (run (Seq (CallHandler (ErrVar v)) (Seq (IfErr v' T Other) Other)) en s)).
    { cbn [run]. destruct (handler en); cbn [set_err]; try reflexivity.
      - destruct (if errv _ v' then _ else _) as [[o1 s1] t1]. destruct o1; rewrite ?app_nil_r; reflexivity.
      - destruct (if errv _ v' then _ else _) as [[o1 s1] t1]. destruct o1; rewrite ?app_nil_r; reflexivity. }
    rewrite Same. exact G.
  Qed.

  Lemma wf_handler_exec Hp : wf_handler e Hp = true ->
    good_trace en (EntryCall :: finish (run Hp en s)).
  Proof.
    intros W. unfold wf_handler in W.
    repeat match type of W with
           | context [match ?x with _ => _ end] => is_var x; destruct x; try discriminate W
           end;
    first [ apply shape_none
          | apply shape_none_tail; exact W
          | apply shape_var; exact W
          | apply shape_var_tail; exact W ].
  Qed.

  Lemma run_safe_pre a : safe_pre e a = true -> run a en s = (Normal, s, []).
  Proof.
    induction a; intros H; cbn in H; try discriminate.
    - apply Nat.eqb_eq in H. subst e0. cbn [run]. rewrite Hn. reflexivity.
    - apply andb_true_iff in H. destruct H as [H1 H2].
      cbn [run]. rewrite (IHa1 H1), (IHa2 H2). reflexivity.
    - apply andb_true_iff in H. destruct H as [H1 H2]. cbn [run]. destruct (flag en k); auto.
    - reflexivity.
  Qed.

  Lemma wf_handler_pre_exec Hp : wf_handler_pre e Hp = true ->
    good_trace en (EntryCall :: finish (run Hp en s)).
  Proof.
    induction Hp; intros W; cbn [wf_handler_pre] in W;
      try (rewrite orb_false_r in W; apply wf_handler_exec; exact W).
    apply orb_true_iff in W. destruct W as [W|W]; [apply wf_handler_exec; exact W|].
    apply andb_true_iff in W. destruct W as [S W].
    cbn [run]. rewrite (run_safe_pre _ S).
    specialize (IHHp2 W). destruct (run Hp2 en s) as [[o2 s2] t2]. exact IHHp2.
  Qed.
End HandlerShapes.

Lemma wf_core_good fb p en :
  wf_core fb p = true -> (fallback en = true -> fb = true) -> good_trace en (exec p en).
Proof.
  intros W Hfb. unfold wf_core in W.
  repeat match type of W with
         | context [match ?x with _ => _ end] => is_var x; destruct x; try discriminate W
         end.
  apply andb_true_iff in W. destruct W as [W WH].
  apply andb_true_iff in W. destruct W as [W WB].
  apply andb_true_iff in W. destruct W as [A B]. apply Nat.eqb_eq in A, B. subst.
  rewrite exec_finish. cbn [run]. cbn [errv enil dstack st0]. rewrite upd_same.
  destruct (blocked en) eqn:Eb.
  - (* blocked: the blocked body runs and returns *)
    match goal with |- context [run ?B en ?s1] =>
      destruct (wf_blocked_run fb B en s1 WB Hfb) as [t [R Ht]]; rewrite R end.
    cbn. unfold good_trace. rewrite Eb.
    destruct Ht as [Ht|[Hf Ht]]; subst t; cbn; auto.
  - (* admitted *)
    cbn [run]. cbn [enil errv dstack]. rewrite upd_same.
    match goal with |- context [run ?Hp en ?s1] =>
      assert (G := wf_handler_pre_exec _ en s1 (upd_same _ _ _) eq_refl Eb Hp WH);
      destruct (run Hp en s1) as [[o2 s2] t2] end.
    cbn in G |- *. destruct (run_defers (dstack s2)) as [pd td]. exact G.
Qed.

Lemma exec_quiet_prefix a q en : quiet a = true -> exec (Seq a q) en = exec q en.
Proof.
  intros H. unfold exec. cbn [run]. rewrite (run_quiet a en st0 H).
  destruct (run q en st0) as [[o s] t]. reflexivity.
Qed.

(* the induction on the IR *)
Lemma wf_main_good fb p : wf_main fb p = true ->
  forall en, (fallback en = true -> fb = true) -> good_trace en (exec p en).
Proof.
  induction p; intros W en Hfb; cbn [wf_main] in W;
    try (rewrite orb_false_r in W; apply wf_core_good with (fb := fb); assumption).
  apply orb_true_iff in W. destruct W as [W|W].
  - apply wf_core_good with (fb := fb); assumption.
  - apply andb_true_iff in W. destruct W as [Q W].
    rewrite (exec_quiet_prefix _ _ en Q). apply IHp2; assumption.
Qed.

Lemma wf_implies_contract fb p : wf_main fb p = true ->
  forall en, (fallback en = true -> fb = true) -> Contract en (exec p en).
Proof. intros W en Hfb. apply good_trace_contract. apply wf_main_good with (fb := fb); assumption. Qed.

(* ------------------------------------------------------------------ finite enumeration is complete *)

Definition norm_flags (k : nat) (fl : list bool) : list bool := firstn k (fl ++ repeat false k).

Lemma norm_flags_length k fl : length (norm_flags k fl) = k.
Proof. unfold norm_flags. rewrite firstn_length, app_length, repeat_length. lia. Qed.

Lemma nth_norm_flags k fl i : i < k -> nth i (norm_flags k fl) false = nth i fl false.
Proof.
  unfold norm_flags. revert fl i. induction k as [|k IH]; intros fl i H; [lia|].
  destruct fl as [|b fl].
  - cbn [app]. destruct i.
    + reflexivity.
    + cbn [repeat firstn nth]. specialize (IH [] i). cbn [app] in IH. rewrite IH by lia. destruct i; reflexivity.
  - destruct i; [reflexivity|].
    cbn [app firstn nth].
    replace (fl ++ repeat false (S k)) with ((fl ++ [false]) ++ repeat false k).
    2:{ rewrite <- app_assoc. reflexivity. }
    rewrite IH by lia.
    destruct (Nat.lt_ge_cases i (length fl)) as [L|L].
    + rewrite app_nth1 by exact L. reflexivity.
    + rewrite (nth_overflow fl) by exact L.
      destruct (Nat.eq_dec i (length fl)) as [E|E].
      * subst. rewrite app_nth2 by lia. rewrite Nat.sub_diag. reflexivity.
      * rewrite nth_overflow; [reflexivity|]. rewrite app_length. cbn. lia.
Qed.

Lemma all_bits_complete k l : length l = k -> In l (all_bits k).
Proof.
  revert l. induction k as [|k IH]; intros l H.
  - destruct l; [left; reflexivity|discriminate].
  - destruct l as [|b l]; [discriminate|]. cbn in H. injection H as H'.
    cbn [all_bits]. apply in_flat_map. exists l. split; [apply IH; exact H'|].
    destruct b; cbn; auto.
Qed.

Definition norm_env (k : nat) (en : env) : env :=
  mkEnv (blocked en) (handler en) (fallback en) (norm_flags k (flags en)).

Lemma norm_env_in k en : In (norm_env k en) (all_envs k).
Proof.
  unfold all_envs, norm_env.
  apply in_flat_map. exists (blocked en). split; [destruct (blocked en); cbn; auto|].
  apply in_flat_map. exists (handler en). split; [destruct (handler en); cbn; auto|].
  apply in_flat_map. exists (fallback en). split; [destruct (fallback en); cbn; auto|].
  apply in_map. apply all_bits_complete. apply norm_flags_length.
Qed.

Lemma run_norm p k en s : max_flag p <= k -> run p (norm_env k en) s = run p en s.
Proof.
  revert s. induction p; intros s H; cbn [max_flag] in H; cbn [run]; try reflexivity.
  - destruct (errv s err); [apply IHp1|apply IHp2]; lia.
  - cbn [fallback norm_env]. destruct (fallback en); [apply IHp1|apply IHp2]; lia.
  - destruct (errv s v); [apply IHp1|apply IHp2]; lia.
  - rewrite IHp1 by lia. destruct (run p1 en s) as [[o s1] t1]. destruct o; try reflexivity.
    rewrite IHp2 by lia. reflexivity.
  - unfold flag. cbn [flags norm_env]. rewrite nth_norm_flags by lia.
    destruct (nth k0 (flags en) false); [apply IHp1|apply IHp2]; lia.
Qed.

Lemma exec_norm p k en : max_flag p <= k -> exec p (norm_env k en) = exec p en.
Proof. intros H. unfold exec. rewrite run_norm by exact H. reflexivity. Qed.

Lemma clause_b_norm c k en t : clause_b c (norm_env k en) t = clause_b c en t.
Proof. destruct c; reflexivity. Qed.

Lemma contract_b_norm k en t : contract_b (norm_env k en) t = contract_b en t.
Proof.
  unfold contract_b. induction all_clauses as [|c l IH]; cbn; [reflexivity|].
  rewrite clause_b_norm, IH. reflexivity.
Qed.

(* the finite check over (envs_of k a) decides the contract for EVERY environment in which
   the entry point can run *)
Lemma adapter_ok_all_envs k a :
  adapter_ok k a = true ->
  forall en, (fallback en = true -> a_fb a = true) -> Contract en (exec (a_body a) en).
Proof.
  unfold adapter_ok. intros H en Hfb.
  apply andb_true_iff in H. destruct H as [H H3].
  apply andb_true_iff in H. destruct H as [_ H2]. apply Nat.leb_le in H2.
  apply contract_sound.
  rewrite <- (exec_norm _ k en H2), <- (contract_b_norm k).
  rewrite forallb_forall in H3. apply H3.
  unfold envs_of. apply filter_In. split; [apply norm_env_in|].
  unfold env_ok. cbn [fallback norm_env]. destruct (fallback en); [|reflexivity].
  rewrite (Hfb eq_refl). reflexivity.
Qed.

Lemma all_adapters_all_envs k l :
  forallb (adapter_ok k) l = true ->
  forall a, In a l -> forall en, (fallback en = true -> a_fb a = true) ->
  Contract en (exec (a_body a) en).
Proof. intros H a Ha. rewrite forallb_forall in H. apply adapter_ok_all_envs with (k := k). apply H. exact Ha. Qed.

(* dropping the statements without modelled effect changes nothing *)
Lemma run_simp p en s : run (simp p) en s = run p en s.
Proof.
  revert s. induction p; intros s; cbn [simp]; try reflexivity.
  - cbn [run]. rewrite IHp1, IHp2. reflexivity.
  - cbn [run]. rewrite IHp1, IHp2. reflexivity.
  - cbn [run]. rewrite IHp1, IHp2. reflexivity.
  - (* Seq *)
    destruct (quiet (simp p1)) eqn:Q1.
    + cbn [run]. rewrite <- IHp1, (run_quiet _ en s Q1), IHp2.
      destruct (run p2 en s) as [[o2 s2] t2]. reflexivity.
    + destruct (quiet (simp p2)) eqn:Q2.
      * cbn [run]. rewrite <- IHp1. destruct (run (simp p1) en s) as [[o1 s1] t1].
        destruct o1; try reflexivity.
        rewrite <- IHp2, (run_quiet _ en s1 Q2), app_nil_r. reflexivity.
      * cbn [run]. rewrite IHp1. destruct (run p1 en s) as [[o1 s1] t1].
        destruct o1; try reflexivity. rewrite IHp2. reflexivity.
  - (* IfOpt *)
    destruct (quiet (simp p1)) eqn:Q1; destruct (quiet (simp p2)) eqn:Q2; cbn [andb];
      cbn [run]; rewrite <- ?IHp1, <- ?IHp2; try reflexivity.
    rewrite (run_quiet _ en s Q1), (run_quiet _ en s Q2). destruct (flag en k); reflexivity.
Qed.

Lemma exec_simp p en : exec (simp p) en = exec p en.
Proof. unfold exec. rewrite run_simp. reflexivity. Qed.

Lemma wf_adapter_contract a : wf_adapter a = true ->
  forall en, (fallback en = true -> a_fb a = true) -> Contract en (exec (a_body a) en).
Proof.
  unfold wf_adapter. intros W en Hfb. rewrite <- exec_simp.
  apply wf_implies_contract with (fb := a_fb a); assumption.
Qed.
