(* C17, part 5: the two readers (ReadMetricsByEndTime, ReadMetrics) over the item lists they
   read from consecutive files, against the item-level specification. *)
From SG Require Import Base.Prelude Base.GoInt Model.MLBytes Model.MLDecimal Model.MetricLog
  Model.MetricLogSpec Proofs.MLBytesProofs Proofs.MetricLogLineProofs Proofs.MetricLogBoundProofs
  Proofs.MetricLogWriterProofs Proofs.MetricLogViewProofs.

(* the item lists the reader sees: first file from byte `off`, later files from 0 *)
Definition reads0 (rem : list file) : list (list item) := map (fun f => read_items (f_data f) 0) rem.
Definition reads (rem : list file) (off : Z) : list (list item) :=
  match rem with [] => [] | f :: r => read_items (f_data f) off :: reads0 r end.

Fixpoint rbe_lists (Xs : list (list item)) (bsec esec : Z) (res : bytes) (count : Z) : list item :=
  match Xs with
  | [] => []
  | X :: r => let '(l, c) := rbe_file X bsec esec res count 0 in
              if c then l ++ rbe_lists r bsec esec res (count + lenZ l) else l
  end.

Lemma rbe_files_0 rem bsec esec res : forall count,
  rbe_files rem 0 bsec esec res count = rbe_lists (reads0 rem) bsec esec res count.
Proof.
  induction rem as [|f r IH]; intros count; [reflexivity|]. cbn [rbe_files reads0 map rbe_lists].
  destruct (rbe_file (read_items (f_data f) 0) bsec esec res count 0) as [l c]. destruct c; [|reflexivity].
  rewrite IH. reflexivity.
Qed.

Lemma rbe_files_lists rem off bsec esec res count :
  rbe_files rem off bsec esec res count = rbe_lists (reads rem off) bsec esec res count.
Proof.
  destruct rem as [|f r]; [reflexivity|]. cbn [rbe_files reads rbe_lists].
  destruct (rbe_file (read_items (f_data f) off) bsec esec res count 0) as [l c]. destruct c; [|reflexivity].
  rewrite rbe_files_0. reflexivity.
Qed.

Fixpoint rm_more_lists (Xs : list (list item)) (max_lines count last_sec : Z) : list item :=
  match Xs with
  | [] => []
  | X :: r =>
      if count >=? max_lines then [] else
      let '(l, c) := rm_file X max_lines last_sec count 0 in
      let last' := match l with [] => last_sec | _ => latest_second l end in
      if c then l ++ rm_more_lists r max_lines (count + lenZ l) last' else l
  end.

Definition rm_lists (Xs : list (list item)) (max_lines : Z) : list item :=
  match Xs with
  | [] => []
  | X :: r => let '(l, c) := rm_file X max_lines 0 0 0 in
              if c then l ++ rm_more_lists r max_lines (lenZ l) (latest_second l) else l
  end.

Lemma rm_more_0 rem m : forall count last,
  rm_more rem m count last = rm_more_lists (reads0 rem) m count last.
Proof.
  induction rem as [|f r IH]; intros count last; [reflexivity|]. cbn [rm_more reads0 map rm_more_lists].
  destruct (count >=? m); [reflexivity|].
  destruct (rm_file (read_items (f_data f) 0) m last count 0) as [l c]. destruct c; [|reflexivity].
  rewrite IH. reflexivity.
Qed.

Lemma rm_files_lists rem off m : rm_files rem off m = rm_lists (reads rem off) m.
Proof.
  destruct rem as [|f r]; [reflexivity|]. cbn [rm_files reads rm_lists].
  destruct (rm_file (read_items (f_data f) off) m 0 0 0) as [l c]. destruct c; [|reflexivity].
  rewrite rm_more_0. reflexivity.
Qed.

(* ---------------------------------------------------------------- sorted item lists *)

Lemma sorted_sec_app_inv a b : sorted_sec (a ++ b) ->
  sorted_sec a /\ sorted_sec b /\ (forall x y, In x a -> In y b -> sec_of x <= sec_of y).
Proof.
  induction a as [|z r IH]; intros H; cbn [app sorted_sec] in *.
  - repeat split; [exact H|]. intros x y [].
  - destruct H as [H1 H2]. destruct (IH H2) as (Ha & Hb & Hc). apply Forall_app in H1. destruct H1 as [H1a H1b].
    repeat split; try assumption. intros x y [<-|Hx] Hy.
    + rewrite Forall_forall in H1b. apply H1b. exact Hy.
    + apply Hc; assumption.
Qed.

Lemma sorted_sec_app a b : sorted_sec a -> sorted_sec b ->
  (forall x y, In x a -> In y b -> sec_of x <= sec_of y) -> sorted_sec (a ++ b).
Proof.
  induction a as [|z r IH]; intros Ha Hb Hc; cbn [app sorted_sec] in *; [exact Hb|].
  destruct Ha as [H1 H2]. split.
  - apply Forall_app. split; [exact H1|]. apply Forall_forall. intros y Hy. apply Hc; [left; reflexivity|exact Hy].
  - apply IH; [exact H2|exact Hb|]. intros x y Hx Hy. apply Hc; [right; exact Hx|exact Hy].
Qed.

Lemma sorted_sec_firstn n l : sorted_sec l -> sorted_sec (firstn n l).
Proof. intros H. rewrite <- (firstn_skipn n l) in H. apply sorted_sec_app_inv in H. tauto. Qed.

Lemma filter_all {A} (p : A -> bool) l : (forall x, In x l -> p x = true) -> filter p l = l.
Proof.
  induction l as [|x r IH]; intros H; [reflexivity|]. cbn [filter]. rewrite (H x (or_introl eq_refl)).
  f_equal. apply IH. intros y Hy. apply H. right. exact Hy.
Qed.

Lemma filter_none {A} (p : A -> bool) l : (forall x, In x l -> p x = false) -> filter p l = [].
Proof.
  induction l as [|x r IH]; intros H; [reflexivity|]. cbn [filter]. rewrite (H x (or_introl eq_refl)).
  apply IH. intros y Hy. apply H. right. exact Hy.
Qed.

(* ---------------------------------------------------------------- ReadMetricsByEndTime *)

Definition rmatch (bsec esec : Z) (res : bytes) (it : item) : bool :=
  (bsec <=? sec_of it) && (sec_of it <=? esec) && res_match res it.

Lemma rbe_file_spec bsec esec res its : forall prev n,
  prev + n < max_item_amount -> (forall x, In x its -> bsec <= sec_of x) -> sorted_sec its ->
  let b := Z.to_nat (max_item_amount - prev - n) in
  let F := filter (rmatch bsec esec res) its in
  fst (rbe_file its bsec esec res prev n) = firstn b F /\
  (if snd (rbe_file its bsec esec res prev n) then lenZ F < max_item_amount - prev - n
   else (b <= length F)%nat \/ exists x, In x its /\ esec < sec_of x).
Proof.
  induction its as [|it r IH]; intros prev n Hb Hge Hs; cbn zeta.
  - cbn [rbe_file filter fst snd firstn]. rewrite firstn_nil. split; [reflexivity|]. unfold lenZ. cbn [length]. lia.
  - cbn [rbe_file]. destruct Hs as [Hs1 Hs2].
    assert (Hge' : forall x, In x r -> bsec <= sec_of x) by (intros x Hx; apply Hge; right; exact Hx).
    pose proof (Hge it (or_introl eq_refl)) as Hit.
    destruct ((sec_of it <? bsec) || (sec_of it >? esec)) eqn:Eout.
    + (* beyond the end second: everything after is, too *)
      assert (Hgt : esec < sec_of it) by lia.
      assert (EF : filter (rmatch bsec esec res) (it :: r) = []).
      { apply filter_none. intros x [<-|Hx]; unfold rmatch; [lia|].
        rewrite Forall_forall in Hs1. specialize (Hs1 x Hx). lia. }
      rewrite EF. cbn [fst snd]. rewrite firstn_nil. split; [reflexivity|]. right. exists it. split; [left; reflexivity|lia].
    + fold (res_match res it).
      assert (Em : rmatch bsec esec res it = res_match res it).
      { unfold rmatch. replace ((bsec <=? sec_of it) && (sec_of it <=? esec)) with true by lia. reflexivity. }
      cbn [filter]. rewrite Em.
      destruct (res_match res it) eqn:Ek.
      * destruct (n + 1 + prev >=? max_item_amount) eqn:Efull.
        -- cbn [fst snd]. replace (Z.to_nat (max_item_amount - prev - n)) with 1%nat by lia. cbn [firstn].
           split; [reflexivity|]. left. cbn [length]. lia.
        -- specialize (IH prev (n + 1) ltac:(lia) Hge' Hs2). cbn zeta in IH.
           destruct (rbe_file r bsec esec res prev (n + 1)) as [l c]. cbn [fst snd] in *. destruct IH as [IH1 IH2].
           replace (Z.to_nat (max_item_amount - prev - n)) with (S (Z.to_nat (max_item_amount - prev - (n + 1)))) by lia.
           cbn [firstn]. rewrite IH1. split; [reflexivity|]. destruct c.
           ++ unfold lenZ in *. cbn [length]. lia.
           ++ destruct IH2 as [IH2|(x & Hx & Hxs)]; [left; cbn [length]; lia|right; exists x; split; [right; exact Hx|exact Hxs]].
      * destruct (n + prev >=? max_item_amount) eqn:Efull; [lia|].
        specialize (IH prev n Hb Hge' Hs2). cbn zeta in IH.
        destruct (rbe_file r bsec esec res prev n) as [l c]. cbn [fst snd] in *. destruct IH as [IH1 IH2].
        split; [exact IH1|]. destruct c; [exact IH2|].
        destruct IH2 as [IH2|(x & Hx & Hxs)]; [left; exact IH2|right; exists x; split; [right; exact Hx|exact Hxs]].
Qed.

Lemma rbe_lists_spec bsec esec res Xs : forall count,
  count < max_item_amount -> (forall x, In x (concat Xs) -> bsec <= sec_of x) -> sorted_sec (concat Xs) ->
  rbe_lists Xs bsec esec res count =
  firstn (Z.to_nat (max_item_amount - count)) (filter (rmatch bsec esec res) (concat Xs)).
Proof.
  induction Xs as [|X r IH]; intros count Hc Hge Hs; cbn [rbe_lists concat]; [rewrite firstn_nil; reflexivity|].
  cbn [concat] in Hge, Hs. destruct (sorted_sec_app_inv _ _ Hs) as (HsX & HsR & Hcross).
  assert (HgeX : forall x, In x X -> bsec <= sec_of x) by (intros x Hx; apply Hge; apply in_or_app; left; exact Hx).
  assert (HgeR : forall x, In x (concat r) -> bsec <= sec_of x) by (intros x Hx; apply Hge; apply in_or_app; right; exact Hx).
  pose proof (rbe_file_spec bsec esec res X count 0 ltac:(lia) HgeX HsX) as Hf. cbn zeta in Hf.
  destruct (rbe_file X bsec esec res count 0) as [l c]. cbn [fst snd] in Hf. destruct Hf as [Hl Hc2].
  rewrite Z.sub_0_r in *. rewrite filter_app. set (FX := filter (rmatch bsec esec res) X) in *.
  destruct c.
  - assert (El : l = FX) by (rewrite Hl; apply firstn_all2; unfold lenZ in Hc2; lia). rewrite El.
    assert (Hc3 : count + lenZ FX < max_item_amount) by lia.
    rewrite (IH (count + lenZ FX) Hc3 HgeR HsR).
    replace (Z.to_nat (max_item_amount - count)) with (length FX + Z.to_nat (max_item_amount - (count + lenZ FX)))%nat
      by (unfold lenZ in *; lia).
    rewrite firstn_app_2. reflexivity.
  - rewrite Hl. destruct Hc2 as [Hc2|(x & Hx & Hxs)].
    + rewrite firstn_app. replace (Z.to_nat (max_item_amount - count) - length FX)%nat with O by lia.
      cbn [firstn]. rewrite app_nil_r. reflexivity.
    + rewrite (filter_none _ (concat r)); [rewrite app_nil_r; reflexivity|].
      intros y Hy. specialize (Hcross x y Hx Hy). unfold rmatch. lia.
Qed.

(* ---------------------------------------------------------------- ReadMetrics *)

Fixpoint lsec (last : Z) (l : list item) : Z :=
  match l with [] => last | y :: r => lsec (sec_of y) r end.

Lemma lsec_rev l : forall d, match rev l with [] => d | y :: _ => sec_of y end = lsec d l.
Proof.
  induction l as [|y r IH]; intros d; [reflexivity|]. cbn [rev lsec]. rewrite <- (IH (sec_of y)).
  destruct (rev r); reflexivity.
Qed.

Lemma latest_second_lsec l : latest_second l = lsec 0 l.
Proof. unfold latest_second. apply lsec_rev. Qed.

Lemma lsec_app a b d : lsec d (a ++ b) = lsec (lsec d a) b.
Proof. revert d; induction a as [|y r IH]; intros d; [reflexivity|]. cbn [app lsec]. apply IH. Qed.

Lemma lsec_nonempty l d d' : l <> [] -> lsec d l = lsec d' l.
Proof. destruct l; [congruence|reflexivity]. Qed.

Lemma rm_file_spec m its : forall last prev n,
  exists T, its = fst (rm_file its m last prev n) ++ T /\
  (if snd (rm_file its m last prev n) then T = [] /\ prev + n + lenZ (fst (rm_file its m last prev n)) < m
   else m <= prev + n + lenZ (fst (rm_file its m last prev n))) /\
  (forall i x, nth_error (fst (rm_file its m last prev n)) i = Some x -> m <= prev + n + Z.of_nat i ->
     sec_of x = lsec last (firstn i (fst (rm_file its m last prev n)))).
Proof.
  induction its as [|it r IH]; intros last prev n; cbn [rm_file].
  - exists []. cbn [fst snd]. repeat split.
    + unfold lenZ. cbn [length]. destruct (prev + n <? m) eqn:E; [split; [reflexivity|lia]|lia].
    + intros [|i] x H; discriminate.
  - destruct ((prev + n >=? m) && negb (sec_of it =? last)) eqn:Estop.
    + exists (it :: r). cbn [fst snd]. repeat split; [unfold lenZ; cbn [length]; lia|]. intros [|i] x H; discriminate.
    + destruct (IH (sec_of it) prev (n + 1)) as (T & E & Hc & Hx).
      destruct (rm_file r m (sec_of it) prev (n + 1)) as [l c]. cbn [fst snd] in *. exists T. split; [|split].
      * cbn [app]. f_equal. exact E.
      * unfold lenZ in *. cbn [length]. destruct c; [split; [tauto|lia]|lia].
      * intros [|i] x Hn Hm; cbn [nth_error firstn lsec] in *.
        -- inversion Hn; subst. lia.
        -- apply Hx; [exact Hn|lia].
Qed.

Lemma rm_more_spec m Xs : forall acc,
  let P := rm_more_lists Xs m (lenZ acc) (lsec 0 acc) in
  exists T, concat Xs = P ++ T /\ (T = [] \/ m <= lenZ (acc ++ P)) /\
  (forall i x, nth_error (acc ++ P) i = Some x -> (length acc <= i)%nat -> m <= Z.of_nat i ->
     sec_of x = lsec 0 (firstn i (acc ++ P))).
Proof.
  induction Xs as [|X r IH]; intros acc; cbn zeta; cbn [rm_more_lists concat].
  - exists []. rewrite !app_nil_r. repeat split; [left; reflexivity|]. intros i x H Hi _.
    apply nth_error_None in Hi. congruence.
  - destruct (lenZ acc >=? m) eqn:Efull.
    + exists (X ++ concat r). rewrite !app_nil_r. repeat split; [right; lia|]. intros i x H Hi _.
      apply nth_error_None in Hi. congruence.
    + destruct (rm_file_spec m X (lsec 0 acc) (lenZ acc) 0) as (T0 & E0 & Hc0 & Hx0).
      destruct (rm_file X m (lsec 0 acc) (lenZ acc) 0) as [l c]. cbn [fst snd] in *.
      assert (Elast : match l with [] => lsec 0 acc | _ => latest_second l end = lsec 0 (acc ++ l)).
      { rewrite lsec_app. destruct l; [reflexivity|]. rewrite latest_second_lsec. apply lsec_nonempty. discriminate. }
      rewrite Elast.
      assert (Hidx : forall i x, nth_error (acc ++ l) i = Some x -> (length acc <= i)%nat -> m <= Z.of_nat i ->
                sec_of x = lsec 0 (firstn i (acc ++ l))).
      { intros i x Hn Hi Hm. rewrite nth_error_app2 in Hn by exact Hi.
        rewrite firstn_app, firstn_all2 by lia. rewrite lsec_app. apply Hx0; [exact Hn|unfold lenZ; lia]. }
      destruct c.
      * destruct Hc0 as [-> Hlt]. rewrite app_nil_r in E0. subst X.
        replace (lenZ acc + lenZ l) with (lenZ (acc ++ l)) by apply lenZ_app.
        destruct (IH (acc ++ l)) as (T & E & Hc & Hx). cbn zeta in *. exists T. split; [|split].
        -- rewrite E, app_assoc. reflexivity.
        -- rewrite app_assoc. exact Hc.
        -- intros i x Hn Hi Hm. rewrite app_assoc in *.
           destruct (Nat.lt_ge_cases i (length (acc ++ l))) as [Hil|Hil].
           ++ rewrite nth_error_app1 in Hn by exact Hil. rewrite firstn_app.
              replace (i - length (acc ++ l))%nat with O by lia. cbn [firstn]. rewrite app_nil_r. apply Hidx; assumption.
           ++ apply Hx; assumption.
      * exists (T0 ++ concat r). split; [|split].
        -- rewrite E0, app_assoc. reflexivity.
        -- right. rewrite lenZ_app. lia.
        -- exact Hidx.
Qed.

Lemma rm_lists_spec m Xs :
  let P := rm_lists Xs m in
  exists T, concat Xs = P ++ T /\ (T = [] \/ m <= lenZ P) /\
  (forall i x, nth_error P i = Some x -> m <= Z.of_nat i -> sec_of x = latest_second (firstn i P)).
Proof.
  destruct Xs as [|X r]; cbn zeta; cbn [rm_lists concat].
  - exists []. repeat split; [left; reflexivity|]. intros [|i] x H; discriminate.
  - destruct (rm_file_spec m X 0 0 0) as (T0 & E0 & Hc0 & Hx0).
    destruct (rm_file X m 0 0 0) as [l c]. cbn [fst snd] in *.
    assert (Hidx : forall i x, nth_error l i = Some x -> m <= Z.of_nat i -> sec_of x = lsec 0 (firstn i l)).
    { intros i x Hn Hm. apply Hx0; [exact Hn|lia]. }
    destruct c.
    + destruct Hc0 as [-> Hlt]. rewrite app_nil_r in E0. subst X. rewrite latest_second_lsec.
      destruct (rm_more_spec m r l) as (T & E & Hc & Hx). cbn zeta in *. exists T. split; [|split].
      * rewrite E, app_assoc. reflexivity.
      * exact Hc.
      * intros i x Hn Hm. rewrite latest_second_lsec.
        destruct (Nat.lt_ge_cases i (length l)) as [Hil|Hil].
        -- rewrite nth_error_app1 in Hn by exact Hil. rewrite firstn_app.
           replace (i - length l)%nat with O by lia. cbn [firstn]. rewrite app_nil_r. apply Hidx; assumption.
        -- apply Hx; assumption.
    + exists (T0 ++ concat r). split; [|split].
      * rewrite E0, app_assoc. reflexivity.
      * right. lia.
      * intros i x Hn Hm. rewrite latest_second_lsec. apply Hidx; assumption.
Qed.

(* ---------------------------------------------------------------- both readers against the spec *)

(* V = B ++ X: B the retained items before the start position (all before the begin second),
   X = concat Xs what the reader walks through (all from the begin second on) *)
Lemma read_range_ok b e res B Xs :
  (forall x, In x B -> sec_of x < b / 1000) -> (forall x, In x (concat Xs) -> b / 1000 <= sec_of x) ->
  sorted_sec (concat Xs) ->
  rbe_lists Xs (b / 1000) (e / 1000) res 0 = range_spec b e res (B ++ concat Xs).
Proof.
  intros HB HX Hs. rewrite rbe_lists_spec by (try assumption; unfold max_item_amount; lia).
  unfold range_spec. rewrite Z.sub_0_r, filter_app. rewrite (filter_none _ B); [reflexivity|].
  intros x Hx. specialize (HB x Hx). lia.
Qed.

Lemma read_from_ok b m B Xs :
  (forall x, In x B -> sec_of x < b / 1000) -> (forall x, In x (concat Xs) -> b / 1000 <= sec_of x) ->
  from_spec b m (B ++ concat Xs) (rm_lists Xs m).
Proof.
  intros HB HX. unfold from_spec. cbn zeta. rewrite filter_app.
  rewrite (filter_none _ B) by (intros x Hx; specialize (HB x Hx); lia).
  rewrite (filter_all _ (concat Xs)) by (intros x Hx; specialize (HX x Hx); lia). cbn [app].
  destruct (rm_lists_spec m Xs) as (T & E & Hc & Hx). cbn zeta in *. split; [|split].
  - exists T. exact E.
  - destruct Hc as [->|Hc]; [left; rewrite app_nil_r in E; symmetry; exact E|right; exact Hc].
  - exact Hx.
Qed.
