(* C17, part 7: assembly.  Every query of every history returns what the item-level
   specification says (search_complete_sound), also when the last data file or its idx file is
   cut at an arbitrary byte (truncation_safe); the retained items are a suffix of the accepted ones. *)
From SG Require Import Base.Prelude Base.GoInt Model.MLBytes Model.MLDecimal Model.MetricLog
  Model.MetricLogSpec Proofs.MLBytesProofs Proofs.MetricLogLineProofs Proofs.MetricLogBoundProofs
  Proofs.MetricLogWriterProofs Proofs.MetricLogViewProofs Proofs.MetricLogReadProofs
  Proofs.MetricLogSearchProofs.

(* ---------------------------------------------------------------- views of a directory *)

Definition cut_both (cd ci : Z) (f : file) : file :=
  mkFile (f_day f) (f_seq f) (takeZ cd (f_data f)) (takeZ ci (f_idx f)).

Lemma cut_both_none f cd ci : lenZ (f_data f) <= cd -> lenZ (f_idx f) <= ci -> cut_both cd ci f = f.
Proof. intros H1 H2. unfold cut_both. rewrite !takeZ_all by assumption. destruct f; reflexivity. Qed.

Lemma file_view_uncut f gs : frep f gs -> gfile_ok gs ->
  exists ki, SView f (gs, ki, lenZ (f_data f)) /\ (length gs <= ki)%nat.
Proof.
  intros Hr Hok. destruct (cut_view f gs (lenZ (f_data f)) (lenZ (f_idx f)) Hr Hok) as (ki & Hv & Hle & Hvis).
  fold (cut_both (lenZ (f_data f)) (lenZ (f_idx f)) f) in Hv. rewrite cut_both_none in Hv by lia.
  exists ki. split; [exact Hv|]. destruct (length gs) as [|n] eqn:En; [lia|].
  assert (n < ki)%nat; [|lia]. apply Hvis; [|lia]. destruct Hr as [_ Hi]. rewrite Hi. unfold lenZ.
  rewrite enc_entries_length, entries_length, En. lia.
Qed.

Lemma views_uncut fs G : Forall2 frep fs G -> Forall gfile_ok G ->
  exists vs, Forall2 SView fs vs /\ map vg vs = G /\ Forall vfull vs /\ Forall (fun v => vitems v = gitems (vg v)) vs.
Proof.
  induction 1 as [|f gs fs G Hr _ IH]; intros Hok.
  - exists []. repeat split; constructor.
  - inversion Hok as [|? ? Hg Hok']; subst. destruct (IH Hok') as (vs & H1 & H2 & H3 & H4).
    destruct (file_view_uncut f gs Hr Hg) as (ki & Hv & Hle).
    exists ((gs, ki, lenZ (f_data f)) :: vs). split; [constructor; assumption|]. split; [cbn [map vg fst]; f_equal; exact H2|].
    split; [constructor; [exact Hle|exact H3]|]. constructor; [|exact H4].
    unfold vitems, vg. cbn [fst]. apply vis_full. destruct Hr as [-> _]. lia.
Qed.

Lemma TInv_gfile_ok latest G : TInv latest G -> Forall gfile_ok G.
Proof.
  intros (H1 & H2 & _ & _ & H5 & _). apply Forall_forall. intros gs Hin. rewrite Forall_forall in H1, H2, H5.
  split; [apply H1; exact Hin|]. split; [apply H2; exact Hin|apply H5; exact Hin].
Qed.

(* the directory with its last file cut (data at cd, idx at ci), as a search context *)
Lemma ctx_cut c w g st cd ci : WInv c w g -> CI w g st ->
  exists init cur Gi gs vinit ki,
    w_fs w = init ++ [cur] /\ gs_files g = Gi ++ [gs] /\
    SearchCtx (init ++ [cut_both cd ci cur]) (vinit ++ [((gs, ki, cd) : view)]) (w_day w, w_seq w) st /\
    map vg vinit = Gi /\ Forall (fun v => vitems v = gitems (vg v)) vinit /\ (ki <= length gs)%nat /\
    (forall j, 16 * (Z.of_nat j + 1) <= ci -> (j < length gs)%nat -> (j < ki)%nat).
Proof.
  intros (HS & HT & _) HC. pose proof (TInv_gfile_ok _ _ HT) as Hok.
  destruct HS as (HF & Hs & init & cur & E & Ed & Eq). rewrite E in HF.
  destruct (Forall2_snoc_l _ _ _ _ HF) as (Gi & gs & EG & HFi & Hrc). rewrite EG in Hok.
  apply Forall_app in Hok. destruct Hok as [Hoki Hokc]. inversion Hokc as [|? ? Hokg _]; subst.
  destruct (views_uncut init Gi HFi Hoki) as (vinit & Hv1 & Hv2 & Hv3 & Hv4).
  destruct (cut_view cur gs cd ci Hrc Hokg) as (ki & Hvc & Hle & Hvis). fold (cut_both cd ci cur) in Hvc.
  exists init, cur, Gi, gs, vinit, ki. split; [exact E|]. split; [exact EG|]. split; [|repeat split; assumption].
  rewrite E in Hs. destruct (names_sorted_snoc_inv _ _ Hs) as [Hs1 Hl].
  assert (Evg : map vg (vinit ++ [((gs, ki, cd) : view)]) = gs_files g).
  { rewrite map_app, Hv2, EG. reflexivity. }
  assert (Enm : map nm (init ++ [cut_both cd ci cur]) = map nm (w_fs w)).
  { rewrite E, !map_app. reflexivity. }
  constructor.
  - apply names_sorted_snoc; [exact Hs1|]. eapply Forall_impl; [|exact Hl]. intros f Hf. exact Hf.
  - apply Forall2_snoc; assumption.
  - apply Forall_forall. intros v Hv. pose proof (TInv_gfile_ok _ _ HT) as Hok. rewrite Forall_forall in Hok.
    apply Hok. rewrite <- Evg. apply in_map. exact Hv.
  - rewrite Evg. apply HT.
  - rewrite Evg, Enm. exact HC.
  - exists vinit, (gs, ki, cd). split; [reflexivity|exact Hv3].
  - apply Forall_app. split.
    + eapply Forall_impl; [|exact Hl]. intros f Hf. cbn beta in Hf. intros Hlt. rewrite <- Ed, <- Eq in Hlt.
      apply (name_lt_pair cur f) in Hlt. apply name_lt_asym in Hlt. unfold name_lt in Hf. congruence.
    + constructor; [|constructor]. unfold nm, cut_both, pair_lt. cbn [f_day f_seq fst snd]. lia.
Qed.

(* ---------------------------------------------------------------- sortedness of the retained items *)

Lemma same_sec_sorted s l : Forall (fun it => valid_item it /\ sec_of it = s) l -> sorted_sec l.
Proof.
  induction 1 as [|x r [_ Hx] Hr IH]; [exact I|]. split; [|exact IH].
  eapply Forall_impl; [|exact Hr]. cbn beta. intros y [_ Hy]. lia.
Qed.

Lemma gitems_sorted gs : Forall group_ok gs -> inc_le (map fst gs) -> sorted_sec (gitems gs).
Proof.
  induction gs as [|g r IH]; intros Hok Hle; [exact I|]. inversion Hok as [|? ? Hg Hr]; subst.
  cbn [map] in Hle. destruct Hle as [Hle1 Hle2]. cbn [gitems flat_map]. apply sorted_sec_app.
  - destruct Hg as (_ & _ & Hf). eapply same_sec_sorted. exact Hf.
  - apply IH; assumption.
  - intros x y Hx Hy. destruct Hg as (_ & _ & Hf). rewrite Forall_forall in Hf. destruct (Hf x Hx) as [_ ->].
    destruct (item_group r y Hr Hy) as (g' & Hg' & ->). rewrite Forall_forall in Hle1. apply Hle1. apply in_map. exact Hg'.
Qed.

Lemma retained_sorted G : Forall (Forall group_ok) G -> inc_le (allsecs G) -> sorted_sec (flat_map gitems G).
Proof.
  induction G as [|gs r IH]; intros Hok Hle; [exact I|]. inversion Hok as [|? ? Hg Hr]; subst.
  change (allsecs (gs :: r)) with (map fst gs ++ allsecs r) in Hle. destruct (inc_le_app_inv _ _ Hle) as (Ha & Hb & Hc).
  cbn [flat_map]. apply sorted_sec_app.
  - apply gitems_sorted; assumption.
  - apply IH; assumption.
  - intros x y Hx Hy. destruct (item_group gs x Hg Hx) as (g1 & Hg1 & ->).
    apply in_flat_map in Hy. destruct Hy as (gs' & Hgs' & Hy). rewrite Forall_forall in Hr.
    destruct (item_group gs' y (Hr gs' Hgs') Hy) as (g2 & Hg2 & ->). apply Hc; [apply in_map; exact Hg1|].
    eapply allsecs_in; [exact Hgs'|apply in_map; exact Hg2].
Qed.

Lemma retained_cut_prefix cd g Gi gs : gs_files g = Gi ++ [gs] ->
  retained_cut cd g = flat_map gitems Gi ++ vis_items cd (gitems gs) /\
  exists k, retained_cut cd g = firstn k (retained g).
Proof.
  intros E. unfold retained_cut, retained, g_cur. rewrite E, removelast_last, last_last. split; [reflexivity|].
  exists (length (flat_map gitems Gi) + length (vis_items cd (gitems gs)))%nat.
  rewrite flat_map_app. cbn [flat_map]. rewrite app_nil_r, firstn_app_2. f_equal. apply vis_prefix.
Qed.

Lemma retained_cut_full cd g Gi gs : gs_files g = Gi ++ [gs] -> lenZ (enc_lines (gitems gs)) <= cd ->
  retained_cut cd g = retained g.
Proof.
  intros E H. destruct (retained_cut_prefix cd g Gi gs E) as [-> _]. unfold retained. rewrite E, flat_map_app.
  cbn [flat_map]. rewrite app_nil_r, vis_full by exact H. reflexivity.
Qed.

(* ---------------------------------------------------------------- one query *)

Lemma find_ok_none V q : (forall x, In x V -> sec_of x < q_begin q / 1000) -> find_ok V q [].
Proof.
  intros H. destruct q as [b e res|b m]; cbn [find_ok q_begin] in *.
  - unfold range_spec. rewrite filter_none; [rewrite firstn_nil; reflexivity|]. intros x Hx. specialize (H x Hx). lia.
  - unfold from_spec. cbn zeta. rewrite filter_none by (intros x Hx; specialize (H x Hx); lia).
    split; [exists []; reflexivity|]. split; [left; reflexivity|]. intros [|i] x Hn; discriminate.
Qed.

Lemma find_ok_incl V q res : find_ok V q res -> incl res V.
Proof.
  destruct q as [b e r|b m]; cbn [find_ok].
  - intros -> x Hx. unfold range_spec in Hx. apply In_firstn in Hx. apply filter_In in Hx. tauto.
  - intros ((T & E) & _) x Hx. assert (Hin : In x (filter (fun it => b / 1000 <=? sec_of it) V)).
    { rewrite E. apply in_or_app. left. exact Hx. }
    apply filter_In in Hin. tauto.
Qed.

(* the search over the directory whose last file is cut at (cd, ci) *)
Lemma search_cut_spec c w g st q cd ci : WInv c w g -> CI w g st ->
  exists init cur gs ki,
    w_fs w = init ++ [cur] /\ g_cur g = gs /\ (ki <= length gs)%nat /\
    (forall j, 16 * (Z.of_nat j + 1) <= ci -> (j < length gs)%nat -> (j < ki)%nat) /\
    let fs' := init ++ [cut_both cd ci cur] in
    let res := snd (search fs' st q) in
    CI w g (fst (search fs' st q)) /\
    (find_ok (retained_cut cd g) q res \/
     (res = [] /\ Forall (fun s => s < q_begin q / 1000) (allsecs (removelast (gs_files g)) ++ firstn ki (map fst gs)))).
Proof.
  intros HW HC. destruct (ctx_cut c w g st cd ci HW HC) as (init & cur & Gi & gs & vinit & ki & E & EG & Hctx & Hv2 & Hv4 & Hle & Hvis).
  exists init, cur, gs, ki. split; [exact E|]. split; [unfold g_cur; rewrite EG; apply last_last|].
  split; [exact Hle|]. split; [exact Hvis|]. cbn zeta.
  destruct (search_spec _ _ _ _ q Hctx) as [Hc Hres]. cbn zeta in Hres.
  assert (Evg : map vg (vinit ++ [((gs, ki, cd) : view)]) = gs_files g) by (rewrite map_app, Hv2, EG; reflexivity).
  assert (Enm : map nm (init ++ [cut_both cd ci cur]) = map nm (w_fs w)) by (rewrite E, !map_app; reflexivity).
  split; [unfold CI; rewrite <- Evg, <- Enm; exact Hc|].
  assert (EV : flat_map vitems (vinit ++ [((gs, ki, cd) : view)]) = retained_cut cd g).
  { destruct (retained_cut_prefix cd g Gi gs EG) as [-> _]. rewrite flat_map_app. cbn [flat_map vitems]. rewrite app_nil_r.
    f_equal. rewrite <- Hv2. clear - Hv4. induction Hv4 as [|v r Hv _ IH]; [reflexivity|]. cbn [flat_map map]. rewrite Hv, IH. reflexivity. }
  destruct HW as (_ & HT & _).
  assert (Hsorted : sorted_sec (retained_cut cd g)).
  { destruct (retained_cut_prefix cd g Gi gs EG) as [_ [k ->]]. apply sorted_sec_firstn. apply retained_sorted; apply HT. }
  destruct Hres as [(B & Xs & EB & HB & HX & Er)|[Er Hlt]].
  - left. rewrite Er. rewrite EV in EB. rewrite EB in *.
    destruct q as [b e res|b m]; cbn [find_ok reader q_begin] in *.
    + apply read_range_ok; try assumption. apply sorted_sec_app_inv in Hsorted. tauto.
    + apply read_from_ok; assumption.
  - right. split; [exact Er|]. apply Forall_app in Hlt. destruct Hlt as [Hl1 Hl2].
    apply Forall_cons_iff in Hl2. destruct Hl2 as [Hl3 _]. unfold vg_lt, vsecs in Hl3. apply Forall_app. split; [|exact Hl3].
    rewrite EG, removelast_last, <- Hv2. clear - Hl1 Hctx. destruct Hctx as [_ _ _ _ _ (vi & vl & Evs & Hfull) _].
    apply app_inj_tail in Evs. destruct Evs as [<- _].
    induction vinit as [|v r IH]; [constructor|]. inversion Hl1; subst. inversion Hfull; subst. cbn [map].
    change (allsecs (vg v :: map vg r)) with (map fst (vg v) ++ allsecs (map vg r)). apply Forall_app. split.
    + rewrite <- vfull_secs by assumption. assumption.
    + apply IH; assumption.
Qed.

Lemma lt_secs_items G bsec x : Forall (Forall group_ok) G -> Forall (fun s => s < bsec) (allsecs G) ->
  In x (flat_map gitems G) -> sec_of x < bsec.
Proof.
  intros Hok Hlt Hx. apply in_flat_map in Hx. destruct Hx as (gs & Hgs & Hx). rewrite Forall_forall in Hok.
  destruct (item_group gs x (Hok gs Hgs) Hx) as (g0 & Hg0 & ->). rewrite Forall_forall in Hlt. apply Hlt.
  eapply allsecs_in; [exact Hgs|apply in_map; exact Hg0].
Qed.

(* the intact directory *)
Lemma search_uncut c w g st q : WInv c w g -> CI w g st ->
  CI w g (fst (search (w_fs w) st q)) /\ find_ok (retained g) q (snd (search (w_fs w) st q)).
Proof.
  intros HW HC.
  destruct (ctx_cut c w g st 0 0 HW HC) as (init0 & cur0 & Gi & gs0 & _ & _ & E0 & EG & _).
  pose proof HW as (HS & HT & _). destruct HS as (HF & _). rewrite E0, EG in HF. apply Forall2_snoc_inv in HF.
  destruct HF as [_ [Hd Hi]].
  destruct (search_cut_spec c w g st q (lenZ (f_data cur0)) (lenZ (f_idx cur0)) HW HC)
    as (init & cur & gs & ki & E & Ecur & Hle & Hvis & Hres).
  rewrite E in E0. apply app_inj_tail in E0. destruct E0 as [-> ->]. cbn zeta in Hres.
  rewrite cut_both_none in Hres by lia. rewrite <- E in Hres. destruct Hres as [Hc Hres]. split; [exact Hc|].
  assert (Egs : gs = gs0) by (unfold g_cur in Ecur; rewrite EG, last_last in Ecur; congruence). subst gs0.
  rewrite (retained_cut_full _ g Gi gs EG) in Hres by (rewrite Hd; lia).
  destruct Hres as [Hres|[-> Hlt]]; [exact Hres|]. apply find_ok_none. intros x Hx.
  assert (Hki : ki = length gs).
  { destruct (length gs) as [|n] eqn:En; [lia|]. assert (n < ki)%nat; [|lia]. apply Hvis; [|lia].
    rewrite Hi. unfold lenZ. rewrite enc_entries_length, entries_length, En. lia. }
  rewrite Hki in Hlt. rewrite (firstn_all2 (map fst gs)) in Hlt by (rewrite map_length; apply Nat.le_refl).
  eapply (lt_secs_items (gs_files g)); [apply HT| |exact Hx].
  rewrite EG, removelast_last in Hlt. rewrite EG, allsecs_snoc. exact Hlt.
Qed.

(* ---------------------------------------------------------------- histories *)

Lemma run_cons c y o r : run c y (o :: r) =
  (fst (run c (fst (step c y o)) r), snd (step c y o) :: snd (run c (fst (step c y o)) r)).
Proof.
  cbn [run]. destruct (step c y o) as [y1 out]. cbn [fst snd]. destruct (run c y1 r) as [y2 outs]. reflexivity.
Qed.

Lemma run_inv c t0 : good_cfg c t0 -> forall ops y g, Forall good_op ops ->
  WInv c (y_w y) g -> CI (y_w y) g (y_s y) ->
  outs_ok c g ops (snd (run c y ops)) /\
  WInv c (y_w (fst (run c y ops))) (g_run c g ops) /\
  CI (y_w (fst (run c y ops))) (g_run c g ops) (y_s (fst (run c y ops))).
Proof.
  intros Hcfg. induction ops as [|o r IH]; intros y g Hops HW HC.
  - cbn. tauto.
  - inversion Hops as [|? ? Ho Hr]; subst. rewrite run_cons. cbn [fst snd outs_ok g_run fold_left].
    destruct o as [ts tstr items|q]; cbn [step g_step fst snd].
    + destruct (w_write_inv c t0 (y_w y) g (y_s y) ts tstr items Hcfg Ho HW HC) as [HW' HC'].
      destruct (IH (mkSys (w_write c (y_w y) ts tstr items) (y_s y)) _ Hr HW' HC') as (H1 & H2 & H3).
      cbn [out_ok]. split; [split; [reflexivity|exact H1]|]. split; [exact H2|exact H3].
    + destruct (search_uncut c (y_w y) g (y_s y) q HW HC) as [HC' Hok].
      destruct (search (w_fs (y_w y)) (y_s y) q) as [s' res]. cbn [fst snd] in *.
      destruct (IH (mkSys (y_w y) s') g Hr HW HC') as (H1 & H2 & H3). cbn [out_ok].
      split; [split; [exact Hok|exact H1]|]. split; [exact H2|exact H3].
Qed.

Lemma CI_init c t0 : CI (w_init c t0) (g_init t0) s_init.
Proof. unfold CI, CInv. cbn. exact I. Qed.

Theorem search_complete_sound c t0 ops : good_cfg c t0 -> Forall good_op ops ->
  outs_ok c (g_init t0) ops (snd (run c (sys_init c t0) ops)).
Proof.
  intros Hc Ho. apply (run_inv c t0 Hc ops (sys_init c t0) (g_init t0) Ho).
  - apply WInv_init. exact Hc.
  - apply CI_init.
Qed.

(* the results are in timestamp order *)
Theorem retained_in_order c t0 ops : good_cfg c t0 -> Forall good_op ops ->
  sorted_sec (retained (g_run c (g_init t0) ops)).
Proof.
  intros Hc Ho. destruct (run_inv c t0 Hc ops (sys_init c t0) (g_init t0) Ho (WInv_init c t0 Hc) (CI_init c t0))
    as (_ & (_ & HT & _) & _).
  apply retained_sorted; apply HT.
Qed.

(* ---------------------------------------------------------------- truncation *)

Lemma cut_last_eq which cut init cur : names_sorted (init ++ [cur]) ->
  cut_last which cut (init ++ [cur]) =
  init ++ [cut_both (if which then lenZ (f_data cur) else cut) (if which then cut else lenZ (f_idx cur)) cur].
Proof.
  intros Hs. unfold cut_last. rewrite (sort_sorted _ Hs), rev_app_distr. cbn [rev app]. rewrite rev_involutive.
  f_equal. f_equal. unfold cut_file, cut_both.
  destruct which; [rewrite (takeZ_all (f_data cur) (lenZ (f_data cur))) by lia|rewrite (takeZ_all (f_idx cur) (lenZ (f_idx cur))) by lia];
    reflexivity.
Qed.

(* the seconds whose idx entries lie wholly before byte `cut` of the last idx file *)
Definition idx_visible_secs (cut : Z) (g : gstate) : list Z :=
  allsecs (removelast (gs_files g)) ++ firstn (Z.to_nat (cut / 16)) (map fst (g_cur g)).

Theorem truncation_safe c t0 ops which cut q : good_cfg c t0 -> Forall good_op ops ->
  let y := fst (run c (sys_init c t0) ops) in
  let g := g_run c (g_init t0) ops in
  let res := snd (search (cut_last which cut (w_fs (y_w y))) (y_s y) q) in
  incl res (retained g) /\
  (if which
   then (res = [] \/ find_ok (retained g) q res) /\
        ((exists s, In s (idx_visible_secs cut g) /\ q_begin q / 1000 <= s) -> find_ok (retained g) q res)
   else find_ok (retained_cut cut g) q res).
Proof.
  intros Hc Ho. cbn zeta.
  destruct (run_inv c t0 Hc ops (sys_init c t0) (g_init t0) Ho (WInv_init c t0 Hc) (CI_init c t0)) as (_ & HW & HC).
  set (y := fst (run c (sys_init c t0) ops)) in *. set (g := g_run c (g_init t0) ops) in *.
  destruct (ctx_cut c (y_w y) g (y_s y) 0 0 HW HC) as (init0 & cur0 & Gi & gs0 & _ & _ & E0 & EG & _).
  pose proof HW as (HS & HT & _). destruct HS as (HF & Hs & _). rewrite E0 in Hs. rewrite E0, EG in HF.
  apply Forall2_snoc_inv in HF. destruct HF as [_ [Hd Hi]].
  rewrite E0, (cut_last_eq which cut init0 cur0 Hs).
  destruct (search_cut_spec c (y_w y) g (y_s y) q (if which then lenZ (f_data cur0) else cut)
              (if which then cut else lenZ (f_idx cur0)) HW HC) as (init & cur & gs & ki & E & Ecur & Hle & Hvis & Hres).
  rewrite E in E0. apply app_inj_tail in E0. destruct E0 as [-> ->]. cbn zeta in Hres. destruct Hres as [_ Hres].
  assert (Egs : gs = gs0) by (unfold g_cur in Ecur; rewrite EG, last_last in Ecur; congruence). subst gs0.
  set (res := snd (search _ (y_s y) q)) in *.
  destruct which.
  - (* idx file cut *)
    rewrite (retained_cut_full _ g Gi gs EG) in Hres by (rewrite Hd; lia).
    split; [|split].
    + destruct Hres as [Hres|[-> _]]; [eapply find_ok_incl; exact Hres|intros x []].
    + destruct Hres as [Hres|[-> _]]; [right; exact Hres|left; reflexivity].
    + intros (s & Hin & Hge). destruct Hres as [Hres|[_ Hlt]]; [exact Hres|exfalso].
      unfold idx_visible_secs in Hin. rewrite Ecur in Hin. rewrite Forall_forall in Hlt.
      assert (In s (allsecs (removelast (gs_files g)) ++ firstn ki (map fst gs))); [|specialize (Hlt s H); lia].
      apply in_app_or in Hin. apply in_or_app. destruct Hin as [Hin|Hin]; [left; exact Hin|right].
      destruct (Nat.le_gt_cases (Z.to_nat (cut / 16)) ki) as [Hk|Hk]; [eapply In_firstn_le; [exact Hk|exact Hin]|].
      destruct (Nat.lt_ge_cases ki (length gs)) as [Hkl|Hkl].
      * (* entry number ki lies wholly before the cut, so it is visible *)
        exfalso. assert (ki < ki)%nat; [|lia]. apply Hvis; [|exact Hkl]. assert (0 <= cut / 16) by lia. lia.
      * rewrite (firstn_all2 (map fst gs)) by (rewrite map_length; exact Hkl). eapply In_firstn. exact Hin.
    - (* data file cut *)
      destruct Hres as [Hres|[Eres Hlt]].
      + split; [|exact Hres]. intros x Hx. apply (find_ok_incl _ _ _ Hres) in Hx.
        destruct (retained_cut_prefix cut g Gi gs EG) as [_ [k Ek]]. rewrite Ek in Hx. eapply In_firstn. exact Hx.
      + rewrite Eres. split; [intros x []|]. apply find_ok_none. intros x Hx.
        assert (Hki : ki = length gs).
        { destruct (length gs) as [|n] eqn:En; [lia|]. assert (n < ki)%nat; [|lia]. apply Hvis; [|lia].
          rewrite Hi. unfold lenZ. rewrite enc_entries_length, entries_length, En. lia. }
        rewrite Hki in Hlt. rewrite (firstn_all2 (map fst gs)) in Hlt by (rewrite map_length; apply Nat.le_refl).
        destruct (retained_cut_prefix cut g Gi gs EG) as [_ [k Ek]]. rewrite Ek in Hx. apply In_firstn in Hx.
        eapply (lt_secs_items (gs_files g)); [apply HT| |exact Hx].
        rewrite EG, removelast_last in Hlt. rewrite EG, allsecs_snoc. exact Hlt.
Qed.

(* ---------------------------------------------------------------- retained = a suffix of accepted *)

Lemma gitems_g_add latest sec its gs : gitems (g_add latest sec its gs) = gitems gs ++ its.
Proof.
  unfold g_add. destruct ((sec >? latest) || match gs with [] => true | _ => false end) eqn:E.
  - rewrite gitems_app. cbn [gitems flat_map snd]. rewrite app_nil_r. reflexivity.
  - destruct gs as [|g0 r0]; [rewrite orb_true_r in E; discriminate|].
    destruct (exists_last (l := g0 :: r0) ltac:(discriminate)) as (gs0 & p & ->).
    rewrite upd_last_snoc, !gitems_app. cbn [gitems flat_map fst snd]. rewrite !app_nil_r, app_assoc. reflexivity.
Qed.

Lemma retained_roll c g : (exists k, retained (g_roll c g) = skipn k (retained g)) /\ gs_files (g_roll c g) <> [].
Proof.
  unfold g_roll, retained, dropZ. cbn [gs_files]. set (n := Z.to_nat (lenZ (gs_files g) - c_max_files c + 1)). split.
  - exists (length (flat_map gitems (firstn n (gs_files g)))). rewrite flat_map_app. cbn [flat_map]. rewrite !app_nil_r.
    assert (E : flat_map gitems (gs_files g) =
                flat_map gitems (firstn n (gs_files g)) ++ flat_map gitems (skipn n (gs_files g)))
      by (rewrite <- flat_map_app, firstn_skipn; reflexivity).
    rewrite E. symmetry. apply skipn_exact. reflexivity.
  - destruct (skipn n (gs_files g)); discriminate.
Qed.

Lemma retained_upd G l its (f : list group -> list group) : G <> [] ->
  (forall gs, gitems (f gs) = gitems gs ++ its) ->
  retained (mkGS (upd_last f G) l) = flat_map gitems G ++ its /\ upd_last f G <> [].
Proof.
  intros Hne Hf. destruct (exists_last Hne) as (Gi & gs & ->). rewrite upd_last_snoc. unfold retained. cbn [gs_files].
  rewrite !flat_map_app. cbn [flat_map]. rewrite !app_nil_r, Hf, app_assoc. split; [reflexivity|]. destruct Gi; discriminate.
Qed.

Lemma skipn_norm {A} k (l m : list A) : exists k', skipn k l ++ m = skipn k' (l ++ m).
Proof.
  destruct (Nat.le_gt_cases k (length l)) as [H|H].
  - exists k. rewrite skipn_app. replace (k - length l)%nat with O by lia. reflexivity.
  - exists (length l). rewrite skipn_all2 by lia. rewrite skipn_exact by reflexivity. reflexivity.
Qed.

Definition accepts (latest ts : Z) (items : list item) : bool :=
  (match items with [] => false | _ => true end) && (0 <? ts) && (ts / 1000 >=? latest).

Lemma g_write_retained c g ts tstr items : gs_files g <> [] ->
  let a := accepts (gs_latest g) ts items in
  (exists k, retained (g_write c g ts tstr items) =
             skipn k (retained g ++ (if a then map (stamp ts tstr) items else []))) /\
  gs_files (g_write c g ts tstr items) <> [] /\
  gs_latest (g_write c g ts tstr items) = (if a then Z.max (gs_latest g) (ts / 1000) else gs_latest g).
Proof.
  intros Hne. cbn zeta. unfold g_write, accepts.
  assert (Hid : (exists k, retained g = skipn k (retained g ++ [])) /\ gs_files g <> [] /\ gs_latest g = gs_latest g).
  { split; [exists O; rewrite app_nil_r; reflexivity|]. split; [exact Hne|reflexivity]. }
  destruct items as [|it0 its0]; [exact Hid|]. set (items := it0 :: its0). cbn [andb].
  destruct (ts <=? 0) eqn:Ets; [replace (0 <? ts) with false by lia; exact Hid|]. replace (0 <? ts) with true by lia.
  destruct (ts / 1000 <? gs_latest g) eqn:Eold; [replace (ts / 1000 >=? gs_latest g) with false by lia; exact Hid|].
  replace (ts / 1000 >=? gs_latest g) with true by lia. cbn [andb]. set (sec := ts / 1000) in *.
  set (g1 := if (sec >? gs_latest g) && is_new_day c (gs_latest g) sec then g_roll c g else g).
  assert (H1 : (exists k, retained g1 = skipn k (retained g)) /\ gs_files g1 <> []).
  { unfold g1. destruct ((sec >? gs_latest g) && is_new_day c (gs_latest g) sec); [apply retained_roll|].
    split; [exists O; reflexivity|exact Hne]. }
  destruct H1 as [[k1 E1] Hne1].
  set (its := map (stamp ts tstr) items).
  destruct (retained_upd (gs_files g1) (gs_latest g) its (g_add (gs_latest g) sec its) Hne1
              (gitems_g_add (gs_latest g) sec its)) as [E2 Hne2].
  fold (retained g1) in E2. set (g2 := mkGS (upd_last (g_add (gs_latest g) sec its) (gs_files g1)) (gs_latest g)) in *.
  assert (H3 : (exists k, retained (if lenZ (enc_lines (gitems (g_cur g2))) >=? c_max_size c then g_roll c g2 else g2)
                          = skipn k (retained g2)) /\
               gs_files (if lenZ (enc_lines (gitems (g_cur g2))) >=? c_max_size c then g_roll c g2 else g2) <> []).
  { destruct (lenZ (enc_lines (gitems (g_cur g2))) >=? c_max_size c); [apply retained_roll|].
    split; [exists O; reflexivity|exact Hne2]. }
  destruct H3 as [[k3 E3] Hne3]. cbn [gs_files gs_latest]. split; [|split].
  - unfold retained at 1. cbn [gs_files]. fold (retained (if lenZ (enc_lines (gitems (g_cur g2))) >=? c_max_size c then g_roll c g2 else g2)).
    rewrite E3, E2, E1. destruct (skipn_norm k1 (retained g) its) as [k' ->]. exists (k' + k3)%nat. rewrite skipn_add. reflexivity.
  - exact Hne3.
  - destruct (sec >? gs_latest g) eqn:E; lia.
Qed.

Lemma g_run_retained c ops : forall g, gs_files g <> [] ->
  exists k, retained (g_run c g ops) = skipn k (retained g ++ accepted_from (gs_latest g) ops).
Proof.
  induction ops as [|o r IH]; intros g Hne.
  - exists O. cbn. rewrite app_nil_r. reflexivity.
  - unfold g_run. cbn [fold_left]. fold (g_run c (g_step c g o) r). destruct o as [ts tstr items|q]; cbn [g_step accepted_from].
    + destruct (g_write_retained c g ts tstr items Hne) as ([k1 E1] & Hne1 & El). cbn zeta in *.
      destruct (IH _ Hne1) as [k E]. rewrite E, E1, El. unfold accepts.
      destruct ((match items with [] => false | _ => true end) && (0 <? ts) && (ts / 1000 >=? gs_latest g)).
      * destruct (skipn_norm k1 (retained g ++ map (stamp ts tstr) items) (accepted_from (Z.max (gs_latest g) (ts / 1000)) r)) as [k' ->].
        exists (k' + k)%nat. rewrite skipn_add, <- app_assoc. reflexivity.
      * rewrite app_nil_r. destruct (skipn_norm k1 (retained g) (accepted_from (gs_latest g) r)) as [k' ->].
        exists (k' + k)%nat. rewrite skipn_add. reflexivity.
    + apply IH. exact Hne.
Qed.

(* the retained items are, at any time, a suffix of the list of all accepted items *)
Theorem retained_suffix c t0 ops : exists k, retained (g_run c (g_init t0) ops) = skipn k (accepted t0 ops).
Proof. destruct (g_run_retained c ops (g_init t0) ltac:(discriminate)) as [k E]. exists k. exact E. Qed.
