(* C17, part 1: the fat-string line format round trip and the framing of lines in a data file. *)
From SG Require Import Base.Prelude Base.GoInt Model.MLBytes Model.MLDecimal Model.MetricLog
  Proofs.MLBytesProofs.

(* what the writer can be handed: Go field ranges (uint64 / uint32 / int32), a resource name
   without the field separator or LF, and the time-string oracle without them *)
Definition valid_item (it : item) : Prop :=
  0 <= i_ts it < lim64 /\
  ~ In bar (i_tstr it) /\ ~ In 10 (i_tstr it) /\
  ~ In bar (i_res it) /\ ~ In 10 (i_res it) /\
  0 <= i_pass it < lim64 /\ 0 <= i_block it < lim64 /\ 0 <= i_complete it < lim64 /\
  0 <= i_err it < lim64 /\ 0 <= i_rt it < lim64 /\ 0 <= i_occ it < lim64 /\
  0 <= i_conc it < lim32 /\ - half32 <= i_cls it < half32.

Lemma map_nobar l : ~ In bar l -> map (fun c => if c =? bar then 95 else c) l = l.
Proof.
  induction l as [|c r IH]; intros H; cbn [map]; [reflexivity|].
  destruct (c =? bar) eqn:E.
  - exfalso. apply H. left. lia.
  - rewrite IH; [reflexivity|]. intros Hin. apply H. right. exact Hin.
Qed.

Ltac num_bounds := unfold lim64, lim32, half32, dec_bound, bar in *.

Lemma format_split it : valid_item it ->
  split_on bar (format_item it) =
  [print_uint (i_ts it); i_tstr it; i_res it; print_uint (i_pass it); print_uint (i_block it);
   print_uint (i_complete it); print_uint (i_err it); print_uint (i_rt it); print_uint (i_occ it);
   print_uint (i_conc it); print_int (i_cls it)].
Proof.
  intros (Hts & Ht1 & Ht2 & Hr1 & Hr2 & Hp & Hb & Hc & He & Hrt & Ho & Hcc & Hcl).
  unfold format_item. rewrite map_nobar by exact Hr1.
  assert (U : forall n, 0 <= n < lim64 -> ~ In bar (print_uint n)).
  { intros n Hn. apply print_uint_notin; num_bounds; lia. }
  rewrite split_on_app by (apply U; exact Hts).
  rewrite split_on_app by exact Ht1.
  rewrite split_on_app by exact Hr1.
  rewrite split_on_app by (apply U; exact Hp).
  rewrite split_on_app by (apply U; exact Hb).
  rewrite split_on_app by (apply U; exact Hc).
  rewrite split_on_app by (apply U; exact He).
  rewrite split_on_app by (apply U; exact Hrt).
  rewrite split_on_app by (apply U; exact Ho).
  rewrite split_on_app by (apply U; num_bounds; lia).
  rewrite split_on_nosep by (apply print_int_notin; num_bounds; lia).
  reflexivity.
Qed.

Lemma item_eta it :
  mkItem (i_ts it) (i_tstr it) (i_res it) (i_pass it) (i_block it) (i_complete it) (i_err it)
         (i_rt it) (i_occ it) (i_conc it) (i_cls it) = it.
Proof. destruct it; reflexivity. Qed.

Lemma line_roundtrip it : valid_item it -> parse_line (format_item it) = Some it.
Proof.
  intros Hv. pose proof (format_split it Hv) as Hs.
  destruct Hv as (Hts & Ht1 & Ht2 & Hr1 & Hr2 & Hp & Hb & Hc & He & Hrt & Ho & Hcc & Hcl).
  unfold parse_line. destruct (format_item it) as [|c0 r0] eqn:E.
  - cbn in Hs. discriminate.
  - rewrite Hs. cbn [length Nat.ltb Nat.leb nth nth_error opt_field obind].
    assert (U : forall n, 0 <= n < lim64 -> parse_uint lim64 (print_uint n) = Some n).
    { intros n Hn. apply parse_uint_print; num_bounds; lia. }
    rewrite (U _ Hts). cbn [obind]. rewrite (U _ Hp). cbn [obind]. rewrite (U _ Hb). cbn [obind].
    rewrite (U _ Hc). cbn [obind]. rewrite (U _ He). cbn [obind]. rewrite (U _ Hrt). cbn [obind].
    rewrite (U _ Ho). cbn [obind].
    rewrite (parse_uint_print lim32) by (num_bounds; lia). cbn [obind].
    rewrite (parse_int_print half32) by (num_bounds; lia). cbn [obind].
    rewrite item_eta. reflexivity.
Qed.

Lemma notin_app_sep (x s : Z) a b : ~ In x a -> x <> s -> ~ In x b -> ~ In x (a ++ s :: b).
Proof. intros Ha Hs Hb Hin. apply in_app_or in Hin. destruct Hin as [H|[H|H]]; [tauto|congruence|tauto]. Qed.

(* no LF inside a formatted line; it ends with a digit *)
Lemma format_nolf it : valid_item it -> ~ In 10 (format_item it).
Proof.
  intros (Hts & Ht1 & Ht2 & Hr1 & Hr2 & Hp & Hb & Hc & He & Hrt & Ho & Hcc & Hcl).
  unfold format_item. rewrite map_nobar by exact Hr1.
  assert (U : forall n, 0 <= n < lim64 -> ~ In 10 (print_uint n)).
  { intros n Hn. apply print_uint_notin; num_bounds; lia. }
  assert (B : 10 <> bar) by (unfold bar; lia).
  repeat (apply notin_app_sep; [first [assumption | apply U; first [assumption | num_bounds; lia]] | exact B | ]).
  apply print_int_notin; num_bounds; lia.
Qed.

Lemma format_strip_cr it : valid_item it -> strip_cr (format_item it) = format_item it.
Proof.
  intros Hv. destruct Hv as (_ & _ & _ & _ & _ & _ & _ & _ & _ & _ & _ & _ & Hcl).
  destruct (print_int_last (i_cls it)) as (p & d & E & Hd); [num_bounds; lia|].
  unfold format_item. rewrite E.
  repeat rewrite app_comm_cons. repeat rewrite app_assoc.
  apply strip_cr_snoc. unfold is_digit in Hd. lia.
Qed.

Definition parse_lines (ls : list bytes) : list item :=
  flat_map (fun ln => match parse_line (strip_cr ln) with Some it => [it] | None => [] end) ls.

Lemma read_items_eq data off : read_items data off = parse_lines (lines (dropZ off data)).
Proof. reflexivity. Qed.

Lemma parse_lines_format its : Forall valid_item its -> parse_lines (map format_item its) = its.
Proof.
  induction 1 as [|it r Hv _ IH]; [reflexivity|].
  unfold parse_lines in *. cbn [map flat_map]. rewrite format_strip_cr, line_roundtrip by exact Hv.
  rewrite IH. reflexivity.
Qed.

Lemma enc_lines_cons it r : enc_lines (it :: r) = format_item it ++ 10 :: enc_lines r.
Proof. unfold enc_lines. cbn [flat_map]. rewrite <- app_assoc. reflexivity. Qed.

Lemma enc_lines_app a b : enc_lines (a ++ b) = enc_lines a ++ enc_lines b.
Proof. unfold enc_lines. apply flat_map_app. Qed.

(* the complete lines of (encoded items ++ an unterminated tail) are exactly the items' lines *)
Lemma lines_enc its tail : Forall valid_item its -> ~ In 10 tail ->
  lines (enc_lines its ++ tail) = map format_item its.
Proof.
  intros HF Ht. induction HF as [|it r Hv _ IH].
  - cbn. apply lines_nolf. exact Ht.
  - rewrite enc_lines_cons, <- app_assoc, <- app_comm_cons.
    rewrite lines_app by (apply format_nolf; exact Hv). cbn [map]. rewrite IH. reflexivity.
Qed.

Lemma dropZ_app {A} (a b : list A) : dropZ (lenZ a) (a ++ b) = b.
Proof.
  unfold dropZ, lenZ. rewrite Nat2Z.id. rewrite skipn_app, skipn_all, Nat.sub_diag. reflexivity.
Qed.

(* reading a data file from the offset of its k-th line returns the items from k on *)
Lemma read_items_at pre its tail : Forall valid_item its -> ~ In 10 tail ->
  read_items (pre ++ enc_lines its ++ tail) (lenZ pre) = its.
Proof.
  intros HF Ht. rewrite read_items_eq, dropZ_app, lines_enc by assumption.
  apply parse_lines_format. exact HF.
Qed.

Lemma read_items_beyond data off : lenZ data <= off -> read_items data off = [].
Proof.
  intros H. rewrite read_items_eq. unfold dropZ. rewrite skipn_all2 by (unfold lenZ in H; lia).
  reflexivity.
Qed.
