(* C13 — Only valid, latest-loaded rules are in force; reported rules equal enforced; loading never
   panics; an identical reload reports 'unchanged'.  Property theorems only; every proof is
   `exact <lemma>` from Proofs/RulesProofs.v.

   The theorems about the four managers that keep  resource -> controllers  (flow, isolation,
   hotspot, circuit breaker) are stated once over the generic model (any rule type, validity,
   equality, ... and any quirks) and instantiated for the four modules below; system and outlier
   have their own statements.  Vocabulary (Proofs/RulesProofs.v):
     ok res r      r is addressed to res (where the module checks it) and a generator exists
     sim c r       the bound rule c is the loaded rule r itself, or an old rule the module considers
                   equal to r (the old controller object was kept)
     latest h res  the rules of the most recent load in history h whose scope includes res and that
                   reported a change (a load reporting 'unchanged' is a no-op: C13_unchanged_noop) *)
From Coq Require Import Floats.
From SG Require Import Base.Prelude Base.GoInt Base.GoFloat Model.Rules Proofs.RulesProofs.
#[local] Open Scope Z_scope.

Section G.
  Variable rule : Type.
  Variable valid : rule -> bool.
  Variable resource : rule -> Z.
  Variable equal stat_reusable : rule -> rule -> bool.
  Variable supported : rule -> bool.
  Variable deep_eq : rule -> rule -> bool.
  Variable q : quirks.
  Hypothesis equal_supported : forall a b, equal a b = true -> supported a = true -> supported b = true.

  Notation run := (run rule valid resource equal stat_reusable supported deep_eq q).
  Notation step := (step rule valid resource equal stat_reusable supported deep_eq q).
  Notation load_all := (load_all rule valid resource equal stat_reusable supported deep_eq q).
  Notation load_res := (load_res rule valid resource equal stat_reusable supported deep_eq q).
  Notation init := (init rule).
  Notation ok := (ok rule resource supported q).
  Notation sim := (sim rule equal).

  (* after every history, for every resource: the enforced rules are the valid (and buildable)
     rules of the latest effective load for that resource, in order *)
  Theorem C13_enforced_eq_valid_latest : forall ops res,
    Forall2 sim (enforced_rules rule (fst (run init ops)) res)
                (filter (fun r => valid r && ok res r)
                        (latest rule resource (combine ops (snd (run init ops))) res)).
  Proof. first [exact (enforced_eq_valid_latest rule valid resource equal stat_reusable supported deep_eq q) | exact (enforced_eq_valid_latest rule valid resource equal stat_reusable supported deep_eq q equal_supported)]. Qed.

  (* a load that reports 'unchanged' (or an error) leaves the whole manager state as it was *)
  Theorem C13_unchanged_noop : forall s o,
    changed (snd (step s o)) = false \/ err (snd (step s o)) = true -> fst (step s o) = s.
  Proof. first [exact (step_unchanged rule valid resource equal stat_reusable supported deep_eq q) | exact (step_unchanged rule valid resource equal stat_reusable supported deep_eq q equal_supported)]. Qed.

  (* rules failing the validity check have no influence: two lists with the same valid rules build
     the same controllers (same rules, same identities, same statistics), in every resource *)
  Theorem C13_invalid_inert_res : forall s res l l',
    vfilter rule valid l = vfilter rule valid l' ->
    changed (snd (load_res s res l)) = true -> changed (snd (load_res s res l')) = true ->
    forall r2, ctrls_of rule (fst (load_res s res l)) r2 = ctrls_of rule (fst (load_res s res l')) r2.
  Proof. first [exact (invalid_inert_res rule valid resource equal stat_reusable supported deep_eq q) | exact (invalid_inert_res rule valid resource equal stat_reusable supported deep_eq q equal_supported)]. Qed.

  Theorem C13_invalid_inert_all : forall s l l',
    (forall res, filter valid (rules_of rule resource res (nonnil l)) = filter valid (rules_of rule resource res (nonnil l'))) ->
    changed (snd (load_all s l)) = true -> changed (snd (load_all s l')) = true ->
    forall res, ctrls_of rule (fst (load_all s l)) res = ctrls_of rule (fst (load_all s l')) res.
  Proof. first [exact (invalid_inert_all rule valid resource equal stat_reusable supported deep_eq q) | exact (invalid_inert_all rule valid resource equal stat_reusable supported deep_eq q equal_supported)]. Qed.

  (* scope: a per-resource operation (load or clear, whatever it returns) leaves the controllers of
     every other resource identical; after an effective whole-set load a resource without rules in
     the list has nothing enforced (C13_enforced_eq_valid_latest covers the resources with rules) *)
  Theorem C13_scope_res : forall s res l r2,
    r2 <> res -> ctrls_of rule (fst (load_res s res l)) r2 = ctrls_of rule s r2.
  Proof. first [exact (scope_res rule valid resource equal stat_reusable supported deep_eq q) | exact (scope_res rule valid resource equal stat_reusable supported deep_eq q equal_supported)]. Qed.

  Theorem C13_scope_all : forall s l res,
    changed (snd (load_all s l)) = true -> rules_of rule resource res (nonnil l) = [] ->
    ctrls_of rule (fst (load_all s l)) res = [].
  Proof. first [exact (scope_all rule valid resource equal stat_reusable supported deep_eq q) | exact (scope_all rule valid resource equal stat_reusable supported deep_eq q equal_supported)]. Qed.

  (* getters = enforced.  flow, isolation, hotspot read the rules bound to the controllers; the
     circuit breaker keeps a separate map holding, per breaker in force, the loaded rule it serves
     (the breaker may be an older object bound to a rule the module considers equal: `sim`) *)
  Theorem C13_getters_eq_enforced : forall s res,
    separate_reported q = false -> get_res rule q s res = enforced_rules rule s res.
  Proof. first [exact (getters_eq_enforced_bound rule q) | exact (getters_eq_enforced_bound rule q equal_supported)]. Qed.

  Theorem C13_getters_eq_enforced_separate : forall ops res,
    separate_reported q = true ->
    Forall2 sim (enforced_rules rule (fst (run init ops)) res) (get_res rule q (fst (run init ops)) res).
  Proof. first [exact (getters_eq_enforced_separate rule valid resource equal stat_reusable supported deep_eq q) | exact (getters_eq_enforced_separate rule valid resource equal stat_reusable supported deep_eq q equal_supported)]. Qed.

  Theorem C13_no_panic : forall s o, panicked (snd (step s o)) = false.
  Proof. first [exact (step_no_panic rule valid resource equal stat_reusable supported deep_eq q) | exact (step_no_panic rule valid resource equal stat_reusable supported deep_eq q equal_supported)]. Qed.

  (* identical reload: loading the same list again (freshly allocated, field-wise equal rules: the
     model compares values) returns 'unchanged' and changes nothing.  Hypothesis: reflect.DeepEqual
     is reflexive on the rules of the list (false only for NaN float fields - such rules are invalid
     but still sit in the raw cache: finding C13-F1, C13_identical_reload_nan_refuted).  Per-resource: for every list, the empty one included (the
     second clear of a resource finds nothing cached and reports 'unchanged'). *)
  Theorem C13_identical_reload_unchanged_all : forall s l,
    refl_on rule deep_eq l -> load_all (fst (load_all s l)) l = (fst (load_all s l), r_unchanged).
  Proof. first [exact (identical_reload_all rule valid resource equal stat_reusable supported deep_eq q) | exact (identical_reload_all rule valid resource equal stat_reusable supported deep_eq q equal_supported)]. Qed.

  Theorem C13_identical_reload_unchanged_res : forall s res l,
    refl_on rule deep_eq l ->
    load_res (fst (load_res s res l)) res l = (fst (load_res s res l), r_unchanged) \/ res = 0.
  Proof. first [exact (identical_reload_res rule valid resource equal stat_reusable supported deep_eq q) | exact (identical_reload_res rule valid resource equal stat_reusable supported deep_eq q equal_supported)]. Qed.

  (* the two load paths build the same controllers for a resource *)
  Theorem C13_two_paths_agree : forall s res l l',
    rules_of rule resource res (nonnil l') = nonnil l ->
    changed (snd (load_res s res l)) = true -> changed (snd (load_all s l')) = true ->
    ctrls_of rule (fst (load_res s res l)) res = ctrls_of rule (fst (load_all s l')) res.
  Proof. first [exact (two_paths_agree rule valid resource equal stat_reusable supported deep_eq q) | exact (two_paths_agree rule valid resource equal stat_reusable supported deep_eq q equal_supported)]. Qed.
End G.

(* ---- the four instances of the main theorem ---- *)
Theorem C13_enforced_flow : forall tm ops res,
  Forall2 (sim frule flow_equal) (enforced_rules frule (fst (flow_run tm (init frule) ops)) res)
    (filter (fun r => flow_valid tm r && ok frule f_res flow_supported flow_quirks res r)
            (latest frule f_res (combine ops (snd (flow_run tm (init frule) ops))) res)).
Proof. intros tm. exact (C13_enforced_eq_valid_latest frule (flow_valid tm) f_res flow_equal flow_stat_reusable flow_supported flow_deep_eq flow_quirks flow_equal_supported). Qed.

Theorem C13_enforced_isolation : forall ops res,
  Forall2 (sim irule iso_never) (enforced_rules irule (fst (iso_run (init irule) ops)) res)
    (filter (fun r => iso_valid r && ok irule i_res iso_always iso_quirks res r)
            (latest irule i_res (combine ops (snd (iso_run (init irule) ops))) res)).
Proof. exact (C13_enforced_eq_valid_latest irule iso_valid i_res iso_never iso_never iso_always iso_deep_eq iso_quirks iso_equal_supported). Qed.

Theorem C13_enforced_hotspot : forall ops res,
  Forall2 (sim hrule hot_equal) (enforced_rules hrule (fst (hot_run (init hrule) ops)) res)
    (filter (fun r => hot_valid r && ok hrule h_res hot_supported hot_quirks res r)
            (latest hrule h_res (combine ops (snd (hot_run (init hrule) ops))) res)).
Proof. exact (C13_enforced_eq_valid_latest hrule hot_valid h_res hot_equal hot_stat_reusable hot_supported hot_deep_eq hot_quirks hot_equal_supported). Qed.

Theorem C13_enforced_breaker : forall ops res,
  Forall2 (sim brule brk_equal) (enforced_rules brule (fst (brk_run (init brule) ops)) res)
    (filter (fun r => brk_valid r && ok brule b_res brk_supported brk_quirks res r)
            (latest brule b_res (combine ops (snd (brk_run (init brule) ops))) res)).
Proof. exact (C13_enforced_eq_valid_latest brule brk_valid b_res brk_equal brk_stat_reusable brk_supported brk_deep_eq brk_quirks brk_equal_supported). Qed.

Theorem C13_getters_breaker : forall ops res,
  Forall2 (sim brule brk_equal) (enforced_rules brule (fst (brk_run (init brule) ops)) res)
    (get_res brule brk_quirks (fst (brk_run (init brule) ops)) res).
Proof. exact (fun ops res => C13_getters_eq_enforced_separate brule brk_valid b_res brk_equal brk_stat_reusable brk_supported brk_deep_eq brk_quirks brk_equal_supported ops res eq_refl). Qed.

(* for isolation every valid rule is buildable and never mismatched: the filter is validity alone *)
Theorem C13_isolation_ok_trivial : forall res r, ok irule i_res iso_always iso_quirks res r = true.
Proof. reflexivity. Qed.

(* NaN thresholds.  Since the repair of IsValidRule (flow, circuit breaker) and IsValidSystemRule a rule
   whose float threshold / trigger count is NaN is invalid, hence inert like every invalid rule
   (C13_enforced_eq_valid_latest, C13_invalid_inert_*; outlier through the embedded breaker rule). *)
Theorem C13_nan_invalid_flow : forall tm r, (f_thr r =? f_thr r)%float = false -> flow_valid tm r = false.
Proof. exact flow_nan_invalid. Qed.
Theorem C13_nan_invalid_breaker : forall r, (b_thr r =? b_thr r)%float = false -> brk_valid r = false.
Proof. exact brk_nan_invalid. Qed.
Theorem C13_nan_invalid_system : forall r, (s_trigger r =? s_trigger r)%float = false -> sys_valid r = false.
Proof. exact sys_nan_invalid. Qed.

(* known finding C13-F1 (narrowed by that repair): the raw-input cache holds the list as passed,
   invalid rules included, and is compared with reflect.DeepEqual, under which NaN differs from itself:
   reloading the very same list that contains a NaN-threshold rule reports 'changed' every time,
   although the rule is now invalid and nothing is in force because of it *)
Definition nan_rule : frule :=
  {| f_tag := 1; f_res := 5; f_tcs := 0; f_cb := 0; f_thr := nan; f_rel := 0; f_ref := 0; f_maxq := 0;
     f_wperiod := 0; f_wcold := 0; f_interval := 0; f_lowmem := 0; f_highmem := 0; f_memlow := 0; f_memhigh := 0 |}.

Theorem C13_identical_reload_nan_refuted : exists tm s l,
  flow_valid tm nan_rule = false /\ In (Some nan_rule) l /\
  changed (snd (flow_step tm (fst (flow_step tm s (LoadAll l))) (LoadAll l))) = true
  /\ changed (snd (flow_step tm (fst (flow_step tm s (LoadRes 5 l))) (LoadRes 5 l))) = true
  /\ enforced_rules frule (fst (flow_step tm (fst (flow_step tm s (LoadAll l))) (LoadAll l))) 5 = [].
Proof. exists 1000, (init frule), [Some nan_rule]. vm_compute. repeat split; auto. Qed.

Example C13_nan_invalid_nonvacuous : (f_thr nan_rule =? f_thr nan_rule)%float = false.
Proof. reflexivity. Qed.

(* ---- system ---- *)
Theorem C13_system_enforced_eq_valid_latest : forall ops,
  sys_rules (fst (sys_run sys_init ops))
  = filter sys_valid (nonnil (sys_latest_from [] (combine ops (snd (sys_run sys_init ops))))).
Proof. exact sys_enforced_eq_valid_latest. Qed.

Theorem C13_system_unchanged_noop : forall s l, changed (snd (sys_load s l)) = false -> fst (sys_load s l) = s.
Proof. exact sys_load_unchanged. Qed.

Theorem C13_system_identical_reload_unchanged : forall s l,
  Forall (fun r => sys_deep_eq r r = true) (nonnil (sys_list l)) ->
  sys_load (fst (sys_load s l)) l = (fst (sys_load s l), r_unchanged).
Proof. exact sys_identical_reload. Qed.

Theorem C13_system_no_panic : forall s l, panicked (snd (sys_load s l)) = false /\ err (snd (sys_load s l)) = false.
Proof. exact sys_no_panic. Qed.

(* ---- outlier: one rule per resource; an error-returning load is rejected ---- *)
(* the rule in force for a resource is what the latest accepted operation in its scope set:
   whole-set load -> the last rule of the list for that resource if it passes both validity checks
   (else none); per-resource load -> that rule (accepted only if valid); per-resource clear -> none *)
Theorem C13_outlier_enforced_eq_valid_latest : forall ops res,
  alookup res (out_rules (fst (out_run out_init ops)))
  = out_latest_from None (combine ops (snd (out_run out_init ops))) res.
Proof. exact out_enforced_eq_valid_latest. Qed.

Theorem C13_outlier_only_valid : forall ops k r,
  alookup k (out_rules (fst (out_run out_init ops))) = Some r -> out_valid r = true.
Proof. exact out_only_valid. Qed.

Theorem C13_outlier_rejected_noop : forall s o,
  changed (snd (out_step s o)) = false \/ err (snd (out_step s o)) = true -> fst (out_step s o) = s.
Proof. exact out_step_unchanged. Qed.

Theorem C13_outlier_no_panic : forall s o, panicked (snd (out_step s o)) = false.
Proof. exact out_no_panic. Qed.

Theorem C13_outlier_identical_reload_unchanged_all : forall s l,
  Forall (fun r => out_deep_eq r r = true) (nonnil l) ->
  out_load_all (fst (out_load_all s l)) l = (fst (out_load_all s l), r_unchanged).
Proof. exact out_identical_reload_all. Qed.

Theorem C13_outlier_identical_clear_unchanged : forall s res,
  res <> 0 ->
  out_load_res (fst (out_load_res s res None)) res None = (fst (out_load_res s res None), r_unchanged).
Proof. exact out_identical_clear_res. Qed.

Theorem C13_outlier_identical_reload_unchanged_res : forall s res x,
  out_deep_eq x x = true -> out_valid x = true -> res <> 0 ->
  out_load_res (fst (out_load_res s res (Some x))) res (Some x) = (fst (out_load_res s res (Some x)), r_unchanged).
Proof. exact out_identical_reload_res. Qed.

(* ---- non-vacuity ---- *)
Definition ex_A : brule :=
  {| b_tag := 1; b_res := 5; b_strategy := 2; b_retry := 5000; b_minreq := 1; b_interval := 1000;
     b_buckets := 1; b_maxrt := 0; b_thr := 1%float; b_probe := 0 |}.
Definition ex_bad : brule :=   (* RetryTimeoutMs = 0: invalid *)
  {| b_tag := 2; b_res := 5; b_strategy := 2; b_retry := 0; b_minreq := 1; b_interval := 1000;
     b_buckets := 1; b_maxrt := 0; b_thr := 1%float; b_probe := 0 |}.
Definition ex_B : brule :=
  {| b_tag := 3; b_res := 6; b_strategy := 1; b_retry := 3000; b_minreq := 5; b_interval := 2000;
     b_buckets := 2; b_maxrt := 0; b_thr := 0.5%float; b_probe := 0 |}.

(* a history mixing both paths, an invalid rule, a nil element, an identical reload and a clear:
   results, what is enforced, and controller identities *)
Example C13_nonvacuous :
  let ops := [LoadAll [Some ex_A; None; Some ex_bad; Some ex_B]; LoadAll [Some ex_A; None; Some ex_bad; Some ex_B];
              LoadRes 5 [Some ex_bad; Some ex_A]; LoadRes 6 []] in
  let s := fst (brk_run (init brule) ops) in
  map changed (snd (brk_run (init brule) ops)) = [true; false; true; true]
  /\ map b_tag (enforced_rules brule s 5) = [1] /\ map c_id (ctrls_of brule s 5) = [(0, 5, 0)]
  /\ enforced_rules brule s 6 = []
  /\ map b_tag (get_res brule brk_quirks s 5) = [1]
  /\ refl_on brule brk_deep_eq [Some ex_A; None; Some ex_bad; Some ex_B].
Proof. vm_compute. repeat split; repeat constructor. Qed.

(* the hypotheses of C13_invalid_inert_res / C13_two_paths_agree / C13_scope_all are met by real loads:
   after [A; B] is in force, loading [bad; A] or [A; nil] for resource 5 through either path is an
   effective load with the same valid rules; and clearing resource 6 twice reports changed, unchanged *)
Example C13_inert_two_paths_nonvacuous :
  let s := fst (brk_run (init brule) [LoadAll [Some ex_A; Some ex_B]]) in
  vfilter brule brk_valid [Some ex_bad; Some ex_A] = vfilter brule brk_valid [Some ex_A; None]
  /\ changed (snd (load_res brule brk_valid b_res brk_equal brk_stat_reusable brk_supported brk_deep_eq brk_quirks s 5 [Some ex_bad; Some ex_A])) = true
  /\ changed (snd (load_res brule brk_valid b_res brk_equal brk_stat_reusable brk_supported brk_deep_eq brk_quirks s 5 [Some ex_A; None])) = true
  /\ rules_of brule b_res 5 (nonnil [Some ex_B; Some ex_bad; Some ex_A]) = nonnil [Some ex_bad; Some ex_A]
  /\ changed (snd (load_all brule brk_valid b_res brk_equal brk_stat_reusable brk_supported brk_deep_eq brk_quirks s [Some ex_B; Some ex_bad; Some ex_A])) = true
  /\ rules_of brule b_res 6 (nonnil [Some ex_bad; Some ex_A]) = []
  /\ map changed (snd (brk_run s [LoadRes 6 []; LoadRes 6 []])) = [true; false].
Proof. vm_compute. repeat split. Qed.

Definition ex_S : srule := {| s_tag := 1; s_metric := 2; s_trigger := 0%float; s_strategy := (-1) |}.
Definition ex_Sbad : srule := {| s_tag := 2; s_metric := 7; s_trigger := 1%float; s_strategy := (-1) |}.
Definition ex_O : orule := {| o_tag := 1; o_cb := Some ex_A; o_active := true; o_maxpct := 0.5%float; o_recms := 2000; o_recycle := 60; o_maxrec := 3 |}.
Definition ex_Obad : orule := {| o_tag := 2; o_cb := Some ex_A; o_active := true; o_maxpct := 1.5%float; o_recms := 2000; o_recycle := 60; o_maxrec := 3 |}.

Example C13_system_outlier_nonvacuous :
  map changed (snd (sys_run sys_init [Some [Some ex_S; None; Some ex_Sbad]; Some [Some ex_S; None; Some ex_Sbad]; None])) = [true; false; true]
  /\ sys_rules (fst (sys_run sys_init [Some [Some ex_S; None; Some ex_Sbad]])) = [ex_S]
  /\ Forall (fun r => sys_deep_eq r r = true) (nonnil [Some ex_S; None; Some ex_Sbad])
  /\ map (fun x => (changed x, err x)) (snd (out_run out_init [OLoadAll [Some ex_O; None]; OLoadRes 5 (Some ex_O); OLoadRes 5 (Some ex_Obad); OLoadRes 5 None; OLoadRes 5 None]))
     = [(true, false); (false, false); (true, true); (true, false); (false, false)]
  /\ alookup 5 (out_rules (fst (out_run out_init [OLoadAll [Some ex_O; None]; OLoadRes 5 (Some ex_Obad)]))) = Some ex_O
  /\ out_deep_eq ex_O ex_O = true /\ out_valid ex_O = true.
Proof. vm_compute. repeat split; repeat constructor. Qed.

Print Assumptions C13_enforced_eq_valid_latest.
Print Assumptions C13_unchanged_noop.
Print Assumptions C13_invalid_inert_res.
Print Assumptions C13_invalid_inert_all.
Print Assumptions C13_scope_res.
Print Assumptions C13_scope_all.
Print Assumptions C13_getters_eq_enforced.
Print Assumptions C13_getters_eq_enforced_separate.
Print Assumptions C13_no_panic.
Print Assumptions C13_identical_reload_unchanged_all.
Print Assumptions C13_identical_reload_unchanged_res.
Print Assumptions C13_two_paths_agree.
Print Assumptions C13_enforced_flow.
Print Assumptions C13_enforced_isolation.
Print Assumptions C13_enforced_hotspot.
Print Assumptions C13_enforced_breaker.
Print Assumptions C13_getters_breaker.
Print Assumptions C13_isolation_ok_trivial.
Print Assumptions C13_identical_reload_nan_refuted.
Print Assumptions C13_nan_invalid_flow.
Print Assumptions C13_nan_invalid_breaker.
Print Assumptions C13_nan_invalid_system.
Print Assumptions C13_system_enforced_eq_valid_latest.
Print Assumptions C13_system_unchanged_noop.
Print Assumptions C13_system_identical_reload_unchanged.
Print Assumptions C13_system_no_panic.
Print Assumptions C13_outlier_enforced_eq_valid_latest.
Print Assumptions C13_outlier_only_valid.
Print Assumptions C13_outlier_rejected_noop.
Print Assumptions C13_outlier_no_panic.
Print Assumptions C13_outlier_identical_reload_unchanged_all.
Print Assumptions C13_outlier_identical_reload_unchanged_res.
Print Assumptions C13_outlier_identical_clear_unchanged.
