(* C18 — Datasource payloads are applied faithfully or rejected, never half-applied.
   Property theorems only; every proof is `exact`/`apply` of a lemma from Proofs/.

   The handler theorems quantify over an ARBITRARY converter (`convert`: what the
   *JsonArrayParser, i.e. encoding/json, does with a byte string), an arbitrary DeepEqual
   (`peq`), an arbitrary updater type switch (`typed`) and an ARBITRARY loader (`load`,
   `clear`: the rule manager); what is assumed about the loader is an explicit premise. *)
From Coq Require Import Ascii String.
From SG Require Import Base.Prelude Model.Datasource Model.DatasourceRef Proofs.DatasourceProofs.
From SG Require Import Model.Json Model.DatasourceWire Proofs.JsonProofs Proofs.DatasourceWireProofs.

Section C18_handler.

  Variables (bytes prop rule mgr : Type).
  Variable convert : bytes -> conv prop.
  Variable peq     : prop -> prop -> bool.
  Variable typed   : prop -> option (list (option rule)).
  Variable load    : list (option rule) -> mgr -> mgr * lres.
  Variable clear   : mgr -> mgr * lres.
  Variable valid    : rule -> bool.
  Variable in_force : mgr -> list rule.
  Variable canon    : list rule -> list rule.
  Variable empty_payload : bytes.

  Notation handle_body := (handle_body convert peq typed load clear).
  Notation handle := (handle convert peq typed load clear).
  Notation run := (run convert peq typed load clear).
  Notation Sync := (Sync typed valid in_force canon).
  Notation valid_of := (valid_of valid).

  (* the loader assumptions, as one record of premises:
     a successful load puts exactly the valid non-nil rules of the list in force (C13), a
     successful clear leaves none, a failed or panicking load/clear changes nothing that is
     observable, and DeepEqual properties carry the same rule list *)
  Definition LoaderSpec : Prop :=
    load_ok_spec load valid in_force canon /\ load_fail_keeps load in_force /\
    clear_ok_spec clear in_force canon /\ clear_fail_keeps clear in_force /\
    peq_typed peq typed.

  (* Handle never panics out to the datasource: whatever converter and loader do (including
     panicking), for every handler state and every byte string *)
  Theorem C18_no_escape : forall s b, snd (handle s b) <> Panicked.
  Proof. apply handle_no_escape. Qed.

  Theorem C18_no_escape_seq : forall s ps, Forall (fun o => o <> Panicked) (snd (run s ps)).
  Proof. apply run_no_escape. Qed.

  (* an undecodable payload returns an error and leaves handler and manager untouched *)
  Theorem C18_reject_keeps : forall s b, convert b = CErr -> handle s b = (s, Returned RErr).
  Proof. apply reject_keeps. Qed.

  (* handler memory and manager agree after every sequence of deliveries *)
  Theorem C18_sync_invariant : LoaderSpec -> forall s ps, Sync s -> Sync (fst (run s ps)).
  Proof. intros [H1 [H2 [H3 [H4 H5]]]] s ps. apply run_sync; assumption. Qed.

  (* a payload that decodes to the rule list l: either Handle returns nil and exactly the valid
     rules of l are in force, or it does not return nil normally and then neither the rules in
     force nor the handler's memory changed (so the payload is retried, not skipped, when it is
     delivered again) *)
  Theorem C18_applied_exactly : LoaderSpec -> forall s b p l,
    Sync s -> convert b = CVal p -> typed p = Some l ->
    let s' := fst (handle s b) in
    match snd (handle_body s b) with
    | Returned RNil => in_force (mgr_of s') = canon (valid_of l)
    | _ => last_of s' = last_of s /\ in_force (mgr_of s') = in_force (mgr_of s)
    end.
  Proof. intros [H1 [H2 [H3 [H4 H5]]]] s b p l. apply applied_rules; assumption. Qed.

  (* the empty payload clears the rules *)
  Theorem C18_empty_clears : LoaderSpec -> forall s b,
    Sync s -> convert b = CNil ->
    let s' := fst (handle s b) in
    match snd (handle_body s b) with
    | Returned RNil => in_force (mgr_of s') = canon []
    | _ => last_of s' = last_of s /\ in_force (mgr_of s') = in_force (mgr_of s)
    end.
  Proof. intros [H1 [H2 [H3 [H4 H5]]]] s b. apply applied_empty; assumption. Qed.

  (* with a loader that neither fails nor panics (the five rule managers with their built-in
     generators): nil is returned and the valid rules of the payload are in force *)
  Theorem C18_applied_total : LoaderSpec -> loader_total load clear -> forall s b p l,
    Sync s -> convert b = CVal p -> typed p = Some l ->
    snd (handle s b) = Returned RNil /\ in_force (mgr_of (fst (handle s b))) = canon (valid_of l).
  Proof. intros [H1 [H2 [H3 [H4 H5]]]] H6 s b p l. apply applied_rules_total; assumption. Qed.

  Theorem C18_empty_total : LoaderSpec -> loader_total load clear -> forall s b,
    Sync s -> convert b = CNil ->
    snd (handle s b) = Returned RNil /\ in_force (mgr_of (fst (handle s b))) = canon [].
  Proof. intros [H1 [H2 [H3 [H4 H5]]]] H6 s b. apply applied_empty_total; assumption. Qed.

  (* re-delivering an identical payload after a delivery that returned nil is a no-op: same
     handler memory, same manager state, nil again — from every state, hence along every
     delivery sequence; nothing is assumed about the loader.  (DeepEqual must be reflexive on the
     decoded value; it is not for hotspot specific items keyed by NaN — see C18_redeliver_in_force.) *)
  Theorem C18_idempotent : forall s b,
    snd (handle_body s b) = Returned RNil ->
    (forall p, convert b = CVal p -> peq p p = true) ->
    handle (fst (handle s b)) b = (fst (handle s b), Returned RNil).
  Proof. apply idempotent. Qed.

  (* an undecodable payload (or a panicking converter) does the same thing again: nothing *)
  Theorem C18_idempotent_rejected : forall s b,
    (convert b = CErr \/ convert b = CPanic) ->
    fst (handle s b) = s /\ handle (fst (handle s b)) b = handle s b.
  Proof.
    intros s b H. apply idempotent_rejected.
    destruct H as [H|H]; rewrite H; reflexivity.
  Qed.

  (* without reflexivity of DeepEqual the payload is loaded again, and the rules in force are
     still the same *)
  Theorem C18_redeliver_in_force : LoaderSpec -> forall s b,
    Sync s -> snd (handle_body s b) = Returned RNil ->
    let s1 := fst (handle s b) in
    in_force (mgr_of (fst (handle s1 b))) = in_force (mgr_of s1).
  Proof. intros [H1 [H2 [H3 [H4 H5]]]]. apply redeliver_in_force; assumption. Qed.

  (* file datasource, as an event machine over write / rename-away / recreate / remove and the
     watcher goroutine's processing steps, for every interleaving: whenever the event queue is
     drained and the source is still watching, the file exists and the rules in force are the
     valid rules of its current content (cleared when it is empty; an undecodable content was
     rejected); once the source has closed (file removed, or renamed away for good) the rules are
     cleared. *)
  Theorem C18_file_converges : LoaderSpec -> loader_total load clear ->
    (forall b p, convert b = CVal p -> typed p <> None) ->
    convert empty_payload = CNil ->
    forall s0 c0 os, Sync s0 ->
    let st := frun convert peq typed load clear empty_payload (finit convert peq typed load clear s0 c0) os in
    (f_mode st = Watching -> f_queue st = [] ->
       exists c, f_file st = Some c /\
         match convert c with
         | CVal p => forall l, typed p = Some l -> in_force (mgr_of (f_hs st)) = canon (valid_of l)
         | CNil => in_force (mgr_of (f_hs st)) = canon []
         | _ => True
         end) /\
    (f_mode st = Closed -> in_force (mgr_of (f_hs st)) = canon []).
  Proof.
    intros [H1 [H2 [H3 [H4 H5]]]] H6 H7 H8 s0 c0 os.
    apply file_converges_rules; assumption.
  Qed.

  (* the handler always ends a file-datasource history having processed exactly the recorded
     payloads, and at quiescence the last of them is the file's content (no loader assumption) *)
  Theorem C18_file_last_payload : forall s0 c0 os,
    let st := frun convert peq typed load clear empty_payload (finit convert peq typed load clear s0 c0) os in
    f_hs st = fst (run s0 (f_hist st)) /\
    (f_mode st = Watching -> f_queue st = [] -> exists c h, f_file st = Some c /\ f_hist st = h ++ [c]) /\
    (f_mode st = Closed -> exists h, f_hist st = h ++ [empty_payload]).
  Proof.
    intros s0 c0 os. cbn zeta.
    destruct (file_converges _ _ _ _ convert peq typed load clear empty_payload s0 c0 os) as [A [B C]].
    split; [exact A|]. split; [|exact C].
    intros M Q. destruct (B M Q) as [c [F [h E]]]. exists c, h. auto.
  Qed.

End C18_handler.

(* ---- non-vacuity: a concrete converter table and manager meeting every premise ------------- *)

Definition ex_tab : list (Z * cls) :=
  [ (0, KNil);                                   (* empty input *)
    (1, KVal false [Some 10; Some 11]);          (* two rules, 11 invalid *)
    (2, KVal false [None; Some 12]);             (* [null, r] *)
    (3, KErr);                                   (* truncated JSON *)
    (4, KVal true []) ].                         (* "null" *)
Definition ex_valid : list Z := [10; 12].

Example C18_premises_nonvacuous :
  LoaderSpec rprop Z rmgr rpeq (rtyped false) (rload ex_valid) rclear (rvalid ex_valid) m_rules zsort
  /\ Sync (rtyped false) (rvalid ex_valid) m_rules zsort rinit
  /\ (forall b p, rconvert ex_tab b = CVal p -> rtyped false p <> None)
  /\ (forall p : rprop, rpeq p p = true).
Proof.
  split; [|split; [|split]].
  - exact (conj (ref_load_ok ex_valid) (conj (ref_load_fail ex_valid) (conj ref_clear_ok (conj ref_clear_fail (ref_peq_typed false))))).
  - reflexivity.
  - intros b p _. discriminate.
  - intros [n l]. unfold rpeq. cbn. rewrite Bool.eqb_reflx. cbn. induction l as [|[x|] l IH]; cbn; auto. rewrite Z.eqb_refl. exact IH.
Qed.

(* deliveries: rules, identical re-delivery, [null,r], truncated JSON, empty, "null", and a
   delivery during which the loader fails followed by its retry *)
Example C18_nonvacuous :
  let h := rhandle ex_tab ex_valid false in
  let '(s1, o1) := h rinit 1 in
  let '(s2, o2) := h s1 1 in
  let '(s3, o3) := h s2 2 in
  let '(s4, o4) := h s3 3 in
  let '(s5, o5) := h (set_fault s4 true) 1 in
  let '(s6, o6) := h (set_fault s5 false) 1 in
  let '(s7, o7) := h s6 0 in
  [o1; o2; o3; o4; o5; o6; o7] =
    [Returned RNil; Returned RNil; Returned RNil; Returned RErr; Returned RErr; Returned RNil; Returned RNil]
  /\ map (fun s : rstate => m_rules (snd s)) [s1; s2; s3; s4; s5; s6; s7] = [[10]; [10]; [12]; [12]; [12]; [10]; []]
  /\ s2 = s1 /\ fst s5 = fst s4.
Proof. vm_compute. repeat split; reflexivity. Qed.

(* the file machine: write, rename away + recreate, remove *)
Example C18_file_nonvacuous :
  let tab := (-1, KNil) :: ex_tab in
  let step := fstep (rconvert tab) rpeq (rtyped false) (rload ex_valid) rclear (-1) in
  let st0 := finit (rconvert tab) rpeq (rtyped false) (rload ex_valid) rclear rinit 1 in
  let st1 := fold_left step [FsWrite 2; Process; FsWrite 3; Process; FsRenameAway; FsRecreate 1; Process] st0 in
  let st2 := fold_left step [FsRemove; Process] st1 in
  m_rules (snd (f_hs st0)) = [10] /\
  (f_mode st1, f_queue st1, f_file st1, m_rules (snd (f_hs st1))) = (Watching, [], Some 1, [10]) /\
  (f_mode st2, m_rules (snd (f_hs st2))) = (Closed, []).
Proof. vm_compute. repeat split; reflexivity. Qed.

(* ---- the JSON wire format ------------------------------------------------------------------ *)

(* A rule list written in a module's JSON wire format decodes to exactly the rules it describes:
   for each of the five schemas (0 flow, 1 system, 2 circuit breaker, 3 hotspot, 4 isolation; the
   field names are the Go json tags) and EVERY rule list whose strings are printable ASCII
   without quote and backslash, whose integers fit the Go field types and whose float fields are
   JSON number literals, the decoder applied to the encoder's bytes returns that list: same
   length, same order, no nil element, every field equal (float64 fields as literals; hotspot's
   specific items as (kind, string, threshold) triples, from which conv_items — the transcription
   of parseSpecificItems — computes the map). *)
Theorem C18_wire_roundtrip : forall k l,
  forallb (rule_ok (schema_of k)) l = true ->
  decode (schema_of k) (encode (schema_of k) l) = Rules false (map Some l).
Proof. intros k l. apply wire_roundtrip. apply schemas_ok. Qed.

Theorem C18_wire_roundtrip_each :
  (forall l, forallb (rule_ok flow_schema) l = true -> decode flow_schema (encode flow_schema l) = Rules false (map Some l)) /\
  (forall l, forallb (rule_ok system_schema) l = true -> decode system_schema (encode system_schema l) = Rules false (map Some l)) /\
  (forall l, forallb (rule_ok breaker_schema) l = true -> decode breaker_schema (encode breaker_schema l) = Rules false (map Some l)) /\
  (forall l, forallb (rule_ok hotspot_schema) l = true -> decode hotspot_schema (encode hotspot_schema l) = Rules false (map Some l)) /\
  (forall l, forallb (rule_ok isolation_schema) l = true -> decode isolation_schema (encode isolation_schema l) = Rules false (map Some l)).
Proof.
  exact (conj (C18_wire_roundtrip 0) (conj (C18_wire_roundtrip 1) (conj (C18_wire_roundtrip 2)
        (conj (C18_wire_roundtrip 3) (C18_wire_roundtrip 4))))).
Qed.

(* the generic handler theorems instantiated with the wire decoder as the converter *)
Section C18_wire.

  Variable mgr : Type.
  Variable peq     : wprop -> wprop -> bool.
  Variable load    : list (option wrule) -> mgr -> mgr * lres.
  Variable clear   : mgr -> mgr * lres.
  Variable valid    : wrule -> bool.
  Variable in_force : mgr -> list wrule.
  Variable canon    : list wrule -> list wrule.

  Notation WSpec := (LoaderSpec wprop wrule mgr peq wtyped load clear valid in_force canon).
  Notation whandle k := (handle (wire_convert (schema_of k)) peq wtyped load clear).
  Notation whandle_body k := (handle_body (wire_convert (schema_of k)) peq wtyped load clear).
  Notation WSync := (Sync wtyped valid in_force canon).

  (* C18_applied_exactly o C18_wire_roundtrip: handling the wire form of l puts exactly the valid
     rules of l in force (or rejects the delivery as a whole, when the loader fails) *)
  Theorem C18_wire_applied_exactly : WSpec -> forall k s l,
    WSync s -> forallb (rule_ok (schema_of k)) l = true ->
    let b := encode (schema_of k) l in
    let s' := fst (whandle k s b) in
    match snd (whandle_body k s b) with
    | Returned RNil => in_force (mgr_of s') = canon (filter valid l)
    | _ => last_of s' = last_of s /\ in_force (mgr_of s') = in_force (mgr_of s)
    end.
  Proof. intros [H1 [H2 [H3 [H4 H5]]]] k s l. apply wire_applied_exactly; auto. apply schemas_ok. Qed.

  Theorem C18_wire_applied : WSpec -> loader_total load clear -> forall k s l,
    WSync s -> forallb (rule_ok (schema_of k)) l = true ->
    snd (whandle k s (encode (schema_of k) l)) = Returned RNil /\
    in_force (mgr_of (fst (whandle k s (encode (schema_of k) l)))) = canon (filter valid l).
  Proof. intros [H1 [H2 [H3 [H4 H5]]]] T k s l. apply wire_applied_total; auto. apply schemas_ok. Qed.

  (* one corollary per module *)
  Theorem C18_wire_applied_flow : WSpec -> loader_total load clear -> forall s l,
    WSync s -> forallb (rule_ok flow_schema) l = true ->
    snd (handle (wire_convert flow_schema) peq wtyped load clear s (encode flow_schema l)) = Returned RNil /\
    in_force (mgr_of (fst (handle (wire_convert flow_schema) peq wtyped load clear s (encode flow_schema l)))) = canon (filter valid l).
  Proof. intros W T. exact (C18_wire_applied W T 0). Qed.

  Theorem C18_wire_applied_system : WSpec -> loader_total load clear -> forall s l,
    WSync s -> forallb (rule_ok system_schema) l = true ->
    snd (handle (wire_convert system_schema) peq wtyped load clear s (encode system_schema l)) = Returned RNil /\
    in_force (mgr_of (fst (handle (wire_convert system_schema) peq wtyped load clear s (encode system_schema l)))) = canon (filter valid l).
  Proof. intros W T. exact (C18_wire_applied W T 1). Qed.

  Theorem C18_wire_applied_breaker : WSpec -> loader_total load clear -> forall s l,
    WSync s -> forallb (rule_ok breaker_schema) l = true ->
    snd (handle (wire_convert breaker_schema) peq wtyped load clear s (encode breaker_schema l)) = Returned RNil /\
    in_force (mgr_of (fst (handle (wire_convert breaker_schema) peq wtyped load clear s (encode breaker_schema l)))) = canon (filter valid l).
  Proof. intros W T. exact (C18_wire_applied W T 2). Qed.

  Theorem C18_wire_applied_hotspot : WSpec -> loader_total load clear -> forall s l,
    WSync s -> forallb (rule_ok hotspot_schema) l = true ->
    snd (handle (wire_convert hotspot_schema) peq wtyped load clear s (encode hotspot_schema l)) = Returned RNil /\
    in_force (mgr_of (fst (handle (wire_convert hotspot_schema) peq wtyped load clear s (encode hotspot_schema l)))) = canon (filter valid l).
  Proof. intros W T. exact (C18_wire_applied W T 3). Qed.

  Theorem C18_wire_applied_isolation : WSpec -> loader_total load clear -> forall s l,
    WSync s -> forallb (rule_ok isolation_schema) l = true ->
    snd (handle (wire_convert isolation_schema) peq wtyped load clear s (encode isolation_schema l)) = Returned RNil /\
    in_force (mgr_of (fst (handle (wire_convert isolation_schema) peq wtyped load clear s (encode isolation_schema l)))) = canon (filter valid l).
  Proof. intros W T. exact (C18_wire_applied W T 4). Qed.

  (* the empty payload clears; what the decoder refuses is refused with everything kept *)
  Theorem C18_wire_empty_clears : WSpec -> loader_total load clear -> forall k s,
    WSync s ->
    snd (whandle k s []) = Returned RNil /\ in_force (mgr_of (fst (whandle k s []))) = canon [].
  Proof. intros [H1 [H2 [H3 [H4 H5]]]] T k s. apply wire_empty_total; auto. Qed.

  Theorem C18_wire_reject_keeps : forall k s b,
    decode (schema_of k) b = Undecodable -> whandle k s b = (s, Returned RErr).
  Proof. intros k s b. apply wire_reject. Qed.

End C18_wire.

(* ---- non-vacuity of the wire theorems --------------------------------------------------------- *)

Local Open Scope string_scope.

Definition ex_flow : list wrule :=
  [ [FStr (B "f1"); FStr (B "GET:/api/users"); FInt 1; FInt 0; FNum (B "12.5"); FInt 0; FStr [];
     FInt 0; FInt 10; FInt 3; FInt 1000; FInt 0; FInt 0; FInt 0; FInt 0];
    [FStr []; FStr (B "res b"); FInt 0; FInt 2; FNum (B "1e3"); FInt 1; FStr (B "ref"); FInt 500; FInt 0; FInt 0;
     FInt 4294967295; FInt (-9223372036854775808); FInt 9223372036854775807; FInt 1; FInt 2] ].
Definition ex_system : list wrule := [ [FStr (B "s"); FInt 4; FNum (B "0.75"); FInt (-1)] ].
Definition ex_breaker : list wrule :=
  [ [FStr []; FStr (B "a"); FInt 2; FInt 3000; FInt 18446744073709551615; FInt 1000; FInt 10; FInt 50; FNum (B "-0.5E-2"); FInt 1] ].
Definition ex_hotspot : list wrule :=
  [ [FStr (B "h"); FStr (B "a"); FInt 1; FInt 0; FInt (-1); FStr (B "uid"); FInt 5; FInt 0; FInt 3; FInt 1; FInt 100;
     FItems [(0, B "7", 9); (1, B "vip user", 50); (2, B "true", 1); (3, B "1.25", 2); (0, B "x7", 1)]];
    [FStr []; FStr []; FInt 0; FInt 0; FInt 0; FStr []; FInt 0; FInt 0; FInt 0; FInt 0; FInt 0; FItems []] ].
Definition ex_isolation : list wrule := [ [FStr []; FStr (B "a"); FInt 0; FInt 4294967295]; [FStr (B "i2"); FStr []; FInt 0; FInt 0] ].

Example C18_wire_roundtrip_nonvacuous :
  forallb (rule_ok (schema_of 0)) ex_flow = true /\ forallb (rule_ok (schema_of 1)) ex_system = true /\
  forallb (rule_ok (schema_of 2)) ex_breaker = true /\ forallb (rule_ok (schema_of 3)) ex_hotspot = true /\
  forallb (rule_ok (schema_of 4)) ex_isolation = true /\
  encode isolation_schema ex_isolation =
    B "[{""id"":"""",""resource"":""a"",""metricType"":0,""threshold"":4294967295},{""id"":""i2"",""resource"":"""",""metricType"":0,""threshold"":0}]" /\
  decode hotspot_schema (encode hotspot_schema ex_hotspot) = Rules false (map Some ex_hotspot) /\
  (* the same rules written the way a person would: other field order, whitespace, other case,
     omitted and unknown fields, a null element *)
  decode isolation_schema (B " [ {""Threshold"": 4294967295, ""resource"" : ""a"", ""comment"": {""x"": [1, null]}},
      null ] ") = Rules false [Some [FStr []; FStr (B "a"); FInt 0; FInt 4294967295]; None] /\
  (* and payloads that are refused: wrong type, out of range for uint32, truncated *)
  decode isolation_schema (B "[{""resource"":5}]") = Undecodable /\
  decode isolation_schema (B "[{""threshold"":4294967296}]") = Undecodable /\
  decode isolation_schema (B "[{""resource"":""a"",""thresh") = Undecodable /\
  decode isolation_schema [] = Empty /\
  (* parseSpecificItems on the first hotspot rule's items (the float kind through the oracle table) *)
  conv_items [(B "1.25", Some 4608308318706860032%Z)] [(0, B "7", 9); (1, B "vip user", 50); (2, B "true", 1); (3, B "1.25", 2); (0, B "x7", 1)]
    = [(KInt 7, 9); (KStr (B "vip user"), 50); (KBool true, 1); (KFlt 4608308318706860032, 2)].
Proof. vm_compute. repeat split; reflexivity. Qed.

(* the linked corollaries' premises are satisfiable, and a concrete delivery of wire bytes *)
Example C18_wire_applied_nonvacuous :
  LoaderSpec wprop wrule wmgr wpeq_never wtyped wload wclear wvalid win_force wcanon /\
  loader_total wload wclear /\
  Sync wtyped wvalid win_force wcanon winit /\
  (let h := handle (wire_convert isolation_schema) wpeq_never wtyped wload wclear in
   let '(s1, o1) := h winit (encode isolation_schema ex_isolation) in
   let '(s2, o2) := h s1 (B "[{""resource"":""a"",""thresh") in
   let '(s3, o3) := h s2 [] in
   [o1; o2; o3] = [Returned RNil; Returned RErr; Returned RNil] /\
   map (fun s : state wprop wmgr => win_force (mgr_of s)) [s1; s2; s3]
     = [[[FStr []; FStr (B "a"); FInt 0; FInt 4294967295]]; [[FStr []; FStr (B "a"); FInt 0; FInt 4294967295]]; []]).
Proof.
  split; [|split; [|split]].
  - repeat split.
    + intros l m m' H. inversion H. reflexivity.
    + intros l m m' r H Hr. inversion H. subst. congruence.
    + intros m m' H. inversion H. reflexivity.
    + intros m m' r H Hr. inversion H. subst. congruence.
    + intros p q0 H. discriminate.
  - split; intros; reflexivity.
  - reflexivity.
  - vm_compute. split; reflexivity.
Qed.

Print Assumptions C18_no_escape.
Print Assumptions C18_no_escape_seq.
Print Assumptions C18_reject_keeps.
Print Assumptions C18_sync_invariant.
Print Assumptions C18_applied_exactly.
Print Assumptions C18_empty_clears.
Print Assumptions C18_applied_total.
Print Assumptions C18_empty_total.
Print Assumptions C18_idempotent.
Print Assumptions C18_idempotent_rejected.
Print Assumptions C18_redeliver_in_force.
Print Assumptions C18_file_converges.
Print Assumptions C18_file_last_payload.
Print Assumptions C18_wire_roundtrip.
Print Assumptions C18_wire_roundtrip_each.
Print Assumptions C18_wire_applied_exactly.
Print Assumptions C18_wire_applied.
Print Assumptions C18_wire_applied_flow.
Print Assumptions C18_wire_applied_system.
Print Assumptions C18_wire_applied_breaker.
Print Assumptions C18_wire_applied_hotspot.
Print Assumptions C18_wire_applied_isolation.
Print Assumptions C18_wire_empty_clears.
Print Assumptions C18_wire_reject_keeps.
