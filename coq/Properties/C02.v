(* C02 — QPS flow rule admits exactly up to the threshold per statistic window.
   Property theorems only; proofs are in Proofs/FlowProofs.v (work in progress: this first
   version carries the schedule-quantified k-bound; the window theorems follow). *)
From SG Require Import Base.Prelude Base.GoInt Model.AdmitConc Proofs.AdmitConcProofs.

(* k requests simultaneously between rule check and statistics: the counter a rule reads never
   exceeds T + (k-1) * bmax, for every schedule of any number of threads (Release = tokens
   leaving the window as it slides) *)
Theorem C02_k_bound : forall L k bmax sched,
  1 <= k -> 0 <= L -> 0 <= bmax ->
  Forall ev_ok sched ->
  Forall (pend_ok k bmax) (ctrace L (fun b => Z.min b bmax) sched cinit) ->
  Forall (fun s => count s <= L + (k - 1) * bmax) (ctrace L (fun b => Z.min b bmax) sched cinit).
Proof.
  intros L k bmax sched Hk HL Hb. apply k_bound; auto. intros b Hb0. lia.
Qed.

Print Assumptions C02_k_bound.
