(* C02 — QPS flow rule (Reject + Direct) admits exactly up to the threshold per bucket-aligned
   statistic window.  Property theorems only; proofs are in Proofs/FlowProofs.v (invariant over the
   check/record machine of Model/Flow.v, on top of C08's read theorems) and Proofs/FlowFloat.v
   (the float64 comparison, through Flocq).

   Conventions.  c : cfg is the statistic configuration (cfg_ok: the global array geometry is a
   valid leap array and the default metric view tiles it — what config's own validity check
   enforces); rules are loaded once at t0 > 0 (rules_ok: intervals are uint32); a schedule es is
   any list of events EChk (prepare + rule check of a request), ERec (its statistic slots), EExit
   with non-decreasing times (emono) — interleavings of any number of requests between their check
   and their record included; w_adm w is the list of admitted requests (record time, resource,
   batch) of the history so far (C02_admitted_is_trace), adm_sum its token sum over a window;
   for a controller x of resource own, c_target own x is the resource its statistic counts (own,
   or the referenced resource of an associated rule), [win_lo, win_hi) the window it reads at t
   (aligned to the buckets of the array it reads: the shared 500 ms buckets for the default and
   derived views, the rule's own buckets for an independent window), thr_limit = floor(threshold). *)
From Coq Require Import Floats Reals.
From Flocq Require Import Core.Raux.
From SG Require Import Base.Prelude Base.GoInt Base.GoFloat Model.LeapArray Model.StatNode Model.Flow
  Model.AdmitConc Proofs.LeapArrayProofs Proofs.StatProofs Proofs.AdmitConcProofs
  Proofs.FlowFloat Proofs.FlowProofs.
#[local] Open Scope Z_scope.

(* what a rule compares with its threshold — in every reachable state, at every instant at or after
   the last event — is the admitted tokens of its target resource in its aligned window *)
Theorem C02_window_read : forall c t0 rules es own x t,
  cfg_ok c -> 0 < t0 -> rules_ok rules -> emono t0 es -> elast t0 es <= t < two62' ->
  let w := fst (erun (load c t0 rules) es) in
  In x (ctrls_of w own) ->
  ctrl_sum w x t = Some (adm_sum (w_adm w) (c_target own x) (win_lo c x t) (win_hi c x t)).
Proof.
  intros c t0 rules es own x t Hc Ht0 Hr Hm Ht w Hin.
  pose proof (reachable_inv c t0 rules es Hc Ht0 Hr Hm) as HI.
  rewrite <- (load_cfg c t0 rules), <- (erun_cfg es (load c t0 rules)).
  exact (ctrl_sum_eq w (elast t0 es) own x t HI Ht Hin).
Qed.

(* float64(sum) + float64(batch) > threshold is the exact comparison below 2^53 *)
Theorem C02_float_exact : forall thr s b,
  thr_ok thr = true -> 0 <= s -> 0 <= b -> s + b < 2 ^ 53 ->
  rule_blocks thr s b = (thr_limit thr <? s + b).
Proof. exact rule_blocks_exact. Qed.

Theorem C02_float_exact_real : forall thr s b,
  thr_ok thr = true -> 0 <= s -> 0 <= b -> s + b < 2 ^ 53 ->
  (rule_blocks thr s b = false <-> (IZR (s + b) <= FR thr)%R).
Proof. exact rule_blocks_iff_real. Qed.

Theorem C02_thr_limit_is_floor : forall thr, thr_ok thr = true -> thr_limit thr = Zfloor (FR thr).
Proof. exact thr_limit_floor. Qed.

(* a request of batch b is admitted iff, for every rule of the resource, the tokens already
   admitted in the rule's current aligned window (own or referenced resource) plus b do not
   exceed the threshold *)
Theorem C02_decision : forall c t0 rules es tid t res b,
  cfg_ok c -> 0 < t0 -> rules_ok rules -> emono t0 es -> Forall ev_nonneg es ->
  elast t0 es <= t < two62' -> 0 <= b ->
  let w := fst (erun (load c t0 rules) es) in
  Forall (fun x => thr_ok (r_thr (c_rule x)) = true) (ctrls_of w res) ->
  Forall (fun x => win_adm w res x t + b < 2 ^ 53) (ctrls_of w res) ->
  (snd (chk w tid t res b) = OPass <->
   Forall (fun x => win_adm w res x t + b <= thr_limit (r_thr (c_rule x))) (ctrls_of w res)).
Proof.
  intros c t0 rules es tid t res b Hc Ht0 Hr Hm Hnn Ht Hb w.
  exact (check_decision w (elast t0 es) tid t res b (reachable_inv c t0 rules es Hc Ht0 Hr Hm)
           (NonNeg_erun es _ (NonNeg_load c t0 rules) Hnn) Ht Hb).
Qed.

(* no spurious rejection: a rejection names the first rule (in loading order) whose window is
   exhausted and reports the admitted tokens in that window *)
Theorem C02_no_spurious_block : forall c t0 rules es tid t res b i s,
  cfg_ok c -> 0 < t0 -> rules_ok rules -> emono t0 es -> Forall ev_nonneg es ->
  elast t0 es <= t < two62' -> 0 <= b ->
  let w := fst (erun (load c t0 rules) es) in
  Forall (fun x => thr_ok (r_thr (c_rule x)) = true) (ctrls_of w res) ->
  Forall (fun x => win_adm w res x t + b < 2 ^ 53) (ctrls_of w res) ->
  snd (chk w tid t res b) = OBlock i s ->
  exists pre x post, ctrls_of w res = pre ++ x :: post /\ c_idx x = i /\ s = win_adm w res x t /\
    Forall (fun y => win_adm w res y t + b <= thr_limit (r_thr (c_rule y))) pre /\
    thr_limit (r_thr (c_rule x)) < win_adm w res x t + b.
Proof.
  intros c t0 rules es tid t res b i s Hc Ht0 Hr Hm Hnn Ht Hb w.
  exact (check_block w (elast t0 es) tid t res b i s (reachable_inv c t0 rules es Hc Ht0 Hr Hm)
           (NonNeg_erun es _ (NonNeg_load c t0 rules) Hnn) Ht Hb).
Qed.

(* rejected requests consume nothing: after the statistic phase of a blocked request the admitted
   list is unchanged, and every later read of every rule is what it would have been *)
Theorem C02_rejected_consume_nothing : forall c t0 rules es t res b pd t' own x,
  cfg_ok c -> 0 < t0 -> rules_ok rules -> emono t0 es -> elast t0 es <= t -> t <= t' < two62' ->
  let w := fst (erun (load c t0 rules) es) in
  Forall (fun q => alookup (p_res (snd q)) (w_nodes w) <> None) pd ->
  let w' := rec_block w t res b pd in
  w_adm w' = w_adm w /\
  (In x (ctrls_of w' own) ->
   ctrl_sum w' x t' = Some (adm_sum (w_adm w) (c_target own x) (win_lo (w_cfg w) x t') (win_hi (w_cfg w) x t'))).
Proof.
  intros c t0 rules es t res b pd t' own x Hc Ht0 Hr Hm Ht Ht' w.
  exact (blocked_consumes_nothing w (elast t0 es) t res b pd t' own x (reachable_inv c t0 rules es Hc Ht0 Hr Hm) Ht Ht').
Qed.

(* the admitted list is the trace: exactly the Entry operations that were not blocked *)
Theorem C02_admitted_is_trace : forall c t0 rules ops,
  w_adm (fst (run (load c t0 rules) ops)) = trace_adm ops (snd (run (load c t0 rules) ops)) [].
Proof.
  intros c t0 rules ops. rewrite (run_adm ops (load c t0 rules) (load_pend c t0 rules)), load_adm. reflexivity.
Qed.

(* a sequential history is a schedule of the check/record machine *)
Theorem C02_sequential_is_schedule : forall w ops, fst (run w ops) = fst (erun w (seq_events ops)).
Proof. intros w ops. exact (run_erun ops w). Qed.

(* no excess: for every sequential history and every rule on its own resource reading windows of
   length I aligned to buckets of length bl, every aligned window holds at most floor(T) admitted
   tokens *)
Theorem C02_no_excess : forall c t0 rules ops res r bl I,
  cfg_ok c -> 0 < t0 -> rules_ok rules ->
  omono t0 ops -> olast t0 ops < two62' -> Forall op_nonneg ops -> ops_total ops < 2 ^ 53 ->
  0 < bl -> I mod bl = 0 -> r_assoc r = false -> thr_ok (r_thr r) = true ->
  has_rule res bl I r (load c t0 rules) ->
  forall s, s mod bl = 0 ->
  adm_sum (w_adm (fst (run (load c t0 rules) ops))) res s (s + I) <= thr_limit (r_thr r).
Proof. exact no_excess. Qed.

(* k requests simultaneously between rule check and statistics: the counter a rule reads (the
   current window sum; Release = tokens leaving the window as it slides) never exceeds
   floor(T) + (k-1) * bmax, for every schedule of any number of threads *)
Theorem C02_k_bound : forall L k bmax sched,
  1 <= k -> 0 <= L -> 0 <= bmax ->
  Forall AdmitConcProofs.ev_ok sched ->
  Forall (pend_ok k bmax) (ctrace L (fun b => Z.min b bmax) sched cinit) ->
  Forall (fun s => count s <= L + (k - 1) * bmax) (ctrace L (fun b => Z.min b bmax) sched cinit).
Proof.
  intros L k bmax sched Hk HL Hb. apply k_bound; auto. intros b Hb0. lia.
Qed.

(* ---- non-vacuity ---- *)

Definition ex_rules : list (Z * list rule) :=
  [(0, [{| r_thr := 2.5; r_itv := 0; r_assoc := false; r_ref := 0 |};
        {| r_thr := 3; r_itv := 750; r_assoc := false; r_ref := 0 |}]);
   (1, [{| r_thr := 1; r_itv := 2000; r_assoc := true; r_ref := 0 |}])].

Definition ex_ops : list op :=
  [Enter 1700000000100 0 1; Enter 1700000000100 0 1; Enter 1700000000100 0 1;
   Enter 1700000000499 1 1; Enter 1700000000600 1 0; Exit 1700000000700 0 1 1700000000100;
   Enter 1700000000999 0 1; Enter 1700000001000 0 2; Enter 1700000001499 0 1; Enter 1700000001500 0 2;
   Enter 1700000013000 1 1].

(* the hypotheses of the theorems hold of a concrete configuration, and the history is non-trivial:
   two rules on resource 0 (default view, independent 750 ms window), an associated rule on
   resource 1; admissions and rejections on both resources (the associated rule rejects on resource 1
   because of resource 0's tokens), bucket and array-cycle boundaries crossed *)
Transparent two32.
Example C02_nonvacuous_cfg : cfg_ok default_cfg /\ rules_ok ex_rules.
Proof.
  split.
  - unfold cfg_ok, geom_ok. vm_compute. intuition (try discriminate; try reflexivity).
  - unfold rules_ok, ex_rules. repeat constructor; cbn; unfold two32; lia.
Qed.
Example C02_nonvacuous_history :
  omono 1700000000000 ex_ops /\ emono 1700000000000 (seq_events ex_ops) /\
  Forall ev_nonneg (seq_events ex_ops) /\ Forall op_nonneg ex_ops /\ ops_total ex_ops < 2 ^ 53.
Proof.
  split; [cbn [omono ex_ops op_time]; lia|].
  split; [cbn [emono seq_events flat_map ex_ops op_events app ev_time]; lia|].
  split; [cbn [seq_events flat_map ex_ops op_events app]; repeat (apply Forall_cons; [cbn [ev_nonneg]; try lia; trivial|]); apply Forall_nil|].
  split; [unfold ex_ops; repeat (apply Forall_cons; [cbn [op_nonneg]; try lia; trivial|]); apply Forall_nil|].
  cbn [ops_total ex_ops]. lia.
Qed.
Example C02_nonvacuous_outcomes :
  snd (run (load default_cfg 1700000000000 ex_rules) ex_ops)
  = [OPass; OPass; OBlock 0 2; OBlock 0 2; OBlock 0 2; ONone; OBlock 0 2; OPass; OBlock 0 2; OBlock 0 2; OPass].
Proof. vm_compute. reflexivity. Qed.
Example C02_nonvacuous_thresholds :
  forallb (fun x => thr_ok (r_thr (c_rule x))) (ctrls_of (load default_cfg 1700000000000 ex_rules) 0) = true /\
  thr_limit 2.5 = 2 /\ thr_ok 2.5 = true /\ rule_blocks 2.5 2 1 = true /\ rule_blocks 2.5 1 1 = false.
Proof. vm_compute. auto. Qed.
Example C02_nonvacuous_rule_default :
  has_rule 0 500 1000 {| r_thr := 2.5; r_itv := 0; r_assoc := false; r_ref := 0 |} (load default_cfg 1700000000000 ex_rules).
Proof.
  unfold has_rule. set (l := ctrls_of (load default_cfg 1700000000000 ex_rules) 0). vm_compute in l. subst l.
  eexists. split; [left; reflexivity|]. vm_compute. auto.
Qed.
Example C02_nonvacuous_rule_independent :
  has_rule 0 750 750 {| r_thr := 3; r_itv := 750; r_assoc := false; r_ref := 0 |} (load default_cfg 1700000000000 ex_rules).
Proof.
  unfold has_rule. set (l := ctrls_of (load default_cfg 1700000000000 ex_rules) 0). vm_compute in l. subst l.
  eexists. split; [right; left; reflexivity|]. vm_compute. auto.
Qed.

(* the k-bound's hypotheses: two requests inside the path at once, threshold 2 *)
Example C02_k_bound_nonvacuous :
  let sched := [Check 1 1; Check 2 1; Check 3 2; Record 1; Record 2; Record 3; Check 4 1] in
  forallb (fun s => (Z.of_nat (length (pending s)) <=? 3) && forallb (fun p => (0 <=? snd p) && (snd p <=? 2)) (pending s))
          (ctrace 2 (fun b => Z.min b 2) sched cinit) = true /\
  count (cexec 2 (fun b => Z.min b 2) sched cinit) = 4.
Proof. vm_compute. auto. Qed.

Print Assumptions C02_window_read.
Print Assumptions C02_float_exact.
Print Assumptions C02_float_exact_real.
Print Assumptions C02_thr_limit_is_floor.
Print Assumptions C02_decision.
Print Assumptions C02_no_spurious_block.
Print Assumptions C02_rejected_consume_nothing.
Print Assumptions C02_admitted_is_trace.
Print Assumptions C02_sequential_is_schedule.
Print Assumptions C02_no_excess.
Print Assumptions C02_k_bound.
