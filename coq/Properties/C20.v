(* C20 — Outlier ejection never removes more than the allowed share of nodes.
   Property theorems only; every proof is `exact <lemma>` from Proofs/.

   Reading guide. `step r s (Enter obj true now order)` is one request on the outlier chain at
   clock `now` in state `s` (ANY state, in particular every state reachable by any history);
   `order` is the iteration order of the Go map of node breakers (the implementation visits
   every known address once: NoDup). The request reports `OLists f h`: f = FilterNodes(),
   h = HalfOpenNodes(). `rejects rule now b` = TryPass of breaker b returns false at `now`;
   `probes rule now b` = TryPass returns true and b is half-open afterwards. *)
From Coq Require Import Floats.
From SG Require Import Base.Prelude Base.GoInt Base.GoFloat Model.Outlier
  Proofs.OutlierProofs Proofs.OutlierFloat.
#[local] Open Scope Z_scope.

(* ---- clause 1: only nodes whose breaker currently rejects traffic are filtered ------------- *)

(* every filtered address is a known node whose breaker refused this request, and the request
   left that breaker exactly as it was (so it still refuses at `now`) *)
Theorem C20_filter_subset_rejecting : forall r s obj now order s' f h,
  NoDup order ->
  step r s (Enter obj true now order) = (s', OLists f h) ->
  forall a, In a f ->
    exists b, alookup a (nodes s) = Some b /\ rejects (br r) now b /\ alookup a (nodes s') = Some b.
Proof. exact step_filter_rejecting. Qed.

(* what "rejects" means in terms of the three-state machine *)
Theorem C20_rejects_means : forall r now b,
  rejects r now b <->
  (st b = Open /\ now < next_retry b) \/ (st b = HalfOpen /\ probe_num r <= 0).
Proof. exact rejects_iff. Qed.

(* a request whose outlier check does not run (empty resource name on the outlier chain, or a
   chain without the slot) reports no nodes, whatever happened before and whichever pooled
   context object it was given (D23, repaired in /repo) *)
Theorem C20_no_stale_lists : forall r ops obj now order s' f h,
  step r (exec r init ops) (Enter obj false now order) = (s', OLists f h) -> f = [] /\ h = [].
Proof. exact skip_reports_nothing. Qed.

(* ---- clause 2: the size of the filtered set ---------------------------------------------- *)

(* |filter| <= int(float64(n) * MaxEjectionPercent) with n = number of known nodes; the list has
   no repetitions, holds visited addresses only, and the check neither adds nor removes nodes *)
Theorem C20_filter_bound : forall r s obj now order s' f h,
  step r s (Enter obj true now order) = (s', OLists f h) ->
  Z.of_nat (length f) <= Z.max 0 (limit_of (Z.of_nat (length (nodes s))) (pct r)) /\
  (NoDup order -> NoDup f) /\ incl f order /\ length (nodes s') = length (nodes s).
Proof. exact step_filter_len. Qed.

(* the limit expression, for every node count below 2^53 and every double 0 <= pct <= 1:
   it never exceeds the node count, it is floor(n * pct) (pct taken at its exact binary value)
   or that plus one, and it is the larger value exactly when the correctly rounded product
   float64(n) * pct is the integer floor(n * pct) + 1 *)
Theorem C20_limit_le_count : forall n p,
  0 <= n < 2 ^ 53 -> pct_valid p = true -> 0 <= limit_of n p <= n.
Proof. exact limit_le_count. Qed.

Theorem C20_limit_vs_exact_floor : forall n p,
  0 <= n < 2 ^ 53 -> pct_valid p = true ->
  exact_floor n p <= limit_of n p <= exact_floor n p + 1 /\
  (limit_of n p = exact_floor n p + 1 <-> product_rounds_to_next_integer n p).
Proof. exact limit_vs_exact_floor. Qed.

(* hence, outside the rounding region, the bound of the property statement holds literally *)
Theorem C20_filter_bound_exact_floor : forall r s obj now order s' f h,
  0 <= Z.of_nat (length (nodes s)) < 2 ^ 53 -> pct_valid (pct r) = true ->
  ~ product_rounds_to_next_integer (Z.of_nat (length (nodes s))) (pct r) ->
  step r s (Enter obj true now order) = (s', OLists f h) ->
  Z.of_nat (length f) <= exact_floor (Z.of_nat (length (nodes s))) (pct r).
Proof. exact step_filter_exact_floor. Qed.

(* ... and inside it the literal bound fails (recorded finding C20-F1): three known nodes, one
   of them ejected, MaxEjectionPercent = the double nearest 1/3 (which is below 1/3):
   floor(3 * pct) = 0, yet one node is filtered *)
Theorem C20_filter_bound_exact_floor_refuted : exists r ops obj now order s' f h,
  pct_valid (pct r) = true /\ NoDup order /\
  step r (exec r init ops) (Enter obj true now order) = (s', OLists f h) /\
  exact_floor (Z.of_nat (length (nodes (exec r init ops)))) (pct r) < Z.of_nat (length f).
Proof. exact filter_exact_floor_refuted. Qed.

(* ---- clause 4: half-open nodes ----------------------------------------------------------- *)

(* the reported half-open addresses are exactly: passive recovery mode, a known visited node,
   whose breaker admitted this request as a probe and is half-open after the check *)
Theorem C20_half_open_exact : forall r s obj now order s' f h,
  NoDup order ->
  step r s (Enter obj true now order) = (s', OLists f h) ->
  forall a, In a h <->
    (active r = false /\ In a order /\
     exists b, alookup a (nodes s) = Some b /\ probes (br r) now b /\
               alookup a (nodes s') = Some (snd (try_pass (br r) now b))).
Proof. exact step_half_exact. Qed.

Theorem C20_probes_means : forall r now b,
  probes r now b <->
  (st b = Open /\ next_retry b <= now) \/ (st b = HalfOpen /\ 0 < probe_num r).
Proof. exact probes_iff. Qed.

(* no address is reported both as filtered and as half-open *)
Theorem C20_half_open_disjoint : forall r s obj now order s' f h,
  NoDup order ->
  step r s (Enter obj true now order) = (s', OLists f h) ->
  forall a, In a f -> ~ In a h.
Proof. exact step_half_disjoint. Qed.

(* ---- clause 3: the recycler --------------------------------------------------------------- *)

(* node a is scheduled for recycling in s0; any operations follow in which its timer does not
   fire (mid1); a request to a completes successfully; any further operations without its
   timer firing (mid2); then the timer fires: the node breakers are untouched, a keeps its
   breaker. (The timer may fire at any moment: the recycle interval is not modelled.) *)
Theorem C20_success_not_recycled : forall r s0 a mid1 obj now c mid2,
  alookup a (rstatus s0) <> None ->
  Forall (not_fire a) mid1 -> Forall (not_fire a) mid2 ->
  let s1 := exec r s0 mid1 in
  alookup obj (live s1) = Some c -> c_outlier c = true -> 0 < a ->
  let s2 := exec r (fst (step r s1 (Exit obj now a false))) mid2 in
  nodes (fst (step r s2 (Fire a))) = nodes s2 /\
  alookup a (nodes (fst (step r s2 (Fire a)))) <> None.
Proof. exact success_not_recycled. Qed.

(* a rule reload that keeps the circuit-breaker part (identical rule, or only RecoveryIntervalMs /
   RecycleIntervalS / MaxRecoveryAttempts / the check function changed) is the model's Reload: it
   changes nothing, and wherever it falls between a node's scheduling, its successful completion
   and its timer, the recovered node is not recycled *)
Theorem C20_reload_changes_nothing : forall r s, step r s Reload = (s, ONone).
Proof. exact reload_id. Qed.

Theorem C20_success_not_recycled_across_reload : forall r s0 a pre post obj now c mid2a mid2b,
  alookup a (rstatus s0) <> None ->
  Forall (not_fire a) pre -> Forall (not_fire a) post ->
  Forall (not_fire a) mid2a -> Forall (not_fire a) mid2b ->
  let s1 := exec r s0 (pre ++ Reload :: post) in
  alookup obj (live s1) = Some c -> c_outlier c = true -> 0 < a ->
  let s2 := exec r (fst (step r s1 (Exit obj now a false))) (mid2a ++ Reload :: mid2b) in
  nodes (fst (step r s2 (Fire a))) = nodes s2 /\
  alookup a (nodes (fst (step r s2 (Fire a)))) <> None.
Proof. exact success_not_recycled_across_reload. Qed.

(* conversely the timer of a scheduled node that never recovered removes its breaker *)
Theorem C20_unrecovered_recycled : forall r s a,
  alookup a (rstatus s) = Some false ->
  alookup a (nodes (fst (step r s (Fire a)))) = None.
Proof. exact fire_unrecovered. Qed.

(* ---- non-vacuity --------------------------------------------------------------------------- *)

Definition ex_rule : orule :=
  mkOR (mkBR 2 1000 1 60000 0 (mkF false 1 0) 1) false (mkF false 1 (-1)).   (* error count >= 1; pct = 0.5 *)

(* four nodes; 1, 2, 3 fail and are ejected; pct = 0.5 allows two; at +1000 ms node 1 is probed *)
Definition ex_ops : list op :=
  [ Enter 1 true 1000 []; Exit 1 1000 1 true;
    Enter 1 true 1001 [1]; Exit 1 1001 2 true;
    Enter 1 true 1002 [1; 2]; Exit 1 1002 3 true;
    Enter 1 true 1003 [1; 2; 3]; Exit 1 1003 4 false ].

Example C20_nonvacuous :
  let s := exec ex_rule init ex_ops in
  (* a request that must cut the filter at the limit: three rejecting nodes, two allowed *)
  snd (step ex_rule s (Enter 1 true 1004 [3; 4; 1; 2])) = OLists [3; 1] []
  (* node 1's retry timeout has arrived: it is probed, 2 and 3 are filtered *)
  /\ snd (step ex_rule s (Enter 1 true 2000 [3; 4; 1; 2])) = OLists [3; 2] [1]
  (* scheduled nodes: 1, 2, 3, none recovered *)
  /\ rstatus s = [(1, false); (2, false); (3, false)]
  (* node 1 recovers through a successful probe and survives its timer; node 2 does not *)
  /\ akeys (nodes (exec ex_rule s [Enter 1 true 2000 [1; 2; 3; 4]; Exit 1 2001 1 false; Fire 1; Fire 2])) = [1; 3; 4]
  (* the same with a reload before the probe and another one before the timers *)
  /\ akeys (nodes (exec ex_rule s [Reload; Enter 1 true 2000 [1; 2; 3; 4]; Exit 1 2001 1 false; Reload; Fire 1; Fire 2])) = [1; 3; 4]
  (* a request without outlier check on the refurbished context reports nothing *)
  /\ snd (step ex_rule s (Enter 1 false 1004 [])) = OLists [] [].
Proof. vm_compute. repeat split. Qed.

Print Assumptions C20_filter_subset_rejecting.
Print Assumptions C20_rejects_means.
Print Assumptions C20_no_stale_lists.
Print Assumptions C20_filter_bound.
Print Assumptions C20_limit_le_count.
Print Assumptions C20_limit_vs_exact_floor.
Print Assumptions C20_filter_bound_exact_floor.
Print Assumptions C20_filter_bound_exact_floor_refuted.
Print Assumptions C20_half_open_exact.
Print Assumptions C20_probes_means.
Print Assumptions C20_half_open_disjoint.
Print Assumptions C20_success_not_recycled.
Print Assumptions C20_reload_changes_nothing.
Print Assumptions C20_success_not_recycled_across_reload.
Print Assumptions C20_unrecovered_recycled.
