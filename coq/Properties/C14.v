(* C14 — Reloading rules does not disturb the runtime state of unchanged rules; a modified rule with
   unchanged statistic parameters keeps its statistics.  Property theorems only.

   Stated over the generic build algorithm of Model/Rules.v (buildResourceTrafficShapingController /
   BuildResourceCircuitBreaker as repaired for D15: equal rules are matched first, statistics are
   reused in a second pass), which flow, hotspot and circuit breaker instantiate.  A controller
   record (bound rule, identity, statistics identity) stands for the controller object and hence for
   its runtime state: breaker state and deadline, throttling queue, warm-up tokens, per-value
   counters live in that object or in its statistics object and are never touched by a load. *)
From Coq Require Import Floats.
From SG Require Import Base.Prelude Base.GoInt Base.GoFloat Model.Rules Proofs.RulesProofs.
#[local] Open Scope Z_scope.

Section G.
  Variable rule : Type.
  Variable valid : rule -> bool.           (* not used by the build algorithm *)
  Variable deep_eq : rule -> rule -> bool. (* idem *)
  Variable resource : rule -> Z.
  Variable equal stat_reusable : rule -> rule -> bool.
  Variable supported : rule -> bool.
  Variable q : quirks.
  Notation build := (build rule resource equal stat_reusable supported q).
  Notation build2 := (build2 rule resource equal stat_reusable supported q).
  Notation mismatch := (mismatch rule resource q).

  (* For a class `cls` of rules the module treats as one rule (cls_compat: `equal` relates exactly the
     members of the class among the rules involved — e.g. cls := equal r0 where equal is an
     equivalence on them): the k-th rule of the class in the new list is served by the k-th old
     controller of the class — the same object: bound rule, identity, statistics — as far as the old
     controllers last, whatever other rules were added, removed, modified, duplicated or reordered
     in the same load; surplus rules of the class get controllers created by this load. *)
  Theorem C14_unchanged_keeps_controller : forall cls res n rules olds,
    (forall x, In x rules -> cls x = true -> mismatch res x = false /\ supported x = true) ->
    cls_compat rule equal cls olds rules ->
    Forall2 (served rule n)
            (expected rule (length (filter cls rules)) (filter (fun c => cls (c_rule c)) olds))
            (filter (fun c => cls (c_rule c)) (build n res rules olds)).
  Proof. exact (unchanged_keeps_controller rule valid resource equal stat_reusable supported deep_eq q). Qed.

  (* hence every later decision of a kept controller equals the no-reload run's, for any
     deterministic controller semantics over (controller object, runtime store) *)
  Theorem C14_behaviour_invisible : forall (rt input decision : Type) (cstep : ctrl rule -> rt -> input -> rt * decision)
      n mo c old,
    served rule n mo c -> mo = Some old ->
    forall st ins, ctrace rule rt input decision cstep c st ins = ctrace rule rt input decision cstep old st ins.
  Proof. exact (behaviour_invisible rule). Qed.

  (* the two together for the common case - the unchanged rule occurs once in the old and once in
     the new list: exactly one controller serves it after the load, the old object, and its trace of
     decisions from any runtime state on any inputs is the trace the old object produces *)
  Theorem C14_unchanged_rule_same_decisions : forall cls res n rules olds c0,
    (forall x, In x rules -> cls x = true -> mismatch res x = false /\ supported x = true) ->
    cls_compat rule equal cls olds rules ->
    filter (fun c => cls (c_rule c)) olds = [c0] -> length (filter cls rules) = 1%nat ->
    filter (fun c => cls (c_rule c)) (build n res rules olds) = [c0].
  Proof. exact (unchanged_single rule valid resource equal stat_reusable supported deep_eq q). Qed.

  (* statistics reuse: a rule that matched no old controller is generated over the statistics object
     of the first controller left over by the equal-matching pass that is statistic-reusable with it
     (and that controller is then no longer a candidate); without such a controller it gets
     statistics of its own *)
  Theorem C14_stat_reuse : forall n res r rs ms olds pos,
    mismatch res r = false -> supported r = true ->
    Forall (fun c => equal (c_rule c) r = false) olds ->
    forall j o, find_reuse rule stat_reusable r olds = Some j -> nth_error olds j = Some o ->
    build2 n res (r :: rs) (None :: ms) olds pos
      = {| c_rule := r; c_id := (n, res, pos); c_stat := c_stat o |} :: build2 n res rs ms (remove_nth j olds) (pos + 1).
  Proof. exact (build2_stat_first rule valid resource equal stat_reusable supported deep_eq q). Qed.

  Theorem C14_stat_fresh : forall n res r rs ms olds pos,
    mismatch res r = false -> supported r = true ->
    Forall (fun c => equal (c_rule c) r = false) olds ->
    find_reuse rule stat_reusable r olds = None ->
    build2 n res (r :: rs) (None :: ms) olds pos
      = {| c_rule := r; c_id := (n, res, pos); c_stat := (n, res, pos) |} :: build2 n res rs ms olds (pos + 1).
  Proof. exact (build2_stat_fresh rule valid resource equal stat_reusable supported deep_eq q). Qed.

  (* and statistics never come from anywhere else: every controller of the result is an old
     controller, or a new one over its own statistics or over those of a statistic-reusable old one *)
  Theorem C14_stat_sound : forall n res rules olds,
    Forall (fun c => In c olds \/
                     (fst (fst (c_id c)) = n /\
                      (c_stat c = c_id c \/
                       exists o, In o olds /\ stat_reusable (c_rule o) (c_rule c) = true /\ c_stat c = c_stat o)))
           (build n res rules olds).
  Proof. exact (build_stat_sound rule valid resource equal stat_reusable supported deep_eq q). Qed.
End G.

(* ---- non-vacuity: the D15 witness on the circuit breaker instance ---- *)
Definition A : brule :=
  {| b_tag := 1; b_res := 5; b_strategy := 2; b_retry := 5000; b_minreq := 1; b_interval := 1000;
     b_buckets := 1; b_maxrt := 0; b_thr := 1%float; b_probe := 0 |}.
Definition A' : brule :=   (* A with another threshold: statistic-reusable with A, not equal *)
  {| b_tag := 2; b_res := 5; b_strategy := 2; b_retry := 5000; b_minreq := 1; b_interval := 1000;
     b_buckets := 1; b_maxrt := 0; b_thr := 50%float; b_probe := 0 |}.
Definition cA : ctrl brule := {| c_rule := A; c_id := (0, 5, 0); c_stat := (0, 5, 0) |}.

Notation bbuild := (build brule b_res brk_equal brk_stat_reusable brk_supported brk_quirks).

(* old [A], load [A', A, A]: the first A keeps the old controller (identity and statistics), A' and the
   second A get new controllers with statistics of their own; old [A], load [A']: A' is built over A's
   statistics; and the class hypotheses of C14_unchanged_keeps_controller hold for cls := brk_equal A *)
Example C14_nonvacuous :
  bbuild 7 5 [A'; A; A] [cA]
    = [ {| c_rule := A'; c_id := (7, 5, 0); c_stat := (7, 5, 0) |}; cA;
        {| c_rule := A; c_id := (7, 5, 2); c_stat := (7, 5, 2) |} ]
  /\ bbuild 7 5 [A'] [cA] = [ {| c_rule := A'; c_id := (7, 5, 0); c_stat := (0, 5, 0) |} ]
  /\ cls_compat brule brk_equal (brk_equal A) [cA] [A'; A; A]
  /\ (forall x, In x [A'; A; A] -> brk_equal A x = true ->
        mismatch brule b_res brk_quirks 5 x = false /\ brk_supported x = true).
Proof.
  split; [vm_compute; reflexivity|]. split; [vm_compute; reflexivity|]. split.
  - split; intros c x [<-|[]] [<-|[<-|[<-|[]]]]; vm_compute; auto.
  - intros x [<-|[<-|[<-|[]]]]; vm_compute; auto.
Qed.

(* the hypotheses of C14_stat_reuse / C14_stat_fresh / C14_unchanged_rule_same_decisions / C14_behaviour_invisible
   are met by the same witness: A' finds A's controller as its statistic-reusable candidate when A is
   gone from the list, none when the candidate list is empty; [A'; A] has one rule of A's class and
   [cA] one controller of it; and cA serves A after the load *)
Example C14_stat_nonvacuous :
  mismatch brule b_res brk_quirks 5 A' = false /\ brk_supported A' = true
  /\ Forall (fun c => brk_equal (c_rule c) A' = false) [cA]
  /\ find_reuse brule brk_stat_reusable A' [cA] = Some 0%nat /\ nth_error [cA] 0 = Some cA
  /\ find_reuse brule brk_stat_reusable A' [] = None
  /\ filter (fun c => brk_equal A (c_rule c)) [cA] = [cA] /\ length (filter (brk_equal A) [A'; A]) = 1%nat
  /\ filter (fun c => brk_equal A (c_rule c)) (bbuild 7 5 [A'; A] [cA]) = [cA]
  /\ served brule 7 (Some cA) cA.
Proof. vm_compute. repeat split; repeat constructor. Qed.

Print Assumptions C14_unchanged_rule_same_decisions.
Print Assumptions C14_unchanged_keeps_controller.
Print Assumptions C14_behaviour_invisible.
Print Assumptions C14_stat_reuse.
Print Assumptions C14_stat_fresh.
Print Assumptions C14_stat_sound.
