(* C08 — Sliding-window statistics equal the aligned-bucket reference for any history.
   Property theorems only; proofs are in Proofs/LeapArrayProofs.v and Proofs/StatProofs.v.

   Conventions: a geometry is (n, itv) with 0 < n, itv mod n = 0, 0 < itv < 2^32 (uint32, and
   NewLeapArray's own validity check); bl = itv / n; a history h is a list of timed events
   (AddCount of one of the five event kinds, UpdateConcurrency), non-decreasing in time from
   the creation time t0 > 0 (smono); times are below 2^62 ms so that the code's uint64
   arithmetic cannot wrap. `ref … lo hi` merges the amounts of the events with lo <= t < hi;
   win_sum / win_min_rt / win_max_conc are its components written directly on the event list. *)
From SG Require Import Base.Prelude Base.GoInt Model.LeapArray Proofs.LeapArrayProofs Proofs.StatProofs.

(* reads of the array itself (Count, MinRt, MaxConcurrency, Values): refresh, then every
   non-expired bucket: exactly the events of the aligned window ending at the current bucket *)
Theorem C08_array_read_eq_ref : forall n itv t0 h now,
  0 < n -> itv mod n = 0 -> 0 < itv < two32 ->
  0 < t0 -> smono t0 h -> slast t0 h <= now < two62' ->
  let bl := itv / n in
  snd (bla_read (bla_run (bla_new n itv t0) h) now)
  = ref mb_op mb_e (map sev_gev h) (bstart bl now + bl - itv) (bstart bl now + bl).
Proof. intros n itv t0 h now Hn Hd Hi. exact (bla_read_eq_ref n itv Hn Hd Hi t0 h now). Qed.

(* reads through any window view that passes the reuse-validity check (GetSum, GetQPS, AvgRT,
   MinRT, MaxConcurrency all derive from this merge), at any instant at or after the last event:
   idle gaps of any length, reads exactly on bucket and cycle boundaries, timestamps near zero *)
Theorem C08_view_read_eq_ref : forall n itv t0 h now vn vitv,
  0 < n -> itv mod n = 0 -> 0 < itv < two32 ->
  0 < t0 -> smono t0 h -> 0 <= vn -> 0 <= vitv ->
  check_reuse vn vitv n itv = true ->
  slast t0 h <= now < two62' ->
  let bl := itv / n in
  view_merge (bla_run (bla_new n itv t0) h) {| v_n := vn; v_itv := vitv |} now
  = ref mb_op mb_e (map sev_gev h) (bstart bl now + bl - vitv) (bstart bl now + bl).
Proof.
  intros n itv t0 h now vn vitv Hn Hd Hi Ht0 Hm Hvn Hvitv Hck Hnow bl.
  destruct (check_reuse_tiles vn vitv n itv Hvn Hvitv ltac:(lia) ltac:(lia) Hck)
    as (_ & Hv0 & _ & _ & _ & _ & _ & _ & _ & Hvle & _).
  assert (Hl0 : 0 < slast t0 h).
  { clear - Ht0 Hm. revert t0 Ht0 Hm. induction h as [|x r IH]; intros t0 Ht0 Hm; cbn in *; [lia|].
    destruct Hm as [H1 H2]. apply (IH (sev_time x)); [lia|assumption]. }
  apply (view_eq_ref n itv Hn Hd Hi t0 h now vn vitv); auto; try lia.
  apply (read_now_ok n itv Hn Hd Hi); lia.
Qed.

(* previous-window reads (GetPreviousQPS) for views shorter than the array by at least one
   view bucket *)
Theorem C08_previous : forall n itv t0 h now vn vitv,
  0 < n -> itv mod n = 0 -> 0 < itv < two32 ->
  0 < t0 -> smono t0 h -> 0 <= vn -> 0 <= vitv ->
  check_reuse vn vitv n itv = true ->
  vitv / vn <= itv - vitv ->
  slast t0 h <= now < two62' -> 0 < now - vitv / vn ->
  let bl := itv / n in
  let prev := now - vitv / vn in
  view_merge (bla_run (bla_new n itv t0) h) {| v_n := vn; v_itv := vitv |} prev
  = ref mb_op mb_e (map sev_gev h) (bstart bl prev + bl - vitv) (bstart bl prev + bl).
Proof. intros n itv t0 h now vn vitv Hn Hd Hi. exact (view_previous_eq_ref n itv Hn Hd Hi t0 h now vn vitv). Qed.

(* the reference merge is the plain multiset reference: sums per event kind, minimum response
   time (from DefaultStatisticMaxRt), peak concurrency (from 0) *)
Theorem C08_ref_is_window_sum : forall ev h lo hi, ev_ok ev ->
  mb_get ev (ref mb_op mb_e (map sev_gev h) lo hi) = win_sum ev h lo hi.
Proof. exact ref_win_sum. Qed.
Theorem C08_ref_is_window_min_rt : forall h lo hi,
  m_minrt (ref mb_op mb_e (map sev_gev h) lo hi) = win_min_rt h lo hi.
Proof. exact ref_win_min_rt. Qed.
Theorem C08_ref_is_window_max_conc : forall h lo hi,
  m_maxc (ref mb_op mb_e (map sev_gev h) lo hi) = win_max_conc h lo hi.
Proof. exact ref_win_max_conc. Qed.

(* bucket level (ValuesConditional with any predicate on the bucket start: MetricsOnCondition,
   the per-second metric items, GetMaxOfSingleBucket): nothing older than the window is ever
   returned, and every returned bucket carries exactly the reference content of its own span *)
Theorem C08_nothing_stale : forall n itv t0 h now pred s,
  0 < n -> itv mod n = 0 -> 0 < itv < two32 ->
  0 < t0 -> smono t0 h -> 0 < now < two62' -> slast t0 h < two62' ->
  let bl := itv / n in
  In s (g_values_cond n bl (la_slots (bla_run (bla_new n itv t0) h)) now pred) ->
  fst s mod bl = 0 /\ bstart bl now + bl - itv <= fst s <= bstart bl now /\ pred (fst s) = true /\
  snd s = ref mb_op mb_e (map sev_gev h) (fst s) (fst s + bl).
Proof. intros n itv t0 h now pred s Hn Hd Hi. exact (bla_nothing_stale n itv Hn Hd Hi t0 h now pred s). Qed.

(* ... and nothing inside the window is lost: every window bucket satisfying the predicate in
   which anything was recorded is returned with its reference content *)
Theorem C08_nothing_lost : forall n itv t0 h now pred b,
  0 < n -> itv mod n = 0 -> 0 < itv < two32 ->
  0 < t0 -> smono t0 h -> 0 < now < two62' -> slast t0 h < two62' ->
  let bl := itv / n in
  b mod bl = 0 -> bstart bl now + bl - itv <= b <= bstart bl now -> pred b = true ->
  slast t0 h < b + itv ->
  ref mb_op mb_e (map sev_gev h) b (b + bl) <> mb_e ->
  In (b, ref mb_op mb_e (map sev_gev h) b (b + bl))
     (g_values_cond n bl (la_slots (bla_run (bla_new n itv t0) h)) now pred).
Proof. intros n itv t0 h now pred b Hn Hd Hi. exact (bla_nothing_lost n itv Hn Hd Hi t0 h now pred b). Qed.

(* a window view is only constructible when it tiles the underlying buckets exactly *)
Theorem C08_view_tiles : forall vn vitv pn pitv,
  0 <= vn -> 0 <= vitv -> 0 <= pn -> 0 <= pitv ->
  check_reuse vn vitv pn pitv = true ->
  0 < vn /\ 0 < vitv /\ 0 < pn /\ 0 < pitv /\
  vitv mod vn = 0 /\ pitv mod pn = 0 /\
  pitv mod vitv = 0 /\ (vitv / vn) mod (pitv / pn) = 0 /\ vitv mod (pitv / pn) = 0 /\
  vitv <= pitv /\ 0 < pitv / pn.
Proof. exact check_reuse_tiles. Qed.

(* with time non-decreasing the "time is behind" error branch is unreachable *)
Theorem C08_never_behind : forall n itv t0 h now,
  0 < n -> itv mod n = 0 -> 0 < itv < two32 ->
  0 < t0 -> smono t0 h -> slast t0 h <= now ->
  g_current mb_e n (itv / n) (la_slots (bla_run (bla_new n itv t0) h)) now <> None.
Proof. intros n itv t0 h now Hn Hd Hi. exact (bla_never_behind n itv Hn Hd Hi t0 h now). Qed.

(* non-vacuity: a 4x2000 ms array created at t0 = 7, events in several buckets and cycles, an
   idle gap longer than the array; the hypotheses hold and the reads are non-trivial *)
Example C08_nonvacuous :
  let h := [SAdd 7 0 5; SAdd 499 0 1; SAdd 500 0 2; SAdd 1999 2 3; SAdd 2000 4 17; SConc 2000 3; SAdd 2500 0 7; SAdd 9000 0 11] in
  smono 7 h /\ slast 7 h = 9000 /\ check_reuse 2 1000 4 2000 = true /\
  c_pass (snd (bla_read (bla_run (bla_new 4 2000 7) (firstn 7 h)) 2500)) = 7 /\
  view_sum (bla_run (bla_new 4 2000 7) (firstn 7 h)) {| v_n := 2; v_itv := 1000 |} 2500 0 = 7 /\
  c_pass (snd (bla_read (bla_run (bla_new 4 2000 7) h) 9000)) = 11 /\
  win_sum 0 (firstn 7 h) 1000 3000 = 7 /\
  c_pass (snd (bla_read (bla_run (bla_new 4 2000 7) (firstn 4 h)) 1999)) = 8.
Proof. vm_compute. repeat split; intros; try discriminate; reflexivity. Qed.

Print Assumptions C08_array_read_eq_ref.
Print Assumptions C08_view_read_eq_ref.
Print Assumptions C08_previous.
Print Assumptions C08_ref_is_window_sum.
Print Assumptions C08_ref_is_window_min_rt.
Print Assumptions C08_ref_is_window_max_conc.
Print Assumptions C08_nothing_stale.
Print Assumptions C08_nothing_lost.
Print Assumptions C08_view_tiles.
Print Assumptions C08_never_behind.
