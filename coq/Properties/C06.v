(* C06 - Hot-parameter concurrency is capped per value and its counters conserved.
   Property theorems only; every proof is `exact <lemma>` from Proofs/.

   Setting (Proofs/HotspotConcProofs.v): histories are lists of Enter / Exit / Tick operations
   through the public API ([run] of Model/Hotspot.v) over any number of resources, each guarded
   by any list of hotspot rules (concurrency and QPS mixed); Exit k exits the entry returned by
   the k-th operation, in any order - every interleaving of Entry and Exit calls of many
   goroutines at call granularity is such a list.  Every live entry carries its own input
   (api.entry after the args-copy fix 5064881), which is what Exit re-reads.
   - [reach rules adv clk0 ops] is the state after the history [ops];
   - [live_count res r v L]: number of entries in the live list L that were opened on resource
     res with a request whose selected argument under rule r is v - the true in-flight figure;
   - [cnt (m_conc m) v]: content of the cell of v in the rule's ConcurrencyCounter (absent = 0);
   - "capacity not exceeded": all values selected by concurrency rules in the history are real
     (non-NaN) keys of a duplicate-free list K no longer than any concurrency rule's
     ParamsMaxCapacity ([op_in], [caps_fit]).  Beyond it the property is false
     (C06_counter_exact_refuted, finding C06-F1). *)
From SG Require Import Base.Prelude Base.GoInt Model.LRU Model.Hotspot
  Proofs.LRUProofs Proofs.HotspotCtrlProofs Proofs.HotspotRunProofs Proofs.HotspotConcProofs
  Proofs.HotspotConcDemo.
#[local] Open Scope Z_scope.

(* in every reachable state, for every concurrency rule of every resource and every value v:
   counter(v) = number of live entries admitted with v *)
Theorem C06_counter_exact : forall (K : list Z), NoDup K ->
  forall rules, (forall res, caps_fit K (rules res)) ->
  forall adv clk0 ops, Forall (op_in K rules) ops -> Z.of_nat (length ops) < two62 ->
  let s := fst (run rules adv (init clk0) ops) in
  forall res i r m, nth_error (rules res) i = Some r -> nth_error (metrics_of rules s res) i = Some m ->
  is_conc r = true -> forall v, cnt (m_conc m) v = live_count res r v (s_live s).
Proof. exact run_counter_exact. Qed.

(* ... hence 0 for every value once all entries have exited *)
Theorem C06_counter_returns_to_zero : forall (K : list Z), NoDup K ->
  forall rules, (forall res, caps_fit K (rules res)) ->
  forall adv clk0 ops, Forall (op_in K rules) ops -> Z.of_nat (length ops) < two62 ->
  let s := fst (run rules adv (init clk0) ops) in
  s_live s = [] ->
  forall res i r m, nth_error (rules res) i = Some r -> nth_error (metrics_of rules s res) i = Some m ->
  is_conc r = true -> forall v, cnt (m_conc m) v = 0.
Proof. exact run_counter_zero. Qed.

(* on a resource guarded by concurrency rules, an Entry in any reachable state is admitted iff,
   for every rule, the live entries of the value the request selects under that rule are fewer
   than the threshold in force for that value (specific item or general) - no other value, rule
   position or resource enters the condition *)
Theorem C06_decision : forall (K : list Z), NoDup K ->
  forall rules, (forall res, caps_fit K (rules res)) ->
  forall adv clk0 ops res q, Forall (op_in K rules) ops -> Z.of_nat (length ops) < two62 ->
  req_in K (rules res) q -> Forall (fun r => is_conc r = true) (rules res) ->
  let s := reach rules adv clk0 ops in
  snd (step rules adv s (Enter res q)) = OPass [] <-> Forall (admits res (s_live s) q) (rules res).
Proof. exact run_decision. Qed.

(* one check of one concurrency rule (any rule list around it): pass iff live(v) < T_v, and a
   refusal reports live(v) + 1; threshold 0 therefore refuses every request (fix 6c5ca17) *)
Theorem C06_decision_rule : forall (K : list Z), NoDup K -> forall res L r m k,
  is_conc r = true -> Z.of_nat (length K) <= cache_size r -> In k K -> real_key k ->
  Z.of_nat (length L) < two62 -> CI K res L r m ->
  let n := live_count res r k L in
  CI K res L r (fst (conc_check r m k)) /\
  alookup k (m_conc (fst (conc_check r m k))) <> None /\
  snd (conc_check r m k) = if n <? tok_count r k then DPass else DBlock (Some (n + 1)).
Proof. exact conc_check_spec. Qed.

Theorem C06_threshold_zero_refuses : forall (K : list Z), NoDup K -> forall res L r m k,
  is_conc r = true -> Z.of_nat (length K) <= cache_size r -> In k K -> real_key k ->
  Z.of_nat (length L) < two62 -> CI K res L r m -> tok_count r k <= 0 ->
  snd (conc_check r m k) = DBlock (Some (live_count res r k L + 1)).
Proof. exact conc_check_threshold_zero. Qed.

(* Exit of a live entry changes every cell of every concurrency rule by minus the entry's own
   contribution (1 for the value it was admitted with under that rule on its resource, 0 for
   every other value, rule without the argument, or resource) *)
Theorem C06_release_own_unit : forall (K : list Z), NoDup K ->
  forall rules, (forall res, caps_fit K (rules res)) ->
  forall adv clk0 ops k res q, Forall (op_in K rules) ops -> Z.of_nat (length ops) + 1 < two62 ->
  let s := reach rules adv clk0 ops in
  alookup k (s_live s) = Some (res, q) ->
  let s' := fst (step rules adv s (Exit k)) in
  forall res' i r m m', nth_error (rules res') i = Some r ->
  nth_error (metrics_of rules s res') i = Some m -> nth_error (metrics_of rules s' res') i = Some m' ->
  is_conc r = true -> forall v, cnt (m_conc m') v = cnt (m_conc m) v - contrib res' r v (res, q).
Proof. exact run_release_own_unit. Qed.

(* non-vacuity: two concurrency rules on different argument positions, a specific item, entries
   with different values alive together, refusals by either rule, an exit out of order *)
Example C06_nonvacuous :
  NoDup c_K /\ (forall res, caps_fit c_K (c_rules res)) /\ Forall (op_in c_K c_rules) c_ops /\
  Z.of_nat (length c_ops) + 1 < two62 /\ Forall (fun r => is_conc r = true) (c_rules 0) /\
  snd (run c_rules true (init 0) c_ops) =
    [OPass []; OBlock 1 (Some 2) []; OPass []; OPass []; OBlock 0 (Some 3) []; ONone; OBlock 0 (Some 2) []] /\
  map m_conc (metrics_of c_rules (reach c_rules true 0 c_ops) 0) = [[(6, 1); (5, 1)]; [(7, 0)]] /\
  map fst (s_live (reach c_rules true 0 c_ops)) = [3; 2] /\
  alookup 3 (s_live (reach c_rules true 0 c_ops)) = Some (0, c_q [5]) /\
  snd (step c_rules true (reach c_rules true 0 c_ops) (Enter 0 (c_q [5]))) = OPass [] /\
  snd (step c_rules true (reach c_rules true 0 c_ops) (Enter 0 (c_q [6]))) = OBlock 0 (Some 2) [].
Proof.
  destruct c_run as [H1 [H2 H3]]. destruct c_next as [H4 H5].
  exact (conj c_nodup (conj c_caps (conj c_ops_in (conj c_len (conj c_all_conc
          (conj H1 (conj H2 (conj H3 (conj c_live3 (conj H4 H5)))))))))).
Qed.

(* a specific item of 0: the value is refused although nothing is in flight *)
Example C06_threshold_zero_nonvacuous :
  let r := {| r_metric := 0; r_behavior := 0; r_idx := 0; r_key := 0; r_thr := 3; r_maxq := 0;
              r_burst := 0; r_dur := 0; r_cap := 0; r_spec := [(6, 0)] |} in
  is_conc r = true /\ tok_count r 6 <= 0 /\ CI [6] 0 [] r metric0 /\
  snd (conc_check r metric0 6) = DBlock (Some 1) /\ snd (conc_check r metric0 5) = DPass.
Proof.
  cbv zeta. split; [reflexivity|]. split; [vm_compute; discriminate|]. split.
  - intros _. cbn [m_conc metric0 lru_keys map]. split; [apply NoDup_nil|]. split; [intros x []|]. intros v. reflexivity.
  - vm_compute. split; reflexivity.
Qed.

(* Known finding C06-F1: with more values than ParamsMaxCapacity the cell of a value that is
   still in flight is evicted; its count is lost, later exits drive the re-created cell to -1
   and the threshold is exceeded for good.  The faithful model exhibits it: *)
Theorem C06_counter_exact_refuted : exists (rules : Z -> list rule) (ops : list op),
  let '(s, o) := run rules true (init 0) ops in
  (* two entries for value 5 are live under a threshold of 1, and the counter says 1 *)
  length (s_live s) = 2%nat /\ map m_conc (metrics_of rules s 0) = [[(5, 1)]].
Proof.
  exists (fun res : Z => if res =? 0 then [conc_rule 1 1] else []), evict_witness.
  pose proof evict_witness_run as H. cbv zeta in H.
  destruct (run _ true (init 0) evict_witness) as [s o]. tauto.
Qed.

Print Assumptions C06_counter_exact.
Print Assumptions C06_counter_returns_to_zero.
Print Assumptions C06_decision.
Print Assumptions C06_decision_rule.
Print Assumptions C06_threshold_zero_refuses.
Print Assumptions C06_release_own_unit.
Print Assumptions C06_counter_exact_refuted.
