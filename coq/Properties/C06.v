(* C06 - Hot-parameter concurrency is capped per value and its counters conserved.
   Property theorems only; every proof is `exact <lemma>` from Proofs/. *)
From SG Require Import Base.Prelude Base.GoInt Model.LRU Model.Hotspot Proofs.HotspotConcProofs.
#[local] Open Scope Z_scope.

(* Known finding C06-F1: with more values than ParamsMaxCapacity the cell of a value that is
   still in flight is evicted; its count is lost, later exits drive the re-created cell to -1
   and the threshold is exceeded for good.  The faithful model exhibits it: *)
Theorem C06_counter_exact_refuted : exists (rules : Z -> list rule) (ops : list op),
  let '(s, o) := run rules true (init 0) ops in
  (* two entries for value 5 are live under a threshold of 1, and the counter says 1 *)
  length (s_live s) = 2%nat /\ map m_conc (metrics_of rules s 0) = [[(5, 1)]].
Proof.
  exists (fun res : Z => if res =? 0 then [conc_rule 1 1] else []), evict_witness.
  pose proof evict_witness_run as H. cbv zeta in H.
  destruct (run _ true (init 0) evict_witness) as [s o]. tauto.
Qed.

Print Assumptions C06_counter_exact_refuted.
