(* C05 - Hot-parameter QPS rules shape each parameter value independently.
   Property theorems only; every proof is `exact <lemma>` from Proofs/. *)
From SG Require Import Base.Prelude Base.GoInt Model.LRU Model.Hotspot Proofs.HotspotProofs.
#[local] Open Scope Z_scope.

(* requests that do not carry the selected argument of any rule of the resource pass Slot.Check
   without a wait and leave every controller's statistics untouched *)
Theorem C05_no_arg_unlimited : forall rules ms i clk adv q,
  Forall (fun r => extract r q = None) rules ->
  slot_check i rules ms clk adv q = (ms, clk, [], VPass).
Proof. exact slot_check_no_arg. Qed.

(* the threshold in force for a value is its specific item when one is configured ... *)
Theorem C05_specific_threshold : forall r k x,
  alookup k (r_spec r) = Some x -> tok_count r k = x.
Proof. exact tok_count_specific. Qed.

(* ... and the value is then checked exactly as by a rule whose threshold is that item *)
Theorem C05_specific_threshold_check : forall r m now k b,
  perform_checking r m now k b = perform_checking (with_threshold r (tok_count r k)) m now k b.
Proof. exact perform_checking_threshold. Qed.

Print Assumptions C05_no_arg_unlimited.
Print Assumptions C05_specific_threshold.
Print Assumptions C05_specific_threshold_check.
