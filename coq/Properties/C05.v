(* C05 - Hot-parameter QPS rules shape each parameter value independently.
   Property theorems only; every proof is `exact <lemma>` from Proofs/.

   Vocabulary (Proofs/HotspotCtrlProofs.v, HotspotEnvProofs.v, HotspotThrottleProofs.v):
   - a controller history is a list of calls (arrival ms, value key, batch) on one rule's
     PerformChecking: [ctrl_run] (reject mode) / [thr_run] (throttling mode), started on empty
     caches [metric0]; [decs_for v] / [proj v] / [only v] select the decisions / (time, batch)
     pairs / calls of value v;
   - [fits r K calls]: all values of the history are real (non-NaN) keys of a duplicate-free list
     K no longer than the rule's parameter capacity ("capacity not exceeded" - nothing is evicted);
   - [calls_ok t0 tmax calls]: arrival times non-decreasing within [t0, tmax], batches uint32;
   - [guard r v t0 tmax] (reject) / [tguard_all r K t0 tmax] (throttling): the no-overflow
     guards - magnitudes below 2^62 and (tmax - t0) * threshold < 2^62, resp. threshold > 0,
     2^32 * duration_ms < 2^53, max queueing < 2^40 ms, |clock| < 2^61.  Outside the reject
     guard the property is false (C05_idle_grant_refuted, finding C05-F2). *)
From SG Require Import Base.Prelude Base.GoInt Model.LRU Model.Hotspot
  Proofs.LRUProofs Proofs.HotspotProofs Proofs.HotspotBucketProofs Proofs.HotspotCtrlProofs
  Proofs.HotspotEnvProofs Proofs.HotspotThrottleProofs Proofs.HotspotRunProofs Proofs.HotspotDemo.
#[local] Open Scope Z_scope.

(* ---- the parameter cache ---------------------------------------------------------------------- *)

(* while the distinct keys fit the capacity, the LRU answers every operation sequence exactly as
   an unbounded total map does (nothing is lost) ... *)
Theorem LRU_refines_map : forall (cap : Z) (K : list Z), NoDup K -> Z.of_nat (length K) <= cap ->
  forall (ops : list (lru_op Z)) (l : lru Z) (m : tmap Z),
  Forall (fun o => In (op_key o) K /\ real_key (op_key o)) ops ->
  NoDup (lru_keys l) -> incl (lru_keys l) K -> agrees l m ->
  snd (lru_run cap l ops) = snd (map_run m ops) /\
  agrees (fst (lru_run cap l ops)) (fst (map_run m ops)).
Proof. exact (@lru_refines_map Z). Qed.

(* ... and a new key entering a full cache removes exactly the least recently touched key *)
Theorem LRU_evicts_oldest : forall (cap k v : Z) (l : lru Z),
  lru_find k l = None -> Z.of_nat (length l) = cap -> 1 <= cap ->
  fst (lru_add_if_absent cap k v l) = (k, v) :: removelast l /\
  lru_keys l = removelast (lru_keys l) ++ [last (lru_keys l) 0].
Proof. exact (@lru_evicts_oldest Z). Qed.

Example LRU_refines_map_nonvacuous :
  let ops := [OpAddIfAbsent 5 10; OpAddIfAbsent 6 20; OpGet 5; OpSet 5 11; OpAddIfAbsent 5 0; OpGet 7] in
  snd (lru_run 2 [] ops) = [None; None; Some 10; None; Some 11; None] /\
  snd (lru_run 2 [] ops) = snd (map_run tm_empty ops).
Proof. vm_compute. split; reflexivity. Qed.

(* ---- lockstep of the two caches: the `for` loop never spins ------------------------------------- *)

(* reject mode, any history over any keys (NaN included), evictions allowed: the time cache and
   the token cache hold the same key sequence, so "time present, token absent" never occurs *)
Theorem C05_lockstep : forall r calls m, lockstep m ->
  lockstep (fst (ctrl_run r m calls)) /\ Forall (fun d => d <> DSpin) (snd (ctrl_run r m calls)).
Proof. exact ctrl_run_lockstep_any. Qed.

(* through the public API: no operation of any Entry/Exit/Tick history over any rule set ever
   observes the branch in which PerformChecking would loop without progress *)
Theorem C05_no_spin : forall rules adv clk0 ops,
  Forall (fun o => o <> OSpin) (snd (run rules adv (init clk0) ops)).
Proof. exact run_no_spin. Qed.

(* ---- tokens ------------------------------------------------------------------------------------- *)

(* every token count stored by a reject-mode rule is >= 0 in every reachable state (no guard) *)
Theorem C05_tokens_nonneg : forall rules adv clk0 ops, batches_nonneg ops ->
  let s := fst (run rules adv (init clk0) ops) in
  forall res i r m, nth_error (rules res) i = Some r -> nth_error (metrics_of rules s res) i = Some m ->
  is_reject r = true -> forall k tok, alookup k (m_tok m) = Some tok -> 0 <= tok.
Proof. exact run_tokens_nonneg. Qed.

Example C05_tokens_nonneg_nonvacuous :
  batches_nonneg api_ops /\
  map m_tok (metrics_of api_rules (fst (run api_rules true (init 0) api_ops)) 0) = [[(5, 1)]] /\
  snd (run api_rules true (init 0) api_ops) = [OPass []; OPass []].
Proof. exact api_demo. Qed.

(* ... and never above threshold + burst of its value (guarded, not evicted) *)
Theorem C05_tokens_range : forall r K v t0 tmax calls,
  guard r v t0 tmax -> fits r K calls -> calls_ok t0 tmax calls -> 0 < tok_count r v ->
  match alookup v (m_tok (fst (ctrl_run r metric0 calls))) with
  | Some tok => 0 <= tok <= tok_count r v + r_burst r
  | None => True
  end.
Proof. exact ctrl_tokens_range. Qed.

(* ---- reject mode: envelopes --------------------------------------------------------------------- *)

(* tokens admitted for v <= (T_v + burst) + T_v * elapsed / D, elapsed counted from the time v
   was first seen ([first_seen]: arrival time of v's first request) to v's last request; stated
   without division *)
Theorem C05_envelope_total : forall r K v t0 tmax calls,
  guard r v t0 tmax -> fits r K calls -> calls_ok t0 tmax calls -> 0 < tok_count r v ->
  let T := tok_count r v in let B := r_burst r in let D := r_dur r * 1000 in
  let adm := adm_of v calls (snd (ctrl_run r metric0 calls)) in
  let t1 := first_seen t0 (proj v calls) in
  D * (admitted_tokens (proj v calls) adm - (T + B)) <= T * (last_time t1 (proj v calls) - t1).
Proof. exact ctrl_envelope_total_first. Qed.

(* tokens admitted for v at arrival times inside any [lo, hi] no longer than one duration
   <= 2 * (T_v + burst) *)
Theorem C05_envelope_window : forall r K v t0 tmax calls lo hi,
  guard r v t0 tmax -> fits r K calls -> calls_ok t0 tmax calls -> 0 < tok_count r v ->
  hi - lo <= r_dur r * 1000 ->
  let adm := adm_of v calls (snd (ctrl_run r metric0 calls)) in
  admitted_in lo hi (proj v calls) adm <= 2 * (tok_count r v + r_burst r).
Proof. exact ctrl_envelope_window. Qed.

(* a request for v with a batch up to T_v arriving more than one duration after the previous
   request for v (or as the first one) is admitted *)
Theorem C05_idle_grant : forall r K v t0 tmax calls now b,
  guard r v t0 tmax -> fits r K (calls ++ [(now, v, b)]) -> calls_ok t0 tmax (calls ++ [(now, v, b)]) ->
  0 < tok_count r v -> b <= tok_count r v ->
  r_dur r * 1000 < now - last_time t0 (proj v calls) ->
  last (snd (ctrl_run r metric0 (calls ++ [(now, v, b)]))) DSpin = DPass.
Proof. exact ctrl_idle_grant. Qed.

(* finding C05-F2: without the guard ((tmax - t0) * T < 2^62) the idle grant is false - the
   int64 product elapsed_ms * threshold wraps negative and the idle value is refused *)
Theorem C05_idle_grant_refuted : exists r K v t0 tmax calls now b,
  fits r K (calls ++ [(now, v, b)]) /\ calls_ok t0 tmax (calls ++ [(now, v, b)]) /\
  0 < tok_count r v /\ b <= tok_count r v /\
  r_dur r * 1000 < now - last_time t0 (proj v calls) /\
  last (snd (ctrl_run r metric0 (calls ++ [(now, v, b)]))) DSpin = DBlock None.
Proof. exists f2_rule, [5], 5, d_t0, d_tmax, f2_calls, (d_t0 + 1025), 1. exact f2_witness. Qed.

Example C05_reject_nonvacuous :
  guard d_rule 5 d_t0 d_tmax /\ guard d_rule 6 d_t0 d_tmax /\ fits d_rule d_K d_calls /\
  calls_ok d_t0 d_tmax d_calls /\ 0 < tok_count d_rule 5 /\
  snd (ctrl_run d_rule metric0 d_calls) =
    [DPass; DPass; DPass; DPass; DPass; DBlock None; DBlock None; DBlock None].
Proof. exact (conj d_guard5 (conj d_guard6 (conj d_fits (conj d_calls_ok (conj d_T5 d_run))))). Qed.

Example C05_idle_grant_nonvacuous :
  guard d_rule 5 d_t0 d_tmax /\ fits d_rule d_K (d_calls ++ [d_idle]) /\
  calls_ok d_t0 d_tmax (d_calls ++ [d_idle]) /\ 0 < tok_count d_rule 5 /\ 2 <= tok_count d_rule 5 /\
  r_dur d_rule * 1000 < d_t0 + 1401 - last_time d_t0 (proj 5 d_calls).
Proof.
  exact (conj d_guard5 (conj d_fits_idle (conj d_calls_ok_idle (conj d_T5 (conj (Z.le_refl 2) d_idle_gap))))).
Qed.

(* ---- throttling mode ---------------------------------------------------------------------------- *)

(* consecutive scheduled pass times (arrival + requested wait) of the admitted requests for v
   are at least floor(batch * duration_ms / T_v) apart: the spacing the code computes in whole
   milliseconds ([spacing]; [schedule] pairs every admitted request's scheduled time with the
   spacing of that request, [spaced] says each is >= previous + its spacing) *)
Theorem C05_throttle_spacing : forall r K v t0 tmax calls,
  tguard_all r K t0 tmax -> fits r K calls -> calls_ok t0 tmax calls -> In v K ->
  spaced None (schedule (pcalls r v calls) (waits_of v calls (snd (thr_run r metric0 calls)))).
Proof. exact thr_spacing. Qed.

(* finding C05-F1: the exact spacing batch * duration / T_v is not kept: under all hypotheses of
   C05_throttle_spacing two requests are scheduled s1, s2 with (s2 - s1) * T_v < batch * D_ms *)
Theorem C05_throttle_exact_spacing_refuted : exists r K v t0 tmax calls s1 s2 b,
  tguard_all r K t0 tmax /\ fits r K calls /\ calls_ok t0 tmax calls /\ In v K /\
  calls = [(s1, v, b); (s2, v, b)] /\
  snd (thr_run r metric0 calls) = [DPass; DPass] /\
  (s2 - s1) * tok_count r v < b * (r_dur r * 1000).
Proof.
  exists f1_rule, [5], 5, 1700000000000, 1700000100000, f1_calls, 1700000000000, 1700000000000, 1.
  destruct f1_hyps as [H1 [H2 H3]]. destruct f1_witness as [H4 _].
  split; [exact H1|]. split; [exact H2|]. split; [exact H3|]. split; [left; reflexivity|].
  split; [reflexivity|]. split; [exact H4|]. cbn. lia.
Qed.

(* an admitted request waits 0 ms or a positive time below the maximum queueing time *)
Theorem C05_throttle_wait : forall r K v t0 tmax calls,
  tguard_all r K t0 tmax -> fits r K calls -> calls_ok t0 tmax calls -> In v K ->
  Forall (fun w => match w with Some w => 0 <= w /\ (0 < w -> w < r_maxq r) | None => True end)
         (waits_of v calls (snd (thr_run r metric0 calls))).
Proof. exact thr_wait. Qed.

Example C05_throttle_nonvacuous :
  tguard_all t_rule d_K d_t0 d_tmax /\ fits t_rule d_K t_calls /\ calls_ok d_t0 d_tmax t_calls /\
  snd (thr_run t_rule metric0 t_calls) =
    [DPass; DPass; DWait 250000000; DWait 500000000; DBlock None; DWait 490000000; DPass].
Proof. exact (conj t_guard (conj t_fits (conj t_calls_ok t_run))). Qed.

(* ---- independence ------------------------------------------------------------------------------- *)

(* while the values fit the capacity, the decisions for v in a multi-value history are those of
   one token bucket (exact integer arithmetic, no cache) fed with v's sub-history alone ... *)
Theorem C05_independence_bucket : forall r K v t0 tmax calls,
  guard r v t0 tmax -> fits r K calls -> calls_ok t0 tmax calls ->
  let T := tok_count r v in let B := r_burst r in let D := r_dur r * 1000 in
  decs_for v calls (snd (ctrl_run r metric0 calls)) =
    map dec_of (snd (bucket_run T B D None (proj v calls))) /\
  cell (fst (ctrl_run r metric0 calls)) v = fst (bucket_run T B D None (proj v calls)).
Proof. exact ctrl_run_bucket. Qed.

(* ... hence equal to the decisions of the same controller run on the history restricted to v *)
Theorem C05_independence : forall r K v t0 tmax calls,
  guard r v t0 tmax -> fits r K calls -> calls_ok t0 tmax calls -> In v K ->
  decs_for v calls (snd (ctrl_run r metric0 calls)) = snd (ctrl_run r metric0 (only v calls)).
Proof. exact ctrl_run_independence. Qed.

Theorem C05_independence_throttle : forall r K v t0 tmax calls,
  tguard_all r K t0 tmax -> fits r K calls -> calls_ok t0 tmax calls -> In v K ->
  decs_for v calls (snd (thr_run r metric0 calls)) = snd (thr_run r metric0 (only v calls)).
Proof. exact thr_run_independence. Qed.

(* a value whose threshold is <= 0 is always refused, whatever the other values do (no guard) *)
Theorem C05_nonpositive_threshold : forall r v calls m, tok_count r v <= 0 ->
  Forall (fun d => d = DBlock None) (decs_for v calls (snd (ctrl_run r m calls))).
Proof. exact ctrl_run_nonpositive. Qed.

(* ---- slot level ---------------------------------------------------------------------------------- *)

(* requests that do not carry the selected argument of any rule of the resource pass Slot.Check
   without a wait and leave every controller's statistics untouched *)
Theorem C05_no_arg_unlimited : forall rules ms i clk adv q,
  Forall (fun r => extract r q = None) rules ->
  slot_check i rules ms clk adv q = (ms, clk, [], VPass).
Proof. exact slot_check_no_arg. Qed.

(* the threshold in force for a value is its specific item when one is configured ... *)
Theorem C05_specific_threshold : forall r k x,
  alookup k (r_spec r) = Some x -> tok_count r k = x.
Proof. exact tok_count_specific. Qed.

(* ... and the value is then checked exactly as by a rule whose threshold is that item *)
Theorem C05_specific_threshold_check : forall r m now k b,
  perform_checking r m now k b = perform_checking (with_threshold r (tok_count r k)) m now k b.
Proof. exact perform_checking_threshold. Qed.

(* a reject-mode QPS rule's PerformChecking is [reject_check], the function the histories run *)
Theorem C05_controller_is_reject_check : forall r m now k b, is_reject r = true ->
  perform_checking r m now k b = reject_check r m now k b.
Proof. exact perform_checking_reject. Qed.

(* ---- from the public API to controller histories ---------------------------------------------- *)

(* on a resource guarded by one QPS rule r, every public-API history (any other resources and
   rules around it, any Entry/Exit/Tick order) drives r's controller with exactly the calls
   [trace] collects - one per Entry of the resource that carries the selected argument, arrival =
   the virtual clock in ms, batch = the batch count - and the caller observes exactly the
   controller's decisions; [pc_run] is [ctrl_run] for a reject rule and [thr_run] for a
   throttling rule, so the controller-level theorems above speak about what Entry returns *)
Theorem C05_api_single_rule : forall rules adv res r, rules res = [r] -> r_metric r <> 0 ->
  forall ops s m, metrics_of rules s res = [m] ->
  let '(cs, os) := trace rules adv res r s ops in
  map obs_of_dec (snd (pc_run r m cs)) = os /\
  metrics_of rules (fst (run rules adv s ops)) res = [fst (pc_run r m cs)].
Proof. exact run_single_rule. Qed.

Theorem C05_api_controller_runs : forall r,
  (is_reject r = true -> forall calls m, pc_run r m calls = ctrl_run r m calls) /\
  (is_throttle r = true -> forall calls m, pc_run r m calls = thr_run r m calls).
Proof. exact (fun r => conj (pc_run_reject r) (pc_run_throttle r)). Qed.

Example C05_api_single_rule_nonvacuous :
  api_rules 0 = [d_rule] /\ r_metric d_rule <> 0 /\ metrics_of api_rules (init 0) 0 = [metric0] /\
  trace api_rules true 0 d_rule (init 0) api_ops = ([(0, 5, 1); (0, 5, 1)], [OPass []; OPass []]).
Proof. vm_compute. repeat split; try reflexivity. discriminate. Qed.


(* small instances for the remaining hypotheses *)
Example C05_lockstep_nonvacuous : lockstep metric0 /\
  map fst (m_time (fst (ctrl_run d_rule metric0 d_calls))) = [5; 6] /\
  map fst (m_tok (fst (ctrl_run d_rule metric0 d_calls))) = [5; 6].
Proof. vm_compute. repeat split; reflexivity. Qed.

Example C05_nonpositive_threshold_nonvacuous :
  let r := with_threshold d_rule 0 in
  tok_count r 5 <= 0 /\ snd (ctrl_run r metric0 [(d_t0, 5, 1); (d_t0 + 5000, 5, 1)]) = [DBlock None; DBlock None].
Proof. vm_compute. split; [discriminate|reflexivity]. Qed.

Example C05_specific_threshold_nonvacuous :
  alookup 6 (r_spec d_rule) = Some 1 /\ tok_count d_rule 6 = 1 /\ tok_count d_rule 5 = 2.
Proof. vm_compute. repeat split; reflexivity. Qed.

Example C05_no_arg_unlimited_nonvacuous :
  let q := {| q_args := []; q_atts := [(3, Some 5)]; q_batch := 4294967295 |} in
  Forall (fun r => extract r q = None) [d_rule; t_rule] /\ is_reject d_rule = true /\ is_throttle t_rule = true.
Proof. vm_compute. repeat split; repeat constructor. Qed.

Print Assumptions LRU_refines_map.
Print Assumptions LRU_evicts_oldest.
Print Assumptions C05_lockstep.
Print Assumptions C05_no_spin.
Print Assumptions C05_tokens_nonneg.
Print Assumptions C05_tokens_range.
Print Assumptions C05_envelope_total.
Print Assumptions C05_envelope_window.
Print Assumptions C05_idle_grant.
Print Assumptions C05_idle_grant_refuted.
Print Assumptions C05_throttle_spacing.
Print Assumptions C05_throttle_exact_spacing_refuted.
Print Assumptions C05_throttle_wait.
Print Assumptions C05_independence_bucket.
Print Assumptions C05_independence.
Print Assumptions C05_independence_throttle.
Print Assumptions C05_nonpositive_threshold.
Print Assumptions C05_no_arg_unlimited.
Print Assumptions C05_specific_threshold.
Print Assumptions C05_specific_threshold_check.
Print Assumptions C05_controller_is_reject_check.
Print Assumptions C05_api_single_rule.
Print Assumptions C05_api_controller_runs.
