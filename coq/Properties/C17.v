(* C17 — Metric log is searchable, bounded, and survives truncation at any byte.
   Property theorems only; every proof is `exact <lemma>` from Proofs/. *)
From SG Require Import Base.Prelude Base.GoInt Model.MLBytes Model.MLDecimal Model.MetricLog Model.MetricLogSpec
  Proofs.MLBytesProofs Proofs.MetricLogLineProofs Proofs.MetricLogBoundProofs Proofs.MetricLogWriterProofs
  Proofs.MetricLogMainProofs Proofs.MetricLogExamples.

(* every item the writer can be handed (Go field ranges; resource name and time string without
   '|' and LF - CR is harmless) is read back unchanged from its line *)
Theorem C17_line_roundtrip : forall it, valid_item it -> parse_line (format_item it) = Some it.
Proof. exact line_roundtrip. Qed.

(* ... and from a data file: reading from the byte offset of a line returns the items from that
   line on, whatever unterminated bytes (a torn last line) follow *)
Theorem C17_file_roundtrip : forall pre its tail, Forall valid_item its -> ~ In 10 tail ->
  read_items (pre ++ enc_lines its ++ tail) (lenZ pre) = its.
Proof. exact read_items_at. Qed.

(* the number of data files (each with its idx file) never exceeds MaxFileAmount, after every
   operation of every history, for every size limit, zone and creation time *)
Theorem C17_file_bound : forall c t0 ops, 1 <= c_max_files c ->
  lenZ (w_fs (y_w (fst (run c (sys_init c t0) ops)))) <= c_max_files c.
Proof. exact file_bound. Qed.

(* Search is complete and sound.  For every configuration (size limit 1..2^62, any file-count
   limit, any zone; creation time not before the epoch in local time), every history of writes
   and queries in any interleaving - writes with any timestamps (older seconds are ignored by the
   writer, as in the code), batches of valid items; queries of both forms with any arguments, all
   on ONE searcher whose position cache is threaded through - every query returns exactly what
   Model/MetricLogSpec.v prescribes for the ghost state at that moment (`outs_ok`):
   FindByTimeAndResource = the retained items of seconds [begin,end] and of the resource, in log
   order, each once (up to maxItemAmount); FindFromTimeWithMaxLines = a prefix of the retained
   items from second `begin`, complete unless the line limit was reached.  `retained` is the
   content of the files that survive the rolls (size / day) and removals of the ghost writer. *)
Theorem C17_search_complete_sound : forall c t0 ops, good_cfg c t0 -> Forall good_op ops ->
  outs_ok c (g_init t0) ops (snd (run c (sys_init c t0) ops)).
Proof. exact search_complete_sound. Qed.

(* ... the retained items are in timestamp order (so are the results, which are sub-lists of them) *)
Theorem C17_retained_in_order : forall c t0 ops, good_cfg c t0 -> Forall good_op ops ->
  sorted_sec (retained (g_run c (g_init t0) ops)).
Proof. exact retained_in_order. Qed.

(* ... and they are a suffix of the list of all accepted (not ignored) items: nothing is
   duplicated, reordered or invented by rolls and removals *)
Theorem C17_retained_suffix_of_accepted : forall c t0 ops,
  exists k, retained (g_run c (g_init t0) ops) = skipn k (accepted t0 ops).
Proof. exact retained_suffix. Qed.

(* Truncation.  After any such history, with the last data file (which = false) or its idx file
   (which = true) cut at ANY byte offset, a query (any cache state the history left behind)
   returns only retained items; for a data cut exactly what the specification prescribes for the
   retained items whose line lies wholly before the cut (`retained_cut`); for an idx cut either
   nothing or the full answer, and the full answer whenever some retained second >= begin has its
   idx entry wholly before the cut (or lives in an earlier file).  `search` is a total function
   returning a list: there is no error outcome in the model (unreadable idx = next file). *)
Theorem C17_truncation_safe : forall c t0 ops which cut q, good_cfg c t0 -> Forall good_op ops ->
  let y := fst (run c (sys_init c t0) ops) in
  let g := g_run c (g_init t0) ops in
  let res := snd (search (cut_last which cut (w_fs (y_w y))) (y_s y) q) in
  incl res (retained g) /\
  (if which
   then (res = [] \/ find_ok (retained g) q res) /\
        ((exists s, In s (idx_visible_secs cut g) /\ q_begin q / 1000 <= s) -> find_ok (retained g) q res)
   else find_ok (retained_cut cut g) q res).
Proof. exact truncation_safe. Qed.

Example C17_line_roundtrip_nonvacuous :
  valid_item (mkItem 1700000001000 [50;48] [97;32;98] 1 2 3 18446744073709551615 5 6 4294967295 (-2147483648)).
Proof. unfold valid_item, lim64, lim32, half32, bar. cbn. repeat split; try lia; intuition lia. Qed.

Example C17_file_bound_nonvacuous :
  let c := mkCfg 20 2 0 in
  let it := mkItem 0 [] [97] 1 2 3 4 5 6 7 8 in
  let ops := [Write 1700000001000 [50] [it]; Write 1700000001500 [50] [it]; Write 1700000002000 [50] [it]] in
  map (fun f => (f_day f, f_seq f)) (w_fs (y_w (fst (run c (sys_init c 1700000000000) ops)))) = [(19675, 2); (19675, 3)].
Proof. vm_compute. reflexivity. Qed.


(* the histories are defined (and evaluated) in Proofs/MetricLogExamples.v *)
(* a history with a same-second second batch, size rolls, removals (2 files kept), and five
   queries on the one searcher, interleaved with the writes *)
Example C17_search_complete_sound_nonvacuous :
  good_cfg ex_cfg 1700000000000 /\ Forall good_op ex_ops /\
  map (map (fun it => (i_ts it, i_res it))) (snd (run ex_cfg (sys_init ex_cfg 1700000000000) ex_ops)) =
  [[]; []; [(1700000001000, [97]); (1700000001000, [98]); (1700000001500, [97])]; []; [];
   [(1700000002000, [97]); (1700000003000, [98])]; [(1700000003000, [98])]; []; [];
   [(1700000003000, [98]); (1700000004000, [98])]; [(1700000003000, [98])]] /\
  map (fun f => (f_day f, f_seq f)) (w_fs (y_w (fst (run ex_cfg (sys_init ex_cfg 1700000000000) ex_ops)))) =
  [(19675, 2); (19675, 3)].
Proof. exact search_example. Qed.

Example C17_truncation_safe_nonvacuous :
  let y := fst (run ex_cfg2 (sys_init ex_cfg2 1700000000000) ex_ops2) in
  let fs := w_fs (y_w y) in
  good_cfg ex_cfg2 1700000000000 /\ Forall good_op ex_ops2 /\
  map (fun f => (lenZ (f_data f), lenZ (f_idx f))) fs = [(136, 48)] /\
  map i_ts (snd (search (cut_last false 135 fs) s_init (QFrom 0 100))) =
    [1700000001000; 1700000001000; 1700000002000] /\
  map i_ts (snd (search fs s_init (QFrom 0 100))) =
    [1700000001000; 1700000001000; 1700000002000; 1700000003000] /\
  map i_ts (snd (search (cut_last true 47 fs) s_init (QFrom 1700000003000 100))) = [] /\
  map i_ts (snd (search (cut_last true 47 fs) s_init (QFrom 1700000002000 100))) =
    [1700000002000; 1700000003000].
Proof. exact truncation_example. Qed.

Example C17_retained_in_order_nonvacuous :
  map i_ts (retained (g_run ex_cfg (g_init 1700000000000) ex_ops)) = [1700000003000; 1700000004000; 1700000004000] /\
  lenZ (accepted 1700000000000 ex_ops) = 7.
Proof. exact retained_example. Qed.

Example C17_file_roundtrip_nonvacuous :
  Forall valid_item [mkItem 1700000001000 [50] [97] 1 2 3 4 5 6 7 8] /\ ~ In 10 [49; 55; 48] /\
  read_items ([120; 10] ++ enc_lines [mkItem 1700000001000 [50] [97] 1 2 3 4 5 6 7 8] ++ [49; 55; 48]) 2 =
  [mkItem 1700000001000 [50] [97] 1 2 3 4 5 6 7 8].
Proof. exact file_roundtrip_example. Qed.

Print Assumptions C17_line_roundtrip.
Print Assumptions C17_file_roundtrip.
Print Assumptions C17_file_bound.
Print Assumptions C17_search_complete_sound.
Print Assumptions C17_retained_in_order.
Print Assumptions C17_retained_suffix_of_accepted.
Print Assumptions C17_truncation_safe.
