(* C17 — Metric log is searchable, bounded, and survives truncation at any byte.
   (work in progress: theorems are added as their proofs land) *)
From SG Require Import Base.Prelude Base.GoInt Model.MLBytes Model.MLDecimal Model.MetricLog.

Example C17_model_smoke :
  parse_line (format_item (mkItem 1700000001000 [50;48] [97;98] 1 2 3 4 5 6 7 (-8)))
  = Some (mkItem 1700000001000 [50;48] [97;98] 1 2 3 4 5 6 7 (-8)).
Proof. vm_compute. reflexivity. Qed.
