(* C17 — Metric log is searchable, bounded, and survives truncation at any byte.
   Property theorems only; every proof is `exact <lemma>` from Proofs/. *)
From SG Require Import Base.Prelude Base.GoInt Model.MLBytes Model.MLDecimal Model.MetricLog
  Proofs.MLBytesProofs Proofs.MetricLogLineProofs Proofs.MetricLogBoundProofs.

(* every item the writer can be handed (Go field ranges; resource name and time string without
   '|' and LF - CR is harmless) is read back unchanged from its line *)
Theorem C17_line_roundtrip : forall it, valid_item it -> parse_line (format_item it) = Some it.
Proof. exact line_roundtrip. Qed.

(* ... and from a data file: reading from the byte offset of a line returns the items from that
   line on, whatever unterminated bytes (a torn last line) follow *)
Theorem C17_file_roundtrip : forall pre its tail, Forall valid_item its -> ~ In 10 tail ->
  read_items (pre ++ enc_lines its ++ tail) (lenZ pre) = its.
Proof. exact read_items_at. Qed.

(* the number of data files (each with its idx file) never exceeds MaxFileAmount, after every
   operation of every history, for every size limit, zone and creation time *)
Theorem C17_file_bound : forall c t0 ops, 1 <= c_max_files c ->
  lenZ (w_fs (y_w (fst (run c (sys_init c t0) ops)))) <= c_max_files c.
Proof. exact file_bound. Qed.

Example C17_line_roundtrip_nonvacuous :
  valid_item (mkItem 1700000001000 [50;48] [97;32;98] 1 2 3 18446744073709551615 5 6 4294967295 (-2147483648)).
Proof. unfold valid_item, lim64, lim32, half32, bar. cbn. repeat split; try lia; intuition lia. Qed.

Example C17_file_bound_nonvacuous :
  let c := mkCfg 20 2 0 in
  let it := mkItem 0 [] [97] 1 2 3 4 5 6 7 8 in
  let ops := [Write 1700000001000 [50] [it]; Write 1700000001500 [50] [it]; Write 1700000002000 [50] [it]] in
  map (fun f => (f_day f, f_seq f)) (w_fs (y_w (fst (run c (sys_init c 1700000000000) ops)))) = [(19675, 2); (19675, 3)].
Proof. vm_compute. reflexivity. Qed.

Print Assumptions C17_line_roundtrip.
Print Assumptions C17_file_roundtrip.
Print Assumptions C17_file_bound.
