(* C15 — Public API is race free and rule switches are atomic under live traffic.
   Property theorems only; every proof is `exact <lemma>` from Proofs/.

   The runtime half (what the Go scheduler and the race detector observe) is not a theorem.
   What is: the lock DISCIPLINE that makes it true (this file), and the code's adherence to the
   discipline, re-proved on every run against the table the translator regenerates from the
   Go source (build/C15/C15_check.v: C15_discipline, C15_race_free, C15_single_read,
   C15_lock_order — see translator/lockset/C15_check.v). *)
From SG Require Import Base.Prelude Model.Lockset Model.RuleSwitch Model.LocksetRegions Model.LocksetPolicy
  Proofs.LocksetProofs Proofs.RuleSwitchProofs.
Local Open Scope string_scope.

(* ---- race freedom from the lock discipline ------------------------------------------ *)

(* If every access to x is performed holding a common lock l(x) — writes in write mode, reads
   at least in read mode — then no well-formed trace, of any number of threads, reaches a
   configuration in which two different threads are enabled on conflicting accesses to x. *)
Theorem lockset_sound : forall A x l ps c,
  Forall (prog_covered A) ps -> common_lock A x l -> reachable ps c -> ~ race_on x c.
Proof. exact LocksetProofs.lockset_sound. Qed.

(* The form the code needs (`currentRules`-style variables have no single guarding lock):
   any two accesses to x, one of them a write, share a lock that one side holds exclusively. *)
Theorem C15_lockset_sound_pairwise : forall A x ps c,
  Forall (prog_covered A) ps -> pair_disciplined A x -> reachable ps c -> ~ race_on x c.
Proof. exact lockset_sound_pairwise. Qed.

(* The executable check run on the generated table is sound for the discipline... *)
Theorem C15_checker_sound : forall A wl, discipline_ok A wl = true ->
  forall x, pair_disciplined (filter (live wl) A) x.
Proof. exact discipline_ok_sound. Qed.

(* ...rejects tables with unclassified entries... *)
Theorem C15_checker_rejects_unknown : forall A wl, discipline_ok A wl = true ->
  forall a, In a A -> live wl a = true -> a_kind a <> Unknown.
Proof. exact discipline_ok_no_unknown. Qed.

(* ...and gives race freedom on every variable for all threads whose accesses the
   (non-whitelisted part of the) table covers.  build/C15/C15_check.v instantiates A with the
   regenerated table and wl with Model.LocksetPolicy.whitelist. *)
Theorem C15_race_free_of_table : forall A wl,
  discipline_ok A wl = true ->
  forall ps c x, Forall (prog_covered (filter (live wl) A)) ps -> reachable ps c -> ~ race_on x c.
Proof. exact race_free_of_discipline. Qed.

(* ---- unlock discipline: a failed operation cannot leave a lock locked ----------------- *)

(* One function activation projected to Lock / plain Unlock / defer Unlock / calls.  If at every
   call that may panic, and at the end of the body, every lock the activation holds is covered
   by a deferred unlock registered before, then whichever call panics (or none) the activation
   leaves NO lock behind: a goroutine that recovers the panic holds what it held before. *)
Theorem C15_no_lock_leak : forall b p, fcheck b [] [] = true -> fexec b [] [] p = [].
Proof. exact no_lock_leak. Qed.

(* The check is exact: where it fails some run (a panic at some call, or the normal run) does
   leave a lock behind. *)
Theorem C15_lock_leak_exact : forall b, fcheck b [] [] = false -> exists p, fexec b [] [] p <> [].
Proof. intros b H. exact (fcheck_complete b [] [] H). Qed.

(* The executable check run on the regenerated table (build/C15/C15_check.v:
   C15_unlock_discipline) implies the static check for a body whose facts are the table. *)
Theorem C15_region_checker_sound : forall f b,
  regions_ok (facts_of_body f b) strict_policy = true -> fcheck b [] [] = true.
Proof. exact regions_ok_fcheck. Qed.

(* ---- atomic switch ------------------------------------------------------------------ *)

(* A decision that obtains the rule list of its resource by ONE guarded read of a slice that
   is never written after publication is computed from exactly one rule list that was in force
   during the run — under every schedule of deciders and loaders (per-resource loads, clears,
   whole-map loads), any number of them. *)
Theorem C15_switch_atomic : forall m ds sched t r seen,
  wf_rm m -> Forall (fun rd => snd rd = DIdle) ds ->
  nth_error (snd (fst (srun (m, ds) [m] sched))) t = Some (r, DDone seen) ->
  exists m', In m' (snd (srun (m, ds) [m] sched)) /\ seen = lookup m' r.
Proof. exact switch_atomic. Qed.

(* A request racing with one rule update is decided entirely by the old or entirely by the
   new list of its resource. *)
Theorem C15_switch_old_or_new : forall m ds before upd after t r seen,
  wf_rm m -> Forall (fun rd => snd rd = DIdle) ds ->
  only_dec before -> only_dec after ->
  nth_error (snd (fst (srun (m, ds) [m] (before ++ upd :: after)))) t = Some (r, DDone seen) ->
  seen = lookup m r \/ seen = lookup (rm_step m upd) r.
Proof. exact switch_old_or_new. Qed.

(* The form the dynamic legs test: when the old and the new list give the same verdict, a request
   racing the switch cannot get the other one. *)
Theorem C15_switch_equal_verdict : forall (V : Type) (verdict : list rule -> V) (v : V) m ds before upd after t r seen,
  wf_rm m -> Forall (fun rd => snd rd = DIdle) ds ->
  only_dec before -> only_dec after ->
  nth_error (snd (fst (srun (m, ds) [m] (before ++ upd :: after)))) t = Some (r, DDone seen) ->
  verdict (lookup m r) = v -> verdict (lookup (rm_step m upd) r) = v -> verdict seen = v.
Proof. exact switch_equal_verdict. Qed.

(* Updating the rules of one resource never changes the list another resource is decided by. *)
Theorem C15_switch_frame_load : forall m r l r', wf_rm m -> r' <> r -> lookup (load_res m r l) r' = lookup m r'.
Proof. exact lookup_load_res_other. Qed.

Theorem C15_switch_frame_clear : forall m r r', r' <> r -> lookup (clear_res m r) r' = lookup m r'.
Proof. exact lookup_clear_res_other. Qed.

(* A whole-map load gives every resource exactly the list loaded for it. *)
Theorem C15_switch_load_all : forall m new r,
  lookup (load_all m new) r = match alookup r new with Some l => l | None => [] end.
Proof. exact lookup_load_all. Qed.

(* ---- non-vacuity and necessity of the premises -------------------------------------- *)

(* a writer and a reader following the discipline: covered by a 2-entry table that the checker
   accepts, and they really run (a complete schedule is well-formed) *)
Definition ex_table : list access :=
  [ mkAccess "pkg.load" "pkg.m" Write [("pkg.mu", MW)] 10;
    mkAccess "pkg.get" "pkg.m" Read [("pkg.mu", MR)] 20 ].
Definition ex_writer : program := [Acq "pkg.mu" MW; Wr "pkg.m"; Rel "pkg.mu"].
Definition ex_reader : program := [Acq "pkg.mu" MR; Rd "pkg.m"; Rel "pkg.mu"].

Example C15_lockset_nonvacuous :
  discipline_ok ex_table [] = true /\
  Forall (prog_covered ex_table) [ex_writer; ex_reader; ex_reader] /\
  run (init_config [ex_writer; ex_reader; ex_reader]) [1; 2; 1; 2; 1; 2; 0; 0; 0]%nat = Some ([], [[]; []; []]) /\
  (* two readers inside together is a reachable configuration; a writer cannot join them *)
  run (init_config [ex_writer; ex_reader; ex_reader]) [1; 2; 0]%nat = None.
Proof.
  split; [vm_compute; reflexivity|]. split; [|split; vm_compute; reflexivity].
  repeat constructor.
  - exists (mkAccess "pkg.load" "pkg.m" Write [("pkg.mu", MW)] 10). cbn. repeat split; auto. intros e H; exact H.
  - exists (mkAccess "pkg.get" "pkg.m" Read [("pkg.mu", MR)] 20). cbn. repeat split; auto. intros e H; exact H.
  - exists (mkAccess "pkg.get" "pkg.m" Read [("pkg.mu", MR)] 20). cbn. repeat split; auto. intros e H; exact H.
Qed.

(* the shape of defect D16 (system.GetRules read len(ruleMap) before taking the read lock):
   the checker rejects the table, and the race is a reachable configuration of the model *)
Definition d16_table : list access :=
  [ mkAccess "system.onRuleUpdate" "system.ruleMap" Write [("system.ruleMapMux", MW); ("system.updateRuleMux", MW)] 98;
    mkAccess "system.GetRules" "system.ruleMap" Read [] 42;
    mkAccess "system.GetRules" "system.ruleMap" Read [("system.ruleMapMux", MR)] 44 ].
Definition d16_getrules : program := [Rd "system.ruleMap"; Acq "system.ruleMapMux" MR; Rd "system.ruleMap"; Rel "system.ruleMapMux"].
Definition d16_update : program := [Acq "system.updateRuleMux" MW; Acq "system.ruleMapMux" MW; Wr "system.ruleMap"; Rel "system.ruleMapMux"; Rel "system.updateRuleMux"].

Example C15_d16_shape_is_a_race :
  discipline_ok d16_table [] = false /\
  exists c, reachable [d16_getrules; d16_update] c /\ race_on "system.ruleMap" c.
Proof.
  split; [vm_compute; reflexivity|].
  eexists. split.
  - exists [1; 1]%nat. vm_compute. reflexivity.
  - exists 0%nat, 1%nat. do 4 eexists. repeat split; try (cbn; reflexivity); auto.
Qed.

(* the two shapes of a rule loader.  Lock; defer Unlock; build (calls the user's generator);
   swap: passes, and leaves nothing behind whichever call panics.  Lock; build; swap; Unlock
   (plain): fails the check, the panic of the build leaves the lock held, and in the lock
   semantics of Model/Lockset.v nobody can take the lock afterwards although the holder's
   program is over (deadlock of every reader). *)
Definition ok_loader : list fstep := [FAcq "m.mu"; FDefer "m.mu"; FCall true; FCall false].
Definition leaky_loader : list fstep := [FAcq "m.mu"; FCall true; FCall false; FRel "m.mu"].

Example C15_unlock_nonvacuous :
  fcheck ok_loader [] [] = true /\ fexec ok_loader [] [] (Some 0%nat) = [] /\
  regions_ok (facts_of_body "m.load" ok_loader) strict_policy = true /\
  fcheck leaky_loader [] [] = false /\ fexec leaky_loader [] [] (Some 0%nat) = ["m.mu"] /\
  fexec leaky_loader [] [] None = [] /\
  regions_ok (facts_of_body "m.load" leaky_loader) strict_policy = false /\
  (* the loader's goroutine (thread 0) has nothing left to run and still holds m.mu: a reader
     (thread 1) is not enabled, and no step of thread 0 will ever enable it *)
  let stuck : config := ([(0%nat, "m.mu", MW)], [[]; [Acq "m.mu" MR; Rd "m.map"; Rel "m.mu"]]) in
  sched_step stuck 0 = None /\ sched_step stuck 1 = None.
Proof. vm_compute. repeat split; reflexivity. Qed.

(* the atomic-switch theorem is about a non-trivial situation: a decider that has read one
   element of the old list when the new list is loaded still finishes on the old list *)
Definition ex_rm : rm := mkRm [[10; 20]] [(1, 0%nat)].
Example C15_switch_nonvacuous :
  wf_rm ex_rm /\
  snd (fst (srun (ex_rm, [(1, DIdle); (1, DIdle)]) [ex_rm]
        [SDec 0; SDec 0; SLoadRes 1 [30; 40]; SDec 1; SDec 0; SDec 1; SDec 0; SDec 1; SDec 1]))
  = [(1, DDone [10; 20]); (1, DDone [30; 40])].
Proof.
  split; [|vm_compute; reflexivity].
  intros r a H. unfold ex_rm in *. cbn in *. destruct (r =? 1)%Z; inversion H; subst; cbn; lia.
Qed.

(* necessity of "ONE guarded read": a Check that calls the getter again for every element
   mixes the two lists *)
Example C15_switch_needs_single_read :
  let m0 := ex_rm in
  let d1 := dstep_reread m0 1 DIdle in
  let d2 := dstep_reread m0 1 d1 in                      (* element 0 of the old list *)
  let m1 := load_res m0 1 [30; 40] in
  let d3 := dstep_reread m1 1 d2 in                      (* element 1 of the new list *)
  let d4 := dstep_reread m1 1 d3 in
  d4 = DDone [10; 40] /\ [10; 40] <> lookup m0 1 /\ [10; 40] <> lookup m1 1.
Proof. vm_compute. split; [reflexivity | split; intro H; inversion H]. Qed.

(* ... and the verdict flips: rules 20 and 30 block, both lists block, the mixture passes
   (the shape of the lists the stress and the parked-switch legs use) *)
Example C15_switch_reread_flips_verdict :
  let blocks := existsb (fun x : rule => (Z.eqb x 20 || Z.eqb x 30)%bool) in
  blocks (lookup ex_rm 1) = true /\ blocks (lookup (load_res ex_rm 1 [30; 40]) 1) = true /\ blocks [10; 40] = false.
Proof. vm_compute. repeat split; reflexivity. Qed.

(* necessity of "never written after publication": an in-place write to a published slice
   is seen by a decision that already started *)
Example C15_switch_needs_immutable_slices :
  let m0 := ex_rm in
  let d1 := dstep m0 1 DIdle in
  let d2 := dstep m0 1 d1 in                             (* element 0 of the old content *)
  let m1 := poke (poke m0 0 0 30) 0 1 40 in              (* "new list" written in place *)
  let d3 := dstep m1 1 d2 in                             (* element 1 of the new content *)
  let d4 := dstep m1 1 d3 in
  d4 = DDone [10; 40] /\ [10; 40] <> lookup m0 1 /\ [10; 40] <> lookup m1 1.
Proof. vm_compute. split; [reflexivity | split; intro H; inversion H]. Qed.

(* the policy tables are what they claim: the premise checker accepts exactly the expected
   reads and rejects a re-read or a read in a loop *)
Example C15_single_read_checker_examples :
  single_read_ok [mkGC "flow.(Slot).Check" "flow.getTrafficControllerListFor" false 51]
                 [("flow.(Slot).Check", "flow.getTrafficControllerListFor")] [] = true /\
  single_read_ok [mkGC "flow.(Slot).Check" "flow.getTrafficControllerListFor" false 51;
                  mkGC "flow.(Slot).Check" "flow.getTrafficControllerListFor" false 60]
                 [("flow.(Slot).Check", "flow.getTrafficControllerListFor")] [] = false /\
  single_read_ok [mkGC "flow.(Slot).Check" "flow.getTrafficControllerListFor" true 51]
                 [("flow.(Slot).Check", "flow.getTrafficControllerListFor")] [] = false /\
  lock_order_ok [("a", "b"); ("b", "c")] = true /\ lock_order_ok [("a", "b"); ("b", "a")] = false.
Proof. vm_compute. repeat split; reflexivity. Qed.

Print Assumptions lockset_sound.
Print Assumptions C15_lockset_sound_pairwise.
Print Assumptions C15_checker_sound.
Print Assumptions C15_checker_rejects_unknown.
Print Assumptions C15_race_free_of_table.
Print Assumptions C15_no_lock_leak.
Print Assumptions C15_lock_leak_exact.
Print Assumptions C15_region_checker_sound.
Print Assumptions C15_switch_atomic.
Print Assumptions C15_switch_old_or_new.
Print Assumptions C15_switch_equal_verdict.
Print Assumptions C15_switch_frame_load.
Print Assumptions C15_switch_frame_clear.
Print Assumptions C15_switch_load_all.
