(* C19 — Framework adapters honour the entry contract on every path.
   Property theorems only; every proof is `exact <lemma>` from Proofs/AdapterIRProofs.v.

   The IR terms of the real adapters are regenerated from /repo/pkg/adapters/** by
   translator/adapterir on every run (Gen.Adapters_gen); the obligations over them
   (C19_all_adapters, C19_all_adapters_all_envs, C19_listed_adapters_other_clauses,
   C19_known_findings_refuted, C19_all_entry_calls_translated) are stated and re-checked in
   translator/adapterir/C19_check.v, which instantiates the theorems below. *)
From SG Require Import Base.Prelude Model.AdapterIR Proofs.AdapterIRProofs.
Local Open Scope nat_scope.

(* the boolean contract evaluated by vm_compute is the Prop-level contract: one Entry
   requested before any handler call; blocked => handler not invoked and exactly one of
   fallback / default rejection (the fallback when configured); admitted => handler exactly
   once, Exit exactly once and not before the handler, every error handed back by the handler
   traced before the Exit; no method call on a nil entry / nil option; a panic leaves the
   adapter only when the handler panicked *)
Theorem C19_contract_sound : forall en t, contract_b en t = true <-> Contract en t.
Proof. exact contract_sound. Qed.

Theorem C19_clause_sound : forall c en t, clause_b c en t = true <-> clause_P c en t.
Proof. exact clause_sound. Qed.

(* the unbounded theorem: an entry point of the canonical shape (after dropping the
   statements without modelled effect, `simp`)
     e, err := Entry ; if err != nil { <exactly one rejection> ; return } ;
     defer e.Exit() ; <reads through e, option switches>* ;
     handler [; if herr != nil { TraceError(e, herr) [; return] }] ; <tail>
   satisfies the contract in EVERY environment (any flag valuation, any handler outcome),
   by induction on the IR term *)
Theorem C19_wf_implies_contract : forall a, wf_adapter a = true ->
  forall en, (fallback en = true -> a_fb a = true) -> Contract en (exec (a_body a) en).
Proof. exact wf_adapter_contract. Qed.

(* the finite check used on the regenerated IR decides the contract for every
   environment, not just the enumerated ones (flags beyond those a term mentions are
   irrelevant to it) *)
Theorem C19_finite_check_complete : forall k l, forallb (adapter_ok k) l = true ->
  forall a, In a l -> forall en, (fallback en = true -> a_fb a = true) ->
  Contract en (exec (a_body a) en).
Proof. exact all_adapters_all_envs. Qed.

(* non-vacuity: the gin middleware and the grpc unary client interceptor (transcribed by
   hand here; the regenerated terms are checked in C19_check.v) are well-formed, and an
   admitted request with a failing handler produces the expected trace *)
Definition ex_gin : adapter := mkAdapter "gin/middleware.go" "SentinelMiddleware" 24 true
  (Seq Other (Seq (Entry 0 1 false) (Seq (IfBlocked 1 (Seq (IfFallback (Fallback false) DefaultReject) Return) Other)
    (Seq (DeferExit 0) (CallHandler ErrNone))))).
Definition ex_grpc : adapter := mkAdapter "grpc/client.go" "NewUnaryClientInterceptor" 28 true
  (Seq Other (Seq (Entry 0 1 false) (Seq (IfBlocked 1 (Seq (IfFallback (Seq (Fallback false) Return) Other) (Seq DefaultReject Return)) Other)
    (Seq (DeferExit 0) (Seq (CallHandler (ErrVar 2)) (Seq (IfErr 2 (TraceError 0 2) Other) Return)))))).

(* the repaired outlier branch of the kratos client middleware (reads entry.Context() when
   metadata is present; a quiet statement between the handler call and the error check) *)
Definition ex_kratos_outlier : adapter := mkAdapter "kratos/client.go" "SentinelClientMiddleware#2" 65 true
  (Seq Other (Seq (Entry 0 1 false) (Seq (IfBlocked 1 (Seq (Fallback true) Return) Other) (Seq (DeferExit 0)
    (Seq Other (Seq (IfOpt 0 (Seq (Deref 0) (Seq Other (Seq (Deref 0) Other))) Other)
      (Seq (CallHandler (ErrVar 2)) (Seq Other (Seq (IfErr 2 (TraceError 0 2) Other) Return))))))))).

Example C19_wf_nonvacuous :
  wf_adapter ex_gin = true /\ wf_adapter ex_grpc = true /\ wf_adapter ex_kratos_outlier = true /\
  exec (a_body ex_kratos_outlier) (mkEnv true HOk false [true]) = [EntryCall; FallbackCall] /\
  exec (a_body ex_kratos_outlier) (mkEnv false HErr false [true]) = [EntryCall; HandlerCall; HandlerErr; Traced; ExitCall] /\
  exec (a_body ex_grpc) (mkEnv false HErr false []) = [EntryCall; HandlerCall; HandlerErr; Traced; ExitCall] /\
  exec (a_body ex_grpc) (mkEnv false HPanic false []) = [EntryCall; HandlerCall; ExitCall; PanicOut] /\
  exec (a_body ex_gin) (mkEnv true HOk true []) = [EntryCall; FallbackCall] /\
  forallb (adapter_ok 0) [ex_gin; ex_grpc] = true.
Proof. vm_compute. repeat split; reflexivity. Qed.

(* the contract is not trivially true: the shape of the outlier branches (block error
   discarded, methods called on the possibly-nil entry) violates it *)
Definition ex_outlier : prog :=
  Seq (Entry 0 0 true) (Seq (DeferExit 0) (Seq (Deref 0) (Seq (CallHandler (ErrVar 2)) Return))).

Example C19_outlier_shape_refuted :
  exists en, ~ Contract en (exec ex_outlier en).
Proof.
  exists (mkEnv true HOk false []). intro H. apply contract_sound in H. vm_compute in H. discriminate H.
Qed.

Print Assumptions C19_contract_sound.
Print Assumptions C19_clause_sound.
Print Assumptions C19_wf_implies_contract.
Print Assumptions C19_finite_check_complete.
