(* C12 — Breaker transitions are atomic and probes exclusive under concurrency.
   Property theorems only; every proof is `exact <lemma>` from Proofs/BreakerConcProofs.v or a
   vm_compute of a concrete schedule.

   Model: Model/BreakerConc.v. `exec c sched (init_config c t0 progs)` is the configuration
   reached from a breaker with configuration `c` created at clock value t0 by ANY NUMBER of
   goroutines with programs `progs` (lists of `OTry blocked` = TryPass inside an entry that a
   later slot may reject, `OComplete rt err` = OnRequestComplete) under the schedule `sched`: a
   list of `Run tid` (goroutine tid performs ONE atomic access: the step that follows the yield
   point it is parked at), `Tick dt` (the clock advances) and `Havoc sl` (the counters are
   overwritten arbitrarily: the theorems hold whatever the statistics say). Quantification:
   all configurations, all creation times, all programs, all schedules (for the timeout
   clause: ticks that do not move the clock backwards, t0 >= 0).

   Logs (GHOST, never read by a step): `clog` = the successful compare-and-swaps on the state
   word in order (goroutine, kind of caller, previous, new, clock); `llog` = the listener calls
   in call order (goroutine, previous, new, snapshot); `admits` = one record per TryPass that
   returned true (goroutine, clock, the state its deciding access saw, epoch = length of the
   CAS log after that access). *)
From Coq Require Import Floats.
From SG Require Import Base.Prelude Base.GoInt Base.GoFloat Model.Breaker Model.BreakerConc
  Proofs.BreakerConcProofs Model.BreakerLeaf Proofs.BreakerLeafProofs.
#[local] Open Scope Z_scope.

(* Clause 1: "each transition is performed by exactly one caller and reported to listeners
   exactly once with the correct previous state".
   (a) the successful CASes form one chain of legal edges from Closed to the current state
       word: each starts where the previous one ended, so no transition is performed twice;
   (b) for every goroutine, its listener calls are - in order, with the same (previous, new)
       pair - exactly its own successful CASes, except that the latest one may still be on
       its way to the listeners (`pending`: the goroutine sits between its CAS and yield 307);
   (c) every entry of the two logs belongs to an existing goroutine.
   The statement is per goroutine, not about the global call order: listeners can be CALLED out
   of transition order (see C12_full_timeout_refuted, where "->HalfOpen from Open" is delivered
   before "->Open from Closed"). *)
Theorem C12_transition_unique : forall c t0 progs sched,
  let cf := exec c sched (init_config c t0 progs) in
  cpath Closed (clog (shd cf)) = Some (sw (shd cf)) /\
  (forall tid th, thread_at cf tid th ->
     cas_of tid (clog (shd cf)) = calls_of tid (llog (shd cf)) ++ pending (tpc th)) /\
  (length (ths cf) = length progs /\ logs_ok (length progs) (shd cf)).
Proof. exact thm_transition_unique. Qed.

(* ... and once every goroutine has finished, nothing is pending: for EVERY id, the listener
   calls attributed to it are exactly the CASes it performed (one report per CAS, none without) *)
Theorem C12_transition_unique_quiescent : forall c t0 progs sched,
  let cf := exec c sched (init_config c t0 progs) in
  all_done cf -> forall tid, cas_of tid (clog (shd cf)) = calls_of tid (llog (shd cf)).
Proof. exact thm_transition_quiescent. Qed.

(* Clause 3: "each passage to half-open admits exactly one probe (when no probe number is
   configured) until that probe completes". For every successful CAS to HalfOpen, at position k
   of the CAS log, the TryPass calls whose deciding access happened while the log had length
   k+1 - i.e. from that CAS until the next successful CAS, which is the completion or the
   rollback that ends the half-open passage - and that returned true are exactly one: the
   TryPass that performed the CAS. *)
Theorem C12_single_probe : forall c t0 progs sched,
  let cf := exec c sched (init_config c t0 progs) in
  probe_num c = 0 ->
  forall k e, nth_error (clog (shd cf)) k = Some e -> ce_to e = HalfOpen ->
    exists tp fr, filter (fun a => ad_epoch a =? Z.of_nat k + 1) (admits (shd cf))
                  = [Adm (ce_tid e) (ce_clk e) Open (Z.of_nat k + 1) tp fr].
Proof. exact thm_single_probe. Qed.

(* the admission records are the `true` results the goroutines obtained (this is what ties the
   ghost log to the observable per-goroutine results compared with the Go code) *)
Theorem C12_admissions_are_results : forall c t0 progs sched,
  let cf := exec c sched (init_config c t0 progs) in
  forall tid th, thread_at cf tid th ->
    count_true (tres th) = Z.of_nat (length (adm_of tid (admits (shd cf)))).
Proof. exact thm_results_admissions. Qed.

(* Clause 2: "while the breaker is open no request is admitted before a full retry timeout has
   elapsed since it opened". FALSE on the code as it is (next two theorems). What holds on all
   schedules: every Open->HalfOpen CAS (the only way out of Open) has an admission record
   whose flag `fr` says that the deadline this TryPass checked at yield 303 had been stored
   during the open phase in which its CAS succeeded; if so, the CAS happened at a clock value
   >= (clock of the latest CAS to Open by a completion before it) + retry timeout.
   The flag is false exactly in two windows: (F1) the deadline was read after an opening CAS and
   before that opener's deadline store (yield 304); (F2) the breaker went through
   HalfOpen and was re-opened between the TryPass's deadline check and its CAS.
   The rollback CAS HalfOpen->Open of a probe rejected by a later slot is not an opening: it
   undoes the passage to half-open, the deadline (already expired) stays in force. *)
Theorem C12_full_timeout_partial : forall c t0 progs sched,
  0 <= t0 -> Forall sev_ok sched ->
  let cf := exec c sched (init_config c t0 progs) in
  forall k e, nth_error (clog (shd cf)) k = Some e -> ce_to e = HalfOpen ->
    exists tp fr, In (Adm (ce_tid e) (ce_clk e) Open (Z.of_nat k + 1) tp fr) (admits (shd cf)) /\
      tp = last_opening (firstn k (clog (shd cf))) 0 /\
      (fr = true -> last_opening (firstn k (clog (shd cf))) 0 + retry_ms c <= ce_clk e).
Proof. exact thm_full_timeout. Qed.

(* ---- the refutations (replayed on /repo by vh-c12 cases 0 and 1) ---- *)

Definition rn (t : Z) (n : nat) : list sev := repeat (Run t) n.
Definition w_t0 : Z := 1700000000000.
(* error-count breaker, threshold 1, minimum amount 1, one 1000 ms bucket, ProbeNum 0 *)
Definition w_cfg (retry : Z) : cfg := rule_cfg ErrCount 1%float 1 retry 0 0 1000 1.

(* F1 = DESIGN section 8, D11. Goroutine 0: a completion with an error; goroutine 1: a request.
   0 performs CAS Closed->Open and is parked in front of its deadline store (4 steps); 1 loads
   Open, finds the deadline still 0, performs CAS Open->HalfOpen and is admitted (5 steps) at
   the very clock value of the opening, 5000 ms early; its listener call precedes 0's. *)
Definition d11_sched : list sev := rn 0 4 ++ rn 1 5 ++ rn 0 2.

Theorem C12_full_timeout_refuted : exists c t0 progs sched,
  0 <= t0 /\ Forall sev_ok sched /\
  let cf := exec c sched (init_config c t0 progs) in
  map (fun th => label (tpc th)) (ths cf) = [-1; -1] /\
  map tres (ths cf) = [[]; [true]] /\
  map (fun k => (lc_tid k, match lc_ev k with TEv a b _ => (a, b) end)) (llog (shd cf))
    = [(1, (Open, HalfOpen)); (0, (Closed, Open))] /\
  exists k e, nth_error (clog (shd cf)) k = Some e /\ ce_to e = HalfOpen /\
    ce_clk e < last_opening (firstn k (clog (shd cf))) 0 + retry_ms c.
Proof.
  exists (w_cfg 5000), w_t0, [[OComplete 0 true]; [OTry false]], d11_sched.
  split; [vm_compute; congruence|]. split; [apply sev_okb_spec; vm_compute; reflexivity|]. cbv zeta.
  split; [vm_compute; reflexivity|]. split; [vm_compute; reflexivity|]. split; [vm_compute; reflexivity|].
  exists 1%nat, (CEv 1 KTry Open HalfOpen w_t0). split; [vm_compute; reflexivity|]. split; [reflexivity|].
  vm_compute. reflexivity.
Qed.

(* F2. Goroutine 0 opens the breaker (6 steps); 100 ms later - the timeout - it issues a
   request, checks the (expired) deadline and is parked in front of its CAS (3 steps);
   goroutine 1 probes (5 steps), its probe fails and re-opens the breaker, deadline stored (6
   steps); now 0's CAS Open->HalfOpen succeeds: admitted 0 ms after the re-opening. No step of
   this schedule lies between an opening CAS and its deadline store. *)
Definition aba_sched : list sev := rn 0 6 ++ [Tick 100] ++ rn 0 3 ++ rn 1 5 ++ rn 1 6 ++ rn 0 2.

Theorem C12_full_timeout_refuted_reopen : exists c t0 progs sched,
  0 <= t0 /\ Forall sev_ok sched /\
  let cf := exec c sched (init_config c t0 progs) in
  map (fun th => label (tpc th)) (ths cf) = [-1; -1] /\
  map tres (ths cf) = [[true]; [true]] /\
  exists k e, nth_error (clog (shd cf)) k = Some e /\ ce_to e = HalfOpen /\
    ce_clk e < last_opening (firstn k (clog (shd cf))) 0 + retry_ms c.
Proof.
  exists (w_cfg 100), w_t0, [[OComplete 0 true; OTry false]; [OTry false; OComplete 0 true]], aba_sched.
  split; [vm_compute; congruence|]. split; [apply sev_okb_spec; vm_compute; reflexivity|]. cbv zeta.
  split; [vm_compute; reflexivity|]. split; [vm_compute; reflexivity|].
  exists 3%nat, (CEv 0 KTry Open HalfOpen (w_t0 + 100)). split; [vm_compute; reflexivity|]. split; [reflexivity|].
  vm_compute. reflexivity.
Qed.

(* ---- non-vacuity ---- *)

(* two failing completions race for Closed->Open, really interleaved (both parked in front of
   their CAS): one CAS succeeds, one is lost; one listener call, by the winner *)
Example C12_transition_unique_nonvacuous :
  let sched := [Run 0; Run 1; Run 0; Run 1; Run 0; Run 1; Run 0; Run 1; Run 0; Run 0] in
  let cf := exec (w_cfg 100) sched (init_config (w_cfg 100) w_t0 [[OComplete 0 true]; [OComplete 0 true]]) in
  all_done cf /\ clog (shd cf) = [CEv 0 KComplete Closed Open w_t0] /\
  llog (shd cf) = [LCall 0 (TEv Closed Open (Some (SZ 1)))] /\ sw (shd cf) = Open.
Proof. cbv zeta. split; [apply all_doneb_spec; vm_compute; reflexivity|]. vm_compute. repeat split; reflexivity. Qed.

(* two requests race at the deadline, step by step in lock-step: both pass the deadline check,
   one CAS succeeds; exactly one is admitted *)
Example C12_single_probe_nonvacuous :
  let sched := rn 0 6 ++ [Tick 100; Run 1; Run 2; Run 1; Run 2; Run 1; Run 2; Run 1; Run 2; Run 1; Run 2] in
  let cf := exec (w_cfg 100) sched (init_config (w_cfg 100) w_t0 [[OComplete 0 true]; [OTry false]; [OTry false]]) in
  probe_num (w_cfg 100) = 0 /\ all_done cf /\ map tres (ths cf) = [[]; [true]; [false]] /\
  nth_error (clog (shd cf)) 1 = Some (CEv 1 KTry Open HalfOpen (w_t0 + 100)) /\
  admits (shd cf) = [Adm 1 (w_t0 + 100) Open 2 w_t0 true].
Proof. cbv zeta. split; [reflexivity|]. split; [apply all_doneb_spec; vm_compute; reflexivity|]. vm_compute. repeat split; reflexivity. Qed.

(* the breaker opens at t0; a request 99 ms later is rejected, one 100 ms later (= the timeout)
   probes, with a fresh deadline check, exactly at opening time + timeout *)
Example C12_full_timeout_nonvacuous :
  let sched := rn 0 6 ++ [Tick 99] ++ rn 1 5 ++ [Tick 1] ++ rn 2 5 in
  let cf := exec (w_cfg 100) sched (init_config (w_cfg 100) w_t0 [[OComplete 0 true]; [OTry false]; [OTry false]]) in
  0 <= w_t0 /\ Forall sev_ok sched /\ map tres (ths cf) = [[]; [false]; [true]] /\
  admits (shd cf) = [Adm 2 (w_t0 + 100) Open 2 w_t0 true] /\
  last_opening (firstn 1 (clog (shd cf))) 0 + retry_ms (w_cfg 100) = w_t0 + 100.
Proof.
  cbv zeta. split; [vm_compute; congruence|]. split; [apply sev_okb_spec; vm_compute; reflexivity|]. vm_compute. repeat split; reflexivity.
Qed.

(* ---- Round 3: the branches of the pc machine ARE the Go source ----
   Model/BreakerLeaf.v transcribes TryPass / OnRequestComplete / the from*To* helpers as functions
   from the values the code loads to its result and its list of actions; translator/leaf
   regenerates them from the Go source on every run (translator/leaf/C03_leaf_check.v: equal for
   all inputs; C12_leaf_check.v: the statements below with the regenerated functions in place of
   the transcriptions).  At every load of shared state the step function of the model above
   takes the branch of the transcription at the loaded value, for all configurations, shared
   states and threads. *)
Theorem C12_trypass_branches_are_source : forall c tid clk sh th,
  (tpc th = T301 ->
     snd (tstep c tid clk sh th) =
     match sw sh with
     | Open => with_pc th T303
     | s => finish (result th (fst (try_pass_leaf (probe_num c) s (dl sh) clk true)))
     end) /\
  (tpc th = T303 ->
     tstep c tid clk sh th =
     (sh, if retry_arrived (dl sh) clk then with_pc th (T302 clk (dtag sh))
          else finish (result th (fst (try_pass_leaf (probe_num c) Open (dl sh) clk true))))) /\
  (forall rnow rtag d, tpc th = T302 rnow rtag -> retry_arrived d rnow = true ->
     tres (snd (tstep c tid clk sh th)) =
       tres th ++ [fst (try_pass_leaf (probe_num c) Open d rnow (bst_eqb (sw sh) Open))]).
Proof.
  intros c tid clk sh th. split; [|split].
  - intros H. exact (proj1 (conc_T301 c tid clk sh th H)).
  - exact (conc_T303 c tid clk sh th).
  - intros rnow rtag d H Ha. exact (proj1 (conc_T302 c tid clk sh th rnow rtag d H Ha)).
Qed.

Theorem C12_complete_branches_are_source : forall c tid clk sh th,
  (forall bad B T, tpc th = C301 bad B T -> forall s2 p,
     tstep c tid clk sh th =
     (sh, match sw sh with
          | Closed => if (T <? min_amt c) || negb (reached c B T)
                      then goto th (decide_leaf c Closed s2 p bad B T)
                      else with_pc th (C301b B T)
          | s1 => goto th (decide_leaf c s1 s2 p bad B T)
          end)) /\
  (forall bad B T, tpc th = C301b B T -> (T <? min_amt c) = false -> reached c B T = true ->
     forall p, tstep c tid clk sh th = (sh, goto th (decide_leaf c Closed (sw sh) p bad B T))) /\
  (tpc th = C314 ->
     forall s2 B T, tstep c tid clk sh th = (sh, goto th (tl (decide_leaf c HalfOpen s2 (pn sh) false B T)))).
Proof.
  intros c tid clk sh th. split; [|split].
  - exact (conc_C301 c tid clk sh th).
  - exact (conc_C301b c tid clk sh th).
  - exact (conc_C314 c tid clk sh th).
Qed.

(* the pcs behind a successful CAS stop at the yield labels of the transcription's actions, in
   the transcription's order; a failed CAS performs nothing else *)
Theorem C12_transition_order_is_source : forall sn,
  map label (chain_co sn) = map act_label (snd (from_closed_to_open_leaf true sn))
  /\ map label (chain_ho sn) = map act_label (snd (from_half_to_open_leaf true sn))
  /\ map label chain_hc = map act_label (snd (from_half_to_closed_leaf true))
  /\ (forall a b blk, map label [T302 a b; T307 blk] = map act_label (firstn 2 (snd (from_open_to_half_leaf true false))))
  /\ map label [R302; R307] = map act_label (rollback_leaf true true).
Proof. exact chain_labels. Qed.

Example C12_source_nonvacuous :
  tpc (with_pc (init_thread [OTry false]) T303) = T303 /\
  tpc (with_pc (init_thread [OComplete 0 true]) (C301 true 1 1)) = C301 true 1 1 /\
  (1 <? min_amt (w_cfg 100)) = false /\ reached (w_cfg 100) 1 1 = true /\
  decide_leaf (w_cfg 100) Closed Closed 0 true 1 1 = [AClosedToOpen (open_snapshot (w_cfg 100) 1 1)].
Proof. vm_compute. repeat split; reflexivity. Qed.

Print Assumptions C12_transition_unique.
Print Assumptions C12_transition_unique_quiescent.
Print Assumptions C12_single_probe.
Print Assumptions C12_admissions_are_results.
Print Assumptions C12_full_timeout_partial.
Print Assumptions C12_full_timeout_refuted.
Print Assumptions C12_full_timeout_refuted_reopen.
Print Assumptions C12_trypass_branches_are_source.
Print Assumptions C12_complete_branches_are_source.
Print Assumptions C12_transition_order_is_source.
