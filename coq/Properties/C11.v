(* C11 — Adaptive thresholds (warm-up, memory-adaptive) stay inside their configured envelope.
   Property theorems only; every proof is `exact <lemma>` from Proofs/.

   FR f  is the real value of the double f, fin f its finiteness (Proofs/C11Float.v, through
   Flocq's formalisation of binary64; these theorems depend on the axioms of Coq's Reals and
   primitive floats, listed by Print Assumptions below).  `_partial` theorems are about the
   exact-rational twins and hold without the size guards of the float theorems. *)
From Coq Require Import Reals Floats.
From SG Require Import Base.Prelude Base.GoInt Base.GoFloat Model.Adaptive Model.WarmUp
  Proofs.AdaptiveProofs Proofs.WarmUpProofs Proofs.C11Float Proofs.AdaptiveFloat Proofs.WarmUpFloat
  Model.Throttle Model.WarmUpThrottle Proofs.WarmUpThrottleProofs.
#[local] Open Scope Z_scope.

(* ===================== memory-adaptive rule ===================== *)

(* at or below the low water mark (and when the reading is not available): exactly the
   low-memory threshold — all int64 values *)
Theorem C11_mem_low : forall m mem, mem <= lowW m -> mem_allowed m mem = f_of_i64 (lowT m).
Proof. exact mem_low. Qed.

Theorem C11_mem_not_retrieved : forall m, mem_allowed m not_retrieved = f_of_i64 (lowT m).
Proof. exact mem_not_retrieved. Qed.

(* at or above the high water mark: exactly the high-memory threshold *)
Theorem C11_mem_high : forall m mem, 0 < lowW m -> lowW m < highW m -> highW m <= mem ->
  mem_allowed m mem = f_of_i64 (highT m).
Proof. exact mem_high. Qed.

(* valid rule with thresholds and marks up to 2^53: every reading (also strictly between the
   marks, where the value is computed with three roundings) gives a finite double inside
   [HighMemUsageThreshold, LowMemUsageThreshold] *)
Theorem C11_mem_between : forall total m mem, mvalid total m = true -> msmall m -> -1 <= mem ->
  fin (mem_allowed m mem) /\ (IZR (highT m) <= FR (mem_allowed m mem) <= IZR (lowT m))%R.
Proof.
  intros total m mem H Hs Hm.
  destruct (mem_allowed_bounds m mem (mvalid_mok total m H) Hs Hm) as (F & _ & B). exact (conj F B).
Qed.

(* finite and positive *)
Theorem C11_mem_finite_nonneg : forall total m mem, mvalid total m = true -> msmall m -> -1 <= mem ->
  fin (mem_allowed m mem) /\ (0 < FR (mem_allowed m mem))%R.
Proof.
  intros total m mem H Hs Hm.
  destruct (mem_allowed_bounds m mem (mvalid_mok total m H) Hs Hm) as (F & P & B).
  split; [exact F|]. exact (Rlt_le_trans _ _ _ P (proj1 B)).
Qed.

(* non-increasing in the memory reading, as doubles *)
Theorem C11_mem_monotone : forall total m mem1 mem2, mvalid total m = true -> msmall m -> 0 <= mem1 <= mem2 ->
  (mem_allowed m mem2 <=? mem_allowed m mem1)%float = true.
Proof. intros total m mem1 mem2 H. exact (mem_allowed_mono_leb m mem1 mem2 (mvalid_mok total m H)). Qed.

(* without the size guard, on the exact-rational twin *)
Theorem C11_mem_between_partial : forall total m mem, mvalid total m = true -> -1 <= mem ->
  let '(n, d) := mem_twin m mem in 0 < d /\ highT m * d <= n /\ n <= lowT m * d.
Proof. intros total m mem H. exact (twin_between m mem (mvalid_mok total m H)). Qed.

Theorem C11_mem_monotone_partial : forall total m mem1 mem2, mvalid total m = true -> 0 <= mem1 <= mem2 ->
  let '(n1, d1) := mem_twin m mem1 in let '(n2, d2) := mem_twin m mem2 in n2 * d1 <= n1 * d2.
Proof. intros total m mem1 mem2 H. exact (AdaptiveProofs.twin_monotone m mem1 mem2 (mvalid_mok total m H)). Qed.

(* thresholds above 2^53 (finding C11-F5): the double computation leaves the envelope ... *)
Theorem C11_mem_between_refuted : exists total m mem,
  mvalid total m = true /\ lowW m < mem < highW m /\ (mem_allowed m mem <? f_of_i64 (highT m))%float = true.
Proof.
  exists 1024, big_m, 5. destruct big_m_outside as (H1 & H2 & _).
  split; [exact H1|]. split; [unfold big_m; cbn [lowW highW]; lia|exact H2].
Qed.

(* ... and is not monotone across the high mark *)
Theorem C11_mem_monotone_refuted : exists total m mem1 mem2,
  mvalid total m = true /\ 0 <= mem1 <= mem2 /\ (mem_allowed m mem1 <? mem_allowed m mem2)%float = true.
Proof.
  exists 1024, big_m, 5, 7. destruct big_m_outside as (H1 & _ & H3).
  split; [exact H1|]. split; [lia|exact H3].
Qed.

Example C11_mem_nonvacuous :
  let m := {| lowT := 1000; highT := 100; lowW := 1024; highW := 4096 |} in
  mvalid 8192 m = true /\ msmall m /\ mem_allowed m 1024 = 1000%float /\ mem_allowed m 4096 = 100%float /\
  mem_allowed m 2560 = 550%float /\ mem_twin m 2560 = (1689600, 3072).
Proof. cbv zeta. unfold msmall. cbn [lowT highW]. repeat split; try reflexivity; lia. Qed.

(* ===================== warm-up rule ===================== *)

(* wu_ok c: non-degenerate configuration (warningToken < maxToken <= 2^53), finite threshold
   with 2^-64 <= T <= 2^64, cold factor 2..2^32, slope as the constructor computes it.
   wu_eps = 14 * 2^-52. *)

(* the allowed value is finite, positive and never above the threshold (relative 14*2^-52: the
   Nextafter bump and six roundings), whatever the bucket holds *)
Theorem C11_wu_le_threshold : forall c tokens, wu_ok c -> 0 <= tokens <= w_max c ->
  fin (allowed_of c tokens) /\ (0 < FR (allowed_of c tokens) <= FR (w_thr c) * (1 + wu_eps))%R.
Proof. exact allowed_le_thr. Qed.

Theorem C11_wu_finite_nonneg : forall c tokens, wu_ok c -> 0 <= tokens <= w_max c ->
  fin (allowed_of c tokens) /\ (0 < FR (allowed_of c tokens))%R.
Proof. intros c tokens H Ht. destruct (allowed_le_thr c tokens H Ht) as [F [P _]]. exact (conj F P). Qed.

(* below the warning line the allowed rate is exactly the threshold *)
Theorem C11_wu_full_below_warning : forall c tokens, w_warning c < two63 -> 0 <= tokens < w_warning c -> allowed_of c tokens = w_thr c.
Proof. exact allowed_full. Qed.

(* cold state (bucket full, which is what an idle period produces): the allowed rate is
   threshold/coldFactor up to the same relative error.  Partial: that an idle period of
   maxToken/T seconds fills the bucket is not proved (the float-to-int64 truncation in
   coolDownTokens); it is exercised by the correspondence and the monitor. *)
Theorem C11_wu_cold_start_partial : forall c, wu_ok c ->
  (FR (w_thr c) / IZR (w_cf c) <= FR (allowed_of c (w_max c)) * (1 + wu_eps))%R /\
  (FR (allowed_of c (w_max c)) <= FR (w_thr c) / IZR (w_cf c) * (1 + wu_eps))%R.
Proof.
  intros c H. pose proof H as (_ & _ & _ & H0 & H1 & _).
  split; [apply allowed_ge_cold; [exact H|lia]|apply allowed_cold; exact H].
Qed.

(* never colder than threshold/coldFactor while the bucket holds at most maxToken *)
Theorem C11_wu_ge_cold : forall c tokens, wu_ok c -> 0 <= tokens <= w_max c ->
  (FR (w_thr c) / IZR (w_cf c) <= FR (allowed_of c tokens) * (1 + wu_eps))%R.
Proof. exact allowed_ge_cold. Qed.

(* the bucket stays within [0, maxToken] *)
Theorem C11_wu_stored_bounds : forall c st now q,
  0 <= w_max c < two63 -> 0 <= stored st <= w_max c -> 0 <= consumed q ->
  in_i64 (cool_down c st (now - now mod 1000) q - consumed q) ->
  0 <= stored (sync_token c st now q) <= w_max c.
Proof.
  intros c st now q Hm Hs Hq Hi. split.
  - apply sync_stored_nonneg. lia.
  - apply sync_stored_le_max; try assumption. lia.
Qed.

(* sustained demand (no refill, at least one token consumed per second) for more than
   stored - warningToken seconds brings the bucket below the warning line: full threshold *)
Theorem C11_wu_reaches_full : forall c ds st,
  0 < w_warning c -> w_warning c <= stored st <= w_max c -> w_max c < two63 / 2 ->
  sustained c st ds ->
  Z.of_nat (length ds) > stored st - w_warning c ->
  exists k : nat, (k <= length ds)%nat /\
    stored (sync_all c st (firstn k ds)) < w_warning c /\
    allowed_of c (stored (sync_all c st (firstn k ds))) = w_thr c.
Proof. intros c ds st. exact (sustained_reaches_full c ds st). Qed.

(* threshold >= coldFactor (with the error margin): a single-token request that finds the
   window empty is admitted, in every state of the bucket — no starvation *)
Theorem C11_wu_not_starved : forall c st now, wu_ok c ->
  (IZR (w_cf c) * (1 + wu_eps) <= FR (w_thr c))%R ->
  0 <= stored (fst (calc c st now)) <= w_max c ->
  cur_sum (passes (fst (calc c st now))) now = 0 ->
  snd (snd (wstep c st now 1)) = true.
Proof. exact single_token_admitted. Qed.

Example C11_wu_nonvacuous :
  wu_ok (mk_wcfg 12 3 3) /\ (IZR (w_cf (mk_wcfg 12 3 3)) * (1 + wu_eps) <= FR (w_thr (mk_wcfg 12 3 3)))%R.
Proof. exact wu_ok_example. Qed.

(* exact-rational twin of the curve, T = tn/td, warningToken W < maxToken M: no size guards *)
Theorem C11_wu_le_threshold_twin_partial : forall tn td cf W M tokens, twin_ok tn td cf W M ->
  let '(n, d) := allowed_twin tn td cf W M tokens in n * td <= tn * d.
Proof. exact twin_le_threshold. Qed.

Theorem C11_wu_cold_start_twin_partial : forall tn td cf W M, twin_ok tn td cf W M ->
  let '(n, d) := allowed_twin tn td cf W M M in n * td * cf = tn * d.
Proof. exact twin_cold. Qed.

Theorem C11_wu_not_starved_twin_partial : forall tn td cf W M tokens, twin_ok tn td cf W M -> tokens <= M -> cf * td <= tn ->
  let '(n, d) := allowed_twin tn td cf W M tokens in d <= n.
Proof. exact twin_not_starved. Qed.

Theorem C11_wu_finite_nonneg_twin_partial : forall tn td cf W M tokens, twin_ok tn td cf W M ->
  let '(n, d) := allowed_twin tn td cf W M tokens in 0 < n /\ 0 < d.
Proof. exact twin_pos. Qed.

Example C11_wu_twin_nonvacuous :
  twin_ok 12 1 3 18 36 /\ allowed_twin 12 1 3 18 36 36 = (216, 54) /\ allowed_twin 12 1 3 18 36 27 = (216, 36).
Proof. unfold twin_ok. repeat split; try lia; reflexivity. Qed.

(* ---- refuted clauses (findings; each replayed on the Go code by the harness witnesses) ---- *)

(* C11-F1 (D10): 1 <= threshold < coldFactor, 90 s of one request per second, none admitted *)
Theorem C11_wu_not_starved_refuted : exists T period cf,
  wvalid T period cf = true /\ (1 <=? T)%float = true /\
  admitted_count (wrun (mk_wcfg T period cf) winit (one_per_sec t_start 90)) = 0.
Proof. exists 2%float, 10, 3. exact d10_starved. Qed.

(* C11-F2: threshold = coldFactor, the cold rate rounds to 1 - 2^-53 *)
Theorem C11_wu_not_starved_eq_refuted : exists T period cf,
  wvalid T period cf = true /\
  (allowed_of (mk_wcfg T period cf) (w_max (mk_wcfg T period cf)) <? 1)%float = true /\
  admitted_count (wrun (mk_wcfg T period cf) winit (one_per_sec t_start 90)) = 0.
Proof. exists 5%float, 121, 5. exact d10_eq_starved. Qed.

(* C11-F3: empty token range, no cold phase *)
Theorem C11_wu_cold_start_refuted : exists T period cf,
  wvalid T period cf = true /\ w_warning (mk_wcfg T period cf) = w_max (mk_wcfg T period cf) /\
  let a := snd (calc (mk_wcfg T period cf) winit t_start) in
  (T <=? a)%float = true /\ (a <=? T / f_of_u64 cf)%float = false.
Proof. exists 1%float, 1, 2. exact no_cold_phase. Qed.

(* former C11-F4: a NaN threshold is rejected since /repo 1e1f6ae; +Inf is still valid and its effective
   threshold is MaxFloat64 — finite and non-negative, the rule is a configured "unlimited" *)
Theorem C11_wu_nan_invalid : forall period cf, wvalid nan period cf = false.
Proof. exact nan_threshold_invalid. Qed.

Theorem C11_wu_inf_threshold_finite :
  wvalid infinity 10 3 = true /\
  (snd (calc (mk_wcfg infinity 10 3) winit t_start) =? fmax)%float = true /\
  admitted_count (wrun (mk_wcfg infinity 10 3) winit (repeat (t_start, 1) 30)) = 30.
Proof. exact inf_threshold. Qed.

(* A warm-up rule may carry either control behaviour.  With ControlBehavior = Throttling the
   calculator is the same function of the admitted history: the effective threshold handed to the
   throttling checker is calc's, and the bucket evolves exactly as under the reject checker - so
   every warm-up theorem above (envelope, cold start, reaches full, finite) is about Throttling
   rules as well; only which requests are admitted differs (paced by C10's checker). *)
Theorem C11_wu_throttling_same_calculator : forall c maxq_ms st last now b,
  let r := wstep_thr c maxq_ms st last now b in
  let q := wstep c st now b in
  fst (fst (snd r)) = snd (calc c st now) /\
  fst (fst (snd r)) = fst (snd q) /\
  stored (fst (fst r)) = stored (fst q) /\
  last_filled (fst (fst r)) = last_filled (fst q).
Proof. exact wstep_thr_calculator. Qed.

(* threshold 12, period 3 s, cold factor 3, 14 evenly spaced requests per second for 10 s under a
   Throttling rule: some allowed value is below 5 (cold) and some is exactly 12 (full) *)
Example C11_wu_throttling_nonvacuous : demo_thr_statement.
Proof. exact demo_thr_warms_up. Qed.

(* Finding C11-F6.  "Reaches the full threshold after sustained demand" is FALSE for a warm-up rule carried by
   the throttling checker when the grid of its pacing interval admits fewer requests per second than the cold
   rate: threshold 10, period 3 s, cold factor 2, twelve evenly spaced single-token requests per second for 30 s
   (360 requests, some admitted): every allowed value stays below 6. *)
Theorem C11_wu_throttling_reaches_full_refuted : f6_statement.
Proof. exact f6_never_warms_up. Qed.

Print Assumptions C11_mem_low.
Print Assumptions C11_mem_not_retrieved.
Print Assumptions C11_mem_high.
Print Assumptions C11_mem_between.
Print Assumptions C11_mem_finite_nonneg.
Print Assumptions C11_mem_monotone.
Print Assumptions C11_mem_between_partial.
Print Assumptions C11_mem_monotone_partial.
Print Assumptions C11_mem_between_refuted.
Print Assumptions C11_mem_monotone_refuted.
Print Assumptions C11_wu_le_threshold.
Print Assumptions C11_wu_finite_nonneg.
Print Assumptions C11_wu_full_below_warning.
Print Assumptions C11_wu_cold_start_partial.
Print Assumptions C11_wu_ge_cold.
Print Assumptions C11_wu_stored_bounds.
Print Assumptions C11_wu_reaches_full.
Print Assumptions C11_wu_not_starved.
Print Assumptions C11_wu_le_threshold_twin_partial.
Print Assumptions C11_wu_cold_start_twin_partial.
Print Assumptions C11_wu_not_starved_twin_partial.
Print Assumptions C11_wu_finite_nonneg_twin_partial.
Print Assumptions C11_wu_not_starved_refuted.
Print Assumptions C11_wu_not_starved_eq_refuted.
Print Assumptions C11_wu_cold_start_refuted.
Print Assumptions C11_wu_nan_invalid.
Print Assumptions C11_wu_inf_threshold_finite.
Print Assumptions C11_wu_throttling_same_calculator.
Print Assumptions C11_wu_throttling_reaches_full_refuted.
