(* C11 — Adaptive thresholds (warm-up, memory-adaptive) stay inside their configured envelope.
   Property theorems only; every proof is `exact <lemma>` from Proofs/. *)
From Coq Require Import Floats.
From SG Require Import Base.Prelude Base.GoInt Base.GoFloat Model.Adaptive Model.WarmUp
  Proofs.AdaptiveProofs Proofs.WarmUpProofs.
#[local] Open Scope Z_scope.

(* ===================== memory-adaptive rule (float model) ===================== *)

(* at or below the low water mark (and when the reading is not available): the low-memory threshold *)
Theorem C11_mem_low : forall m mem, mem <= lowW m -> mem_allowed m mem = f_of_i64 (lowT m).
Proof. exact mem_low. Qed.

Theorem C11_mem_not_retrieved : forall m, mem_allowed m not_retrieved = f_of_i64 (lowT m).
Proof. exact mem_not_retrieved. Qed.

(* at or above the high water mark: the high-memory threshold *)
Theorem C11_mem_high : forall m mem, 0 < lowW m -> lowW m < highW m -> highW m <= mem ->
  mem_allowed m mem = f_of_i64 (highT m).
Proof. exact mem_high. Qed.

(* exact-rational twin: between the marks the threshold lies between the two thresholds ... *)
Theorem C11_mem_between_partial : forall total m mem, mvalid total m = true -> -1 <= mem ->
  let '(n, d) := mem_twin m mem in 0 < d /\ highT m * d <= n /\ n <= lowT m * d.
Proof. intros total m mem H. exact (twin_between m mem (mvalid_mok total m H)). Qed.

(* ... and is non-increasing in the reading *)
Theorem C11_mem_monotone_partial : forall total m mem1 mem2, mvalid total m = true -> 0 <= mem1 <= mem2 ->
  let '(n1, d1) := mem_twin m mem1 in let '(n2, d2) := mem_twin m mem2 in n2 * d1 <= n1 * d2.
Proof. intros total m mem1 mem2 H. exact (AdaptiveProofs.twin_monotone m mem1 mem2 (mvalid_mok total m H)). Qed.

Example C11_mem_nonvacuous :
  let m := {| lowT := 1000; highT := 100; lowW := 1024; highW := 4096 |} in
  mvalid 8192 m = true /\ mem_allowed m 1024 = 1000%float /\ mem_allowed m 4096 = 100%float /\
  mem_allowed m 2560 = 550%float /\ mem_twin m 2560 = (1689600, 3072).
Proof. vm_compute. repeat split; reflexivity. Qed.

(* ===================== warm-up rule ===================== *)

(* below the warning line the allowed rate is exactly the threshold *)
Theorem C11_wu_full_below_warning : forall c tokens, 0 <= tokens < w_warning c -> allowed_of c tokens = w_thr c.
Proof. exact allowed_full. Qed.

(* sustained demand (no refill, at least one token consumed per second) for more than
   stored - warningToken seconds brings the bucket below the warning line: full threshold *)
Theorem C11_wu_reaches_full : forall c ds st,
  0 < w_warning c -> w_warning c <= stored st <= w_max c -> w_max c < two63 / 2 ->
  sustained c st ds ->
  Z.of_nat (length ds) > stored st - w_warning c ->
  exists k : nat, (k <= length ds)%nat /\
    stored (sync_all c st (firstn k ds)) < w_warning c /\
    allowed_of c (stored (sync_all c st (firstn k ds))) = w_thr c.
Proof. intros c ds st. exact (sustained_reaches_full c ds st). Qed.

(* exact-rational twin of the allowed-token curve, T = tn/td, warningToken W < maxToken M *)
Theorem C11_wu_le_threshold_partial : forall tn td cf W M tokens, twin_ok tn td cf W M ->
  let '(n, d) := allowed_twin tn td cf W M tokens in n * td <= tn * d.
Proof. exact twin_le_threshold. Qed.

Theorem C11_wu_cold_start_partial : forall tn td cf W M, twin_ok tn td cf W M ->
  let '(n, d) := allowed_twin tn td cf W M M in n * td * cf = tn * d.
Proof. exact twin_cold. Qed.

Theorem C11_wu_not_starved_partial : forall tn td cf W M tokens, twin_ok tn td cf W M -> tokens <= M -> cf * td <= tn ->
  let '(n, d) := allowed_twin tn td cf W M tokens in d <= n.
Proof. exact twin_not_starved. Qed.

Theorem C11_wu_finite_nonneg_partial : forall tn td cf W M tokens, twin_ok tn td cf W M ->
  let '(n, d) := allowed_twin tn td cf W M tokens in 0 < n /\ 0 < d.
Proof. exact twin_pos. Qed.

Example C11_wu_twin_nonvacuous :
  twin_ok 12 1 3 18 36 /\ allowed_twin 12 1 3 18 36 36 = (216, 54) /\ allowed_twin 12 1 3 18 36 27 = (216, 36).
Proof. unfold twin_ok. repeat split; try lia; reflexivity. Qed.

(* ---- refuted clauses (findings; each replayed on the Go code by the harness witnesses) ---- *)

Theorem C11_wu_not_starved_refuted : exists T period cf,
  wvalid T period cf = true /\ (1 <=? T)%float = true /\
  admitted_count (wrun (mk_wcfg T period cf) winit (one_per_sec t_start 90)) = 0.
Proof. exists 2%float, 10, 3. exact d10_starved. Qed.

Theorem C11_wu_not_starved_eq_refuted : exists T period cf,
  wvalid T period cf = true /\
  (allowed_of (mk_wcfg T period cf) (w_max (mk_wcfg T period cf)) <? 1)%float = true /\
  admitted_count (wrun (mk_wcfg T period cf) winit (one_per_sec t_start 90)) = 0.
Proof. exists 5%float, 121, 5. exact d10_eq_starved. Qed.

Theorem C11_wu_cold_start_refuted : exists T period cf,
  wvalid T period cf = true /\ w_warning (mk_wcfg T period cf) = w_max (mk_wcfg T period cf) /\
  let a := snd (calc (mk_wcfg T period cf) winit t_start) in
  (T <=? a)%float = true /\ (a <=? T / f_of_u64 cf)%float = false.
Proof. exists 1%float, 1, 2. exact no_cold_phase. Qed.

Theorem C11_wu_finite_nonneg_refuted : exists T period cf,
  wvalid T period cf = true /\
  is_nan (snd (calc (mk_wcfg T period cf) winit t_start)) = true /\
  admitted_count (wrun (mk_wcfg T period cf) winit (repeat (t_start, 1) 30)) = 30.
Proof. exists nan, 10, 3. exact nan_threshold. Qed.

Print Assumptions C11_mem_low.
Print Assumptions C11_mem_not_retrieved.
Print Assumptions C11_mem_high.
Print Assumptions C11_mem_between_partial.
Print Assumptions C11_mem_monotone_partial.
Print Assumptions C11_wu_full_below_warning.
Print Assumptions C11_wu_reaches_full.
Print Assumptions C11_wu_le_threshold_partial.
Print Assumptions C11_wu_cold_start_partial.
Print Assumptions C11_wu_not_starved_partial.
Print Assumptions C11_wu_finite_nonneg_partial.
Print Assumptions C11_wu_not_starved_refuted.
Print Assumptions C11_wu_not_starved_eq_refuted.
Print Assumptions C11_wu_cold_start_refuted.
Print Assumptions C11_wu_finite_nonneg_refuted.
