(* C03 — Circuit breaker trips, blocks and recovers exactly as specified.
   Property theorems only; every proof is `exact <lemma>` from Proofs/.

   Model: Model/Breaker.v (transcription of core/circuitbreaker + the breakers' leap array).
   `reach cs t0 ops` is the state of one resource whose breakers `cs` were created at time t0
   after the history `ops` of Entry / Exit operations. Quantification: all configurations with
   cfg_ok (positive geometry, interval < 2^32, probe number and timeout >= 0 — what rule
   validation and the Go types guarantee), any number of breakers, all histories with
   non-negative time steps and a clock below tmax = 2^62 ms (hist_ok). The guards `reached`
   are the Go float64 expressions evaluated on the REFERENCE window counts ref_bad / ref_tot:
   completions since the breaker last closed whose timestamp lies in the bucket-aligned
   statistic window. *)
From Coq Require Import Floats.
From SG Require Import Base.Prelude Base.GoInt Base.GoFloat Model.Breaker
  Proofs.BreakerLAProofs Proofs.BreakerProofs Proofs.BreakerRunProofs
  Model.BreakerConc Model.BreakerLeaf Proofs.BreakerLeafProofs.
#[local] Open Scope Z_scope.

(* Closed -> Open happens at a completion exactly when the reference window holds at least the
   minimum amount and the strategy's ratio / count reaches the threshold; then the deadline is
   completion time + timeout and the listeners get exactly one (Closed -> Open, snapshot) call;
   otherwise the breaker stays Closed and the listeners get nothing. *)
Theorem C03_opens_iff : forall cs t0 ops j c b dt k err ts,
  Forall cfg_ok cs -> hist_ok t0 ops ->
  let s := reach cs t0 ops in
  nth_error cs j = Some c -> nth_error (brs s) j = Some b -> state b = Closed ->
  alookup k (live s) = Some ts -> 0 <= dt -> now s + dt < tmax ->
  let t := now s + dt in
  let bad := is_bad c (t - ts) err in
  let h2 := ghist b ++ [(t, bad)] in
  let B := ref_bad c h2 t in
  let T := ref_tot c h2 t in
  let s' := fst (step cs s (Complete dt k err)) in
  exists b', nth_error (brs s') j = Some b' /\
    if (min_amt c <=? T) && reached c B T
    then state b' = Open /\ next_retry b' = t + retry_ms c /\ ghist b' = h2 /\
         log_of (Z.of_nat j) (log s') = log_of (Z.of_nat j) (log s) ++ [TEv Closed Open (Some (open_snapshot c B T))]
    else state b' = Closed /\ ghist b' = h2 /\ log_of (Z.of_nat j) (log s') = log_of (Z.of_nat j) (log s).
Proof. exact thm_opens_iff. Qed.

(* the buckets summed by OnRequestComplete hold exactly the reference window counts, at the
   current and at every later instant *)
Theorem C03_window_refines : forall cs t0 ops j c b t,
  Forall cfg_ok cs -> hist_ok t0 ops ->
  let s := reach cs t0 ops in
  nth_error cs j = Some c -> nth_error (brs s) j = Some b -> now s <= t < tmax ->
  la_sum stot (gn c) (gbl c) t (slots b) = ref_tot c (ghist b) t /\
  la_sum sbad (gn c) (gbl c) t (slots b) = ref_bad c (ghist b) t.
Proof. exact thm_window_refines. Qed.

(* while some breaker of the resource is Open and its deadline not reached, a request is
   rejected with the circuit-breaking block naming the first breaker that does not pass, and
   changes nothing *)
Theorem C03_open_rejects : forall cs t0 ops j c b dt lb,
  Forall cfg_ok cs -> hist_ok t0 ops ->
  let s := reach cs t0 ops in
  nth_error cs j = Some c -> nth_error (brs s) j = Some b ->
  state b = Open -> 0 <= dt -> now s + dt < next_retry b ->
  let r := step cs s (Enter dt lb) in
  exists i, snd r = OBlock i /\ 0 <= i <= Z.of_nat j /\
    first_refusing 0 (now s + dt) cs (brs s) = Some i /\
    brs (fst r) = brs s /\ live (fst r) = live s.
Proof. exact thm_open_rejects. Qed.

(* the outcome of every Entry, in any state: blocked by the first breaker that does not pass *)
Theorem C03_decision : forall cs s dt lb,
  snd (step cs s (Enter dt lb)) =
  match first_refusing 0 (now s + dt) cs (brs s) with
  | Some i => OBlock i
  | None => if lb then OBlockLater else OPass
  end.
Proof. exact thm_decision. Qed.

(* TryPass: Open and deadline reached -> admitted, HalfOpen, one (Open -> HalfOpen) call, hook
   registered; Open before the deadline -> rejected; HalfOpen with ProbeNum = 0 -> rejected *)
Theorem C03_probe_after_timeout : forall c b t,
  (state b = Open -> next_retry b <= t ->
     try_pass c b t = ({| state := HalfOpen; next_retry := next_retry b; cur_probe := cur_probe b;
                          slots := slots b; ghist := ghist b |}, true, [TEv Open HalfOpen None], true)) /\
  (state b = Open -> t < next_retry b -> try_pass c b t = (b, false, [], false)) /\
  (state b = HalfOpen -> probe_num c = 0 -> try_pass c b t = (b, false, [], false)) /\
  (state b = HalfOpen -> 0 < probe_num c -> try_pass c b t = (b, true, [], false)) /\
  (state b = Closed -> try_pass c b t = (b, true, [], false)).
Proof. exact thm_probe_after_timeout. Qed.

(* an admitted request passed every breaker; exactly the Open ones became HalfOpen *)
Theorem C03_admitted : forall cs t0 ops dt,
  Forall cfg_ok cs -> hist_ok t0 ops ->
  let s := reach cs t0 ops in
  let r := step cs s (Enter dt false) in
  snd r = OPass ->
  brs (fst r) = map admit_one (brs s) /\
  forall j c b, nth_error cs j = Some c -> nth_error (brs s) j = Some b -> passes c b (now s + dt) = true.
Proof. exact thm_admitted. Qed.

(* a completion while HalfOpen: a failed probe re-opens for a full timeout; a successful one is
   counted, and exactly the max(1,ProbeNum)-th closes the breaker and clears its statistics
   (every later read of the counters returns 0 until new completions arrive) *)
Theorem C03_failed_probe_reopens_probes_close : forall cs t0 ops j c b dt k err ts,
  Forall cfg_ok cs -> hist_ok t0 ops ->
  let s := reach cs t0 ops in
  nth_error cs j = Some c -> nth_error (brs s) j = Some b -> state b = HalfOpen ->
  alookup k (live s) = Some ts -> 0 <= dt -> now s + dt < tmax ->
  let t := now s + dt in
  let bad := is_bad c (t - ts) err in
  let s' := fst (step cs s (Complete dt k err)) in
  exists b', nth_error (brs s') j = Some b' /\
   (if bad then
      state b' = Open /\ next_retry b' = t + retry_ms c /\ cur_probe b' = 0 /\
      log_of (Z.of_nat j) (log s') = log_of (Z.of_nat j) (log s) ++ [TEv HalfOpen Open (Some (probe_fail_snapshot c))]
    else if cur_probe b + 1 =? Z.max 1 (probe_num c) then
      state b' = Closed /\ cur_probe b' = 0 /\ ghist b' = [] /\
      log_of (Z.of_nat j) (log s') = log_of (Z.of_nat j) (log s) ++ [TEv HalfOpen Closed None] /\
      (forall t', t <= t' < tmax ->
         la_sum stot (gn c) (gbl c) t' (slots b') = 0 /\ la_sum sbad (gn c) (gbl c) t' (slots b') = 0)
    else
      state b' = HalfOpen /\ cur_probe b' = cur_probe b + 1 /\ cur_probe b + 1 < Z.max 1 (probe_num c) /\
      next_retry b' = next_retry b /\ log_of (Z.of_nat j) (log s') = log_of (Z.of_nat j) (log s)).
Proof. exact thm_half_open_complete. Qed.

(* the probe counter is 0 whenever the breaker is not HalfOpen, and below max(1,ProbeNum) while it
   is: so the count above really is "successful probes of the current half-open phase" *)
Theorem C03_probe_counter : forall cs t0 ops j c b,
  Forall cfg_ok cs -> hist_ok t0 ops ->
  let s := reach cs t0 ops in
  nth_error cs j = Some c -> nth_error (brs s) j = Some b ->
  0 <= cur_probe b /\ (state b <> HalfOpen -> cur_probe b = 0) /\
  (state b = HalfOpen -> cur_probe b < Z.max 1 (probe_num c)).
Proof.
  intros cs t0 ops j c b Hcs Hh s Hc Hb.
  exact (proj2 (RBInv_nth _ _ _ _ _ _ _ (ri_brs _ _ _ (run_inv cs t0 ops Hcs Hh)) Hc Hb)).
Qed.

(* a request rejected by a breaker or by a later slot leaves every breaker exactly as it was:
   a breaker it probed is back in Open with the same deadline (exit hook of fromOpenToHalfOpen) *)
Theorem C03_rollback : forall cs t0 ops dt lb,
  Forall cfg_ok cs -> hist_ok t0 ops ->
  let s := reach cs t0 ops in
  0 <= dt ->
  let r := step cs s (Enter dt lb) in
  snd r <> OPass -> brs (fst r) = brs s /\ live (fst r) = live s.
Proof. exact thm_rollback. Qed.

(* per breaker the listener log is a legal path from Closed that ends in the current state: each
   call's `prev` is the previous call's target, every edge is one of C->O, O->H, H->O, H->C *)
Theorem C03_listener_path : forall cs t0 ops j b,
  Forall cfg_ok cs -> hist_ok t0 ops ->
  let s := reach cs t0 ops in
  nth_error (brs s) j = Some b -> path Closed (log_of (Z.of_nat j) (log s)) = Some (state b).
Proof. exact thm_listener_path. Qed.

(* ---------- non-vacuity: concrete reachable states meeting the hypotheses ---------- *)

Definition ex_cfg1 : cfg := rule_cfg ErrCount 2%float 2 100 2 0 1000 2.      (* 2 errors of >= 2 in 2x500ms, 2 probes *)
Definition ex_cfg2 : cfg := rule_cfg SlowRatio 0.5%float 1 300 0 10 1000 1.  (* slow ratio >= 0.5, rt > 10 is slow *)
Definition ex_ops : list op :=
  [Enter 0 false; Enter 0 false; Complete 20 0 true; Complete 0 1 true;   (* both breakers open at t0+20 *)
   Enter 50 false;                                                       (* blocked by breaker 0 *)
   Enter 50 false;                                                       (* t0+120: breaker 0 probes, breaker 1 blocks: rollback *)
   Enter 200 false;                                                      (* t0+320: both probe, admitted *)
   Complete 5 6 false].                                                  (* breaker 0: 1 of 2 probes; breaker 1 closes *)

Example C03_nonvacuous :
  Forall cfg_ok [ex_cfg1; ex_cfg2] /\ hist_ok 1700000000123 ex_ops /\
  snd (run [ex_cfg1; ex_cfg2] (rinit [ex_cfg1; ex_cfg2] 1700000000123) ex_ops)
    = [OPass; OPass; ONone; ONone; OBlock 0; OBlock 1; OPass; ONone] /\
  map state (brs (reach [ex_cfg1; ex_cfg2] 1700000000123 ex_ops)) = [HalfOpen; Closed] /\
  map cur_probe (brs (reach [ex_cfg1; ex_cfg2] 1700000000123 ex_ops)) = [1; 0] /\
  log_of 0 (log (reach [ex_cfg1; ex_cfg2] 1700000000123 ex_ops))
    = [TEv Closed Open (Some (SZ 2)); TEv Open HalfOpen None; TEv HalfOpen Open (Some (SF 1%float)); TEv Open HalfOpen None].
Proof.
  split; [repeat constructor; vm_compute; congruence|].
  split; [split; [reflexivity|split; [repeat constructor; vm_compute; congruence|vm_compute; reflexivity]]|].
  vm_compute. repeat split; reflexivity.
Qed.

(* the hypotheses of C03_opens_iff / C03_open_rejects / C03_failed_probe... are met by prefixes of
   that history: a Closed breaker with a live entry, an Open breaker before its deadline, a
   HalfOpen breaker with a live entry *)
Example C03_nonvacuous_states :
  let cs := [ex_cfg1; ex_cfg2] in
  (let s := reach cs 1700000000123 (firstn 3 ex_ops) in
     map state (brs s) = [Closed; Open] /\ alookup 1 (live s) = Some 1700000000123) /\
  (let s := reach cs 1700000000123 (firstn 4 ex_ops) in
     map state (brs s) = [Open; Open] /\ map next_retry (brs s) = [1700000000243; 1700000000443] /\ now s = 1700000000143) /\
  (let s := reach cs 1700000000123 (firstn 7 ex_ops) in
     map state (brs s) = [HalfOpen; HalfOpen] /\ alookup 6 (live s) = Some 1700000000443).
Proof. vm_compute. repeat split; reflexivity. Qed.

(* ---- Round 3: the model's decision logic IS the Go source ----
   Model/BreakerLeaf.v transcribes TryPass, the state handling of OnRequestComplete, the from*To*
   helpers, the exit hook, retryTimeoutArrived and the deadline store as functions from the
   values the code reads to its result and the list of actions it performs; translator/leaf
   regenerates exactly these functions from the Go source on every run and
   translator/leaf/C03_leaf_check.v proves them equal for all inputs.  The theorems below connect
   them to the model of the theorems above: try_pass, decide (hence on_complete) and rollback
   are those action lists executed by a single caller (every load of the state word returns the
   breaker's state, a CAS succeeds iff the word holds the expected value, the probe counter
   loaded after addCurProbeNum is the old value + 1). *)
Theorem C03_try_pass_is_source : forall c b now,
  try_pass c b now =
  (let r := try_pass_leaf (probe_num c) (state b) (next_retry b) now true in
   let s := seq_run c now b (snd r) in (q_b s, fst r, q_ev s, q_hook s)).
Proof. exact try_pass_is_leaf. Qed.

(* the deadline store is uint64 arithmetic in the code and plain addition in the model: equal
   below the clock bound of the theorems above *)
Theorem C03_deadline_no_wrap : forall now retry,
  0 <= now < tmax -> 0 <= retry < two32 -> retry_value now retry = now + retry.
Proof. exact retry_value_tmax. Qed.

Theorem C03_decide_is_source : forall c b now bad sl2 h2 B T,
  retry_value now (retry_ms c) = now + retry_ms c ->
  decide c b now bad sl2 h2 B T =
  (let s := seq_run c now (set_slots b sl2 h2) (decide_leaf c (state b) (state b) (cur_probe b + 1) bad B T) in
   (q_b s, q_ev s)).
Proof. exact decide_is_leaf. Qed.

Theorem C03_rollback_is_source : forall c b now,
  rollback b =
  (let s := fold_left (prim c now) (rollback_leaf true (bst_eqb (state b) HalfOpen)) {| q_b := b; q_ev := []; q_hook := false |} in
   (q_b s, q_ev s)).
Proof. exact rollback_is_leaf. Qed.

(* the configuration built from a rule uses getRuleStatSlidingWindowBucketCount *)
Theorem C03_bucket_count_is_source : forall s th minamt retry probe maxrt interval raw,
  gn (rule_cfg s th minamt retry probe maxrt interval raw) = bucket_count interval raw
  /\ gbl (rule_cfg s th minamt retry probe maxrt interval raw) = interval / bucket_count interval raw.
Proof. exact rule_cfg_bucket_count. Qed.

Example C03_source_nonvacuous :
  (0 <= 1700000000123 < tmax /\ 0 <= retry_ms ex_cfg1 < two32) /\
  retry_value 1700000000123 (retry_ms ex_cfg1) = 1700000000123 + retry_ms ex_cfg1 /\
  decide_leaf ex_cfg1 Closed Closed 1 true 2 2 = [AClosedToOpen (open_snapshot ex_cfg1 2 2)].
Proof. vm_compute. repeat split; congruence. Qed.

Print Assumptions C03_opens_iff.
Print Assumptions C03_window_refines.
Print Assumptions C03_open_rejects.
Print Assumptions C03_decision.
Print Assumptions C03_probe_after_timeout.
Print Assumptions C03_admitted.
Print Assumptions C03_failed_probe_reopens_probes_close.
Print Assumptions C03_probe_counter.
Print Assumptions C03_rollback.
Print Assumptions C03_listener_path.
Print Assumptions C03_try_pass_is_source.
Print Assumptions C03_deadline_no_wrap.
Print Assumptions C03_decide_is_source.
Print Assumptions C03_rollback_is_source.
Print Assumptions C03_bucket_count_is_source.
