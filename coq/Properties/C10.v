(* C10 — Throttling flow rules pace admitted requests and bound queueing.
   Property theorems only; proofs are instantiations of lemmas in Proofs/. *)
From Coq Require Import Floats.
From SG Require Import Base.Prelude Base.GoInt Base.GoFloat Model.Throttle Proofs.ThrottleProofs.
#[local] Open Scope Z_scope.

(* ---- sequential callers: all thresholds (any float64, fractional, 0, +Inf, NaN), all batch
   counts, statistic intervals and queueing limits, all arrival histories (times need not
   even be monotone).  `interval c b` is the float64 expression of the code,
   int64(ceil(float64(b)/T*float64(I_ns))), evaluated with IEEE doubles. ---- *)

(* consecutive pass times (arrival + requested wait) are at least interval(b_n) apart, and
   the checker's stored time is exactly the last assigned pass time *)
Theorem C10_spacing : forall c ops,
  spaced (interval c) last0 (grants_c c last0 ops) /\
  fst (run_c c last0 ops) = last_pass last0 (grants_c c last0 ops).
Proof. intros c ops. exact (spacing (early_block c) (interval c) (maxq_ns c) last0 ops). Qed.

(* no admitted request is asked to wait longer than the maximum queueing time (incl. 0) *)
Theorem C10_wait_bound : forall c ops, 0 <= maxq_ns c ->
  Forall (fun o => match o with OPass w => 0 <= w <= maxq_ns c | _ => True end) (snd (run_c c last0 ops)).
Proof. intros c ops. exact (wait_bound (early_block c) (interval c) (maxq_ns c) last0 ops). Qed.

(* after any history: a request is rejected iff its batch exceeds the threshold (or the
   threshold is <= 0), or honouring the spacing would need a wait above the limit *)
Theorem C10_reject_only_if_needed : forall c ops now b, 0 <= maxq_ns c ->
  let last := fst (run_c c last0 ops) in
  (snd (do_check_c c last now b) = OBlock <->
   1 <= b /\ (early_block c b = true \/ last + interval c b - now > maxq_ns c)).
Proof. intros c ops now b Hq last. exact (block_iff (early_block c) (interval c) (maxq_ns c) last now b Hq). Qed.

(* idle time is never banked: every pass time is >= the arrival; a request admitted right
   after g passes no earlier than g's arrival plus its own interval, however long the
   resource was idle before g; and after idle the pass time is the arrival itself *)
Theorem C10_no_banking : forall c ops,
  Forall (fun g => g_now g <= g_pass g) (grants_c c last0 ops) /\
  no_bank (interval c) (grants_c c last0 ops).
Proof.
  intros c ops. split.
  - exact (pass_ge_arrival (early_block c) (interval c) (maxq_ns c) last0 ops).
  - exact (no_banking (early_block c) (interval c) (maxq_ns c) last0 ops).
Qed.

Theorem C10_idle_immediate : forall c ops now b,
  let last := fst (run_c c last0 ops) in
  1 <= b -> early_block c b = false -> last + interval c b <= now ->
  do_check_c c last now b = (now, OPass 0).
Proof. intros c ops now b last. exact (idle_pass (early_block c) (interval c) (maxq_ns c) last now b). Qed.

(* k admitted requests need at least the sum of their intervals *)
Theorem C10_total_time : forall c ops,
  last_pass last0 (grants_c c last0 ops) - last0 >= sum_iv (interval c) (grants_c c last0 ops).
Proof. intros c ops. apply (spaced_total (early_block c)). exact (proj1 (spacing (early_block c) (interval c) (maxq_ns c) last0 ops)). Qed.

(* a batch of 0 is passed without touching the state *)
Theorem C10_zero_batch_inert : forall c last now b, b <= 0 -> do_check_c c last now b = (last, OZero).
Proof. intros c last now b. exact (zero_inert (early_block c) (interval c) (maxq_ns c) last now b). Qed.

(* non-vacuity: threshold 2 per default second, 600 ms queue: interval 0.5 s *)
Example C10_seq_nonvacuous :
  let c := mk_cfg 2%float 600 0 in
  let t := 1700000000000000000 in
  let ops := [(t, 1); (t, 1); (t, 1); (t + 1, 0); (t + 400000000, 1); (t + 400000001, 3); (t + 5000000000, 2); (t + 5000000000, 1)] in
  interval c 1 = 500000000 /\ 0 <= maxq_ns c /\
  snd (run_c c last0 ops) = [OPass 0; OPass 500000000; OBlock; OZero; OPass 600000000; OBlock; OPass 0; OPass 500000000].
Proof. vm_compute. repeat split; congruence. Qed.

Print Assumptions C10_spacing.
Print Assumptions C10_wait_bound.
Print Assumptions C10_reject_only_if_needed.
Print Assumptions C10_no_banking.
Print Assumptions C10_idle_immediate.
Print Assumptions C10_total_time.
Print Assumptions C10_zero_batch_inert.
