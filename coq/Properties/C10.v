(* C10 — Throttling flow rules pace admitted requests and bound queueing.
   Property theorems only; proofs are instantiations of lemmas in Proofs/. *)
From Coq Require Import Floats.
From SG Require Import Base.Prelude Base.GoInt Base.GoFloat Model.Throttle Model.ThrottleConc
  Proofs.ThrottleProofs Proofs.ThrottleConcProofs.
#[local] Open Scope Z_scope.

(* ---- sequential callers: all thresholds (any float64, fractional, 0, +Inf, NaN), all batch
   counts, statistic intervals and queueing limits, all arrival histories (times need not
   even be monotone).  `interval c b` is the float64 expression of the code,
   int64(ceil(float64(b)/T*float64(I_ns))), evaluated with IEEE doubles. ---- *)

(* consecutive pass times (arrival + requested wait) are at least interval(b_n) apart, and
   the checker's stored time is exactly the last assigned pass time *)
Theorem C10_spacing : forall c ops,
  spaced (interval c) last0 (grants_c c last0 ops) /\
  fst (run_c c last0 ops) = last_pass last0 (grants_c c last0 ops).
Proof. intros c ops. exact (spacing (early_block c) (interval c) (maxq_ns c) last0 ops). Qed.

(* no admitted request is asked to wait longer than the maximum queueing time (incl. 0) *)
Theorem C10_wait_bound : forall c ops, 0 <= maxq_ns c ->
  Forall (fun o => match o with OPass w => 0 <= w <= maxq_ns c | _ => True end) (snd (run_c c last0 ops)).
Proof. intros c ops. exact (wait_bound (early_block c) (interval c) (maxq_ns c) last0 ops). Qed.

(* after any history: a request is rejected iff its batch exceeds the threshold (or the
   threshold is <= 0), or honouring the spacing would need a wait above the limit *)
Theorem C10_reject_only_if_needed : forall c ops now b, 0 <= maxq_ns c ->
  let last := fst (run_c c last0 ops) in
  (snd (do_check_c c last now b) = OBlock <->
   1 <= b /\ (early_block c b = true \/ last + interval c b - now > maxq_ns c)).
Proof. intros c ops now b Hq last. exact (block_iff (early_block c) (interval c) (maxq_ns c) last now b Hq). Qed.

(* idle time is never banked: every pass time is >= the arrival; a request admitted right
   after g passes no earlier than g's arrival plus its own interval, however long the
   resource was idle before g; and after idle the pass time is the arrival itself *)
Theorem C10_no_banking : forall c ops,
  Forall (fun g => g_now g <= g_pass g) (grants_c c last0 ops) /\
  no_bank (interval c) (grants_c c last0 ops).
Proof.
  intros c ops. split.
  - exact (pass_ge_arrival (early_block c) (interval c) (maxq_ns c) last0 ops).
  - exact (no_banking (early_block c) (interval c) (maxq_ns c) last0 ops).
Qed.

Theorem C10_idle_immediate : forall c ops now b,
  let last := fst (run_c c last0 ops) in
  1 <= b -> early_block c b = false -> last + interval c b <= now ->
  do_check_c c last now b = (now, OPass 0).
Proof. intros c ops now b last. exact (idle_pass (early_block c) (interval c) (maxq_ns c) last now b). Qed.

(* k admitted requests need at least the sum of their intervals *)
Theorem C10_total_time : forall c ops,
  last_pass last0 (grants_c c last0 ops) - last0 >= sum_iv (interval c) (grants_c c last0 ops).
Proof. intros c ops. apply (spaced_total (early_block c)). exact (proj1 (spacing (early_block c) (interval c) (maxq_ns c) last0 ops)). Qed.

(* a batch of 0 is passed without touching the state *)
Theorem C10_zero_batch_inert : forall c last now b, b <= 0 -> do_check_c c last now b = (last, OZero).
Proof. intros c last now b. exact (zero_inert (early_block c) (interval c) (maxq_ns c) last now b). Qed.

(* non-vacuity: threshold 2 per default second, 600 ms queue: interval 0.5 s *)
Example C10_seq_nonvacuous :
  let c := mk_cfg 2%float 600 0 in
  let t := 1700000000000000000 in
  let ops := [(t, 1); (t, 1); (t, 1); (t + 1, 0); (t + 400000000, 1); (t + 400000001, 3); (t + 5000000000, 2); (t + 5000000000, 1)] in
  interval c 1 = 500000000 /\ 0 <= maxq_ns c /\
  snd (run_c c last0 ops) = [OPass 0; OPass 500000000; OBlock; OZero; OPass 600000000; OBlock; OPass 0; OPass 500000000].
Proof. vm_compute. repeat split; congruence. Qed.

(* ---- concurrent callers: the pc-machine of Model/ThrottleConc.v (one step = one atomic
   access of DoCheck), ANY number of callers, ANY schedule of single steps and clock moves ---- *)

(* no admitted caller is asked to wait longer than the limit *)
Theorem C10_conc_wait_bound : forall c bs sched, 0 <= maxq_ns c ->
  Forall (fun o => match o with Some (OPass w) => 0 <= w <= maxq_ns c | _ => True end)
         (outcomes (cexec_c c sched (cinit bs))).
Proof. intros c bs sched. exact (conc_wait_bound (early_block c) (interval c) (maxq_ns c) bs sched). Qed.

(* every pass time is >= the caller's arrival (its own clock reading): nothing is granted in
   the past, whatever the interleaving *)
Theorem C10_conc_no_banking : forall c bs sched,
  Forall (fun g => g_now g <= g_pass g) (grants_of (c_log (cexec_c c sched (cinit bs)))).
Proof. intros c bs sched. exact (conc_pass_ge_arrival (early_block c) (interval c) (maxq_ns c) bs sched). Qed.

(* a caller rejected at the queueing test saw a stored time that justified it *)
Theorem C10_conc_reject_seen : forall c bs sched,
  Forall (fun e => match e with EBlock _ now b seen => seen + interval c b - now > maxq_ns c | _ => True end)
         (c_log (cexec_c c sched (cinit bs))).
Proof. intros c bs sched. exact (conc_block_seen (early_block c) (interval c) (maxq_ns c) bs sched). Qed.

(* FULL STATEMENT (false on the code, see the two _refuted theorems):
     forall c bs sched, spaced (interval c) last0 (grants_of (c_log (cexec_c c sched (cinit bs)))).
   PROVED PART: spacing (in the order of the callers' CAS/Add, which is then also the order of
   the pass times) holds on every schedule in which (a) no caller's Add overshoots the limit
   and is rolled back, and (b) no caller is admitted by an Add whose result lies before its own
   clock reading.  Missing: schedules with a rollback that does NOT overlap another caller's
   access are also fine (the add/rollback pair is then a no-op) but are excluded here. *)
Theorem C10_conc_spacing_partial : forall c bs sched,
  let s := cexec_c c sched (cinit bs) in
  rollback_free (c_log s) -> stale_free (c_log s) ->
  spaced (interval c) last0 (grants_of (c_log s)) /\
  c_last s = last_pass last0 (grants_of (c_log s)).
Proof. intros c bs sched. exact (conc_spacing_partial (early_block c) (interval c) (maxq_ns c) bs sched). Qed.

(* D8: threshold 1/s, max queueing 0.5 s.  A's Add overshoots and is parked before its rollback
   while the clock moves on; B is admitted on the inflated value (pass +3.0 s); A rolls back; C
   obtains +3.0 s as well.  No stale add is involved. Callers 0=R0 1=A 2=D 3=B 4=C. *)
Definition d8_t0 : Z := 1700000000000000000.
Definition d8_sched : list ev :=
  [SetClock d8_t0; Run 0; Run 0; Run 0;
   SetClock (d8_t0 + 500000000); Run 1; Run 1; Run 1;
   Run 2; Run 2; Run 2; Run 2;
   Run 1;
   SetClock (d8_t0 + 2500000000); Run 3; Run 3; Run 3; Run 3;
   Run 1;
   Run 4; Run 4; Run 4; Run 4]%nat.

Theorem C10_conc_spacing_refuted : exists c bs sched,
  let s := cexec_c c sched (cinit bs) in
  0 <= maxq_ns c /\ interval c 1 = 1000000000 /\ stale_free (c_log s) /\
  map g_pass (grants_of (c_log s)) = [d8_t0; d8_t0 + 1000000000; d8_t0 + 3000000000; d8_t0 + 3000000000] /\
  ~ spaced (interval c) last0 (grants_of (c_log s)).
Proof.
  exists (mk_cfg 1%float 500 0), [1; 1; 1; 1; 1], d8_sched. cbv zeta.
  split; [vm_compute; congruence|]. split; [vm_compute; reflexivity|].
  split; [apply (proj1 (stale_freeb_spec (fun _ => true) (fun x => x) _)); vm_compute; reflexivity|].
  split; [vm_compute; reflexivity|].
  intro H. apply (proj2 (spacedb_spec (fun _ => true) _ 0 _ _)) in H. vm_compute in H. discriminate H.
Qed.

(* second race, found while proving the partial theorem: B reads the clock (+0.0) and stalls;
   A (+3.0) loads the same stored value; B wins the CAS (stored +0.0); A loses it, its estimated
   wait is +1.0 - +3.0 < 0, so it Adds (stored +1.0) and passes at +3.0 with wait 0; C (+3.0)
   finds stored + 1 s <= now, CASes and passes at +3.0 too.  No rollback is involved.
   Callers 0=B 1=A 2=C. *)
Definition stale_sched : list ev :=
  [SetClock d8_t0; Run 0;
   SetClock (d8_t0 + 3000000000); Run 1; Run 1;
   Run 0; Run 0;
   Run 1; Run 1; Run 1;
   Run 2; Run 2; Run 2]%nat.

Theorem C10_conc_spacing_refuted_stale : exists c bs sched,
  let s := cexec_c c sched (cinit bs) in
  0 <= maxq_ns c /\ interval c 1 = 1000000000 /\ rollback_free (c_log s) /\
  map g_pass (grants_of (c_log s)) = [d8_t0; d8_t0 + 3000000000; d8_t0 + 3000000000] /\
  ~ spaced (interval c) last0 (grants_of (c_log s)).
Proof.
  exists (mk_cfg 1%float 500 0), [1; 1; 1], stale_sched. cbv zeta.
  split; [vm_compute; congruence|]. split; [vm_compute; reflexivity|].
  split; [apply (proj1 (rollback_freeb_spec _)); vm_compute; reflexivity|].
  split; [vm_compute; reflexivity|].
  intro H. apply (proj2 (spacedb_spec (fun _ => true) _ 0 _ _)) in H. vm_compute in H. discriminate H.
Qed.

(* non-vacuity of the partial theorem: three callers really interleaved (A and B both inside
   DoCheck, both past their queueing test before either adds), no rollback, no stale add, three
   grants 1 s apart *)
Example C10_conc_nonvacuous :
  let c := mk_cfg 1%float 2000 0 in
  let sched := [SetClock d8_t0; Run 0; Run 0; Run 0; Run 1; Run 2; Run 1; Run 2; Run 1; Run 2; Run 2; Run 1]%nat in
  let s := cexec_c c sched (cinit [1; 1; 1]) in
  rollback_free (c_log s) /\ stale_free (c_log s) /\
  map g_pass (grants_of (c_log s)) = [d8_t0; d8_t0 + 1000000000; d8_t0 + 2000000000] /\
  outcomes s = [Some (OPass 0); Some (OPass 2000000000); Some (OPass 1000000000)].
Proof.
  cbv zeta. split; [apply (proj1 (rollback_freeb_spec _)); vm_compute; reflexivity|].
  split; [apply (proj1 (stale_freeb_spec (fun _ => true) (fun x => x) _)); vm_compute; reflexivity|]. vm_compute. split; reflexivity.
Qed.

Print Assumptions C10_spacing.
Print Assumptions C10_wait_bound.
Print Assumptions C10_reject_only_if_needed.
Print Assumptions C10_no_banking.
Print Assumptions C10_idle_immediate.
Print Assumptions C10_total_time.
Print Assumptions C10_zero_batch_inert.
Print Assumptions C10_conc_wait_bound.
Print Assumptions C10_conc_no_banking.
Print Assumptions C10_conc_reject_seen.
Print Assumptions C10_conc_spacing_partial.
Print Assumptions C10_conc_spacing_refuted.
Print Assumptions C10_conc_spacing_refuted_stale.
