(* C10 — Throttling flow rules pace admitted requests and bound queueing.
   Property theorems only; proofs are instantiations of lemmas in Proofs/. *)
From Coq Require Import Floats.
From SG Require Import Base.Prelude Base.GoInt Base.GoFloat Model.Throttle Model.ThrottleConc
  Proofs.ThrottleProofs Proofs.ThrottleConcProofs.
#[local] Open Scope Z_scope.

(* ---- sequential callers: all thresholds (any float64, fractional, 0, +Inf, NaN), all batch
   counts, statistic intervals and queueing limits, all arrival histories (times need not
   even be monotone).  `interval c b` is the float64 expression of the code,
   int64(ceil(float64(b)/T*float64(I_ns))), evaluated with IEEE doubles. ---- *)

(* consecutive pass times (arrival + requested wait) are at least interval(b_n) apart, and
   the checker's stored time is exactly the last assigned pass time *)
Theorem C10_spacing : forall c ops,
  spaced (interval c) last0 (grants_c c last0 ops) /\
  fst (run_c c last0 ops) = last_pass last0 (grants_c c last0 ops).
Proof. intros c ops. exact (spacing (early_block c) (interval c) (maxq_ns c) last0 ops). Qed.

(* no admitted request is asked to wait longer than the maximum queueing time (incl. 0) *)
Theorem C10_wait_bound : forall c ops, 0 <= maxq_ns c ->
  Forall (fun o => match o with OPass w => 0 <= w <= maxq_ns c | _ => True end) (snd (run_c c last0 ops)).
Proof. intros c ops. exact (wait_bound (early_block c) (interval c) (maxq_ns c) last0 ops). Qed.

(* after any history: a request is rejected iff its batch exceeds the threshold (or the
   threshold is <= 0), or honouring the spacing would need a wait above the limit *)
Theorem C10_reject_only_if_needed : forall c ops now b, 0 <= maxq_ns c ->
  let last := fst (run_c c last0 ops) in
  (snd (do_check_c c last now b) = OBlock <->
   1 <= b /\ (early_block c b = true \/ last + interval c b - now > maxq_ns c)).
Proof. intros c ops now b Hq last. exact (block_iff (early_block c) (interval c) (maxq_ns c) last now b Hq). Qed.

(* idle time is never banked: every pass time is >= the arrival; a request admitted right
   after g passes no earlier than g's arrival plus its own interval, however long the
   resource was idle before g; and after idle the pass time is the arrival itself *)
Theorem C10_no_banking : forall c ops,
  Forall (fun g => g_now g <= g_pass g) (grants_c c last0 ops) /\
  no_bank (interval c) (grants_c c last0 ops).
Proof.
  intros c ops. split.
  - exact (pass_ge_arrival (early_block c) (interval c) (maxq_ns c) last0 ops).
  - exact (no_banking (early_block c) (interval c) (maxq_ns c) last0 ops).
Qed.

Theorem C10_idle_immediate : forall c ops now b, 0 <= maxq_ns c ->
  let last := fst (run_c c last0 ops) in
  1 <= b -> early_block c b = false -> last + interval c b <= now ->
  do_check_c c last now b = (now, OPass 0).
Proof. intros c ops now b Hq last. exact (idle_pass (early_block c) (interval c) (maxq_ns c) last now b Hq). Qed.

(* k admitted requests need at least the sum of their intervals *)
Theorem C10_total_time : forall c ops,
  last_pass last0 (grants_c c last0 ops) - last0 >= sum_iv (interval c) (grants_c c last0 ops).
Proof. intros c ops. apply (spaced_total (early_block c)). exact (proj1 (spacing (early_block c) (interval c) (maxq_ns c) last0 ops)). Qed.

(* RATE OVER ANY WINDOW of the history (not only the whole of it): a contiguous run `mid` of
   admitted requests that follows an admitted request g needs at least the sum of its
   intervals, counted from g's pass time; with a uniform batch b that is
   length(mid) * interval(b) - the admitted rate never exceeds the threshold on any stretch *)
Theorem C10_window_total : forall c ops pre g mid post,
  grants_c c last0 ops = pre ++ g :: mid ++ post ->
  last_pass (g_pass g) mid - g_pass g >= sum_iv (interval c) mid.
Proof.
  intros c ops pre g mid post He.
  pose proof (proj1 (spacing (early_block c) (interval c) (maxq_ns c) last0 ops)) as Hs.
  unfold grants_c in He. rewrite He in Hs. exact (spaced_window (early_block c) (interval c) (maxq_ns c) last0 pre g mid post Hs).
Qed.

Theorem C10_window_rate : forall c ops pre g mid post b,
  grants_c c last0 ops = pre ++ g :: mid ++ post ->
  Forall (fun h => g_b h = b) mid ->
  interval c b * Z.of_nat (length mid) <= last_pass (g_pass g) mid - g_pass g.
Proof.
  intros c ops pre g mid post b He Hf.
  apply (window_count (early_block c) (interval c) (maxq_ns c) (interval c b) last0 ops pre g mid post He).
  eapply Forall_impl; [|exact Hf]. cbn beta. intros h ->. lia.
Qed.

Example C10_window_nonvacuous :
  let c := mk_cfg 2%float 600 0 in
  let t := 1700000000000000000 in
  let ops := [(t, 1); (t, 1); (t + 400000000, 1); (t + 5000000000, 1)] in
  (* four grants g0..g3: pre = [g0], g = g1, mid = [g2], post = [g3]; the window [g2] spans
     exactly one interval after g1 *)
  map g_pass (grants_c c last0 ops) = [t; t + 500000000; t + 1000000000; t + 5000000000] /\
  map g_b (grants_c c last0 ops) = [1; 1; 1; 1] /\ interval c 1 = 500000000.
Proof. vm_compute. repeat split; congruence. Qed.

(* a batch of 0 is passed without touching the state *)
Theorem C10_zero_batch_inert : forall c last now b, b <= 0 -> do_check_c c last now b = (last, OZero).
Proof. intros c last now b. exact (zero_inert (early_block c) (interval c) (maxq_ns c) last now b). Qed.

(* non-vacuity: threshold 2 per default second, 600 ms queue: interval 0.5 s *)
Example C10_seq_nonvacuous :
  let c := mk_cfg 2%float 600 0 in
  let t := 1700000000000000000 in
  let ops := [(t, 1); (t, 1); (t, 1); (t + 1, 0); (t + 400000000, 1); (t + 400000001, 3); (t + 5000000000, 2); (t + 5000000000, 1)] in
  interval c 1 = 500000000 /\ 0 <= maxq_ns c /\
  snd (run_c c last0 ops) = [OPass 0; OPass 500000000; OBlock; OZero; OPass 600000000; OBlock; OPass 0; OPass 500000000].
Proof. vm_compute. repeat split; congruence. Qed.

(* ---- concurrent callers: the pc-machine of Model/ThrottleConc.v (one step = one atomic
   access of the compare-and-swap loop of DoCheck, yield ids 201 = Load, 202 = CAS), ANY number
   of callers, ANY schedule of single steps and clock moves.  The clock is read once per call,
   before the loop: a caller that stalls keeps its stale reading.  The theorems speak about the
   ghost log of the machine: ELoad / EGrant (successful CAS) / EFail (failed CAS) / EBlock. ---- *)

(* SPACING, every schedule: the pass times of the admitted requests, in the order of their
   successful CASes, are separated by at least the later request's interval (the first from
   the initial stored time), and the stored time is exactly the last assigned pass time *)
Theorem C10_conc_spacing : forall c bs sched,
  let s := cexec_c c sched (cinit bs) in
  spaced (interval c) last0 (grants_of (c_log s)) /\
  c_last s = last_pass last0 (grants_of (c_log s)).
Proof. intros c bs sched. exact (conc_spacing (early_block c) (interval c) (maxq_ns c) bs sched). Qed.

(* ... and over ANY window of ANY schedule: a contiguous run `mid` of successful CASes after
   the grant g takes at least the sum of its intervals; with a uniform batch b, at most
   span/interval(b) callers are admitted within a span, however the callers interleave *)
Theorem C10_conc_window_rate : forall c bs sched pre g mid post b,
  grants_of (c_log (cexec_c c sched (cinit bs))) = pre ++ g :: mid ++ post ->
  Forall (fun h => g_b h = b) mid ->
  last_pass (g_pass g) mid - g_pass g >= sum_iv (interval c) mid /\
  interval c b * Z.of_nat (length mid) <= last_pass (g_pass g) mid - g_pass g.
Proof.
  intros c bs sched pre g mid post b He Hf.
  pose proof (proj1 (conc_spacing (early_block c) (interval c) (maxq_ns c) bs sched)) as Hs.
  cbv zeta in Hs. unfold cexec_c in He. rewrite He in Hs.
  pose proof (spaced_window (early_block c) (interval c) (maxq_ns c) last0 pre g mid post Hs) as Hw.
  split; [exact Hw|].
  assert (Hc : interval c b * Z.of_nat (length mid) <= sum_iv (interval c) mid).
  { apply (sum_iv_ge_count (early_block c) (interval c) (interval c b) mid).
    eapply Forall_impl; [|exact Hf]. cbn beta. intros h ->. lia. }
  lia.
Qed.

(* no admitted caller is asked to wait longer than the limit (no hypothesis on the limit) *)
Theorem C10_conc_wait_bound : forall c bs sched,
  Forall (fun o => match o with Some (OPass w) => 0 <= w <= maxq_ns c | _ => True end)
         (outcomes (cexec_c c sched (cinit bs))).
Proof. intros c bs sched. exact (conc_wait_bound (early_block c) (interval c) (maxq_ns c) bs sched). Qed.

(* every pass time is >= the caller's own clock reading: nothing is granted in the past and
   idle time is not banked, whatever the interleaving *)
Theorem C10_conc_no_banking : forall c bs sched,
  Forall (fun g => g_now g <= g_pass g) (grants_of (c_log (cexec_c c sched (cinit bs)))).
Proof. intros c bs sched. exact (conc_pass_ge_arrival (early_block c) (interval c) (maxq_ns c) bs sched). Qed.

(* every successful CAS, exactly: pass time = max(value it loaded + interval, own clock reading)
   (so a caller that finds the resource idle passes at once), the wait is within the limit, the
   batch is within the threshold, and the grant is that caller's observable outcome *)
Theorem C10_conc_grant_exact : forall c bs sched,
  let s := cexec_c c sched (cinit bs) in
  Forall (fun e => match e with
                   | EGrant tid now b w seen =>
                       now + w = Z.max (seen + interval c b) now /\ 0 <= w <= maxq_ns c /\
                       1 <= b /\ early_block c b = false /\
                       exists th, nth_error (c_threads s) tid = Some th /\
                                  t_out th = Some (OPass w) /\ t_now th = now /\ t_b th = b
                   | _ => True end) (c_log s).
Proof. intros c bs sched. exact (conc_grants_ok (early_block c) (interval c) (maxq_ns c) bs sched). Qed.

(* a rejected caller: its batch exceeds the threshold (or threshold <= 0), or it was rejected on
   a value `seen` it loaded from the stored time for which seen + interval - now > limit *)
Theorem C10_conc_reject_only_if_needed : forall c bs sched, 0 <= maxq_ns c ->
  let s := cexec_c c sched (cinit bs) in
  Forall (fun e => match e with EBlock _ now b seen => seen + interval c b - now > maxq_ns c | _ => True end)
         (c_log s) /\
  forall tid th, nth_error (c_threads s) tid = Some th -> t_out th = Some OBlock ->
    1 <= t_b th /\
    (early_block c (t_b th) = true \/
     exists seen, In (EBlock tid (t_now th) (t_b th) seen) (c_log s) /\
                  seen + interval c (t_b th) - t_now th > maxq_ns c).
Proof.
  intros c bs sched Hq s. split.
  - exact (conc_block_seen (early_block c) (interval c) (maxq_ns c) bs sched Hq).
  - intros tid th. exact (conc_block_only_if (early_block c) (interval c) (maxq_ns c) bs sched tid th Hq).
Qed.

(* LOCK-FREEDOM / termination.  (1) every failed CAS of a caller comes after that caller's Load
   with, in between, a successful CAS of ANOTHER caller (fails_justified: the log before the
   EFail splits as l0 ++ ELoad tid seen :: since, no event of tid in `since`, and `since`
   contains a grant to another caller).  (2) Variant: the number of failed CASes of a caller
   never exceeds the number of successful CASes of the other callers, which is at most
   (number of callers - 1) since every caller is granted at most once: a caller takes at most
   1 + 2 * (number of callers) steps, and some caller completes whenever a CAS fails. *)
Theorem C10_conc_lock_free : forall c bs sched,
  let log := c_log (cexec_c c sched (cinit bs)) in
  fails_justified [] log /\
  forall tid, (tid < length bs)%nat ->
    (fails tid log <= others tid log)%nat /\ (others tid log <= length bs - 1)%nat.
Proof.
  intros c bs sched log. split.
  - exact (conc_fails_justified (early_block c) (interval c) (maxq_ns c) bs sched).
  - intros tid. exact (conc_fails_bound (early_block c) (interval c) (maxq_ns c) bs sched tid).
Qed.

Definition d8_t0 : Z := 1700000000000000000.

(* non-vacuity: threshold 1/s, limit 2 s, three callers really interleaved: all three load the
   same stored value; caller 1 wins the CAS, callers 0 and 2 fail and retry (2 fails twice);
   grants 1 s apart; then with a stale clock: caller 3 read the clock before the others were
   scheduled and is rejected on the value it loads later *)
Example C10_conc_nonvacuous :
  let c := mk_cfg 1%float 2000 0 in
  let sched := [SetClock d8_t0; Run 3; Run 0; Run 1; Run 2; Run 0; Run 1; Run 2; Run 1; Run 0; Run 2;
                Run 0; Run 2; Run 0; Run 2; Run 2; Run 2; Run 3]%nat in
  let s := cexec_c c sched (cinit [1; 1; 1; 1]) in
  0 <= maxq_ns c /\
  map g_pass (grants_of (c_log s)) = [d8_t0; d8_t0 + 1000000000; d8_t0 + 2000000000] /\
  gtids (c_log s) = [1; 0; 2]%nat /\
  (fails 0 (c_log s), fails 2 (c_log s), others 2 (c_log s)) = (1, 2, 2)%nat /\
  outcomes s = [Some (OPass 1000000000); Some (OPass 0); Some (OPass 2000000000); Some OBlock] /\
  In (EBlock 3 d8_t0 1 (d8_t0 + 2000000000)) (c_log s).
Proof. vm_compute. repeat split; try congruence. auto 20. Qed.

(* regression witnesses: the two schedules that broke the former load / CAS-if-idle / Add /
   rollback protocol (known findings C10-F1 and C10-F2, repaired by /repo 65f15f6), adapted to
   the steps of the CAS loop.
   D8 (callers 0=R0 1=A 2=D 3=B 4=C, threshold 1/s, limit 0.5 s): A (+0.5) is parked before
   its CAS; D (+0.5) is scheduled for +1.0; A's CAS fails; the clock moves to +2.5; B passes at
   +2.5; A reloads and is rejected (+3.5 is 3 s after its clock reading); C (+3.2) is scheduled
   for +3.5.  Formerly B and C both obtained +3.0. *)
Definition d8_sched : list ev :=
  [SetClock d8_t0; Run 0; Run 0; Run 0;
   SetClock (d8_t0 + 500000000); Run 1; Run 1;
   Run 2; Run 2; Run 2;
   Run 1;
   SetClock (d8_t0 + 2500000000); Run 3; Run 3; Run 3;
   Run 1;
   SetClock (d8_t0 + 3200000000); Run 4; Run 4; Run 4]%nat.

Example C10_conc_d8_regression :
  let s := cexec_c (mk_cfg 1%float 500 0) d8_sched (cinit [1; 1; 1; 1; 1]) in
  map g_pass (grants_of (c_log s)) = [d8_t0; d8_t0 + 1000000000; d8_t0 + 2500000000; d8_t0 + 3500000000] /\
  outcomes s = [Some (OPass 0); Some OBlock; Some (OPass 500000000); Some (OPass 0); Some (OPass 300000000)].
Proof. vm_compute. split; reflexivity. Qed.

(* lost CAS with an older clock (callers 0=B 1=A 2=C): B reads the clock (+0.0) and stalls; A
   (+3.0) loads the initial value; B loads it too and wins the CAS (stored +0.0); A's CAS fails,
   it reloads +0.0 and passes at +3.0 with the stored time now +3.0; C (+3.0) would have to wait
   1 s and is rejected.  Formerly A and C both passed at +3.0. *)
Definition stale_sched : list ev :=
  [SetClock d8_t0; Run 0;
   SetClock (d8_t0 + 3000000000); Run 1; Run 1;
   Run 0; Run 0;
   Run 1; Run 1; Run 1;
   Run 2; Run 2; Run 2]%nat.

Example C10_conc_lost_cas_regression :
  let s := cexec_c (mk_cfg 1%float 500 0) stale_sched (cinit [1; 1; 1]) in
  map g_pass (grants_of (c_log s)) = [d8_t0; d8_t0 + 3000000000] /\ c_last s = d8_t0 + 3000000000 /\
  outcomes s = [Some (OPass 0); Some (OPass 0); Some OBlock].
Proof. vm_compute. repeat split; reflexivity. Qed.

Print Assumptions C10_spacing.
Print Assumptions C10_wait_bound.
Print Assumptions C10_reject_only_if_needed.
Print Assumptions C10_no_banking.
Print Assumptions C10_idle_immediate.
Print Assumptions C10_total_time.
Print Assumptions C10_window_total.
Print Assumptions C10_window_rate.
Print Assumptions C10_zero_batch_inert.
Print Assumptions C10_conc_spacing.
Print Assumptions C10_conc_window_rate.
Print Assumptions C10_conc_wait_bound.
Print Assumptions C10_conc_no_banking.
Print Assumptions C10_conc_grant_exact.
Print Assumptions C10_conc_reject_only_if_needed.
Print Assumptions C10_conc_lock_free.
