(* C16 — Slot chain runs in order, short-circuits on first block, and fails open.
   Property theorems only; every proof is `exact <lemma>` from Proofs/.

   Model: Model/Chain.v (slot lists built by Add*Slot = append + stable sort; SlotChain.Entry
   with its three loops and the deferred recover; EntryPassedOnPanic; api.entry with the deep
   copy of the block error; SentinelEntry.Exit; the context pool with an arbitrary pool choice
   `pk` per Entry).  A slot's behaviour (pass / nil / wait / block e / panic) is selected by the
   request's flag, so "any subset blocks / returns nil / panics" is the quantification over the
   behaviour lists and flags.  `chains : Z -> chain` is arbitrary in the operational theorems
   (hence in particular every `build seq`), `s` is an arbitrary state unless the theorem needs
   the pool/ownership invariant, in which case it is any reachable state `exec chains init ops`. *)
From Coq Require Import Sorting.Sorted Sorting.Permutation.
From SG Require Import Base.Prelude Model.Chain Proofs.ChainProofs Proofs.ChainOpProofs Proofs.ChainC16Proofs.

(* ---- clause 1: slots of each kind are kept in ascending order value, insertion order on ties *)

(* for every insertion sequence (any number of slots, arbitrary and colliding order values):
   each of the three lists is sorted, for every order value v the slots with that value appear
   in the order in which they were inserted, and nothing is lost or duplicated *)
Theorem C16_sorted_stable : forall seq,
  ordered_stable p_ord (preps_of seq) (preps (build seq)) /\
  ordered_stable c_ord (checks_of seq) (checks (build seq)) /\
  ordered_stable s_ord (stats_of seq) (stats (build seq)).
Proof. exact build_ordered. Qed.

(* ... and that description determines the list: there is exactly one such arrangement *)
Theorem C16_sorted_stable_unique : forall (A : Type) (ord : A -> Z) inserted r1 r2,
  ordered_stable ord inserted r1 -> ordered_stable ord inserted r2 -> r1 = r2.
Proof. intros A ord. exact (ordered_stable_unique ord). Qed.

(* whatever the slots do (pass, nil, block, panic), the calls made during one Entry are: a prefix
   of the prepare list, a prefix of the rule-check list, a prefix of the statistic list (all told
   the same outcome `be`) and - only when a prepare / rule-check slot panicked, so that ss1 = [] -
   a prefix of the statistic list told "passed"; each in list order *)
Theorem C16_runs_in_order : forall chains s res inb batch flag args chid pk,
  let ch := chains chid in
  exists ps1 ps2 cs1 cs2 ss1 ss2 be ss3 ss4,
    preps ch = ps1 ++ ps2 /\ checks ch = cs1 ++ cs2 /\ stats ch = ss1 ++ ss2 /\ stats ch = ss3 ++ ss4 /\
    (ss1 = [] \/ ss3 = []) /\
    obs_log (snd (do_entry chains s res inb batch flag args chid pk)) =
      map pcall ps1 ++ map ccall cs1 ++ scalls (rb_ctx res batch) be ss1 ++ scalls (rb_ctx res batch) None ss3.
Proof. exact do_entry_order. Qed.

(* ---- clause 2: the first blocking rule-check slot decides; no later rule-check slot runs *)

(* absent panics: the caller gets exactly the error of the first slot (in list order) that blocks,
   the rule-check slots after it are not called, every statistic slot is told "blocked" with that
   error exactly once, and the entry is already exited (no completion will follow) *)
Theorem C16_first_block_wins : forall chains s res inb batch flag args chid pk pre c0 post be,
  no_prep_panic (chains chid) flag -> checks (chains chid) = pre ++ c0 :: post ->
  Forall (c_benign flag) pre -> cbeh_of c0 flag = CBlock be -> no_stat_panic (chains chid) flag ->
  let s' := fst (do_entry chains s res inb batch flag args chid pk) in
  (exists c, snd (do_entry chains s res inb batch flag args chid pk) =
    RBlocked c be (map pcall (preps (chains chid)) ++ map ccall (pre ++ [c0]) ++
                   scalls (rb_ctx res batch) (Some be) (stats (chains chid)))) /\
  (exists en, nth_error (ents s') (length (ents s)) = Some en /\ e_exited en = true /\ g_passed en = false).
Proof. exact do_entry_block. Qed.

(* conversely a block error reaches the caller only in that situation: it is always the first
   blocking slot's error, and no slot panicked *)
Theorem C16_block_only_from_first_blocker : forall chains s res inb batch flag args chid pk c1 be lg,
  snd (do_entry chains s res inb batch flag args chid pk) = RBlocked c1 be lg ->
  no_prep_panic (chains chid) flag /\ no_stat_panic (chains chid) flag /\
  exists pre c0 post, checks (chains chid) = pre ++ c0 :: post /\ Forall (c_benign flag) pre /\ cbeh_of c0 flag = CBlock be.
Proof. exact do_entry_blocked_inv. Qed.

(* ---- clause 3: statistic slots are told the outcome once, and completion iff passed *)

(* no block, no panic: every slot of every kind is called exactly once, in list order; every
   statistic slot is told "passed"; the entry is live and carries the result "pass" *)
Theorem C16_stat_once_passed : forall chains ops res inb batch flag args chid pk,
  let s := exec chains init ops in
  no_prep_panic (chains chid) flag -> Forall (c_benign flag) (checks (chains chid)) -> no_stat_panic (chains chid) flag ->
  let s' := fst (do_entry chains s res inb batch flag args chid pk) in
  let e := Z.of_nat (length (ents s)) in
  exists c en, snd (do_entry chains s res inb batch flag args chid pk) =
      REntered e c (map pcall (preps (chains chid)) ++ map ccall (checks (chains chid)) ++
                    scalls (rb_ctx res batch) None (stats (chains chid))) /\
    get_ent s' e = Some en /\ e_exited en = false /\ g_passed en = true /\ e_chain en = chid /\ e_handlers en = [] /\
    e_ctx en = c /\ x_flag (ctxs s' c) = flag.
Proof.
  intros chains ops res inb batch flag args chid pk s.
  exact (do_entry_pass_ent chains s res inb batch flag args chid pk (reachable_inv chains ops)).
Qed.

(* every admitted entry (also one admitted because a prepare / rule-check slot panicked) is live
   and, absent statistic-slot panics, carries the result "pass" - so C16_stat_once_completed
   applies to it *)
Theorem C16_stat_once_admitted : forall chains ops res inb batch flag args chid pk e c lg,
  let s := exec chains init ops in
  snd (do_entry chains s res inb batch flag args chid pk) = REntered e c lg ->
  let s' := fst (do_entry chains s res inb batch flag args chid pk) in
  e = Z.of_nat (length (ents s)) /\
  exists en, get_ent s' e = Some en /\ e_exited en = false /\ e_ctx en = c /\ e_chain en = chid /\ e_handlers en = [] /\
    g_res en = res /\ g_inb en = inb /\ g_batch en = batch /\ g_start en = now s /\ x_flag (ctxs s' c) = flag /\
    (no_stat_panic (chains chid) flag -> g_passed en = true).
Proof.
  intros chains ops res inb batch flag args chid pk e c lg s.
  exact (do_entry_entered_ent chains s res inb batch flag args chid pk e c lg (reachable_inv chains ops)).
Qed.

(* the effective Exit of a live entry (absent panics in handlers and statistic slots): every exit
   handler, then - exactly when the entry's result is "pass" - OnCompleted of every statistic slot
   exactly once, in list order, with the entry's own resource, batch count, error and rt *)
Theorem C16_stat_once_completed : forall chains ops e err en,
  let s := exec chains init ops in
  get_ent s e = Some en -> e_exited en = false ->
  Forall (fun h => ~ h_panics h) (e_handlers en) ->
  no_stat_panic (chains (e_chain en)) (x_flag (ctxs s (e_ctx en))) ->
  snd (do_exit chains s e err) =
    RCalls (map hcall (e_handlers en) ++
            if g_passed en then
              dcalls {| x_entry := e; x_err := if err =? 0 then g_err en else err; x_start := g_start en; x_rt := 0;
                        x_res := g_res en; x_inb := g_inb en; x_node := false; x_batch := g_batch en; x_flag := 0;
                        x_args := []; x_blk := None; x_rep := false; x_addr := 0 |} (now s) (stats (chains (e_chain en)))
            else []).
Proof.
  intros chains ops e err en s.
  exact (do_exit_calls chains s e err en (reachable_inv chains ops)).
Qed.

(* a blocked entry (exited inside Entry, see C16_first_block_wins) or an entry that has been
   exited: Exit does nothing at all - no completion is ever reported twice or for a blocked entry *)
Theorem C16_stat_once_no_repeat : forall chains s e err en,
  get_ent s e = Some en -> e_exited en = true -> do_exit chains s e err = (s, RCalls []).
Proof. exact do_exit_late. Qed.

(* ---- clause 4: fail-open *)

(* every Entry returns to its caller with exactly one of the two outcomes, and with a block error
   only when no slot that ran panicked: a panic in any slot admits the request *)
Theorem C16_fail_open : forall chains s res inb batch flag args chid pk,
  (exists c lg, snd (do_entry chains s res inb batch flag args chid pk) = REntered (Z.of_nat (length (ents s))) c lg) \/
  (exists c be lg, snd (do_entry chains s res inb batch flag args chid pk) = RBlocked c be lg /\
     no_prep_panic (chains chid) flag /\ no_stat_panic (chains chid) flag /\
     exists pre c0 post, checks (chains chid) = pre ++ c0 :: post /\ Forall (c_benign flag) pre /\ cbeh_of c0 flag = CBlock be).
Proof. exact do_entry_total. Qed.

(* a prepare slot panics: later prepare slots and all rule-check slots are skipped, the request is
   admitted and every statistic slot is told "passed" exactly once (EntryPassedOnPanic) *)
Theorem C16_fail_open_prepare_panic : forall chains ops res inb batch flag args chid pk ps1 p ps2,
  let s := exec chains init ops in
  preps (chains chid) = ps1 ++ p :: ps2 -> Forall (fun p => ~ p_panics flag p) ps1 -> p_panics flag p ->
  no_stat_panic (chains chid) flag ->
  exists c, snd (do_entry chains s res inb batch flag args chid pk) =
    REntered (Z.of_nat (length (ents s))) c
      (map pcall (ps1 ++ [p]) ++ scalls (rb_ctx res batch) None (stats (chains chid))).
Proof.
  intros chains ops res inb batch flag args chid pk ps1 p ps2 s.
  exact (do_entry_prep_panic chains s res inb batch flag args chid pk ps1 p ps2 (reachable_inv chains ops)).
Qed.

(* a rule-check slot panics (e.g. a rule evaluated on an unhashable argument): likewise *)
Theorem C16_fail_open_check_panic : forall chains ops res inb batch flag args chid pk pre c0 post,
  let s := exec chains init ops in
  no_prep_panic (chains chid) flag -> checks (chains chid) = pre ++ c0 :: post ->
  Forall (c_benign flag) pre -> cbeh_of c0 flag = CPanic -> no_stat_panic (chains chid) flag ->
  exists c, snd (do_entry chains s res inb batch flag args chid pk) =
    REntered (Z.of_nat (length (ents s))) c
      (map pcall (preps (chains chid)) ++ map ccall (pre ++ [c0]) ++ scalls (rb_ctx res batch) None (stats (chains chid))).
Proof.
  intros chains ops res inb batch flag args chid pk pre c0 post s.
  exact (do_entry_check_panic chains s res inb batch flag args chid pk pre c0 post (reachable_inv chains ops)).
Qed.

(* a statistic slot panics while being told the outcome: the request is admitted, too *)
Theorem C16_fail_open_stat_panic : forall chains s res inb batch flag args chid pk ss1 s0 ss2,
  no_prep_panic (chains chid) flag ->
  stats (chains chid) = ss1 ++ s0 :: ss2 -> Forall (fun s => ~ s_panics flag s) ss1 -> s_panics flag s0 ->
  exists c lg, snd (do_entry chains s res inb batch flag args chid pk) = REntered (Z.of_nat (length (ents s))) c lg.
Proof. exact do_entry_stat_panic. Qed.

(* Exit, whatever exit handlers and statistic slots do (return errors, panic): it returns, the
   entry is exited, and the ownership invariant holds again (the context is back in the pool,
   reset; no live entry refers to it) *)
Theorem C16_fail_open_exit : forall chains ops e err,
  let s := exec chains init ops in
  (exists lg, snd (do_exit chains s e err) = RCalls lg) /\
  Inv (fst (do_exit chains s e err)) /\
  (forall en, get_ent s e = Some en ->
     exists en', get_ent (fst (do_exit chains s e err)) e = Some en' /\ e_exited en' = true).
Proof.
  intros chains ops e err s. exact (do_exit_total chains s e err (reachable_inv chains ops)).
Qed.

(* no operation of any history ever yields "a panic reached the caller" (the observation the
   harness reports when one does) *)
Theorem C16_fail_open_never_escapes : forall chains ops s, ~ In REscaped (snd (run chains s ops)).
Proof. exact run_never_escapes. Qed.

(* ---- clause 5: the block error handed to the caller stays unchanged *)

(* the error returned by a blocked Entry is the (length (ret_view s))-th error handed out; read
   again after ANY further operations (entries on any chain with any pool choice - in particular
   ones reusing the blocked entry's context -, exits, traces, ...) it has the same fields, and so
   has every error handed out earlier *)
Theorem C16_block_error_stable : forall chains ops res inb batch flag args chid pk c1 be lg ops',
  let s := exec chains init ops in
  snd (do_entry chains s res inb batch flag args chid pk) = RBlocked c1 be lg ->
  let s1 := fst (do_entry chains s res inb batch flag args chid pk) in
  nth (length (ret_view s)) (ret_view s1) berr0 = be /\
  nth (length (ret_view s)) (ret_view (exec chains s1 ops')) berr0 = be /\
  exists more, ret_view (exec chains s1 ops') = ret_view s ++ [be] ++ more.
Proof.
  intros chains ops res inb batch flag args chid pk c1 be lg ops' s.
  exact (block_error_stable chains s res inb batch flag args chid pk c1 be lg ops' (reachable_inv chains ops)).
Qed.

(* ---- non-vacuity: a chain with colliding order values, blocking, nil-returning, waiting and
   panicking slots, a panicking exit handler, a repeated Exit and context reuse *)
Definition ex_bA : berr := {| b_type := 1; b_msg := 2; b_rule := 3; b_snap := 4 |}.
Definition ex_bB : berr := {| b_type := 5; b_msg := 6; b_rule := 7; b_snap := 8 |}.
Definition ex_seq : list slot :=
  [ SS {| s_id := 1; s_ord := 5; s_real := false; s_behs := [SOk] |};
    SC {| c_id := 2; c_ord := 7; c_behs := [CPass; CBlock ex_bA] |};
    SC {| c_id := 3; c_ord := 7; c_behs := [CPass; CBlock ex_bB; CPanic] |};
    SP {| p_id := 4; p_ord := 9; p_behs := [POk] |};
    SC {| c_id := 5; c_ord := 3; c_behs := [CNil] |};
    SS {| s_id := 6; s_ord := 5; s_real := false; s_behs := [SOk] |};
    SP {| p_id := 7; p_ord := 9; p_behs := [PNode] |};
    SS {| s_id := 8; s_ord := 1000; s_real := true; s_behs := [] |};
    SC {| c_id := 9; c_ord := 0; c_behs := [CWait] |} ].
Definition ex_ops : list op :=
  [OEntry 0 true 2 1 [7] 0 (-1); OEntry 0 true 1 0 [] 0 0; OEntry 0 false 3 2 [] 0 (-1);
   OWhenExit 1 50 HPanic; OExit 1 33; OExit 1 0; OTick 5; OExit 2 0; OSnap [0; -1]].

Example C16_nonvacuous :
  (map c_id (checks (build ex_seq)), map s_id (stats (build ex_seq)), map p_id (preps (build ex_seq)))
    = ([9; 5; 2; 3], [1; 6; 8], [4; 7]) /\
  snd (run (fun _ => build ex_seq) init ex_ops) =
    [ (* flag 1: slots 2 and 3 (same order value) both block; 2 was inserted first and wins; 3 does not run *)
      RBlocked 0 ex_bA [LPrep 4; LPrep 7; LCheck 9; LCheck 5; LCheck 2; LBlocked 1 0 2 ex_bA; LBlocked 6 0 2 ex_bA];
      (* flag 0: everything passes; the context of the blocked entry is reused *)
      REntered 1 0 [LPrep 4; LPrep 7; LCheck 9; LCheck 5; LCheck 2; LCheck 3; LPassed 1 0 1; LPassed 6 0 1];
      (* flag 2: slot 3 panics; admitted, statistic slots told "passed" *)
      REntered 2 1 [LPrep 4; LPrep 7; LCheck 9; LCheck 5; LCheck 2; LCheck 3; LPassed 1 0 3; LPassed 6 0 3];
      RNone;
      RCalls [LHandler 50; LDone 1 0 1 33 0; LDone 6 0 1 33 0];
                                      (* the exit handler panics: contained, and (a9e6cc9) the completion still runs *)
      RCalls [];                      (* repeated Exit: nothing *)
      RNone;
      RCalls [LDone 1 0 3 (-1) 5; LDone 6 0 3 (-1) 5];
      RSnap [] [(0, (4, 2, 4), (4, 5, 0)); (-1, (1, 2, 1), (1, 0, 0))] [ex_bA] ].
Proof. vm_compute. split; reflexivity. Qed.

(* the hypotheses of the conditional theorems are met by that chain *)
Example C16_first_block_wins_nonvacuous :
  let ch := build ex_seq in
  no_prep_panic ch 1 /\ no_stat_panic ch 1 /\
  exists pre c0 post, checks ch = pre ++ c0 :: post /\ Forall (c_benign 1) pre /\ cbeh_of c0 1 = CBlock ex_bA /\
    map c_id pre = [9; 5] /\ c_id c0 = 2 /\ map c_id post = [3].
Proof.
  cbv zeta. destruct (C16_block_only_from_first_blocker (fun _ => build ex_seq) init 0 true 2 1 [7] 0 (-1) 0 ex_bA
    [LPrep 4; LPrep 7; LCheck 9; LCheck 5; LCheck 2; LBlocked 1 0 2 ex_bA; LBlocked 6 0 2 ex_bA] eq_refl) as (Hp & Hs & _).
  split; [exact Hp|]. split; [exact Hs|].
  exists (firstn 2 (checks (build ex_seq))), (nth 2 (checks (build ex_seq)) {| c_id := 0; c_ord := 0; c_behs := [] |}),
    (skipn 3 (checks (build ex_seq))).
  vm_compute. repeat split; repeat constructor.
Qed.

Example C16_fail_open_check_panic_nonvacuous :
  let ch := build ex_seq in
  no_prep_panic ch 2 /\ no_stat_panic ch 2 /\
  exists pre c0 post, checks ch = pre ++ c0 :: post /\ Forall (c_benign 2) pre /\ cbeh_of c0 2 = CPanic.
Proof.
  cbv zeta. split; [|split].
  - unfold no_prep_panic. vm_compute. repeat constructor; discriminate.
  - unfold no_stat_panic. vm_compute. repeat constructor; discriminate.
  - exists (firstn 3 (checks (build ex_seq))), (nth 3 (checks (build ex_seq)) {| c_id := 0; c_ord := 0; c_behs := [] |}),
      (skipn 4 (checks (build ex_seq))).
    vm_compute. repeat split; repeat constructor.
Qed.

Print Assumptions C16_sorted_stable.
Print Assumptions C16_sorted_stable_unique.
Print Assumptions C16_runs_in_order.
Print Assumptions C16_first_block_wins.
Print Assumptions C16_block_only_from_first_blocker.
Print Assumptions C16_stat_once_passed.
Print Assumptions C16_stat_once_admitted.
Print Assumptions C16_stat_once_completed.
Print Assumptions C16_stat_once_no_repeat.
Print Assumptions C16_fail_open.
Print Assumptions C16_fail_open_prepare_panic.
Print Assumptions C16_fail_open_check_panic.
Print Assumptions C16_fail_open_stat_panic.
Print Assumptions C16_fail_open_exit.
Print Assumptions C16_fail_open_never_escapes.
Print Assumptions C16_block_error_stable.
