(* C09 — Sliding-window counters stay sound under concurrent writers and rollover.
   Property theorems only; every proof is `exact <lemma>` from Proofs/LeapArrayConcProofs.v.
   All theorems quantify over every geometry, every number of threads, every program and
   EVERY schedule (list of Run tid | Tick dt) of the program-counter machine in
   Model/LeapArrayConc.v, whose steps are the atomic accesses of the Go code. *)
From SG Require Import Base.Prelude Base.GoInt Model.LeapArrayConc Proofs.LeapArrayConcProofs.

(* Every total returned by CountWithTime is at most the sum of the amounts (of that event)
   whose atomic add has executed. Since the statement holds for every schedule it holds in
   particular for the prefix that ends with the read's return, i.e. "at the moment of the read".
   Guards: amounts >= 0, and the amounts of all programs together fit an int64. *)
Theorem C09_no_invention : forall g t0 progs sched,
  progs_nonneg progs -> total_amt progs < two63 ->
  let c := exec g sched (init g t0 progs) in
  Forall (fun r => r_total r <= Esum (on_kind (r_kind r)) (adds (sh c))) (reads (sh c)).
Proof. exact no_invention. Qed.

Definition g2 (zf : bool) : geom := {| g_n := 2; g_bl := 1000; g_zero_first := zf |}.
Definition T0 : Z := 1700000000000.

(* non-vacuity: two recorders and a reader interleaved; the reader returns 5 + 1 *)
Example C09_no_invention_nonvacuous :
  let progs := [[ORecord 0 5]; [ORecord 0 1]; [ORead 0]] in
  let sched := [Run 0; Run 2; Run 1; Run 0; Run 1; Run 0; Run 1; Run 0; Run 1; Run 2; Run 2; Run 2; Run 2; Run 2; Run 2; Run 2; Run 2]%nat in
  let c := exec (g2 true) sched (init (g2 true) T0 progs) in
  progs_nonneg progs /\ total_amt progs < two63 /\
  map r_total (reads (sh c)) = [6] /\ Esum (on_kind 0) (adds (sh c)) = 6.
Proof.
  cbv zeta. split; [|split; [|split]].
  - repeat constructor; unfold op_nonneg; cbn; lia.
  - vm_compute. reflexivity.
  - vm_compute. reflexivity.
  - vm_compute. reflexivity.
Qed.

Print Assumptions C09_no_invention.
