(* C09 — Sliding-window counters stay sound under concurrent writers and rollover.
   Property theorems only; every proof is `exact <lemma>` from Proofs/LeapArrayConcProofs.v.
   All theorems quantify over every geometry, every number of threads, every program and
   EVERY schedule (list of Run tid | Tick dt) of the program-counter machine in
   Model/LeapArrayConc.v, whose steps are the atomic accesses of the Go code. *)
From SG Require Import Base.Prelude Base.GoInt Model.LeapArrayConc Proofs.LeapArrayConcProofs Proofs.LeapArrayConcSafetyProofs Proofs.LeapArrayConcTermProofs Proofs.LeapArrayConcExactProofs.

(* Every total returned by CountWithTime is at most the sum of the amounts (of that event)
   whose atomic add has executed. Since the statement holds for every schedule it holds in
   particular for the prefix that ends with the read's return, i.e. "at the moment of the read".
   Guards: amounts >= 0, and the amounts of all programs together fit an int64. *)
Theorem C09_no_invention : forall g t0 progs sched,
  progs_nonneg progs -> total_amt progs < two63 ->
  let c := exec g sched (init g t0 progs) in
  Forall (fun r => r_total r <= Esum (on_kind (r_kind r)) (adds (sh c))) (reads (sh c)).
Proof. exact no_invention. Qed.

Definition g2 (zf : bool) : geom := {| g_n := 2; g_bl := 1000; g_zero_first := zf |}.
Definition T0 : Z := 1700000000000.

(* non-vacuity: two recorders and a reader interleaved; the reader returns 5 + 1 *)
Example C09_no_invention_nonvacuous :
  let progs := [[ORecord 0 5]; [ORecord 0 1]; [ORead 0]] in
  let sched := [Run 0; Run 2; Run 1; Run 0; Run 1; Run 0; Run 1; Run 0; Run 1; Run 2; Run 2; Run 2; Run 2; Run 2; Run 2; Run 2; Run 2]%nat in
  let c := exec (g2 true) sched (init (g2 true) T0 progs) in
  progs_nonneg progs /\ total_amt progs < two63 /\
  map r_total (reads (sh c)) = [6] /\ Esum (on_kind 0) (adds (sh c)) = 6.
Proof.
  cbv zeta. split; [|split; [|split]].
  - repeat constructor; unfold op_nonneg; cbn; lia.
  - vm_compute. reflexivity.
  - vm_compute. reflexivity.
  - vm_compute. reflexivity.
Qed.


(* ------------------------------------------------------------------------------------------
   The stall hypothesis.  no_stall g sched c0  (Model/LeapArrayConc.v) says: in every
   configuration the schedule passes through, every operation in progress (recorder or reader:
   it has read its timestamp and has not finished) read its timestamp at most one bucket length
   of clock ago.  g_zero_first g = true selects the order of ResetBucketTo in /repo after fix
   43206f8 (reset() first, BucketStart published last); Corr/Run_C09.v runs the correspondence,
   including the order of the yield labels, with that value. *)

(* With more than one bucket an amount is only ever added to a slot whose BucketStart, at the
   moment of the atomic add, is the bucket start selected by the recorder's own timestamp. *)
Theorem C09_right_bucket : forall g t0 progs sched,
  0 < g_bl g -> (2 <= g_n g)%nat -> g_zero_first g = true ->
  no_stall g sched (init g t0 progs) ->
  let c := exec g sched (init g t0 progs) in
  Forall (fun r => a_start r = a_own r) (adds (sh c)).
Proof. exact right_bucket. Qed.

(* ... and never surfaces in a later window: whatever a counter holds (the ghost list of the adds
   since the counter was last zeroed) was added under the slot's current BucketStart. *)
Theorem C09_right_bucket_window : forall g t0 progs sched,
  0 < g_bl g -> (2 <= g_n g)%nat -> g_zero_first g = true ->
  no_stall g sched (init g t0 progs) ->
  let c := exec g sched (init g t0 progs) in
  forall i k p, In p (contribv (nth i (slots (sh c)) dslot) k) -> snd p = s_start (nth i (slots (sh c)) dslot).
Proof. exact contrib_current. Qed.

(* A reader never sums an amount that was added under an earlier start of the slot than the start
   the reader saw when it selected the slot (the ghost log `stale` records every such amount). *)
Theorem C09_expired_invisible : forall g t0 progs sched,
  0 < g_bl g -> (2 <= g_n g)%nat -> g_zero_first g = true ->
  no_stall g sched (init g t0 progs) ->
  stale (sh (exec g sched (init g t0 progs))) = [].
Proof. exact expired_invisible. Qed.

Definition rep (n : nat) (e : ev) : schedule := repeat e n.
Definition progs3 : list (list op) := [[ORecord 0 5]; [ORecord 0 1]; [ORead 0]].

(* non-vacuity: thread 0 fills slot 0 with 5; the clock advances by one interval; thread 1 starts the
   rollover and parks inside the reset; the reader spins on the try-lock; thread 1 finishes (adds 1);
   the reader then selects both slots and returns 1. No operation is stalled, a bucket was rolled over,
   a reader summed the rolled-over slot, and both adds went to their own bucket. *)
Definition sched_roll : schedule :=
  rep 4 (Run 0%nat) ++ [Tick 2000] ++ rep 6 (Run 1%nat) ++ rep 5 (Run 2%nat) ++ rep 9 (Run 1%nat) ++ rep 12 (Run 2%nat).

Example C09_right_bucket_nonvacuous :
  let g := g2 true in
  let c := exec g sched_roll (init g T0 progs3) in
  no_stall g sched_roll (init g T0 progs3) /\
  map (fun r => (a_amt r, a_start r, a_own r)) (adds (sh c)) = [(5, T0, T0); (1, T0 + 2000, T0 + 2000)] /\
  map r_total (reads (sh c)) = [1] /\ all_done c = true.
Proof. cbv zeta. repeat split; vm_compute; reflexivity. Qed.

Example C09_expired_invisible_nonvacuous :
  let g := g2 true in
  let c := exec g sched_roll (init g T0 progs3) in
  no_stall g sched_roll (init g T0 progs3) /\ (2 <= g_n g)%nat /\
  map s_start (slots (sh c)) = [T0 + 2000; T0 + 1000] /\ map r_total (reads (sh c)) = [1] /\ stale (sh c) = [].
Proof. cbv zeta. repeat split; try (vm_compute; reflexivity). Qed.

(* The order before fix 43206f8 (BucketStart stored first, reset() afterwards) violates the statement:
   defect D7. Same programs; the reader runs while thread 1 is parked between the store and the first
   zeroing and returns the 5 recorded one interval earlier. The schedule stalls nobody. *)
Definition sched_d7 : schedule := rep 4 (Run 0%nat) ++ [Tick 2000] ++ rep 6 (Run 1%nat) ++ rep 10 (Run 2%nat).

Theorem C09_expired_invisible_refuted_old_order :
  exists g t0 progs sched,
    0 < g_bl g /\ (2 <= g_n g)%nat /\ g_zero_first g = false /\ no_stall g sched (init g t0 progs) /\
    let c := exec g sched (init g t0 progs) in
    stale (sh c) <> [] /\ map r_total (reads (sh c)) = [5] /\ Esum (on_kind 0) (filter (fun r => T0 + 1000 <=? a_own r) (adds (sh c))) = 0.
Proof.
  exists (g2 false), T0, progs3, sched_d7. cbv zeta.
  split; [reflexivity|]. split; [apply le_n|]. split; [reflexivity|]. split; [vm_compute; reflexivity|].
  split; [vm_compute; discriminate|]. split; vm_compute; reflexivity.
Qed.

(* ------------------------------------------------------------------------------------------
   Termination (variant / progress formulation; no fairness assumption is built into the model, the
   scheduler is arbitrary).  W g c (Proofs/LeapArrayConcTermProofs.v) is a natural number computed
   from the threads' remaining programs and program counters; W of the initial configuration is
   prog_cost g progs = sum over all operations of (15 for a record, 17 + 3*sampleCount for a read).
   In every reachable configuration c:
   (1) no step (of any thread, or a tick) increases W;
   (2) a step of an unfinished thread decreases W, or it is a step inside the spin loop of
       currentBucketOfTime (pcs 101, 102, the two unlabelled loads, 103) that leaves W and the whole
       shared state unchanged;
   (3) a TryLock fails (103 back to 101) only while the lock word is set;
   (4) while the lock word is set some thread is inside the critical section and its next step decreases W
       (inside the critical section there is no blocking and no spinning step: by (2) all its steps up to
       the unlock decrease W).
   Hence (bounded_work) every schedule contains at most prog_cost steps that are not spin steps, and
   (no_retry) the only other back edge of the loop, 'start changed between my loads', needs a concurrent
   BucketStart store, which is one of those boundedly many steps. Under weak fairness every recorder and
   reader therefore terminates: after the last W-decreasing step nobody is inside the critical section
   (else (4) and fairness give another one), so no TryLock fails and no start changes, and each thread
   still in the loop leaves it within 5 of its own steps by a W-decreasing step - unless all are finished. *)
Theorem C09_termination : forall g t0 progs sched,
  g_zero_first g = true ->
  let c := exec g sched (init g t0 progs) in
  (forall e, (W g (step g c e) <= W g c)%nat) /\
  (forall tid, unfinished c tid ->
     let c' := step g c (Run tid) in
     (W g c' < W g c)%nat \/
     (W g c' = W g c /\ in_loop (pc_of c tid) = true /\ in_loop (pc_of c' tid) = true /\ sh c' = sh c)) /\
  (forall tid t, nth_error (thr c) tid = Some t -> t_ops t <> [] -> t_pc t = PTryLock ->
     pc_of (step g c (Run tid)) tid = PGet -> lock (sh c) = true) /\
  (lock (sh c) = true ->
     exists h t, nth_error (thr c) h = Some t /\ t_ops t <> [] /\ in_cs (t_pc t) = true /\ (W g (step g c (Run h)) < W g c)%nat).
Proof. exact termination_variant. Qed.

Theorem C09_termination_bounded_work : forall g t0 progs sched,
  g_zero_first g = true ->
  (useful_steps g sched (init g t0 progs) + W g (exec g sched (init g t0 progs)) <= prog_cost g progs)%nat.
Proof. exact termination_bounded_work. Qed.

Theorem C09_termination_no_retry : forall g tid s1 s2 s3 t e1 t1 e2 t2 e3 t3,
  t_ops t <> [] -> t_pc t = PLoad1 ->
  tstep g tid s1 t = (e1, t1) -> t_pc t1 = PLoad2 ->
  tstep g tid s2 t1 = (e2, t2) -> t_pc t2 = PLoad3 ->
  tstep g tid s3 t2 = (e3, t3) ->
  let S := fun s => s_start (nth (bidx g (t_now t)) (slots s) dslot) in
  S s2 = S s1 -> S s3 = S s1 -> t_pc t3 <> PGet.
Proof. exact no_retry_same_start. Qed.

(* non-vacuity: the reader is parked before its TryLock while thread 1 is inside the reset: the reader's
   step is a spin step (W unchanged, lock set), thread 1's step decreases W; the complete schedule
   sched_roll brings W from prog_cost = 53 to 0 in 24 W-decreasing steps (37 events). *)
Definition sched_spin : schedule := rep 4 (Run 0%nat) ++ [Tick 2000] ++ rep 6 (Run 1%nat) ++ rep 4 (Run 2%nat).

Example C09_termination_nonvacuous :
  let g := g2 true in
  let c := exec g sched_spin (init g T0 progs3) in
  pc_of c 2 = PTryLock /\ pc_of (step g c (Run 2%nat)) 2 = PGet /\ lock (sh c) = true /\
  W g (step g c (Run 2%nat)) = W g c /\ (W g (step g c (Run 1%nat)) < W g c)%nat /\
  prog_cost g progs3 = 53%nat /\ W g (exec g sched_roll (init g T0 progs3)) = 0%nat /\
  useful_steps g sched_roll (init g T0 progs3) = 24%nat.
Proof. cbv zeta. repeat split; vm_compute; reflexivity. Qed.

(* ------------------------------------------------------------------------------------------
   Exactness.  no_overlap g sched c0 (Model/LeapArrayConc.v): in no configuration the schedule passes
   through is there a thread that has decided to roll a slot over (parked before the TryLock, or inside
   the critical section) while a DIFFERENT thread has a record operation in progress on the same slot.
   quiet g c i k: no thread is inside a reset of slot i that changes its start and has already zeroed
   counter k (in particular: every configuration in which all threads have finished).
   Then counter k of slot i holds exactly the sum of all executed adds of event k whose own timestamp
   selects the bucket the slot currently carries: nothing lost, nothing duplicated.  The statement is
   about the counters (the sums a subsequent read adds up); what a reader that runs concurrently with
   recorders returns is bounded by C09_no_invention. *)
Theorem C09_exact_when_disjoint : forall g t0 progs sched,
  0 < g_bl g -> (2 <= g_n g)%nat -> g_zero_first g = true ->
  progs_nonneg progs -> total_amt progs < two63 ->
  no_stall g sched (init g t0 progs) -> no_overlap g sched (init g t0 progs) ->
  let c := exec g sched (init g t0 progs) in
  forall i k, (k < n_events)%nat -> quiet g c i k ->
  cntv (nth i (slots (sh c)) dslot) k = Esum (credited_own i k (s_start (nth i (slots (sh c)) dslot))) (adds (sh c)).
Proof. exact exact_when_disjoint. Qed.

Theorem C09_exact_when_disjoint_final : forall g t0 progs sched,
  0 < g_bl g -> (2 <= g_n g)%nat -> g_zero_first g = true ->
  progs_nonneg progs -> total_amt progs < two63 ->
  no_stall g sched (init g t0 progs) -> no_overlap g sched (init g t0 progs) ->
  let c := exec g sched (init g t0 progs) in
  all_done c = true ->
  forall i k, (k < n_events)%nat ->
  cntv (nth i (slots (sh c)) dslot) k = Esum (credited_own i k (s_start (nth i (slots (sh c)) dslot))) (adds (sh c)).
Proof. exact exact_final. Qed.

(* The ghost contribution lists that C09_right_bucket_window and C09_expired_invisible speak about describe
   the real counters: in every reachable configuration a counter equals the sum of its contribution list. *)
Theorem C09_ghost_sound : forall g t0 progs sched,
  progs_nonneg progs -> total_amt progs < two63 ->
  let c := exec g sched (init g t0 progs) in
  forall i k, cntv (nth i (slots (sh c)) dslot) k = sumZ (map fst (contribv (nth i (slots (sh c)) dslot) k)).
Proof. exact ghost_sound. Qed.

(* non-vacuity: 5 recorded at T0; the clock advances by one interval; thread 1 (at T0+2000, slot 0) and
   thread 2 (at T0+3000, slot 1) both have to roll their slot over and contend for the lock (thread 2's
   TryLock fails once); nobody overlaps a rollover of its own slot, nobody is stalled. Final counters 1 and 2,
   both equal to the credited adds; the reader returns 3. *)
Definition progs4 : list (list op) := [[ORecord 0 5]; [ORecord 0 1]; [ORecord 0 2]; [ORead 0]].
Definition sched_disjoint : schedule :=
  rep 4 (Run 0%nat) ++ [Tick 2000] ++ [Run 1%nat] ++ [Tick 1000] ++ [Run 2%nat] ++ rep 4 (Run 1%nat) ++ rep 4 (Run 2%nat)
  ++ rep 10 (Run 1%nat) ++ rep 18 (Run 2%nat) ++ rep 12 (Run 3%nat).

Example C09_exact_when_disjoint_nonvacuous :
  let g := g2 true in
  let c := exec g sched_disjoint (init g T0 progs4) in
  no_stall g sched_disjoint (init g T0 progs4) /\ no_overlap g sched_disjoint (init g T0 progs4) /\
  all_done c = true /\
  map (fun x => (s_start x, cntv x 0)) (slots (sh c)) = [(T0 + 2000, 1); (T0 + 3000, 2)] /\
  Esum (credited_own 0 0 (T0 + 2000)) (adds (sh c)) = 1 /\ Esum (credited_own 1 0 (T0 + 3000)) (adds (sh c)) = 2 /\
  Esum (on_kind 0) (adds (sh c)) = 8 /\ map r_total (reads (sh c)) = [3].
Proof. cbv zeta. repeat split; vm_compute; reflexivity. Qed.

Print Assumptions C09_no_invention.
Print Assumptions C09_right_bucket.
Print Assumptions C09_right_bucket_window.
Print Assumptions C09_expired_invisible.
Print Assumptions C09_expired_invisible_refuted_old_order.
Print Assumptions C09_termination.
Print Assumptions C09_termination_bounded_work.
Print Assumptions C09_termination_no_retry.
Print Assumptions C09_exact_when_disjoint.
Print Assumptions C09_exact_when_disjoint_final.
Print Assumptions C09_ghost_sound.
