(* C04 — Isolation rule caps in-flight requests at the threshold.
   Property theorems only; every proof is `exact <lemma>` from Proofs/. *)
From SG Require Import Base.Prelude Base.GoInt Model.Isolation Model.AdmitConc
  Proofs.IsolationProofs Proofs.AdmitConcProofs.

(* Every state reachable by any history of Entry/Exit operations over any resources
   satisfies the bookkeeping invariant (gauge = true number of live admitted entries). *)
Theorem C04_reachable_inv : forall rules ops, Inv (fst (run rules init ops)).
Proof. intros rules ops. exact (run_inv rules ops init inv_init). Qed.

(* admitted iff in-flight + b <= N for every rule of the resource (b over all of Z, in
   particular the full uint32 range), whatever order entries were exited in *)
Theorem C04_decision : forall rules ops res b,
  let s := fst (run rules init ops) in
  in_flight s res < two31 ->
  (snd (step rules s (Enter res b)) = OPass <->
   Forall (fun thr => in_flight s res + b <= thr) (rules res)).
Proof. intros rules ops res b s. exact (decision_inv rules s res b (run_inv rules ops init inv_init)). Qed.

(* a rejection names the first violated rule and the true in-flight count *)
Theorem C04_block_report : forall rules ops res b i snap,
  let s := fst (run rules init ops) in
  in_flight s res < two31 ->
  snd (step rules s (Enter res b)) = OBlock i snap ->
  snap = in_flight s res /\
  exists pre thr post, rules res = pre ++ thr :: post /\ Z.of_nat (length pre) = i /\
     Forall (fun t => in_flight s res + b <= t) pre /\ thr < in_flight s res + b.
Proof. intros rules ops res b i snap s. exact (blocked_inv rules s res b i snap (run_inv rules ops init inv_init)). Qed.

(* in-flight <= N on every prefix (batches >= 1; see DESIGN: a batch of 0 is admitted at
   in-flight = N by the iff above and is excluded here) *)
Theorem C04_cap_step : forall rules ops o,
  let s := fst (run rules init ops) in
  (forall res, in_flight s res < two31) ->
  (match o with Enter _ b => 1 <= b | Exit _ => True end) ->
  Cap rules s -> Cap rules (fst (step rules s o)).
Proof. intros rules ops o s. exact (step_cap rules s o (run_inv rules ops init inv_init)). Qed.

(* rejected requests never occupy capacity *)
Theorem C04_rejected_free : forall rules s res b i snap,
  snd (step rules s (Enter res b)) = OBlock i snap ->
  forall r2, in_flight (fst (step rules s (Enter res b))) r2 = in_flight s r2 /\
             gauge_of (fst (step rules s (Enter res b))) r2 = gauge_of s r2.
Proof. exact rejected_free. Qed.

(* capacity freed by an Exit is immediately reusable *)
Theorem C04_reuse : forall rules ops k res,
  let s := fst (run rules init ops) in
  alookup k (live s) = Some res ->
  forall r2, in_flight (fst (step rules s (Exit k))) r2 = in_flight s r2 - (if r2 =? res then 1 else 0).
Proof. intros rules ops k res s. exact (exit_frees rules s k res (run_inv rules ops init inv_init)). Qed.

Theorem C04_exit_idempotent : forall rules ops k,
  let s := fst (run rules init ops) in
  let s1 := fst (step rules s (Exit k)) in
  let s2 := fst (step rules s1 (Exit k)) in
  gauges s2 = gauges s1 /\ live s2 = live s1.
Proof. intros rules ops k s. exact (exit_idempotent rules s k (run_inv rules ops init inv_init)). Qed.

(* k requests simultaneously between check and record: in-flight <= N + k - 1, for every
   schedule of any number of threads *)
Theorem C04_k_bound : forall N k sched,
  1 <= k -> 0 <= N ->
  Forall ev_ok sched ->
  Forall (pend_ok k 1) (ctrace N (fun b => if 1 <=? b then 1 else 0) sched cinit) ->
  Forall (fun s => count s <= N + (k - 1) * 1) (ctrace N (fun b => if 1 <=? b then 1 else 0) sched cinit).
Proof.
  intros N k sched Hk HN. apply k_bound; auto; try lia.
  intros b Hb. destruct (1 <=? b) eqn:E; lia.
Qed.

(* non-vacuity: a concrete history reaching a non-trivial state that meets the hypotheses *)
Example C04_nonvacuous :
  let rules := fun r => if r =? 7 then [2; 3] else [] in
  let ops := [Enter 7 1; Enter 7 1; Enter 7 1; Exit 0; Enter 7 4294967295; Enter 7 1] in
  snd (run rules init ops) = [OPass; OPass; OBlock 0 2; ONone; OBlock 0 1; OPass]
  /\ in_flight (fst (run rules init ops)) 7 = 2.
Proof. vm_compute. split; reflexivity. Qed.

Print Assumptions C04_reachable_inv.
Print Assumptions C04_decision.
Print Assumptions C04_block_report.
Print Assumptions C04_cap_step.
Print Assumptions C04_rejected_free.
Print Assumptions C04_reuse.
Print Assumptions C04_exit_idempotent.
Print Assumptions C04_k_bound.
