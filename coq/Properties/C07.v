(* C07 — System protection gates inbound traffic only, by the configured predicate.
   Property theorems only; proofs are in Proofs/SystemProofs.v (which builds on C08's theorems
   in Proofs/StatProofs.v / LeapArrayProofs.v and on C13's system rule manager).

   Setting.  Model/System.v transcribes AdaptiveSlot.Check / doCheckRule / checkBbrSimple /
   getRules, the part of stat.Slot that feeds the global inbound node, and the injected load /
   cpu readings.  A history [ops] is any list of: LoadRules, SetSystemLoad, SetSystemCpuUsage,
   Entry (inbound or outbound, any batch, at clock t, with the map iteration order of that call),
   Exit (of any earlier Entry, possibly repeated or of a blocked one, with or without error),
   probes; clock readings never decrease (hist_mono) from the node's creation time t0 > 0 and
   stay below 2^62 ms; fewer than 2^31 operations (the gauge is an int32).  Geometry: array
   gn x gitv ms, view vn x vitv ms, as NewBaseStatNode requires (C08's conditions).

   [ledger s0 ops] is the list of statistic events the run recorded (admitted / blocked /
   completed inbound entries).  [inbound_stats … ledger t] computes the inbound statistics from
   that list alone, as plain sums / min / per-bucket max over the bucket-aligned window ending
   at t (C08's reference).  [violated rd load cpu r] is the specification predicate:
     QPS / in-flight / average RT : not (value < trigger)      (= trigger <= value, C07_reached)
     load / cpu                   : trigger < value, and for strategy BBR also
                                    in-flight > 1 and in-flight > peak completion rate * min RT / 1000. *)
From Coq Require Import Floats.
From SG Require Import Base.Prelude Base.GoInt Base.GoFloat Model.LeapArray Model.StatNode Model.Rules Model.System
  Proofs.LeapArrayProofs Proofs.StatProofs Proofs.RulesProofs Proofs.SystemProofs.
#[local] Open Scope Z_scope.

(* system rules never block outbound traffic — in every state whatsoever, whatever the rules,
   readings and statistics — and outbound traffic leaves the inbound statistics untouched *)
Theorem C07_outbound_never : forall s t b ord,
  snd (sys_step s (OEntry t false b ord)) = OPassed /\ step_events s (OEntry t false b ord) = [].
Proof. exact outbound_never. Qed.

(* an inbound request is rejected with a system block iff some loaded valid rule is violated at
   that moment on the REFERENCE inbound statistics *)
Theorem C07_inbound_iff : forall gn gitv vn vitv t0,
  0 < gn -> gitv mod gn = 0 -> 0 < gitv < two32 -> 0 <= vn -> 0 <= vitv ->
  check_reuse vn vitv gn gitv = true -> 0 < t0 ->
  forall ops t, hist_mono t0 ops -> Z.of_nat (length ops) < two31 -> hist_last t0 ops <= t < two62' ->
  let s0 := sys_state0 gn gitv vn vitv t0 in
  let s := sys_after s0 ops in
  let rd := inbound_stats gn gitv vn vitv (ledger s0 ops) t in
  forall b ord, covers ord (sys_rules (st_rules s)) ->
  (blocked_system (snd (sys_step s (OEntry t true b ord))) <->
   exists r, In r (sys_rules (st_rules s)) /\ sys_valid r = true /\ violated rd (st_load s) (st_cpu s) r = true).
Proof. exact inbound_iff. Qed.

(* the rule reported by a blocked call is a loaded valid rule that is violated, and the reported
   snapshot is the value of its metric — for EVERY iteration order (no condition on ord) *)
Theorem C07_reported_rule_violated : forall gn gitv vn vitv t0,
  0 < gn -> gitv mod gn = 0 -> 0 < gitv < two32 -> 0 <= vn -> 0 <= vitv ->
  check_reuse vn vitv gn gitv = true -> 0 < t0 ->
  forall ops t, hist_mono t0 ops -> Z.of_nat (length ops) < two31 -> hist_last t0 ops <= t < two62' ->
  let s0 := sys_state0 gn gitv vn vitv t0 in
  let s := sys_after s0 ops in
  let rd := inbound_stats gn gitv vn vitv (ledger s0 ops) t in
  forall b ord tag v,
  snd (sys_step s (OEntry t true b ord)) = OBlocked BlockTypeSystemFlow tag v ->
  exists r, In r (sys_rules (st_rules s)) /\ sys_valid r = true /\ s_tag r = tag /\
            violated rd (st_load s) (st_cpu s) r = true /\ v = metric_value rd (st_load s) (st_cpu s) r.
Proof. exact reported_rule_violated. Qed.

(* with no violated rule (in particular with no rule) every inbound request passes this stage,
   for every iteration order, and is recorded as admitted *)
Theorem C07_no_rule_pass : forall gn gitv vn vitv t0,
  0 < gn -> gitv mod gn = 0 -> 0 < gitv < two32 -> 0 <= vn -> 0 <= vitv ->
  check_reuse vn vitv gn gitv = true -> 0 < t0 ->
  forall ops t, hist_mono t0 ops -> Z.of_nat (length ops) < two31 -> hist_last t0 ops <= t < two62' ->
  let s0 := sys_state0 gn gitv vn vitv t0 in
  let s := sys_after s0 ops in
  let rd := inbound_stats gn gitv vn vitv (ledger s0 ops) t in
  forall b ord,
  (forall r, In r (sys_rules (st_rules s)) -> violated rd (st_load s) (st_cpu s) r = false) ->
  snd (sys_step s (OEntry t true b ord)) = OPassed /\ step_events s (OEntry t true b ord) = [NPass t b].
Proof. exact no_rule_pass. Qed.

(* the in-flight count of the reference statistics (admitted minus completed in the ledger) is the
   number of inbound entries admitted and not yet exited *)
Theorem C07_inflight_is_live : forall gn gitv vn vitv t0,
  0 < gn -> gitv mod gn = 0 -> 0 < gitv < two32 -> 0 <= vn -> 0 <= vitv ->
  check_reuse vn vitv gn gitv = true -> 0 < t0 ->
  forall ops t, hist_mono t0 ops -> Z.of_nat (length ops) < two31 -> hist_last t0 ops <= t < two62' ->
  let s0 := sys_state0 gn gitv vn vitv t0 in
  rd_conc (inbound_stats gn gitv vn vitv (ledger s0 ops) t) = live_inbound (sys_after s0 ops).
Proof. exact inflight_is_live. Qed.

(* "loaded" and "injected": the rule set in force is the valid non-nil part of the list given to
   the latest LoadRules call that reported a change (C13), load / cpu are the latest injected
   readings (-1 before any) *)
Theorem C07_loaded_rules_and_readings : forall gn gitv vn vitv t0 ops,
  let s := sys_after (sys_state0 gn gitv vn vitv t0) ops in
  sys_rules (st_rules s)
  = filter sys_valid (nonnil (sys_latest_from [] (combine (loads ops) (snd (sys_run sys_init (loads ops)))))) /\
  st_load s = last_load NotRetrieved ops /\ st_cpu s = last_cpu NotRetrieved ops.
Proof. exact loaded_are_valid_latest. Qed.

(* Go's map iteration (every key once, any order) satisfies the order condition of C07_inbound_iff *)
Theorem C07_any_permutation_covers : forall ord rules, Permutation.Permutation ord [0; 1; 2; 3; 4] ->
  Forall (fun r => sys_valid r = true /\ 0 <= s_metric r) rules -> covers ord rules.
Proof. exact perm_covers. Qed.

(* reading of "has reached its trigger": for QPS / in-flight / average-RT rules and non-NaN
   operands, violated is exactly trigger <= value *)
Theorem C07_reached : forall rd load cpu r,
  s_metric r = MtInboundQPS \/ s_metric r = MtConcurrency \/ s_metric r = MtAvgRT ->
  not_nan (metric_value rd load cpu r) -> not_nan (s_trigger r) ->
  violated rd load cpu r = (s_trigger r <=? metric_value rd load cpu r)%float.
Proof. exact violated_reached. Qed.

(* GetMaxOfSingleBucket (the "peak completion rate" input of BBR) equals the largest per-bucket
   reference sum of the window: the one getter C08 did not state separately *)
Theorem C07_max_single_bucket_eq_ref : forall n itv t0 h now vn vitv ev,
  0 < n -> itv mod n = 0 -> 0 < itv < two32 -> 0 < t0 -> smono t0 h -> 0 <= vn -> 0 <= vitv ->
  check_reuse vn vitv n itv = true -> slast t0 h <= now < two62' -> ev_ok ev ->
  view_max_single (bla_run (bla_new n itv t0) h) {| v_n := vn; v_itv := vitv |} now ev
  = win_max_bucket ev h (bstart (itv / n) now + itv / n - vitv) (itv / n) (Z.to_nat (vitv / (itv / n))).
Proof. exact view_max_single_ref. Qed.

(* ---------------------------------------------------------------------------------------------- *)
(* non-vacuity: default geometry (20 x 10000 ms array, 2 x 1000 ms view), node created at 10^6 ms *)

Definition ex_rules : list (option srule) :=
  [ Some {| s_tag := 1; s_metric := MtInboundQPS; s_trigger := 2%float; s_strategy := NoAdaptive |};
    Some {| s_tag := 2; s_metric := MtLoad; s_trigger := 1%float; s_strategy := BBR |};
    None;
    Some {| s_tag := 3; s_metric := MtCpuUsage; s_trigger := 2%float; s_strategy := NoAdaptive |} (* invalid: cpu > 1 *) ].

(* a QPS block: two requests admitted within the second, the third reaches the trigger 2 *)
Definition ex_ops1 : list sop :=
  [ OLoad (Some ex_rules); OSetLoad (0.5)%float;
    OEntry 1000000 true 1 [3; 0]; OEntry 1000001 false 7 [0; 3]; OEntry 1000010 true 1 [0; 3] ].

Example C07_inbound_iff_nonvacuous :
  let s0 := sys_state0 20 10000 2 1000 1000000 in
  let s := sys_after s0 ex_ops1 in
  let rd := inbound_stats 20 10000 2 1000 (ledger s0 ex_ops1) 1000020 in
  hist_mono 1000000 ex_ops1 /\ hist_last 1000000 ex_ops1 = 1000010 /\ check_reuse 2 1000 20 10000 = true /\
  ledger s0 ex_ops1 = [NPass 1000000 1; NPass 1000010 1] /\
  map s_tag (sys_rules (st_rules s)) = [1; 2] /\
  snd (sys_step s (OEntry 1000020 true 1 [0; 3])) = OBlocked BlockTypeSystemFlow 1 2%float /\
  rd_qps rd = 2%float /\ rd_conc rd = 2 /\
  existsb (violated rd (st_load s) (st_cpu s)) (sys_rules (st_rules s)) = true /\
  (* one second later the window is empty again and the request passes *)
  snd (sys_step s (OEntry 1001020 true 1 [0; 3])) = OPassed /\
  existsb (violated (inbound_stats 20 10000 2 1000 (ledger s0 ex_ops1) 1001020) (st_load s) (st_cpu s))
          (sys_rules (st_rules s)) = false.
Proof. vm_compute. repeat split; intros; try discriminate; reflexivity. Qed.

(* BBR: load 3 > trigger 1.  While at most one request is in flight the high load alone does not
   block; with two in flight and one completion (100 ms) in the window the peak completion rate is
   2/s (1 per 500 ms bucket), capacity 2 * 100 / 1000 = 0.2 < 2: blocked by the load rule *)
Definition ex_rules2 : list (option srule) :=
  [ Some {| s_tag := 1; s_metric := MtInboundQPS; s_trigger := 100%float; s_strategy := NoAdaptive |};
    Some {| s_tag := 2; s_metric := MtLoad; s_trigger := 1%float; s_strategy := BBR |} ].
Definition ex_ops2 : list sop :=
  [ OLoad (Some ex_rules2); OSetLoad 3%float;
    OEntry 1000000 true 1 [0; 3]; OEntry 1000050 true 1 [0; 3]; OExit 1000150 1 false;
    OEntry 1000200 true 1 [3; 0] ].

Example C07_bbr_nonvacuous :
  let s0 := sys_state0 20 10000 2 1000 1000000 in
  let s := sys_after s0 ex_ops2 in
  let rd := inbound_stats 20 10000 2 1000 (ledger s0 ex_ops2) 1000300 in
  hist_mono 1000000 ex_ops2 /\
  ledger s0 ex_ops2 = [NPass 1000000 1; NPass 1000050 1; NComplete 1000150 1 100 false; NPass 1000200 1] /\
  rd_conc rd = 2 /\ live_inbound s = 2 /\ rd_min_rt rd = 100%float /\ rd_max_complete rd = 2%float /\
  rd_qps rd = 3%float /\ rd_avg_rt rd = 100%float /\ over_capacity rd = true /\
  snd (sys_step s (OEntry 1000300 true 1 [3; 0])) = OBlocked BlockTypeSystemFlow 2 3%float /\
  (* outbound traffic is never gated, even now *)
  snd (sys_step s (OEntry 1000300 false 1 [3; 0])) = OPassed.
Proof. vm_compute. repeat split; intros; try discriminate; reflexivity. Qed.

Example C07_covers_nonvacuous :
  covers [3; 0] (sys_rules (st_rules (sys_after (sys_state0 20 10000 2 1000 1000000) ex_ops1))).
Proof. intros r H. vm_compute in H. destruct H as [<-|[<-|[]]]; vm_compute; auto. Qed.

Print Assumptions C07_outbound_never.
Print Assumptions C07_inbound_iff.
Print Assumptions C07_reported_rule_violated.
Print Assumptions C07_no_rule_pass.
Print Assumptions C07_inflight_is_live.
Print Assumptions C07_loaded_rules_and_readings.
Print Assumptions C07_any_permutation_covers.
Print Assumptions C07_reached.
Print Assumptions C07_max_single_bucket_eq_ref.
