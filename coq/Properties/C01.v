(* C01 — Entry/Exit accounting is conserved and correctly attributed.
   Property theorems only; every proof is `exact <lemma>` from Proofs/.

   Model: Model/Chain.v (the same transcription of api.Entry / SlotChain.Entry /
   EntryPassedOnPanic / SentinelEntry.Exit / TraceError / the context pool / stat.Slot as C16).
   The table `ents s` has one record per Entry call of the history; its g_ fields are ghost
   (written from the operations' own arguments, never read by the transitions): resource,
   traffic type, batch, args, whether the caller was handed the entry (g_passed), the last error /
   address set through calls on THAT entry, clock at Entry and at the effective Exit.
   `ledger k (ents s)` recomputes node k's counters from that table alone; `requests ops` is the
   list of (resource, inbound?, batch) of the Entry calls of the history.

   Domain (`domain chains ops`), as in the property: every chain is an accounting chain - exactly
   one stat.DefaultSlot, statistic slots do not panic, the resource node is prepared before any
   prepare slot that may panic (the complement is finding C01-F1, see `_refuted`) - while prepare
   and rule-check slots block, return nil or panic arbitrarily; exit handlers do not panic;
   resources have ids >= 0 (the inbound node is key -1).  The pool choice of every Entry is
   arbitrary. *)
From SG Require Import Base.Prelude Model.Chain Proofs.ChainProofs Proofs.ChainOpProofs Proofs.ChainC16Proofs
  Proofs.ChainC01Proofs.

(* every Entry call yields exactly one outcome and appends exactly one record, classified by what
   the caller was handed: the entry (live, counted as passed) or a block error (already exited,
   counted as blocked) *)
Theorem C01_outcome_unique : forall chains ops res inb batch flag args chid pk,
  domain chains ops ->
  let s := exec chains init ops in
  exists en, ents (fst (do_entry chains s res inb batch flag args chid pk)) = ents s ++ [en] /\
    req_of en = (res, inb, batch) /\
    ((exists c lg, snd (do_entry chains s res inb batch flag args chid pk) = REntered (Z.of_nat (length (ents s))) c lg /\
                   g_passed en = true /\ e_exited en = false) \/
     (exists c be lg, snd (do_entry chains s res inb batch flag args chid pk) = RBlocked c be lg /\
                   g_passed en = false /\ e_exited en = true)).
Proof. exact outcome_unique. Qed.

(* per node k (a resource, or -1 = the inbound total, which counts exactly the inbound calls):
   pass = sum of the batch counts of the admitted calls concerning k, block = the same over the
   blocked calls, and pass + block = the tokens requested by the history's Entry calls *)
Theorem C01_token_conservation : forall chains ops k,
  domain chains ops ->
  let s := exec chains init ops in
  n_pass (nodes s k) = wsum (w_pass k) (ents s) /\
  n_block (nodes s k) = wsum (w_block k) (ents s) /\
  n_pass (nodes s k) + n_block (nodes s k) = req_tokens k (requests ops).
Proof. exact token_conservation. Qed.

(* finding C01-F1: without "node prepared first" conservation fails on the resource - a prepare
   slot ordered before the node-prepare slot panics, the request is admitted, nothing is counted *)
Theorem C01_token_conservation_refuted :
  exists chains ops,
    (forall k, nreal (stats (chains k)) = 1%nat /\ forall flag, no_stat_panic (chains k) flag) /\ Forall ok_op ops /\
    let s := exec chains init ops in
    (exists e c lg, snd (do_entry chains init 0 false 1 0 [] 0 (-1)) = REntered e c lg) /\
    n_pass (nodes s 0) + n_block (nodes s 0) = 0 /\ req_tokens 0 (requests ops) = 1.
Proof. exact token_conservation_refuted. Qed.

(* complete / error / rt are sums over the admitted AND exited calls only, each contributing once,
   with its own batch, its own error (g_err: the last error set through calls on that entry, the
   one given to the effective Exit included, or the panic error) and its own response time;
   blocked calls contribute nothing (w_done, w_err, w_rt are 0 unless g_passed) *)
Theorem C01_completion_exact : forall chains ops k,
  domain chains ops ->
  let s := exec chains init ops in
  n_done (nodes s k) = wsum (w_done k) (ents s) /\
  n_err (nodes s k) = wsum (w_err k) (ents s) /\
  n_rt (nodes s k) = wsum (w_rt k) (ents s).
Proof. exact completion_exact. Qed.

(* Exit is idempotent, and any call on an exited entry leaves the WHOLE state unchanged (every
   counter, every other entry's context, the pool): no domain hypothesis needed *)
Theorem C01_exit_idempotent : forall chains s e en,
  get_ent s e = Some en ->
  (e_exited en = true ->
     forall err a, do_exit chains s e err = (s, RCalls []) /\ do_trace s e err = s /\ do_callee s e a = s) /\
  (forall err err', do_exit chains (fst (do_exit chains s e err)) e err' = (fst (do_exit chains s e err), RCalls [])).
Proof. exact exit_idempotent. Qed.

(* the gauge of every node = number of admitted, not yet exited calls concerning it; never
   negative; zero whenever nothing is in flight - including histories in which rule evaluation
   panicked and the request was passed *)
Theorem C01_gauge : forall chains ops k,
  domain chains ops ->
  let s := exec chains init ops in
  n_gauge (nodes s k) = wsum (w_gauge k) (ents s) /\ 0 <= n_gauge (nodes s k) /\
  (quiescent s -> n_gauge (nodes s k) = 0).
Proof. exact gauge_exact. Qed.

(* a live entry's context shows exactly that entry's own error / arguments / address, no two live
   entries share a context, and an operation that is not a call on entry i changes neither i's
   record nor what its context shows (any chains, any pool choices; no domain hypothesis) *)
Theorem C01_live_context_stable : forall chains ops i en,
  let s := exec chains init ops in
  nth_error (ents s) i = Some en -> e_exited en = false ->
  (view (ctxs s (e_ctx en)) = (g_err en, g_args en, g_addr en) /\ x_entry (ctxs s (e_ctx en)) = Z.of_nat i) /\
  (forall j en', nth_error (ents s) j = Some en' -> e_exited en' = false -> i <> j -> e_ctx en <> e_ctx en') /\
  forall o, target o <> Some (Z.of_nat i) ->
    let s' := fst (step chains s o) in
    nth_error (ents s') i = Some en /\ view (ctxs s' (e_ctx en)) = view (ctxs s (e_ctx en)).
Proof. exact live_context_stable. Qed.

(* many goroutines, PARTIAL: every interleaving at call granularity of per-goroutine call
   sequences is a history, so the ledger, conservation and the gauge statement hold for it.
   Missing: interleavings INSIDE one Entry / Exit call (the counters are sync/atomic adds and each
   call touches only its own entry's context, but that is not modelled; the harness compares
   quiescent totals of real many-goroutine runs instead) *)
Theorem C01_interleaving_partial : forall chains ths h k,
  (forall k, acct_chain (chains k)) -> Forall (Forall ok_op) ths -> interleaves ths h ->
  let s := exec chains init h in
  nodes s k = ledger k (ents s) /\
  n_pass (nodes s k) + n_block (nodes s k) = req_tokens k (requests h) /\
  0 <= n_gauge (nodes s k) /\ (quiescent s -> n_gauge (nodes s k) = 0).
Proof. exact interleaving_ledger. Qed.

(* ---- non-vacuity: an accounting chain whose rule-check slot passes / blocks / panics and whose
   second prepare slot panics (after the node is set), nested and out-of-order exits, late calls,
   context reuse while other entries are live *)
Definition ex_b : berr := {| b_type := 1; b_msg := 2; b_rule := 3; b_snap := 4 |}.
Definition ex_seq : list slot :=
  [ SS {| s_id := 1; s_ord := 5; s_real := false; s_behs := [SOk] |};
    SP {| p_id := 2; p_ord := 1; p_behs := [PNode] |};
    SP {| p_id := 3; p_ord := 9; p_behs := [POk; POk; POk; PPanic] |};
    SC {| c_id := 4; c_ord := 7; c_behs := [CPass; CBlock ex_b; CPanic; CPass] |};
    SS {| s_id := 5; s_ord := 1000; s_real := true; s_behs := [] |} ].
Definition ex_ops : list op :=
  [ OEntry 0 true 2 0 [7] 0 (-1);      (* e0 passes *)
    OEntry 0 true 3 1 [] 0 (-1);       (* e1 blocked *)
    OEntry 1 false 5 2 [8; 9] 0 1;     (* e2: the rule check panics: passed; reuses e1's context *)
    OEntry 0 true 1 3 [] 0 (-1);       (* e3: the second prepare slot panics: passed *)
    OTrace 0 11; OTick 4; OExit 0 0;   (* e0 exits carrying its traced error *)
    OExit 0 22; OTrace 0 33;           (* late calls on e0 *)
    OEntry 1 true 7 0 [1] 0 0;         (* e4 reuses e0's context while e2, e3 are live *)
    OSnap [0; 1; -1];
    OTick 3; OExit 2 0; OExit 4 44; OExit 3 0; OExit 2 55;
    OSnap [0; 1; -1] ].

Example C01_domain_nonvacuous : domain (fun _ => build ex_seq) ex_ops.
Proof.
  split.
  - intros _. split; [reflexivity|]. intros flag. split.
    + unfold no_stat_panic. vm_compute stats. repeat constructor; unfold s_panics, sbeh_of; cbn [s_real s_behs].
      * rewrite pick_single. discriminate.
      * discriminate.
    + exists [], {| p_id := 2; p_ord := 1; p_behs := [PNode] |}, [{| p_id := 3; p_ord := 9; p_behs := [POk; POk; POk; PPanic] |}].
      split; [reflexivity|]. split; [constructor|]. unfold pbeh_of. cbn [p_behs]. apply pick_single.
  - unfold ex_ops. repeat constructor; cbn; try lia; discriminate.
Qed.

Example C01_nonvacuous :
  snd (run (fun _ => build ex_seq) init ex_ops) =
    [ REntered 0 0 [LPrep 2; LPrep 3; LCheck 4; LPassed 1 0 2];
      RBlocked 1 ex_b [LPrep 2; LPrep 3; LCheck 4; LBlocked 1 0 3 ex_b];
      REntered 2 1 [LPrep 2; LPrep 3; LCheck 4; LPassed 1 1 5];
      REntered 3 2 [LPrep 2; LPrep 3; LPassed 1 0 1];
      RNone; RNone;
      RCalls [LDone 1 0 2 11 4]; RCalls []; RNone;
      REntered 4 0 [LPrep 2; LPrep 3; LCheck 4; LPassed 1 1 7];
      (* live entries: e2 and e3 carry the panic error and their own args, e4 is clean *)
      RSnap [(2, (-1, [8; 9], 0)); (3, (-1, [], 0)); (4, (0, [1], 0))]
            [(0, (3, 3, 2), (2, 4, 1)); (1, (12, 0, 0), (0, 0, 2)); (-1, (10, 3, 2), (2, 4, 2))] [ex_b];
      RNone;
      RCalls [LDone 1 1 5 (-1) 7]; RCalls [LDone 1 1 7 44 3]; RCalls [LDone 1 0 1 (-1) 7]; RCalls [];
      (* quiescent: every gauge 0; pass + block = requested tokens (6, 12, 13) *)
      RSnap [] [(0, (3, 3, 3), (3, 11, 0)); (1, (12, 0, 12), (12, 10, 0)); (-1, (10, 3, 10), (10, 14, 0))] [ex_b] ]
  /\ map (fun k => req_tokens k (requests ex_ops)) [0; 1; -1] = [6; 12; 13]
  /\ quiescent (exec (fun _ => build ex_seq) init ex_ops).
Proof.
  split; [vm_compute; reflexivity|]. split; [vm_compute; reflexivity|].
  assert (H : forallb e_exited (ents (exec (fun _ => build ex_seq) init ex_ops)) = true) by (vm_compute; reflexivity).
  rewrite forallb_forall in H. exact H.
Qed.

Print Assumptions C01_outcome_unique.
Print Assumptions C01_token_conservation.
Print Assumptions C01_token_conservation_refuted.
Print Assumptions C01_completion_exact.
Print Assumptions C01_exit_idempotent.
Print Assumptions C01_gauge.
Print Assumptions C01_live_context_stable.
Print Assumptions C01_interleaving_partial.
