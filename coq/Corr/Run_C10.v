(* Correspondence runner for C10: per case the harness emits the rule parameters, the
   arrival history (virtual ns, batch) and what was observed through the public API
   (pass + requested sleep / block); `mismatches` lists the cases the model disagrees on. *)
From Coq Require Import Floats.
From SG Require Export Base.Prelude Base.GoInt Base.GoFloat Model.Throttle Model.ThrottleConc.
#[local] Open Scope Z_scope.

Definition obs_eqb (a b : obs) : bool :=
  match a, b with
  | Pass x, Pass y => x =? y
  | Block, Block => true
  | _, _ => false
  end.

Fixpoint list_eqb {A} (eq : A -> A -> bool) (a b : list A) : bool :=
  match a, b with
  | [], [] => true
  | x :: xs, y :: ys => eq x y && list_eqb eq xs ys
  | _, _ => false
  end.

Inductive case :=
| Seq (id : Z) (T : float) (timeout_ms stat_ms : Z) (ops : list (Z * Z)) (observed : list obs)
      (intervals : list (Z * Z))
   (* sequential history through flow.LoadRules + sentinel.Entry under the virtual clock;
      intervals = (batch, interval in ns) pairs as the monitor computed them in Go float64 *)
| Conc (id : Z) (T : float) (timeout_ms stat_ms : Z) (batches : list Z) (sched : list ev)
       (observed_labels : list Z) (observed : list obs).
   (* k goroutines stepped through the yield points (201 = Load, 202 = CAS) of DoCheck: the schedule as
      executed, the label each step parked at, and every caller's outcome *)

Definition oobs_eqb (a : option out) (b : obs) : bool :=
  match a with Some o => obs_eqb (obs_of o) b | None => false end.

Fixpoint list_eqb2 {A B} (eq : A -> B -> bool) (a : list A) (b : list B) : bool :=
  match a, b with
  | [], [] => true
  | x :: xs, y :: ys => eq x y && list_eqb2 eq xs ys
  | _, _ => false
  end.

Definition case_ok (c : case) : bool :=
  match c with
  | Seq _ T tmo st ops observed ivs =>
      let cf := mk_cfg T tmo st in
      list_eqb obs_eqb (map obs_of (snd (run_c cf last0 ops))) observed
      && forallb (fun p => interval cf (fst p) =? snd p) ivs
  | Conc _ T tmo st bs sched labs observed =>
      let cf := mk_cfg T tmo st in
      list_eqb Z.eqb (labels_c cf sched (cinit bs)) labs
      && list_eqb2 oobs_eqb (outcomes (cexec_c cf sched (cinit bs))) observed
  end.

Definition case_id (c : case) : Z := match c with Seq id _ _ _ _ _ _ => id | Conc id _ _ _ _ _ _ _ => id end.

Definition mismatches (cs : list case) : list Z :=
  map case_id (filter (fun c => negb (case_ok c)) cs).
