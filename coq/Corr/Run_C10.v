(* Correspondence runner for C10: per case the harness emits the rule parameters, the
   arrival history (virtual ns, batch) and what was observed through the public API
   (pass + requested sleep / block); `mismatches` lists the cases the model disagrees on. *)
From Coq Require Import Floats.
From SG Require Export Base.Prelude Base.GoInt Base.GoFloat Model.Throttle.
#[local] Open Scope Z_scope.

Definition obs_eqb (a b : obs) : bool :=
  match a, b with
  | Pass x, Pass y => x =? y
  | Block, Block => true
  | _, _ => false
  end.

Fixpoint list_eqb {A} (eq : A -> A -> bool) (a b : list A) : bool :=
  match a, b with
  | [], [] => true
  | x :: xs, y :: ys => eq x y && list_eqb eq xs ys
  | _, _ => false
  end.

Inductive case :=
| Seq (id : Z) (T : float) (timeout_ms stat_ms : Z) (ops : list (Z * Z)) (observed : list obs)
      (intervals : list (Z * Z)).
   (* sequential history through flow.LoadRules + sentinel.Entry under the virtual clock;
      intervals = (batch, interval in ns) pairs as the monitor computed them in Go float64 *)

Definition case_ok (c : case) : bool :=
  match c with
  | Seq _ T tmo st ops observed ivs =>
      let cf := mk_cfg T tmo st in
      list_eqb obs_eqb (map obs_of (snd (run_c cf last0 ops))) observed
      && forallb (fun p => interval cf (fst p) =? snd p) ivs
  end.

Definition case_id (c : case) : Z := match c with Seq id _ _ _ _ _ _ => id end.

Definition mismatches (cs : list case) : list Z :=
  map case_id (filter (fun c => negb (case_ok c)) cs).
