(* Correspondence runner for C12: the harness (harness/cmd/vh-c12) loads one circuit-breaking rule
   for a fresh resource (circuitbreaker.LoadRulesOfResource), spawns the goroutines under the
   deterministic scheduler and executes a schedule of `Run tid` / `Tick dt` events. A request
   (`OTry blocked`) is sentinel.Entry on the resource (blocked: a rule-check slot ordered after
   the breaker slot rejects it, so the entry exits as blocked and the probe's exit hook runs); a
   completion (`OComplete rt err`) is SentinelEntry.Exit of an entry the goroutine holds (rt =
   its age) or OnRequestComplete on the breaker object. Per case the harness emits: the rule, the
   creation time, the goroutines' programs, the schedule, and the observations: after every Run
   the yield label the goroutine parks at (300 = between two operations, -1 = finished) and the
   breaker's state word; at the end of the schedule every goroutine's TryPass results and the
   complete listener call log (goroutine, transition, snapshot as exact bits), in call order. *)
From Coq Require Import Floats.
From SG Require Export Base.Prelude Base.GoInt Base.GoFloat Model.Breaker Model.BreakerConc.
#[local] Open Scope Z_scope.

Definition snap_eqb (a b : option snap) : bool :=
  match a, b with
  | None, None => true
  | Some (SF x), Some (SF y) => feqb x y
  | Some (SZ x), Some (SZ y) => x =? y
  | _, _ => false
  end.

Definition lcall_eqb (a b : lcall) : bool :=
  match a, b with
  | LCall i (TEv f t s), LCall j (TEv f' t' s') => (i =? j) && bst_eqb f f' && bst_eqb t t' && snap_eqb s s'
  end.

Fixpoint list_eqb {A} (eqb : A -> A -> bool) (a b : list A) : bool :=
  match a, b with
  | [], [] => true
  | x :: xs, y :: ys => eqb x y && list_eqb eqb xs ys
  | _, _ => false
  end.

Definition obs_eqb (a b : Z * bst) : bool := (fst a =? fst b) && bst_eqb (snd a) (snd b).

Inductive case :=
| Conc (id : Z) (c : cfg) (t0 : Z) (progs : list (list cop)) (sched : list sev)
       (observed : list (Z * bst)) (results : list (list bool)) (calls : list lcall).

Definition case_ok (k : case) : bool :=
  match k with
  | Conc _ c t0 progs sched observed results calls =>
      let cf0 := init_config c t0 progs in
      let cf := exec c sched cf0 in
      list_eqb obs_eqb (observe c sched cf0) observed &&
      list_eqb (list_eqb Bool.eqb) (map tres (ths cf)) results &&
      list_eqb lcall_eqb (llog (shd cf)) calls
  end.

Definition case_id (k : case) : Z := match k with Conc id _ _ _ _ _ _ _ => id end.

Definition mismatches (cs : list case) : list Z :=
  map case_id (filter (fun c => negb (case_ok c)) cs).
