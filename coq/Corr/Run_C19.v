(* Correspondence runner for C19: the dynamic driver sends real requests through the gin /
   echo / grpc adapters of the tree under test (succeeding / failing / panicking handler,
   blocked / admitted, fallback configured or not) and records what the handler, the
   fallback, the framework and the resource's statistic node observed.  Each case carries the
   IR term the translator regenerated for that entry point; `mismatches` returns the ids of
   the cases whose observation differs from the model's trace of that term. *)
From SG Require Export Base.Prelude Model.AdapterIR.
Local Open Scope nat_scope.

Record obs := mkObs {
  o_entry : nat;      (* pass + block recorded on the resource node = Entry calls *)
  o_handler : nat;    (* handler invocations counted by the handler itself *)
  o_fallback : nat;   (* fallback invocations counted by the fallback *)
  o_rejected : nat;   (* 429 response / block error handed back without the fallback *)
  o_exit : nat;       (* completions recorded on the resource node = effective Exits *)
  o_traced : nat;     (* completions with an error recorded = TraceError before Exit *)
  o_panic : bool      (* a panic left the framework call *)
}.

Inductive case := Dyn (id : Z) (sig : string) (p : prog) (en : env) (o : obs).

Definition model_obs (p : prog) (en : env) : obs :=
  let t := exec p en in
  mkObs (cnt EntryCall t) (cnt HandlerCall t) (cnt FallbackCall t) (cnt Rejected t)
        (cnt ExitCall t) (cnt Traced t) (mem PanicOut t).

Definition obs_eqb (a b : obs) : bool :=
  (o_entry a =? o_entry b) && (o_handler a =? o_handler b) && (o_fallback a =? o_fallback b) &&
  (o_rejected a =? o_rejected b) && (o_exit a =? o_exit b) && (o_traced a =? o_traced b) &&
  Bool.eqb (o_panic a) (o_panic b).

Definition case_ok (c : case) : bool :=
  match c with Dyn _ _ p en o => obs_eqb (model_obs p en) o end.

Definition case_id (c : case) : Z := match c with Dyn id _ _ _ _ => id end.

Definition mismatches (cs : list case) : list Z :=
  map case_id (filter (fun c => negb (case_ok c)) cs).
