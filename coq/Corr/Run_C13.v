(* Correspondence runner for C13 (and C14, which re-exports it): the harness emits, per case, the
   module, the operation list and, after every operation, what the Go implementation returned and
   what it now enforces/reports; `mismatches` returns the ids of the cases on which the model
   disagrees. *)
From Coq Require Export Floats.
From SG Require Export Base.Prelude Base.GoInt Base.GoFloat Model.Rules.
#[local] Open Scope Z_scope.

(* exact (bit-for-bit) comparison of rules *)
Definition frule_same (a b : frule) : bool :=
  (f_tag a =? f_tag b) && (f_res a =? f_res b) && (f_tcs a =? f_tcs b) && (f_cb a =? f_cb b)
  && feqb (f_thr a) (f_thr b) && (f_rel a =? f_rel b) && (f_ref a =? f_ref b)
  && (f_maxq a =? f_maxq b) && (f_wperiod a =? f_wperiod b) && (f_wcold a =? f_wcold b)
  && (f_interval a =? f_interval b)
  && (f_lowmem a =? f_lowmem b) && (f_highmem a =? f_highmem b)
  && (f_memlow a =? f_memlow b) && (f_memhigh a =? f_memhigh b).
Definition irule_same := iso_deep_eq.
Definition hrule_same := hot_deep_eq.
Definition brule_same (a b : brule) : bool :=
  (b_tag a =? b_tag b) && (b_res a =? b_res b) && (b_strategy a =? b_strategy b) && (b_retry a =? b_retry b)
  && (b_minreq a =? b_minreq b) && (b_interval a =? b_interval b) && (b_buckets a =? b_buckets b)
  && (b_maxrt a =? b_maxrt b) && feqb (b_thr a) (b_thr b) && (b_probe a =? b_probe b).
Definition srule_same (a b : srule) : bool :=
  (s_tag a =? s_tag b) && (s_metric a =? s_metric b) && feqb (s_trigger a) (s_trigger b) && (s_strategy a =? s_strategy b).
Definition orule_same (a b : orule) : bool :=
  (o_tag a =? o_tag b) && opt_eqb brule_same (o_cb a) (o_cb b) && Bool.eqb (o_active a) (o_active b)
  && feqb (o_maxpct a) (o_maxpct b) && (o_recms a =? o_recms b) && (o_recycle a =? o_recycle b) && (o_maxrec a =? o_maxrec b).

Definition res3 := (bool * bool * bool)%type.   (* changed, error, panicked *)
Definition res3_ok (x : result) (o : res3) : bool :=
  let '(c, e, p) := o in Bool.eqb (changed x) c && Bool.eqb (err x) e && Bool.eqb (panicked x) p.

Fixpoint insert_by {A} (key : A -> Z) (x : A) (l : list A) : list A :=
  match l with
  | [] => [x]
  | y :: r => if key x <=? key y then x :: l else y :: insert_by key x r
  end.
Definition sort_by {A} (key : A -> Z) (l : list A) : list A := fold_right (insert_by key) [] l.

Fixpoint all2 {A B} (f : A -> B -> bool) (a : list A) (b : list B) : bool :=
  match a, b with
  | [], [] => true
  | x :: xs, y :: ys => f x y && all2 f xs ys
  | _, _ => false
  end.

Section G.
  Variable rule : Type.
  Variable valid : rule -> bool.
  Variable resource : rule -> Z.
  Variable equal stat_reusable : rule -> rule -> bool.
  Variable supported : rule -> bool.
  Variable deep_eq : rule -> rule -> bool.
  Variable q : quirks.
  Variable same : rule -> rule -> bool.
  Variable tag : rule -> Z.
  Variable own_stat : rule -> bool.   (* the controller's statistics object is observable *)
  Variable has_ids : bool.            (* the module has controller objects *)

  (* per resource: GetRulesOfResource, and the controllers in force (rule, identity, statistics) *)
  Definition snapT := (Z * list rule * list (rule * cid * option cid))%type.
  (* per operation: result, snapshots of the resource universe, GetRules sorted by tag *)
  Definition obsT := (res3 * list snapT * list rule)%type.

  Definition ctrl_ok (c : ctrl rule) (o : rule * cid * option cid) : bool :=
    let '(r, id, st) := o in
    same (c_rule c) r
    && (negb has_ids
        || (cid_eqb (c_id c) id
            && match st with
               | Some x => own_stat (c_rule c) && cid_eqb (c_stat c) x
               | None => negb (own_stat (c_rule c))
               end)).

  Definition snap_ok (s : state rule) (sn : snapT) : bool :=
    let '(res, g, e) := sn in
    list_eqb same (get_res rule q s res) g && all2 ctrl_ok (ctrls_of rule s res) e.

  (* probe traffic after the last operation: one request per resource, built so that a rule either
     rejects it whatever the (empty) history or can not reject it; the request must be rejected iff
     some enforced rule rejects it, by the first such rule in checking order *)
  Variable blocks : rule -> bool.
  Definition probe_ok (s : state rule) (p : Z * option Z) : bool :=
    let '(res, who) := p in
    opt_eqb Z.eqb (option_map tag (find blocks (enforced_rules rule s res))) who.

  Fixpoint check_run (s : state rule) (ops : list (op rule)) (obs : list obsT) : bool :=
    match ops, obs with
    | [], [] => true
    | o :: os, (r3, snaps, all) :: bs =>
        let '(s1, x) := step rule valid resource equal stat_reusable supported deep_eq q s o in
        res3_ok x r3 && forallb (snap_ok s1) snaps
        && list_eqb same (sort_by tag (get_all rule q s1)) all
        && check_run s1 os bs
    | _, _ => false
    end.

  Definition check_case (ops : list (op rule)) (obs : list obsT) (probes : list (Z * option Z)) : bool :=
    check_run (init rule) ops obs
    && forallb (probe_ok (fst (run rule valid resource equal stat_reusable supported deep_eq q (init rule) ops))) probes.
End G.

(* which rules reject the probe request of their module (harness/internal/rulesh: Blocks) *)
Definition flow_blocks (r : frule) : bool :=
  (* direct calculator; throttling rejects a threshold <= 0; reject rejects iff count+1 > threshold, the
     count being 3 for an associated-resource rule on the probe's referenced resource (id 9: three
     requests were just admitted there) and 0 otherwise *)
  if f_tcs r =? 1 then (f_thr r =? 0)%float   (* warm-up without tokens *)
  else
  (f_tcs r =? 0)
  && (if f_cb r =? 1 then (f_thr r <=? 0)%float
      else if f_cb r =? 0 then
        (if (f_rel r =? 1) && (f_ref r =? 9) then (f_thr r <? 4)%float else (f_thr r <? 1)%float)
      else false).
Definition iso_blocks (r : irule) : bool := i_thr r <? 5.          (* the probe is a batch of 5 *)
(* the probe carries two arguments and the attachment key: the rule finds its parameter iff it has a
   param key or a param index in -2..1 *)
Definition hot_blocks (r : hrule) : bool :=
  (h_thr r =? 0) && (negb (h_pkey r =? 0) || ((-2 <=? h_pidx r) && (h_pidx r <=? 1))).
(* the breaker opens on the completion of one failed request with response time 0 *)
Definition brk_blocks (r : brule) : bool :=
  (b_minreq r <=? 1)
  && (if b_strategy r =? 2 then (b_thr r <? 2)%float
      else if b_strategy r =? 1 then true
      else if b_strategy r =? 0 then float64_equals (b_thr r) 0%float
      else false).
(* system: with no inbound traffic in any window, a rule on average RT / concurrency / inbound QPS
   rejects iff 0 is not below its trigger count; load and CPU usage read -1 (collectors off) *)
Definition sys_blocks (r : srule) : bool :=
  ((s_metric r =? 1) || (s_metric r =? 2) || (s_metric r =? 3)) && negb (0 <? s_trigger r)%float.
Definition sys_probe_ok (s : sys_state) (p : option (option Z)) : bool :=
  match p with
  | None => true                                                    (* no probe *)
  | Some None => negb (existsb sys_blocks (sys_rules s))            (* admitted *)
  | Some (Some t) => existsb (fun r => sys_blocks r && (s_tag r =? t)) (sys_rules s)   (* rejected by rule t (map order) *)
  end.

(* enum values and geometry the model hard-codes, as exported by the Go packages *)
Definition model_consts : list Z :=
  [0; 1; 2;      (* flow.Direct, WarmUp, MemoryAdaptive *)
   0; 1;         (* flow.Reject, Throttling *)
   0; 1;         (* flow.CurrentResource, AssociatedResource *)
   0;            (* isolation.Concurrency *)
   0; 1;         (* hotspot.Concurrency, QPS *)
   0; 1;         (* hotspot.Reject, Throttling *)
   0; 1; 2;      (* circuitbreaker.SlowRequestRatio, ErrorRatio, ErrorCount *)
   0; 1; 2; 3; 4; 5  (* system.Load, AvgRT, Concurrency, InboundQPS, CpuUsage, MetricTypeSize *)].

Definition sys_obsT := (res3 * list (Z * list srule))%type.   (* per metric type: ruleMap[mt] *)
Fixpoint sys_check (s : sys_state) (ops : list (option (list (option srule)))) (obs : list sys_obsT) : bool :=
  match ops, obs with
  | [], [] => true
  | o :: os, (r3, per) :: bs =>
      let '(s1, x) := sys_load s o in
      res3_ok x r3
      && forallb (fun kv => list_eqb srule_same (sys_of_metric s1 (fst kv)) (snd kv)) per
      && (length (sys_rules s1) =? length (flat_map snd per))%nat
      && sys_check s1 os bs
  | _, _ => false
  end.

Definition out_obsT := (res3 * list (Z * option orule))%type.  (* per resource: the rule in force *)
Fixpoint out_check (s : out_state) (ops : list out_op) (obs : list out_obsT) : bool :=
  match ops, obs with
  | [], [] => true
  | o :: os, (r3, per) :: bs =>
      let '(s1, x) := out_step s o in
      res3_ok x r3
      && forallb (fun kv => opt_eqb orule_same (alookup (fst kv) (out_rules s1)) (snd kv)) per
      && out_check s1 os bs
  | _, _ => false
  end.

Definition probesT := list (Z * option Z).   (* resource, tag of the rule that rejected the probe *)

Inductive case :=
| CFlow (id : Z) (total_mem g_interval g_samples m_interval : Z) (ops : list (op frule)) (obs : list (obsT frule)) (probes : probesT)
| CIso (id : Z) (ops : list (op irule)) (obs : list (obsT irule)) (probes : probesT)
| CHot (id : Z) (ops : list (op hrule)) (obs : list (obsT hrule)) (probes : probesT)
| CBrk (id : Z) (ops : list (op brule)) (obs : list (obsT brule)) (probes : probesT)
| CSys (id : Z) (ops : list (option (list (option srule)))) (obs : list sys_obsT) (probe : option (option Z))
| COut (id : Z) (ops : list out_op) (obs : list out_obsT)
| CConsts (id : Z) (vals : list Z).

Definition case_ok (c : case) : bool :=
  match c with
  | CFlow _ tm gi gs mi ops obs probes =>
      check_case frule (flow_valid tm) f_res flow_equal flow_stat_reusable flow_supported flow_deep_eq flow_quirks
                 frule_same f_tag (flow_own_stat gi gs mi) true flow_blocks ops obs probes
  | CIso _ ops obs probes =>
      check_case irule iso_valid i_res iso_never iso_never iso_always iso_deep_eq iso_quirks
                 irule_same i_tag (fun _ => false) false iso_blocks ops obs probes
  | CHot _ ops obs probes =>
      check_case hrule hot_valid h_res hot_equal hot_stat_reusable hot_supported hot_deep_eq hot_quirks
                 hrule_same h_tag (fun _ => true) true hot_blocks ops obs probes
  | CBrk _ ops obs probes =>
      check_case brule brk_valid b_res brk_equal brk_stat_reusable brk_supported brk_deep_eq brk_quirks
                 brule_same b_tag (fun _ => true) true brk_blocks ops obs probes
  | CSys _ ops obs probe => sys_check sys_init ops obs && sys_probe_ok (fst (sys_run sys_init ops)) probe
  | COut _ ops obs => out_check out_init ops obs
  | CConsts _ vals => list_eqb Z.eqb vals model_consts
  end.

Definition case_id (c : case) : Z :=
  match c with
  | CFlow id _ _ _ _ _ _ _ => id | CIso id _ _ _ => id | CHot id _ _ _ => id | CBrk id _ _ _ => id
  | CSys id _ _ _ => id | COut id _ _ => id | CConsts id _ => id
  end.

Definition mismatches (cs : list case) : list Z :=
  map case_id (filter (fun c => negb (case_ok c)) cs).
