(* Correspondence runner for C02.  The harness emits, per case, the configuration constants the
   Go packages report, the loaded rules, the operations (sequential histories through the public
   API, or forced interleavings of the check / statistic phases at yield point 400) and what the
   implementation did: the outcome of every request (pass, or block with the index of the
   triggered rule and the reported window sum), the controllers in force, the final contents of
   every independent array and the final pass / block window sums of every resource node. *)
From Coq Require Import Floats.
From SG Require Export Base.Prelude Base.GoInt Base.GoFloat Model.LeapArray Model.StatNode Model.Flow.
#[local] Open Scope Z_scope.

Definition obs_eqb (a b : obs) : bool :=
  match a, b with
  | OPass, OPass => true
  | OBlock i s, OBlock j t => (i =? j) && (s =? t)
  | ONone, ONone => true
  | _, _ => false
  end.
Fixpoint obss_eqb (a b : list obs) : bool :=
  match a, b with
  | [], [] => true
  | x :: xs, y :: ys => obs_eqb x y && obss_eqb xs ys
  | _, _ => false
  end.

Fixpoint listZ_eqb (a b : list Z) : bool :=
  match a, b with [], [] => true | x :: xs, y :: ys => (x =? y) && listZ_eqb xs ys | _, _ => false end.
Fixpoint rows_eqb (a b : list (list Z)) : bool :=
  match a, b with [], [] => true | x :: xs, y :: ys => listZ_eqb x y && rows_eqb xs ys | _, _ => false end.

Definition slot_row (s : Z * mb) : list Z :=
  [fst s; c_pass (snd s); c_block (snd s); c_complete (snd s); c_error (snd s); c_rt (snd s); m_minrt (snd s); m_maxc (snd s)].

(* a controller in force, as the implementation reports it: index of its rule in the loaded list
   of the resource, and for an independent statistic its sample count, interval and slots *)
Inductive cobs :=
| CShared (idx : Z)
| COwn (idx n itv : Z) (slots : list (list Z)).

Definition cobs_of (x : ctrl) : cobs :=
  match c_stat x with
  | RView _ _ => CShared (c_idx x)
  | RAlone a _ => COwn (c_idx x) (la_n a) (la_itv a) (map slot_row (la_slots a))
  end.
Definition cobs_eqb (a b : cobs) : bool :=
  match a, b with
  | CShared i, CShared j => i =? j
  | COwn i n itv s, COwn j n' itv' s' => (i =? j) && (n =? n') && (itv =? itv') && rows_eqb s s'
  | _, _ => false
  end.
Fixpoint cobss_eqb (a b : list cobs) : bool :=
  match a, b with
  | [], [] => true
  | x :: xs, y :: ys => cobs_eqb x y && cobss_eqb xs ys
  | _, _ => false
  end.

(* final state: per resource (res, controllers, node present?, GetSum(pass), GetSum(block), concurrency) at tf *)
Record fin := { f_res : Z; f_ctrls : list cobs; f_node : bool; f_pass : Z; f_block : Z; f_conc : Z }.

Definition fin_ok (w : world) (tf : Z) (f : fin) : bool :=
  cobss_eqb (map cobs_of (ctrls_of w (f_res f))) (f_ctrls f) &&
  match alookup (f_res f) (w_nodes w) with
  | Some nd => f_node f && (node_sum nd tf EvPass =? f_pass f) && (node_sum nd tf EvBlock =? f_block f)
               && (nd_conc nd =? f_conc f)
  | None => negb (f_node f)
  end.

Inductive case :=
| Seq (id : Z) (c : cfg) (t0 : Z) (rules : list (Z * list rule)) (ops : list op) (observed : list obs)
      (tf : Z) (final : list fin)
| Conc (id : Z) (c : cfg) (t0 : Z) (rules : list (Z * list rule)) (evs : list ev) (observed : list obs)
      (tf : Z) (final : list fin).

Definition case_ok (x : case) : bool :=
  match x with
  | Seq _ c t0 rules ops observed tf final =>
      let '(w, os) := run (load c t0 rules) ops in
      obss_eqb os observed && forallb (fin_ok w tf) final
  | Conc _ c t0 rules evs observed tf final =>
      let '(w, os) := erun (load c t0 rules) evs in
      obss_eqb os observed && forallb (fin_ok w tf) final
  end.

Definition case_id (x : case) : Z :=
  match x with Seq id _ _ _ _ _ _ _ => id | Conc id _ _ _ _ _ _ _ => id end.

Definition mismatches (cs : list case) : list Z := map case_id (filter (fun x => negb (case_ok x)) cs).
