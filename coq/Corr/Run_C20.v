(* Correspondence runner for C20: per case the harness emits the outlier rule, the operation
   list as executed on the Go implementation (with the context object the pool handed out and
   an iteration order consistent with what was observed) and, after every operation, the
   projected observables: the reported filter / half-open node lists (compared as sets), the
   state of every node breaker, the recycler's status map and the retryer's counts map (sorted
   by address). `mismatches` returns the ids of the cases on which the model disagrees. *)
From Coq Require Import Floats.
From SG Require Export Base.Prelude Base.GoInt Base.GoFloat Model.Outlier.
#[local] Open Scope Z_scope.

Definition mem (x : Z) (l : list Z) : bool := existsb (Z.eqb x) l.

Definition set_eqb (a b : list Z) : bool :=
  ((length a =? length b)%nat && forallb (fun x => mem x b) a && forallb (fun x => mem x a) b)%bool.

Definition out_eqb (a b : out) : bool :=
  match a, b with
  | OLists f h, OLists f' h' => (set_eqb f f' && set_eqb h h')%bool
  | ONone, ONone => true
  | _, _ => false
  end.

(* model map (unique keys) against the observed sorted map *)
Definition amap_eqb {A B} (eqv : A -> B -> bool) (m : list (Z * A)) (o : list (Z * B)) : bool :=
  ((length m =? length o)%nat &&
   forallb (fun kv => match alookup (fst kv) m with Some v => eqv v (snd kv) | None => false end) o)%bool.

Record obsv := mkO {
  o_out    : out;
  o_nodes  : list (Z * Z);       (* address -> circuitbreaker.State *)
  o_status : list (Z * bool);    (* Recycler.status *)
  o_counts : list (Z * Z)        (* Retryer.counts *)
}.

Definition obs_ok (s : state) (x : out) (v : obsv) : bool :=
  (out_eqb x (o_out v)
   && amap_eqb (fun b c => bstate_code (st b) =? c) (nodes s) (o_nodes v)
   && amap_eqb Bool.eqb (rstatus s) (o_status v)
   && amap_eqb Z.eqb (rcounts s) (o_counts v))%bool.

Fixpoint run_check (r : orule) (s : state) (ops : list op) (obs : list obsv) : bool :=
  match ops, obs with
  | [], [] => true
  | o :: ops', v :: obs' =>
      let '(s1, x) := step r s o in
      if obs_ok s1 x v then run_check r s1 ops' obs' else false
  | _, _ => false
  end.

Inductive case :=
| Hist (id : Z) (r : orule) (ops : list op) (obs : list obsv)
    (* one resource, one rule, a history of requests / timer events *)
| Lim (id : Z) (n : Z) (p : float) (go_limit : Z)
    (* int(float64(n) * p) as computed by Go *)
| Consts (id : Z) (closed half open : Z).
    (* circuitbreaker.Closed / HalfOpen / Open *)

Definition case_ok (c : case) : bool :=
  match c with
  | Hist _ r ops obs => run_check r init ops obs
  | Lim _ n p l => limit_of n p =? l
  | Consts _ c h o => ((bstate_code Closed =? c) && (bstate_code HalfOpen =? h) && (bstate_code Open =? o))%bool
  end.

Definition case_id (c : case) : Z :=
  match c with Hist id _ _ _ => id | Lim id _ _ _ => id | Consts id _ _ _ => id end.

Definition mismatches (cs : list case) : list Z :=
  map case_id (filter (fun c => negb (case_ok c)) cs).
