(* Correspondence runner for C04: the harness emits, per case, the rules, the operation
   list and the outcomes observed on the Go implementation; `mismatches` returns the ids of
   the cases on which the model disagrees. *)
From SG Require Export Base.Prelude Base.GoInt Model.Isolation Model.AdmitConc.

Definition obs_eqb (a b : obs) : bool :=
  match a, b with
  | OPass, OPass => true
  | OBlock i s, OBlock j t => (i =? j) && (s =? t)
  | ONone, ONone => true
  | _, _ => false
  end.

Fixpoint obs_list_eqb (a b : list obs) : bool :=
  match a, b with
  | [], [] => true
  | x :: xs, y :: ys => obs_eqb x y && obs_list_eqb xs ys
  | _, _ => false
  end.

Inductive case :=
| Seq (id : Z) (rules : list (Z * list Z)) (ops : list op) (observed : list obs) (final_gauges : list (Z * Z))
    (* sequential history through the public API *)
| Conc (id : Z) (limit : Z) (sched : list ev) (final_count : Z) (passed : list (Z * bool)).
    (* k goroutines parked between rule check and statistics (yield 400): the schedule of
       Check/Record events as executed, the final gauge, and each thread's outcome *)

Definition rules_fn (rs : list (Z * list Z)) (res : Z) : list Z :=
  match alookup res rs with Some l => l | None => [] end.

Definition gauges_ok (s : state) (g : list (Z * Z)) : bool :=
  forallb (fun kv => gauge_of s (fst kv) =? snd kv) g.

(* per-thread outcome in the concurrent model: passed iff it is (or was) pending *)
Fixpoint conc_outcomes (limit : Z) (sched : list ev) (s : cstate) : list (Z * bool) :=
  match sched with
  | [] => []
  | Check tid b :: r =>
      (tid, count s + b <=? limit) :: conc_outcomes limit r (cstep limit (fun b => if 1 <=? b then 1 else 0) s (Check tid b))
  | e :: r => conc_outcomes limit r (cstep limit (fun b => if 1 <=? b then 1 else 0) s e)
  end.

Definition pass_eqb (a b : list (Z * bool)) : bool :=
  (length a =? length b)%nat &&
  forallb (fun p => match alookup (fst p) b with Some v => Bool.eqb v (snd p) | None => false end) a.

Definition case_ok (c : case) : bool :=
  match c with
  | Seq _ rules ops observed fg =>
      let '(s, o) := run (rules_fn rules) init ops in
      obs_list_eqb o observed && gauges_ok s fg
  | Conc _ limit sched fc passed =>
      let s := cexec limit (fun b => if 1 <=? b then 1 else 0) sched cinit in
      (count s =? fc) && pass_eqb (conc_outcomes limit sched cinit) passed
  end.

Definition case_id (c : case) : Z := match c with Seq id _ _ _ _ => id | Conc id _ _ _ _ => id end.

Definition mismatches (cs : list case) : list Z :=
  map case_id (filter (fun c => negb (case_ok c)) cs).
