(* Correspondence runner for C06: same case format as C05 (Model/HotspotRun.v) - rules per
   resource, operations (entries with arguments, exits in any order, clock ticks), the outcome
   of every operation observed on the Go implementation (pass / block with rule index and the
   reported concurrency) and the final content of every controller's caches, in particular
   the per-value concurrency cells.  `mismatches` returns the ids of the cases on which the
   model disagrees (-1 = the constants case HK). *)
From SG Require Export Base.Prelude Base.GoInt Model.LRU Model.Hotspot Model.HotspotRun.

Definition mismatches (cs : list case) : list Z := mismatches_of cs.
