(* Correspondence runner for C09. The harness drives the real BucketLeapArray under the
   deterministic scheduler (yield ids 100-127) and emits, per case: geometry, creation time,
   the programs, the harness schedule as executed, the yield id each released goroutine
   parked at next (Done = -1), the values returned by every CountWithTime, and the final
   slot dump. `mismatches` replays the schedule on the model (exec of the expanded schedule)
   and compares all of these. *)
From SG Require Export Base.Prelude Base.GoInt Model.LeapArrayConc.

Record case := {
  c_id : Z;
  c_n : nat; c_bl : Z; c_interval : Z;         (* SampleCount, BucketLengthInMs, IntervalInMs of the Go object *)
  c_t0 : Z;
  c_progs : list (list op);
  c_sched : schedule;                           (* harness schedule: Run tid = release tid until its next yield *)
  c_labels : list Z;                            (* per Run event: the yield id the goroutine parked at *)
  c_rets : list (list Z);                       (* per goroutine: values returned by its reads *)
  c_final : list (list Z);                      (* per slot: start, 5 counters, minRt, maxConcurrency *)
  c_consts : list Z                             (* MetricEventTotal, MetricEventRt, DefaultStatisticMaxRt *)
}.

(* the model of the code in /repo (after fix 43206f8): reset() first, BucketStart published last *)
Definition geom_of (c : case) : geom := {| g_n := c_n c; g_bl := c_bl c; g_zero_first := true |}.

Fixpoint run_h (g : geom) (hs : schedule) (c : config) (acc : list Z) : config * list Z :=
  match hs with
  | [] => (c, rev acc)
  | Run tid :: r => let c' := exec g (macro_evs g c tid) c in run_h g r c' (label_of c' tid :: acc)
  | Tick dt :: r => run_h g r (step g c (Tick dt)) acc
  end.

Fixpoint listZ_eqb (a b : list Z) : bool :=
  match a, b with
  | [], [] => true
  | x :: xs, y :: ys => (x =? y) && listZ_eqb xs ys
  | _, _ => false
  end.

Fixpoint listlistZ_eqb (a b : list (list Z)) : bool :=
  match a, b with
  | [], [] => true
  | x :: xs, y :: ys => listZ_eqb x y && listlistZ_eqb xs ys
  | _, _ => false
  end.

Definition slot_row (s : slot) : list Z := s_start s :: s_cnt s ++ [s_minrt s; s_maxc s].

Definition op_ok (o : op) : bool :=
  match o with ORecord k _ => (k <? n_events)%nat | ORead k => (k <? n_events)%nat end.

Definition case_ok (c : case) : bool :=
  let g := geom_of c in
  let '(cf, labels) := run_h g (c_sched c) (init g (c_t0 c) (c_progs c)) [] in
  (c_interval c =? interval g) && (0 <? c_bl c) && (0 <? Z.of_nat (c_n c))
  && forallb (forallb op_ok) (c_progs c)
  && listZ_eqb (c_consts c) [Z.of_nat n_events; Z.of_nat ev_rt; max_rt]
  && listZ_eqb labels (c_labels c)
  && listlistZ_eqb (map t_rets (thr cf)) (c_rets c)
  && listlistZ_eqb (map slot_row (slots (sh cf))) (c_final c)
  && negb (lock (sh cf)).

Definition mismatches (cs : list case) : list Z :=
  map c_id (filter (fun c => negb (case_ok c)) cs).
