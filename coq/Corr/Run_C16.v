(* Correspondence runner for C16 (and, re-exported, C01): the harness emits per case the
   slot insertion sequences of its custom chains, the operation list (with the pool choice
   observed on the implementation) and one observation per operation; `mismatches` returns
   the ids of the cases on which the model's observations differ. *)
From SG Require Export Base.Prelude Model.Chain.

(* compact constructors used by the generated case files *)
Definition B (t m r s : Z) : berr := {| b_type := t; b_msg := m; b_rule := r; b_snap := s |}.
Definition mkP (id ord : Z) (bs : list pbeh) : slot := SP {| p_id := id; p_ord := ord; p_behs := bs |}.
Definition mkC (id ord : Z) (bs : list cbeh) : slot := SC {| c_id := id; c_ord := ord; c_behs := bs |}.
Definition mkS (id ord : Z) (real : bool) (bs : list sbeh) : slot :=
  SS {| s_id := id; s_ord := ord; s_real := real; s_behs := bs |}.

Definition berr_eqb (a b : berr) : bool :=
  (b_type a =? b_type b) && (b_msg a =? b_msg b) && (b_rule a =? b_rule b) && (b_snap a =? b_snap b).

Fixpoint list_eqb {A} (eqb : A -> A -> bool) (a b : list A) : bool :=
  match a, b with
  | [], [] => true
  | x :: xs, y :: ys => eqb x y && list_eqb eqb xs ys
  | _, _ => false
  end.

Definition call_eqb (a b : call) : bool :=
  match a, b with
  | LPrep i, LPrep j => i =? j
  | LCheck i, LCheck j => i =? j
  | LPassed i r n, LPassed j r' n' => (i =? j) && (r =? r') && (n =? n')
  | LBlocked i r n e, LBlocked j r' n' e' => (i =? j) && (r =? r') && (n =? n') && berr_eqb e e'
  | LDone i r n e t, LDone j r' n' e' t' => (i =? j) && (r =? r') && (n =? n') && (e =? e') && (t =? t')
  | LHandler i, LHandler j => i =? j
  | _, _ => false
  end.

Definition live_eqb (a b : Z * (Z * list Z * Z)) : bool :=
  let '(e, (er, ar, ad)) := a in
  let '(e', (er', ar', ad')) := b in
  (e =? e') && (er =? er') && list_eqb Z.eqb ar ar' && (ad =? ad').

Definition cntv_eqb (a b : Z * (Z * Z * Z) * (Z * Z * Z)) : bool :=
  let '(k, (p, bl, d), (er, rt, g)) := a in
  let '(k', (p', bl', d'), (er', rt', g')) := b in
  (k =? k') && (p =? p') && (bl =? bl') && (d =? d') && (er =? er') && (rt =? rt') && (g =? g').

Definition obs_eqb (a b : obs) : bool :=
  match a, b with
  | REntered e c lg, REntered e' c' lg' => (e =? e') && (c =? c') && list_eqb call_eqb lg lg'
  | RBlocked c be lg, RBlocked c' be' lg' => (c =? c') && berr_eqb be be' && list_eqb call_eqb lg lg'
  | RCalls lg, RCalls lg' => list_eqb call_eqb lg lg'
  | RNone, RNone => true
  | RSnap l c r, RSnap l' c' r' => list_eqb live_eqb l l' && list_eqb cntv_eqb c c' && list_eqb berr_eqb r r'
  | _, _ => false
  end.

Inductive case :=
| Case (id : Z) (chains : list (list slot)) (ops : list op) (observed : list obs).

Definition chains_fn (chs : list (list slot)) : Z -> chain :=
  let built := map build chs in
  fun k => nth (Z.to_nat k) built empty_chain.

Definition case_ok (c : case) : bool :=
  match c with
  | Case _ chs ops observed => list_eqb obs_eqb (snd (run (chains_fn chs) init ops)) observed
  end.

Definition case_id (c : case) : Z := match c with Case id _ _ _ => id end.

Definition mismatches (cs : list case) : list Z :=
  map case_id (filter (fun c => negb (case_ok c)) cs).

(* index of the first differing observation (debugging aid for replays) *)
Fixpoint first_diff (i : Z) (a b : list obs) : Z :=
  match a, b with
  | [], [] => -1
  | x :: xs, y :: ys => if obs_eqb x y then first_diff (i + 1) xs ys else i
  | _, _ => i
  end.
Definition case_diff (c : case) : Z * option obs :=
  match c with
  | Case _ chs ops observed =>
      let m := snd (run (chains_fn chs) init ops) in
      let i := first_diff 0 m observed in (i, nth_error m (Z.to_nat i))
  end.
