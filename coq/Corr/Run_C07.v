(* Correspondence runner for C07: the harness emits, per case, the statistic geometry, the
   creation clock of the inbound node, the operation list (LoadRules, injected load / cpu, Entry
   inbound / outbound, Exit, probes of the inbound node's getters) and what was observed on the
   Go implementation; `mismatches` returns the ids of the cases on which the model disagrees.

   Go's map iteration order is not observable: the model state is advanced with the order
   [0..4] (the state does not depend on it) and a reported (rule, snapshot) is accepted iff it is
   the first non-passing rule of SOME metric type's group (Model/System.v `blockers`). *)
From Coq Require Import Floats.
From SG Require Export Base.Prelude Base.GoInt Base.GoFloat Model.LeapArray Model.StatNode Model.Rules Model.System.
#[local] Open Scope Z_scope.

Definition mkR (tag mt : Z) (trigger : float) (strategy : Z) : option srule :=
  Some {| s_tag := tag; s_metric := mt; s_trigger := trigger; s_strategy := strategy |}.

Inductive case :=
| Case (id gn gitv vn vitv t0 : Z) (ops : list sop) (observed : list sobs)
| Consts (id : Z) (go_values : list Z).
  (* Load AvgRT Concurrency InboundQPS CpuUsage MetricTypeSize NoAdaptive BBR BlockTypeSystemFlow
     MetricEventPass MetricEventComplete MetricEventRt DefaultStatisticMaxRt Inbound(=0) *)

Definition model_consts : list Z :=
  [MtLoad; MtAvgRT; MtConcurrency; MtInboundQPS; MtCpuUsage; MetricTypeSize; NoAdaptive; BBR; BlockTypeSystemFlow;
   EvPass; EvComplete; EvRt; DefaultStatisticMaxRt; 0].

Fixpoint listZ_eqb (a b : list Z) : bool :=
  match a, b with [], [] => true | x :: xs, y :: ys => (x =? y) && listZ_eqb xs ys | _, _ => false end.

Definition obs_ok (s : sstate) (o : sop) (model observed : sobs) : bool :=
  match model, observed with
  | ONone, ONone => true
  | OChanged a, OChanged b => Bool.eqb a b
  | OPassed, OPassed => true
  | OBlocked _ _ _, OBlocked bt tag v =>
      (bt =? BlockTypeSystemFlow) &&
      match o with
      | OEntry t _ _ _ => existsb (fun rv => (s_tag (fst rv) =? tag) && feqb (snd rv) v) (blockers s t)
      | _ => false
      end
  | OReadings a b c d e, OReadings a' b' c' d' e' =>
      feqb a a' && (b =? b') && feqb c c' && feqb d d' && feqb e e'
  | _, _ => false
  end.

Fixpoint run_ok (s : sstate) (ops : list sop) (obs : list sobs) : bool :=
  match ops, obs with
  | [], [] => true
  | o :: r, x :: xs => let '(s1, m) := sys_step s o in obs_ok s o m x && run_ok s1 r xs
  | _, _ => false
  end.

Definition case_ok (c : case) : bool :=
  match c with
  | Case _ gn gitv vn vitv t0 ops observed => run_ok (sys_state0 gn gitv vn vitv t0) ops observed
  | Consts _ l => listZ_eqb l model_consts
  end.

Definition case_id (c : case) : Z := match c with Case id _ _ _ _ _ _ _ => id | Consts id _ => id end.

Definition mismatches (cs : list case) : list Z :=
  map case_id (filter (fun c => negb (case_ok c)) cs).
