(* Correspondence runner for C17: the harness runs the real writer/searcher on a directory and
   emits the write/query history, the digests of what the implementation returned / left on
   disk, and truncation sweeps; `mismatches` lists the cases where the model disagrees.
   Digests: (count, polynomial hash mod 2^64 over every compared field) - computed by the
   same definition on both sides; the time-string field is not part of the item digest. *)
From SG Require Export Base.Prelude Base.GoInt Model.MLBytes Model.MLDecimal Model.MetricLog.

(* ASCII strings of the case files (time strings, plain resource names) as byte lists *)
Definition bs (s : string) : bytes := map (fun a => Z.of_N (Ascii.N_of_ascii a)) (list_ascii_of_string s).

Definition hmask : Z := 18446744073709551615.   (* arithmetic mod 2^64 = Go uint64 *)
Definition hstep (h x : Z) : Z := Z.land (h * 131 + x + 1) hmask.
Definition hash_bytes (h : Z) (l : bytes) : Z := fold_left hstep l (hstep h (lenZ l)).

Definition hash_item (h : Z) (it : item) : Z :=
  hash_bytes
    (fold_left hstep [i_ts it; i_pass it; i_block it; i_complete it; i_err it; i_rt it; i_occ it;
                      i_conc it; i_cls it + 2147483648] h)
    (i_res it).

Definition digest_items (l : list item) : Z * Z := (lenZ l, fold_left hash_item l 7).

(* directory listing digest: names and sizes only (after every write) *)
Definition digest_listing (fs : list file) : Z * Z :=
  let s := sort_files fs in
  (lenZ s, fold_left (fun h f => fold_left hstep [f_day f; f_seq f; lenZ (f_data f); lenZ (f_idx f)] h) s 11).

(* full content digest of the final directory *)
Definition digest_files (fs : list file) : list (Z * Z * Z * Z * Z * Z) :=
  map (fun f => (f_day f, f_seq f, lenZ (f_data f), hash_bytes 3 (f_data f), lenZ (f_idx f), hash_bytes 5 (f_idx f)))
      (sort_files fs).

Definition pair_eqb (a b : Z * Z) : bool := (fst a =? fst b) && (snd a =? snd b).

Fixpoint pairs_eqb (a b : list (Z * Z)) : bool :=
  match a, b with
  | [], [] => true
  | x :: xs, y :: ys => pair_eqb x y && pairs_eqb xs ys
  | _, _ => false
  end.

Definition six_eqb (a b : Z * Z * Z * Z * Z * Z) : bool :=
  let '(a1, a2, a3, a4, a5, a6) := a in
  let '(b1, b2, b3, b4, b5, b6) := b in
  (a1 =? b1) && (a2 =? b2) && (a3 =? b3) && (a4 =? b4) && (a5 =? b5) && (a6 =? b6).

Fixpoint sixes_eqb (a b : list (Z * Z * Z * Z * Z * Z)) : bool :=
  match a, b with
  | [], [] => true
  | x :: xs, y :: ys => six_eqb x y && sixes_eqb xs ys
  | _, _ => false
  end.

(* observation per op: a write -> listing digest; a query -> digest of the returned items *)
Fixpoint observe (c : cfg) (y : sys) (ops : list op) : sys * list (Z * Z) :=
  match ops with
  | [] => (y, [])
  | o :: r =>
      let '(y1, out) := step c y o in
      let ob := match o with Write _ _ _ => digest_listing (w_fs (y_w y1)) | Find _ => digest_items out end in
      let '(y2, obs) := observe c y1 r in (y2, ob :: obs)
  end.

(* queries on one fresh searcher over a fixed directory *)
Fixpoint observe_queries (fs : list file) (st : sstate) (qs : list query) : list (Z * Z) :=
  match qs with
  | [] => []
  | q :: r => let '(st', out) := search fs st q in digest_items out :: observe_queries fs st' r
  end.

Record case := mkCase {
  k_id : Z;
  k_cfg : cfg;
  k_t0 : Z;                                   (* clock at writer creation, ms *)
  k_ops : list op;
  k_obs : list (Z * Z);                       (* observed, one per op *)
  k_files : list (Z * Z * Z * Z * Z * Z);     (* final directory: day, seq, |data|, h(data), |idx|, h(idx) *)
  k_cutqs : list query;                       (* queries issued after each truncation, fresh searcher *)
  k_cuts : list (bool * Z * Z * list (Z * Z)) (* (idx?, first cut offset, last cut offset, digests observed
                                                 for EVERY offset in that interval) on the last file *)
}.

Fixpoint cut_range_ok (fs : list file) (qs : list query) (which : bool) (n : nat) (c : Z) (obs : list (Z * Z)) : bool :=
  match n with
  | O => true
  | S n' => pairs_eqb (observe_queries (cut_last which c fs) s_init qs) obs && cut_range_ok fs qs which n' (c + 1) obs
  end.

Definition cut_ok (fs : list file) (qs : list query) (x : bool * Z * Z * list (Z * Z)) : bool :=
  let '(which, c1, c2, obs) := x in
  cut_range_ok fs qs which (Z.to_nat (c2 - c1 + 1)) c1 obs.

Definition case_ok (k : case) : bool :=
  let '(y, obs) := observe (k_cfg k) (sys_init (k_cfg k) (k_t0 k)) (k_ops k) in
  let fs := w_fs (y_w y) in
  pairs_eqb obs (k_obs k) && sixes_eqb (digest_files fs) (k_files k) &&
  forallb (cut_ok fs (k_cutqs k)) (k_cuts k).

(* model constant compared with the value read from the Go source by the harness *)
Definition consts_ok (max_items : Z) : bool := max_items =? max_item_amount.

Definition mismatches (cs : list case) : list Z :=
  map k_id (filter (fun k => negb (case_ok k)) cs).
