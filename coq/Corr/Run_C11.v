(* Correspondence runner for C11: memory-adaptive readings and warm-up histories observed on
   the Go implementation are compared with the PrimFloat models bit for bit; every finite
   observed threshold is also compared with the exact-rational twin (differential tie of the
   float model to the twin on which the real-number theorems are proved). *)
From Coq Require Import Floats.
From SG Require Export Base.Prelude Base.GoInt Base.GoFloat Model.Adaptive Model.WarmUp Model.Throttle Model.WarmUpThrottle.
#[local] Open Scope Z_scope.

Inductive case :=
| Mem (id : Z) (lowT highT lowW highW : Z) (readings : list (Z * float))
| WU (id : Z) (T : float) (period cf0 : Z) (ops : list (Z * Z)) (observed : list (float * bool * Z))
     (warning maxt : Z) (slope : float)
(* a warm-up rule with ControlBehavior = Throttling and the given queueing limit (ms); per request also
   the wait (ns) the flow slot was asked to sleep *)
| WUT (id : Z) (T : float) (period cf0 maxq_ms : Z) (ops : list (Z * Z)) (observed : list (float * bool * Z))
      (waits : list Z) (warning maxt : Z) (slope : float)
| Consts (id : Z) (bucket window cold_default not_retrieved_value : Z).

Definition obs_eqb (a b : float * bool * Z) : bool :=
  let '(x, p, s) := a in let '(y, q, t) := b in feqb x y && Bool.eqb p q && (s =? t).

Fixpoint list_eqb {A} (eq : A -> A -> bool) (a b : list A) : bool :=
  match a, b with
  | [] , [] => true
  | x :: xs, y :: ys => eq x y && list_eqb eq xs ys
  | _, _ => false
  end.

(* twin tie for warm-up: on a non-degenerate configuration with a positive finite threshold
   every observed allowed value is within 2^-40 (relative) of the exact curve at the observed
   stored tokens *)
Definition wu_twin_ok (T : float) (c : wcfg) (observed : list (float * bool * Z)) : bool :=
  match f_frac T with
  | Some (tn, td) =>
      if (0 <? tn) && (w_warning c <? w_max c) then
        forallb (fun o => let '(a, _, s) := o in
                          let tw := allowed_twin tn td (w_cf c) (w_warning c) (w_max c) s in close_to 40 a tw tw) observed
      else true
  | None => true
  end.

Definition case_ok (c : case) : bool :=
  match c with
  | Mem _ lt ht lw hw rs =>
      let m := {| lowT := lt; highT := ht; lowW := lw; highW := hw |} in
      forallb (fun r => feqb (mem_allowed m (fst r)) (snd r) && close_to 48 (snd r) (mem_twin m (fst r)) (lt, 1)) rs
  | WU _ T p cf0 ops observed w m sl =>
      let c := mk_wcfg T p cf0 in
      (w_warning c =? w) && (w_max c =? m) && feqb (w_slope c) sl &&
      list_eqb obs_eqb (wrun c winit ops) observed && wu_twin_ok T c observed
  | WUT _ T p cf0 mq ops observed waits w m sl =>
      let c := mk_wcfg T p cf0 in
      let r := wrun_thr c mq winit last0 ops in
      (w_warning c =? w) && (w_max c =? m) && feqb (w_slope c) sl &&
      list_eqb obs_eqb (map fst r) observed && list_eqb Z.eqb (map snd r) waits && wu_twin_ok T c observed
  | Consts _ b w cd nr =>
      (b =? bucket_ms) && (w =? window_ms) && (cd =? default_cold_factor) && (nr =? not_retrieved)
  end.

Definition case_id (c : case) : Z :=
  match c with Mem id _ _ _ _ _ => id | WU id _ _ _ _ _ _ _ _ => id | WUT id _ _ _ _ _ _ _ _ _ _ => id | Consts id _ _ _ _ => id end.

Definition mismatches (cs : list case) : list Z :=
  map case_id (filter (fun c => negb (case_ok c)) cs).
