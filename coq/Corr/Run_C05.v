(* Correspondence runner for C05: the harness emits, per case, the hotspot rules of each
   resource, the operation list (clock ticks, entries with arguments / attachments / batch
   counts, exits), the outcome of every operation observed on the Go implementation
   (pass / block with rule index and triggered value, requested sleeps in ns) and the final
   content of every controller's caches in recency order.  `mismatches` returns the ids of
   the cases on which the model disagrees (-1 = the constants case HK: a package constant differs from the model's). *)
From SG Require Export Base.Prelude Base.GoInt Model.LRU Model.Hotspot Model.HotspotRun.

Definition mismatches (cs : list case) : list Z := mismatches_of cs.
