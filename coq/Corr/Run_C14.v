(* Correspondence runner for C14: the cases are rule-load histories of the three modules with
   controller reuse (flow, hotspot, circuit breaker) observed with controller and statistics
   identities — the case type and checker of C13 are used as they are. *)
From SG Require Export Corr.Run_C13.
