(* Correspondence runner for C03: the harness emits, per case, the rules of one resource
   (1-3 breakers), the creation time, the operation list, the outcome of every operation
   observed on the Go implementation and the complete listener call log; `mismatches`
   returns the ids of the cases on which the model disagrees. *)
From Coq Require Import Floats.
From SG Require Export Base.Prelude Base.GoInt Base.GoFloat Model.Breaker.
#[local] Open Scope Z_scope.

Definition obs_eqb (a b : obs) : bool :=
  match a, b with
  | OPass, OPass | OBlockLater, OBlockLater | ONone, ONone => true
  | OBlock i, OBlock j => i =? j
  | _, _ => false
  end.

Definition snap_eqb (a b : option snap) : bool :=
  match a, b with
  | None, None => true
  | Some (SF x), Some (SF y) => feqb x y
  | Some (SZ x), Some (SZ y) => x =? y
  | _, _ => false
  end.

Definition lev_eqb (a b : lev) : bool :=
  match a, b with
  | LEv i (TEv f t s), LEv j (TEv f' t' s') => (i =? j) && bst_eqb f f' && bst_eqb t t' && snap_eqb s s'
  end.

Fixpoint list_eqb {A} (eqb : A -> A -> bool) (a b : list A) : bool :=
  match a, b with
  | [], [] => true
  | x :: xs, y :: ys => eqb x y && list_eqb eqb xs ys
  | _, _ => false
  end.

Inductive case :=
| Seq (id : Z) (t0 : Z) (cfgs : list cfg) (ops : list op) (observed : list obs) (listener_log : list lev).

Definition case_ok (c : case) : bool :=
  match c with
  | Seq _ t0 cfgs ops observed lg =>
      let '(s, o) := run cfgs (rinit cfgs t0) ops in
      list_eqb obs_eqb o observed && list_eqb lev_eqb (log s) lg
  end.

Definition case_id (c : case) : Z := match c with Seq id _ _ _ _ _ => id end.

Definition mismatches (cs : list case) : list Z :=
  map case_id (filter (fun c => negb (case_ok c)) cs).
