(* Correspondence runner for C01.  Same case format and model as C16 (Corr/Run_C16.v), with one
   more projection: slots with a negative id are the model image of built-in slots of the real
   default chain (node prepare, hotspot rule check), which do not record their calls - their
   LPrep / LCheck entries are dropped from the model's call logs before the comparison. *)
From SG Require Export Base.Prelude Model.Chain Corr.Run_C16.

Definition recorded (c : call) : bool :=
  match c with
  | LPrep i | LCheck i | LHandler i => 0 <=? i
  | LPassed i _ _ | LBlocked i _ _ _ | LDone i _ _ _ _ => 0 <=? i
  end.

Definition strip (o : obs) : obs :=
  match o with
  | REntered e c lg => REntered e c (filter recorded lg)
  | RBlocked c b lg => RBlocked c b (filter recorded lg)
  | RCalls lg => RCalls (filter recorded lg)
  | _ => o
  end.

Definition case_ok01 (c : case) : bool :=
  match c with
  | Case _ chs ops observed => list_eqb obs_eqb (map strip (snd (run (chains_fn chs) init ops))) observed
  end.

Definition mismatches (cs : list case) : list Z :=
  map case_id (filter (fun c => negb (case_ok01 c)) cs).

Definition case_diff01 (c : case) : Z * option obs :=
  match c with
  | Case _ chs ops observed =>
      let m := map strip (snd (run (chains_fn chs) init ops)) in
      let i := first_diff 0 m observed in (i, nth_error m (Z.to_nat i))
  end.
