(* Correspondence runner for C08: histories of writes and reads against a BucketLeapArray with
   several window views, and against a BaseStatNode; every read result observed on the Go
   implementation is compared with the model's. *)
From Coq Require Import Floats.
From SG Require Export Base.Prelude Base.GoInt Base.GoFloat Model.LeapArray Model.StatNode.
#[local] Open Scope Z_scope.

Inductive op :=
| OAdd (t ev c : Z)                 (* AddCount *)
| OConc (t cc : Z)                  (* UpdateConcurrency *)
| OCount (t ev : Z)                 (* BucketLeapArray.Count (refreshes) *)
| OArrMin (t : Z) | OArrMax (t : Z) (* BucketLeapArray.MinRt / MaxConcurrency (refresh) *)
| OVSum (v t ev : Z)                (* view v: GetSum *)
| OVQps (v t ev : Z) | OVPrev (v t ev : Z)
| OVMin (v t : Z) | OVMaxC (v t : Z) | OVMaxS (v t ev : Z) | OVAvg (v t : Z)
| OSec (t lo hi : Z)                (* SecondMetricsOnCondition(start in [lo,hi]) via view 0 *)
| OVals (t : Z).                    (* Values(now): starts of the valid buckets (refreshes) *)

Inductive res :=
| RNone
| RZ (z : Z)
| RF (f : float)
| RItems (l : list (list Z))        (* ts pass block complete error avgrt conc *)
| RList (l : list Z).

Fixpoint insZ (x : Z) (l : list Z) : list Z :=
  match l with [] => [x] | y :: r => if x <=? y then x :: l else y :: insZ x r end.
Definition sortZ (l : list Z) : list Z := fold_right insZ [] l.

Definition item_row (i : mitem) : list Z :=
  [it_ts i; it_pass i; it_block i; it_complete i; it_error i; it_avgrt i; it_conc i].

Definition nthv (vs : list view) (i : Z) : view := nth (Z.to_nat i) vs {| v_n := 1; v_itv := 1 |}.

Definition step (vs : list view) (a : bla) (o : op) : bla * res :=
  match o with
  | OAdd t ev c => (bla_add a t ev c, RNone)
  | OConc t cc => (bla_update_conc a t cc, RNone)
  | OCount t ev => let '(a', m) := bla_read a t in (a', RZ (mb_get ev m))
  | OArrMin t => let '(a', m) := bla_read a t in (a', RZ (m_minrt m))
  | OArrMax t => let '(a', m) := bla_read a t in (a', RZ (m_maxc m))
  | OVSum v t ev => (a, RZ (view_sum a (nthv vs v) t ev))
  | OVQps v t ev => (a, RF (view_qps a (nthv vs v) t ev))
  | OVPrev v t ev => (a, RF (view_prev_qps a (nthv vs v) t ev))
  | OVMin v t => (a, RF (f_of_i64 (view_min_rt a (nthv vs v) t)))
  | OVMaxC v t => (a, RZ (view_max_conc a (nthv vs v) t))
  | OVMaxS v t ev => (a, RZ (view_max_single a (nthv vs v) t ev))
  | OVAvg v t => (a, RF (view_avg_rt a (nthv vs v) t))
  | OSec t lo hi => (a, RItems (map item_row (second_metrics a t (fun ws => (lo <=? ws) && (ws <=? hi)))))
  | OVals t =>
      let l := g_refresh mb_e (la_n a) (la_bl a) (la_slots a) t in
      (bla_with a l, RList (sortZ (map fst (g_values (la_n a) (la_bl a) l t))))
  end.

Fixpoint run (vs : list view) (a : bla) (ops : list op) : bla * list res :=
  match ops with
  | [] => (a, [])
  | o :: r => let '(a1, x) := step vs a o in let '(a2, xs) := run vs a1 r in (a2, x :: xs)
  end.

Fixpoint listZ_eqb (a b : list Z) : bool :=
  match a, b with [], [] => true | x :: xs, y :: ys => (x =? y) && listZ_eqb xs ys | _, _ => false end.
Fixpoint rows_eqb (a b : list (list Z)) : bool :=
  match a, b with [], [] => true | x :: xs, y :: ys => listZ_eqb x y && rows_eqb xs ys | _, _ => false end.

Definition res_eqb (a b : res) : bool :=
  match a, b with
  | RNone, RNone => true
  | RZ x, RZ y => x =? y
  | RF x, RF y => feqb x y
  | RItems x, RItems y => rows_eqb x y
  | RList x, RList y => listZ_eqb x y
  | _, _ => false
  end.
Fixpoint ress_eqb (a b : list res) : bool :=
  match a, b with [] , [] => true | x :: xs, y :: ys => res_eqb x y && ress_eqb xs ys | _, _ => false end.

(* node-level operations *)
Inductive nop :=
| NAdd (t ev c : Z) | NInc (t : Z) | NDec
| NSum (t ev : Z) | NQps (t ev : Z) | NPrev (t ev : Z) | NAvg (t : Z) | NMin (t : Z)
| NMaxC (t : Z) | NMaxAvg (t ev : Z) | NCur | NItems (t lo hi : Z).

Definition nstep (x : node) (o : nop) : node * res :=
  match o with
  | NAdd t ev c => (node_add x t ev c, RNone)
  | NInc t => (node_inc x t, RNone)
  | NDec => (node_dec x, RNone)
  | NSum t ev => (x, RZ (node_sum x t ev))
  | NQps t ev => (x, RF (node_qps x t ev))
  | NPrev t ev => (x, RF (node_prev_qps x t ev))
  | NAvg t => (x, RF (node_avg_rt x t))
  | NMin t => (x, RF (node_min_rt x t))
  | NMaxC t => (x, RZ (node_max_conc x t))
  | NMaxAvg t ev => (x, RF (node_max_avg x t ev))
  | NCur => (x, RZ (nd_conc x))
  | NItems t lo hi => (x, RItems (map item_row (second_metrics (nd_arr x) t (fun ws => (lo <=? ws) && (ws <=? hi)))))
  end.

Fixpoint nrun (x : node) (ops : list nop) : node * list res :=
  match ops with
  | [] => (x, [])
  | o :: r => let '(x1, y) := nstep x o in let '(x2, ys) := nrun x1 r in (x2, y :: ys)
  end.

Definition slot_row (s : Z * mb) : list Z :=
  [fst s; c_pass (snd s); c_block (snd s); c_complete (snd s); c_error (snd s); c_rt (snd s); m_minrt (snd s); m_maxc (snd s)].

Inductive case :=
| Arr (id n itv t0 : Z) (views : list (Z * Z)) (view_ok : list bool) (ops : list op) (observed : list res)
      (final_slots : list (list Z))
| Node (id gn gitv vn vitv t0 : Z) (ops : list nop) (observed : list res).

Fixpoint bools_eqb (a b : list bool) : bool :=
  match a, b with [], [] => true | x :: xs, y :: ys => Bool.eqb x y && bools_eqb xs ys | _, _ => false end.

Definition case_ok (c : case) : bool :=
  match c with
  | Arr _ n itv t0 views vok ops observed fslots =>
      let vs := map (fun p => {| v_n := fst p; v_itv := snd p |}) views in
      let '(a, rs) := run vs (bla_new n itv t0) ops in
      bools_eqb (map (fun p => check_reuse (fst p) (snd p) n itv) views) vok &&
      ress_eqb rs observed && rows_eqb (map slot_row (la_slots a)) fslots
  | Node _ gn gitv vn vitv t0 ops observed =>
      let '(_, rs) := nrun (node_new gn gitv vn vitv t0) ops in ress_eqb rs observed
  end.

Definition case_id (c : case) : Z := match c with Arr id _ _ _ _ _ _ _ _ => id | Node id _ _ _ _ _ _ _ => id end.

Definition mismatches (cs : list case) : list Z := map case_id (filter (fun c => negb (case_ok c)) cs).
