(* Correspondence runner for C18.  The harness delivers payload sequences to the real
   DefaultPropertyHandler (real *JsonArrayParser, real *RulesUpdater, real rule manager) and
   emits, per case: the classification of every payload obtained from the real parser, the
   validity of every decoded rule, the deliveries, and what was observed (Handle's return and
   the rules in force after each delivery).  `mismatches` lists the cases on which the model
   (Model/Datasource.v instantiated by Model/DatasourceRef.v) predicts something else. *)
From Coq Require Export Ascii String.
From SG Require Export Base.Prelude Model.Datasource Model.DatasourceRef Model.Json Model.DatasourceWire.

Fixpoint zl_eqb (a b : list Z) : bool :=
  match a, b with
  | [], [] => true
  | x :: xs, y :: ys => (x =? y) && zl_eqb xs ys
  | _, _ => false
  end.

(* Handle's observable result: 0 = nil, 1 = error, 2 = a panic escaped (never predicted) *)
Definition code_of (o : outcome) : Z :=
  match o with Returned RNil => 0 | Returned RErr => 1 | Panicked => 2 end.

(* one delivery: (payload id, the injected loader fault fired during this delivery) *)
Fixpoint hsim (tab : list (Z * cls)) (validtab : list Z) (s : rstate) (ops : list (Z * bool))
  : list (Z * list Z) * bool :=
  match ops with
  | [] => ([], true)
  | (pid, lfail) :: rest =>
      let s1 := set_fault s lfail in
      let '(s2, o) := rhandle tab validtab false s1 pid in
      (* a fault can only have fired if the handler reached the loader *)
      let reached := negb lfail || (m_calls (snd s2) =? m_calls (snd s1) + 1) in
      let '(obs, ok) := hsim tab validtab s2 rest in
      ((code_of o, m_rules (snd s2)) :: obs, reached && ok)
  end.

(* deliveries with a fault KIND: 0 = none, 1 = the injected loader fault fired (the rule manager's load
   returned an error), 2 = the updater itself panicked before touching the rule manager (a custom
   PropertyUpdater wrapped around the module's; the panic is recovered inside Handle) *)
Definition panic_load (l : list (option Z)) (m : rmgr) : rmgr * lres := (m, LPanic).
Definition panic_clear (m : rmgr) : rmgr * lres := (m, LPanic).

Fixpoint hsimk (tab : list (Z * cls)) (validtab : list Z) (s : rstate) (ops : list (Z * Z))
  : list (Z * list Z) * bool :=
  match ops with
  | [] => ([], true)
  | (pid, k) :: rest =>
      let s1 := set_fault s (k =? 1) in
      let '(s2, o) := if k =? 2
                      then handle (rconvert tab) rpeq (rtyped false) panic_load panic_clear s1 pid
                      else rhandle tab validtab false s1 pid in
      (* a fault can only have fired if the handler reached the updater / the loader *)
      let reached :=
        if k =? 1 then m_calls (snd s2) =? m_calls (snd s1) + 1
        else if k =? 2 then
          match snd (handle_body (rconvert tab) rpeq (rtyped false) panic_load panic_clear s1 pid) with
          | Panicked => true | _ => false end
        else true in
      let '(obs, ok) := hsimk tab validtab s2 rest in
      ((code_of o, m_rules (snd s2)) :: obs, reached && ok)
  end.

Fixpoint obs_eqb (a b : list (Z * list Z)) : bool :=
  match a, b with
  | [], [] => true
  | (c1, r1) :: xs, (c2, r2) :: ys => (c1 =? c2) && zl_eqb r1 r2 && obs_eqb xs ys
  | _, _ => false
  end.

(* ---- file datasource: payload ids as file contents --------------------------------------- *)

Definition rfstate := fstate Z rprop rmgr.

(* the harness reports, after every operation at which the event queue was drained, the mode
   (0 watching / 1 closed) and the rules in force *)
Inductive fobs := FObs (closed : bool) (rules : list Z).

Definition fobs_eqb (a b : fobs) : bool :=
  match a, b with FObs c1 r1, FObs c2 r2 => Bool.eqb c1 c2 && zl_eqb r1 r2 end.

(* drain: process pending events (bounded by the queue length, each Process consumes one) *)
Fixpoint drain (tab : list (Z * cls)) (validtab : list Z) (n : nat) (st : rfstate) : rfstate :=
  match n with
  | O => st
  | S k =>
      match f_queue st with
      | [] => st
      | _ => drain tab validtab k
               (fstep (rconvert tab) rpeq (rtyped false) (rload validtab) rclear (-1) st Process)
      end
  end.

Definition fobserve (st : rfstate) : fobs :=
  FObs (match f_mode st with Closed => true | Watching => false end) (m_rules (snd (f_hs st))).

(* a group of world operations happens without the watcher goroutine getting to run in between
   (e.g. the file is renamed away and a new file is put at the path while the goroutine sleeps
   before its first re-watch attempt); then the queue is drained and the observation taken *)
Fixpoint fsim (tab : list (Z * cls)) (validtab : list Z) (st : rfstate) (ops : list (list (fop Z))) : list fobs :=
  match ops with
  | [] => []
  | g :: rest =>
      let st1 := fold_left (fstep (rconvert tab) rpeq (rtyped false) (rload validtab) rclear (-1)) g st in
      let st2 := drain tab validtab (length (f_queue st1)) st1 in
      fobserve st2 :: fsim tab validtab st2 rest
  end.

Fixpoint fobsl_eqb (a b : list fobs) : bool :=
  match a, b with
  | [], [] => true
  | x :: xs, y :: ys => fobs_eqb x y && fobsl_eqb xs ys
  | _, _ => false
  end.

(* ---- wire format: the real *JsonArrayParser against Model/Json.v ----------------------------- *)

(* a field of a rule the Go parser returned: string, integer, float64 (IEEE bits), or hotspot's
   SpecificItems map (entries in any order; float keys as bits) *)
Inductive gval := GStr (s : jbytes) | GInt (z : Z) | GFlt (bits : Z) | GMap (l : list (gkey * Z)).

(* what the parser returned: (nil, err) | (nil, nil) | a rule slice (nil slice?, nil elements) | it panicked *)
Inductive gres := GErr | GNil | GRules (isnil : bool) (l : list (option (list gval))) | GPanic.

Definition gkey_same (a b : gkey) : bool :=
  match a, b with
  | KInt x, KInt y => x =? y
  | KStr x, KStr y => la_eqb x y
  | KBool x, KBool y => Bool.eqb x y
  | KFlt x, KFlt y => x =? y
  | _, _ => false
  end.

Definition entry_same (a b : gkey * Z) : bool := gkey_same (fst a) (fst b) && (snd a =? snd b).

Definition map_same (a b : list (gkey * Z)) : bool :=
  (Z.of_nat (length a) =? Z.of_nat (length b)) &&
  forallb (fun x => existsb (entry_same x) b) a && forallb (fun y => existsb (entry_same y) a) b.

(* ftab: float literal -> bits of strconv.ParseFloat(literal); itab: see Model/Json.v conv_key *)
Definition val_match (ftab : list (jbytes * Z)) (itab : list (jbytes * option Z)) (v : fval) (g : gval) : bool :=
  match v, g with
  | FStr s, GStr t => la_eqb s t
  | FInt z, GInt y => z =? y
  | FNum lit, GFlt bits => match blookup lit ftab with Some b => b =? bits | None => false end
  | FItems l, GMap m => map_same (conv_items itab l) m
  | _, _ => false
  end.

Fixpoint rule_match ftab itab (r : wrule) (g : list gval) : bool :=
  match r, g with
  | [], [] => true
  | v :: r', x :: g' => val_match ftab itab v x && rule_match ftab itab r' g'
  | _, _ => false
  end.

Fixpoint rules_match ftab itab (l : list (option wrule)) (g : list (option (list gval))) : bool :=
  match l, g with
  | [], [] => true
  | None :: l', None :: g' => rules_match ftab itab l' g'
  | Some r :: l', Some x :: g' => rule_match ftab itab r x && rules_match ftab itab l' g'
  | _, _ => false
  end.

Definition res_match ftab itab (d : dres) (g : gres) : bool :=
  match d, g with
  | Undecodable, GErr => true
  | Empty, GNil => true
  | Rules n l, GRules n' gl => Bool.eqb n n' && rules_match ftab itab l gl
  | _, _ => false
  end.

Definition ftype_eqb (a b : ftype) : bool :=
  match a, b with
  | TStr, TStr | TNum, TNum | TItems, TItems => true
  | TInt l1 h1, TInt l2 h2 => (l1 =? l2) && (h1 =? h2)
  | _, _ => false
  end.

Fixpoint schema_eqb (a b : schema) : bool :=
  match a, b with
  | [], [] => true
  | (k1, t1) :: a', (k2, t2) :: b' => la_eqb k1 k2 && ftype_eqb t1 t2 && schema_eqb a' b'
  | _, _ => false
  end.

(* the members of hotspot_rule_converter.go SpecificValue that set_item / enc_item hard-code *)
Definition item_schema : schema := [ (B "valKind", i64); (B "valStr", TStr); (B "threshold", i64) ].

(* payloads with bytes that cannot stand in a Coq string literal *)
Definition bytes_of (l : list Z) : jbytes := map (fun z => ascii_of_nat (Z.to_nat z)) l.

Inductive case :=
| HCase (id : Z) (parser : Z) (validtab : list Z) (tab : list (Z * cls))
        (ops : list (Z * bool)) (observed : list (Z * list Z))
    (* deliveries to a property handler *)
| FCase (id : Z) (validtab : list Z) (tab : list (Z * cls)) (init_content : Z)
        (ops : list (list (fop Z))) (init_obs : fobs) (observed : list fobs)
    (* a RefreshableFileDataSource driven through file operations; payload id -1 is Handle(nil) *)
| WCase (id : Z) (kind : Z) (payload : jbytes) (insub : bool) (enc_of : option (list wrule))
        (ftab : list (jbytes * Z)) (itab : list (jbytes * option Z)) (observed : gres)
    (* one payload given to the real parser of module `kind`; enc_of = Some l claims that the
       payload is the model encoder's output for l *)
| SCase (id : Z) (kind : Z) (go_schema : schema)
    (* json tags and field types of the Go wire struct, read by reflection (kind 5 = SpecificValue) *)
| PCase (id : Z) (parser : Z) (validtab : list Z) (tab : list (Z * cls))
        (ops : list (Z * Z)) (observed : list (Z * list Z))
    (* deliveries with fault kinds (hsimk): loader errors and updater panics, re-deliveries after them *).

Definition case_ok (c : case) : bool :=
  match c with
  | HCase _ _ validtab tab ops observed =>
      let '(obs, ok) := hsim tab validtab rinit ops in
      ok && obs_eqb obs observed
  | PCase _ _ validtab tab ops observed =>
      let '(obs, ok) := hsimk tab validtab rinit ops in
      ok && obs_eqb obs observed
  | FCase _ validtab tab c0 ops o0 observed =>
      let tab' := (-1, KNil) :: tab in
      let st0 := finit (rconvert tab') rpeq (rtyped false) (rload validtab) rclear rinit c0 in
      fobs_eqb (fobserve st0) o0 && fobsl_eqb (fsim tab' validtab st0 ops) observed
  | WCase _ kind payload insub enc_of ftab itab observed =>
      let sch := schema_of kind in
      Bool.eqb (in_subset payload) insub &&
      match enc_of with
      | Some l => forallb (rule_ok sch) l && la_eqb (encode sch l) payload
      | None => true
      end &&
      (if insub then res_match ftab itab (parser_result kind (decode sch payload)) observed else true)
  | SCase _ kind gs =>
      if kind =? 5 then schema_eqb item_schema gs else schema_eqb (schema_of kind) gs
  end.

Definition case_id (c : case) : Z :=
  match c with
  | HCase id _ _ _ _ _ => id | FCase id _ _ _ _ _ _ => id
  | WCase id _ _ _ _ _ _ _ => id | SCase id _ _ => id
  | PCase id _ _ _ _ _ => id
  end.

Definition mismatches (cs : list case) : list Z :=
  map case_id (filter (fun c => negb (case_ok c)) cs).
